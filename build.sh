#!/bin/bash
# builds the binary that serves check $1 from /repo's current working tree; prints its path on the last line
set -eu
V=$(cd "$(dirname "$0")" && pwd)
export GOFLAGS=-mod=mod GOPROXY=off GOSUMDB=off GOTOOLCHAIN=local
ID=${1:-all}
cd "$V/harness"
cp /repo/go.sum go.sum.repo
cat go.sum.repo go.sum.extra 2>/dev/null | sort -u > go.sum
rm -f go.sum.repo
mkdir -p "$V/.bin"
go build -o "$V/.bin/vinstr" ./cmd/vinstr
OV="$V/.bin/overlay"
if "$V/.bin/vinstr" -repo /repo -shim "$V/shim" -out "$OV" && go build -overlay "$OV/overlay.json" -tags verifx -o "$V/.bin/vcheck" ./cmd/vcheck \
   && (cd /repo && go build -overlay "$OV/overlay.json" -o "$V/.bin/csvq-verif" .); then
  echo "$V/.bin/vcheck"
  exit 0
fi
echo "instrumented build failed; building the plain harness (checks that need the overlay are unavailable)"
go build -o "$V/.bin/vcheck" ./cmd/vcheck
echo "$V/.bin/vcheck"
