#!/bin/bash
# builds the binary that serves check $1 from the repository's current working tree; prints its path on the last line.
# VERIF_REPO (default /repo) selects the tree; a non-default tree gets its own output directory, so testing a
# scratch worktree never disturbs /repo or the binaries built from it.
set -eu
V=$(cd "$(dirname "$0")" && pwd)
export GOFLAGS=-mod=mod GOPROXY=off GOSUMDB=off GOTOOLCHAIN=local
ID=${1:-all}
REPO=${VERIF_REPO:-/repo}
BIN="$V/.bin"
MODFLAG=""
cd "$V/harness"
cat "$REPO/go.sum" go.sum.extra 2>/dev/null | sort -u > go.sum
if [ "$REPO" != "/repo" ]; then
  BIN="$V/.bin/alt-$(echo "$REPO" | tr '/' '_')"
  mkdir -p "$BIN"
  sed "s#=> /repo#=> $REPO#" go.mod > "$BIN/go.mod"
  cp go.sum "$BIN/go.sum"
  MODFLAG="-modfile=$BIN/go.mod"
fi
mkdir -p "$BIN"
go build -o "$V/.bin/vinstr" ./cmd/vinstr
OV="$BIN/overlay"
if "$V/.bin/vinstr" -repo "$REPO" -shim "$V/shim" -out "$OV" && go build $MODFLAG -overlay "$OV/overlay.json" -tags verifx -o "$BIN/vcheck" ./cmd/vcheck \
   && (cd "$REPO" && go build -overlay "$OV/overlay.json" -o "$BIN/csvq-verif" .); then
  if [ "$ID" = "C13" ] || [ "$ID" = "all" ]; then
    # the race-enabled harness (C13); same sources, same overlay
    go build $MODFLAG -race -overlay "$OV/overlay.json" -tags verifx -o "$BIN/vcheck-race" ./cmd/vcheck
  fi
  if [ "$ID" = "C13" ]; then
    echo "$BIN/vcheck-race"
  else
    echo "$BIN/vcheck"
  fi
  exit 0
fi
echo "instrumented build failed; building the plain harness (checks that need the overlay are unavailable)"
go build $MODFLAG -o "$BIN/vcheck" ./cmd/vcheck
echo "$BIN/vcheck"
