#!/bin/bash
# ./confirm_seed.sh <Cxx> <mK>  — confirms a candidate seeded change in a scratch worktree:
#   suite passes with the patch, demonstration fails with it and passes without it.
# On success copies it to /verif/seeded/<Cxx>-<mK>/ (patch.diff, demo, notes.md, meta.json).
ID=$1; M=$2
SRC=/tmp/seed/$ID.out/$M
export GOFLAGS=-mod=mod GOPROXY=off GOSUMDB=off GOTOOLCHAIN=local
WT=/tmp/confirm-$ID-$M
export TMPDIR=/tmp/confirm-tmp-$ID-$M; mkdir -p $TMPDIR
git -C /repo worktree remove --force $WT 2>/dev/null
git -C /repo worktree add -q --detach $WT 3a01680 || exit 9
cd $WT
res() { echo "$1"; cd /; git -C /repo worktree remove --force $WT; rm -rf $TMPDIR; exit $2; }
git apply $SRC/patch.diff || res "PATCH-DOES-NOT-APPLY" 1
suite=pass
for i in 1 2; do go test -vet=off -count=1 ./... > $TMPDIR/suite.log 2>&1 || suite=fail; done
[ $suite = pass ] || { tail -20 $TMPDIR/suite.log; res "SUITE-FAILS-WITH-PATCH" 1; }
rundemo() {
  if [ -f $SRC/demo.sh ]; then timeout 600 bash $SRC/demo.sh $WT > $TMPDIR/demo.log 2>&1; return $?; fi
  if [ -f $SRC/demo_test.go ]; then
    pkg=$(grep -o 'lib/[a-z]*' $SRC/notes.md | head -1); pkgname=$(grep -m1 '^package' $SRC/demo_test.go | awk '{print $2}')
    [ -d "lib/$pkgname" ] && pkg=lib/$pkgname
    cp $SRC/demo_test.go $pkg/zz_demo_test.go
    timeout 900 go test $RACEFLAG -vet=off -count=1 -run 'Demo|Seed|TestC[0-9]' ./$pkg/ > $TMPDIR/demo.log 2>&1; rc=$?
    rm -f $pkg/zz_demo_test.go; return $rc
  fi
  echo "no demo" > $TMPDIR/demo.log; return 99
}
rundemo; with=$?
git checkout -- . ; git clean -fdq
rundemo; without=$?
if [ $with -ne 0 ] && [ $with -ne 99 ] && [ $without -eq 0 ]; then
  D=/verif/seeded/$ID-$M; mkdir -p $D
  cp $SRC/patch.diff $D/; cp $SRC/notes.md $D/ 2>/dev/null; cp $SRC/demo.sh $SRC/demo_test.go $D/ 2>/dev/null
  res "CONFIRMED suite=pass demo_with_patch=fail($with) demo_without=pass" 0
fi
tail -5 $TMPDIR/demo.log
res "NOT-CONFIRMED with=$with without=$without" 1
