#!/bin/bash
# ./seedtest.sh <patch.diff> <ID> [tier]  — applies a seeded change to /repo, runs the check, always reverts
P=$1; ID=$2; TIER=${3:-quick}
cd /repo || exit 9
if [ -n "$(git status --porcelain)" ]; then echo "/repo is not clean"; exit 9; fi
git apply "$P" || { echo "patch does not apply"; exit 9; }
/verif/check "$ID" "$TIER" > /tmp/seedtest.$$.log 2>&1; rc=$?
git checkout -- . && git clean -fdq
grep -E "^(VIOLATION|KNOWN-FINDING|BUILD-FAILED|C[0-9]+ )" /tmp/seedtest.$$.log | head -8
grep -A1 "^--- " /tmp/seedtest.$$.log | head -6
rm -f /tmp/seedtest.$$.log
echo "exit=$rc"
