#!/bin/bash
# ./seedtest.sh <patch.diff> <ID> [tier]  — applies a seeded change to a scratch worktree of /repo's HEAD (never to
# /repo itself), runs the check against that worktree, removes the worktree.
P=$1; ID=$2; TIER=${3:-quick}
V=$(cd "$(dirname "$0")" && pwd)
WT=/tmp/seedwt-$$
git -C /repo worktree add -q --detach $WT HEAD || exit 9
cleanup() { git -C /repo worktree remove --force $WT 2>/dev/null; rm -rf $V/.bin/alt-$(echo $WT | tr '/' '_'); }
trap cleanup EXIT
( cd $WT && git apply "$P" ) || { echo "patch does not apply"; exit 9; }
VERIF_REPO=$WT VERIF_NO_EVIDENCE=1 $V/check "$ID" "$TIER" > /tmp/seedtest.$$.log 2>&1; rc=$?
grep -E "^(VIOLATION|KNOWN-FINDING|BUILD-FAILED|C[0-9]+ )" /tmp/seedtest.$$.log | cut -c1-220 | head -8
grep -A1 "^--- " /tmp/seedtest.$$.log | cut -c1-300 | head -6
rm -f /tmp/seedtest.$$.log
echo "exit=$rc"
