#!/bin/bash
# mergevb.sh <ID>: merges branch vb-<ID> into main; known_findings.jsonl conflicts are resolved by keeping both sides' lines
cd /verif
git merge --no-edit vb-$1 > /tmp/merge.log 2>&1
if grep -q CONFLICT /tmp/merge.log; then
  if [ "$(git diff --name-only --diff-filter=U)" = "known_findings.jsonl" ]; then
    sed -i '/^<<<<<<< /d; /^=======$/d; /^>>>>>>> /d' known_findings.jsonl
    python3 -c "
import json
for l in open('/verif/known_findings.jsonl'):
    if l.strip(): json.loads(l)
" && git add known_findings.jsonl && git commit -qm "Merge branch 'vb-$1'" && echo "merged (known_findings both sides kept)"
  else
    echo "UNRESOLVED CONFLICTS:"; git diff --name-only --diff-filter=U
  fi
else
  tail -1 /tmp/merge.log
fi
