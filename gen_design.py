#!/usr/bin/env python3
"""Fills the tables of DESIGN.tmpl.md (fix commits from git, known findings and seeds from the committed JSON) -> DESIGN.md"""
import json, glob, subprocess
t = open('/verif/DESIGN.tmpl.md').read()
log = subprocess.run(['git', '-C', '/repo', 'log', '--reverse', '--format=%h %s'], capture_output=True, text=True).stdout.strip().split('\n')
fixes = ['| %s | %s |' % (l.split(' ', 1)[0], l.split(' ', 1)[1][5:].replace('|', '\\|')) for l in log if ' fix: ' in ' ' + l.split(' ', 1)[1] + ' ' and l.split(' ', 1)[1].startswith('fix:')]
known = []
for l in open('/verif/known_findings.jsonl'):
    l = l.strip()
    if not l:
        continue
    d = json.loads(l)
    if d['status'] == 'known':
        known.append('| %s | `%s` | %s |' % (d['property'], d['signature'].replace('|', '\\|'), d['what'].replace('|', '\\|')))
seeds = []
for d in sorted(glob.glob('/verif/seeded/*/')):
    m = json.load(open(d + '/meta.json'))
    seeds.append('| %s | %s | %s |' % (d.rstrip('/').split('/')[-1], ', '.join(m['detected_by']), m['detection']))
t = t.replace('@@FIXES@@', '\n'.join(fixes)).replace('@@KNOWN@@', '\n'.join(known)).replace('@@SEEDS@@', '\n'.join(seeds))
missed = sum(1 for d in sorted(glob.glob('/verif/seeded/*-r[678]m*/')) if json.load(open(d + '/meta.json'))['detection'].startswith('missed'))
t = t.replace('@@MISSED678@@', str(missed))
missed9 = sum(1 for d in sorted(glob.glob('/verif/seeded/*-r9m*/')) if json.load(open(d + '/meta.json'))['detection'].startswith(('missed', 'no verdict')))
t = t.replace('@@MISSED9@@', str(missed9))
t = t.replace('@@NFIX@@', str(len(fixes))).replace('@@NKNOWN@@', str(len(known))).replace('@@NSEED@@', str(len(seeds)))
open('/verif/DESIGN.md', 'w').write(t)
print('fixes', len(fixes), 'known', len(known), 'seeds', len(seeds))
