#!/usr/bin/env python3
"""Writes seeded/<id>/meta.json for the rounds whose metadata is derived from the notes of the seeding agent and from
seeded/regress.tsv (rounds 6-8). Usage: gen_meta.py <round> <head-commit-of-/repo-at-that-round> [notes.tsv]
notes.tsv (optional): seed <tab> 'missed at first; ...' text overriding the default detection sentence."""
import json, re, sys, glob, os

rnd, head = sys.argv[1], sys.argv[2]
over = {}
if len(sys.argv) > 3:
    for l in open(sys.argv[3]):
        p = l.rstrip('\n').split('\t')
        if len(p) >= 2:
            over[p[0]] = p[1:]
reg = {}
for l in open('/verif/seeded/regress.tsv'):
    p = l.rstrip('\n').split('\t')
    if len(p) >= 4:
        reg[(p[0], p[1])] = (p[2], p[3])

def section(t, pat):
    m = re.search(r'^##+ *(?:' + pat + r').*?\n(.*?)(?=^## |\Z)', t, re.S | re.M | re.I)
    return m.group(1).strip() if m else ''

def flat(s, n):
    s = re.sub(r'```.*?```', ' ', s, flags=re.S)
    s = re.sub(r'\s+', ' ', s).strip()
    return s if len(s) <= n else s[:n].rsplit(' ', 1)[0] + ' ...'

for d in sorted(glob.glob('/verif/seeded/*-r%sm*/' % rnd)):
    s = os.path.basename(d.rstrip('/'))
    pid = s.split('-')[0]
    t = open(d + 'notes.md').read() if os.path.exists(d + 'notes.md') else ''
    title = t.split('\n', 1)[0].lstrip('# ').strip()
    title = re.sub(r'^(C\d+\s*/?\s*)?(round \d+\s*/?\s*)?(mutant \d+|m\d)\s*[-—:]*\s*', '', title, flags=re.I).strip(' -—')
    needs = flat(section(t, r'What is needed|What it needs|Trigger'), 420)
    by, det = [], ''
    for (sd, chk), (rc, sig) in reg.items():
        if sd == s and rc == '1':
            by.append(chk)
    by = sorted(set(by), key=lambda x: (x != pid, x))
    if s in over:
        o = over[s]
        det = o[0]
        if len(o) > 1 and o[1]:
            by = o[1].split(',')
    elif pid in by:
        det = 'caught by %s quick (%s)' % (pid, reg[(s, pid)][1])
    elif by:
        det = 'caught by %s quick (%s); not by %s' % (by[0], reg[(s, by[0])][1], pid)
    else:
        det = 'NOT detected'
    meta = {
        'breaks_property': pid, 'round': int(rnd), 'change': title, 'needs_to_manifest': needs,
        'origin': 'independent sub-agent given only the property text, the sites used in earlier rounds (to avoid), the shapes of regressions to prefer, and a scratch worktree of /repo\'s HEAD',
        'confirmed': 'confirm_seed2.sh in a scratch worktree of /repo\'s HEAD: repository suite passes twice with the patch (private TMPDIR), the demonstration fails with the patch and passes without it',
        'applies_to': 'HEAD of /repo at the time of round %s (%s)' % (rnd, head),
        'detected_by': by, 'detection': det,
        'ran': './seedtest.sh <patch> <check>: patch applied to a scratch worktree of /repo\'s HEAD, check built against that worktree (VERIF_REPO), /repo untouched',
    }
    json.dump(meta, open(d + 'meta.json', 'w'), indent=1, ensure_ascii=False)
    print(s, by, det[:90])
