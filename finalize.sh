#!/bin/bash
# regenerates the derived documents from the committed JSON / TSV files
cd /verif
python3 gen_meta.py 6 eb3dbc9 seeded/notes_r678.tsv > /dev/null
python3 gen_meta.py 7 eb3dbc9 seeded/notes_r678.tsv > /dev/null
python3 gen_meta.py 8 890ddce seeded/notes_r678.tsv > /dev/null
python3 gen_meta.py 9 cff62b4 seeded/notes_r678.tsv > /dev/null
python3 gen_design.py
python3 gen_manifest.py > /dev/null
./validate.sh | tail -1
grep -c "NOT detected" DESIGN.md
