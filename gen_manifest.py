#!/usr/bin/env python3
"""Regenerates MANIFEST.json from the table below (kept next to the checks so the two stay in step)."""
import json, sys

import glob, os
CHECKS = {}
for f in sorted(glob.glob(os.path.join(os.path.dirname(os.path.abspath(__file__)), "manifest_checks", "C*.json"))):
    CHECKS[os.path.basename(f)[:-5]] = json.load(open(f))

NOT_YET = {
}

ALL = ["C%02d" % i for i in range(1, 21)]

def main():
    checks = []
    for pid in ALL:
        if pid not in CHECKS: continue
        c = CHECKS[pid]
        checks.append({
            "property_id": pid,
            "quick_cmd": "./check %s quick" % pid,
            "thorough_cmd": "./check %s thorough" % pid,
            "evidence_file": "/verif/evidence/%s.json" % pid,
            "replay_cmd_template": "./check %s --replay {path}" % pid,
            "engine": c["engine"],
            "level_claimed": {"category": c["level"], "text": c["text"], "design_ref": "DESIGN.md section " + c["ref"]},
            "level_note": c["note"],
            "technique": c["technique"],
        })
    na = [{"property_id": p, "reason": NOT_YET.get(p, "check not built yet in this session (planned in DESIGN.md section 3); not claimed until it runs clean")}
          for p in ALL if p not in CHECKS]
    m = {
        "version": 1,
        "setup_cmd": "./setup.sh",
        "hooks": {
            "guard": "none in source: instrumentation is generated from /repo's working tree at check time and injected with `go build -overlay` (no hook commits in /repo)",
            "enable": "./build.sh <ID> (vinstr rewrites call sites into an overlay; plain checks build /repo untouched through a replace directive)",
            "baseline_off_cmd": "cd /repo && GOFLAGS=-mod=mod GOPROXY=off GOSUMDB=off go test -vet=off -count=1 ./...",
            "source_commits": [],
            "add_only": True,
        },
        "engines": [
            {"name": "seqx", "path": "harness/internal/core + harness/checks", "serves_properties": [p for p in ALL if p in CHECKS and CHECKS[p]["engine"] == "seqx"],
             "kind_free_text": "bounded-exhaustive sequential explorer: enumerates inputs / programs / histories from small alphabets on the real lib/query code in process, sharded over 16 worker processes, each case compared with a reference model"},
            {"name": "fsx", "path": "harness/internal/fsx + shim/vfs", "serves_properties": [p for p in ALL if p in CHECKS and CHECKS[p]["engine"] == "fsx"],
             "kind_free_text": "file-system-step scheduler / fault injector over the real lib/file and lib/query code (overlay-instrumented): all interleavings of simulated processes, all crash and fault points"},
            {"name": "gox", "path": "harness/internal/gox + shim/vrt", "serves_properties": [p for p in ALL if p in CHECKS and CHECKS[p]["engine"] == "gox"],
             "kind_free_text": "goroutine-schedule explorer for the worker goroutines inside one query, map iteration order as a choice point, race detector kept sighted"},
        ],
        "checks": checks,
        "not_applicable": na,
        "notes": "Known findings and fixed defects: known_findings.jsonl. Design and triage log: DESIGN.md.",
    }
    m["engines"] = [e for e in m["engines"] if e["serves_properties"]]
    json.dump(m, open("/verif/MANIFEST.json", "w"), indent=1)
    print("claimed:", [c["property_id"] for c in checks])

main()
