#!/bin/bash
# ./benign_regress.sh [pattern] — runs every property-PRESERVING change under /verif/benign against the quick checks of
# the properties anchored in the files it touches (benigntest.sh, scratch worktree each; BENIGN_PAR changes at a time,
# default 1); writes benign/regress.tsv: change, check, exit code (0 = no alarm, as it must be), exhaustive flag.
cd "$(dirname "$0")"
PAT=${1:-.}
one() {
  declare -A CHECKS=( [G1]="C01 C10 C11 C09 C20" [G2]="C09 C20 C11 C10 C01" [G3]="C02 C19 C10 C13 C01" [G4]="C03 C04 C07 C17 C12 C13 C14" [G5]="C05 C08 C16 C14 C01 C20" [G6]="C12 C13 C14 C03 C04 C15" [G7]="C15 C18 C06 C14 C16 C13" )
  # BENIGN_SHORT=1: the three checks closest to the files the group touches
  [ -n "${BENIGN_SHORT:-}" ] && CHECKS=( [G1]="C01 C11 C10" [G2]="C09 C11 C20" [G3]="C02 C19 C01" [G4]="C03 C04 C07" [G5]="C05 C08 C01" [G6]="C12 C14 C03" [G7]="C15 C18 C06" )
  d=$1; s=$(basename $d); g=${s%%-*}
  p=$d/patch.diff; [ -f $d/patch.rebased.diff ] && p=$d/patch.rebased.diff
  ./benigntest.sh $(pwd)/$p ${CHECKS[$g]} 2>&1 | sed "s/^patch does not apply/$s - patch does not apply/"
}
export -f one
ls -d benign/*/ | while read d; do basename $d | grep -Eq "$PAT" && echo $d; done | xargs -P ${BENIGN_PAR:-1} -I{} bash -c 'one {}' | tee benign/regress.log | grep -E "exit=|does not apply" | awk '{print $1"\t"$2"\t"$3"\t"$4}' > benign/regress.tsv
