package checks

import (
	"encoding/json"
	"fmt"
	"strings"

	"verif/harness/internal/core"
	"verif/harness/internal/drv"
	"verif/harness/internal/rv"
)

// Extra family for C15: a function called from INSIDE A RECURSIVE QUERY. "Every function invocation has its own
// parameters and locals": the statements of a function body are evaluated for the invocation, whatever query
// happens to call it (family context states the same for WITH clauses, aliases and cursors of the caller). Here
// the caller is the anchor member, the recursive member (select list, WHERE, a subquery of it) or the main query
// of a WITH RECURSIVE, and the body uses what a recursive query keeps state for: set operations, a recursive
// query of its own, a table named like the caller's recursive table, views and cursors declared over a UNION.
// Oracle: the value of the call equals the function written out in Go (and what PRINT gives).
func init() {
	core.Extend("C15", "family reccontext: 10 functions whose bodies hold set operations (UNION [ALL] / INTERSECT / EXCEPT in a subquery, a local view, a local cursor), a WITH RECURSIVE of their own, a file named like the caller's recursive table, a nested call "+
		"x 11 places of the call in a WITH RECURSIVE (anchor member, recursive member: select list / WHERE / subquery / UNION without ALL, main query, the recursive table named like objects of the body, the query in a cursor and inside a function) x file read before or not; "+
		"oracle: the value of the call equals the function written out in Go", c15RecCtxRun)
}

const c15RecSetup = "DECLARE g1 FUNCTION (@k) AS BEGIN RETURN (SELECT COUNT(*) FROM (SELECT 7 UNION ALL SELECT 8) s) + @k; END;\n" +
	"DECLARE g2 FUNCTION (@k) AS BEGIN RETURN (SELECT COUNT(*) FROM (SELECT 7 UNION SELECT 7) s) + @k; END;\n" +
	"DECLARE g3 FUNCTION (@k) AS BEGIN RETURN (WITH RECURSIVE r (i) AS (SELECT 1 UNION ALL SELECT i + 1 FROM r WHERE i < @k) SELECT SUM(i) FROM r); END;\n" +
	"DECLARE g4 FUNCTION (@k) AS BEGIN RETURN (SELECT COUNT(*) FROM u) + @k; END;\n" +
	"DECLARE g5 FUNCTION (@k) AS BEGIN RETURN (SELECT COUNT(*) FROM (SELECT 1 INTERSECT SELECT 1) s) + @k; END;\n" +
	"DECLARE g6 FUNCTION (@k) AS BEGIN RETURN @k * 2; END;\n" +
	"DECLARE g7 FUNCTION (@k) AS BEGIN DECLARE lv VIEW (a) AS SELECT 1 UNION ALL SELECT 2; RETURN (SELECT SUM(a) FROM lv) + @k; END;\n" +
	"DECLARE g8 FUNCTION (@k) AS BEGIN RETURN g1(@k) + 10; END;\n" +
	"DECLARE g9 FUNCTION (@k) AS BEGIN DECLARE lc CURSOR FOR SELECT 5 UNION ALL SELECT 6 UNION ALL SELECT 7; OPEN lc; VAR @n := CURSOR lc COUNT; CLOSE lc; RETURN @n + @k; END;\n" +
	"DECLARE g10 FUNCTION (@k) AS BEGIN RETURN (SELECT COUNT(*) FROM (SELECT 1 EXCEPT SELECT 2) s) + @k; END;\n"

var c15RecFiles = map[string]string{"u.csv": "v\n10\n20\n30\n40\n"}

// the functions written out (k = 3); class = what of the body meets the caller's recursion
var c15RecFuncs = []struct {
	call  string
	want  int
	class string
}{
	{"g1(3)", 5, "set operation in the body"},
	{"g2(3)", 4, "set operation in the body"},
	{"g3(3)", 6, "recursive query in the body"},
	{"g4(3)", 7, "file named like the caller's recursive table"},
	{"g5(3)", 4, "set operation in the body"},
	{"g6(3)", 6, "plain body"},
	{"g7(3)", 6, "view over a set operation declared in the body"},
	{"g8(3)", 15, "nested call of a function with a set operation"},
	{"g9(3)", 6, "cursor over a set operation declared in the body"},
	{"g10(3)", 4, "set operation in the body"},
}

// places of the call: $F is the call, $W its documented value; the value compared is the first cell of the last
// result (or the printed line); plus is what the place adds to the value of the call
var c15RecContexts = []struct {
	name, sql string
	plus      int
}{
	{"print", "PRINT $F;", 0},
	{"main-query", "WITH RECURSIVE u (n) AS (SELECT 1 UNION ALL SELECT n + 1 FROM u WHERE n < 3) SELECT $F FROM u ORDER BY n DESC LIMIT 1;", 0},
	{"anchor-member", "WITH RECURSIVE u (n, r) AS (SELECT 1, $F UNION ALL SELECT n + 1, r FROM u WHERE n < 3) SELECT r FROM u ORDER BY n DESC LIMIT 1;", 0},
	{"recursive-member-select", "WITH RECURSIVE u (n, r) AS (SELECT 1, 0 UNION ALL SELECT n + 1, $F FROM u WHERE n < 3) SELECT r FROM u ORDER BY n DESC LIMIT 1;", 0},
	{"recursive-member-where", "WITH RECURSIVE u (n) AS (SELECT 1 UNION ALL SELECT n + 1 FROM u WHERE n < 3 AND $F = $W) SELECT COUNT(*) * 1000 + $F FROM u;", 3000},
	{"recursive-member-subquery", "WITH RECURSIVE u (n, r) AS (SELECT 1, 0 UNION ALL SELECT n + 1, (SELECT $F FROM DUAL) FROM u WHERE n < 3) SELECT r FROM u ORDER BY n DESC LIMIT 1;", 0},
	{"recursive-member-union-distinct", "WITH RECURSIVE u (n, r) AS (SELECT 1, 0 UNION SELECT n + 1, $F FROM u WHERE n < 3) SELECT r FROM u ORDER BY n DESC LIMIT 1;", 0},
	{"recursive-table-named-r-s", "WITH RECURSIVE r (n, s) AS (SELECT 1, 0 UNION ALL SELECT n + 1, $F FROM r WHERE n < 3) SELECT s FROM r ORDER BY n DESC LIMIT 1;", 0},
	{"recursive-table-named-lv", "WITH RECURSIVE lv (a, r) AS (SELECT 1, 0 UNION ALL SELECT a + 1, $F FROM lv WHERE a < 3) SELECT r FROM lv ORDER BY a DESC LIMIT 1;", 0},
	{"in-cursor", "DECLARE cur CURSOR FOR WITH RECURSIVE u (n, r) AS (SELECT 1, 0 UNION ALL SELECT n + 1, $F FROM u WHERE n < 3) SELECT r FROM u ORDER BY n DESC; OPEN cur; VAR @v; FETCH cur INTO @v; PRINT @v; CLOSE cur;", 0},
	{"in-function", "DECLARE outerf FUNCTION () AS BEGIN RETURN (WITH RECURSIVE u (n, r) AS (SELECT 1, 0 UNION ALL SELECT n + 1, $F FROM u WHERE n < 3) SELECT r FROM u ORDER BY n DESC LIMIT 1); END; PRINT outerf();", 0},
}

type c15RecCase struct {
	Family  string `json:"family"`
	Call    string `json:"call"`
	Class   string `json:"class"`
	Want    string `json:"want"`
	Context string `json:"context"`
	SQL     string `json:"sql"`
	Prime   bool   `json:"prime,omitempty"` // the file was read by an earlier statement of the session
}

func c15RecOne(c *core.Ctx, dir string, k c15RecCase) {
	drv.ClearDir(dir)
	drv.WriteFiles(dir, c15RecFiles)
	env := drv.NewText(dir)
	env.Tx.Flags.SetQuiet(true)
	defer env.Close()
	if r := env.Exec(c15RecSetup); r.Err != nil || r.Panic != nil {
		c.Violate("harness:reccontext-setup", fmt.Sprint(r.Err, r.Panic), k)
		return
	}
	if k.Prime {
		env.Exec("SELECT * FROM u;")
	}
	r := env.Exec(k.SQL)
	got := ""
	if n := len(r.Views); n > 0 && r.Views[n-1] != nil && r.Err == nil {
		rows := drv.Rows(r.Views[n-1])
		if len(rows) > 0 && len(rows[0]) > 0 {
			switch v := rows[0][0]; v.K {
			case rv.Int:
				got = fmt.Sprint(v.I)
			case rv.Float:
				got = fmt.Sprint(v.F)
			case rv.Str:
				got = v.S
			default:
				got = v.Key()
			}
		}
	} else {
		lines := strings.Split(strings.TrimSpace(r.Out), "\n")
		got = strings.Trim(strings.TrimSpace(lines[len(lines)-1]), "'")
	}
	c.Eval("reccontext|"+k.Call+"|"+k.Context+fmt.Sprint(k.Prime), k.Context != "print" && k.Context != "main-query")
	if r.Err != nil || r.Panic != nil || got != k.Want {
		what := "the call gives another value than outside the recursive query"
		if r.Err != nil || r.Panic != nil {
			what = "the call fails"
		}
		c.Violate("reccontext: function called from inside a recursive query, "+k.Class+": "+what,
			fmt.Sprintf("%s in place %s: %q gives %q (err=%v panic=%v); the function written out gives %s (and so does PRINT %s outside the query)\n%s", k.Call, k.Context, k.SQL, got, r.Err, r.Panic, k.Want, k.Call, c15RecDecl(k.Call)), k)
	}
}

// c15RecDecl returns the declarations of the called function and of the functions it calls.
func c15RecDecl(call string) string {
	name := strings.SplitN(call, "(", 2)[0]
	out := ""
	for _, l := range strings.Split(c15RecSetup, "\n") {
		if strings.HasPrefix(l, "DECLARE "+name+" ") || (name == "g8" && strings.HasPrefix(l, "DECLARE g1 ")) {
			out += l + "\n"
		}
	}
	return out
}

func c15RecCtxRun(c *core.Ctx) {
	if c15Skip(c, "reccontext") {
		return
	}
	dir := core.Scratch("c15reccontext")
	var idx int64
	for _, f := range c15RecFuncs {
		for _, ctx := range c15RecContexts {
			for _, prime := range []bool{false, true} {
				idx++
				if !c.Mine(idx) {
					continue
				}
				sql := strings.ReplaceAll(strings.ReplaceAll(ctx.sql, "$F", f.call), "$W", fmt.Sprint(f.want))
				k := c15RecCase{Family: "reccontext", Call: f.call, Class: f.class, Want: fmt.Sprint(f.want + ctx.plus), Context: ctx.name, SQL: sql, Prime: prime}
				c15RecOne(c, dir, k)
				if c.WantSample() && ctx.name == "recursive-member-select" {
					c.Sample(k)
				}
			}
		}
	}
}

func c15RecCtxReplay(c *core.Ctx, payload json.RawMessage) bool {
	var k c15RecCase
	if json.Unmarshal(payload, &k) != nil || k.Family != "reccontext" {
		return false
	}
	fmt.Printf("replaying family reccontext: %s in %s\n%s\n", k.Call, k.Context, k.SQL)
	c15RecOne(c, core.Scratch("c15reccontext-replay"), k)
	return true
}
