package checks

import (
	"fmt"
	"path/filepath"
	"strings"

	"verif/harness/internal/core"
	"verif/harness/internal/drv"
)

// Extra family for C05: the same table name in two directories. A statement changes the table its name denotes
// WHEN IT RUNS - after CHDIR or SET @@REPOSITORY that is the file of the new directory, whatever was read before.
func init() {
	core.Extend("C05", "family repos: t.csv in two directories x {CHDIR, SET @@REPOSITORY} x {no earlier access, SELECT, data change (+COMMIT)} in the first x 5 data-changing statements in the second; "+
		"after COMMIT each file holds exactly the edits made while its directory was current", c05ReposRun)
}

var c05ReposStmts = []struct{ sql, after string }{
	{"DELETE FROM t WHERE a = 2", "a,b\n1,b1\n3,b3\n"},
	{"UPDATE t SET b = 'U' WHERE a >= 2", "a,b\n1,b1\n2,U\n3,U\n"},
	{"INSERT INTO t VALUES (9, 'n')", "a,b\n1,b1\n2,b2\n3,b3\n9,n\n"},
	{"REPLACE INTO t (a, b) USING (a) VALUES (1, 'R'), (8, 'm')", "a,b\n1,R\n2,b2\n3,b3\n8,m\n"},
	{"ALTER TABLE t RENAME b TO bb", "a,bb\n1,b1\n2,b2\n3,b3\n"},
}

func c05ReposRun(c *core.Ctx) {
	dir := core.Scratch("c05repos")
	fileA := "a,b\n1,a1\n2,a2\n"
	fileB := "a,b\n1,b1\n2,b2\n3,b3\n"
	firsts := []struct{ sql, afterA string }{
		{"", fileA},
		{"SELECT * FROM t;", fileA},
		{"SELECT COUNT(*) FROM t; SELECT * FROM t WHERE a = 1;", fileA},
		{"UPDATE t SET b = 'A' WHERE a = 1; COMMIT;", "a,b\n1,A\n2,a2\n"},
		{"UPDATE t SET b = 'A' WHERE a = 1;", "a,b\n1,A\n2,a2\n"}, // committed together with the later change
	}
	var idx int64
	for _, mv := range []string{"CHDIR", "REPOSITORY"} {
		for fi, first := range firsts {
			for si, st := range c05ReposStmts {
				idx++
				if !c.Mine(idx) {
					continue
				}
				drv.ClearDir(dir)
				drv.WriteFiles(dir, map[string]string{"ra/t.csv": fileA, "rb/t.csv": fileB})
				env := drv.NewText(filepath.Join(dir, "ra"))
				env.Tx.Flags.SetQuiet(true)
				move := "SET @@REPOSITORY TO '" + filepath.Join(dir, "rb") + "';"
				if mv == "CHDIR" {
					// the repository flag is empty: tables are looked up in the working directory
					env.Tx.Flags.Repository = ""
					move = "CHDIR '" + filepath.Join(dir, "rb") + "';"
				}
				prog := first.sql + " " + move + " " + st.sql + "; COMMIT;"
				if mv == "CHDIR" {
					prog = "CHDIR '" + filepath.Join(dir, "ra") + "'; " + prog
				}
				r := env.Exec(prog)
				env.Close()
				snap := drv.DirSnapshot(dir)
				c.Eval(fmt.Sprintf("repos:%s:%d:%d", mv, fi, si), true)
				if r.Err != nil || r.Panic != nil || snap["ra/t.csv"] != first.afterA || snap["rb/t.csv"] != st.after {
					c.Violate("repos:"+strings.Fields(st.sql)[0]+": a statement after a change of directory does not act on the table its name denotes there",
						fmt.Sprintf("%s\nerr=%v panic=%v\nra/t.csv holds %q (expected %q)\nrb/t.csv holds %q (expected %q)", strings.ReplaceAll(prog, dir, "<dir>"), r.Err, r.Panic, snap["ra/t.csv"], first.afterA, snap["rb/t.csv"], st.after),
						map[string]any{"family": "repos", "program": prog})
				}
			}
		}
	}
}
