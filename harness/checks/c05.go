package checks

import (
	"encoding/json"
	"fmt"
	"os"
	"runtime/debug"
	"sort"
	"strings"

	"verif/harness/internal/core"
	"verif/harness/internal/dml"
	"verif/harness/internal/drv"
	"verif/harness/internal/rv"
)

func init() {
	core.Register(&core.Check{
		ID:    "C05",
		Level: "model_checking",
		Rule: "breadth-first search over sequences of data-changing statements (INSERT VALUES/SELECT, UPDATE, DELETE, multi-table UPDATE/DELETE with two targets, REPLACE USING a non-first key with 0-3 unmatched rows, " +
			"ALTER TABLE ADD FIRST/LAST/BEFORE/AFTER with default expressions, DROP, RENAME) on two CSV files, a temporary table and standard input; states are deduplicated on the reference tables; " +
			"one case = one transition (state, statement): the shortest path to the state is replayed on a fresh csvq transaction, the statement executed, then SELECT * of all four tables (row and column order sensitive), " +
			"Tx.AffectedRows, the 'N record(s) ...' log lines and, after COMMIT, both files are compared with the reference; non-trivial = the statement changes a table in the reference",
		Assume: []string{"reference model internal/dml written from the manual pages of the statements and the property text; values and operators from internal/rv (checked against csvq by C06)",
			"single session, --cpu default, CSV with LF, texts free of delimiters/quotes/line breaks (the file format itself is C02's subject)",
			"where the manual is silent the oracle accepts csvq's answer: names in per-record parts of a statement are not checked when no record is processed; one SET target assigned twice is an error; the order of the log lines of a multi-table statement is free",
			"REPLACE rows with a NULL key or two unmatched rows sharing a key have two readings and are not compared"},
		Run:    c05Run,
		Replay: c05Replay,
	})
}

const (
	c05SigReplaceOrder = "replace:order-of-appended-unmatched-rows"
	c05SigReplaceDup   = "replace:duplicate-key-in-values:row-whose-key-matches-an-existing-record-is-appended"
	c05SigEmptyCellLost = "commit:single-column-file-table:record-with-empty-cell-lost-on-reload"
	c05SigStdinLock    = "stdin:data-changing-statement-after-an-earlier-one-in-the-transaction:lock-wait-timeout"
)

type c05Payload struct {
	Path []string `json:"path"` // statement ids
	Op   string   `json:"op"`
	SQL  []string `json:"sql"` // the same as text, for the reader
}

func c05Depth(c *core.Ctx) int {
	if c.Thorough() {
		return 4
	}
	return 3
}

// kindsOf names the kinds of the tables a statement changes (file, temp, stdin).
func kindsOf(o dml.Op, s *dml.State) string {
	var names []string
	o = dml.Unwrap(o)
	switch x := o.(type) {
	case *dml.Update:
		for _, a := range x.Targets {
			for _, f := range x.From {
				if strings.EqualFold(a, f.Alias) || (f.Alias == "" && strings.EqualFold(a, f.Tab)) {
					names = append(names, f.Tab)
				}
			}
		}
	case *dml.Delete:
		for _, a := range x.Targets {
			for _, f := range x.From {
				if strings.EqualFold(a, f.Alias) || (f.Alias == "" && strings.EqualFold(a, f.Tab)) {
					names = append(names, f.Tab)
				}
			}
		}
	default:
		if ts := o.Tables(); len(ts) > 0 {
			names = ts[:1]
		}
	}
	ks := []string{}
	for _, n := range names {
		if t := s.Tab(n); t != nil {
			ks = append(ks, t.Kind.String())
		}
	}
	if len(ks) == 0 {
		return "none"
	}
	return strings.Join(ks, "+")
}

// replaceOrderProbe repeats a REPLACE that appends three rows and counts how often they come in the given order.
func replaceOrderProbe(dir string, runs int) (inOrder, reordered, other int) {
	var op dml.Op = dml.OpByID(dml.Alphabet(false), "t-rep3")
	out := op.Apply(dml.Initial())
	for i := 0; i < runs; i++ {
		sys, err := dml.NewSys(dir)
		if err != nil {
			other++
			continue
		}
		r := sys.Do(op)
		obs, rerr := sys.ReadAll()
		sys.Close()
		if r.Err != nil || rerr != nil {
			other++
			continue
		}
		_, d, re := dml.CompareState(obs, out.Next, out.TailTable, out.Tail)
		switch {
		case d != dml.Same:
			other++
		case re:
			reordered++
		default:
			inOrder++
		}
	}
	return
}

type c05Runner struct {
	c       *core.Ctx
	dir     string
	verbose bool
}

func (r *c05Runner) logf(f string, a ...any) {
	if r.verbose {
		fmt.Printf(f+"\n", a...)
	}
}

// replayPath executes the path on a fresh system; ok=false when csvq does not follow it (an earlier transition, owned by
// another case, is where that is reported).
func (r *c05Runner) replayPath(path []dml.Op) (*dml.Sys, bool) {
	sys, err := dml.NewSys(r.dir)
	if err != nil {
		r.c.Violate("harness:setup", err.Error(), nil)
		return nil, false
	}
	for _, p := range path {
		res := sys.Do(p)
		r.logf("  path: %s -> err=%v affected=%d", p.SQL(), res.Err, res.Affected)
		if res.Err != nil || res.Panic != nil {
			sys.Close()
			return nil, false
		}
	}
	return sys, true
}

// prefixFollows re-executes the path alone and tells whether csvq then shows the reference state pre.
func (r *c05Runner) prefixFollows(path []dml.Op, pre *dml.State) bool {
	if len(path) == 0 {
		return true
	}
	sys, ok := r.replayPath(path)
	if !ok {
		return false
	}
	defer sys.Close()
	obs, err := sys.ReadAll()
	if err != nil {
		return false
	}
	_, d, re := dml.CompareState(obs, pre, "", 0)
	return d == dml.Same && !re
}

func sqlOf(path []dml.Op, op dml.Op) []string {
	s := make([]string, 0, len(path)+1)
	for _, p := range path {
		s = append(s, p.SQL())
	}
	if op != nil {
		s = append(s, op.SQL())
	}
	return s
}

func idsOf(path []dml.Op) []string {
	s := make([]string, len(path))
	for i, p := range path {
		s[i] = p.ID()
	}
	return s
}

func showState(s *dml.State) string {
	p := make([]string, len(s.Tabs))
	for i, t := range s.Tabs {
		p[i] = t.Key()
	}
	return strings.Join(p, "\n      ")
}

func showObs(o []dml.TabSnap) string {
	p := make([]string, len(o))
	for i, t := range o {
		p[i] = t.Key()
	}
	return strings.Join(p, "\n      ")
}

// stepResult is what comparing one executed statement with its reference outcome gives.
type stepResult struct {
	sig, msg string     // a disagreement (sig == "" : none)
	final    *dml.State // the reference state csvq is in afterwards (nil when unknown)
	reorder  bool       // the appended rows of a REPLACE came in another order
}

// compareStep compares csvq's answer to statement op (executed in reference state pre) with the reference outcome.
func compareStep(op dml.Op, pre *dml.State, out *dml.Outcome, res drv.Result, obs []dml.TabSnap, obsErr error) stepResult {
	if n, ok := op.(*dml.Nested); ok && n.Kind == "commit" {
		// the COMMIT in front of the statement has been executed whether or not the statement then fails
		pre = dml.Committed(pre)
	}
	cls := op.Class() + "@" + kindsOf(op, pre)
	bad := func(what, msg string) stepResult {
		sig := cls + ":" + what
		if out.Note == "duplicate-key" {
			sig = c05SigReplaceDup
		}
		return stepResult{sig: sig, msg: msg}
	}
	if res.Panic != nil {
		return bad("panic", fmt.Sprintf("panic: %v", res.Panic))
	}
	if drv.IsFatal(res.Err) {
		return bad("fatal-error", res.Err.Error())
	}
	if dml.IsSyntaxError(res.Err) {
		return stepResult{sig: "harness:statement-does-not-parse", msg: res.Err.Error()}
	}
	if obsErr != nil {
		return bad("tables-unreadable-afterwards", obsErr.Error())
	}
	failed := res.Err != nil
	switch out.Kind {
	case dml.Fail:
		if !failed {
			return bad("error-expected-but-statement-succeeded", fmt.Sprintf("the reference refuses the statement (%v); csvq executed it (affected=%d, log %q)", out.Why, res.Affected, res.Out))
		}
	case dml.OK:
		if failed {
			if dml.IsLockTimeout(res.Err) && dml.UsesStdin(op) {
				return stepResult{sig: c05SigStdinLock, msg: "csvq: " + res.Err.Error()}
			}
			return bad("unexpected-error", "csvq: "+res.Err.Error())
		}
	}
	if failed {
		// whatever the reason, a failed statement changes nothing (C08 states that; C05 needs it to know the state)
		if tab, d, _ := dml.CompareState(obs, pre, "", 0); d != dml.Same {
			if c05EmptyCellRecordLost(obs, pre, tab) {
				return stepResult{sig: c05SigEmptyCellLost, msg: fmt.Sprintf("table %s, committed with one column, comes back from its file without the records whose only cell is NULL or empty (seen after a statement that failed)\n    csvq:\n      %s\n    before:\n      %s", tab, showObs(obs), showState(pre))}
			}
			return bad("failed-statement-changed-a-table", fmt.Sprintf("after the error %q table %s differs (%s)\n    csvq:\n      %s\n    before:\n      %s", res.Err, tab, d, showObs(obs), showState(pre)))
		}
		return stepResult{final: pre}
	}
	cands := append([]*dml.State{out.Next}, out.Alt...)
	var final *dml.State
	var firstTab, firstDiff string
	reorder := false
	for i, cand := range cands {
		tab, d, re := dml.CompareState(obs, cand, out.TailTable, out.Tail)
		if d == dml.Same {
			final, reorder = cand, re
			break
		}
		if i == 0 {
			firstTab, firstDiff = tab, d
		}
	}
	if final == nil {
		what := firstDiff
		changes := false
		for _, t := range op.Tables() {
			if strings.EqualFold(t, firstTab) {
				changes = true
			}
		}
		if !changes {
			what = "table-not-named-by-the-statement-changed"
		}
		if c05EmptyCellRecordLost(obs, out.Next, firstTab) {
			// the known defect of the CSV reader of the go-text dependency (C02: A:csv-single-column-empty-record-dropped-on-load)
			// seen from here: a file table reduced to ONE column is committed with an empty line for a NULL / empty cell,
			// and the reload after the COMMIT skips that line
			return stepResult{sig: c05SigEmptyCellLost, msg: fmt.Sprintf("table %s, committed with one column, comes back from its file without the records whose only cell is NULL or empty\n    csvq:\n      %s\n    reference:\n      %s", firstTab, showObs(obs), showState(out.Next))}
		}
		return bad(what, fmt.Sprintf("table %s differs (%s)\n    csvq:\n      %s\n    reference:\n      %s", firstTab, firstDiff, showObs(obs), showState(out.Next)))
	}
	if reorder {
		return stepResult{sig: c05SigReplaceOrder, reorder: true, final: nil,
			msg: fmt.Sprintf("the %d unmatched rows were appended in another order than given\n    csvq:\n      %s\n    reference:\n      %s", out.Tail, showObs(obs), showState(out.Next))}
	}
	wantLogs := out.Logs
	// Tx.AffectedRows is only maintained by the top-level processor (storeResults is not inherited by the
	// processors of child blocks): for a statement inside a nested block the reported count is the log line alone
	_, nested := op.(*dml.Nested)
	if out.HasAffected && res.Affected != out.Affected && !nested {
		if out.Note != "duplicate-key" || res.Affected != out.AffectedAlt {
			return bad("affected-count", fmt.Sprintf("Tx.AffectedRows = %d, reference %d (log %q)", res.Affected, out.Affected, res.Out))
		}
		wantLogs = []dml.LogLine{out.Logs[0]}
		wantLogs[0].N = out.AffectedAlt
	}
	lines, _ := dml.ParseLog(res.Out)
	if !dml.SameLogs(lines, wantLogs) {
		return bad("log-lines", fmt.Sprintf("log %q, reference %v", res.Out, wantLogs))
	}
	return stepResult{final: final}
}

// commitAndCompare commits and compares the repository with the reference state.
func commitAndCompare(sys *dml.Sys, final *dml.State, extra map[string]string) (what, msg string) {
	res := sys.DoSQL("COMMIT")
	if res.Err != nil || res.Panic != nil {
		return "commit-failed", fmt.Sprintf("COMMIT: %v %v", res.Err, res.Panic)
	}
	data, control := sys.Files()
	if len(control) > 0 {
		return "control-files-left-after-commit", strings.Join(control, " ")
	}
	want := map[string]string{}
	for _, t := range final.Tabs {
		if t.Kind == dml.File {
			want[t.FileName()] = t.CSV()
		}
	}
	for k, v := range extra {
		want[k] = v
	}
	names := []string{}
	for k := range data {
		names = append(names, k)
	}
	for k := range want {
		if _, ok := data[k]; !ok {
			names = append(names, k)
		}
	}
	sort.Strings(names)
	for _, k := range names {
		w, wok := want[k]
		g, gok := data[k]
		switch {
		case !wok:
			return "unexpected-file-after-commit", fmt.Sprintf("file %s = %q", k, g)
		case !gok:
			return "file-missing-after-commit", k
		case w != g:
			return "committed-file", fmt.Sprintf("file %s\n    csvq:      %q\n    reference: %q", k, g, w)
		}
	}
	if hk := sys.HandlerKeys(); len(hk) > 0 {
		return "file-handlers-held-after-commit", strings.Join(hk, " ")
	}
	return "", ""
}

// transition checks one (state, statement) case.
func (r *c05Runner) transition(path []dml.Op, pre *dml.State, op dml.Op, out *dml.Outcome) {
	c := r.c
	key := pre.Key() + "|" + op.ID()
	if out.Kind == dml.Unspecified {
		c.Add("skipped_two_readings", 1)
		return
	}
	payload := c05Payload{Path: idsOf(path), Op: op.ID(), SQL: sqlOf(path, op)}
	sys, ok := r.replayPath(path)
	if !ok {
		c.Add("prefix_not_followed_by_csvq", 1)
		return
	}
	defer sys.Close()
	res := sys.Do(op)
	obs, obsErr := sys.ReadAll()
	r.logf("  step: %s -> err=%v affected=%d log=%q", op.SQL(), res.Err, res.Affected, res.Out)
	if obsErr == nil {
		r.logf("  csvq:\n      %s", showObs(obs))
	}
	if out.Next != nil {
		r.logf("  reference (%s):\n      %s", out.Kind, showState(out.Next))
	} else {
		r.logf("  reference: %s (%v)", out.Kind, out.Why)
	}
	sr := compareStep(op, pre, out, res, obs, obsErr)
	if sr.sig == "" && sr.final != nil {
		if what, msg := commitAndCompare(sys, sr.final, nil); what != "" {
			sr.sig, sr.msg = op.Class()+"@"+kindsOf(op, pre)+":"+what, msg
		}
	}
	nontrivial := out.Next != nil && out.Next.Key() != pre.Key()
	c.Eval(key, nontrivial)
	c.Add("transitions", 1)
	c.Observe("statement_classes", op.Class()+"@"+kindsOf(op, pre)+":"+out.Kind.String())
	if res.Err != nil {
		c.Observe("error_classes", dml.ErrClass(res.Err))
	}
	if out.Kind == dml.MayFail {
		c.Add("either_answer_accepted_name_in_unevaluated_part", 1)
	}
	if sr.sig == "" {
		c.Add("traces_validated_against_impl", 1)
		if c.WantSample() && nontrivial && len(path) >= 2 {
			c.Sample(map[string]any{"statements": payload.SQL, "affected": res.Affected, "log": strings.TrimSpace(res.Out), "tables_after": strings.Split(showObs(obs), "\n      ")})
		}
		return
	}
	// a disagreement: first make sure csvq was in the reference state before the statement
	if !r.prefixFollows(path, pre) {
		c.Add("prefix_not_followed_by_csvq", 1)
		return
	}
	c.Violate(sr.sig, fmt.Sprintf("after %q the statement %q: %s", strings.Join(sqlOf(path, nil), "; "), op.SQL(), sr.msg), payload)
}

func c05Run(c *core.Ctx) {
	debug.SetGCPercent(400) // thousands of short-lived csvq process images; the heap stays small
	if os.Getenv("VERIF_C05_FAMILIES_ONLY") != "" {
		// development aid: only the families added with core.Extend are run; the result is marked as not exhaustive
		c.Incomplete("VERIF_C05_FAMILIES_ONLY is set: the main search was skipped")
		return
	}
	dir := core.Scratch("c05")
	ops := dml.Alphabet(c.Thorough())
	depth := c05Depth(c)
	if c.Thorough() {
		// the full alphabet to depth 3 would be subsumed by depth 4 only for the quick alphabet: both are run
		c05Search(c, dir, ops, 3, "full-alphabet-depth-3")
		if c.Expired() {
			return
		}
		c05Search(c, dir, dml.Alphabet(false), depth, "core-alphabet-depth-4")
		return
	}
	c05Search(c, dir, ops, depth, "core-alphabet-depth-3")
}

func c05Search(c *core.Ctx, dir string, ops []dml.Op, depth int, label string) {
	r := &c05Runner{c: c, dir: dir}
	in, re, other := replaceOrderProbe(dir, 64)
	c.Info("replace_append_order_probe", fmt.Sprintf("64 runs of %q: %d in the given order, %d reordered, %d other", dml.OpByID(ops, "t-rep3").SQL(), in, re, other))
	stable := re == 0
	c.Info("alphabet_size_"+label, len(ops))
	expand := func(o dml.Op, out *dml.Outcome) bool {
		if out.Tail >= 2 && !stable {
			return false // csvq's result is not reproducible there, so no path may lead through it
		}
		return true
	}
	cut := false
	g := dml.Explore(ops, depth, c.MineKey, expand, func(g *dml.Graph, ni, oi int, out *dml.Outcome) bool {
		n := g.Nodes[ni]
		if n.Depth < depth-1 && !c.MineKey(n.Key+"|"+ops[oi].ID()) {
			return true
		}
		if c.Expired() {
			c.Incomplete(fmt.Sprintf("%s: time budget reached at depth %d", label, n.Depth+1))
			cut = true
			return false
		}
		if out.Tail >= 2 && !stable {
			c.Add("not_expanded_replace_appending_several_rows", 1)
		}
		pix := g.Path(ni)
		path := make([]dml.Op, len(pix))
		for i, x := range pix {
			path[i] = ops[x]
		}
		r.transition(path, n.State, ops[oi], out)
		c.Add("transitions_"+label, 1)
		c.Max("max_depth", int64(n.Depth+1))
		return true
	})
	if cut {
		return
	}
	// states whose every outgoing transition was checked (each counted by one worker)
	for _, n := range g.Nodes {
		if n.Depth < depth && c.MineKey(n.Key) {
			c.Add("states", 1)
			c.Add("states_"+label, 1)
		}
	}
}

func c05Replay(c *core.Ctx, payload json.RawMessage) {
	if c05ParallelReplay(c, payload) || c01AttrReplay(c, payload) || c05TypedReplay(c, payload) || c05SelfJoinReplay(c, payload) || c05LayReplay(c, payload) {
		return
	}
	var p c05Payload
	if err := json.Unmarshal(payload, &p); err != nil {
		fmt.Println("bad payload:", err)
		return
	}
	ops := dml.Alphabet(true)
	st := dml.Initial()
	var path []dml.Op
	for _, id := range p.Path {
		o := dml.OpByID(ops, id)
		if o == nil {
			fmt.Println("unknown statement id", id)
			return
		}
		out := o.Apply(st)
		if out.Kind != dml.OK {
			fmt.Printf("path statement %s is %s in the reference\n", id, out.Kind)
			return
		}
		st = out.Next
		path = append(path, o)
	}
	op := dml.OpByID(ops, p.Op)
	if op == nil {
		fmt.Println("unknown statement id", p.Op)
		return
	}
	out := op.Apply(st)
	fmt.Printf("replaying %v then %s\n", p.Path, op.SQL())
	r := &c05Runner{c: c, dir: core.Scratch("c05r"), verbose: true}
	// a run-to-run ordering is given several chances to show
	n := 1
	if out.Tail >= 2 {
		n = 40
	}
	for i := 0; i < n && c.NViolations() == 0; i++ {
		r.verbose = i == 0
		r.transition(path, st, op, &out)
	}
}


// c05EmptyCellRecordLost: the observed table `name` has one column and equals the reference table without its records whose
// only cell is NULL or the empty text (at least one such record exists).
func c05EmptyCellRecordLost(obs []dml.TabSnap, ref *dml.State, name string) bool {
	rt := ref.Tab(name)
	if rt == nil || len(rt.Cols) != 1 || rt.Kind != dml.File {
		return false
	}
	var ot *dml.TabSnap
	for i := range obs {
		if strings.EqualFold(obs[i].Name, name) {
			ot = &obs[i]
		}
	}
	if ot == nil || len(ot.Cols) != 1 {
		return false
	}
	var kept [][]rv.V
	lost := 0
	for _, r := range rt.Rows {
		if len(r) == 1 && (r[0].K == rv.Null || (r[0].K == rv.Str && r[0].S == "")) {
			lost++
			continue
		}
		kept = append(kept, r)
	}
	if lost == 0 || len(kept) != len(ot.Rows) {
		return false
	}
	for i := range kept {
		if len(ot.Rows[i]) != 1 || !rv.SameValue(kept[i][0], ot.Rows[i][0]) {
			// a file gives texts back: compare by text
			if kept[i][0].Key() != ot.Rows[i][0].Key() && fmt.Sprint(kept[i][0].Primary()) != fmt.Sprint(ot.Rows[i][0].Primary()) {
				return false
			}
		}
	}
	return true
}
