//go:build verifx

package checks

import (
	"encoding/json"
	"fmt"
	"strings"

	"verif/harness/internal/core"
	"verif/harness/internal/fsx"
)

// Extra family for C11 ("... and all competing lock holders"): two csvq processes on one table, every
// interleaving of their file-system steps (the engine and scenarios of C09), judged by C11's oracle only: once
// every process has ended - by commit, rollback or lock timeout - no .lock, .rlock or temp file remains.
func init() {
	core.Extend("C11", "family competing: the two-process scenarios "+strings.Join(c11CompetingNames, ", ")+" of the file-system-step explorer (all interleavings, lock time-outs included); "+
		"oracle: after all processes ended no control file remains", c11CompetingRun)
}

var c11CompetingNames = []string{"W|R", "W|W", "W|rollback", "create|create", "W|R timeout-anywhere", "sql INC|SEL"}

type c11CompetingPayload struct {
	Family   string   `json:"family"`
	Scenario string   `json:"scenario"`
	Schedule []string `json:"schedule"`
	Trace    []string `json:"trace"`
}

func c11CompetingScenario(name string) (c09Scenario, bool) {
	for _, s := range c09Scenarios() {
		if s.name == name {
			return s, true
		}
	}
	return c09Scenario{}, false
}

func c11CompetingOne(c *core.Ctx, s c09Scenario, replay []string) {
	full := c09Oracle(s.tables)
	if s.sql {
		full = c09SQLOracle(s.tables["t.csv"])
	}
	sc := &fsx.Scenario{Name: s.name, Setup: c09Setup(s.tables), Bodies: s.bodies, TimeoutAnywhere: s.anywhere,
		Check: func(w *fsx.World) []fsx.Violation {
			var out []fsx.Violation
			for _, v := range full(w) {
				if v.Sig == "leftover-control-file-after-clean-end" {
					out = append(out, v)
				}
			}
			return out
		}}
	ex := fsx.NewExplorer(sc, core.Scratch("c11-"+strings.NewReplacer("|", "_", "(", "", ")", "", ",", "", " ", "-").Replace(s.name)), c.Deadline)
	if replay != nil {
		ex.Replay(fsx.ParseSchedule(replay))
	} else {
		ex.Explore()
	}
	st := ex.Stats
	c.Add("competing_states", int64(st.States))
	c.Add("competing_transitions", int64(st.Transitions))
	c.EvalN(int64(st.Transitions), int64(st.States)) // one evaluation = one step of the real code followed by the invariant in the state reached
	c.Observe("competing_scenarios", fmt.Sprintf("%s: %d states, %d transitions, %d executions, %d terminal", s.name, st.States, st.Transitions, st.Executions, st.Terminal))
	if st.Capped {
		c.Incomplete("competing scenario " + s.name + ": time budget reached before the state space was exhausted")
	}
	if st.Nondeterminism > 0 {
		c.Incomplete(fmt.Sprintf("competing scenario %s: %d replay divergences (harness nondeterminism; those branches are not covered)", s.name, st.Nondeterminism))
	}
	for sig, v := range st.Violations {
		c.Violate("competing:"+sig, fmt.Sprintf("scenario %s: %s\n  schedule: %s\n  trace:\n    %s", s.name, v.Msg, strings.Join(v.Schedule, " "), strings.Join(v.Trace, "\n    ")),
			c11CompetingPayload{Family: "competing", Scenario: s.name, Schedule: v.Schedule, Trace: v.Trace})
	}
}

func c11CompetingRun(c *core.Ctx) {
	for i, n := range c11CompetingNames {
		// spread over the workers from the far end: the low shards carry the first programs of the main family
		if !c.Mine(int64(1000003 - i)) {
			continue
		}
		if s, ok := c11CompetingScenario(n); ok {
			c11CompetingOne(c, s, nil)
		}
	}
}

func c11CompetingReplay(c *core.Ctx, raw json.RawMessage) bool {
	var p c11CompetingPayload
	if json.Unmarshal(raw, &p) != nil || p.Family != "competing" {
		return false
	}
	s, ok := c11CompetingScenario(p.Scenario)
	if !ok {
		fmt.Println("unknown scenario", p.Scenario)
		return true
	}
	fmt.Printf("replaying competing scenario %s, schedule %s\n", p.Scenario, strings.Join(p.Schedule, " "))
	c11CompetingOne(c, s, p.Schedule)
	return true
}
