package checks

// Extra family for C19: texts that look like the head of a datetime.
//
// Every string that csvq compares, sorts, groups, joins or hands to a datetime function is first tried as a
// datetime (value.StrToTime): a hand-written scanner that looks at fixed byte positions (s[4], s[10], s[len-6] ...)
// before it calls time.Parse. The boundary alphabet of the function family holds complete dates and timestamps only;
// data files hold hour buckets ("2012-03-15 12"), truncated exports and typos. This family enumerates the
// neighbourhood of every documented datetime form (cast-functions.md, "Format of string as datetime"): every prefix of
// an example of every form, every prefix with one of its bytes replaced by a structural byte, with a blank in front or
// behind - as a variable in every scalar context that interprets a string as a datetime, and as a column of a table
// file that is sorted, grouped, joined, filtered and aggregated - without and with --datetime-format entries.

import (
	"encoding/json"
	"fmt"
	"sort"
	"strings"

	"github.com/mithrandie/csvq/lib/value"

	"verif/harness/internal/core"
	"verif/harness/internal/drv"
)

func init() {
	core.Extend("C19", "family datetime-text: every prefix of an example of every documented datetime form (4 date forms x 7 time/zone tails, 4 T forms, 2 RFC822 forms), each also with one byte replaced by one of 12 structural bytes "+
		"(quick: at the last three positions of a prefix and at every position of a complete example; thorough: everywhere) and with a blank in front or behind; each text as a variable in 4 scalar statements (cast, comparisons, "+
		"datetime functions, with DATETIME_FORMAT entries) and, in columns of 48, in a table file under 10 statements (ORDER BY, GROUP BY, DISTINCT, join, set operation, aggregate, analytic, WHERE); "+
		"oracle: no panic, no Fatal Error, documented return code, rectangular results", c19DtRun)
	c19ExtReplays["datetime-text"] = c19DtReplay
}

var c19DtDates = []string{"2012-03-15", "2012/03/15", "2012-3-5", "2012/3/5"}
var c19DtTails = []string{"", " 12:03:01", " 12:03:01.123456789", " 12:03:01 -07:00", " 12:03:01.5 -0700", " 12:03:01 PST", " 1:02:03"}
var c19DtOthers = []string{"2012-03-15T12:03:01", "2012-03-15T12:03:01-07:00", "2012-03-15T12:03:01Z", "2012-03-15T12:03:01.123456789-07:00", "03 Mar 12 12:03 PST", "03 Mar 12 12:03 -0700"}

var c19DtBytes = []string{"-", "/", " ", ":", "T", "Z", "+", ".", "0", "9", "a", "é"}

func c19DtExamples() []string {
	var ex []string
	for _, d := range c19DtDates {
		for _, t := range c19DtTails {
			ex = append(ex, d+t)
		}
	}
	return append(ex, c19DtOthers...)
}

// c19DtTexts: the enumeration, without repetition, in a deterministic order.
func c19DtTexts(thorough bool) []string {
	seen := map[string]bool{}
	var out []string
	add := func(s string) {
		if !seen[s] {
			seen[s] = true
			out = append(out, s)
		}
	}
	for _, ex := range c19DtExamples() {
		for n := 0; n <= len(ex); n++ {
			p := ex[:n]
			add(p)
			add(" " + p)
			add(p + " ")
			from := n - 3
			if thorough || n == len(ex) || from < 0 {
				from = 0
			}
			for i := from; i < n; i++ {
				for _, b := range c19DtBytes {
					add(p[:i] + b + p[i+1:])
				}
			}
		}
	}
	return out
}

type c19DtCtx struct {
	id    string
	setup string
	sql   string
}

const c19DtFormats = `SET @@DATETIME_FORMAT TO '["%Y-%m-%d %H", "%d/%m/%Y %H:%i", "%Y%m%d"]';`

var c19DtScalar = []c19DtCtx{
	{"cast", "", "SELECT DATETIME(@s), STRING(DATETIME(@s)), INTEGER(@s), FLOAT(@s), BOOLEAN(@s)"},
	{"compare", "", "SELECT @s = @r, @s < @r, @r >= @s, @s = @s, @s <> @q, @s BETWEEN @r AND @s, @s IN (@r, @q), (@s, 1) = (@r, 1), @s IS NULL, @s == @r"},
	{"functions", "", "SELECT YEAR(@s), HOUR(@s), NANOSECOND(@s), WEEKDAY(@s), ADD_DAY(@s, 1), ADD_NANO(@s, -1), TRUNC_DAY(@s), TRUNC_TIME(@s), DATE_DIFF(@s, @r), TIME_DIFF(@r, @s), " +
		"DATETIME_FORMAT(@s, '%Y-%m-%d %H:%i:%s.%n %Z'), UNIX_TIME(@s), UTC(@s), DAY_OF_YEAR(@s), WEEK_OF_YEAR(@s)"},
	{"with-formats", c19DtFormats, "SELECT DATETIME(@s), @s = @r, @s < @q, YEAR(@s), DATE_DIFF(@r, @s)"},
}

var c19DtTable = []c19DtCtx{
	{"order-by", "", "SELECT s FROM d ORDER BY s; SELECT n FROM d ORDER BY s DESC NULLS FIRST, n"},
	{"group-by", "", "SELECT s, COUNT(*) FROM d GROUP BY s"},
	{"distinct", "", "SELECT DISTINCT s FROM d"},
	{"join", "", "SELECT COUNT(*) FROM d a JOIN d b ON a.s = b.s; SELECT COUNT(*) FROM d a JOIN d b USING (s)"},
	{"set-operation", "", "SELECT s FROM d UNION SELECT s FROM d; SELECT s FROM d EXCEPT SELECT s FROM d WHERE n > 3"},
	{"aggregate", "", "SELECT MIN(s), MAX(s), COUNT(DISTINCT s), MEDIAN(s), LISTAGG(s, ',') WITHIN GROUP (ORDER BY s) FROM d"},
	{"analytic", "", "SELECT s, RANK() OVER (ORDER BY s), FIRST_VALUE(n) OVER (PARTITION BY s ORDER BY n), LAG(s) OVER (ORDER BY s) FROM d"},
	{"where", "", "SELECT n FROM d WHERE s > '2012-03-15 12' OR s = '2012/03/15 1' OR s BETWEEN '2012-3-5 1:0' AND '2012-03-15T12:03'; SELECT n FROM d WHERE s IN (SELECT s FROM d WHERE n < 5)"},
	{"column-functions", "", "SELECT DATETIME(s), YEAR(s), DATE_DIFF(s, '2012-03-15 12') FROM d"},
	{"with-formats", c19DtFormats, "SELECT s FROM d ORDER BY s; SELECT s, COUNT(*) FROM d GROUP BY s; SELECT COUNT(*) FROM d a JOIN d b ON a.s = b.s AND a.n < b.n"},
}

const c19DtColumn = 48

type c19DtPayload struct {
	Family  string   `json:"family"`
	Context string   `json:"context"`
	Table   bool     `json:"table,omitempty"`
	Texts   []string `json:"texts"`
}

func c19DtCSV(texts []string) string {
	var sb strings.Builder
	sb.WriteString("s,n\n")
	for i, t := range texts {
		fmt.Fprintf(&sb, "\"%s\",%d\n", strings.ReplaceAll(t, "\"", "\"\""), i)
	}
	return sb.String()
}

// c19DtOne runs one context on one text (scalar) or one column of texts (table) and judges every statement.
func c19DtOne(c *core.Ctx, env *drv.Env, k c19DtPayload, verbose bool) (outcome string) {
	var cx *c19DtCtx
	list := c19DtScalar
	if k.Table {
		list = c19DtTable
	}
	for i := range list {
		if list[i].id == k.Context {
			cx = &list[i]
		}
	}
	if cx == nil || len(k.Texts) == 0 {
		fmt.Println("datetime-text: unknown context in payload")
		return ""
	}
	fresh := env == nil
	if fresh {
		dir := core.Scratch("c19dt")
		if k.Table {
			drv.ClearDir(dir)
			drv.WriteFiles(dir, map[string]string{"d.csv": c19DtCSV(k.Texts)})
		}
		env = drv.New(dir)
		defer env.Close()
		if cx.setup != "" {
			env.Exec(cx.setup)
		}
	}
	kind := "scalar"
	if k.Table {
		kind = "table"
	} else {
		env.SetVar("s", value.NewString(k.Texts[0]))
		env.SetVar("r", value.NewString("2012-03-15 12:03:01"))
		env.SetVar("q", value.NewString("2012/3/5 1"))
	}
	outcome = "ok"
	c19ExtExec(env, cx.sql, func(i int, r c19ExtResult) {
		on := fmt.Sprintf("%q", k.Texts)
		if len(on) > 400 {
			on = on[:400] + fmt.Sprintf("... (%d texts, see the replay file)", len(k.Texts))
		}
		o := c19ExtJudge(c, "datetime-text", kind+":"+cx.id, r, fmt.Sprintf("statement %d of %q on %s", i+1, cx.sql, on), k)
		if o != "ok" {
			outcome = o
		}
		if verbose {
			fmt.Printf("  statement %d: err=%v panic=%v\n", i+1, r.Err, r.Panic)
		}
	})
	return outcome
}

func c19DtRun(c *core.Ctx) {
	if c19ExtOff(c, "datetime-text") {
		return
	}
	texts := c19DtTexts(c.Thorough())
	c.Info("datetime_text_strings", len(texts))
	// scalar contexts: one process image per context (the flag stays set), the text is a variable
	dir := core.Scratch("c19dt-scalar")
	for ci := range c19DtScalar {
		cx := &c19DtScalar[ci]
		env := drv.New(dir)
		if cx.setup != "" {
			if r := env.Exec(cx.setup); r.Err != nil || r.Panic != nil {
				c.Incomplete(fmt.Sprintf("harness fault: family datetime-text could not set its flags: %v %v", r.Err, r.Panic))
				env.Close()
				continue
			}
		}
		for i, s := range texts {
			if !c.Mine(int64(i)) {
				continue
			}
			if i%512 == 0 && c.Expired() {
				c.Incomplete("time budget reached in family datetime-text")
				env.Close()
				return
			}
			k := c19DtPayload{Family: "datetime-text", Context: cx.id, Texts: []string{s}}
			o := c19DtOne(c, env, k, false)
			c.EvalN(1, 1)
			c.Observe("datetime_text_outcomes", o)
			if o == "panic" {
				env.Close()
				env = drv.New(dir)
				if cx.setup != "" {
					env.Exec(cx.setup)
				}
			}
		}
		env.Close()
	}
	// table contexts: columns of neighbouring texts (sorted, so that a column holds texts that differ in one byte)
	sorted := append([]string(nil), texts...)
	sort.Strings(sorted)
	var col int64
	for from := 0; from < len(sorted); from += c19DtColumn {
		col++
		if !c.Mine(col) {
			continue
		}
		if c.Expired() {
			c.Incomplete("time budget reached in family datetime-text")
			return
		}
		to := from + c19DtColumn
		if to > len(sorted) {
			to = len(sorted)
		}
		for ci := range c19DtTable {
			k := c19DtPayload{Family: "datetime-text", Context: c19DtTable[ci].id, Table: true, Texts: sorted[from:to]}
			o := c19DtOne(c, nil, k, false)
			c.EvalN(1, 1)
			c.Observe("datetime_text_outcomes", o)
			if c.WantSample() && ci == 0 && col%7 == 1 {
				c.Sample(map[string]any{"family": "datetime-text", "context": k.Context, "texts": k.Texts[:3], "outcome": o})
			}
		}
	}
}

func c19DtReplay(c *core.Ctx, payload json.RawMessage) {
	var k c19DtPayload
	if json.Unmarshal(payload, &k) != nil {
		fmt.Println("bad payload")
		return
	}
	fmt.Println("outcome:", c19DtOne(c, nil, k, true))
}
