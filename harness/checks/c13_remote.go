//go:build verifx

package checks

import (
	"fmt"
	"net"
	"net/http"
	"strings"
	"sync/atomic"
	"time"

	"verif/harness/internal/core"
)

// Family remote (C13): a remote table (http://...) is downloaded once per transaction and kept in the transaction's
// URL cache (manual, select-query: "The downloaded data is cached until the transaction ends"). When the table is
// named inside an expression that is evaluated per record - a scalar, IN or EXISTS subquery, a lateral join, a user
// function - every worker of the statement looks the address up, and on a cold cache one of them downloads and stores
// while the others look: loading must be free of data races whatever the number of workers.
//
// Enumerated: per-record site (9) x address form (5: URL::(), bare url, CSV(',', URL::()) on text/plain, JSON resource
// by content type, an address answered with 404) with a cold cache, and site x state of the cache (cold, filled by a
// top-level read in the same transaction, emptied by COMMIT, emptied by ROLLBACK) for URL::() - thorough: the full
// product. The server is a loopback HTTP server inside the worker process. Each case runs free on 4 real threads over
// 240 records, the server answering after 25 ms so that the other workers reach the loader while the first one
// downloads (a delay that makes the interleaving likely; it is no oracle). Under the scheduler (all schedules with at
// most one non-default decision, 2 workers, 4 records): quick = URL::() at every site with a cold cache and with one of
// the other three states taken in turn, and the other four forms (cold) at the sites in-subquery and
// correlated-scalar-subquery; thorough = every case of the full product, 3 workers, 6 records.
// Oracle: the race detector's log.
func init() {
	core.Extend("C13", "family remote: a remote (http) table named in a per-record expression of a statement run by several workers: 9 sites (scalar subquery, correlated scalar subquery, IN, EXISTS, HAVING subquery, user function, lateral join, two addresses, UPDATE SET) "+
		"x 5 address forms (URL::(), bare url, CSV(',', URL::()) of text/plain, JSON by content type, 404) on a cold URL cache + 9 sites x 4 cache states (cold, warm, after COMMIT, after ROLLBACK); loopback server in the worker process; "+
		"every case runs free on 4 threads over 240 records with a delayed answer; every schedule with at most one non-default decision (2 workers, 4 records) for URL::() at every site with a cold cache and one other state taken in turn and for the other forms at two sites (thorough: the full product, 3 workers); oracle: race detector log empty", c13RemoteRun)
	c13FamilyPrep["remote"] = func(sc goxScenario) (goxScenario, func()) {
		base, err := c13RemoteStart()
		if err != nil {
			return sc, func() {}
		}
		sc.SQL = strings.ReplaceAll(sc.SQL, "{{BASE}}", base)
		return sc, func() {}
	}
}

var (
	c13RemoteBase    string
	c13RemoteErr     error
	c13RemoteDelayMs atomic.Int64
	c13RemoteHits    atomic.Int64
)

// c13RemoteStart starts the server of this process once (it lives as long as the process).
func c13RemoteStart() (string, error) {
	if c13RemoteBase != "" || c13RemoteErr != nil {
		return c13RemoteBase, c13RemoteErr
	}
	ln, err := net.Listen("tcp", "127.0.0.1:0")
	if err != nil {
		c13RemoteErr = err
		return "", err
	}
	serve := func(ctype, body string) http.HandlerFunc {
		return func(w http.ResponseWriter, r *http.Request) {
			c13RemoteHits.Add(1)
			if d := c13RemoteDelayMs.Load(); d > 0 {
				time.Sleep(time.Duration(d) * time.Millisecond)
			}
			w.Header().Set("Content-Type", ctype)
			fmt.Fprint(w, body)
		}
	}
	mux := http.NewServeMux()
	mux.HandleFunc("/three.csv", serve("text/csv", "a,c\n1,p\n3,q\n5,r\n"))
	mux.HandleFunc("/five.csv", serve("text/csv", "a,c\n2,s\n3,t\n4,u\n6,v\n7,w\n"))
	mux.HandleFunc("/plain.txt", serve("text/plain", "a,c\n1,p\n3,q\n5,r\n"))
	mux.HandleFunc("/d.json", serve("application/json", `[{"a":1,"c":"p"},{"a":3,"c":"q"},{"a":5,"c":"r"}]`))
	mux.HandleFunc("/missing.csv", func(w http.ResponseWriter, r *http.Request) {
		c13RemoteHits.Add(1)
		if d := c13RemoteDelayMs.Load(); d > 0 {
			time.Sleep(time.Duration(d) * time.Millisecond)
		}
		http.NotFound(w, r)
	})
	go http.Serve(ln, mux)
	c13RemoteBase = "http://" + ln.Addr().String()
	return c13RemoteBase, nil
}

// sites: {R} = the remote table, {R2} = a second one (always URL::() of another address)
var c13RemoteSites = []struct{ Name, Pre, Stmt string }{
	{"scalar-subquery", "", "SELECT a, (SELECT COUNT(*) FROM {R} r) FROM t;"},
	{"correlated-scalar-subquery", "", "SELECT a, (SELECT c FROM {R} r WHERE r.a = t.a) FROM t;"},
	{"in-subquery", "", "SELECT a FROM t WHERE a IN (SELECT a FROM {R} r);"},
	{"exists-subquery", "", "SELECT a FROM t WHERE EXISTS (SELECT 1 FROM {R} r WHERE r.a = t.a);"},
	{"having-subquery", "", "SELECT g, COUNT(*) FROM t GROUP BY g HAVING COUNT(*) + 3 >= (SELECT COUNT(*) FROM {R} r);"},
	{"user-function", "DECLARE f FUNCTION (@x) AS BEGIN RETURN (SELECT COUNT(*) FROM {R} r WHERE r.a <= @x); END;", "SELECT a, f(a) FROM t;"},
	{"lateral-join", "", "SELECT t.a, s.c FROM t CROSS JOIN LATERAL (SELECT c FROM {R} r WHERE r.a = t.a) s;"},
	{"two-addresses", "", "SELECT a FROM t WHERE a IN (SELECT a FROM {R} r) OR a IN (SELECT a FROM {R2} r2);"},
	{"update-set", "", "UPDATE t SET b = (SELECT COUNT(*) FROM {R} r WHERE r.a >= t.a); SELECT * FROM t;"},
}

var c13RemoteForms = []struct{ Name, Table string }{
	{"url-function", "URL::('{{BASE}}/three.csv')"},
	{"bare-url", "{{BASE}}/three.csv"},
	{"csv-of-text-plain", "CSV(',', URL::('{{BASE}}/plain.txt'))"},
	{"json-by-content-type", "URL::('{{BASE}}/d.json')"},
	{"error-404", "URL::('{{BASE}}/missing.csv')"},
}

// states of the URL cache when the parallel statement starts; {R} as above
var c13RemoteStates = []struct{ Name, Pre string }{
	{"cold", ""},
	{"warm", "SELECT COUNT(*) FROM {R} w;"},
	{"after-commit", "SELECT COUNT(*) FROM {R} w; COMMIT;"},
	{"after-rollback", "SELECT COUNT(*) FROM {R} w; ROLLBACK;"},
}

func c13RemoteCases(thorough bool) []c13FamilyCase {
	small := map[string]string{"t.csv": csvTable("a,g,b", 4, func(i int) string { return fmt.Sprintf("%d,k%d,%d", i+1, i%2, i*3%7) })}
	large := map[string]string{"t.csv": csvTable("a,g,b", 240, func(i int) string { return fmt.Sprintf("%d,k%d,%d", i%9+1, i%3, i*3%7) })}
	cpu := 2
	if thorough {
		cpu = 3
		small = map[string]string{"t.csv": csvTable("a,g,b", 6, func(i int) string { return fmt.Sprintf("%d,k%d,%d", i+1, i%2, i*3%7) })}
	}
	var out []c13FamilyCase
	for ti, site := range c13RemoteSites {
		for fi, form := range c13RemoteForms {
			for si, state := range c13RemoteStates {
				if !thorough && fi != 0 && si != 0 {
					continue
				}
				if form.Name == "error-404" && si != 0 {
					continue // nothing is ever stored for this address: one state
				}
				sql := strings.TrimSpace(state.Pre + " " + site.Pre + " " + site.Stmt)
				sql = strings.ReplaceAll(sql, "{R2}", "URL::('{{BASE}}/five.csv')")
				sql = strings.ReplaceAll(sql, "{R}", form.Table)
				name := fmt.Sprintf("%s/%s/%s", site.Name, form.Name, state.Name)
				cs := c13FamilyCase{Name: name, Free: goxScenario{Name: "remote:" + name, Files: large, SQL: sql, CPU: 4}}
				// the scheduler: quick = URL::() at every site with a cold cache and with one of the three other states, taken
				// in turn, and the other address forms (cold) at two sites; thorough = every case
				if thorough || (fi == 0 && (si == 0 || si == 1+ti%3)) || (si == 0 && (site.Name == "in-subquery" || site.Name == "correlated-scalar-subquery")) {
					cs.Sched = goxScenario{Name: "remote:" + name, Files: small, SQL: sql, CPU: cpu}
				}
				out = append(out, cs)
			}
		}
	}
	return out
}

func c13RemoteRun(c *core.Ctx) {
	if !c13FamilyOnly("remote") {
		return
	}
	if _, err := c13RemoteStart(); err != nil {
		c.Incomplete("family remote: no local listener: " + err.Error())
		return
	}
	before := c13RemoteHits.Load()
	c13FamilyRun(c, "remote", c13RemoteCases(c.Thorough()), func(free bool) {
		if free {
			c13RemoteDelayMs.Store(25)
		} else {
			c13RemoteDelayMs.Store(0)
		}
	})
	c13RemoteDelayMs.Store(0)
	c.Add("remote_downloads_served", c13RemoteHits.Load()-before)
}
