//go:build verifx

package checks

import (
	"bytes"
	"encoding/json"
	"fmt"
	"os"
	"os/exec"
	"path/filepath"
	"strings"
	"time"

	"github.com/mithrandie/csvq/lib/query"

	"verif/harness/internal/core"
	"verif/harness/internal/drv"
	"verif/harness/internal/gox"
)

// Family second-panic for C11 ("terminates for any reason other than an uncatchable kill ... at any moment", over
// all schedules): csvq's safety net for an internal failure is the recover() in the deferred function of every worker
// goroutine of a parallel region; the failure becomes a "Fatal Error", the transaction is rolled back and the files
// are released. The family takes an expression that fails internally for every record (a vehicle: the property does
// not care WHY a worker fails) inside each kind of parallel region, with a table locked for update by an earlier
// statement, and runs it with 2 workers under EVERY goroutine schedule with at most one non-default decision
// (goroutine-schedule explorer, as in C12/C13). A worker whose panic is not recovered takes the whole process down;
// therefore the exploration runs in a child process of its own (this binary, entered through --replay), and the
// parent judges what the child left: oracle = the child did not die of a Go panic with control files of the
// transaction still in the repository. A vehicle that does not fail on the tree under test (single worker run without
// a Fatal Error) is skipped and listed in the evidence.
func init() {
	var names []string
	for _, s := range c11Panic2Scenarios() {
		names = append(names, s.Name)
	}
	core.Extend("C11", "family second-panic: an internally failing expression in each kind of parallel region ("+strings.Join(names, ", ")+") after an UPDATE of another table, 2 workers, all goroutine schedules with at most one non-default decision, "+
		"explored in a child process; oracle: the process does not die of an unrecovered panic leaving the transaction's control files", c11Panic2Run)
}

const c11Panic2Vehicle = "LPAD('a', 9223372036854775807, 'b')"

func c11Panic2Scenarios() []goxScenario {
	// a join is spread over 2 workers when the product of the record counts exceeds 80: j10 x j20
	files := map[string]string{"t.csv": "a,b\n1,x\n2,y\n", "big.csv": "a,b\n1,p\n2,q\n3,r\n4,s\n",
		"j10.csv": csvTable("a,b", 10, func(i int) string { return fmt.Sprintf("%d,p%d", i, i) }), "j20.csv": csvTable("a,c", 20, func(i int) string { return fmt.Sprintf("%d,k%d", i, i) })}
	e := c11Panic2Vehicle
	mk := func(name, sql string) goxScenario {
		return goxScenario{Name: name, Files: files, CPU: 2, SQL: "UPDATE t SET b = 'z' WHERE a = 1; " + sql}
	}
	return []goxScenario{
		mk("select-clause", "SELECT "+e+" FROM big;"),
		mk("where-clause", "SELECT a FROM big WHERE "+e+" = 'x';"),
		mk("group-by", "SELECT COUNT(*) FROM big GROUP BY "+e+";"),
		mk("analytic", "SELECT FIRST_VALUE("+e+") OVER (PARTITION BY a) FROM big;"),
		mk("inner-join", "SELECT 1 FROM j10 JOIN j20 ON "+e+" = j20.c;"),
		mk("outer-join", "SELECT 1 FROM j10 LEFT JOIN j20 ON "+e+" = j20.c;"),
		mk("update-set", "UPDATE big SET b = "+e+";"),
	}
}

type c11Panic2Payload struct {
	Family   string      `json:"family"`
	Mode     string      `json:"mode"` // "parent": start the child and judge; "child": explore (may die)
	Scenario goxScenario `json:"scenario"`
	Dir      string      `json:"dir,omitempty"`
	Fine     bool        `json:"fine_points,omitempty"`
}

// the child: explores, prints its progress line by line (unbuffered), may be killed by csvq's unrecovered panic
func c11Panic2Child(p c11Panic2Payload) {
	prev := query.GetGoroutineManager().MinimumRequiredPerCore
	query.GetGoroutineManager().MinimumRequiredPerCore = 2
	gox.EvalPoints, gox.LoopPoints = p.Fine, p.Fine
	defer func() {
		query.GetGoroutineManager().MinimumRequiredPerCore = prev
		gox.EvalPoints, gox.LoopPoints = false, false
	}()
	os.MkdirAll(p.Dir, 0755)
	single, _ := goxRunOnce(p.Dir, p.Scenario, 1, false, nil)
	if !strings.Contains(single, "Fatal Error") && !strings.Contains(single, "panic: ") {
		fmt.Fprintf(os.Stdout, "VEHICLE-INACTIVE %s\n", strings.ReplaceAll(clip(single), "\n", " | "))
		return
	}
	e := &gox.Explorer{MaxPreempt: 1, MaxMapDev: 0, MaxSwitch: 1}
	start := time.Now()
	e.Stop = func() bool { return time.Since(start) > 5*time.Minute }
	multi := int64(0)
	e.ExploreRunner(func(prefix []int) gox.Execution {
		fmt.Fprintf(os.Stdout, "SCHEDULE %v\n", prefix)
		_, ex := goxRunOnce(p.Dir, p.Scenario, p.Scenario.CPU, true, prefix)
		return ex
	}, func(choices []int, ex gox.Execution) {
		if ex.Tasks > 1 {
			multi++
		}
	})
	if e.Capped || e.Divergences > 0 {
		fmt.Fprintf(os.Stdout, "INCOMPLETE capped=%v divergences=%d\n", e.Capped, e.Divergences)
	}
	fmt.Fprintf(os.Stdout, "EXPLORED %d %d\n", e.Executions, multi)
}

func c11Panic2Parent(c *core.Ctx, sc goxScenario, fine bool) {
	base := core.Scratch("c11-panic2")
	dir := filepath.Join(base, "repo")
	pf := filepath.Join(base, "child.json")
	raw, _ := json.Marshal(map[string]any{"signature": "", "replay": c11Panic2Payload{Family: "second-panic", Mode: "child", Scenario: sc, Dir: dir, Fine: fine}})
	os.WriteFile(pf, raw, 0644)
	exe, _ := os.Executable()
	cmd := exec.Command(exe, "C11", "--replay", pf)
	cmd.Env = append(os.Environ(), "GOTRACEBACK=single")
	var so, se bytes.Buffer
	cmd.Stdout, cmd.Stderr = &so, &se
	if err := cmd.Start(); err != nil {
		c.Incomplete("family second-panic: the child process could not be started: " + err.Error())
		return
	}
	done := make(chan error, 1)
	go func() { done <- cmd.Wait() }()
	var err error
	select {
	case err = <-done:
	case <-time.After(10 * time.Minute):
		cmd.Process.Kill()
		<-done
		os.RemoveAll(fmt.Sprintf("/dev/shm/verif-%d", cmd.Process.Pid))
		c.Incomplete("family second-panic, scenario " + sc.Name + ": the child did not end within 10 minutes (elapsed time; not judged)")
		return
	}
	os.RemoveAll(fmt.Sprintf("/dev/shm/verif-%d", cmd.Process.Pid))
	exit := 0
	if err != nil {
		exit = -1
		if ee, ok := err.(*exec.ExitError); ok {
			exit = ee.ExitCode()
		}
	}
	lastSchedule, explored, multi := "", int64(0), int64(0)
	for _, l := range strings.Split(so.String(), "\n") {
		switch {
		case strings.HasPrefix(l, "SCHEDULE "):
			lastSchedule = strings.TrimPrefix(l, "SCHEDULE ")
			explored++
		case strings.HasPrefix(l, "EXPLORED "):
			fmt.Sscanf(l, "EXPLORED %d %d", &explored, &multi)
		case strings.HasPrefix(l, "INCOMPLETE "):
			c.Incomplete("family second-panic, scenario " + sc.Name + ": " + l)
		case strings.HasPrefix(l, "VEHICLE-INACTIVE "):
			c.Observe("second_panic_vehicle_inactive", sc.Name)
			return
		}
	}
	c.EvalN(explored, multi)
	c.Observe("second_panic_family", fmt.Sprintf("%s: %d schedules", sc.Name, explored))
	switch {
	case exit == 0 && strings.Contains(so.String(), "EXPLORED "):
		return
	case exit == 2 && strings.Contains(se.String(), "panic: ") && strings.Contains(se.String(), "goroutine ") && strings.Contains(se.String(), "csvq/lib/query."):
		// (the panicking goroutine's stack runs through csvq's code: a failure of the harness itself is not judged)
		// the Go runtime ended the process: nothing deferred has run
		var left []string
		for n := range drv.DirSnapshot(dir) {
			if strings.HasPrefix(filepath.Base(n), ".") {
				left = append(left, n)
			}
		}
		if len(left) == 0 {
			c.Observe("second_panic_death_without_control_files", sc.Name)
			return
		}
		c.Violate("leftover-control-files:worker-panic-not-recovered:"+sc.Name, fmt.Sprintf("scenario %s %q, 2 workers, goroutine schedule %s: the process died of a Go panic that no worker recovered (%s); left behind: %v",
			sc.Name, sc.SQL, lastSchedule, clip(se.String()), left), c11Panic2Payload{Family: "second-panic", Mode: "parent", Scenario: sc, Fine: fine})
	default:
		c.Incomplete(fmt.Sprintf("family second-panic, scenario %s: the child ended with exit %d without finishing (%s)", sc.Name, exit, clip(se.String())))
	}
}

func c11Panic2Run(c *core.Ctx) {
	for i, sc := range c11Panic2Scenarios() {
		// dealt out from the far end, after the scenarios of family competing
		if !c.Mine(int64(1000003 - len(c11CompetingNames) - i)) {
			continue
		}
		if c.Expired() {
			c.Incomplete("family second-panic: time budget reached")
			return
		}
		c11Panic2Parent(c, sc, c.Thorough())
	}
}

func c11Panic2Replay(c *core.Ctx, raw json.RawMessage) bool {
	var p c11Panic2Payload
	if json.Unmarshal(raw, &p) != nil || p.Family != "second-panic" {
		return false
	}
	if p.Mode == "child" {
		c11Panic2Child(p)
		return true
	}
	fmt.Printf("replaying family second-panic, scenario %s %q\n", p.Scenario.Name, p.Scenario.SQL)
	c11Panic2Parent(c, p.Scenario, p.Fine)
	return true
}
