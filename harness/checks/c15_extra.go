package checks

import (
	"fmt"
	"strings"

	"verif/harness/internal/core"
	"verif/harness/internal/drv"
)

// Extra family for C15: every way of ASSIGNING a variable (:=, SELECT .. INTO, FETCH .. INTO, the loop variable
// of WHILE @a IN cursor) at the bottom of 1-3 nested blocks of every kind, with the variable re-declared
// (shadowed) at every subset of the levels. Assignment must reach exactly the innermost declaration.
func init() {
	core.Extend("C15", "family assign: all nestings of 1-3 blocks {IF, WHILE, function call, WHILE IN} x every subset of levels re-declaring @a x 4 assignment forms; "+
		"every level prints @a after its inner block ended, compared with the innermost-declaration rule", c15AssignRun)
}

var c15BlockKinds = []string{"if", "while", "func", "whilein"}
var c15AssignForms = []string{"set", "selectinto", "fetchinto", "whileinvar"}

// builds the program and the expected PRINT lines
func c15AssignProgram(kinds []int, shadow []bool, form int) (string, []string) {
	var sb strings.Builder
	sb.WriteString("VAR @a := 100;\nDECLARE cf CURSOR FOR SELECT 55;\nDECLARE cw CURSOR FOR SELECT 66;\nOPEN cf;\nOPEN cw;\nVAR @i0 := 0; VAR @i1 := 0; VAR @i2 := 0;\n")
	L := len(kinds)
	// value visible at each level before the assignment: level 0 = global
	vals := make([]int, L+1) // vals[l] = value of the declaration made at level l (0 = global); only meaningful where declared
	declared := make([]bool, L+1)
	declared[0] = true
	vals[0] = 100
	for l := 1; l <= L; l++ {
		if shadow[l-1] {
			declared[l] = true
			vals[l] = 100 + l
		}
	}
	assigned := map[string]int{"set": 7, "selectinto": 8, "fetchinto": 55, "whileinvar": -999}[c15AssignForms[form]]
	// innermost declaration receives the assignment
	target := 0
	for l := L; l >= 0; l-- {
		if declared[l] {
			target = l
			break
		}
	}
	// declare functions first (innermost body first is not needed: functions are declared where they are called)
	var open func(l int)
	var closers []string
	open = func(l int) {
		ind := strings.Repeat("  ", l)
		if l > L {
			return
		}
		switch c15BlockKinds[kinds[l-1]] {
		case "if":
			fmt.Fprintf(&sb, "%sIF TRUE THEN\n", ind)
			closers = append(closers, ind+"END IF;\n")
		case "while":
			fmt.Fprintf(&sb, "%sWHILE @i%d < 1 DO\n%s  @i%d := @i%d + 1;\n", ind, l-1, ind, l-1, l-1)
			closers = append(closers, ind+"END WHILE;\n")
		case "func":
			fmt.Fprintf(&sb, "%sDECLARE f%d FUNCTION () AS BEGIN\n", ind, l)
			closers = append(closers, fmt.Sprintf("%s  RETURN 0;\n%sEND;\n%sVAR @r%d := f%d();\n", ind, ind, ind, l, l))
		case "whilein":
			fmt.Fprintf(&sb, "%sDECLARE cl%d CURSOR FOR SELECT 1;\n%sOPEN cl%d;\n%sWHILE VAR @row%d IN cl%d DO\n", ind, l, ind, l, ind, l, l)
			closers = append(closers, ind+"END WHILE;\n")
		}
		if shadow[l-1] {
			fmt.Fprintf(&sb, "%s  VAR @a := %d;\n", ind, 100+l)
		}
	}
	for l := 1; l <= L; l++ {
		open(l)
	}
	ind := strings.Repeat("  ", L+1)
	switch c15AssignForms[form] {
	case "set":
		fmt.Fprintf(&sb, "%s@a := 7;\n", ind)
	case "selectinto":
		fmt.Fprintf(&sb, "%sSELECT 8 INTO @a;\n", ind)
	case "fetchinto":
		fmt.Fprintf(&sb, "%sFETCH cf INTO @a;\n", ind)
	case "whileinvar":
		// the loop assigns 66 to @a, and the fetch that ends it sets @a to NULL (manual: a fetch of a record that does not exist sets nulls)
		fmt.Fprintf(&sb, "%sWHILE @a IN cw DO\n%s  @i2 := @a;\n%sEND WHILE;\n%sPRINT @i2;\n", ind, ind, ind, ind)
	}
	vals[target] = assigned
	var expect []string
	// print at the innermost level, then after closing each block
	visible := func(l int) int {
		for k := l; k >= 0; k-- {
			if declared[k] {
				return vals[k]
			}
		}
		return -1
	}
	if c15AssignForms[form] == "whileinvar" {
		expect = append(expect, "66")
	}
	fmt.Fprintf(&sb, "%sPRINT @a;\n", ind)
	expect = append(expect, fmt.Sprint(visible(L)))
	for l := L; l >= 1; l-- {
		sb.WriteString(closers[l-1])
		fmt.Fprintf(&sb, "%sPRINT @a;\n", strings.Repeat("  ", l))
		expect = append(expect, fmt.Sprint(visible(l-1)))
	}
	for i := range expect {
		if expect[i] == "-999" {
			expect[i] = "NULL"
		}
	}
	return sb.String(), expect
}

func c15AssignRun(c *core.Ctx) {
	if c15Skip(c, "assign") {
		return
	}
	dir := core.Scratch("c15assign")
	env := drv.NewText(dir)
	defer env.Close()
	var idx int64
	for L := 1; L <= 3; L++ {
		nk := 1
		for i := 0; i < L; i++ {
			nk *= len(c15BlockKinds)
		}
		for kc := 0; kc < nk; kc++ {
			kinds := make([]int, L)
			x := kc
			for i := range kinds {
				kinds[i] = x % len(c15BlockKinds)
				x /= len(c15BlockKinds)
			}
			for sm := 0; sm < 1<<L; sm++ {
				shadow := make([]bool, L)
				for i := range shadow {
					shadow[i] = sm&(1<<i) != 0
				}
				for form := range c15AssignForms {
					idx++
					if !c.Mine(idx) {
						continue
					}
					prog, expect := c15AssignProgram(kinds, shadow, form)
					for run := 0; run < 2; run++ { // twice on one process image: pooled scopes are re-issued
						e2 := drv.NewText(dir)
						r := e2.Exec(prog)
						e2.Close()
						got := strings.Fields(strings.TrimSpace(r.Out))
						key := fmt.Sprintf("assign:%v:%v:%s", kinds, shadow, c15AssignForms[form])
						c.Eval(key, sm != 0)
						if r.Err != nil || r.Panic != nil || strings.Join(got, ",") != strings.Join(expect, ",") {
							kn := make([]string, L)
							for i, k := range kinds {
								kn[i] = c15BlockKinds[k]
							}
							c.Violate("assign:"+c15AssignForms[form]+": assignment does not reach exactly the innermost declaration of the variable",
								fmt.Sprintf("blocks %v, @a re-declared at levels %v, assignment by %s:\n%s\ncsvq prints %v (err=%v), the scoping rules give %v", kn, shadow, c15AssignForms[form], prog, got, r.Err, expect),
								map[string]any{"family": "assign", "program": prog, "expect": expect})
						}
					}
				}
			}
		}
	}
	_ = env
}
