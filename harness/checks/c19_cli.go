package checks

import (
	"encoding/json"
	"fmt"
	"os"
	"sort"
	"strings"
	"time"

	"verif/harness/internal/c19ref"
	"verif/harness/internal/core"
	"verif/harness/internal/drv"
	"verif/harness/internal/procx"
)

// Extra family for C19: the whole command, not a library call. A real csvq process runs a program made of
// (a statement that leaves an uncommitted change | nothing), a SELECT whose result may be impossible to write in
// the requested output format, and (another statement | nothing), to the standard output or to --out. Whatever the
// combination, the process ends by itself with a documented return code, reports no internal failure and leaves no
// control file behind (a result that cannot be written is an error of its own, met with locks held and a rollback to
// report).
func init() {
	core.Extend("C19", "family cli-output: real csvq processes: 6 statements leaving uncommitted state x 12 SELECTs (writable and not writable in the format) x 8 output formats x {stdout, --out} x 3 following statements; "+
		"oracle: the process ends by itself (a process killed after 60 s that used almost no CPU time is a deadlock), documented return code, no Fatal Error / panic text, no control file left", c19CliRun)
}

var c19CliPrefixes = []string{
	"",
	"UPDATE t SET b = 'z' WHERE a = 1;",
	"INSERT INTO t VALUES (9, 'n');",
	"CREATE TABLE `n.csv` (x, y);",
	"DECLARE v VIEW (x) AS SELECT 1; INSERT INTO v VALUES (2);",
	"SELECT * FROM t FOR UPDATE;",
}

var c19CliSelects = []string{
	"SELECT a, b FROM t;",
	"SELECT 1 AS a, 2 AS `a.b`;",
	"SELECT 1 AS `x..y`;",
	"SELECT 1 AS `a[`, 2 AS `b`;",
	"SELECT 'p:q' AS `k:v`;",
	"SELECT 'a\\tb' AS c, 'x\\ny' AS d;",
	"SELECT 'é日本' AS c;",
	"SELECT a AS `n.a`, b AS `n.a.b` FROM t;",
	"SELECT * FROM t WHERE FALSE;",
	"SELECT '' AS ``, NULL AS ` `;",
	"SELECT a, b FROM t; SELECT 1 AS a, 2 AS `a.b`;",
	"SELECT a, (SELECT 1 AS p, 2 AS `p.q`) FROM t;",
}

var c19CliSuffixes = []string{"", "SELECT 2 AS after;", "PRINT 'after'; COMMIT;"}

var c19CliFormats = [][]string{{"-f", "CSV"}, {"-f", "JSON"}, {"-f", "JSONL"}, {"-f", "LTSV"}, {"-f", "FIXED"}, {"-f", "TEXT"}, {"-f", "CSV", "-E", "SJIS"}, {"-f", "JSON", "-P"}}

type c19CliCase struct {
	Family string            `json:"family"`
	Args   []string          `json:"args"`
	Tag    string            `json:"tag,omitempty"`   // names the family that built the case (part of the signature class)
	Files  map[string]string `json:"files,omitempty"` // written next to t.csv
	WaitS  int               `json:"wait_s,omitempty"` // seconds after which the process is looked at (default 60); the verdict is procx's: blocked, or CPU time used up
}

func c19CliOne(c *core.Ctx, dir string, k c19CliCase) {
	drv.ClearDir(dir)
	drv.WriteFiles(dir, map[string]string{"t.csv": "a,b\n1,x\n2,y\n"})
	if len(k.Files) > 0 {
		drv.WriteFiles(dir, k.Files)
	}
	wait := 60
	if k.WaitS > 0 {
		wait = k.WaitS
	}
	o := procx.Exec(procx.Run{Dir: dir, Args: k.Args, Timeout: time.Duration(wait) * time.Second})
	c.Eval("cli-output|"+k.Tag+"|"+strings.Join(k.Args, " "), o.Exit != 0)
	cls := strings.Join(k.Args[:len(k.Args)-1], " ")
	if i := strings.Index(cls, " -o "); i >= 0 {
		cls = cls[:i] + " -o"
	}
	if k.Tag != "" {
		cls = k.Tag + ":" + cls
	}
	all := o.Stdout + o.Stderr
	switch {
	case o.Killed && o.CPU < 5*time.Second:
		c.Violate("cli-output:deadlock:"+cls, fmt.Sprintf("csvq %q did not end within %d s, every thread blocked, and used %v of CPU time: it waits for something that cannot happen\nstdout: %s\nstderr: %s", k.Args, wait, o.CPU, clip(o.Stdout), clip(o.Stderr)), k)
	case o.Killed && o.CPU > time.Duration(wait)*time.Second*3/4:
		c.Violate("cli-output:runaway:"+cls, fmt.Sprintf("csvq %q did not end within 60 s (CPU time %v)", k.Args, o.CPU), k)
	case o.Killed:
		c.Incomplete("family cli-output: a process was killed after 60 s with an ambiguous CPU time (machine load?); not judged")
	case o.Exit < 0:
		c.Violate("cli-output:killed-by-signal:"+cls, fmt.Sprintf("csvq %q died of signal %v\n%s", k.Args, o.Signal, clip(all)), k)
	case strings.Contains(all, "Fatal Error") || strings.Contains(all, "panic:") || strings.Contains(all, "goroutine "):
		c.Violate("cli-output:internal-failure:"+cls, fmt.Sprintf("csvq %q (exit %d): %s", k.Args, o.Exit, clip(all)), k)
	default:
		if _, ok := c19ref.ReturnCodes[o.Exit]; !ok {
			c.Violate("cli-output:undocumented-return-code:"+cls, fmt.Sprintf("csvq %q ended with return code %d\n%s", k.Args, o.Exit, clip(all)), k)
		}
		if o.Exit != 0 && strings.TrimSpace(o.Stderr) == "" {
			c.Violate("cli-output:error-without-message:"+cls, fmt.Sprintf("csvq %q ended with return code %d and no message", k.Args, o.Exit), k)
		}
	}
	ents, _ := os.ReadDir(dir)
	var left []string
	for _, e := range ents {
		if strings.HasPrefix(e.Name(), ".") {
			left = append(left, e.Name())
		}
	}
	if len(left) > 0 && !o.Killed {
		sort.Strings(left)
		c.Violate("cli-output:control-file-left:"+cls, fmt.Sprintf("csvq %q (exit %d) left %v in the repository", k.Args, o.Exit, left), k)
	}
	c.Observe("cli_output_return_codes", fmt.Sprint(o.Exit))
}

func c19CliRun(c *core.Ctx) {
	if c19ExtOff(c, "cli-output") {
		return
	}
	dir := core.Scratch("c19cli")
	var idx int64
	for pi, pre := range c19CliPrefixes {
		for si, sel := range c19CliSelects {
			for fi, f := range c19CliFormats {
				for ui, suf := range c19CliSuffixes {
					for _, out := range []bool{false, true} {
						// the quick tier keeps the full product prefix x select x format and rotates suffix and destination
						if !c.Thorough() && (ui != (pi+si+fi)%len(c19CliSuffixes) || out != ((pi+si+fi)%2 == 1)) {
							continue
						}
						idx++
						if !c.Mine(idx) {
							continue
						}
						if c.Expired() {
							c.Incomplete("time budget reached in family cli-output")
							return
						}
						args := append([]string{}, f...)
						if out {
							args = append(args, "-o", "out.txt")
						}
						args = append(args, strings.TrimSpace(pre+" "+sel+" "+suf))
						k := c19CliCase{Family: "cli-output", Args: args}
						c19CliOne(c, dir, k)
						if c.WantSample() && pi == 1 && si == 1 {
							c.Sample(k)
						}
					}
				}
			}
		}
	}
}

func c19CliReplay(c *core.Ctx, payload json.RawMessage) bool {
	var k c19CliCase
	if json.Unmarshal(payload, &k) != nil || k.Family != "cli-output" {
		return false
	}
	fmt.Printf("replaying family cli-output: csvq %q\n", k.Args)
	c19CliOne(c, core.Scratch("c19cli-replay"), k)
	return true
}
