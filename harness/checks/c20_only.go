package checks

import (
	"os"
	"strings"
)

// c20Only is a development aid: VERIF_C20_ONLY=<name>[,<name>...] restricts a run to the named families ("main" = the
// histories of this file). Unset (every regular run) it selects everything.
func c20Only(name string) bool {
	only := os.Getenv("VERIF_C20_ONLY")
	if only == "" {
		return true
	}
	for _, n := range strings.Split(only, ",") {
		if n == name {
			return true
		}
	}
	return false
}
