package checks

// Extra family for C19: the places of a query an analytic function may stand in, together.
//
// An analytic function (or an aggregate function used with OVER) may stand in the select list and in the ORDER BY
// clause. Each occurrence adds columns to the records of the view while the query is evaluated - one for its result,
// one for every partition or sort key that is an expression rather than a field - and shares per-record caches with
// the other occurrences and with ORDER BY itself. What one occurrence leaves behind (capacity of the records, cache
// rows) is what the next one finds. The clause-product family of c19.go has analytic functions in the select list
// only; this family enumerates every pair (term of the select list, term of ORDER BY) of analytic terms
// function x PARTITION BY form x ORDER BY form, under several shapes of select list / ORDER BY / LIMIT over sources
// with several, one and no record, and the places where such a function is refused.

import (
	"encoding/json"
	"fmt"
	"strings"

	"verif/harness/internal/core"
	"verif/harness/internal/drv"
)

func init() {
	core.Extend("C19", "family analytic-place: analytic terms = 5 (thorough: 8) functions x PARTITION BY {none, field, concatenation, arithmetic, constant, field + expression} x OVER-ORDER BY {none, field; thorough: expression DESC + field}; "+
		"every pair (term or none in the select list, term or none in ORDER BY) x 4 select-list shapes (alone, after a field, before an expression, DISTINCT) x 3 ORDER BY shapes (alone, DESC before a field, after a field) x "+
		"sources with 5, 1, 0 records and a join x LIMIT / WITH TIES / OFFSET; per term also the places that refuse it or nest it (WHERE, GROUP BY, HAVING, inside an expression, inside another term's PARTITION BY / ORDER BY, "+
		"grouped query, subquery, set operation, cursor, UPDATE SET); oracle: no panic, no Fatal Error, documented return code, rectangular results", c19AnRun)
	c19ExtReplays["analytic-place"] = c19AnReplay
}

var c19AnFuncs = []string{"ROW_NUMBER()", "COUNT(*)", "SUM(c1)", "FIRST_VALUE(c2)", "LAG(c1, 1, 0)"}
var c19AnFuncsThorough = []string{"RANK()", "NTILE(2)", "LISTAGG(c2, ',')"}
var c19AnPartitions = []string{"", "PARTITION BY c3", "PARTITION BY c3 || 'x'", "PARTITION BY c1 % 2", "PARTITION BY 1", "PARTITION BY c3, c1 % 2"}
var c19AnOrders = []string{"", "ORDER BY c1"}
var c19AnOrdersThorough = []string{"ORDER BY c1 % 2 DESC, c2"}

// %A = term of the select list (or a field when there is none), %B = term of ORDER BY
var c19AnSelectShapes = []string{"%A", "c1, %A", "%A AS w, c1 + 1 AS e", "DISTINCT %A"}
var c19AnOrderShapes = []string{"%B", "%B DESC, c1", "c2, %B"}
var c19AnSources = []string{" FROM t", " FROM t WHERE c1 = 2", " FROM t WHERE FALSE", " FROM t JOIN u ON TRUE"}
var c19AnTails = []string{"", " LIMIT 2", " LIMIT 1 WITH TIES", " OFFSET 1"}

// per term: places that refuse an analytic function, or nest it
var c19AnPlaces = []string{
	"SELECT c1 FROM t WHERE %A > 1",
	"SELECT c3 FROM t GROUP BY %A",
	"SELECT c3 FROM t GROUP BY c3 HAVING %A > 1",
	"SELECT c3, %A FROM t GROUP BY c3",
	"SELECT c3, COUNT(*) FROM t GROUP BY c3 ORDER BY %A",
	"SELECT 1 + %A, (%A) IS NULL, CASE WHEN %A > 1 THEN 1 END FROM t ORDER BY 1 + %A",
	"SELECT ROW_NUMBER() OVER (PARTITION BY %A) FROM t",
	"SELECT c1 FROM t ORDER BY ROW_NUMBER() OVER (PARTITION BY %A ORDER BY %A)",
	"SELECT SUM(%A) FROM t",
	"SELECT c1, (SELECT %A FROM t s WHERE s.c1 = t.c1) FROM t ORDER BY %A",
	"SELECT %A FROM t UNION ALL SELECT %A FROM t ORDER BY 1",
	"SELECT * FROM (SELECT c1, %A AS w FROM t ORDER BY %A) s ORDER BY ROW_NUMBER() OVER (PARTITION BY w || 'x')",
	"SELECT %A",
	"VAR @v; DECLARE cur CURSOR FOR SELECT %A FROM t ORDER BY %A; OPEN cur; FETCH cur INTO @v",
	"UPDATE u SET a = %A",
	"SELECT %A, %A FROM t ORDER BY %A, %A",
}

type c19AnPayload struct {
	Family string `json:"family"`
	A      string `json:"select_term"`
	B      string `json:"order_by_term"`
}

func c19AnFiles(dir string) {
	drv.ClearDir(dir)
	drv.WriteFiles(dir, map[string]string{"t.csv": c19TableT, "u.csv": "a,b\n1,2\n3,4\n"})
}

func c19AnTerms(thorough bool) []string {
	fns := append([]string{}, c19AnFuncs...)
	ords := append([]string{}, c19AnOrders...)
	if thorough {
		fns = append(fns, c19AnFuncsThorough...)
		ords = append(ords, c19AnOrdersThorough...)
	}
	var out []string
	for _, f := range fns {
		for _, p := range c19AnPartitions {
			for _, o := range ords {
				out = append(out, f+" OVER ("+strings.TrimSpace(p+" "+o)+")")
			}
		}
	}
	return out
}

// c19AnQueries: the statements of one pair.
func c19AnQueries(k c19AnPayload) []string {
	var out []string
	a := k.A
	if a == "" {
		a = "c2"
	}
	for _, ss := range c19AnSelectShapes {
		sel := "SELECT " + strings.ReplaceAll(ss, "%A", a)
		for _, src := range c19AnSources {
			if k.B == "" {
				for _, tail := range c19AnTails {
					out = append(out, sel+src+tail)
				}
				continue
			}
			for i, os := range c19AnOrderShapes {
				// the tails go round: every order shape meets every tail under some select shape and source
				tail := c19AnTails[(i+len(out))%len(c19AnTails)]
				out = append(out, sel+src+" ORDER BY "+strings.ReplaceAll(os, "%B", k.B)+tail)
			}
		}
	}
	if k.B == "" && k.A != "" {
		for _, p := range c19AnPlaces {
			out = append(out, strings.ReplaceAll(p, "%A", k.A))
		}
	}
	return out
}

func c19AnOne(c *core.Ctx, dir string, k c19AnPayload, verbose bool) (n int64, outcomes map[string]int) {
	outcomes = map[string]int{}
	env := drv.New(dir)
	defer env.Close()
	for _, sql := range c19AnQueries(k) {
		n++
		c19ExtExec(env, sql, func(i int, r c19ExtResult) {
			o := c19ExtJudge(c, "analytic-place", "query", r, fmt.Sprintf("statement %d of %q", i+1, sql), k)
			outcomes[o]++
			if verbose {
				fmt.Printf("  %s\n    statement %d: err=%v panic=%v views=%d\n", sql, i+1, r.Err, r.Panic, len(r.Views))
			}
		})
	}
	c19ExtExec(env, "ROLLBACK", func(i int, r c19ExtResult) {
		c19ExtJudge(c, "analytic-place", "rollback", r, "ROLLBACK", k)
	})
	return
}

func c19AnRun(c *core.Ctx) {
	if c19ExtOff(c, "analytic-place") {
		return
	}
	terms := append([]string{""}, c19AnTerms(c.Thorough())...)
	dir := core.Scratch("c19analytic")
	c19AnFiles(dir)
	var idx int64
	for _, a := range terms {
		for _, b := range terms {
			idx++
			if !c.Mine(idx) {
				continue
			}
			if c.Expired() {
				c.Incomplete("time budget reached in family analytic-place")
				return
			}
			k := c19AnPayload{Family: "analytic-place", A: a, B: b}
			n, outcomes := c19AnOne(c, dir, k, false)
			c.EvalN(n, n)
			for o := range outcomes {
				c.Observe("analytic_place_outcomes", o)
			}
			if c.WantSample() && strings.Contains(a, "COUNT") && strings.Contains(b, "c1 % 2") {
				c.Sample(map[string]any{"family": "analytic-place", "select_term": a, "order_by_term": b, "statements": n, "outcomes": outcomes})
			}
		}
	}
}

func c19AnReplay(c *core.Ctx, payload json.RawMessage) {
	var k c19AnPayload
	if json.Unmarshal(payload, &k) != nil {
		fmt.Println("bad payload")
		return
	}
	dir := core.Scratch("c19analytic-replay")
	c19AnFiles(dir)
	n, outcomes := c19AnOne(c, dir, k, true)
	fmt.Println("statements:", n, "outcomes:", outcomes)
}
