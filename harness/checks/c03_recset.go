package checks

import (
	"encoding/json"
	"fmt"
	"os"
	"path/filepath"
	"strings"

	"github.com/mithrandie/csvq/lib/parser"

	"verif/harness/internal/core"
	"verif/harness/internal/drv"
	"verif/harness/internal/relm"
	"verif/harness/internal/rv"
)

// Extra families for C03: a recursive table (WITH RECURSIVE) whose query contains a set operation besides the one
// that is the recursion.
//
// The manual (common-table-expression.md) defines the recursion as `base_select_query UNION [ALL]
// recursive_select_query`: the set operation at the top of the table's query. Every other set operation in that
// query - joining two members of the base query, inside a derived table, an IN / EXISTS subquery, an inner WITH clause -
// is an ordinary set operation (set-operators.md), and a RECURSIVE table whose query has no set operation at the
// top is an ordinary table.
//
//	recset       reference model: 6 places for a nested UNION ALL, recursion by UNION ALL (and by UNION where only values of t1 reach the table), every pair world of the
//	             main check, compared with internal/relm like every other catalogue entry
//	recset-diff  differential: 11 places x 6 nested operators (UNION, EXCEPT, INTERSECT, each with and without ALL)
//	             x 2 recursion operators; the nested operation does not refer to the recursive table or to an outer
//	             row, so moving it into a preceding non-recursive table of the same WITH clause does not change
//	             the result under any reading; both formulations are run by csvq and have to agree
func init() {
	core.Extend("C03", "family recset: a recursive table whose query contains a further UNION ALL in one of 6 places (two members of the base query, derived table / IN subquery of the base query, "+
		"derived table / IN subquery / correlated EXISTS of the recursive query) x recursion by UNION ALL (and by UNION where only values of t1 reach the table) x every pair world; oracle: internal/relm (the recursion is the set operation at the top of the table's query). "+
		"family recset-diff: 11 places (also parenthesised, inner WITH clause, RECURSIVE table without recursion, sibling table) x {UNION, EXCEPT, INTERSECT} x {ALL, distinct} x recursion by UNION ALL and UNION x "+
		"every t1 of <=2 rows over a in {NULL,1,2} x every t2 of <=2 rows over a in {NULL,1,3} (thorough <=3 rows); oracle: the same query with the nested set operation moved into a preceding non-recursive table of the WITH clause", c03RecsetRun)
}

// @@LIMIT_RECURSION of these families: their valid queries need at most 4 iterations (5 in the thorough tier), and a
// recursion that a changed csvq lets run on must stop before a joining recursive query has doubled its rows often
const c03RecsetLimit = 8

// ---- recset: reference model ----------------------------------------------------------------------------

func c03CatRecset() *c03Cat {
	cat := &c03Cat{name: "recset"}
	t1, t2, r := c3ref("t1"), c3ref("t2"), c3ref("r")
	set := func() *relm.Query { return c3union(c3sel(c3f("a"), nil, t1), c3sel(c3f("a"), nil, t2)) }
	dlt := c3cmp("<", c3c("d"), c3i(2))
	rdlt := c3cmp("<", c3c("r.d"), c3i(2))
	base := c3sel(c3f("a", c3i(0)), nil, t1)
	step := c3sel(c3f("a", c3plus(c3c("d"), c3i(1))), dlt, r)
	// mixes: values of t1 and of t2 meet in one column of the recursive table. What "equal rows" are is C04's subject
	// (t1 holds 2 and x, t2 holds '2' and 'X'), so these tables are only built with UNION ALL as the recursion.
	type entry struct {
		id         string
		mixes      bool
		base, step *relm.Query
	}
	entries := []entry{
		{"base-of-two-members", true, c3union(c3sel(c3f("a", c3i(0)), nil, t1), c3sel(c3f("a", c3i(0)), nil, t2)), step},
		{"base-from-derived-table", true, c3sel(c3f("a", c3i(0)), nil, c3sub(set(), "s")), step},
		{"base-where-in", false, c3sel(c3f("a", c3i(0)), relm.In{E: c3c("a"), Q: set()}, t1), step},
		{"step-from-derived-table", true, base, c3sel(c3f("s.a", c3plus(c3c("r.d"), c3i(1))), c3and(rdlt, c3eq(c3c("s.a"), c3c("r.a"))), r, c3sub(set(), "s"))},
		{"step-where-in", false, base, c3sel(c3f("a", c3plus(c3c("d"), c3i(1))), c3and(dlt, relm.In{E: c3c("a"), Q: set()}), r)},
		{"step-where-correlated-exists", false, base, c3sel(c3f("a", c3plus(c3c("d"), c3i(1))), c3and(dlt, relm.Exists{Q: c3union(
			c3sel(c3f(c3i(1)), c3eq(c3c("t1.b"), c3c("r.a")), t1), c3sel(c3f(c3i(1)), c3eq(c3c("t2.a"), c3c("r.a")), t2))}), r)},
	}
	for _, e := range entries {
		for _, distinct := range []bool{false, true} {
			op := "union-all"
			if distinct {
				if e.mixes {
					continue
				}
				op = "union"
			}
			q := &relm.Query{Body: &relm.UnionAll{L: e.base.Body, R: e.step.Body, Distinct: distinct}}
			cat.add("RS/"+e.id+"/"+op, "recursive:further-set-operation:"+e.id,
				c3with(c3sel(c3f("a", "d"), nil, r), &relm.CTE{Name: "r", Cols: []string{"a", "d"}, Recursive: true, Q: q}))
		}
	}
	return cat
}

// ---- differential engine (also used by family recnames) ------------------------------------------------------

type c03DiffPair struct {
	ID      string
	Class   string // part of the signature
	SQL     string
	Ref     string
	Tables  []string // base tables the query names (non-trivial = all of them non-empty)
	stmt    []parser.Statement
	refStmt []parser.Statement
}

type c03DiffPayload struct {
	Family string    `json:"family"`
	Case   string    `json:"case"`
	Class  string    `json:"class"`
	World  *c03World `json:"world"`
	SQL    string    `json:"sql"`
	Ref    string    `json:"reference_sql"`
}

func c03DiffFamily(f string) bool { return f == "recset-diff" || f == "recnames" }

func c03DiffParse(pairs []*c03DiffPair) {
	for _, p := range pairs {
		p.stmt = mustParse(p.SQL)
		p.refStmt = mustParse(p.Ref)
	}
}

// one world: every pair is run in one process image (temporary tables t1(a,b), t2(a,c)); the query and its reference
// formulation must both be refused or return the same column names and the same rows (as multisets)
func c03DiffWorld(c *core.Ctx, r *c03Runner, family string, w *c03World, pairs []*c03DiffPair) {
	dir := filepath.Join(r.dir, "d")
	os.RemoveAll(dir)
	os.MkdirAll(dir, 0755)
	env := drv.New(dir)
	defer env.Close()
	env.Tx.Flags.SetCPU(1)
	env.Tx.Flags.SetLimitRecursion(c03RecsetLimit)
	if err := r.setup(env, w); err != nil {
		c.Violate("harness:cannot-create-world", err.Error(), nil)
		return
	}
	tabs := map[string][][]rv.V{"t1": w.T1, "t2": w.T2}
	for _, p := range pairs {
		got := r.exec(env, p.stmt)
		ref := r.exec(env, p.refStmt)
		nontrivial := ref.err == nil && ref.panic == nil
		for _, t := range p.Tables {
			if len(tabs[t]) == 0 {
				nontrivial = false
			}
		}
		c.EvalN(1, b2i(nontrivial))
		c.Add("evaluations_"+family, 1)
		payload := func() c03DiffPayload {
			w.keys()
			return c03DiffPayload{Family: family, Case: p.ID, Class: p.Class, World: w, SQL: p.SQL, Ref: p.Ref}
		}
		describe := fmt.Sprintf("%s\n  reference formulation: %s\n  t1(a,b)=%s t2(a,c)=%s  [%s]", p.SQL, p.Ref, relm.RowsText(w.T1), relm.RowsText(w.T2), family)
		if r.verbose {
			fmt.Printf("query: %s\n  query:     rows=%s names=%v err=%v panic=%v\n  reference: rows=%s names=%v err=%v panic=%v\n",
				describe, relm.RowsText(got.rows), got.names, got.err, got.panic, relm.RowsText(ref.rows), ref.names, ref.err, ref.panic)
		}
		sig := family + ":"
		switch {
		case got.panic != nil || ref.panic != nil:
			c.Violate(sig+"panic:"+p.Class, fmt.Sprintf("csvq panics: %v %v\n  %s", got.panic, ref.panic, describe), payload())
		case got.err != nil && drv.IsFatal(got.err):
			c.Violate(sig+"fatal-error:"+c03FatalFrame(got.err.Error()), fmt.Sprintf("csvq fails internally: %v\n  %s", got.err, describe), payload())
		case ref.err != nil && drv.IsFatal(ref.err):
			c.Violate(sig+"fatal-error:"+c03FatalFrame(ref.err.Error()), fmt.Sprintf("csvq fails internally on the reference formulation: %v\n  %s", ref.err, describe), payload())
		case got.err != nil && ref.err != nil:
			c.Add("refusals_agreed_"+family, 1)
		case got.err != nil:
			c.Violate(sig+"error-on-valid-query:"+p.Class+":"+c03ErrClass(got.err), fmt.Sprintf("csvq refuses the query: %v\n  its reference formulation returns %s\n  %s", got.err, relm.RowsText(ref.rows), describe), payload())
		case ref.err != nil:
			c.Violate(sig+"error-on-reference-formulation:"+p.Class+":"+c03ErrClass(ref.err), fmt.Sprintf("csvq refuses the reference formulation: %v\n  the query returns %s\n  %s", ref.err, relm.RowsText(got.rows), describe), payload())
		case len(got.names) != len(ref.names):
			c.Violate(sig+"result:column-count:"+p.Class, fmt.Sprintf("the query returns the columns %v, its reference formulation %v\n  %s", got.names, ref.names, describe), payload())
		case !relm.SameRows(got.rows, ref.rows, false):
			c.Violate(sig+"result:rows:"+p.Class, fmt.Sprintf("the query returns %s, its reference formulation %s\n  %s", relm.RowsText(got.rows), relm.RowsText(ref.rows), describe), payload())
		case !c03NamesMatch(got.names, ref.names):
			c.Violate(sig+"result:column-names:"+p.Class, fmt.Sprintf("the query returns the columns %v, its reference formulation %v\n  %s", got.names, ref.names, describe), payload())
		default:
			if c.WantSample() && nontrivial && len(got.rows) > 2 && (len(got.rows)+len(p.SQL))%37 == 3 {
				c.Sample(map[string]any{"family": family, "sql": p.SQL, "reference_sql": p.Ref, "t1": relm.RowsText(w.T1), "t2": relm.RowsText(w.T2), "result": relm.RowsText(got.rows)})
			}
		}
	}
}

func c03DiffReplay(c *core.Ctx, raw json.RawMessage) bool {
	var p c03DiffPayload
	if json.Unmarshal(raw, &p) != nil || !c03DiffFamily(p.Family) || p.World == nil {
		return false
	}
	p.World.decode()
	r := newC03Runner(c)
	r.verbose = true
	pair := &c03DiffPair{ID: p.Case, Class: p.Class, SQL: p.SQL, Ref: p.Ref}
	c03DiffParse([]*c03DiffPair{pair})
	c03DiffWorld(c, r, p.Family, p.World, []*c03DiffPair{pair})
	return true
}

// ---- recset-diff ----------------------------------------------------------------------------------------

var c03RecsetOps = []string{"UNION ALL", "UNION", "EXCEPT ALL", "EXCEPT", "INTERSECT ALL", "INTERSECT"}

func c03RecsetDiffPairs() []*c03DiffPair {
	const step = "SELECT a, d + 1 FROM r WHERE d < 2"
	const base = "SELECT a, 0 FROM t1"
	const outer = "SELECT a, d FROM r"
	// a place: the query with the nested set operation S (one column, or two for the members of the base query) in place,
	// and the query that reads it from the table h defined before the recursive table
	type place struct {
		id      string
		two     bool                        // S has the two columns of the recursive table
		rooted  bool                        // the table's query has a recursion (a set operation at the top)
		inline  func(s, root string) string // the part between `WITH RECURSIVE ` and the end
		hoisted func(root string) string    // the part after `WITH h (...) AS (S), RECURSIVE `
	}
	rec := func(b, root, st string) string { return "r (a, d) AS (" + b + " " + root + " " + st + ") " + outer }
	places := []place{
		{"base-of-two-members", true, true,
			func(s, root string) string { return rec(s, root, step) },
			func(root string) string { return rec("SELECT a, d FROM h", root, step) }},
		{"base-of-two-members-parenthesised", true, true,
			func(s, root string) string { return rec("("+s+")", root, step) },
			func(root string) string { return rec("SELECT a, d FROM h", root, step) }},
		{"base-from-derived-table", false, true,
			func(s, root string) string { return rec("SELECT a, 0 FROM ("+s+") s", root, step) },
			func(root string) string { return rec("SELECT a, 0 FROM h s", root, step) }},
		{"base-where-in", false, true,
			func(s, root string) string { return rec(base+" WHERE a IN ("+s+")", root, step) },
			func(root string) string { return rec(base+" WHERE a IN (SELECT a FROM h)", root, step) }},
		{"step-from-derived-table", false, true,
			func(s, root string) string {
				return rec(base, root, "SELECT s.a, r.d + 1 FROM r, ("+s+") s WHERE r.d < 2 AND s.a = r.a")
			},
			func(root string) string {
				return rec(base, root, "SELECT s.a, r.d + 1 FROM r, h s WHERE r.d < 2 AND s.a = r.a")
			}},
		{"step-where-in", false, true,
			func(s, root string) string { return rec(base, root, step+" AND a IN ("+s+")") },
			func(root string) string { return rec(base, root, step+" AND a IN (SELECT a FROM h)") }},
		{"step-where-exists", false, true,
			func(s, root string) string {
				return rec(base, root, step+" AND EXISTS (SELECT 1 FROM ("+s+") s WHERE s.a = r.a)")
			},
			func(root string) string {
				return rec(base, root, step+" AND EXISTS (SELECT 1 FROM h s WHERE s.a = r.a)")
			}},
		{"inner-with-clause", false, true,
			func(s, root string) string {
				return "r (a, d) AS (WITH h (a) AS (" + s + ") SELECT a, 0 FROM h " + root + " " + step + ") " + outer
			},
			func(root string) string { return rec("SELECT a, 0 FROM h", root, step) }},
		{"no-recursion:from-derived-table", false, false,
			func(s, root string) string { return "r (a) AS (SELECT a FROM (" + s + ") s) SELECT a FROM r" },
			func(root string) string { return "r (a) AS (SELECT a FROM h s) SELECT a FROM r" }},
		{"no-recursion:where-in", false, false,
			func(s, root string) string {
				return "r (a) AS (SELECT a FROM t1 WHERE a IN (" + s + ")) SELECT a FROM r"
			},
			func(root string) string {
				return "r (a) AS (SELECT a FROM t1 WHERE a IN (SELECT a FROM h)) SELECT a FROM r"
			}},
		{"sibling-table-after", false, true,
			func(s, root string) string {
				return "r (a, d) AS (" + base + " " + root + " " + step + "), h (a) AS (" + s + ") SELECT r.a, d FROM r WHERE r.a IN (SELECT a FROM h)"
			},
			func(root string) string {
				return "r (a, d) AS (" + base + " " + root + " " + step + ") SELECT r.a, d FROM r WHERE r.a IN (SELECT a FROM h)"
			}},
	}
	var pairs []*c03DiffPair
	for _, pl := range places {
		for _, op := range c03RecsetOps {
			s, hcols := "SELECT a FROM t1 "+op+" SELECT a FROM t2", "h (a)"
			if pl.two {
				s, hcols = "SELECT a, 0 FROM t1 "+op+" SELECT a, 0 FROM t2", "h (a, d)"
			}
			for _, root := range []string{"UNION ALL", "UNION"} {
				if !pl.rooted && root != "UNION ALL" {
					continue
				}
				id := pl.id + "/" + strings.ReplaceAll(op, " ", "-")
				if pl.rooted {
					id += "/recursion-by-" + strings.ReplaceAll(root, " ", "-")
				}
				pairs = append(pairs, &c03DiffPair{
					ID:     id,
					Class:  pl.id,
					SQL:    "WITH RECURSIVE " + pl.inline(s, root),
					Ref:    "WITH " + hcols + " AS (" + s + "), RECURSIVE " + pl.hoisted(root),
					Tables: []string{"t1", "t2"},
				})
			}
		}
	}
	return pairs
}

func c03RecsetRun(c *core.Ctx) {
	th := c.Thorough()
	r := newC03Runner(c)
	r.limit = c03RecsetLimit
	idx := int64(0)

	// recset: the reference model
	cat := c03CatRecset()
	cat.parse()
	c.Info("queries_recset", len(cat.qs))
	stopped := false
	c03PairWorlds(th, func(t1, t2 [][]rv.V) bool {
		idx++
		if !c.Mine(idx) {
			return true
		}
		if c.Expired() {
			c.Incomplete("time budget reached in family recset")
			stopped = true
			return false
		}
		r.runWorld("recset", cat, &c03World{T1: t1, T2: t2}, c03Mode{"view", 1, 80}, "", nil)
		c.Add("worlds_recset", 1)
		return true
	})
	if stopped {
		return
	}

	// recset-diff: the nested operation in place against the nested operation moved out
	pairs := c03RecsetDiffPairs()
	c03DiffParse(pairs)
	c.Info("queries_recset_diff", len(pairs))
	maxRows := 2
	if th {
		maxRows = 3
	}
	var tabs1, tabs2 [][][]rv.V
	c03Tables([][]rv.V{{rv.N(), rv.S("x")}, {rv.I(1), rv.S("x")}, {rv.I(2), rv.S("x")}}, maxRows, false, func(t [][]rv.V) { tabs1 = append(tabs1, t) })
	c03Tables([][]rv.V{{rv.N(), rv.S("y")}, {rv.I(1), rv.S("y")}, {rv.I(3), rv.S("y")}}, maxRows, false, func(t [][]rv.V) { tabs2 = append(tabs2, t) })
	for _, t1 := range tabs1 {
		for _, t2 := range tabs2 {
			idx++
			if !c.Mine(idx) {
				continue
			}
			if c.Expired() {
				c.Incomplete("time budget reached in family recset-diff")
				return
			}
			c03DiffWorld(c, r, "recset-diff", &c03World{T1: t1, T2: t2}, pairs)
			c.Add("worlds_recset_diff", 1)
		}
	}
}
