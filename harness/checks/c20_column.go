//go:build verifx

package checks

import (
	"encoding/json"
	"fmt"
	"runtime/debug"
	"strings"

	"verif/harness/internal/core"
	"verif/harness/internal/drv"
)

// Extra family for C20: WHOLE COLUMNS of a loaded table handed to the aggregate and analytic functions. The family
// borrowed-cell hands single cells to statements; here every cell of a column reaches a function that works on the
// list of the column's values - every built-in aggregate function (plain, DISTINCT, grouped, in HAVING, as an analytic
// function over the whole table, over partitions, with an ORDER BY / a frame, in ORDER BY), a user-defined aggregate
// function, and the analytic-only functions with the column as argument, as partition key and as sort key - for
// columns of integer texts, float texts, datetime texts, plain texts, boolean texts, a mixed column with NULLs and a
// column of NULLs (CSV: every cell a string or NULL; JSON: numbers, strings, booleans and nulls).
//
// None of these statements changes the table, so whatever the function does with the values it was handed, and
// whatever values are created afterwards (strings, integers, floats, datetimes; another file is loaded), the next
// reads of the table in the same transaction equal the first read, and the COMMIT leaves the file as it was (variant
// "own": the transaction has changed the table before; the reads show that change, a new process reads the same after
// the COMMIT). Statements that fail (a function that does not accept the form) are recorded and held to the same rule.
func init() {
	core.Extend("C20", "family column-function: a loaded table (CSV: string cells, JSON: typed cells), read or changed first x 7 column kinds (integer, float, datetime, plain, boolean texts, mixed with NULLs, all NULL) "+
		"x 12 aggregate functions in 10 forms (plain, DISTINCT, GROUP BY, HAVING, OVER (), OVER (PARTITION BY), OVER (ORDER BY), with a frame, in ORDER BY, LISTAGG WITHIN GROUP) + a user-defined aggregate function (aggregate and analytic) "+
		"+ 11 analytic functions with the column as argument, partition key and sort key; then new values of every pooled type are made and another file is loaded; oracle: the reads afterwards equal the first read, "+
		"the file after COMMIT is unchanged (or reads as the transaction read it)", c20ColumnRun)
}

var c20ColumnKinds = []string{"i", "f", "d", "s", "b", "m", "z"}

// %C = the column, %F = the function name
var c20ColumnAggForms = []string{
	"SELECT %F(%C) FROM ev",
	"SELECT %F(DISTINCT %C) FROM ev",
	"SELECT g, %F(%C) FROM ev GROUP BY g",
	"SELECT g FROM ev GROUP BY g HAVING %F(%C) IS NOT NULL",
	"SELECT id, %F(%C) OVER () FROM ev",
	"SELECT id, %F(%C) OVER (PARTITION BY g) FROM ev",
	"SELECT id, %F(%C) OVER (ORDER BY id) FROM ev",
	"SELECT id, %F(%C) OVER (PARTITION BY g ORDER BY id ROWS BETWEEN 1 PRECEDING AND CURRENT ROW) FROM ev",
	"SELECT id FROM ev ORDER BY %F(%C) OVER (PARTITION BY g), id",
	"SELECT %F(%C) FROM ev WHERE %C IS NOT NULL",
}

var c20ColumnAggFuncs = []string{"COUNT", "MIN", "MAX", "SUM", "AVG", "STDEV", "STDEVP", "VAR", "VARP", "MEDIAN", "LISTAGG", "JSON_AGG", "ua"}

var c20ColumnOther = []string{
	"SELECT LISTAGG(%C, ',') FROM ev",
	"SELECT LISTAGG(%C, ',') WITHIN GROUP (ORDER BY %C) FROM ev",
	"SELECT LISTAGG(DISTINCT %C, ',') WITHIN GROUP (ORDER BY %C DESC) FROM ev",
	"SELECT id, LISTAGG(%C, ',') OVER (PARTITION BY g ORDER BY %C) FROM ev",
	"SELECT COUNT(*), MIN(%C), MAX(%C), SUM(%C), AVG(%C), MEDIAN(%C) FROM ev",
	"SELECT MEDIAN(%C) FROM ev GROUP BY %C",
	"SELECT id, FIRST_VALUE(%C) OVER (ORDER BY id) FROM ev",
	"SELECT id, FIRST_VALUE(%C) IGNORE NULLS OVER (PARTITION BY g ORDER BY id) FROM ev",
	"SELECT id, LAST_VALUE(%C) OVER (ORDER BY id) FROM ev",
	"SELECT id, LAST_VALUE(%C) IGNORE NULLS OVER (PARTITION BY g ORDER BY id) FROM ev",
	"SELECT id, NTH_VALUE(%C, 2) OVER (ORDER BY id) FROM ev",
	"SELECT id, LAG(%C) OVER (ORDER BY id) FROM ev",
	"SELECT id, LAG(%C, 2, %C) IGNORE NULLS OVER (ORDER BY id) FROM ev",
	"SELECT id, LEAD(%C) OVER (ORDER BY id) FROM ev",
	"SELECT id, LEAD(%C, 1, 'none') OVER (PARTITION BY g ORDER BY id) FROM ev",
	"SELECT id, ROW_NUMBER() OVER (ORDER BY %C) FROM ev",
	"SELECT id, ROW_NUMBER() OVER (PARTITION BY %C ORDER BY id) FROM ev",
	"SELECT id, RANK() OVER (ORDER BY %C) FROM ev",
	"SELECT id, DENSE_RANK() OVER (ORDER BY %C DESC) FROM ev",
	"SELECT id, CUME_DIST() OVER (ORDER BY %C) FROM ev",
	"SELECT id, PERCENT_RANK() OVER (ORDER BY %C) FROM ev",
	"SELECT id, NTILE(3) OVER (ORDER BY %C) FROM ev",
	"SELECT id, COUNT(*) OVER (PARTITION BY %C) FROM ev",
	"SELECT %C, COUNT(*) FROM ev GROUP BY %C",
	"SELECT DISTINCT %C FROM ev",
	"SELECT id FROM ev ORDER BY %C, id",
}

type c20ColumnCase struct {
	Family  string `json:"family"`
	Format  string `json:"format"`  // csv | json
	Variant string `json:"variant"` // read | own
	Column  string `json:"column"`
	Stmt    string `json:"statement"`
}

const c20ColumnRows = 12

func c20ColumnCell(kind string, r int) (text string, jsonText string) {
	q := func(s string) (string, string) { return s, fmt.Sprintf("%q", s) }
	switch kind {
	case "i":
		s := fmt.Sprint(10 + (r*7)%5)
		return s, s
	case "f":
		s := fmt.Sprintf("%d.25", 1+(r*5)%4)
		return s, s
	case "d":
		return q(fmt.Sprintf("2024-01-%02d 01:30:00", 1+(r*5)%9))
	case "s":
		return q(fmt.Sprintf("name%d", (r*3)%7))
	case "b":
		if r%3 == 0 {
			return "false", "false"
		}
		return "true", "true"
	case "m":
		switch r % 4 {
		case 0:
			return "", "null"
		case 1:
			s := fmt.Sprint(r)
			return s, s
		case 2:
			return q(fmt.Sprintf("2023-05-%02d", r))
		}
		return q(fmt.Sprintf("mix%d", r))
	}
	return "", "null"
}

func c20ColumnFiles(format string) map[string]string {
	files := map[string]string{}
	var sb strings.Builder
	if format == "csv" {
		sb.WriteString("id,g," + strings.Join(c20ColumnKinds, ",") + "\n")
	} else {
		sb.WriteString("[")
	}
	for r := 1; r <= c20ColumnRows; r++ {
		if format == "csv" {
			fmt.Fprintf(&sb, "%d,g%d", r, r%3)
			for _, kind := range c20ColumnKinds {
				t, _ := c20ColumnCell(kind, r)
				sb.WriteString("," + t)
			}
			sb.WriteString("\n")
		} else {
			if r > 1 {
				sb.WriteString(",")
			}
			fmt.Fprintf(&sb, "{\"id\":%d,\"g\":\"g%d\"", r, r%3)
			for _, kind := range c20ColumnKinds {
				_, j := c20ColumnCell(kind, r)
				fmt.Fprintf(&sb, ",%q:%s", kind, j)
			}
			sb.WriteString("}")
		}
	}
	if format == "json" {
		sb.WriteString("]\n")
	}
	files["ev."+format] = sb.String()
	sb.Reset()
	sb.WriteString("k,v,n,t\n")
	for r := 1; r <= 60; r++ {
		fmt.Fprintf(&sb, "churn%d,made%d,%d,2001-02-%02d\n", r, r, r, 1+r%28)
	}
	files["churn.csv"] = sb.String()
	return files
}

const c20ColumnChurn = "@c1 := 'x' || '1'; @c2 := 'x' || '2'; @d1 := 1000 + 1; @d2 := 1000 + 2; @e1 := 1000.5 + 1; @e2 := 1000.5 + 2; " +
	"@t1 := DATETIME('2001-01-01'); @t2 := DATETIME('2002-02-02'); " +
	"SELECT k || v, INTEGER(n) + 1000, FLOAT(n) + 0.5, DATETIME(t), UPPER(k), n || 'y' FROM `churn.csv`;"

func c20ColumnOne(c *core.Ctx, dir string, k c20ColumnCase) {
	drv.ClearDir(dir)
	drv.WriteFiles(dir, c20ColumnFiles(k.Format))
	// a collection in the middle of a case would only hide what the case is looking for (values that were handed
	// back to csvq's pools while the table still holds them leave the pools again); it never creates a difference
	defer debug.SetGCPercent(debug.SetGCPercent(-1))
	env := drv.New(dir)
	env.Tx.Flags.SetQuiet(true)
	closed := false
	defer func() {
		if !closed {
			env.Close()
		}
	}()
	var trace []string
	run := func(sql string) drv.Result {
		trace = append(trace, sql)
		return env.Exec(sql)
	}
	read := func() string {
		r := run("SELECT * FROM ev;")
		if r.Err != nil || r.Panic != nil || len(r.Views) == 0 {
			return fmt.Sprintf("error: %v %v", r.Err, r.Panic)
		}
		return drv.RowsKey(drv.Rows(r.Views[len(r.Views)-1]))
	}
	setup := run("VAR @c1, @c2, @d1, @d2, @e1, @e2, @t1, @t2; " +
		"DECLARE ua AGGREGATE (cur) AS BEGIN VAR @last, @f; WHILE @f IN cur DO IF @f IS NOT NULL THEN @last := @f; END IF; END WHILE; RETURN @last; END;")
	if setup.Err != nil || setup.Panic != nil {
		c.Incomplete(fmt.Sprintf("family column-function: the declarations fail: %v %v", setup.Err, setup.Panic))
		return
	}
	if k.Variant == "own" {
		if r := run("UPDATE ev SET s = 'carol', d = '2024-02-02 02:02:02' WHERE id = 3;"); r.Err != nil || r.Panic != nil {
			c.Incomplete(fmt.Sprintf("family column-function: the transaction's own UPDATE fails: %v %v", r.Err, r.Panic))
			return
		}
	}
	first := read()
	if strings.HasPrefix(first, "error") {
		c.Incomplete("family column-function: the first read fails: " + first)
		return
	}
	r := run(k.Stmt + ";")
	ok := r.Err == nil && r.Panic == nil
	if !ok {
		c.Observe("column_function_statements_that_fail", fmt.Sprintf("%s [%s]: %v", k.Stmt, k.Format, r.Err))
	}
	c.Eval(fmt.Sprintf("column-function|%s|%s|%s", k.Format, k.Variant, k.Stmt), ok)
	sig := "column-function:a-function-over-a-column-changes-the-loaded-table"
	for round := 1; round <= 2; round++ {
		if rc := run(c20ColumnChurn); rc.Err != nil || rc.Panic != nil {
			c.Incomplete(fmt.Sprintf("family column-function: the value-making statements fail: %v %v", rc.Err, rc.Panic))
			return
		}
		if again := read(); again != first {
			c.Violate(sig, fmt.Sprintf("%s table, column %s (%s); no statement changes the table, yet read %d afterwards differs from the first read\n  first: %s\n  now:   %s\n  statements:\n    %s",
				k.Format, k.Column, c20ColumnKindName(k.Column), round+1, first, again, strings.Join(trace, "\n    ")), k)
			return
		}
	}
	file := "ev." + k.Format
	before := drv.DirSnapshot(dir)
	rc := run("COMMIT;")
	env.Close()
	closed = true
	if rc.Err != nil || rc.Panic != nil {
		c.Violate("column-function:commit-fails", fmt.Sprintf("%v %v after\n    %s", rc.Err, rc.Panic, strings.Join(trace, "\n    ")), k)
		return
	}
	after := drv.DirSnapshot(dir)
	if k.Variant == "read" {
		if after[file] != before[file] {
			c.Violate(sig, fmt.Sprintf("no statement changes the table, yet COMMIT rewrites %s: %q -> %q\n  statements:\n    %s", file, before[file], after[file], strings.Join(trace, "\n    ")), k)
		}
		return
	}
	if k.Format != "csv" {
		return // a JSON file written back reads with the same values; whether every value keeps its JSON type is not C20's subject
	}
	env2 := drv.New(dir)
	defer env2.Close()
	r2 := env2.Exec("SELECT * FROM ev;")
	got := fmt.Sprintf("error: %v %v", r2.Err, r2.Panic)
	if r2.Err == nil && r2.Panic == nil && len(r2.Views) > 0 {
		got = drv.RowsKey(drv.Rows(r2.Views[len(r2.Views)-1]))
	}
	if got != first {
		c.Violate(sig, fmt.Sprintf("the transaction changed one record and read %s; after its COMMIT the file reads %s\n  statements:\n    %s", first, got, strings.Join(trace, "\n    ")), k)
	}
}

func c20ColumnKindName(col string) string {
	return map[string]string{"i": "integer texts", "f": "float texts", "d": "datetime texts", "s": "plain texts", "b": "boolean texts", "m": "mixed with NULLs", "z": "all NULL"}[col]
}

func c20ColumnCases(thorough bool) []c20ColumnCase {
	var out []c20ColumnCase
	seen := map[string]bool{}
	for _, format := range []string{"csv", "json"} {
		for _, variant := range []string{"read", "own"} {
			for _, col := range c20ColumnKinds {
				add := func(stmt string) {
					stmt = strings.ReplaceAll(stmt, "%C", col)
					key := format + variant + stmt
					if !seen[key] {
						seen[key] = true
						out = append(out, c20ColumnCase{"column-function", format, variant, col, stmt})
					}
				}
				for _, fn := range c20ColumnAggFuncs {
					for _, form := range c20ColumnAggForms {
						s := strings.ReplaceAll(form, "%F", fn)
						if fn == "LISTAGG" {
							s = strings.ReplaceAll(s, "LISTAGG(%C)", "LISTAGG(%C, ';')")
							s = strings.ReplaceAll(s, "LISTAGG(DISTINCT %C)", "LISTAGG(DISTINCT %C, ';')")
						}
						add(s)
					}
				}
				for _, s := range c20ColumnOther {
					add(s)
				}
			}
		}
	}
	return out
}

func c20ColumnRun(c *core.Ctx) {
	if !c20Only("column-function") {
		return
	}
	dir := core.Scratch("c20column")
	for i, k := range c20ColumnCases(c.Thorough()) {
		if !c.Mine(int64(i)) {
			continue
		}
		if c.Expired() {
			c.Incomplete("family column-function: time budget reached")
			return
		}
		c20ColumnOne(c, dir, k)
	}
}

func c20ColumnReplay(c *core.Ctx, payload json.RawMessage) bool {
	var k c20ColumnCase
	if json.Unmarshal(payload, &k) != nil || k.Family != "column-function" {
		return false
	}
	fmt.Printf("replaying family column-function: %+v\n", k)
	c20ColumnOne(c, core.Scratch("c20column-replay"), k)
	return true
}
