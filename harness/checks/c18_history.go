package checks

import (
	"encoding/json"
	"fmt"
	"strconv"
	"strings"

	"github.com/mithrandie/csvq/lib/parser"

	"verif/harness/internal/core"
)

// Extra family for C18: histories. The property speaks about every input text and about every text derived from a
// syntax tree, not about the first text a process parses: what the scanner and the parser return for a text is a
// function of that text and the two modes, whatever the same process (an interactive shell, a script with SOURCE or
// EXECUTE, an embedding program) has parsed before. Every other family of this check parses each text once, so a
// table the scanner keeps between texts (a memo of "what kind of word is this", an intern table, a cache with a
// capacity) is never observed in more than the state the texts before happened to leave.
//
// One case is a history inside this process: the probes (a word that has a token of its own - every keyword of the
// token table, the names of the aggregate, list and analytic functions, some scalar built-ins and the ternary
// literals - in upper and lower case in 12 places of the grammar) and the texts of a collider (a different word that
// some Unicode case mapping sends to the same ASCII word: dotless i U+0131, dotted capital I U+0130, long s U+017F,
// Kelvin sign U+212A, sharp s U+00DF and capital sharp s U+1E9E in place of ss, and as a control the word in mixed
// case) are scanned, parsed, printed and parsed back; then N distinct new identifiers go through the parser (a
// flood), the collider's texts are parsed first and the probes after it; then another flood and the other order.
// Oracle, differential, no reference needed: every text must come out as it came out at the start of the history -
// the same tokens, the same syntax error at the same position or the same tree, the same derived text, and the
// derived text parses to the same tree.
func init() {
	core.Extend("C18", "family history: for each of about 300 words with a token of their own (all keywords, 21 aggregate/list/analytic function names, scalar built-ins, ternary literals) and each collider of it "+
		"(one letter or all letters replaced by U+0131, U+0130, U+017F, U+212A, U+00DF, U+1E9E; mixed case as a control): probes and collider texts in 12 grammar places, then a flood of N distinct new identifiers "+
		"(N = 4097, 8193; thorough 2^k-1, 2^k, 2^k+1 for k = 6..13; in select lists of 128, as function names, and as one statement), collider first / probes first; plus every manual-style probe query in all four modes "+
		"around each flood and around the same texts parsed in the other modes; oracle: tokens, error or tree, derived text and its re-parse equal those at the start of the history", c18HistRun)
}

type c18HistCase struct {
	Family   string `json:"family"`
	Word     string `json:"word"`
	Collider string `json:"collider"`
	Class    string `json:"collider_class"`
	Kind     string `json:"word_kind"`
	N        int    `json:"flood"`
	Form     int    `json:"flood_form"`
}

// names with a token of their own that are not in the keyword table (manual: aggregate functions, analytic functions)
var c18HistFunctionNames = []string{
	"MIN", "MAX", "SUM", "AVG", "STDEV", "STDEVP", "VAR", "VARP", "MEDIAN", "LISTAGG", "JSON_AGG",
	"ROW_NUMBER", "RANK", "DENSE_RANK", "CUME_DIST", "PERCENT_RANK", "NTILE", "FIRST_VALUE", "LAST_VALUE", "NTH_VALUE", "LAG", "LEAD",
}

// other words the scanner or the evaluator looks up by name
var c18HistOtherNames = []string{
	"TRUE", "FALSE", "UNKNOWN", "NULL", "TRIM", "SUBSTRING", "INSTR", "IS_INTEGER", "IS_STRING", "STRING", "BASE64_ENCODE", "SHA1", "SHA512", "WIDTH", "LIST_ELEM", "NOW", "DATE_DIFF",
	"TIMESTAMP", "UNIX_TIME", "FILE_EXISTS", "CLI_ENCODING", "WAIT_TIMEOUT", "STRICT_EQUAL", "ANSI_QUOTES", "COUNT_DIGITS", "KEYS", "SKIP", "ASK", "KIND",
}

var c18HistTemplates = []string{
	"{x}", "SELECT {x}", "SELECT {x}(a)", "SELECT {x}(a, ',') WITHIN GROUP (ORDER BY a) FROM t", "SELECT {x}(a) OVER (PARTITION BY b ORDER BY a) FROM t",
	"SELECT {x}(a, 2) IGNORE NULLS OVER (ORDER BY a) FROM t", "SELECT a AS {x} FROM t", "SELECT {x}(DISTINCT a) FROM t GROUP BY b", "SELECT {x}() OVER () FROM t",
	"SELECT 1 {x} 2 FROM t", "{x} a", "SELECT a FROM t {x} BY a",
}

// queries written the way the manual writes them, run in all four modes around every flood
var c18HistManual = []string{
	"select c2, listagg(c1, ',') within group (order by c1) as l from t group by c2",
	"select c2, min(c1) as lo, median(c1) as mid, max(c1), sum(c1), avg(c1), stdev(c1), stdevp(c1), var(c1), varp(c1), count(*) from t group by c2",
	"select c1, first_value(c1) over (partition by c2 order by c1) as f, last_value(c1) over (order by c1), nth_value(c1, 2) over (order by c1) from t",
	"select lag(c1, 1, 0) over (order by c1), lead(c1) over (order by c1), ntile(3) over (order by c1) from t",
	"select row_number() over (order by c1), rank() over (order by c1), dense_rank() over (order by c1), cume_dist() over (order by c1), percent_rank() over (order by c1) from t",
	"select json_agg(c1) from t", "select json_object(c1, c2) from t", "select listagg(distinct c1) from t",
	"SELECT c1 AS lıstagg, c2 AS mın, c3 AS medıan, c4 AS fırst_value, c5 AS ſum, c6 AS ranK FROM t",
	"SELECT mın(c1), ſum(c1), lıstagg(c1, ','), ranK() OVER (ORDER BY c1) FROM t GROUP BY c2",
	"SELECT \"min\", \"a\", 'b', `c`, ?, :n, @v, @@f, @%e, @#i FROM \"t\" WHERE a = ? AND b IS NOT TRUE",
	"SELECT CASE WHEN a IS NULL THEN 1 ELSE 2 END, a BETWEEN 1 AND 2, a IN (1, 2), a LIKE 'x%', NOT a FROM t WHERE EXISTS (SELECT 1) ORDER BY a LIMIT 1 OFFSET 1",
	"VAR @a := 1; SET @@DELIMITER = ','; IF @a = 1 THEN PRINT 'x'; END IF; DECLARE c CURSOR FOR SELECT 1; OPEN c; FETCH c INTO @a; CLOSE c; DISPOSE CURSOR c;",
	"INSERT INTO t (a, b) VALUES (1, 2); UPDATE t SET a = 1 WHERE b = 2; DELETE FROM t WHERE a = 1; CREATE TABLE n (a, b); ALTER TABLE t ADD c DEFAULT 1; COMMIT; ROLLBACK;",
	"SELECT a FROM t JOIN u ON t.a = u.a LEFT OUTER JOIN v USING (a) CROSS JOIN w UNION ALL SELECT a FROM x INTERSECT SELECT a FROM y EXCEPT SELECT a FROM z",
}

type c18Collider struct{ text, class string }

func c18HistColliders(word string) []c18Collider {
	lower, upper := strings.ToLower(word), strings.ToUpper(word)
	var out []c18Collider
	seen := map[string]bool{lower: true, upper: true}
	add := func(text, class string) {
		if !seen[text] {
			seen[text] = true
			out = append(out, c18Collider{text, class})
		}
	}
	type sub struct {
		from, to, class string
		upper           bool
	}
	subs := []sub{
		{"i", "ı", "dotless-i", false}, {"I", "İ", "dotted-capital-i", true}, {"s", "ſ", "long-s", false}, {"K", "K", "kelvin-sign", true},
		{"ss", "ß", "sharp-s", false}, {"SS", "ẞ", "capital-sharp-s", true}, {"I", "ı", "dotless-i-in-upper-case", true}, {"S", "ſ", "long-s-in-upper-case", true},
	}
	for _, sb := range subs {
		base := lower
		if sb.upper {
			base = upper
		}
		for i := 0; i+len(sb.from) <= len(base); i++ {
			if base[i:i+len(sb.from)] == sb.from {
				add(base[:i]+sb.to+base[i+len(sb.from):], sb.class)
			}
		}
		add(strings.ReplaceAll(base, sb.from, sb.to), sb.class)
	}
	mixed := []byte(lower)
	for i := 1; i < len(mixed); i += 2 {
		if mixed[i] >= 'a' && mixed[i] <= 'z' {
			mixed[i] -= 'a' - 'A'
		}
	}
	add(string(mixed), "mixed-case")
	if len(lower) > 1 {
		add(upper[:1]+lower[1:], "mixed-case")
	}
	return out
}

type c18HistWord struct{ word, kind string }

func c18HistWords() []c18HistWord {
	var out []c18HistWord
	seen := map[string]bool{}
	add := func(w, kind string) {
		if w != "" && !seen[w] {
			seen[w] = true
			out = append(out, c18HistWord{w, kind})
		}
	}
	for tok := parser.KeywordFrom; tok <= parser.KeywordTo; tok++ {
		if kw, err := parser.KeywordLiteral(tok); err == nil {
			add(strings.ToUpper(kw), "keyword")
		}
	}
	for _, w := range c18HistFunctionNames {
		add(w, "function-name")
	}
	for _, w := range c18HistOtherNames {
		add(w, "other-name")
	}
	return out
}

// c18HistOutcome: everything the property lets one observe of a text in a mode - the tokens, the error or the tree,
// the derived texts, and what the derived texts parse back to.
func c18HistOutcome(text string, m c18Mode) (out string) {
	defer func() {
		if r := recover(); r != nil {
			out += fmt.Sprintf(" PANIC:%v", r)
		}
	}()
	var sb strings.Builder
	sb.WriteString("tokens[")
	sc := new(parser.Scanner).Init(text, "", m.Prep, m.Ansi)
	for i := 0; i < 1000000; i++ {
		tok, err := sc.Scan()
		if err != nil {
			fmt.Fprintf(&sb, "!%s", err.Error())
			break
		}
		if tok.Token == parser.EOF {
			break
		}
		fmt.Fprintf(&sb, "%s%q%v ", parser.TokenLiteral(tok.Token), tok.Literal, tok.Quoted)
	}
	sb.WriteString("] ")
	out = sb.String()
	out += c18HistParsed(text, m, 0)
	return out
}

func c18HistParsed(text string, m c18Mode, depth int) string {
	st, err, pan := c18Parse(text, m)
	switch {
	case pan != nil:
		return fmt.Sprintf("PANIC:%v", pan)
	case err != nil:
		if se, ok := err.(*parser.SyntaxError); ok {
			return fmt.Sprintf("error[%d:%d:%s]", se.Line, se.Char, se.Message)
		}
		return fmt.Sprintf("error[%T:%s]", err, err.Error())
	}
	var sb strings.Builder
	sb.WriteString("tree[" + c18ShapeOf(st) + "]")
	if depth >= 2 {
		return sb.String()
	}
	for _, one := range st {
		if q, ok := one.(parser.QueryExpression); ok {
			p := q.String()
			sb.WriteString(" derived[" + strconv.Quote(p) + " -> " + c18HistParsed(p, m, depth+1) + "]")
		}
	}
	return sb.String()
}

// c18HistPart names the first part in which two outcomes differ.
func c18HistPart(a, b string) string {
	i := 0
	for i < len(a) && i < len(b) && a[i] == b[i] {
		i++
	}
	pre := a[:i]
	best, at := "tokens", -1
	for _, part := range []string{"tokens[", "error[", "tree[", "derived[", "PANIC:"} {
		if k := strings.LastIndex(pre, part); k > at {
			best, at = strings.TrimRight(part, "[:"), k
		}
	}
	if best == "tokens" && at >= 0 && strings.Contains(pre[at:], "] ") {
		return "error-or-tree"
	}
	return strings.ToLower(best)
}

type c18Hist struct {
	c      *core.Ctx
	serial int64 // number of floods so far in this process: the names of a flood are new
	floods int64
	idents int64
	texts  int64
	cases  int64
}

func (h *c18Hist) flood(n, form int) {
	h.serial++
	name := func(i int) string { return fmt.Sprintf("z%dq%d", h.serial, i) }
	parse := func(text string) {
		if _, err, pan := c18Parse(text, c18Modes[0]); err != nil || pan != nil {
			h.c.Add("history_flood_texts_not_parsed", 1)
		}
	}
	h.floods++
	h.idents += int64(n)
	var items []string
	for i := 0; i < n; i++ {
		switch form {
		case 1:
			items = append(items, name(i)+"(1)")
		default:
			items = append(items, name(i))
		}
		if (form != 2 && len(items) == 128) || i == n-1 {
			parse("SELECT " + strings.Join(items, ", ") + " FROM generated")
			items = items[:0]
		}
	}
}

type c18HistProbe struct {
	text string
	m    c18Mode
}

func (h *c18Hist) snapshot(probes []c18HistProbe) []string {
	out := make([]string, len(probes))
	for i, p := range probes {
		out[i] = c18HistOutcome(p.text, p.m)
	}
	h.texts += int64(len(probes))
	return out
}

func c18HistTexts(word string) []c18HistProbe {
	var out []c18HistProbe
	for _, t := range c18HistTemplates {
		out = append(out, c18HistProbe{strings.ReplaceAll(t, "{x}", word), c18Modes[0]})
	}
	return out
}

// compare reports the first text of probes that no longer comes out as in base.
func (h *c18Hist) compare(k c18HistCase, side, step string, probes []c18HistProbe, base, now []string) bool {
	for i := range probes {
		if base[i] == now[i] {
			continue
		}
		part := c18HistPart(base[i], now[i])
		h.c.Violate("history:"+side+"-changed:"+part+":"+k.Kind+":"+k.Class,
			fmt.Sprintf("the text %s [%s] comes out differently after other texts were parsed in the same process (word %s, collider %s = %+q, flood of %d identifiers in form %d, %s):\n  at the start: %s\n  now:          %s",
				c18Show(probes[i].text), probes[i].m, k.Word, k.Collider, k.Collider, k.N, k.Form, step, c18HistClip(base[i]), c18HistClip(now[i])), k)
		return false
	}
	return true
}

func c18HistClip(s string) string {
	if len(s) > 700 {
		return s[:700] + "…"
	}
	return s
}

// one collider case: start / flood, collider, probes / flood, probes, collider
func (h *c18Hist) colliderCase(k c18HistCase) {
	var words []c18HistProbe
	words = append(words, c18HistTexts(strings.ToUpper(k.Word))...)
	words = append(words, c18HistTexts(strings.ToLower(k.Word))...)
	coll := c18HistTexts(k.Collider)
	baseW, baseC := h.snapshot(words), h.snapshot(coll)
	h.cases++
	nontrivial := false
	for _, o := range baseW {
		if strings.Contains(o, "tree[") {
			nontrivial = true
		}
	}
	h.c.Eval(fmt.Sprintf("history|%s|%s|%d|%d", k.Word, k.Collider, k.N, k.Form), nontrivial)

	h.flood(k.N, k.Form)
	nowC := h.snapshot(coll)
	nowW := h.snapshot(words)
	ok := h.compare(k, "word", "collider parsed first after the flood", words, baseW, nowW)
	ok = h.compare(k, "collider", "collider parsed first after the flood", coll, baseC, nowC) && ok
	if !ok {
		return
	}
	h.flood(k.N, k.Form)
	nowW = h.snapshot(words)
	nowC = h.snapshot(coll)
	ok = h.compare(k, "word", "word parsed first after the flood", words, baseW, nowW)
	_ = h.compare(k, "collider", "word parsed first after the flood", coll, baseC, nowC) && ok
}

// one flood case: all manual-style queries in all modes, flood (or the queries in the other modes), again
func (h *c18Hist) manualCase(k c18HistCase) {
	var probes []c18HistProbe
	for _, t := range c18HistManual {
		for _, m := range c18Modes {
			probes = append(probes, c18HistProbe{t, m})
		}
	}
	base := h.snapshot(probes)
	h.cases++
	h.c.Eval(fmt.Sprintf("history|manual|%d|%d", k.N, k.Form), true)
	if k.N > 0 {
		h.flood(k.N, k.Form)
	} else {
		// the same texts, mode by mode in the opposite order
		for i := len(probes) - 1; i >= 0; i-- {
			c18HistOutcome(probes[i].text, probes[i].m)
		}
	}
	now := h.snapshot(probes)
	h.compare(k, "manual-query", "manual-style queries around a flood", probes, base, now)
}

func c18HistSizes(thorough bool) []int {
	if !thorough {
		return []int{4097, 8193}
	}
	var out []int
	for k := 6; k <= 13; k++ {
		out = append(out, 1<<k-1, 1<<k, 1<<k+1)
	}
	return out
}

func c18HistRun(c *core.Ctx) {
	h := &c18Hist{c: c}
	sizes := c18HistSizes(c.Thorough())
	var serial int64
	defer func() {
		c.Add("cases_history", h.cases)
		c.Add("history_floods", h.floods)
		c.Add("history_flood_identifiers", h.idents)
		c.Add("history_texts_compared", h.texts)
	}()
	for _, n := range append([]int{0}, sizes...) {
		for form := 0; form < 3; form++ {
			if n == 0 && form > 0 {
				continue
			}
			serial++
			if !c.Mine(serial) {
				continue
			}
			if c.Expired() {
				c.Incomplete("time budget reached in family history")
				return
			}
			h.manualCase(c18HistCase{Family: "history", Word: "(manual queries)", Class: "none", Kind: "manual", N: n, Form: form})
		}
	}
	words := c18HistWords()
	c.Info("history_words", len(words))
	var colliders int64
	for _, w := range words {
		for _, col := range c18HistColliders(w.word) {
			colliders++
			for _, n := range sizes {
				serial++
				if !c.Mine(serial) {
					continue
				}
				if c.Expired() {
					c.Incomplete("time budget reached in family history")
					return
				}
				h.colliderCase(c18HistCase{Family: "history", Word: w.word, Collider: col.text, Class: col.class, Kind: w.kind, N: n, Form: int(serial % 2)})
			}
		}
	}
	c.Info("history_colliders", colliders)
}

func c18HistReplay(c *core.Ctx, payload json.RawMessage) bool {
	var k c18HistCase
	if json.Unmarshal(payload, &k) != nil || k.Family != "history" {
		return false
	}
	fmt.Printf("replaying family history: word %s, collider %+q, flood %d form %d\n", k.Word, k.Collider, k.N, k.Form)
	h := &c18Hist{c: c}
	if k.Kind == "manual" {
		h.manualCase(k)
	} else {
		h.colliderCase(k)
	}
	return true
}
