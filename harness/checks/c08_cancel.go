package checks

import (
	"context"
	"fmt"
	"strings"
	"sync/atomic"

	"github.com/mithrandie/csvq/lib/query"

	"verif/harness/internal/core"
	"verif/harness/internal/drv"
	"verif/harness/internal/rv"
)

// Extra family for C08: a statement can also return an error because its context is cancelled (csvq polls
// ctx.Err() while it loads, every 16 records of every loop, and before it installs a result). The poll at which
// the cancellation becomes visible is an environment answer: it is enumerated. For every statement of the list
// and every K = 0, 1, 2, ... the statement runs under a context whose Err() reports Canceled from its K-th call
// on, until a K is reached at which the statement completes.
func init() {
	core.Extend("C08", "family cancel: 48 data-changing statements and programs (every kind; file tables of 40, 10 and 330 records, temporary tables of 20 and 330; sub-queries, joins, sorting, grouping, user functions; "+
		"statements inside IF / WHILE / WHILE IN blocks and a user function) x cancellation becoming visible at the K-th poll of the context for every K until the statement completes (CPU flag 1: fixed order of polls; the 330-record statements also with csvq's default); "+
		"the transaction holds earlier uncommitted changes of all five tables; after a cancelled statement (and some further evaluation) every table reads well formed and as before it, and a COMMIT writes exactly the earlier changes; "+
		"after a cancelled program with control flow the tables are in the state after 0..n whole statements of it and COMMIT writes that state", c08CancelRun)
}

type c08PollCtx struct {
	context.Context
	calls *int64
	k     int64
}

func (c c08PollCtx) Err() error {
	if atomic.AddInt64(c.calls, 1) > c.k {
		return context.Canceled
	}
	return nil
}

// c08CancelProg is one entry of the sweep: a statement, or a program made of several.
type c08CancelProg struct {
	SQL   string // runs under the polling context
	Class string // class name in signatures; "" = the statement's first word
	Setup string // runs before it under the live context (declarations only)
	// Steps, for a program with control flow: the data-changing statements in the order in which the program executes
	// them. Each of them is a statement of its own: when the program is cancelled the tables have to be in the state
	// after some number (0..all) of them, never in between, and COMMIT writes exactly that state.
	Steps []string
}

var c08CancelStatements = []c08CancelProg{
	{SQL: "UPDATE t SET b = b || '!' WHERE a > 3"},
	{SQL: "UPDATE t, u SET t.b = u.w, u.w = t.a FROM t JOIN u ON t.k = u.k"},
	{SQL: "DELETE FROM t WHERE a % 2 = 0"},
	{SQL: "DELETE t, u FROM t JOIN u ON t.k = u.k"},
	{SQL: "INSERT INTO t SELECT a + 100, k, b FROM t"},
	{SQL: "INSERT INTO t VALUES " + c08Rows(20)},
	{SQL: "REPLACE INTO t (a, k, b) USING (k) SELECT a + 1, k, 'R' FROM t WHERE a < 20"},
	{SQL: "REPLACE INTO t (k, b) USING (k) VALUES ('k1', 'x'), ('new1', 'y'), ('k17', 'z'), ('new2', 'w'), ('k33', 'v')"},
	{SQL: "ALTER TABLE t ADD c DEFAULT a * 2"},
	{SQL: "ALTER TABLE t DROP b"},
	{SQL: "ALTER TABLE t RENAME b TO bb"},
	{SQL: "CREATE TABLE `n.csv` (x, y) AS SELECT a, b FROM t"},
	{SQL: "UPDATE tmp SET n = n + 1"},
	{SQL: "DELETE FROM tmp WHERE n > 5"},
	{SQL: "INSERT INTO tmp SELECT k, n FROM tmp"},
	{SQL: "REPLACE INTO tmp (k, n) USING (k) SELECT k, n + 1 FROM tmp"},
	{SQL: "ALTER TABLE tmp ADD c DEFAULT n * 2"},

	// since round 8: the statement kinds the list lacked
	{SQL: "ALTER TABLE tmp DROP n"},
	{SQL: "ALTER TABLE tmp RENAME n TO nn"},
	{SQL: "ALTER TABLE t DROP (a, b)"},
	{SQL: "ALTER TABLE t ADD (c1, c2 DEFAULT a || k) AFTER a"},
	{SQL: "CREATE TABLE `n.csv` (x, y)"},
	{SQL: "CREATE TABLE `u.csv` (x, y) AS SELECT a, b FROM t"}, // the name exists: refused at whatever poll
	{SQL: "CREATE TABLE `n.csv` (x, y) AS SELECT t.a, u.w FROM t JOIN u ON t.k = u.k ORDER BY u.w DESC"},
	{SQL: "DELETE FROM t WHERE k IN (SELECT k FROM u)"},
	{SQL: "UPDATE t SET b = (SELECT w FROM u WHERE u.k = t.k) WHERE a <= 12"},
	{SQL: "INSERT INTO tmp (k, n) SELECT b, COUNT(*) FROM t GROUP BY b"},
	{SQL: "UPDATE t SET b = g(b) WHERE a > 3", Setup: "DECLARE g FUNCTION (@x) AS BEGIN RETURN @x || '?'; END;"},

	// statements inside control flow and user functions
	{SQL: "IF (SELECT COUNT(*) FROM t) > 0 THEN UPDATE t SET b = b || '!' WHERE a > 3; END IF;", Class: "IF-block",
		Steps: []string{"UPDATE t SET b = b || '!' WHERE a > 3"}},
	{SQL: "IF FALSE THEN SELECT 1; ELSEIF TRUE THEN DELETE FROM tmp WHERE n > 5; INSERT INTO t SELECT a + 100, k, b FROM t; ELSE SELECT 2; END IF;", Class: "IF-block",
		Steps: []string{"DELETE FROM tmp WHERE n > 5", "INSERT INTO t SELECT a + 100, k, b FROM t"}},
	{SQL: "VAR @i := 0; WHILE @i < 2 DO UPDATE t SET b = b || '+' WHERE a % 2 = @i; @i := @i + 1; END WHILE;", Class: "WHILE-loop",
		Steps: []string{"UPDATE t SET b = b || '+' WHERE a % 2 = 0", "UPDATE t SET b = b || '+' WHERE a % 2 = 1"}},
	{SQL: "DECLARE cur CURSOR FOR SELECT k FROM u WHERE w <= 30; OPEN cur; VAR @k; WHILE @k IN cur DO DELETE FROM t WHERE k = @k; END WHILE; CLOSE cur;", Class: "WHILE-IN-cursor",
		Steps: []string{"DELETE FROM t WHERE k = 'k4'", "DELETE FROM t WHERE k = 'k8'", "DELETE FROM t WHERE k = 'k12'"}},
	{SQL: "SELECT f('x');", Class: "user-function", Setup: "DECLARE f FUNCTION (@x) AS BEGIN UPDATE t SET b = @x WHERE a > 3; INSERT INTO tmp VALUES ('f', 1); RETURN 1; END;",
		Steps: []string{"UPDATE t SET b = 'x' WHERE a > 3", "INSERT INTO tmp VALUES ('f', 1)"}},

	// a table of 330 records: the polls made before every 16th record inside the loops of the filter, the join, the
	// sort, the grouping, the conversion of the records (View.Fix) and the installation are reached
	{SQL: "UPDATE big SET v = v || '!' WHERE id % 3 = 0"},
	{SQL: "DELETE FROM big WHERE id % 2 = 0"},
	{SQL: "INSERT INTO big SELECT id + 1000, g, v FROM big ORDER BY g DESC, id"},
	{SQL: "UPDATE big SET v = t.b FROM big JOIN t ON big.g = t.a"},
	{SQL: "DELETE big, t FROM big JOIN t ON big.id = t.a"},
	{SQL: "REPLACE INTO big (id, g, v) USING (id) SELECT id + 5, g, 'R' FROM big"},
	{SQL: "ALTER TABLE big DROP g"},
	{SQL: "ALTER TABLE big ADD z DEFAULT id * 2 FIRST"},
	{SQL: "ALTER TABLE big RENAME v TO vv"},
	{SQL: "CREATE TABLE `n.csv` (x, y) AS SELECT id, v FROM big WHERE id > 10 ORDER BY v"},
	{SQL: "INSERT INTO tmp (k, n) SELECT 'g' || g, COUNT(*) FROM big GROUP BY g"},
	{SQL: "UPDATE bigtmp SET v = v || '!' WHERE id % 3 = 0"},
	{SQL: "DELETE FROM bigtmp WHERE id % 2 = 0"},
	{SQL: "ALTER TABLE bigtmp DROP g"},
	{SQL: "INSERT INTO bigtmp SELECT id + 1000, g, v FROM big WHERE g < 20"},
}

func c08Rows(n int) string {
	p := make([]string, n)
	for i := range p {
		p[i] = fmt.Sprintf("(%d, 'i%d', 'v')", 200+i, i)
	}
	return strings.Join(p, ", ")
}

func c08CancelFiles() map[string]string {
	var t, u, big strings.Builder
	t.WriteString("a,k,b\n")
	for i := 1; i <= 40; i++ {
		fmt.Fprintf(&t, "%d,k%d,b%d\n", i, i, i)
	}
	u.WriteString("k,w\n")
	for i := 1; i <= 10; i++ {
		fmt.Fprintf(&u, "k%d,%d\n", i*4, i*10)
	}
	big.WriteString("id,g,v\n")
	for i := 1; i <= 330; i++ {
		fmt.Fprintf(&big, "%d,%d,v%d\n", i, i%40+1, i%7)
	}
	return map[string]string{"t.csv": t.String(), "u.csv": u.String(), "big.csv": big.String()}
}

const c08CancelPreamble = "DECLARE tmp VIEW (k, n); INSERT INTO tmp SELECT k, a FROM t WHERE a <= 20; DECLARE bigtmp VIEW (id, g, v) AS SELECT id, g, v FROM big; COMMIT;"

// earlier, uncommitted changes of the same transaction: a cancelled statement must not lose them either
const c08CancelEarlier = "UPDATE t SET b = 'pre' WHERE a = 1; UPDATE u SET w = 0 WHERE k = 'k4'; UPDATE tmp SET n = -1 WHERE k = 'k2'; UPDATE big SET v = 'pre' WHERE id = 2; UPDATE bigtmp SET v = 'pre' WHERE id = 3;"

const c08CancelRead = "SELECT * FROM t; SELECT * FROM u; SELECT * FROM tmp; SELECT * FROM big; SELECT * FROM bigtmp;"

func c08ReadKey(env *drv.Env) (string, error) {
	r := env.Exec(c08CancelRead)
	if r.Panic != nil {
		return "", fmt.Errorf("panic: %v", r.Panic)
	}
	if r.Err != nil {
		return "", r.Err
	}
	var sb strings.Builder
	for _, v := range r.Views {
		k, err := c08ViewKey(v)
		if err != nil {
			return "", err
		}
		sb.WriteString(k + "\n")
	}
	return sb.String(), nil
}

// c08ViewKey is the comparable text of a result of SELECT *. It first looks at the shape of the result: a table that
// an interrupted statement left half-converted can hold records that are shorter or longer than the header, or cells
// without a value; such a result is reported as an error (the callers turn it into "unreadable"), it must not bring
// the reader down.
func c08ViewKey(v *query.View) (string, error) {
	hdr := drv.Header(v)
	var sb strings.Builder
	sb.WriteString(strings.Join(hdr, ",") + "|")
	for i, rec := range v.RecordSet {
		if len(rec) != len(hdr) {
			return "", fmt.Errorf("malformed table: record %d has %d cells under a header of %d columns (%s)", i+1, len(rec), len(hdr), strings.Join(hdr, ","))
		}
		sb.WriteByte('[')
		for j := range rec {
			if len(rec[j]) < 1 || rec[j][0] == nil {
				return "", fmt.Errorf("malformed table: record %d has no value in column %d (%s)", i+1, j+1, hdr[j])
			}
			if j > 0 {
				sb.WriteByte('|')
			}
			sb.WriteString(rv.FromPrimary(rec[j][0]).Key())
		}
		sb.WriteByte(']')
	}
	return sb.String(), nil
}

// c08CancelState is what the tables read and what COMMIT writes after the first i of a program's Steps.
type c08CancelState struct {
	key   string
	files map[string]string
	err   error
}

var c08CancelStates = map[string][]c08CancelState{}

func c08CancelOpen(dir string, prog *c08CancelProg, cpu int) (*drv.Env, error) {
	drv.ClearDir(dir)
	drv.WriteFiles(dir, c08CancelFiles())
	env := drv.New(dir)
	env.Tx.Flags.SetQuiet(true)
	if cpu > 0 {
		env.Tx.Flags.SetCPU(cpu)
	}
	if r := env.Exec(c08CancelPreamble + " " + c08CancelEarlier + " " + prog.Setup); r.Err != nil || r.Panic != nil {
		env.Close()
		return nil, fmt.Errorf("preamble failed: %v %v", r.Err, r.Panic)
	}
	return env, nil
}

// c08CancelReference: the states a cancelled program may leave - for a statement the state before it alone, for a
// program with Steps the states after 0, 1, ..., all of them, each run without any cancellation in a session of its own.
func c08CancelReference(dir string, prog *c08CancelProg) []c08CancelState {
	if st, ok := c08CancelStates[prog.SQL]; ok {
		return st
	}
	var states []c08CancelState
	for i := 0; i <= len(prog.Steps); i++ {
		var st c08CancelState
		func() {
			env, err := c08CancelOpen(dir, prog, 1)
			if err != nil {
				st.err = err
				return
			}
			defer env.Close()
			for _, step := range prog.Steps[:i] {
				if r := env.Exec(step + ";"); r.Err != nil || r.Panic != nil {
					st.err = fmt.Errorf("step %q of the program fails when run alone: %v %v", step, r.Err, r.Panic)
					return
				}
			}
			if st.key, st.err = c08ReadKey(env); st.err != nil {
				return
			}
			if r := env.Exec("COMMIT;"); r.Err != nil || r.Panic != nil {
				st.err = fmt.Errorf("COMMIT: %v %v", r.Err, r.Panic)
				return
			}
			st.files = drv.DirSnapshot(dir)
		}()
		states = append(states, st)
	}
	c08CancelStates[prog.SQL] = states
	return states
}

type c08CancelPayload struct {
	Family string `json:"family"`
	SQL    string `json:"sql"`
	K      int64  `json:"cancel_visible_from_poll"`
	CPU    int    `json:"cpu_flag,omitempty"` // 0 = csvq's default
}

func c08CancelProgOf(sql string) *c08CancelProg {
	for i := range c08CancelStatements {
		if c08CancelStatements[i].SQL == sql {
			return &c08CancelStatements[i]
		}
	}
	return &c08CancelProg{SQL: sql}
}

func c08CancelClass(prog *c08CancelProg) string {
	if prog.Class != "" {
		return prog.Class
	}
	cls := strings.Fields(prog.SQL)[0]
	switch {
	case strings.Contains(prog.SQL, "bigtmp"):
		cls += "@long-temp"
	case strings.Contains(prog.SQL, "big"):
		cls += "@long"
	case len(strings.Fields(prog.SQL)) > 2 && strings.Contains(prog.SQL, "tmp"):
		cls += "@temp"
	}
	return cls
}

// c08IsCancelled tells whether err is csvq's report of a cancelled context (not: any text with "cancel" in it - the
// scratch directories of these families have it in their names, and file names appear in error messages).
func c08IsCancelled(err error) bool {
	if err == nil {
		return false
	}
	switch err.(type) {
	case *query.ContextCanceled, *query.ContextDone:
		return true
	}
	// "[Context] context canceled" from the engine, "[Context] execution canceled" from the file layer
	return strings.HasPrefix(err.Error(), "[Context] ")
}

// c08CancelOne runs one (statement, K); it returns false when no further K is to be tried (the statement completed,
// or it is refused for a reason that does not depend on the context), and the number of polls the statement made.
func c08CancelOne(c *core.Ctx, dir string, prog *c08CancelProg, k int64, cpu int) (more bool, polls int64) {
	sql := prog.SQL
	states := c08CancelReference(dir, prog)
	for _, st := range states {
		if st.err != nil {
			c.Incomplete("cancel family: the session without cancellation fails: " + st.err.Error())
			return false, 0
		}
	}
	env, err := c08CancelOpen(dir, prog, cpu)
	if err != nil {
		c.Incomplete("cancel family: " + err.Error())
		return false, 0
	}
	defer env.Close()
	payload := c08CancelPayload{"cancel", sql, k, cpu}
	before, err := c08ReadKey(env)
	if err != nil {
		c.Incomplete("cancel family: tables unreadable before the statement: " + err.Error())
		return false, 0
	}
	if before != states[0].key {
		c.Incomplete("cancel family: two sessions prepared alike read different tables")
		return false, 0
	}
	var calls int64
	normal := env.Ctx
	env.Ctx = c08PollCtx{Context: normal, calls: &calls, k: k}
	r := env.Exec(sql)
	env.Ctx = normal
	cls := c08CancelClass(prog)
	where := fmt.Sprintf("%q with the cancellation visible from poll %d of the context on (%d polls made)", sql, k, calls)
	if r.Panic != nil {
		c.Violate("cancel:"+cls+":panic", where+": "+fmt.Sprint(r.Panic), payload)
		return true, calls
	}
	if r.Err == nil {
		if len(prog.Steps) > 0 {
			// the program ran to its end: the tables have to be in the last state of the reference, or Steps does not
			// describe the program (a mistake of this file, nothing about csvq)
			if done, err := c08ReadKey(env); err != nil || done != states[len(states)-1].key {
				c.Incomplete("cancel family: the Steps given for " + sql + " do not lead to the state the completed program leaves")
			}
		}
		return false, calls // completed before (or without) noticing the cancellation
	}
	c.Eval(fmt.Sprintf("cancel|%s|%d|%d", sql, k, cpu), true)
	more = true
	if !c08IsCancelled(r.Err) {
		c.Observe("cancel_family_other_errors", strings.ReplaceAll(r.Err.Error(), dir, "<dir>"))
		more = false // refused whatever the context says; still a failed statement, looked at below
	}
	env.Exec(c08Churn)
	after, err := c08ReadKey(env)
	if err != nil {
		c.Violate("cancel:"+cls+":tables-unreadable-after-the-cancelled-statement", where+": "+err.Error(), payload)
		return more, calls
	}
	var reached []int // the states of the reference the tables may be in
	for i, st := range states {
		if st.key == after {
			reached = append(reached, i)
		}
	}
	if len(reached) == 0 {
		if len(prog.Steps) == 0 {
			c.Violate("cancel:"+cls+":table-changed-by-cancelled-statement", fmt.Sprintf("%s: error %q, yet the tables read\n%safterwards; before:\n%s", where, r.Err, clip(after), clip(before)), payload)
		} else {
			c.Violate("cancel:"+cls+":tables-between-two-statements-of-the-cancelled-program", fmt.Sprintf("%s: error %q; the tables read\n%safterwards, which is the state after none of the 0..%d first statements of the program; before:\n%s", where, r.Err, clip(after), len(prog.Steps), clip(before)), payload)
		}
		return more, calls
	}
	if len(prog.Steps) > 0 {
		c.Observe("cancel_family_program_stopped_after", fmt.Sprintf("%s: %d of %d statements", cls, reached[0], len(prog.Steps)))
	}
	if r2 := env.Exec("COMMIT;"); r2.Err != nil || r2.Panic != nil {
		c.Violate("cancel:"+cls+":commit-fails-after-the-cancelled-statement", fmt.Sprintf("%s: COMMIT: %v %v", where, r2.Err, r2.Panic), payload)
		return more, calls
	}
	snap := drv.DirSnapshot(dir)
	var diff string
	for _, i := range reached {
		diff = ""
		files := states[i].files
		for n, b := range files {
			if snap[n] != b {
				diff = fmt.Sprintf("commit-writes-partial-effects\x00after COMMIT %s holds %q", n, clip(snap[n]))
				break
			}
		}
		for n := range snap {
			if _, ok := files[n]; !ok && diff == "" {
				diff = fmt.Sprintf("file-left-by-cancelled-statement\x00after COMMIT the directory holds %s", n)
			}
		}
		if diff == "" {
			break
		}
	}
	if diff != "" {
		p := strings.SplitN(diff, "\x00", 2)
		c.Violate("cancel:"+cls+":"+p[0], where+": "+p[1], payload)
	}
	return more, calls
}

const c08CancelMaxPolls = 3000

func c08CancelRun(c *core.Ctx) {
	dir := core.Scratch("c08cancel")
	// CPU flag 1: every loop over the records runs in the calling goroutine and the polls of a statement come in a fixed
	// order, so that "every K" is every point at which the statement can be interrupted. The tables of 330 records are
	// long enough to be divided among goroutines (80 records each): their statements are swept a second time with csvq's
	// default, where the K-th poll is whichever goroutine comes K-th (the oracle does not depend on it).
	//
	// The values of K of one statement are dealt out to the workers (a statement on the long table makes 900 polls); a
	// worker goes on to the next statement at the first of its K at which the statement completes. A statement that
	// completes makes the same number T of polls whatever K >= T it was given, so every worker stops within 16 of T.
	var idx int64
	for _, cpu := range []int{1, 0} {
		for i := range c08CancelStatements {
			prog := &c08CancelStatements[i]
			if cpu == 0 && !strings.Contains(prog.SQL, "big") {
				continue
			}
			idx++
			var k, polls int64
			more := true
			for ; more && k < c08CancelMaxPolls; k++ {
				if !c.Mine(idx*7 + k) {
					continue
				}
				if c.Expired() {
					c.Incomplete("time budget reached in family cancel")
					return
				}
				more, polls = c08CancelOne(c, dir, prog, k, cpu)
			}
			f := strings.Fields(prog.SQL)
			if len(f) > 3 {
				f = f[:3]
			}
			if c.IsReplay {
				fmt.Printf("%s [%s] cpu=%d: %d polls until completion\n", strings.Join(f, " "), c08CancelClass(prog), cpu, polls)
			}
			if cpu == 1 && !more {
				c.Observe("cancel_family_polls", fmt.Sprintf("%s [%s]: %d polls until completion", strings.Join(f, " "), c08CancelClass(prog), polls))
			}
			if more {
				c.Incomplete(fmt.Sprintf("cancel family: more than %d polls in %s", c08CancelMaxPolls, prog.SQL))
			}
		}
	}
}
