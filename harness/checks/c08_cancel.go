package checks

import (
	"context"
	"fmt"
	"strings"
	"sync/atomic"

	"github.com/mithrandie/csvq/lib/query"

	"verif/harness/internal/core"
	"verif/harness/internal/drv"
	"verif/harness/internal/rv"
)

// Extra family for C08: a statement can also return an error because its context is cancelled (csvq polls
// ctx.Err() while it loads, every 16 records of every loop, and before it installs a result). The poll at which
// the cancellation becomes visible is an environment answer: it is enumerated. For every statement of the list
// and every K = 0, 1, 2, ... the statement runs under a context whose Err() reports Canceled from its K-th call
// on, until a K is reached at which the statement completes.
func init() {
	core.Extend("C08", "family cancel: 17 data-changing statements (every kind, file tables of 40 and 10 records, a temporary table) x cancellation becoming visible at the K-th poll of the context for every K until the statement completes; "+
		"the transaction holds earlier uncommitted changes of all three tables; after a cancelled statement (and some further evaluation) every table reads as before it, and a COMMIT writes exactly the earlier changes", c08CancelRun)
}

type c08PollCtx struct {
	context.Context
	calls *int64
	k     int64
}

func (c c08PollCtx) Err() error {
	if atomic.AddInt64(c.calls, 1) > c.k {
		return context.Canceled
	}
	return nil
}

var c08CancelStatements = []string{
	"UPDATE t SET b = b || '!' WHERE a > 3",
	"UPDATE t, u SET t.b = u.w, u.w = t.a FROM t JOIN u ON t.k = u.k",
	"DELETE FROM t WHERE a % 2 = 0",
	"DELETE t, u FROM t JOIN u ON t.k = u.k",
	"INSERT INTO t SELECT a + 100, k, b FROM t",
	"INSERT INTO t VALUES " + c08Rows(20),
	"REPLACE INTO t (a, k, b) USING (k) SELECT a + 1, k, 'R' FROM t WHERE a < 20",
	"REPLACE INTO t (k, b) USING (k) VALUES ('k1', 'x'), ('new1', 'y'), ('k17', 'z'), ('new2', 'w'), ('k33', 'v')",
	"ALTER TABLE t ADD c DEFAULT a * 2",
	"ALTER TABLE t DROP b",
	"ALTER TABLE t RENAME b TO bb",
	"CREATE TABLE `n.csv` (x, y) AS SELECT a, b FROM t",
	"UPDATE tmp SET n = n + 1",
	"DELETE FROM tmp WHERE n > 5",
	"INSERT INTO tmp SELECT k, n FROM tmp",
	"REPLACE INTO tmp (k, n) USING (k) SELECT k, n + 1 FROM tmp",
	"ALTER TABLE tmp ADD c DEFAULT n * 2",
}

func c08Rows(n int) string {
	p := make([]string, n)
	for i := range p {
		p[i] = fmt.Sprintf("(%d, 'i%d', 'v')", 200+i, i)
	}
	return strings.Join(p, ", ")
}

func c08CancelFiles() map[string]string {
	var t, u strings.Builder
	t.WriteString("a,k,b\n")
	for i := 1; i <= 40; i++ {
		fmt.Fprintf(&t, "%d,k%d,b%d\n", i, i, i)
	}
	u.WriteString("k,w\n")
	for i := 1; i <= 10; i++ {
		fmt.Fprintf(&u, "k%d,%d\n", i*4, i*10)
	}
	return map[string]string{"t.csv": t.String(), "u.csv": u.String()}
}

const c08CancelPreamble = "DECLARE tmp VIEW (k, n); INSERT INTO tmp SELECT k, a FROM t WHERE a <= 20; COMMIT;"

// earlier, uncommitted changes of the same transaction: a cancelled statement must not lose them either
const c08CancelEarlier = "UPDATE t SET b = 'pre' WHERE a = 1; UPDATE u SET w = 0 WHERE k = 'k4'; UPDATE tmp SET n = -1 WHERE k = 'k2';"

var c08CancelBaseline map[string]string // the files after the earlier changes alone were committed

func c08CancelBase(dir string) map[string]string {
	if c08CancelBaseline == nil {
		drv.ClearDir(dir)
		drv.WriteFiles(dir, c08CancelFiles())
		env := drv.New(dir)
		env.Tx.Flags.SetQuiet(true)
		env.Exec(c08CancelPreamble + " " + c08CancelEarlier + " COMMIT;")
		env.Close()
		c08CancelBaseline = drv.DirSnapshot(dir)
	}
	return c08CancelBaseline
}

const c08CancelRead = "SELECT * FROM t; SELECT * FROM u; SELECT * FROM tmp;"

func c08ReadKey(env *drv.Env) (string, error) {
	r := env.Exec(c08CancelRead)
	if r.Panic != nil {
		return "", fmt.Errorf("panic: %v", r.Panic)
	}
	if r.Err != nil {
		return "", r.Err
	}
	var sb strings.Builder
	for _, v := range r.Views {
		k, err := c08ViewKey(v)
		if err != nil {
			return "", err
		}
		sb.WriteString(k + "\n")
	}
	return sb.String(), nil
}

// c08ViewKey is the comparable text of a result of SELECT *. It first looks at the shape of the result: a table that
// an interrupted statement left half-converted can hold records that are shorter or longer than the header, or cells
// without a value; such a result is reported as an error (the callers turn it into "unreadable"), it must not bring
// the reader down.
func c08ViewKey(v *query.View) (string, error) {
	hdr := drv.Header(v)
	var sb strings.Builder
	sb.WriteString(strings.Join(hdr, ",") + "|")
	for i, rec := range v.RecordSet {
		if len(rec) != len(hdr) {
			return "", fmt.Errorf("malformed table: record %d has %d cells under a header of %d columns (%s)", i+1, len(rec), len(hdr), strings.Join(hdr, ","))
		}
		sb.WriteByte('[')
		for j := range rec {
			if len(rec[j]) < 1 || rec[j][0] == nil {
				return "", fmt.Errorf("malformed table: record %d has no value in column %d (%s)", i+1, j+1, hdr[j])
			}
			if j > 0 {
				sb.WriteByte('|')
			}
			sb.WriteString(rv.FromPrimary(rec[j][0]).Key())
		}
		sb.WriteByte(']')
	}
	return sb.String(), nil
}

type c08CancelPayload struct {
	Family string `json:"family"`
	SQL    string `json:"sql"`
	K      int64  `json:"cancel_visible_from_poll"`
}

// c08CancelOne runs one (statement, K); it returns false when the statement completed (no further K needed).
func c08CancelOne(c *core.Ctx, dir string, sql string, k int64) bool {
	files := c08CancelBase(dir)
	drv.ClearDir(dir)
	drv.WriteFiles(dir, c08CancelFiles())
	env := drv.New(dir)
	defer env.Close()
	env.Tx.Flags.SetQuiet(true)
	payload := c08CancelPayload{"cancel", sql, k}
	if r := env.Exec(c08CancelPreamble + " " + c08CancelEarlier); r.Err != nil || r.Panic != nil {
		c.Incomplete(fmt.Sprintf("cancel family: preamble failed: %v %v", r.Err, r.Panic))
		return false
	}
	before, err := c08ReadKey(env)
	if err != nil {
		c.Incomplete("cancel family: tables unreadable before the statement: " + err.Error())
		return false
	}
	var calls int64
	normal := env.Ctx
	env.Ctx = c08PollCtx{Context: normal, calls: &calls, k: k}
	r := env.Exec(sql)
	env.Ctx = normal
	cls := strings.Fields(sql)[0]
	if len(strings.Fields(sql)) > 2 && strings.Contains(sql, "tmp") {
		cls += "@temp"
	}
	where := fmt.Sprintf("%q with the cancellation visible from poll %d of the context on (%d polls made)", sql, k, calls)
	if r.Panic != nil {
		c.Violate("cancel:"+cls+":panic", where+": "+fmt.Sprint(r.Panic), payload)
		return true
	}
	if r.Err == nil {
		return false // completed before (or without) noticing the cancellation
	}
	c.Eval(fmt.Sprintf("cancel|%s|%d", sql, k), true)
	if !strings.Contains(strings.ToLower(r.Err.Error()), "cancel") {
		c.Observe("cancel_family_other_errors", r.Err.Error())
	}
	env.Exec(c08Churn)
	after, err := c08ReadKey(env)
	if err != nil {
		c.Violate("cancel:"+cls+":tables-unreadable-after-the-cancelled-statement", where+": "+err.Error(), payload)
		return true
	}
	if after != before {
		c.Violate("cancel:"+cls+":table-changed-by-cancelled-statement", fmt.Sprintf("%s: error %q, yet the tables read\n%safterwards; before:\n%s", where, r.Err, clip(after), clip(before)), payload)
		return true
	}
	if r2 := env.Exec("COMMIT;"); r2.Err != nil || r2.Panic != nil {
		c.Violate("cancel:"+cls+":commit-fails-after-the-cancelled-statement", fmt.Sprintf("%s: COMMIT: %v %v", where, r2.Err, r2.Panic), payload)
		return true
	}
	snap := drv.DirSnapshot(dir)
	for n, b := range files {
		if snap[n] != b {
			c.Violate("cancel:"+cls+":commit-writes-partial-effects", fmt.Sprintf("%s: after COMMIT %s holds %q", where, n, clip(snap[n])), payload)
			return true
		}
	}
	for n := range snap {
		if _, ok := files[n]; !ok {
			c.Violate("cancel:"+cls+":file-left-by-cancelled-statement", fmt.Sprintf("%s: after COMMIT the directory holds %s", where, n), payload)
			return true
		}
	}
	return true
}

func c08CancelRun(c *core.Ctx) {
	dir := core.Scratch("c08cancel")
	for i, sql := range c08CancelStatements {
		if !c.Mine(int64(i)) {
			continue
		}
		var k int64
		for ; k < 400; k++ {
			if c.Expired() {
				c.Incomplete("time budget reached in family cancel")
				return
			}
			if !c08CancelOne(c, dir, sql, k) {
				break
			}
		}
		c.Observe("cancel_family_polls", fmt.Sprintf("%s: %d polls until completion", strings.Join(strings.Fields(sql)[:3], " "), k))
		if k >= 400 {
			c.Incomplete("cancel family: more than 400 polls in " + sql)
		}
	}
}
