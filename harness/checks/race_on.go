//go:build race

package checks

const raceEnabled = true
