package checks

// C19: what the in-process extension families (datetime-text, arity, lateral) share: the termination oracle of the
// property on one execution of drv, the rectangularity oracle on result views, replay dispatch and a debugging switch.

import (
	"encoding/json"
	"fmt"
	"os"
	"runtime/debug"
	"strconv"
	"strings"
	"sync"

	"github.com/mithrandie/csvq/lib/parser"
	"github.com/mithrandie/csvq/lib/query"

	"verif/harness/internal/c19ref"
	"verif/harness/internal/core"
	"verif/harness/internal/drv"
)

// c19ExtOff tells an extension family not to run: in a supervised child process, or when C19_EXT=name[,name]
// restricts the extension families (debugging aid, like C19_FAMILIES for the supervised ones; the run is then
// reported as incomplete).
func c19ExtOff(c *core.Ctx, name string) bool {
	if os.Getenv("C19_CHILD") != "" {
		// core.Extend chains the families behind c19Run, which is also what a supervised child process executes: the
		// extension families belong to the worker itself. (Run inside the children they were repeated once per family
		// and restart, and their CPU time was taken for a stall of the child's last case.)
		return true
	}
	only := os.Getenv("C19_EXT")
	if only == "" || strings.Contains(","+only+",", ","+name+",") {
		return false
	}
	c.Incomplete("restricted to extension families " + only + " by C19_EXT")
	return true
}

// replay functions of the extension families, by the "family" member of the payload
var c19ExtReplays = map[string]func(c *core.Ctx, payload json.RawMessage){}

func c19ExtReplay(c *core.Ctx, payload json.RawMessage) bool {
	var k struct {
		Family string `json:"family"`
	}
	if json.Unmarshal(payload, &k) != nil || k.Family == "" {
		return false
	}
	f, ok := c19ExtReplays[k.Family]
	if !ok {
		return false
	}
	fmt.Printf("replaying family %s: %s\n", k.Family, string(payload))
	f(c, payload)
	return true
}

type c19ExtResult struct {
	Views []*query.View
	Err   error
	Panic any
	Stack string
}

var c19ExtParsed sync.Map // program text -> []parser.Statement (the families repeat a few hundred texts)

// c19ExtExec runs program text on a process image of drv, one statement at a time the way the interactive shell
// does (an error ends only the statement that raised it); each is handed to judge.
func c19ExtExec(env *drv.Env, sql string, each func(i int, r c19ExtResult)) {
	var st []parser.Statement
	if v, ok := c19ExtParsed.Load(sql); ok {
		st = v.([]parser.Statement)
	} else {
		var err error
		st, _, err = parser.Parse(sql, "", false, env.Tx.Flags.AnsiQuotes)
		if err != nil {
			if se, ok := err.(*parser.SyntaxError); ok {
				err = query.NewSyntaxError(se)
			}
			each(0, c19ExtResult{Err: err})
			return
		}
		c19ExtParsed.Store(sql, st)
	}
	sctx := query.ContextForStoringResults(env.Ctx)
	for i := range st {
		var r c19ExtResult
		func() {
			defer func() {
				if p := recover(); p != nil {
					r.Panic = p
					r.Stack = string(debug.Stack())
				}
			}()
			env.Tx.SelectedViews = nil
			_, r.Err = env.Proc.Execute(sctx, st[i:i+1])
			r.Views = env.Tx.SelectedViews
		}()
		each(i, r)
		if r.Panic != nil {
			return // the process image is not to be trusted after a panic
		}
	}
}

// c19ExtJudge is the oracle of the property on one termination: no Go panic, no Fatal Error, a documented return
// code and a message; and every result table rectangular. fam names the family, class the kind of case (no data).
func c19ExtJudge(c *core.Ctx, fam, class string, r c19ExtResult, desc string, payload any) string {
	if r.Panic != nil {
		st := r.Stack
		if len(st) > 1800 {
			st = st[:1800] + "\n..."
		}
		c.Violate("panic:"+fam+":"+c19Norm(fmt.Sprint(r.Panic))+"@"+c19Frame(r.Stack), fmt.Sprintf("a Go panic escaped csvq: %s: %v\n%s", desc, r.Panic, st), payload)
		return "panic"
	}
	for _, v := range r.Views {
		for i, rec := range v.RecordSet {
			if len(rec) != len(v.Header) {
				c.Violate("ragged:"+fam+":"+class, fmt.Sprintf("%s: record %d of the result has %d fields, its header %d", desc, i, len(rec), len(v.Header)), payload)
				return "ragged"
			}
		}
	}
	if r.Err == nil {
		return "ok"
	}
	if _, ok := r.Err.(*query.ForcedExit); ok {
		return "exit"
	}
	msg := r.Err.Error()
	if drv.IsFatal(r.Err) {
		m := msg
		if i := strings.Index(m, "[Fatal Error] "); i >= 0 {
			m = m[i+len("[Fatal Error] "):]
		}
		if len(msg) > 1800 {
			msg = msg[:1800] + "\n..."
		}
		c.Violate("fatal:"+fam+":"+c19Norm(m)+"@"+c19Frame(r.Err.Error()), fmt.Sprintf("csvq reported its internal Fatal Error (a recovered panic): %s:\n%s", desc, msg), payload)
		return "fatal"
	}
	qe, ok := r.Err.(query.Error)
	if !ok {
		if strings.TrimSpace(msg) == "" {
			c.Violate("empty-error-message:"+fam+":"+class, fmt.Sprintf("%s ended with an empty error message (%T)", desc, r.Err), payload)
		}
		return "E-foreign"
	}
	if _, documented := c19ref.ReturnCodes[qe.Code()]; !documented {
		c.Violate("undocumented-return-code:"+fam+":"+class+":"+strconv.Itoa(qe.Code()), fmt.Sprintf("%s ended with return code %d, which the manual's table does not list: %v", desc, qe.Code(), r.Err), payload)
	}
	if strings.TrimSpace(qe.Message()) == "" && strings.TrimSpace(msg) == "" {
		c.Violate("empty-error-message:"+fam+":"+class, fmt.Sprintf("%s ended with an empty error message (number %d)", desc, qe.Number()), payload)
	}
	if qe.Number() == query.ErrorFatal {
		c.Violate("fatal:"+fam+":"+class+":error-number-1", fmt.Sprintf("%s: error number 1 (fatal): %v", desc, r.Err), payload)
	}
	return "E" + strconv.Itoa(qe.Number())
}
