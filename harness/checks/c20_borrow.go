//go:build verifx

package checks

import (
	"encoding/json"
	"fmt"
	"os"
	"path/filepath"
	"strings"

	"verif/harness/internal/core"
	"verif/harness/internal/drv"
)

// Extra family for C20: a cell of a loaded table used OUTSIDE a query - as the operand of a statement that takes a
// value (SET @%ENV / SET @@FLAG / ADD / REMOVE / VAR / := / PRINT / PRINTF / ECHO / EXECUTE / SOURCE / CHDIR / IF /
// WHILE / CASE / LIMIT / OFFSET / FETCH ABSOLUTE / a user-defined function / a prepared statement / a temporary
// table), reaching the statement as a scalar subquery or through a variable that was filled from the table (VAR,
// SELECT INTO, FETCH INTO). No statement of the case changes the table, so whatever the statement does with the value
// it was handed, and whatever values are created afterwards (strings, integers, floats; another file is loaded),
// the next reads of the table in the same transaction equal the first read, and the COMMIT leaves the file as it was
// (variant "own": the transaction has changed the table before; the reads show that change, the COMMIT writes it).
func init() {
	core.Extend("C20", "family borrowed-cell: a table of string cells (CSV) / string, integer and float cells (JSON), read (or changed) first x the cell handed to each of 43 value-taking statement forms x "+
		"as a scalar subquery, a VAR, a SELECT INTO variable, a FETCH INTO variable; then new values of every pooled type are made and another file is loaded; oracle: the reads afterwards equal the first read, "+
		"the file after COMMIT is unchanged (or holds exactly the transaction's own change)", c20BorrowRun)
}

type c20BorrowConsumer struct {
	tmpl     string // %E = the expression that yields the cell
	key      string // the row whose cell is used ("" = generic: every typed row of the table)
	jsonOnly bool
	src0Only bool // only meaningful with the inline subquery
}

var c20BorrowConsumers = []c20BorrowConsumer{
	{tmpl: "SET @%C20_BORROW TO %E"},
	{tmpl: "VAR @v9 := %E"},
	{tmpl: "@b := %E"},
	{tmpl: "PRINT %E"},
	{tmpl: "PRINTF '%s' USING %E"},
	{tmpl: "PRINTF 'v %s', %E"},
	{tmpl: "ECHO %E", key: "target"},
	{tmpl: "EXECUTE 'PRINT %q' USING %E"},
	{tmpl: "IF %E IS NOT NULL THEN PRINT 'y'; END IF"},
	{tmpl: "CASE %E WHEN 'none' THEN PRINT 'c'; ELSE PRINT 'd'; END CASE"},
	{tmpl: "WHILE %E IS NOT NULL AND @i < 2 DO @i := @i + 1; END WHILE"},
	{tmpl: "SELECT f(%E)"},
	{tmpl: "SELECT g()", src0Only: true},
	{tmpl: "SELECT f(v) FROM conf", src0Only: true},
	{tmpl: "INSERT INTO tmp VALUES (%E); UPDATE tmp SET c = c || 'z'; DELETE FROM tmp"},
	{tmpl: "PREPARE st FROM 'SELECT ?'; EXECUTE st USING %E; DISPOSE PREPARE st"},
	{tmpl: "SELECT COALESCE(%E, 'q')"},
	{tmpl: "SELECT IF(TRUE, %E, 'q')"},
	{tmpl: "SELECT NULLIF(%E, 'q')"},
	{tmpl: "SELECT CASE WHEN TRUE THEN %E ELSE 'q' END"},
	{tmpl: "SELECT %E"},
	{tmpl: "SELECT %E INTO @a"},
	{tmpl: "SELECT k FROM conf WHERE v = %E"},
	{tmpl: "SELECT k FROM conf WHERE v IN (%E, 'q')"},
	{tmpl: "SELECT k FROM other WHERE k = %E"},
	{tmpl: "SELECT MAX(%E) FROM other"},
	{tmpl: "SELECT LISTAGG(%E, ',') FROM other"},
	{tmpl: "SELECT k, %E AS w FROM other ORDER BY w"},
	{tmpl: "SELECT DISTINCT %E FROM other"},
	{tmpl: "SELECT %E FROM other GROUP BY k"},
	{tmpl: "SET @@DATETIME_FORMAT TO %E", key: "fmt"},
	{tmpl: "ADD %E TO @@DATETIME_FORMAT", key: "fmt"},
	{tmpl: "ADD %E TO @@DATETIME_FORMAT; REMOVE %E FROM @@DATETIME_FORMAT", key: "fmt"},
	{tmpl: "SET @@TIMEZONE TO %E", key: "tz"},
	{tmpl: "EXECUTE %E", key: "sql"},
	{tmpl: "SOURCE %E", key: "src"},
	{tmpl: "CHDIR %E", key: "dir"},
	{tmpl: "SELECT k FROM conf ORDER BY k LIMIT %E", key: "n"},
	{tmpl: "SELECT k FROM conf ORDER BY k LIMIT 1 OFFSET %E", key: "n"},
	{tmpl: "OPEN c2; FETCH ABSOLUTE %E c2 INTO @a; CLOSE c2", key: "n"},
	{tmpl: "SET @@LIMIT_RECURSION TO %E", key: "n", jsonOnly: true},
	{tmpl: "SET @@WAIT_TIMEOUT TO %E", key: "f", jsonOnly: true},
	{tmpl: "SET @@STRICT_EQUAL TO %E", key: "b", jsonOnly: true},
}

var c20BorrowSources = []string{"scalar subquery", "VAR := (subquery)", "SELECT INTO", "FETCH INTO"}

type c20BorrowCase struct {
	Family   string `json:"family"`
	Format   string `json:"format"`  // csv | json
	Variant  string `json:"variant"` // read | own
	Source   int    `json:"source"`
	Consumer int    `json:"consumer"`
	Key      string `json:"row"`
}

func c20BorrowFiles(dir, format string) map[string]string {
	rows := [][2]string{{"target", "prod"}, {"owner", "alice"}, {"fmt", "%Y"}, {"tz", "UTC"}, {"sql", "PRINT 1"},
		{"src", filepath.Join(dir, "s.sql")}, {"dir", dir}, {"n", "2"}, {"f", "1.5"}, {"b", "true"}}
	files := map[string]string{"s.sql": "PRINT 2;\n", "other.csv": "k,v\ntarget,o1\nprod,o2\n2,o3\n1.5,o4\n"}
	var sb strings.Builder
	if format == "csv" {
		sb.WriteString("k,v\n")
		for _, r := range rows {
			fmt.Fprintf(&sb, "%s,%s\n", r[0], r[1])
		}
		files["conf.csv"] = sb.String()
	} else {
		sb.WriteString("[")
		for i, r := range rows {
			if i > 0 {
				sb.WriteString(",")
			}
			v := fmt.Sprintf("%q", r[1])
			if r[0] == "n" || r[0] == "f" || r[0] == "b" {
				v = r[1]
			}
			fmt.Fprintf(&sb, "{\"k\":%q,\"v\":%s}", r[0], v)
		}
		sb.WriteString("]\n")
		files["conf.json"] = sb.String()
	}
	return files
}

const c20BorrowChurnVars = "VAR @c1, @c2, @c3, @c4, @d1, @d2, @d3, @d4, @e1, @e2, @e3, @e4, @t1, @t2; "

const c20BorrowChurn = "@c1 := 'x' || '1'; @c2 := 'x' || '2'; @c3 := 'x' || '3'; @c4 := 'x' || '4'; " +
	"@d1 := 1000 + 1; @d2 := 1000 + 2; @d3 := 1000 + 3; @d4 := 1000 + 4; " +
	"@e1 := 1000.5 + 1; @e2 := 1000.5 + 2; @e3 := 1000.5 + 3; @e4 := 1000.5 + 4; " +
	"@t1 := DATETIME('2001-01-01'); @t2 := DATETIME('2002-02-02'); " +
	"SELECT k || v, 1000 + 5, 1000.5 + 5 FROM other; SELECT k, v FROM `churn.csv`;"

func c20BorrowOne(c *core.Ctx, dir string, k c20BorrowCase) {
	drv.ClearDir(dir)
	files := c20BorrowFiles(dir, k.Format)
	files["churn.csv"] = "k,v\nchurn1,churn2\nchurn3,churn4\nchurn5,churn6\n"
	drv.WriteFiles(dir, files)
	cwd, _ := os.Getwd()
	defer os.Chdir(cwd)
	defer os.Unsetenv("C20_BORROW")
	env := drv.New(dir)
	env.Tx.Flags.SetQuiet(true)
	closed := false
	defer func() {
		if !closed {
			env.Close()
		}
	}()
	cons := c20BorrowConsumers[k.Consumer]
	var trace []string
	run := func(sql string) drv.Result {
		trace = append(trace, sql)
		return env.Exec(sql)
	}
	read := func() string {
		r := run("SELECT k, v FROM conf;")
		if r.Err != nil || r.Panic != nil || len(r.Views) == 0 {
			return fmt.Sprintf("error: %v %v", r.Err, r.Panic)
		}
		return drv.RowsKey(drv.Rows(r.Views[len(r.Views)-1]))
	}
	setup := run(c20BorrowChurnVars + "VAR @a; VAR @b; VAR @i := 0; VAR @x; DECLARE f FUNCTION (@p) AS BEGIN RETURN @p; END; " +
		"DECLARE g FUNCTION () AS BEGIN RETURN (SELECT v FROM conf WHERE k = '" + k.Key + "'); END; DECLARE tmp VIEW (c); DECLARE c2 CURSOR FOR SELECT k FROM other;")
	if setup.Err != nil || setup.Panic != nil {
		c.Incomplete(fmt.Sprintf("family borrowed-cell: the declarations fail: %v %v", setup.Err, setup.Panic))
		return
	}
	if k.Variant == "own" {
		if r := run("UPDATE conf SET v = 'carol' WHERE k = 'owner';"); r.Err != nil || r.Panic != nil {
			c.Incomplete(fmt.Sprintf("family borrowed-cell: the transaction's own UPDATE fails: %v %v", r.Err, r.Panic))
			return
		}
	}
	first := read()
	if strings.HasPrefix(first, "error") {
		c.Incomplete("family borrowed-cell: the first read fails: " + first)
		return
	}
	sub := "(SELECT v FROM conf WHERE k = '" + k.Key + "')"
	expr := "@x"
	switch k.Source {
	case 0:
		expr = sub
	case 1:
		run("@x := " + sub + ";")
	case 2:
		run("SELECT v INTO @x FROM conf WHERE k = '" + k.Key + "';")
	case 3:
		run("DECLARE cx CURSOR FOR SELECT v FROM conf WHERE k = '" + k.Key + "'; OPEN cx; FETCH cx INTO @x; CLOSE cx;")
	}
	r := run(strings.ReplaceAll(cons.tmpl, "%E", expr) + ";")
	ok := r.Err == nil && r.Panic == nil
	if !ok {
		c.Observe("borrowed_cell_statements_that_fail", fmt.Sprintf("%s [%s %s]: %v", cons.tmpl, k.Format, k.Key, r.Err))
	}
	os.Chdir(cwd)
	c.Eval(fmt.Sprintf("borrowed-cell|%s|%s|%d|%d|%s", k.Format, k.Variant, k.Source, k.Consumer, k.Key), ok)
	sig := "borrowed-cell:a-statement-that-was-handed-a-cell-changes-the-loaded-table"
	for round := 1; round <= 2; round++ {
		if rc := run(c20BorrowChurn); rc.Err != nil || rc.Panic != nil {
			c.Incomplete(fmt.Sprintf("family borrowed-cell: the value-making statements fail: %v %v", rc.Err, rc.Panic))
			return
		}
		if again := read(); again != first {
			c.Violate(sig, fmt.Sprintf("%s table, %s reaches the statement as %s; no statement changes the table, yet read %d afterwards differs from the first read\n  first: %s\n  now:   %s\n  statements:\n    %s",
				k.Format, sub, c20BorrowSources[k.Source], round+1, first, again, strings.Join(trace, "\n    ")), k)
			return
		}
	}
	before := drv.DirSnapshot(dir)
	rc := run("COMMIT;")
	env.Close()
	closed = true
	if rc.Err != nil || rc.Panic != nil {
		c.Violate("borrowed-cell:commit-fails", fmt.Sprintf("%v %v after\n    %s", rc.Err, rc.Panic, strings.Join(trace, "\n    ")), k)
		return
	}
	file := "conf." + k.Format
	after := drv.DirSnapshot(dir)
	if k.Variant == "read" {
		if after[file] != before[file] {
			c.Violate(sig, fmt.Sprintf("no statement changes the table, yet COMMIT rewrites %s: %q -> %q\n  statements:\n    %s", file, before[file], after[file], strings.Join(trace, "\n    ")), k)
		}
		return
	}
	// the transaction's own change and nothing else: a new process reads what this transaction read
	env2 := drv.New(dir)
	defer env2.Close()
	r2 := env2.Exec("SELECT k, v FROM conf;")
	got := fmt.Sprintf("error: %v %v", r2.Err, r2.Panic)
	if r2.Err == nil && r2.Panic == nil && len(r2.Views) > 0 {
		got = drv.RowsKey(drv.Rows(r2.Views[len(r2.Views)-1]))
	}
	if got != first {
		c.Violate(sig, fmt.Sprintf("the transaction changed one cell (owner := carol) and read %s; after its COMMIT the file reads %s\n  statements:\n    %s", first, got, strings.Join(trace, "\n    ")), k)
	}
}

func c20BorrowCases() []c20BorrowCase {
	var out []c20BorrowCase
	for _, format := range []string{"csv", "json"} {
		for _, variant := range []string{"read", "own"} {
			for ci, cons := range c20BorrowConsumers {
				if cons.jsonOnly && format != "json" {
					continue
				}
				keys := []string{cons.key}
				if cons.key == "" {
					keys = []string{"target"}
					if format == "json" {
						keys = []string{"target", "n", "f"}
					}
				}
				for _, key := range keys {
					for src := range c20BorrowSources {
						if cons.src0Only && src != 0 {
							continue
						}
						out = append(out, c20BorrowCase{"borrowed-cell", format, variant, src, ci, key})
					}
				}
			}
		}
	}
	return out
}

func c20BorrowRun(c *core.Ctx) {
	if !c20Only("borrowed-cell") {
		return
	}
	dir := core.Scratch("c20borrow")
	for i, k := range c20BorrowCases() {
		if !c.Mine(int64(i)) {
			continue
		}
		if c.Expired() {
			c.Incomplete("family borrowed-cell: time budget reached")
			return
		}
		c20BorrowOne(c, dir, k)
	}
}

func c20BorrowReplay(c *core.Ctx, payload json.RawMessage) bool {
	var k c20BorrowCase
	if json.Unmarshal(payload, &k) != nil || k.Family != "borrowed-cell" {
		return false
	}
	fmt.Printf("replaying family borrowed-cell: %+v\n", k)
	c20BorrowOne(c, core.Scratch("c20borrow-replay"), k)
	return true
}
