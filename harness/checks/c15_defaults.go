package checks

import (
	"encoding/json"
	"fmt"
	"strings"

	"verif/harness/internal/core"
	"verif/harness/internal/drv"
)

// Extra family for C15: optional parameters. The DEFAULT expression of an omitted argument is evaluated for the
// invocation it belongs to - it may name the earlier parameters of that very call - so every invocation, also a
// recursive one and one that follows another call of the same function, gets its own value.
// Reference: the three functions written out in Go.
func init() {
	core.Extend("C15", "family defaults: 3 functions with optional parameters whose defaults name earlier parameters (one of them recursive, one a user aggregate) x every sequence of 1-3 calls over a 4-5 call alphabet "+
		"(arguments omitted or given), also inside a WHILE loop over the argument; oracle: the printed values equal the functions written out in Go", c15DefaultsRun)
}

const c15DefaultsDecl = "DECLARE f FUNCTION (@n, @m DEFAULT @n * 2) AS BEGIN RETURN @n + @m; END;\n" +
	"DECLARE h FUNCTION (@a, @b DEFAULT @a + 1, @c DEFAULT @b * @a) AS BEGIN RETURN @a * 10000 + @b * 100 + @c; END;\n" +
	"DECLARE down FUNCTION (@n, @lbl DEFAULT 'L' || @n) AS BEGIN IF @n <= 0 THEN RETURN @lbl; END IF; RETURN @lbl || ',' || down(@n - 1); END;\n" +
	"DECLARE wsum AGGREGATE (cur, @w DEFAULT 2, @z DEFAULT @w * 10) AS BEGIN VAR @s := @z; VAR @v; WHILE @v IN cur DO @s := @s + @v * @w; END WHILE; RETURN @s; END;\n"

type c15Call struct {
	sql  string
	want string
}

func c15Down(n int, lbl string) string {
	if lbl == "" {
		lbl = fmt.Sprintf("L%d", n)
	}
	if n <= 0 {
		return lbl
	}
	return lbl + "," + c15Down(n-1, "")
}

func c15DefaultCalls() []c15Call {
	f := func(n int, m ...int) c15Call {
		if len(m) == 0 {
			return c15Call{fmt.Sprintf("f(%d)", n), fmt.Sprint(n + n*2)}
		}
		return c15Call{fmt.Sprintf("f(%d, %d)", n, m[0]), fmt.Sprint(n + m[0])}
	}
	h := func(args ...int) c15Call {
		a := args[0]
		b := a + 1
		if len(args) > 1 {
			b = args[1]
		}
		c := b * a
		if len(args) > 2 {
			c = args[2]
		}
		s := make([]string, len(args))
		for i, x := range args {
			s[i] = fmt.Sprint(x)
		}
		return c15Call{"h(" + strings.Join(s, ", ") + ")", fmt.Sprint(a*10000 + b*100 + c)}
	}
	down := func(n int, lbl string) c15Call {
		if lbl == "" {
			return c15Call{fmt.Sprintf("down(%d)", n), c15Down(n, "")}
		}
		return c15Call{fmt.Sprintf("down(%d, '%s')", n, lbl), c15Down(n, lbl)}
	}
	// wsum over the values 1, 2, 3: z + w * 6
	ws := func(args ...int) c15Call {
		w := 2
		if len(args) > 0 {
			w = args[0]
		}
		z := w * 10
		if len(args) > 1 {
			z = args[1]
		}
		s := ""
		for _, x := range args {
			s += fmt.Sprintf(", %d", x)
		}
		return c15Call{"(SELECT wsum(v" + s + ") FROM vals)", fmt.Sprint(z + w*6)}
	}
	return []c15Call{f(1), f(10), f(1, 5), f(10, 7), h(1), h(2), h(2, 5), h(3, 1, 1), down(0, ""), down(2, ""), down(3, ""), down(2, "X"), ws(), ws(3), ws(3, 1), ws(5)}
}

type c15DefaultsCase struct {
	Family string   `json:"family"`
	Calls  []string `json:"calls"`
	Want   []string `json:"want"`
	Loop   bool     `json:"in_while_loop"`
}

func c15DefaultsOne(c *core.Ctx, dir string, k c15DefaultsCase) {
	var sb strings.Builder
	sb.WriteString(c15DefaultsDecl)
	sb.WriteString("DECLARE vals VIEW (v); INSERT INTO vals VALUES (1), (2), (3);\n")
	if k.Loop {
		// every call of the sequence in every iteration: the loop variable is not an argument, the calls repeat
		sb.WriteString("VAR @i := 0; WHILE @i < 2 DO @i := @i + 1;\n")
	}
	for _, call := range k.Calls {
		sb.WriteString("PRINT " + call + ";\n")
	}
	want := append([]string{}, k.Want...)
	if k.Loop {
		sb.WriteString("END WHILE;\n")
		want = append(want, k.Want...)
	}
	env := drv.NewText(dir)
	env.Tx.Flags.SetQuiet(true)
	r := env.Exec(sb.String())
	env.Close()
	c.Eval("defaults|"+strings.Join(k.Calls, ";")+fmt.Sprint(k.Loop), len(k.Calls) > 1 || k.Loop)
	var got []string
	for _, l := range strings.Split(strings.TrimSpace(r.Out), "\n") {
		got = append(got, strings.Trim(strings.TrimSpace(l), "'"))
	}
	if r.Err != nil || r.Panic != nil || strings.Join(got, "|") != strings.Join(want, "|") {
		kinds := map[string]bool{}
		for _, call := range k.Calls {
			kinds[strings.TrimLeft(strings.SplitN(strings.TrimPrefix(call, "(SELECT "), "(", 2)[0], "(")] = true
		}
		ks := []string{}
		for _, n := range []string{"f", "h", "down", "wsum"} {
			if kinds[n] {
				ks = append(ks, n)
			}
		}
		c.Violate("defaults:"+strings.Join(ks, "+"), fmt.Sprintf("the calls %v (in a WHILE loop: %v) print %v (err=%v panic=%v); the functions written out give %v\n%s", k.Calls, k.Loop, got, r.Err, r.Panic, want, sb.String()), k)
	}
}

func c15DefaultsRun(c *core.Ctx) {
	if c15Skip(c, "defaults") {
		return
	}
	dir := core.Scratch("c15defaults")
	calls := c15DefaultCalls()
	var idx int64
	run := func(seq []int, loop bool) {
		idx++
		if !c.Mine(idx) {
			return
		}
		k := c15DefaultsCase{Family: "defaults", Loop: loop}
		for _, i := range seq {
			k.Calls = append(k.Calls, calls[i].sql)
			k.Want = append(k.Want, calls[i].want)
		}
		c15DefaultsOne(c, dir, k)
	}
	n := len(calls)
	for a := 0; a < n; a++ {
		run([]int{a}, false)
		run([]int{a}, true)
		for b := 0; b < n; b++ {
			run([]int{a, b}, false)
			// three calls: within one function's alphabet (the groups of four)
			if a/4 == b/4 {
				for d := a / 4 * 4; d < a/4*4+4; d++ {
					run([]int{a, b, d}, false)
				}
			}
		}
	}
}

func c15DefaultsReplay(c *core.Ctx, payload json.RawMessage) bool {
	var k c15DefaultsCase
	if json.Unmarshal(payload, &k) != nil || k.Family != "defaults" {
		return false
	}
	fmt.Printf("replaying family defaults: %v\n", k.Calls)
	c15DefaultsOne(c, core.Scratch("c15defaults-replay"), k)
	return true
}
