package checks

import (
	"fmt"
	"sort"
	"strconv"
	"strings"

	"verif/harness/internal/core"
	"verif/harness/internal/drv"
	"verif/harness/internal/rv"
)

// Extra family for C17: PARTITION BY / ORDER BY keys that are 64-bit integers beyond 2^53, where neighbouring
// values are one float64: "the rows with the same PARTITION BY values" and "ordering them by the ORDER BY of the
// clause" are statements about the integers. Reference: exact integer arithmetic in Go.
func init() {
	core.Extend("C17", "family wide-keys: all sequences of 1..4 rows (quick: 1..3) over keys {2^53, 2^53+1, 2^53+2, 2^63-2, 2^63-1, -(2^53+1), NULL} x ROW_NUMBER / RANK / LAG / LAST_VALUE OVER (ORDER BY k [DESC]) and COUNT(*) OVER (PARTITION BY k); "+
		"reference: exact integer order and equality", c17WideRun)
}

var c17WideVals = []string{"", "9007199254740992", "9007199254740993", "9007199254740994", "9223372036854775806", "9223372036854775807", "-9007199254740993"}

func c17WideRun(c *core.Ctx) {
	if c17SkipFamily("wide-keys") {
		return
	}
	dir := core.Scratch("c17wide")
	maxRows := 3
	if c.Thorough() || c17OnlySeq != nil {
		maxRows = 4
	}
	const sql = "SELECT id, ROW_NUMBER() OVER (ORDER BY k, id), RANK() OVER (ORDER BY k), LAG(id) OVER (ORDER BY k, id), ROW_NUMBER() OVER (ORDER BY k DESC, id), COUNT(*) OVER (PARTITION BY k), " +
		"FIRST_VALUE(id) OVER (PARTITION BY k ORDER BY id) FROM t ORDER BY id"
	var idx int64
	n := len(c17WideVals)
	for k := 1; k <= maxRows; k++ {
		total := 1
		for i := 0; i < k; i++ {
			total *= n
		}
		for code := 0; code < total; code++ {
			idx++
			ks := make([]string, k)
			x := code
			for i := range ks {
				ks[i] = c17WideVals[x%n]
				x /= n
			}
			if c17OnlySeq != nil {
				if strings.Join(ks, ",") != strings.Join(c17OnlySeq, ",") {
					continue
				}
			} else if !c.Mine(idx) {
				continue
			}
			if c.Expired() {
				c.Incomplete("time budget reached in family wide-keys")
				return
			}
			var sb strings.Builder
			sb.WriteString("id,k\n")
			for i, v := range ks {
				fmt.Fprintf(&sb, "%d,%s\n", i+1, v)
			}
			drv.ClearDir(dir)
			drv.WriteFiles(dir, map[string]string{"t.csv": sb.String()})
			env := drv.New(dir)
			res := env.Exec(sql)
			var rows [][]rv.V
			if res.Err == nil && res.Panic == nil && len(res.Views) == 1 {
				rows = drv.Rows(res.Views[0])
			}
			env.Close()
			// reference: NULL sorts first in ascending order and last in descending order (csvq's documented default)
			val := make([]int64, k)
			null := make([]bool, k)
			for i, v := range ks {
				if v == "" {
					null[i] = true
				} else {
					val[i], _ = strconv.ParseInt(v, 10, 64)
				}
			}
			less := func(i, j int) bool { // key i strictly before key j, ascending
				if null[i] || null[j] {
					return null[i] && !null[j]
				}
				return val[i] < val[j]
			}
			same := func(i, j int) bool { return null[i] == null[j] && (null[i] || val[i] == val[j]) }
			asc := make([]int, k)
			desc := make([]int, k)
			for i := range asc {
				asc[i], desc[i] = i, i
			}
			sort.SliceStable(asc, func(a, b int) bool { return less(asc[a], asc[b]) })
			sort.SliceStable(desc, func(a, b int) bool { return less(desc[b], desc[a]) })
			pos := func(order []int, i int) int {
				for p, r := range order {
					if r == i {
						return p
					}
				}
				return -1
			}
			nontrivial := false
			var want []string
			for i := 0; i < k; i++ {
				rank, cnt, first := 1, 0, 0
				for j := 0; j < k; j++ {
					if less(j, i) {
						rank++
					}
					if same(i, j) {
						cnt++
						if first == 0 {
							first = j + 1
						}
					} else if !null[i] && !null[j] && float64(val[i]) == float64(val[j]) {
						nontrivial = true
					}
				}
				lag := "NULL"
				if p := pos(asc, i); p > 0 {
					lag = strconv.Itoa(asc[p-1] + 1)
				}
				want = append(want, fmt.Sprintf("%d|%d|%d|%s|%d|%d|%d", i+1, pos(asc, i)+1, rank, lag, pos(desc, i)+1, cnt, first))
			}
			var got []string
			for _, r := range rows {
				f := make([]string, len(r))
				for i, v := range r {
					switch v.K {
					case rv.Null:
						f[i] = "NULL"
					case rv.Int:
						f[i] = strconv.FormatInt(v.I, 10)
					default:
						f[i] = v.S
					}
				}
				got = append(got, strings.Join(f, "|"))
			}
			c.Eval("wide:"+strings.Join(ks, ","), nontrivial)
			if res.Err != nil || res.Panic != nil || strings.Join(got, " ") != strings.Join(want, " ") {
				c.Violate("wide-keys: integer keys beyond 2^53 are not partitioned / ordered as integers",
					fmt.Sprintf("table k = %q (id 1..): %s\ncsvq gives (id|row_number asc|rank|lag|row_number desc|count per key|first id per key) %v (err=%v panic=%v)\nexact integer arithmetic gives %v", ks, sql, got, res.Err, res.Panic, want),
					map[string]any{"family": "wide-keys", "k": ks})
			}
		}
	}
}
