package checks

// Extra family for C19: a LATERAL subquery whose result has a shape that depends on the record it is applied to.
//
// "Every table is rectangular" is stated of every table csvq works on. A joined table is assembled record by record
// when the right operand is LATERAL: the subquery is run once per record of the left table, and with SELECT * over a
// source that is itself computed from that record - JSON_TABLE / CSV_INLINE over a text column, DATA::() of a text
// column, FILE::() of a file named by a column - the number of fields of its result differs from record to record.
// The left tables here are all sequences of up to three (thorough: four) records whose texts / files have 0, 1, 2 or 3
// fields; the join is written in five ways and its result is consumed in nine ways; every result view is also written
// in the ten output formats, as the command does. A second part runs the real command with a change pending, because
// a failure inside the output encoder happens with the session's output mutex held.

import (
	"bytes"
	"encoding/json"
	"fmt"
	"runtime/debug"
	"strings"

	"github.com/mithrandie/csvq/lib/option"
	"github.com/mithrandie/csvq/lib/query"

	"verif/harness/internal/core"
	"verif/harness/internal/drv"
)

func init() {
	core.Extend("C19", "family lateral: left tables = all sequences of 0-3 (thorough: 4) records whose text columns / named files hold 0, 1, 2 or 3 fields x 4 sources computed from the record (JSON_TABLE, CSV_INLINE, CSV(DATA::()), FILE::()) "+
		"under SELECT * in a LATERAL subquery x 5 spellings of the join x 9 consumers (SELECT *, COUNT, ORDER BY, DISTINCT, derived table, set operation, INSERT SELECT, CREATE TABLE AS, wildcard of the subquery), every result view also "+
		"written by query.EncodeView in 10 formats; plus real csvq processes: 6 statements leaving uncommitted state x 2 such SELECTs x output formats; "+
		"oracle: no panic, no Fatal Error, documented return code, every result rectangular, the process ends by itself", c19LatRun)
	c19ExtReplays["lateral"] = c19LatReplay
}

// one record of the left table per width: a JSON object, a CSV text and a file with that many fields
var c19LatJSON = []string{`{}`, `{"a":1}`, `{"a":1,"b":2}`, `{"a":1,"b":2,"c":3}`}
var c19LatCSV = []string{"", "x\n1", "x,y\n1,2", "x,y,z\n1,2,3"}
var c19LatFiles = map[string]string{"w0.csv": "", "w1.csv": "p\n1\n", "w2.csv": "p,q\n1,2\n", "w3.csv": "p,q,r\n1,2,3\n", "u.csv": "a,b,c,d,e\n"}

type c19LatForm struct{ id, sql string }

var c19LatSources = []c19LatForm{
	{"json-table", "JSON_TABLE('{}', STRING(j.js))"},
	{"csv-inline", "CSV_INLINE(',', STRING(j.cs))"},
	{"csv-data", "CSV(',', DATA::(j.cs))"},
	{"file", "FILE::(j.fn)"},
}

// %S = the LATERAL subquery
var c19LatJoins = []c19LatForm{
	{"comma", "j, LATERAL (%S) x"},
	{"cross", "j CROSS JOIN LATERAL (%S) x"},
	{"inner-on", "j JOIN LATERAL (%S) x ON j.id > 0"},
	{"left-on", "j LEFT JOIN LATERAL (%S) x ON j.id > 1"},
	{"natural", "j NATURAL JOIN LATERAL (%S) x"},
}

// %J = the join
var c19LatConsumers = []c19LatForm{
	{"select-star", "SELECT * FROM %J"},
	{"count", "SELECT COUNT(*) FROM %J; SELECT COUNT(*) FROM %J GROUP BY id"},
	{"order-by", "SELECT * FROM %J ORDER BY 1 DESC; SELECT * FROM %J WHERE id > 0 LIMIT 2"},
	{"distinct", "SELECT DISTINCT * FROM %J"},
	{"derived", "SELECT * FROM (SELECT * FROM %J) q WHERE TRUE"},
	{"set-operation", "SELECT * FROM %J UNION ALL SELECT 1, 2, 3, 4, 5; SELECT * FROM %J EXCEPT SELECT * FROM %J"},
	{"insert-select", "INSERT INTO u SELECT * FROM %J; SELECT * FROM u"},
	{"create-as", "CREATE TABLE `n.csv` AS SELECT * FROM %J; SELECT * FROM n"},
	{"subquery-wildcard", "SELECT x.* FROM %J; SELECT j.id, x.* FROM %J ORDER BY 2"},
}

type c19LatPayload struct {
	Family   string `json:"family"`
	Widths   []int  `json:"widths"` // fields of the text / file of each record of the left table
	Source   string `json:"source"`
	Join     string `json:"join"`
	Consumer string `json:"consumer"`
}

func c19LatTable(widths []int) string {
	var sb strings.Builder
	sb.WriteString("id,js,cs,fn\n")
	q := func(s string) string { return "\"" + strings.ReplaceAll(s, "\"", "\"\"") + "\"" }
	for i, w := range widths {
		fmt.Fprintf(&sb, "%d,%s,%s,w%d.csv\n", i+1, q(c19LatJSON[w]), q(c19LatCSV[w]), w)
	}
	return sb.String()
}

func c19LatFind(l []c19LatForm, id string) *c19LatForm {
	for i := range l {
		if l[i].id == id {
			return &l[i]
		}
	}
	return nil
}

func c19LatSQL(k c19LatPayload) (string, bool) {
	src, jn, cons := c19LatFind(c19LatSources, k.Source), c19LatFind(c19LatJoins, k.Join), c19LatFind(c19LatConsumers, k.Consumer)
	if src == nil || jn == nil || cons == nil {
		return "", false
	}
	join := strings.ReplaceAll(jn.sql, "%S", "SELECT * FROM "+src.sql)
	return strings.ReplaceAll(cons.sql, "%J", join), true
}

var c19LatFormats = []option.Format{option.CSV, option.TSV, option.FIXED, option.JSON, option.JSONL, option.LTSV, option.GFM, option.ORG, option.BOX, option.TEXT}

// c19LatOne: dir holds the files of the widths and j.csv.
func c19LatOne(c *core.Ctx, dir string, k c19LatPayload, verbose bool) string {
	sql, ok := c19LatSQL(k)
	if !ok {
		fmt.Println("lateral: unknown form in payload")
		return ""
	}
	env := drv.New(dir)
	defer env.Close()
	class := k.Source // the signature class: which consumer meets the table first is not another defect
	outcome := "ok"
	failed := false
	c19ExtExec(env, sql, func(i int, r c19ExtResult) {
		desc := fmt.Sprintf("statement %d of %q, left table with texts of %v fields", i+1, sql, k.Widths)
		o := c19ExtJudge(c, "lateral", class, r, desc, k)
		if o != "ok" && !failed {
			outcome, failed = o, true
		}
		if verbose {
			fmt.Printf("  statement %d: err=%v panic=%v views=%d\n", i+1, r.Err, r.Panic, len(r.Views))
		}
		if o != "ok" {
			return
		}
		// what the command does with a result: write it
		for _, v := range r.Views {
			for _, f := range c19LatFormats {
				opts := env.Tx.Flags.ExportOptions.Copy()
				opts.Format = f
				var buf bytes.Buffer
				var pnc any
				var stack string
				func() {
					defer func() {
						if p := recover(); p != nil {
							pnc = p
							stack = string(debug.Stack())
						}
					}()
					query.EncodeView(env.Ctx, &buf, v, opts, env.Tx.Palette)
				}()
				if pnc != nil {
					c.Violate("panic:lateral:encode:"+c19Norm(fmt.Sprint(pnc))+"@"+c19Frame(stack), fmt.Sprintf("query.EncodeView panicked writing the result of %s as %s: %v", desc, f, pnc), k)
					outcome, failed = "panic", true
					return
				}
			}
		}
	})
	c19ExtExec(env, "ROLLBACK", func(i int, r c19ExtResult) {
		c19ExtJudge(c, "lateral", class+":rollback", r, fmt.Sprintf("ROLLBACK after %q", sql), k)
	})
	return outcome
}

func c19LatPrepare(dir string, widths []int) {
	drv.ClearDir(dir)
	drv.WriteFiles(dir, c19LatFiles)
	drv.WriteFiles(dir, map[string]string{"j.csv": c19LatTable(widths)})
}

// c19LatSequences: all sequences over the four widths with 0..max records.
func c19LatSequences(max int) [][]int {
	out := [][]int{{}}
	level := [][]int{{}}
	for n := 1; n <= max; n++ {
		var next [][]int
		for _, p := range level {
			for w := 0; w < len(c19LatJSON); w++ {
				next = append(next, append(append([]int{}, p...), w))
			}
		}
		out = append(out, next...)
		level = next
	}
	return out
}

func c19LatRun(c *core.Ctx) {
	if c19ExtOff(c, "lateral") {
		return
	}
	max := 3
	if c.Thorough() {
		max = 4
	}
	dir := core.Scratch("c19lateral")
	var idx int64
	for _, widths := range c19LatSequences(max) {
		for _, src := range c19LatSources {
			idx++
			if !c.Mine(idx) {
				continue
			}
			if c.Expired() {
				c.Incomplete("time budget reached in family lateral")
				return
			}
			c19LatPrepare(dir, widths)
			for _, jn := range c19LatJoins {
				for _, cons := range c19LatConsumers {
					k := c19LatPayload{Family: "lateral", Widths: widths, Source: src.id, Join: jn.id, Consumer: cons.id}
					o := c19LatOne(c, dir, k, false)
					c.EvalN(1, 1)
					c.Observe("lateral_outcomes", o)
					if c.WantSample() && len(widths) == 2 && widths[0] != widths[1] && cons.id == "select-star" {
						c.Sample(map[string]any{"family": "lateral", "widths": widths, "source": src.id, "join": jn.id, "outcome": o})
					}
				}
			}
		}
	}
	// the whole command: the SELECT of such a join after a statement that left a change pending
	pdir := core.Scratch("c19lateral-cli")
	for pi, pre := range c19CliPrefixes {
		for wi, widths := range [][]int{{1, 2}, {2, 1}} {
			for fi, f := range c19CliFormats {
				// every statement with the first format, every format with the first data-changing statement
				if fi != 0 && pi != 1 {
					continue
				}
				idx++
				if !c.Mine(idx) {
					continue
				}
				if c.Expired() {
					c.Incomplete("time budget reached in family lateral")
					return
				}
				files := map[string]string{"j.csv": c19LatTable(widths)}
				for n, b := range c19LatFiles {
					files[n] = b
				}
				args := append([]string{}, f...)
				if (pi+wi+fi)%2 == 1 {
					args = append(args, "-o", "out.txt")
				}
				args = append(args, strings.TrimSpace(pre+" SELECT * FROM j, LATERAL (SELECT * FROM JSON_TABLE('{}', STRING(j.js))) x;"))
				c19CliOne(c, pdir, c19CliCase{Family: "cli-output", Tag: "lateral", Args: args, Files: files, WaitS: 20})
			}
		}
	}
}

func c19LatReplay(c *core.Ctx, payload json.RawMessage) {
	var k c19LatPayload
	if json.Unmarshal(payload, &k) != nil {
		fmt.Println("bad payload")
		return
	}
	for _, w := range k.Widths {
		if w < 0 || w >= len(c19LatJSON) {
			fmt.Println("bad payload")
			return
		}
	}
	dir := core.Scratch("c19lateral-replay")
	c19LatPrepare(dir, k.Widths)
	fmt.Println("outcome:", c19LatOne(c, dir, k, true))
}
