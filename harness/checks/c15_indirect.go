package checks

import (
	"fmt"
	"os"
	"path/filepath"
	"strings"

	"verif/harness/internal/core"
	"verif/harness/internal/drv"
)

// Extra family for C15: objects declared INDIRECTLY inside a block - by EXECUTE '<text>', by SOURCE <file> and by
// an executed prepared statement, which the manual describes as running "as a part of the procedure". Such a
// declaration must behave like one written in the block itself: it shadows a same-named outer object, it is
// gone when the block ends, and a loop body that makes it can run again.
func init() {
	core.Extend("C15", "family indirect: {variable, cursor, temporary table, function} declared through {EXECUTE, SOURCE, prepared statement} inside every block kind "+
		"{IF, ELSE, CASE, WHILE x2 iterations, WHILE IN x2, function body} x {same-named outer object or none}; the object is read inside the block and after it", c15IndirectRun)
}

type c15Obj struct {
	kind  string
	decl  func(v int) string // declaration text yielding value v
	read  string             // statement printing the value the name currently denotes
	undef string             // fragment of the error when the name denotes nothing
}

var c15Objs = []c15Obj{
	{"variable", func(v int) string { return fmt.Sprintf("VAR @x := %d;", v) }, "PRINT @x;", "undeclared"},
	{"cursor", func(v int) string { return fmt.Sprintf("DECLARE x CURSOR FOR SELECT %d;", v) }, "OPEN x; FETCH x INTO @got; PRINT @got; CLOSE x;", "undeclared"},
	{"table", func(v int) string { return fmt.Sprintf("DECLARE x VIEW (a); INSERT INTO x VALUES (%d);", v) }, "PRINT (SELECT a FROM x);", "not exist"},
	{"function", func(v int) string { return fmt.Sprintf("DECLARE x FUNCTION () AS BEGIN RETURN %d; END;", v) }, "PRINT x();", "not exist"},
}

var c15Vias = []string{"execute", "source", "prepared"}
var c15IndBlocks = []string{"if", "else", "case", "while2", "whilein2", "func"}

// c15IndirectProgram builds the program and the lines it must print; files holds the SOURCE files it needs.
func c15IndirectProgram(dir string, obj c15Obj, via, block string, outer bool) (prog string, expect []string, files map[string]string) {
	var sb strings.Builder
	files = map[string]string{}
	sb.WriteString("VAR @got;\n")
	if outer {
		sb.WriteString(obj.decl(1) + "\n")
	}
	inner := obj.decl(2)
	var indirect string
	switch via {
	case "execute":
		indirect = "EXECUTE '" + strings.ReplaceAll(inner, "'", "''") + "';"
	case "source":
		files["decl.sql"] = inner + "\n"
		indirect = "SOURCE `" + filepath.Join(dir, "decl.sql") + "`;"
	case "prepared":
		sb.WriteString("PREPARE st FROM '" + strings.ReplaceAll(inner, "'", "''") + "';\n")
		indirect = "EXECUTE st;"
	}
	body := indirect + " " + obj.read
	iterations := 1
	switch block {
	case "if":
		sb.WriteString("IF TRUE THEN " + body + " END IF;\n")
	case "else":
		sb.WriteString("IF FALSE THEN PRINT 0; ELSEIF FALSE THEN PRINT 0; ELSE " + body + " END IF;\n")
	case "case":
		sb.WriteString("CASE WHEN TRUE THEN " + body + " END CASE;\n")
	case "while2":
		iterations = 2
		sb.WriteString("VAR @i := 0; WHILE @i < 2 DO @i := @i + 1; " + body + " END WHILE;\n")
	case "whilein2":
		iterations = 2
		sb.WriteString("DECLARE lc CURSOR FOR SELECT 1 UNION ALL SELECT 2; OPEN lc; WHILE VAR @row IN lc DO " + body + " END WHILE;\n")
	case "func":
		sb.WriteString("DECLARE fb FUNCTION () AS BEGIN " + body + " RETURN 0; END; VAR @r := fb();\n")
	}
	for i := 0; i < iterations; i++ {
		expect = append(expect, "2")
	}
	sb.WriteString(obj.read + "\n")
	if outer {
		expect = append(expect, "1")
	} else {
		expect = append(expect, "ERROR:"+obj.undef)
	}
	return sb.String(), expect, files
}

func c15IndirectRun(c *core.Ctx) {
	if c15Skip(c, "indirect") {
		return
	}
	dir := core.Scratch("c15indirect")
	var idx int64
	for oi, obj := range c15Objs {
		for _, via := range c15Vias {
			for _, block := range c15IndBlocks {
				for _, outer := range []bool{true, false} {
					idx++
					if !c.Mine(idx) {
						continue
					}
					prog, expect, files := c15IndirectProgram(dir, obj, via, block, outer)
					for run := 0; run < 2; run++ { // twice on one process image: pooled scopes are re-issued
						drv.ClearDir(dir)
						for n, b := range files {
							os.WriteFile(filepath.Join(dir, n), []byte(b), 0644)
						}
						env := drv.NewText(dir)
						env.Tx.Flags.SetQuiet(true)
						r := env.Exec(prog)
						env.Close()
						got := strings.Fields(strings.TrimSpace(r.Out))
						c.Eval(fmt.Sprintf("indirect:%d:%s:%s:%v", oi, via, block, outer), true)
						wantPrinted, wantErr := expect, ""
						if n := len(expect) - 1; strings.HasPrefix(expect[n], "ERROR:") {
							wantPrinted, wantErr = expect[:n], strings.TrimPrefix(expect[n], "ERROR:")
						}
						ok := r.Panic == nil && strings.Join(got, ",") == strings.Join(wantPrinted, ",")
						if wantErr == "" {
							ok = ok && r.Err == nil
						} else {
							ok = ok && r.Err != nil && strings.Contains(r.Err.Error(), wantErr)
						}
						if !ok && obj.kind == "table" && outer && r.Err != nil && strings.Contains(r.Err.Error(), "redeclared") {
							// the listed finding (DeclareView looks at every scope), met through an indirect declaration
							c.Violate("view: DECLARE VIEW in an inner block/function is refused (redeclared-view) when an outer scope has a table of that name, instead of shadowing it",
								fmt.Sprintf("table declared through %s inside %s:\n%s\n%v", via, block, prog, r.Err), map[string]any{"family": "indirect", "program": prog, "files": files, "expect": expect})
							continue
						}
						if !ok {
							c.Violate("indirect:"+obj.kind+":"+via+": a declaration made indirectly inside a block does not behave like one written in the block",
								fmt.Sprintf("%s declared through %s inside %s (outer object of the same name: %v):\n%s\ncsvq prints %v (err=%v panic=%v), the scoping rules give %v",
									obj.kind, via, block, outer, prog, got, r.Err, r.Panic, expect),
								map[string]any{"family": "indirect", "program": prog, "files": files, "expect": expect})
						}
					}
				}
			}
		}
	}
}

// Family multi: one VAR statement declaring several variables. csvq declares them left to right (the manual's
// grammar is a list of assignments), so a later initial value that names an earlier variable of the same statement
// denotes that new variable - in a block it shadows the outer one from there on; the outer variable is untouched.
func init() {
	core.Extend("C15", "family multi: VAR statements with several assignments whose later initial values name earlier variables of the same statement, at the top level, in IF / WHILE / CASE blocks, in function bodies and in recursive invocations, with and without a same-named outer variable", c15MultiRun)
}

var c15Multi = []struct{ prog, want, wantErr string }{
	{"VAR @a := 1, @b := @a + 1; PRINT @b; PRINT @a;", "2,1", ""},
	{"VAR @a := 1; IF TRUE THEN VAR @a := 10, @b := @a + 1; PRINT @b; PRINT @a; END IF; PRINT @a;", "11,10,1", ""},
	{"VAR @a := 1; VAR @i := 0; WHILE @i < 2 DO @i := @i + 1; VAR @a := @i * 10, @b := @a + 1, @c := @b + @a; PRINT @c; END WHILE; PRINT @a;", "21,41,1", ""},
	{"VAR @a := 1; CASE WHEN TRUE THEN VAR @x := 5, @a := @x + 1, @y := @a + 1; PRINT @y; END CASE; PRINT @a;", "7,1", ""},
	{"VAR @a := 1; DECLARE f FUNCTION (@p) AS BEGIN VAR @a := @p * 10, @b := @a + 1; RETURN @b; END; PRINT f(2); PRINT f(3); PRINT @a;", "21,31,1", ""},
	{"DECLARE g FUNCTION (@n) AS BEGIN VAR @k := @n * 10, @s := @k; IF @n > 1 THEN @s := @s + g(@n - 1); END IF; RETURN @s; END; PRINT g(3);", "60", ""},
	{"VAR @a := 1; IF TRUE THEN VAR @b := @a + 1, @a := 10; PRINT @b; PRINT @a; END IF; PRINT @a;", "2,10,1", ""},
	{"IF TRUE THEN VAR @a := 10, @b := @a + 1; END IF; PRINT @b;", "", "undeclared"},
}

func c15MultiRun(c *core.Ctx) {
	if c15Skip(c, "multi") {
		return
	}
	dir := core.Scratch("c15multi")
	for i, tc := range c15Multi {
		if !c.Mine(int64(i)) {
			continue
		}
		for run := 0; run < 2; run++ {
			env := drv.NewText(dir)
			env.Tx.Flags.SetQuiet(true)
			r := env.Exec(tc.prog)
			env.Close()
			got := strings.Join(strings.Fields(strings.TrimSpace(r.Out)), ",")
			c.Eval(fmt.Sprintf("multi:%d", i), true)
			ok := r.Panic == nil && got == tc.want
			if tc.wantErr == "" {
				ok = ok && r.Err == nil
			} else {
				ok = ok && r.Err != nil && strings.Contains(r.Err.Error(), tc.wantErr)
			}
			if !ok {
				c.Violate("multi: variables declared by one VAR statement are not declared left to right in the current block",
					fmt.Sprintf("%s\ncsvq prints %q (err=%v panic=%v), expected %q, error containing %q", tc.prog, got, r.Err, r.Panic, tc.want, tc.wantErr),
					map[string]any{"family": "indirect", "program": tc.prog, "expect": strings.Split(tc.want, ",")})
			}
		}
	}
}
