package checks

import (
	"encoding/json"
	"fmt"
	"strings"

	"github.com/mithrandie/csvq/lib/parser"
	"github.com/mithrandie/csvq/lib/query"

	"verif/harness/internal/core"
	cm "verif/harness/internal/curmodel"
	"verif/harness/internal/drv"
)

// Extra family for C16: the lifetime of a cursor that is declared inside a statement block.
//
// control-flow.md: "IF statements and WHILE statements create local scopes. Variables, cursors, temporary tables,
// and functions declared in statement blocks can be refered only within the blocks." (user-defined-function.md says
// the same about function bodies.)  Together with the property ("touching an undeclared one is an error, never stale
// data") this gives the oracle: once the block that declared a cursor has ended, every statement and expression that
// names the cursor addresses whatever cursor of that name the enclosing blocks have - the one declared there before
// the block, with its own snapshot and position - or fails with "undeclared"; the name is free again for a new
// DECLARE, and the same block executed a second time declares, opens and walks a fresh cursor.
//
// The reference is a stack of name -> cursor maps written out below (c16bGen): it shares nothing with csvq.
func init() {
	core.Extend("C16", "family block-lifetime: 2 ways of running the program (results stored as a library caller does / not stored as the command line does) x enclosing level {top level, WHILE body, IF body, function body} "+
		"(thorough: also CASE body, and two levels nested) x declaring block {IF, ELSEIF, ELSE, CASE WHEN, CASE value WHEN, CASE ELSE, WHILE, WHILE IN} x what else the block holds {nothing, VAR, temporary table, function, PRINT} "+
		"x history of the cursor inside the block {declared, opened, opened + 1 fetch, opened + walked, opened + closed} x a cursor of the same name at the enclosing level {none, open after 1 fetch} "+
		"x statement after the block {FETCH, FETCH LAST, WHILE IN, COUNT, IS OPEN, IS IN RANGE, OPEN, CLOSE, DISPOSE, DECLARE + OPEN + FETCH of the same name, the whole block a second time}; "+
		"oracle: a stack of cursor scopes (a cursor ends with the block that declared it)", c16BlocksRun)
}

type c16BlockCase struct {
	Family string `json:"family"`
	Stored bool   `json:"stored"` // run with the results stored (library use) or not (command line use)
	Wrap   []int  `json:"wrap"`   // enclosing levels, outermost first (empty: top level)
	Block  int    `json:"block"`
	Comp   int    `json:"comp"`
	Hist   int    `json:"hist"`
	Outer  bool   `json:"outer"`
	Probe  int    `json:"probe"`
}

var (
	c16bWrapNames  = []string{"WHILE body", "IF body", "function body", "CASE body"}
	c16bBlockNames = []string{"IF", "ELSEIF", "ELSE", "CASE WHEN", "CASE value WHEN", "CASE ELSE", "WHILE", "WHILE IN"}
	c16bCompNames  = []string{"nothing else", "VAR", "temporary table", "function", "PRINT"}
	c16bHistNames  = []string{"declared", "opened", "opened + 1 fetch", "opened + walked", "opened + closed"}
	c16bProbeNames = []string{"FETCH", "FETCH LAST", "WHILE IN", "COUNT", "IS OPEN", "IS IN RANGE", "OPEN", "CLOSE", "DISPOSE", "DECLARE again", "block twice"}
)

// ---- the reference: a stack of cursor scopes --------------------------------------------------

type c16bCur struct {
	rows    []int
	open    bool
	idx     int // -1 .. len(rows)
	fetched bool
}

type c16bGen struct {
	sb     strings.Builder
	ind    int
	scopes []map[string]*c16bCur
	want   []string
	err    cm.ErrKind // the error that ends the program (the statements after it are not executed)
	errAt  string
	tail   []string // printed when the enclosing function returns
}

func (g *c16bGen) line(format string, a ...any) {
	g.sb.WriteString(strings.Repeat("  ", g.ind))
	fmt.Fprintf(&g.sb, format, a...)
	g.sb.WriteByte('\n')
}

func (g *c16bGen) dead() bool { return g.err != cm.NoErr }

func (g *c16bGen) fail(e cm.ErrKind, at string) {
	if !g.dead() {
		g.err, g.errAt = e, at
	}
}

func (g *c16bGen) print(s string) {
	if !g.dead() {
		g.want = append(g.want, s)
	}
}

func (g *c16bGen) push() { g.scopes = append(g.scopes, map[string]*c16bCur{}) }
func (g *c16bGen) pop()  { g.scopes = g.scopes[:len(g.scopes)-1] }

func (g *c16bGen) find(name string) (*c16bCur, int) {
	for i := len(g.scopes) - 1; i >= 0; i-- {
		if c, ok := g.scopes[i][name]; ok {
			return c, i
		}
	}
	return nil, -1
}

func c16bSelect(rows []int) string {
	parts := make([]string, len(rows))
	for i, r := range rows {
		parts[i] = fmt.Sprintf("SELECT %d", r)
	}
	return strings.Join(parts, " UNION ALL ")
}

func (g *c16bGen) declare(name string, rows []int) {
	g.line("DECLARE %s CURSOR FOR %s;", name, c16bSelect(rows))
	if g.dead() {
		return
	}
	top := g.scopes[len(g.scopes)-1]
	if _, ok := top[name]; ok {
		g.fail(cm.ErrRedeclared, "DECLARE "+name)
		return
	}
	top[name] = &c16bCur{rows: rows}
}

func (g *c16bGen) open(name string) {
	g.line("OPEN %s;", name)
	if g.dead() {
		return
	}
	c, _ := g.find(name)
	switch {
	case c == nil:
		g.fail(cm.ErrUndeclared, "OPEN "+name)
	case c.open:
		g.fail(cm.ErrAlreadyOpen, "OPEN "+name)
	default:
		c.open, c.idx, c.fetched = true, -1, false
	}
}

func (g *c16bGen) close(name string) {
	g.line("CLOSE %s;", name)
	if g.dead() {
		return
	}
	c, _ := g.find(name)
	if c == nil {
		g.fail(cm.ErrUndeclared, "CLOSE "+name)
		return
	}
	c.open = false
}

func (g *c16bGen) dispose(name string) {
	g.line("DISPOSE CURSOR %s;", name)
	if g.dead() {
		return
	}
	c, at := g.find(name)
	if c == nil {
		g.fail(cm.ErrUndeclared, "DISPOSE CURSOR "+name)
		return
	}
	delete(g.scopes[at], name)
}

// usable returns the open cursor a reading statement addresses, or records the error the statement has to end in.
func (g *c16bGen) usable(name, stmt string, needOpen bool) *c16bCur {
	c, _ := g.find(name)
	switch {
	case c == nil:
		g.fail(cm.ErrUndeclared, stmt)
		return nil
	case needOpen && !c.open:
		g.fail(cm.ErrClosed, stmt)
		return nil
	}
	return c
}

func (g *c16bGen) fetch(name string, last bool, into string) {
	pos := ""
	if last {
		pos = "LAST "
	}
	g.line("FETCH %s%s INTO %s; PRINT %s;", pos, name, into, into)
	if g.dead() {
		return
	}
	c := g.usable(name, "FETCH "+pos+name, true)
	if c == nil {
		return
	}
	c.fetched = true
	if last {
		c.idx = len(c.rows) - 1
	} else if c.idx < len(c.rows) {
		c.idx++
	}
	if c.idx >= 0 && c.idx < len(c.rows) {
		g.print(fmt.Sprint(c.rows[c.idx]))
	} else {
		g.print("NULL")
	}
}

func (g *c16bGen) walk(name, into string) {
	g.line("WHILE %s IN %s DO PRINT %s; END WHILE;", into, name, into)
	if g.dead() {
		return
	}
	c := g.usable(name, "WHILE IN "+name, true)
	if c == nil {
		return
	}
	c.fetched = true
	for c.idx++; c.idx < len(c.rows); c.idx++ {
		g.print(fmt.Sprint(c.rows[c.idx]))
	}
	c.idx = len(c.rows)
}

func (g *c16bGen) count(name string) {
	g.line("PRINT CURSOR %s COUNT;", name)
	if g.dead() {
		return
	}
	if c := g.usable(name, "CURSOR "+name+" COUNT", true); c != nil {
		g.print(fmt.Sprint(len(c.rows)))
	}
}

func (g *c16bGen) isOpen(name string) {
	g.line("PRINT CURSOR %s IS OPEN;", name)
	if g.dead() {
		return
	}
	if c := g.usable(name, "CURSOR "+name+" IS OPEN", false); c != nil {
		g.print(map[bool]string{true: "TRUE", false: "FALSE"}[c.open])
	}
}

func (g *c16bGen) inRange(name string) {
	g.line("PRINT CURSOR %s IS IN RANGE;", name)
	if g.dead() {
		return
	}
	if c := g.usable(name, "CURSOR "+name+" IS IN RANGE", true); c != nil {
		switch {
		case !c.fetched:
			g.print("UNKNOWN")
		case c.idx >= 0 && c.idx < len(c.rows):
			g.print("TRUE")
		default:
			g.print("FALSE")
		}
	}
}

// ---- the programs -----------------------------------------------------------------------------

var (
	c16bOuterRows = []int{1, 2, 3}
	c16bInnerRows = []int{10, 20}
	c16bAgainRows = []int{7, 8}
)

// block writes the statement that declares the cursor in a block of its own; prepare (counter / helper cursor at the
// enclosing level) is written by the caller through blockPrepare before every execution of the block.
func (g *c16bGen) blockPrepare(k c16BlockCase, first bool) {
	switch k.Block {
	case 6:
		if first {
			g.line("VAR @k2 := 0;")
		} else {
			g.line("@k2 := 0;")
		}
	case 7:
		if first {
			g.line("VAR @u; DECLARE oc CURSOR FOR SELECT 5; OPEN oc;")
		} else {
			g.line("CLOSE oc; OPEN oc;")
		}
	}
}

func (g *c16bGen) block(k c16BlockCase) {
	var closing string
	switch k.Block {
	case 0:
		g.line("IF TRUE THEN")
		closing = "END IF;"
	case 1:
		g.line("IF FALSE THEN PRINT 111; ELSEIF TRUE THEN")
		closing = "END IF;"
	case 2:
		g.line("IF FALSE THEN PRINT 111; ELSE")
		closing = "END IF;"
	case 3:
		g.line("CASE WHEN TRUE THEN")
		closing = "END CASE;"
	case 4:
		g.line("CASE 2 WHEN 1 THEN PRINT 111; WHEN 2 THEN")
		closing = "END CASE;"
	case 5:
		g.line("CASE WHEN FALSE THEN PRINT 111; ELSE")
		closing = "END CASE;"
	case 6:
		g.line("WHILE @k2 < 1 DO @k2 := @k2 + 1;")
		closing = "END WHILE;"
	case 7:
		g.line("WHILE @u IN oc DO")
		closing = "END WHILE;"
	}
	g.ind++
	g.push()
	switch k.Comp {
	case 1:
		g.line("VAR @w := 4;")
	case 2:
		g.line("DECLARE tt VIEW (y) AS SELECT 1;")
	case 3:
		g.line("DECLARE fn FUNCTION () AS BEGIN RETURN 1; END;")
	case 4:
		g.line("PRINT 99;")
		g.print("99")
	}
	g.declare("cur", c16bInnerRows)
	if k.Hist >= 1 {
		g.open("cur")
	}
	switch k.Hist {
	case 2:
		g.fetch("cur", false, "@v")
	case 3:
		g.walk("cur", "@v")
	case 4:
		g.close("cur")
	}
	g.pop()
	g.ind--
	g.line("%s", closing)
}

func (k c16BlockCase) program() *c16bGen {
	g := &c16bGen{}
	g.push()
	g.line("VAR @v;")
	for _, w := range k.Wrap {
		switch w {
		case 0:
			g.line("VAR @k%d := 0; WHILE @k%d < 1 DO @k%d := @k%d + 1;", g.ind, g.ind, g.ind, g.ind)
		case 1:
			g.line("IF TRUE THEN")
		case 2:
			g.line("DECLARE wrap%d FUNCTION () AS BEGIN VAR @v;", g.ind)
		case 3:
			g.line("CASE WHEN TRUE THEN")
		}
		g.ind++
		g.push()
	}
	if k.Outer {
		g.declare("cur", c16bOuterRows)
		g.open("cur")
		g.fetch("cur", false, "@v")
	}
	g.blockPrepare(k, true)
	g.block(k)
	switch k.Probe {
	case 0:
		g.fetch("cur", false, "@v")
	case 1:
		g.fetch("cur", true, "@v")
	case 2:
		g.walk("cur", "@v")
	case 3:
		g.count("cur")
	case 4:
		g.isOpen("cur")
	case 5:
		g.inRange("cur")
	case 6:
		g.open("cur")
		g.fetch("cur", false, "@v")
	case 7:
		g.close("cur")
		g.isOpen("cur")
	case 8:
		g.dispose("cur")
		g.isOpen("cur")
	case 9:
		g.declare("cur", c16bAgainRows)
		g.open("cur")
		g.fetch("cur", false, "@v")
		g.count("cur")
	case 10:
		g.blockPrepare(k, false)
		g.block(k)
		g.isOpen("cur")
	}
	for i := len(k.Wrap) - 1; i >= 0; i-- {
		g.pop()
		g.ind--
		switch k.Wrap[i] {
		case 0:
			g.line("END WHILE;")
		case 1:
			g.line("END IF;")
		case 2:
			g.line("RETURN 0; END; PRINT wrap%d();", g.ind)
			g.print("0")
		case 3:
			g.line("END CASE;")
		}
	}
	if len(k.Wrap) > 0 {
		// everything that was declared inside the enclosing block is gone as well
		g.isOpen("cur")
	}
	return g
}

func (k c16BlockCase) describe() string {
	lvl := "top level"
	if len(k.Wrap) > 0 {
		var ws []string
		for _, w := range k.Wrap {
			ws = append(ws, c16bWrapNames[w])
		}
		lvl = strings.Join(ws, " > ")
	}
	return fmt.Sprintf("results stored: %v; enclosing level: %s; cursor declared in a %s block holding %s; inside the block: %s; same name at the enclosing level: %v; after the block: %s",
		k.Stored, lvl, c16bBlockNames[k.Block], c16bCompNames[k.Comp], c16bHistNames[k.Hist], k.Outer, c16bProbeNames[k.Probe])
}

// c16ExecPlain runs program text the way the command line does: the results of the statements are not stored.
func c16ExecPlain(e *drv.Env, sql string) (r drv.Result) {
	e.Out.Reset()
	defer func() {
		if p := recover(); p != nil {
			r.Panic = p
		}
		r.Out = e.Out.String()
	}()
	stmts, _, err := parser.Parse(sql, "", false, e.Tx.Flags.AnsiQuotes)
	if err != nil {
		r.Err = query.NewSyntaxError(err.(*parser.SyntaxError))
		return
	}
	r.Flow, r.Err = e.Proc.Execute(e.Ctx, stmts)
	return
}

func c16BlocksOne(c *core.Ctx, dir string, k c16BlockCase, verbose bool) {
	g := k.program()
	sql := g.sb.String()
	env := drv.NewText(dir)
	env.Tx.Flags.SetQuiet(true)
	var r drv.Result
	if k.Stored {
		r = env.Exec(sql)
	} else {
		r = c16ExecPlain(env, sql)
	}
	env.Close()
	got := strings.Fields(strings.TrimSpace(r.Out))
	if verbose {
		fmt.Printf("%s\n%s\ncsvq prints %v, error %v, panic %v\nthe scope stack gives %v, %s", k.describe(), sql, got, r.Err, r.Panic, g.want, g.err)
		if g.dead() {
			fmt.Printf(" at %s", g.errAt)
		}
		fmt.Println()
	}
	var bad string
	gotKind, known := c16ErrKind(r.Err)
	switch {
	case r.Panic != nil:
		bad = "panic"
	case drv.IsFatal(r.Err):
		bad = "fatal error"
	case g.dead() && r.Err == nil:
		bad = "no error where " + g.err.String() + " is required"
	case g.dead() && (!known || gotKind != g.err):
		bad = "wrong kind of error (" + g.err.String() + " required)"
	case !g.dead() && r.Err != nil:
		bad = "unexpected error"
	case strings.Join(got, ",") != strings.Join(g.want, ","):
		bad = "rows and status values differ"
	}
	if bad == "" {
		return
	}
	at := ""
	if g.dead() {
		at = " at " + g.errAt
	}
	group := []string{"IF", "IF", "IF", "CASE", "CASE", "CASE", "WHILE", "WHILE IN"}[k.Block]
	c.Violate(fmt.Sprintf("block-lifetime: cursor declared inside a branch of %s: %s after the block does not address what the enclosing blocks have under that name", group, c16bProbeNames[k.Probe]),
		fmt.Sprintf("%s: %s\n%s\ncsvq prints %v (err=%v panic=%v); a cursor that ends with the block that declared it gives %v, %s%s", bad, k.describe(), sql, got, r.Err, r.Panic, g.want, g.err, at), k)
}

func c16BlocksWraps(thorough bool) [][]int {
	wraps := [][]int{{}, {0}, {1}, {2}}
	if thorough {
		wraps = append(wraps, []int{3})
		for a := 0; a < 4; a++ {
			for b := 0; b < 4; b++ {
				wraps = append(wraps, []int{a, b})
			}
		}
	}
	return wraps
}

func c16BlocksRun(c *core.Ctx) {
	dir := core.Scratch("c16blocks")
	var idx int64
	for _, stored := range []bool{false, true} {
		for _, wrap := range c16BlocksWraps(c.Thorough()) {
			for block := range c16bBlockNames {
				if c.Expired() {
					c.Incomplete("time budget reached in family block-lifetime")
					return
				}
				for comp := range c16bCompNames {
					for hist := range c16bHistNames {
						for _, outer := range []bool{false, true} {
							for probe := range c16bProbeNames {
								if probe == 9 && outer {
									continue // DECLARE of a declared cursor: the manual is silent
								}
								idx++
								if !c.Mine(idx) {
									continue
								}
								k := c16BlockCase{Family: "block-lifetime", Stored: stored, Wrap: wrap, Block: block, Comp: comp, Hist: hist, Outer: outer, Probe: probe}
								c16BlocksOne(c, dir, k, false)
								c.EvalN(1, 1)
								c.Add("block_lifetime_programs", 1)
								if c.WantSample() && probe == 10 && hist == 3 && outer && len(wrap) == 1 {
									g := k.program()
									c.Sample(map[string]any{"family": "block-lifetime", "case": k.describe(), "program": g.sb.String(), "expected_output": g.want, "expected_end": g.err.String()})
								}
							}
						}
					}
				}
			}
		}
	}
}

func c16BlocksReplay(c *core.Ctx, payload json.RawMessage) bool {
	var k c16BlockCase
	if json.Unmarshal(payload, &k) != nil || k.Family != "block-lifetime" {
		return false
	}
	fmt.Println("replaying family block-lifetime")
	c16BlocksOne(c, core.Scratch("c16blocks-replay"), k, true)
	return true
}
