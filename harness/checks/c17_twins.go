package checks

import (
	"encoding/json"
	"fmt"
	"strings"

	"verif/harness/internal/core"
	"verif/harness/internal/drv"
)

// Extra family for C17: two analytic calls in one SELECT whose texts differ only in the letter case of a string
// literal, of a name, or in white space. csvq finds "the same call" by its text; names and keywords are
// case-insensitive, the contents of a literal are not. Differential oracle: every call of the SELECT returns the
// column it returns in a SELECT of its own (which the main family decides against the definition).
func init() {
	core.Extend("C17", "family twin-calls: 9 groups of analytic calls that differ in the letter case of a literal / of a name / in white space x every ordered pair (and the triple) in one SELECT, also as ORDER BY key, over 3 tables; "+
		"oracle: each call's column equals the column of the call alone", c17TwinsRun)
}

var c17TwinGroups = [][]string{
	{"LISTAGG(v, 'x') OVER (ORDER BY id)", "LISTAGG(v, 'X') OVER (ORDER BY id)", "listagg(V, 'x') over (order by ID)"},
	{"LAG(v, 1, 'a') OVER (ORDER BY id)", "LAG(v, 1, 'A') OVER (ORDER BY id)", "LAG(v,1,'a') OVER (ORDER BY id)"},
	{"LEAD(v, 1, 'n/a') OVER (PARTITION BY p ORDER BY id)", "LEAD(v, 1, 'N/A') OVER (PARTITION BY p ORDER BY id)", "LEAD(v, 1, 'n/a') OVER (PARTITION BY P ORDER BY id)"},
	{"FIRST_VALUE(v || 'k') OVER (PARTITION BY p ORDER BY id)", "FIRST_VALUE(v || 'K') OVER (PARTITION BY p ORDER BY id)", "FIRST_VALUE(V || 'k') OVER (PARTITION BY p ORDER BY id)"},
	{"COUNT(CASE WHEN v = 'b' THEN 1 END) OVER (PARTITION BY p)", "COUNT(CASE WHEN v = 'B' THEN 1 END) OVER (PARTITION BY p)", "COUNT(CASE WHEN REPLACE(v, 'b', 'B') = 'B' THEN 1 END) OVER (PARTITION BY p)"},
	{"JSON_AGG(REPLACE(v, 'a', 'z')) OVER (ORDER BY id)", "JSON_AGG(REPLACE(v, 'A', 'z')) OVER (ORDER BY id)", "JSON_AGG(REPLACE(v, 'a', 'Z')) OVER (ORDER BY id)"},
	{"RANK() OVER (ORDER BY REPLACE(v, 'b', 'z'))", "RANK() OVER (ORDER BY REPLACE(v, 'B', 'z'))", "RANK() OVER (ORDER BY REPLACE(v, 'b', 'Z'))"},
	{"LISTAGG(v, '\\'') OVER (ORDER BY id)", "LISTAGG(v, \"'\") OVER (ORDER BY id)", "LISTAGG(v, 'q') OVER (ORDER BY id)"},
	{"MAX(v) OVER (PARTITION BY INSTR(v, 'a'))", "MAX(v) OVER (PARTITION BY INSTR(v, 'A'))", "MAX(V) OVER (PARTITION BY INSTR(V, 'a'))"},
}

var c17TwinTables = []string{
	"id,p,v\n1,1,a\n2,1,B\n3,2,b\n4,2,A\n",
	"id,p,v\n1,1,b\n2,1,a\n3,1,\n",
	"id,p,v\n1,x,Ab\n",
}

type c17TwinCase struct {
	Family string   `json:"family"`
	Table  string   `json:"table_csv"`
	Calls  []string `json:"calls"`
	Order  bool     `json:"last_call_is_the_order_by_key"`
}

func c17TwinColumns(dir, sql string) ([][]string, error) {
	env := drv.New(dir)
	defer env.Close()
	_, rows, err := c17NestedText(env, sql)
	return rows, err
}

func c17TwinOne(c *core.Ctx, dir string, k c17TwinCase) {
	drv.ClearDir(dir)
	drv.WriteFiles(dir, map[string]string{"t.csv": k.Table})
	sel := k.Calls
	order := " ORDER BY id"
	if k.Order {
		sel = k.Calls[:len(k.Calls)-1]
		order = " ORDER BY " + k.Calls[len(k.Calls)-1] + ", id"
	}
	sql := "SELECT id, " + strings.Join(sel, ", ") + " FROM t" + order
	got, err := c17TwinColumns(dir, sql)
	c.Eval(k.Family+"|"+k.Table+"|"+sql, true)
	if err != nil {
		c.Violate(k.Family+":error", fmt.Sprintf("t.csv = %q\n%s\n fails: %v", k.Table, sql, err), k)
		return
	}
	pos := map[string]int{}
	for i, r := range got {
		pos[r[0]] = i
	}
	for ci, call := range sel {
		alone, aerr := c17TwinColumns(dir, "SELECT id, "+call+" FROM t"+order)
		if aerr != nil {
			c.Incomplete("family " + k.Family + ": " + call + " alone fails: " + aerr.Error())
			return
		}
		for i, r := range alone {
			if k.Order {
				// the row order is part of what is compared
				if i >= len(got) || got[i][0] != r[0] {
					c.Violate(k.Family+":order-by-key-taken-from-a-similar-select-column", fmt.Sprintf("t.csv = %q\n%s\n returns the ids in the order %v; with only %s in the select list the order is %v", k.Table, sql, c17Col(got, 0), call, c17Col(alone, 0)), k)
					return
				}
			}
			j, ok := pos[r[0]]
			if !ok || got[j][ci+1] != r[1] {
				c.Violate(k.Family+":column-of-one-call-shows-a-similar-call's-values", fmt.Sprintf("t.csv = %q\n%s\n column %d (%s) = %v; the call alone gives %v", k.Table, sql, ci+2, call, c17Col(got, ci+1), c17Col(alone, 1)), k)
				return
			}
		}
	}
}

func c17Col(rows [][]string, i int) []string {
	out := make([]string, len(rows))
	for k, r := range rows {
		if i < len(r) {
			out[k] = r[i]
		}
	}
	return out
}

func c17TwinsRun(c *core.Ctx) {
	if c17SkipFamily("twin-calls") {
		return
	}
	dir := core.Scratch("c17twins")
	var idx int64
	for _, tb := range c17TwinTables {
		for _, g := range c17TwinGroups {
			var cases [][]string
			for i := range g {
				for j := range g {
					if i != j {
						cases = append(cases, []string{g[i], g[j]})
					}
				}
			}
			cases = append(cases, g)
			for _, calls := range cases {
				for _, ord := range []bool{false, true} {
					idx++
					if !c.Mine(idx) {
						continue
					}
					c17TwinOne(c, dir, c17TwinCase{"twin-calls", tb, calls, ord})
				}
			}
		}
	}
}

func c17TwinsReplay(c *core.Ctx, payload json.RawMessage) bool {
	var k c17TwinCase
	if json.Unmarshal(payload, &k) != nil || (k.Family != "twin-calls" && k.Family != "quoted-twins") {
		return false
	}
	fmt.Printf("replaying family %s: %v\n", k.Family, k.Calls)
	c17TwinOne(c, core.Scratch("c17twins-replay"), k)
	return true
}
