package checks

import (
	"fmt"

	"verif/harness/internal/anref"
	"verif/harness/internal/core"
	"verif/harness/internal/rv"
)

// Extra family for C17: an analytic call that is not a select-list item of its own but an operand of an expression
// whose value is, by its definition, the operand's value: (x), COALESCE(x, NULL), CASE WHEN TRUE THEN x END and
// JSON_OBJECT(x AS r) (member r of the object). The select clause has to find the call inside the expression,
// compute it over the partitions of the whole view and hand the row's value to the expression.
//
// Oracle: the definitional model of the main family applied to the operand (JSON: numbers compared as floats).
// A mismatch that is reproduced by "every row is a partition of its own" gets the narrow signature
// wrapped:defect:analytic-function-inside-JSON_OBJECT-sees-only-the-current-row.
func init() {
	core.Extend("C17", "family wrapped: 21 function forms x PARTITION BY none/p x ORDER BY none/o/o DESC as operand of (x), COALESCE(x, NULL), CASE WHEN TRUE THEN x END, JSON_OBJECT(x AS r), 12 calls under one wrapper per SELECT (thorough: also the four wrappers of a call side by side), "+
		"on every table over the mentioned columns with cells in {NULL,1,2} (0 or 1 column: 0..4 rows, 2 columns: 0..3 rows, 3 columns: 0..2 rows; thorough one row more as multisets); "+
		"oracle: the definitional model applied to the operand", c17WrappedRun)
}

var c17Wrappers = [][3]string{ // name, text before, text after the call
	{"", "(", ")"},
	{"", "COALESCE(", ", NULL)"},
	{"", "CASE WHEN TRUE THEN ", " END"},
	{"json", "JSON_OBJECT(", " AS r)"},
}

func c17WrappedForms() []anref.Call {
	p1 := anref.Bound{K: anref.Prec, N: 1}
	return []anref.Call{
		{Fn: "ROW_NUMBER"}, {Fn: "RANK"}, {Fn: "DENSE_RANK"}, {Fn: "CUME_DIST"}, {Fn: "PERCENT_RANK"}, {Fn: "NTILE", N: 2},
		{Fn: "LAG"}, {Fn: "LEAD", HasOffset: true, Offset: 1}, {Fn: "FIRST_VALUE"}, {Fn: "LAST_VALUE"}, {Fn: "NTH_VALUE", N: 2},
		{Fn: "LISTAGG", HasSep: true, Sep: ","}, {Fn: "JSON_AGG"}, {Fn: "COUNT"}, {Fn: "COUNT", Star: true}, {Fn: "SUM"}, {Fn: "AVG"}, {Fn: "MIN"}, {Fn: "MAX"}, {Fn: "UCAT"},
		{Fn: "SUM", Frame: &anref.Frame{Low: p1}},
	}
}

// c17WrappedPacks: per wrapper, the calls 12 per SELECT (every call once in its SELECT, so that the expression is the
// only place the call occurs); mixed (thorough): also the four wrappers of one call side by side, 3 calls per SELECT,
// where csvq computes the call once for all of them.
func c17WrappedPacks(mixed bool) map[int][]*c17FamPack {
	type key struct{ mask, wrapper int }
	by := map[key][]c17FamItem{}
	byMask := map[int][]c17FamItem{}
	for _, base := range c17WrappedForms() {
		for _, part := range [][]int{nil, {anref.ColP}} {
			for _, order := range [][]anref.OrdItem{nil, c17OrdAsc, c17OrdDesc} {
				if order == nil && base.Frame != nil {
					continue
				}
				if order != nil && base.Star {
					continue // the manual gives COUNT(*) OVER a partition clause only
				}
				for wi, w := range c17Wrappers {
					c := base
					c.Part, c.Order = part, order
					m := c17Refs(&c)
					it := c17FamItem{Call: &c, SQL: w[1] + c.SQL() + w[2], Wrap: w[0]}
					by[key{m, wi}] = append(by[key{m, wi}], it)
					byMask[m] = append(byMask[m], it)
				}
			}
		}
	}
	packs := map[int][]*c17FamPack{}
	cut := func(m int, items []c17FamItem) {
		for i := 0; i < len(items); i += c17PackSize {
			j := i + c17PackSize
			if j > len(items) {
				j = len(items)
			}
			packs[m] = append(packs[m], &c17FamPack{items: items[i:j], parsed: mustParse(c17FamSelect(items[i:j]))})
		}
	}
	for m := 0; m < 8; m++ {
		for wi := range c17Wrappers {
			cut(m, by[key{m, wi}])
		}
		if mixed {
			cut(m, byMask[m])
		}
	}
	return packs
}

// c17RowAlone: does "every row is the only row of its partition" reproduce the column?
func c17RowAlone(it c17FamItem, rows []anref.Row, got map[int]rv.V, ev c17FamEval) bool {
	for _, rd := range anref.Readings(it.Call) {
		all := true
		for i := range rows {
			res := ev(it.Call, rows[i:i+1], rd)
			if res.Err || !anref.Same(got[rows[i].ID], res.Vals[0]) {
				all = false
				break
			}
		}
		if all {
			return true
		}
	}
	return false
}

func c17WrappedRun(c *core.Ctx) {
	if c17SkipFamily("wrapped") {
		return
	}
	thorough := c.Thorough()
	packs := c17WrappedPacks(thorough)
	f := newC17Fam(c, "wrapped", "c17wrapped", false)
	defer f.close()
	f.defect = c17WrappedDefect
	vals := [3][]string{{"", "1", "2"}, {"", "1", "2"}, {"", "1", "2"}}
	seqLen := [4]int{4, 4, 3, 2}
	var idx int64
	stopped := false
	for mask := 0; mask < 8 && !stopped; mask++ {
		ps := packs[mask]
		if len(ps) == 0 {
			continue
		}
		k := 0
		for b := 0; b < 3; b++ {
			k += mask >> b & 1
		}
		alphabet := c17FamAlphabet(mask, vals)
		visit := func(rows [][3]string) bool {
			idx++
			if !c.Mine(idx) {
				return true
			}
			if c.Expired() {
				c.Incomplete(fmt.Sprintf("time budget reached in family wrapped at a table of %d rows", len(rows)))
				stopped = true
				return false
			}
			for _, p := range ps {
				f.one(c17FamCase{Family: "wrapped", Rows: rows, Items: p.items}, p.parsed, true)
			}
			c.Add("wrapped_tables", 1)
			return true
		}
		c17FamSeqs(alphabet, seqLen[k], visit)
		if thorough && !stopped && k > 0 {
			c17FamMultisets(alphabet, seqLen[k]+1, visit)
		}
	}
}

func c17WrappedDefect(it c17FamItem, rows []anref.Row, got map[int]rv.V, ev c17FamEval) string {
	if it.Wrap == "json" && c17RowAlone(it, rows, got, ev) {
		return "wrapped:defect:analytic-function-inside-JSON_OBJECT-sees-only-the-current-row"
	}
	return ""
}
