package checks

import (
	"encoding/json"
	"fmt"
	"strings"

	"verif/harness/internal/core"
	"verif/harness/internal/drv"
)

// Extra family for C17: the analytic functions of a query whose source is a derived table that computed analytic
// functions of its own, with a WHERE (or an OFFSET inside) between the two levels, so that the rows the outer
// functions see are other rows, at other positions, than the ones the inner functions saw.
//
// Differential oracle: the derived table is materialised - its rows, as csvq returns them for the inner query alone,
// are written to a file - and the outer query is run on that file in a fresh process image. The main family decides
// single-level queries against the definition; this one ties the nested form to them.
func init() {
	core.Extend("C17", "family nested: every table of 1..4 rows over p, o in {1, 2} (quick: 1..3 rows and 54 of the 4-row tables) x 3 inner analytic functions x 2 inner select lists (the table's columns in place, or reordered) x "+
		"4 ways of changing the rows between the levels (3 WHERE conditions, OFFSET 1 inside) x 6 outer analytic functions; oracle: the same outer query over the materialised rows of the derived table", c17NestedRun)
}

var c17NestedInner = []string{
	"ROW_NUMBER() OVER (PARTITION BY p ORDER BY o DESC, id)",
	"SUM(v) OVER (PARTITION BY o)",
	"RANK() OVER (ORDER BY p DESC, o)",
}

var c17NestedLists = []string{"id, p, o, v, %s AS r", "p, id, v, o, %s AS r"}

// where, offset
var c17NestedCuts = [][2]string{{"id <> 1", ""}, {"id % 2 = 0", ""}, {"r = 1", ""}, {"", " ORDER BY id OFFSET 1"}}

const c17NestedOuter = "id, SUM(v) OVER (PARTITION BY p), ROW_NUMBER() OVER (PARTITION BY p ORDER BY o, id), RANK() OVER (ORDER BY o), LAG(id) OVER (PARTITION BY o ORDER BY id), " +
	"SUM(r) OVER (PARTITION BY p ORDER BY id), COUNT(*) OVER (PARTITION BY o, p)"

type c17NestedCase struct {
	Family string `json:"family"`
	Table  string `json:"table_csv"`
	Inner  int    `json:"inner_function"`
	List   int    `json:"inner_select_list"`
	Cut    int    `json:"cut"`
}

func c17NestedText(env *drv.Env, sql string) (header []string, rows [][]string, err error) {
	r := env.Exec(sql)
	if r.Panic != nil {
		return nil, nil, fmt.Errorf("panic: %v", r.Panic)
	}
	if r.Err != nil {
		return nil, nil, r.Err
	}
	if len(r.Views) == 0 {
		return nil, nil, fmt.Errorf("no result")
	}
	v := r.Views[len(r.Views)-1]
	for _, row := range drv.Rows(v) {
		t := make([]string, len(row))
		for i, x := range row {
			t[i] = c01AttrText(x)
			if x.K == 0 { // NULL
				t[i] = ""
			}
		}
		rows = append(rows, t)
	}
	return drv.Header(v), rows, nil
}

func c17NestedOne(c *core.Ctx, dir string, k c17NestedCase) {
	inner := "SELECT " + fmt.Sprintf(c17NestedLists[k.List], c17NestedInner[k.Inner]) + " FROM t" + c17NestedCuts[k.Cut][1]
	where := ""
	if w := c17NestedCuts[k.Cut][0]; w != "" {
		where = " WHERE " + w
	}
	nested := "SELECT " + c17NestedOuter + " FROM (" + inner + ") s" + where + " ORDER BY id"
	drv.ClearDir(dir)
	drv.WriteFiles(dir, map[string]string{"t.csv": k.Table})
	env := drv.New(dir)
	_, got, err := c17NestedText(env, nested)
	env.Close()
	// the derived table alone, materialised
	env = drv.New(dir)
	h, rows, ierr := c17NestedText(env, inner)
	env.Close()
	if ierr != nil {
		c.Incomplete("family nested: the inner query fails: " + ierr.Error())
		return
	}
	var sb strings.Builder
	sb.WriteString(strings.Join(h, ",") + "\n")
	for _, r := range rows {
		sb.WriteString(strings.Join(r, ",") + "\n")
	}
	drv.WriteFiles(dir, map[string]string{"m.csv": sb.String()})
	env = drv.New(dir)
	flat := "SELECT " + c17NestedOuter + " FROM m" + where + " ORDER BY id"
	_, want, werr := c17NestedText(env, flat)
	env.Close()
	c.Eval(fmt.Sprintf("nested|%s|%d|%d|%d", k.Table, k.Inner, k.List, k.Cut), len(rows) > 1)
	if werr != nil {
		c.Incomplete("family nested: the flat query fails: " + werr.Error())
		return
	}
	if err != nil || fmt.Sprint(got) != fmt.Sprint(want) {
		c.Violate(fmt.Sprintf("nested:analytic-functions-over-a-derived-table-differ-from-the-materialised-form:list%d", k.List),
			fmt.Sprintf("t.csv = %q\n%s\n gives %v (err=%v)\nthe derived table alone returns %v %v; over these rows\n%s\n gives %v", k.Table, nested, got, err, h, rows, flat, want), k)
	}
}

func c17NestedRun(c *core.Ctx) {
	if c17SkipFamily("nested") {
		return
	}
	dir := core.Scratch("c17nested")
	maxRows := 3
	if c.Thorough() {
		maxRows = 4
	}
	var idx int64
	for n := 1; n <= 4; n++ {
		total := 1
		for i := 0; i < n; i++ {
			total *= 4
		}
		for code := 0; code < total; code++ {
			if n > maxRows && code%5 != 0 {
				continue
			}
			var sb strings.Builder
			sb.WriteString("id,p,o,v\n")
			x := code
			for i := 0; i < n; i++ {
				fmt.Fprintf(&sb, "%d,%d,%d,%d\n", i+1, x%2+1, x/2%2+1, (i+1)*10)
				x /= 4
			}
			for in := range c17NestedInner {
				for li := range c17NestedLists {
					for cu := range c17NestedCuts {
						idx++
						if !c.Mine(idx) {
							continue
						}
						if c.Expired() {
							c.Incomplete("time budget reached in family nested")
							return
						}
						c17NestedOne(c, dir, c17NestedCase{"nested", sb.String(), in, li, cu})
					}
				}
			}
		}
	}
}

func c17NestedReplay(c *core.Ctx, payload json.RawMessage) bool {
	var k c17NestedCase
	if json.Unmarshal(payload, &k) != nil || k.Family != "nested" {
		return false
	}
	fmt.Printf("replaying family nested: %+v\n", k)
	c17NestedOne(c, core.Scratch("c17nested-replay"), k)
	return true
}
