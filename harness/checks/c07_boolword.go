package checks

import (
	"encoding/json"
	"fmt"
	"time"

	"verif/harness/internal/core"
	"verif/harness/internal/drv"
	"verif/harness/internal/ordref"
	"verif/harness/internal/rv"
)

// Extra family for C07: a text column in which a word occurs that csvq can also read as a boolean ('true', 'f',
// 'False' ...). Such a word is a non-numeric text of the property's quantifier: the documented comparison ladder
// (integer, float, datetime, boolean, "at last to string") compares it with a text that is no boolean word as a
// string ('a' < 'true' and 'true' < 'u' are TRUE), so the column's values are mutually comparable and ORDER BY has to
// sort them like any other texts.
//
// Part one: one boolean word per table: the full predicate of the sort and cut families (rows that hold the same
// word tie for the sort; WITH TIES is only asked where at most one row holds the word, because the reference model
// does not compare boolean readings). Part two: several different boolean words in one column ('t' next to 'f':
// a column of letters). The ladder compares those with each other as booleans, which has no order, so only the
// rows that hold no boolean word are judged: they must come out as a correctly sorted sub-sequence whatever csvq
// does with the words (the policy of the NaN family).
func init() {
	core.Extend("C07", "family boolword: text sort keys with a word that reads as a boolean: 3 words (thorough 6) x every table of up to 3 rows (thorough 4) over k1 in {NULL,a,g,u,word} x k2 in {a,B} "+
		"x 11 key lists and 21 limit clauses, full predicate; and every table of up to 3 rows (thorough 4) over k1 in {NULL,a,g,u,t,f,true} x 9 single-item lists, "+
		"where only the rows without a boolean word are judged (a sorted sub-sequence of a permutation)", c07BoolwordRun)
	c07MoreReplays = append(c07MoreReplays, c07BoolwordReplay)
	for _, w := range c07BoolWords {
		c07MoreAlphabets = append(c07MoreAlphabets, c07BoolwordAlphabet(w))
	}
	c07MoreAlphabets = append(c07MoreAlphabets, c07BoolMulti)
}

// 'a' < 'f' < 'False' < 'g' < 't' < 'true' < 'u' (case-insensitively): every word has texts on both sides
var c07BoolWords = []string{"true", "f", "False", "t", "false", "T"}

func c07BoolwordAlphabet(w string) []rv.V {
	return []rv.V{rv.N(), rv.S("a"), rv.S("g"), rv.S("u"), rv.S(w)}
}

var c07BoolMulti = []rv.V{rv.N(), rv.S("a"), rv.S("g"), rv.S("u"), rv.S("t"), rv.S("f"), rv.S("true")}

func c07IsBoolWord(v rv.V) bool {
	if v.K != rv.Str {
		return false
	}
	_, ok := v.Boolean()
	return ok
}

func c07BoolwordQueries() []c07Query {
	var qs []c07Query
	for _, kl := range c07KeyLists() {
		if len(kl) == 1 && kl[0].Col == 0 {
			qs = append(qs, c07Query{Keys: kl})
		}
	}
	cut := c07CutKeyLists()
	qs = append(qs, c07Query{Keys: cut[4]}, c07Query{Keys: cut[5]})
	for _, kl := range [][]ordref.Key{cut[1], cut[2], cut[4]} {
		for _, l := range []ordref.Limit{
			{Kind: ordref.LimRows, N: 1}, {Kind: ordref.LimRows, N: 2}, {Kind: ordref.LimNone, HasOff: true, Off: 1},
			{Kind: ordref.LimRows, N: 1, Ties: true}, {Kind: ordref.LimRows, N: 2, Ties: true}, {Kind: ordref.LimRows, N: 1, Ties: true, HasOff: true, Off: 1},
			{Kind: ordref.LimPercent, Pct: "50", Ties: true},
		} {
			qs = append(qs, c07Query{Keys: kl, Lim: l})
		}
	}
	return qs
}

type c07BoolMultiCase struct {
	Family string     `json:"family"`
	Rows   []string   `json:"rows"` // k1 value keys
	Key    ordref.Key `json:"key"`
	SQL    string     `json:"sql"`
}

// c07BoolMultiJudge: the output is a permutation of the input and the rows without a boolean word are sorted.
func c07BoolMultiJudge(c *core.Ctx, tbl []ordref.Row, q c07Query, out [][]rv.V, err error, pn any) bool {
	where := func() string { return fmt.Sprintf("%s on view table %s", q.SQL(), c07RowsText(tbl)) }
	payload := func() c07BoolMultiCase {
		p := c07BoolMultiCase{Family: "boolword-multi", Key: q.Keys[0], SQL: q.SQL()}
		for _, r := range tbl {
			p.Rows = append(p.Rows, r.V[0].Key())
		}
		return p
	}
	if pn != nil || err != nil {
		c.Violate("boolword:"+c07FatalSig(fmt.Errorf("%v", err), pn), fmt.Sprintf("%s: csvq fails: %v %v", where(), firstLine(err), pn), payload())
		return true
	}
	got, ok := c07Match(out, tbl)
	if !ok || len(got) != len(tbl) {
		c.Violate("boolword:rows:not-a-permutation", fmt.Sprintf("%s: output %s is not a permutation of the input", where(), drv.RowsKey(out)), payload())
		return true
	}
	var plain []ordref.Row
	words := 0
	for _, r := range got {
		if c07IsBoolWord(r.V[0]) {
			words++
			continue
		}
		plain = append(plain, r)
	}
	if _, i, _, found := c07Inversion(plain, q.Keys); found {
		c.Violate("boolword:sort:inversion-among-the-rows-without-a-boolean-word",
			fmt.Sprintf("%s: output %s has row #%d before row #%d although neither key reads as a boolean and the order item puts it after",
				where(), c07RowsText(got), plain[i].ID, plain[i+1].ID), payload())
	}
	return words > 0 && len(plain) >= 2
}

func c07BoolwordRun(c *core.Ctx) {
	if !c07Only(c, "boolword") {
		return
	}
	words, maxRows := c07BoolWords[:3], 3
	if c.Thorough() {
		words, maxRows = c07BoolWords, 4
	}
	r := newC07Runner(core.Scratch("c07boolword"))
	defer r.close()
	t0 := time.Now()
	all := c07BoolwordQueries()
	sqlOf := map[int]string{}
	for i, q := range all {
		sqlOf[i] = q.SQL()
	}
	c.Info("boolword", fmt.Sprintf("words %v; k1 in {NULL,a,g,u,word}, k2 in [a B], all row sequences of 0..%d rows, %d queries each (WITH TIES only with at most one row holding the word)", words, maxRows, len(all)))
	var base int64
	for _, w := range words {
		cut := false
		var count int64
		c07Tables(c07BoolwordAlphabet(w), c07Text2, maxRows, func(idx int64, tbl []ordref.Row) bool {
			count = idx + 1
			if !c.Mine(base + idx) {
				return true
			}
			if c07Grace(c) {
				c.Incomplete("time budget reached in family boolword")
				cut = true
				return false
			}
			nw := 0
			for _, row := range tbl {
				if c07IsBoolWord(row.V[0]) {
					nw++
				}
			}
			r.load(tbl)
			var done, nt int64
			for i, q := range all {
				if q.Lim.Ties && nw > 1 {
					continue
				}
				out, err, pn := r.query(sqlOf[i])
				done++
				if c07Judge(c, "boolword", "view", tbl, q, out, err, pn, r.query) && nw > 0 {
					nt++
				}
			}
			c.EvalN(done, nt)
			c.Add("tables", 1)
			return true
		})
		base += count
		if cut {
			return
		}
	}
	// part two
	var qs []c07Query
	for _, kl := range c07KeyLists() {
		if len(kl) == 1 && kl[0].Col == 0 {
			qs = append(qs, c07Query{Keys: kl})
		}
	}
	c07Tables(c07BoolMulti, []rv.V{rv.S("a")}, maxRows, func(idx int64, tbl []ordref.Row) bool {
		if !c.Mine(base + idx) {
			return true
		}
		if c07Grace(c) {
			c.Incomplete("time budget reached in family boolword")
			return false
		}
		r.load(tbl)
		var nt int64
		for _, q := range qs {
			out, err, pn := r.query(q.SQL())
			if c07BoolMultiJudge(c, tbl, q, out, err, pn) {
				nt++
			}
		}
		c.EvalN(int64(len(qs)), nt)
		c.Add("tables", 1)
		return true
	})
	c.Max("max_ms_boolword", time.Since(t0).Milliseconds())
}

func c07BoolwordReplay(c *core.Ctx, payload json.RawMessage) bool {
	var k c07BoolMultiCase
	if json.Unmarshal(payload, &k) != nil || k.Family != "boolword-multi" {
		return false
	}
	vals := c07AllValues()
	tbl := make([]ordref.Row, len(k.Rows))
	for i, key := range k.Rows {
		v, ok := vals[key]
		if !ok {
			fmt.Println("replay: unknown value", key)
			return true
		}
		tbl[i] = ordref.Row{ID: i, V: []rv.V{v, rv.S("a")}}
	}
	q := c07Query{Keys: []ordref.Key{k.Key}}
	fmt.Printf("replaying family boolword (several words): %s on view table %s\n", q.SQL(), c07RowsText(tbl))
	r := newC07Runner(core.Scratch("c07boolword-replay"))
	defer r.close()
	r.load(tbl)
	out, err, pn := r.query(q.SQL())
	fmt.Printf("csvq: rows %s err %v panic %v\n", drv.RowsKey(out), firstLine(err), pn)
	c07BoolMultiJudge(c, tbl, q, out, err, pn)
	return true
}
