package checks

import (
	"encoding/json"
	"fmt"
	"os"
	"strings"

	"verif/harness/internal/core"
	"verif/harness/internal/drv"
)

// Extra family for C16: the value objects in the snapshot of an open cursor are shared - FETCH ... INTO @v stores in
// @v the very object the snapshot's cell holds, and the snapshot's cells are the objects of the cached table.
// Evaluating a bare variable or a bare column returns that object, not a copy.  Any statement that treats the value it
// was handed as a temporary of its own (and gives it back to lib/value's pools) therefore reaches into the snapshot
// WITHOUT any change of a table: the next allocation of that type overwrites the row.
// "... until CLOSE, FETCH ... return exactly the rows of that result at the addressed positions": the cursor is walked
// once right after OPEN; then (group A) every row is fetched again and each fetched variable is handed, bare, to one
// kind of value-taking statement, or (group B) one kind of statement is run on the underlying table with a bare
// column in each place where a condition or a value is expected; then csvq is made to allocate values of every
// primitive type; then the cursor is walked again (three ways).  Both walks have to deliver the same rows, and
// (instrumented build only) no value object that FETCH puts into a variable may sit in one of the value pools.
func init() {
	core.Extend("C16", "family released-values: table {temporary with integer/string/float/datetime columns, file held for update, file read before, file not read} x cursor query {*, sorted} x "+
		fmt.Sprintf("%d kinds of statement after OPEN that take a fetched variable as a bare value (SET @%%ENV, PRINT, ECHO, PRINTF, SET @@FLAG, ADD/REMOVE flag element, EXECUTE USING, EXECUTE, CHDIR, SOURCE, function argument, VAR/DISPOSE, IF, CASE, WHILE, LIMIT, OFFSET, WHERE @v, HAVING @v, TRIGGER ERROR, ...) "+
			"or that use a bare column of the underlying table as condition or value (SELECT/UPDATE/DELETE WHERE col, HAVING col, JOIN ON col, IF()/CASE/NOT/AND on col, LIMIT from a column, with ROLLBACK), each with every variable / column; ", len(c16rStmts))+
		"x allocations afterwards and second walk {none + WHILE IN, all types + LAST + PRIOR, all types + ABSOLUTE i; thorough: {none, all types} x the three walks}; "+
		"oracle: the rows of the walk before the statements, and no fetched value object sits in a value pool", c16ReleasedRun)
}

type c16ReleasedCase struct {
	Family string `json:"family"`
	Src    int    `json:"src"`
	Query  int    `json:"query"`
	Stmt   int    `json:"stmt"`
	Churn  int    `json:"churn"`
	Walk   int    `json:"walk"`
}

// one kind of statement; {V} = the fetched variable (group A), {C} = the column, {T} = the table, {S} = the string
// column of the table (group B).  Statements of group A are executed after every FETCH of the second pass, once per
// variable; statements of group B once per column.
type c16rStmt struct {
	name    string
	table   bool     // group B
	sql     []string // executed in order
	mayFail bool     // an ordinary error is a legitimate outcome (the value has the wrong type for the statement ...)
}

var c16rStmts = []c16rStmt{
	{name: "SET @%ENV TO @v", sql: []string{"SET @%VERIF_C16_REL TO {V}"}},
	{name: "SET @%ENV = @v", sql: []string{"SET @%VERIF_C16_REL = {V}"}},
	{name: "PRINT @v", sql: []string{"PRINT {V}"}},
	{name: "ECHO @v", sql: []string{"ECHO {V}"}, mayFail: true},
	{name: "PRINTF format USING @v", sql: []string{"PRINTF '%s' USING {V}"}},
	{name: "PRINTF format, @v", sql: []string{"PRINTF '%s and %s', {V}, {V}"}},
	{name: "PRINTF @v", sql: []string{"PRINTF {V}"}, mayFail: true},
	{name: "SET @@DATETIME_FORMAT TO @v", sql: []string{"SET @@DATETIME_FORMAT TO {V}", "SET @@DATETIME_FORMAT TO ''"}, mayFail: true},
	{name: "SET @@LIMIT_RECURSION TO @v", sql: []string{"SET @@LIMIT_RECURSION TO {V}", "SET @@LIMIT_RECURSION TO 1000"}, mayFail: true},
	{name: "SET @@WAIT_TIMEOUT TO @v", sql: []string{"SET @@WAIT_TIMEOUT TO {V}", "SET @@WAIT_TIMEOUT TO 120"}, mayFail: true},
	{name: "SET @@STRICT_EQUAL TO @v", sql: []string{"SET @@STRICT_EQUAL TO {V}", "SET @@STRICT_EQUAL TO FALSE"}, mayFail: true},
	{name: "ADD @v TO / REMOVE @v FROM @@DATETIME_FORMAT", sql: []string{"ADD {V} TO @@DATETIME_FORMAT", "REMOVE {V} FROM @@DATETIME_FORMAT", "SET @@DATETIME_FORMAT TO ''"}, mayFail: true},
	{name: "REMOVE @v FROM @@DATETIME_FORMAT (index or absent element)", sql: []string{"ADD 'c16fmt' TO @@DATETIME_FORMAT", "REMOVE {V} FROM @@DATETIME_FORMAT", "SET @@DATETIME_FORMAT TO ''"}, mayFail: true},
	{name: "EXECUTE prepared USING @v", sql: []string{"EXECUTE c16st USING {V}"}},
	{name: "EXECUTE prepared USING @v AS name", sql: []string{"EXECUTE c16sn USING {V} AS val"}},
	{name: "EXECUTE 'text' USING @v", sql: []string{"EXECUTE 'PRINT %s' USING {V}", "EXECUTE 'PRINT %q' USING {V}"}, mayFail: true},
	{name: "EXECUTE @v", sql: []string{"EXECUTE {V}"}, mayFail: true},
	{name: "CHDIR @v", sql: []string{"CHDIR {V}"}, mayFail: true},
	{name: "SOURCE @v", sql: []string{"SOURCE {V}"}, mayFail: true},
	{name: "function argument", sql: []string{"SELECT c16f({V})"}},
	{name: "function argument returned", sql: []string{"SELECT c16g({V})", "@e := c16g({V})"}},
	{name: "aggregate function argument", sql: []string{"SELECT c16agg(id, {V}) FROM other"}},
	{name: "VAR := @v and DISPOSE", sql: []string{"VAR @c16tmp := {V}", "DISPOSE @c16tmp"}},
	{name: "@e := @v and overwritten", sql: []string{"@e := {V}", "@e := 'over' || 'written'"}},
	{name: "IF @v", sql: []string{"IF {V} THEN PRINT 'y'; ELSE PRINT 'n'; END IF"}},
	{name: "CASE @v WHEN @v", sql: []string{"CASE {V} WHEN {V} THEN PRINT 'y'; ELSE PRINT 'n'; END CASE"}},
	{name: "CASE WHEN @v", sql: []string{"CASE WHEN {V} THEN PRINT 'y'; ELSE PRINT 'n'; END CASE"}},
	{name: "WHILE @v", sql: []string{"WHILE {V} DO BREAK; END WHILE"}},
	{name: "SELECT @v", sql: []string{"SELECT {V}", "SELECT {V} AS x FROM other"}},
	{name: "SELECT ... WHERE @v", sql: []string{"SELECT id FROM other WHERE {V}"}},
	{name: "SELECT ... HAVING @v", sql: []string{"SELECT COUNT(*) FROM other HAVING {V}"}},
	{name: "SELECT ... LIMIT @v", sql: []string{"SELECT id FROM other LIMIT {V}"}, mayFail: true},
	{name: "SELECT ... LIMIT @v PERCENT", sql: []string{"SELECT id FROM other LIMIT {V} PERCENT"}, mayFail: true},
	{name: "SELECT ... OFFSET @v", sql: []string{"SELECT id FROM other LIMIT 2 OFFSET {V}"}, mayFail: true},
	{name: "SELECT IF(@v) / NOT @v / @v AND @v / COALESCE(@v)", sql: []string{"SELECT IF({V}, 1, 0), NOT {V}, {V} AND {V}, {V} OR {V}, COALESCE({V}), NULLIF({V}, 'c16'), IFNULL({V}, 1)"}},
	{name: "@v IN / BETWEEN / LIKE / IS / comparison", sql: []string{"SELECT {V} IN ({V}, 'c16'), {V} BETWEEN {V} AND {V}, {V} LIKE 'c16', {V} IS NULL, {V} = {V}, {V} < 'c16'"}},
	{name: "conversion and string functions of @v", sql: []string{"SELECT STRING({V}), INTEGER({V}), FLOAT({V}), DATETIME({V}), BOOLEAN({V}), TERNARY({V}), UPPER({V}), TRIM({V}), LEN({V}), {V} || {V}"}, mayFail: true},
	{name: "INSERT VALUES (@v) into another table", sql: []string{"INSERT INTO sink VALUES ({V})", "DELETE FROM sink"}},
	{name: "UPDATE another table SET = @v", sql: []string{"UPDATE sink2 SET x = {V}", "UPDATE sink2 SET x = 'again' WHERE {V}"}},
	{name: "TRIGGER ERROR @v", sql: []string{"TRIGGER ERROR 9 {V}"}, mayFail: true},
	{name: "FETCH ABSOLUTE @v of another cursor", sql: []string{"FETCH ABSOLUTE {V} c16other INTO @e"}, mayFail: true},

	{name: "SELECT WHERE col", table: true, sql: []string{"SELECT * FROM {T} WHERE {C}"}},
	{name: "SELECT WHERE NOT col / col AND col", table: true, sql: []string{"SELECT * FROM {T} WHERE NOT {C}", "SELECT * FROM {T} WHERE {C} AND {C}", "SELECT * FROM {T} WHERE {C} OR {C}"}},
	{name: "SELECT GROUP BY col HAVING col", table: true, sql: []string{"SELECT {C} FROM {T} GROUP BY {C} HAVING {C}"}},
	{name: "SELECT JOIN ON col", table: true, sql: []string{"SELECT x.id FROM {T} x JOIN {T} y ON x.{C}", "SELECT x.id FROM {T} x LEFT JOIN other y ON x.{C}"}},
	{name: "SELECT IF(col) / CASE col / COALESCE(col)", table: true, sql: []string{"SELECT IF({C}, 1, 0), CASE {C} WHEN {C} THEN 1 ELSE 0 END, CASE WHEN {C} THEN 1 ELSE 0 END, COALESCE({C}), NULLIF({C}, 'c16'), IFNULL({C}, 1) FROM {T}"}},
	{name: "SELECT col comparisons", table: true, sql: []string{"SELECT {C} IN ({C}, 'c16'), {C} BETWEEN {C} AND {C}, {C} LIKE 'c16', {C} IS NULL, {C} = {C}, {C} < 'c16' FROM {T}"}},
	{name: "SELECT DISTINCT col ORDER BY col / analytic / aggregate", table: true, sql: []string{"SELECT DISTINCT {C} FROM {T} ORDER BY {C}", "SELECT {C}, RANK() OVER (PARTITION BY {C} ORDER BY {C}), FIRST_VALUE({C}) OVER (ORDER BY id), LAG({C}) OVER (ORDER BY id) FROM {T}", "SELECT MIN({C}), MAX({C}), COUNT({C}), COUNT(DISTINCT {C}), LISTAGG({C}, ',') FROM {T}"}, mayFail: true},
	{name: "SELECT LIMIT (subquery of col)", table: true, sql: []string{"SELECT id FROM other LIMIT (SELECT {C} FROM {T} WHERE id = 2)", "SELECT id FROM other LIMIT 1 OFFSET (SELECT {C} FROM {T} WHERE id = 2)"}, mayFail: true},
	{name: "SELECT WHERE col IN (subquery) / EXISTS / set operation", table: true, sql: []string{"SELECT id FROM {T} WHERE {C} IN (SELECT {C} FROM {T})", "SELECT id FROM {T} x WHERE EXISTS (SELECT 1 FROM {T} y WHERE y.{C})", "SELECT {C} FROM {T} UNION SELECT {C} FROM {T}", "SELECT {C} FROM {T} EXCEPT SELECT {C} FROM {T}", "SELECT {C} FROM {T} INTERSECT SELECT {C} FROM {T}"}},
	{name: "UPDATE WHERE col", table: true, sql: []string{"UPDATE {T} SET {S} = {S} || '!' WHERE {C}"}},
	{name: "UPDATE WHERE col + ROLLBACK", table: true, sql: []string{"UPDATE {T} SET {S} = {S} || '!' WHERE {C}", "ROLLBACK"}},
	{name: "UPDATE SET col = col", table: true, sql: []string{"UPDATE {T} SET {C} = {C}", "UPDATE {T} SET {S} = {C} WHERE id = 2"}},
	{name: "DELETE WHERE col", table: true, sql: []string{"DELETE FROM {T} WHERE {C}"}},
	{name: "DELETE WHERE NOT col + ROLLBACK", table: true, sql: []string{"DELETE FROM {T} WHERE NOT {C}", "ROLLBACK"}},
	{name: "INSERT SELECT WHERE col", table: true, sql: []string{"INSERT INTO sink SELECT {C} FROM {T} WHERE {C}", "DELETE FROM sink"}},
	{name: "second cursor WHERE col, walked and closed", table: true, sql: []string{"DECLARE c16c2 CURSOR FOR SELECT {C} FROM {T} WHERE {C}", "OPEN c16c2", "WHILE @e IN c16c2 DO PRINT @e; END WHILE", "CLOSE c16c2", "DISPOSE CURSOR c16c2"}},
}

var (
	c16rSrcNames   = []string{"temporary table", "file held for update", "file read before", "file not read before"}
	c16rChurnNames = []string{"none", "all types"}
)

const c16rRows = 6

func (k c16ReleasedCase) temp() bool { return k.Src == 0 }

func (k c16ReleasedCase) tbl() string {
	if k.temp() {
		return "tmp"
	}
	return "t"
}

func (k c16ReleasedCase) cols() []string {
	if k.temp() {
		return []string{"id", "s", "f", "d"}
	}
	return []string{"id", "v", "w", "z"}
}

func (k c16ReleasedCase) files() map[string]string {
	flags := []string{"1", "0", "true", "false", "1", ""}
	var t strings.Builder
	t.WriteString("id,v,w,z\n")
	for i := 1; i <= c16rRows; i++ {
		fmt.Fprintf(&t, "%d,v%d,%s,z%d\n", i, i, flags[i-1], i)
	}
	m := c16SharedCase{}.files()
	m["t.csv"] = t.String()
	return m
}

func (k c16ReleasedCase) prelude() []string {
	p := []string{
		"VAR @a, @b, @c, @d, @e",
		"DECLARE sink VIEW (x)",
		"DECLARE sink2 VIEW (x)",
		"INSERT INTO sink2 VALUES ('one'), ('two')",
		"PREPARE c16st FROM 'SELECT ?'",
		"PREPARE c16sn FROM 'SELECT :val'",
		"DECLARE c16f FUNCTION (@p) AS BEGIN RETURN 1; END",
		"DECLARE c16g FUNCTION (@p) AS BEGIN RETURN @p; END",
		"DECLARE c16agg AGGREGATE (list, @p) AS BEGIN RETURN @p; END",
		"DECLARE c16other CURSOR FOR SELECT id FROM other",
		"OPEN c16other",
	}
	switch k.Src {
	case 0:
		floats := []string{"0.0", "1.0", "2.5", "1.0", "0.0", "6.5"}
		p = append(p, "DECLARE tmp VIEW (id, s, f, d)")
		for i := 1; i <= c16rRows; i++ {
			p = append(p, fmt.Sprintf("INSERT INTO tmp VALUES (%d, 's%d', %s, DATETIME('2020-01-0%d 10:20:30'))", i, i, floats[i-1], i))
		}
		p = append(p, "COMMIT") // the state a later ROLLBACK restores
	case 1:
		p = append(p, "UPDATE t SET z = 'held' WHERE id = 1")
	case 2:
		p = append(p, "SELECT COUNT(*) FROM t")
	}
	return p
}

func (k c16ReleasedCase) declare() string {
	q := "SELECT * FROM " + k.tbl()
	if k.Query == 1 {
		q += " ORDER BY INTEGER(id) DESC"
	}
	return "DECLARE cur CURSOR FOR " + q
}

func (k c16ReleasedCase) describe() string {
	return fmt.Sprintf("%s; %s; after OPEN: %s; then allocations: %s; second walk: %s", c16rSrcNames[k.Src], k.declare(), c16rStmts[k.Stmt].name, c16rChurnNames[k.Churn], c16sWalkNames[k.Walk])
}

func c16rSubst(sql, v, col, tbl, scol string) string {
	return strings.NewReplacer("{V}", v, "{C}", col, "{T}", tbl, "{S}", scol).Replace(sql)
}

var c16rDebug = os.Getenv("C16_RELEASED_DEBUG") != ""

func c16ReleasedOne(c *core.Ctx, dir string, k c16ReleasedCase, verbose bool) {
	st := c16rStmts[k.Stmt]
	drv.ClearDir(dir)
	drv.WriteFiles(dir, k.files())
	poolTrack(true)
	defer poolTrack(false)
	x := &c16sRun{env: drv.New(dir), verbose: verbose}
	defer x.env.Close()
	if verbose {
		fmt.Println(k.describe())
	}
	class := c16sSrcClass[k.Src] + ":" + st.name
	fail := func() {
		c.Violate("released-values:harness:"+class, fmt.Sprintf("%s\na statement of the scenario itself failed: %s\n%s", k.describe(), x.harness, strings.Join(x.script, "\n")), k)
	}
	for _, p := range k.prelude() {
		if !x.must(p) {
			fail()
			return
		}
	}
	if !x.must(k.declare()) || !x.must("OPEN cur") {
		fail()
		return
	}
	n, ok := x.count()
	if !ok {
		fail()
		return
	}
	before, ok := x.walk(0, n)
	if !ok {
		fail()
		return
	}
	if n != c16rRows {
		c.Violate("released-values:"+class+":number of rows in the snapshot", fmt.Sprintf("%s\nthe table has %d rows, CURSOR cur COUNT is %d", k.describe(), c16rRows, n), k)
		return
	}
	distinct := map[string]bool{}
	for _, r := range before {
		distinct[r] = true
	}
	if len(distinct) != n || x.pooled != "" {
		what := "the first walk delivers a row twice"
		if x.pooled != "" {
			what = x.pooled
		}
		c.Violate("released-values:"+c16sSrcClass[k.Src]+":walk right after OPEN", fmt.Sprintf("%s\n%s: %v\n%s", k.describe(), what, before, strings.Join(x.script, "\n")), k)
		return
	}
	run := func(v, col string) bool {
		for _, s := range st.sql {
			sql := c16rSubst(s, v, col, k.tbl(), k.cols()[1])
			if st.mayFail {
				r := x.exec(sql)
				if r.Panic != nil {
					x.harness = fmt.Sprintf("%s: panic %v", sql, r.Panic)
					return false
				}
				if c16rDebug && r.Err != nil {
					if f, e := os.OpenFile(os.Getenv("C16_RELEASED_DEBUG"), os.O_APPEND|os.O_CREATE|os.O_WRONLY, 0644); e == nil {
						fmt.Fprintf(f, "%s | %s | %s | %v\n", c16rSrcNames[k.Src], st.name, sql, r.Err)
						f.Close()
					}
				}
			} else if !x.must(sql) {
				return false
			}
		}
		return true
	}
	if st.table {
		for _, col := range k.cols() {
			if !run("", col) {
				fail()
				return
			}
		}
	} else {
		for i := 0; i < n; i++ {
			if _, ok := x.fetch(fmt.Sprintf("ABSOLUTE %d", i)); !ok {
				fail()
				return
			}
			for _, v := range []string{"@a", "@b", "@c", "@d"} {
				if !run(v, "") {
					fail()
					return
				}
			}
		}
	}
	if k.Churn == 1 {
		for _, s := range (c16SharedCase{Churn: 4}).churn() {
			if !x.must(s) {
				fail()
				return
			}
		}
	}
	n2, ok := x.count()
	if !ok {
		fail()
		return
	}
	var after []string
	if n2 == n {
		if after, ok = x.walk(k.Walk, n); !ok {
			fail()
			return
		}
	}
	if n2 != n || strings.Join(after, "\n") != strings.Join(before, "\n") {
		c.Violate("released-values:"+class+": the open cursor no longer delivers the rows it delivered before the statement",
			fmt.Sprintf("%s\nrows (with IS IN RANGE) by position before the statement: %v (COUNT %d)\nrows by position after it:                              %v (COUNT %d)\n%s",
				k.describe(), before, n, after, n2, strings.Join(x.script, "\n")), k)
		return
	}
	if x.pooled != "" {
		c.Violate("released-values:"+class+": FETCH hands out a value object that sits in a value pool (released while the snapshot refers to it; the next allocation overwrites the row)",
			fmt.Sprintf("%s\n%s\n%s", k.describe(), x.pooled, strings.Join(x.script, "\n")), k)
	}
}

func c16ReleasedRun(c *core.Ctx) {
	dir := core.Scratch("c16released")
	var idx int64
	for src := range c16rSrcNames {
		for q := 0; q < 2; q++ {
			for st := range c16rStmts {
				if c.Expired() {
					c.Incomplete("time budget reached in family released-values")
					return
				}
				for ch := range c16rChurnNames {
					for w := range c16sWalkNames {
						if !c.Thorough() && (ch == 0) != (w == 0) {
							continue // quick: {no allocations, WHILE IN}, {all types, LAST + PRIOR}, {all types, ABSOLUTE i}
						}
						idx++
						if !c.Mine(idx) {
							continue
						}
						k := c16ReleasedCase{Family: "released-values", Src: src, Query: q, Stmt: st, Churn: ch, Walk: w}
						c16ReleasedOne(c, dir, k, false)
						c.EvalN(1, 1)
						c.Add("released_values_scenarios", 1)
						c.Add("fetched_rows_compared_with_snapshot", int64(c16rRows))
						if c.WantSample() && st == 0 && ch == 1 {
							c.Sample(map[string]any{"family": "released-values", "scenario": k.describe()})
						}
					}
				}
			}
		}
	}
}

func c16ReleasedReplay(c *core.Ctx, payload json.RawMessage) bool {
	var k c16ReleasedCase
	if json.Unmarshal(payload, &k) != nil || k.Family != "released-values" || k.Stmt < 0 || k.Stmt >= len(c16rStmts) {
		return false
	}
	fmt.Println("replaying family released-values")
	c16ReleasedOne(c, core.Scratch("c16released-replay"), k, true)
	return true
}
