package checks

import (
	"encoding/json"
	"fmt"
	"os"
	"path/filepath"
	"sort"
	"strings"

	"verif/harness/internal/core"
	"verif/harness/internal/drv"
)

// Family commit-swap-failure (C01): a COMMIT that fails while it puts the written tables in place. COMMIT first
// writes every changed table (created tables into their new files, existing tables into shadow files), then puts
// them in place one file after the other. When that second phase fails at one table - here: the shadow file of one
// changed table has been removed, the fault the ending CF of the base enumeration produces with an external command -
// the transaction ends by an error, and "every table file and temporary table is exactly as it was at the most recent
// COMMIT and files created since then do not exist". The order in which the tables are put in place comes out of map
// walks, so every case runs under sorted map order, every single-range deviation of it and descending order.
//
// Enumerated: transactions that create any subset of {n1, n2} (CREATE TABLE + INSERT) and update any non-empty subset of
// {t, u, x} (oddly spelled CSV files), creations before or after the updates, with or without a change of a temporary
// table; every updated table as the one whose shadow file is lost.
//
// Oracle: a COMMIT that reports an error (followed by what the CLI does at an error: automatic rollback, release) leaves
// every file byte-identical to the start, no created table, no control file, and the temporary table as at the most
// recent COMMIT; a COMMIT that reports success has left exactly what the undisturbed COMMIT leaves.
const c01SwapFailRule = "family commit-swap-failure: transactions creating any subset of 2 tables and updating any non-empty subset of 3 oddly spelled CSV tables (creations first or last, with or without a changed temporary table) whose COMMIT fails because the shadow file of one updated table (each in turn) is gone, " +
	"under sorted map order, every single-range deviation and descending order; oracle: an error means every file byte-identical to the start, no created table, no control file, the temporary table as at the last COMMIT; success means the files of the undisturbed COMMIT"

func init() {
	core.Extend("C01", c01SwapFailRule, c01SwapFailRun)
}

type c01SwapFailCase struct {
	Family       string   `json:"family"`
	Created      []string `json:"created"`
	Updated      []string `json:"updated"`
	CreatesFirst bool     `json:"creations_first"`
	Temp         bool     `json:"temporary_table_changed"`
	Victim       string   `json:"shadow_file_lost"` // "" = the undisturbed COMMIT
	MapOrder     string   `json:"map_order,omitempty"`
}

var c01SwapFailFiles = map[string]string{
	"t.csv": "\"id\",\"v\"\n\"1\",\"t1\"\n2,\"t2\"\n",
	"u.csv": "id,\"v\"\n1,\"u1\"\n\"2\",u2\n",
	"x.csv": "\"id\",v\n1,x1\n\"2\",\"x2\"\n",
	"k.csv": "\"id\",\"v\"\n1,\"k1\"\n",
}

func (k c01SwapFailCase) program() string {
	var cr, up strings.Builder
	for _, n := range k.Created {
		fmt.Fprintf(&cr, "CREATE TABLE `%s.csv` (c1, c2); INSERT INTO %s VALUES (1, 'new'); ", n, n)
	}
	for _, t := range k.Updated {
		fmt.Fprintf(&up, "UPDATE %s SET v = '%s!'; ", t, strings.ToUpper(t))
	}
	prog := "DECLARE w VIEW (id); INSERT INTO w VALUES (1); COMMIT; "
	if k.CreatesFirst {
		prog += cr.String() + up.String()
	} else {
		prog += up.String() + cr.String()
	}
	if k.Temp {
		prog += "INSERT INTO w VALUES (2); "
	}
	return strings.TrimSpace(prog)
}

// c01SwapFailOne runs one case; with Victim == "" it returns the directory the undisturbed COMMIT leaves.
func c01SwapFailOne(c *core.Ctx, dir string, k c01SwapFailCase, want map[string]string) map[string]string {
	setProcOrder(k.MapOrder, true)
	defer func() {
		c01SwapFailCount = procCalls() // the map ranges (over two or more keys) this run made
		setProcOrder("", false)
	}()
	drv.ClearDir(dir)
	drv.WriteFiles(dir, c01SwapFailFiles)
	env := drv.New(dir)
	env.Tx.Flags.SetQuiet(true)
	prog := k.program()
	if r := env.Exec(prog); r.Err != nil || r.Panic != nil {
		env.Close()
		c.Incomplete(fmt.Sprintf("family commit-swap-failure: the transaction %q was refused: %v %v", prog, r.Err, r.Panic))
		return nil
	}
	if k.Victim != "" {
		shadow := filepath.Join(dir, "."+k.Victim+".csv.temp")
		if _, err := os.Stat(shadow); err != nil {
			env.Close()
			c.Incomplete("family commit-swap-failure: no shadow file " + shadow + " before COMMIT; the fault cannot be produced")
			return nil
		}
		os.Remove(shadow)
	}
	r := env.Exec("COMMIT;")
	where := fmt.Sprintf("transaction %q, shadow file of %s removed, then COMMIT (map order %q)", prog, k.Victim, k.MapOrder)
	seen := map[string]bool{}
	violate := func(problem, msg string) {
		sig := "commit-swap-failure:" + problem
		if !seen[sig] {
			seen[sig] = true
			c.Violate(sig, where+": "+msg, k)
		}
	}
	if r.Panic != nil {
		env.Close()
		if k.Victim == "" {
			c.Incomplete(fmt.Sprintf("family commit-swap-failure: the undisturbed COMMIT of %q panicked: %v", prog, r.Panic))
			return nil
		}
		violate("panic", fmt.Sprint("csvq panicked: ", r.Panic))
		return nil
	}
	// what the CLI does when a procedure ends: automatic rollback (a no-op after a successful COMMIT), then the release
	func() {
		defer func() {
			if p := recover(); p != nil {
				violate("panic", fmt.Sprint("csvq panicked in AutoRollback: ", p))
			}
		}()
		_ = env.Proc.AutoRollback()
	}()
	wRows := "unreadable"
	if r2 := env.Exec("SELECT id FROM w"); r2.Err == nil && r2.Panic == nil && len(r2.Views) == 1 {
		wRows = viewTable(r2.Views[0]).Key()
	}
	env.Close()
	snap := drv.DirSnapshot(dir)
	if k.Victim == "" {
		if r.Err != nil {
			c.Incomplete(fmt.Sprintf("family commit-swap-failure: the undisturbed COMMIT of %q failed: %v", prog, r.Err))
			return nil
		}
		return snap
	}
	c.EvalN(1, 1)
	c.Add("commit_swap_failure_family_runs", 1)
	if r.Err == nil {
		c.Observe("commit_swap_failure_family_outcomes", "success reported")
		if fmt.Sprint(sortedMap(snap)) != fmt.Sprint(sortedMap(want)) {
			violate("success-reported:files-are-not-those-of-the-complete-commit", fmt.Sprintf("COMMIT reported success; the directory holds %q, the undisturbed COMMIT leaves %q", sortedMap(snap), sortedMap(want)))
		}
		return snap
	}
	c.Observe("commit_swap_failure_family_outcomes", "error reported")
	names := make([]string, 0, len(snap))
	for n := range snap {
		names = append(names, n)
	}
	sort.Strings(names)
	for _, n := range names {
		was, existed := c01SwapFailFiles[n]
		switch {
		case existed && snap[n] == was:
		case existed && snap[n] == want[n]:
			violate("error-reported:a-table-put-in-place-before-the-failure-keeps-its-new-contents", fmt.Sprintf("COMMIT returned %q, yet %s holds the new contents %q", r.Err, n, snap[n]))
		case existed:
			violate("error-reported:file-neither-old-nor-new", fmt.Sprintf("COMMIT returned %q; %s holds %q, before the transaction %q", r.Err, n, snap[n], was))
		case fileClass(n) == "control-file":
			violate("error-reported:control-file-left", fmt.Sprintf("COMMIT returned %q; the directory holds %s", r.Err, n))
		default:
			violate("error-reported:created-table-kept", fmt.Sprintf("COMMIT returned %q, yet %s, created by the failed transaction, exists (%q)", r.Err, n, snap[n]))
		}
	}
	for n := range c01SwapFailFiles {
		if _, ok := snap[n]; !ok {
			violate("error-reported:file-missing", fmt.Sprintf("COMMIT returned %q; %s is gone", r.Err, n))
		}
	}
	if wRows != "id[1]" {
		violate("error-reported:temporary-table-not-as-at-the-last-commit", fmt.Sprintf("COMMIT returned %q; after the automatic rollback the temporary table w reads %s, at the last COMMIT id[1]", r.Err, wRows))
	}
	return snap
}

// c01SwapFailRan: like the family multi-table this one is called first by c01Run; the call registered with core.Extend is then a no-op.
var c01SwapFailRan bool

func c01SwapFailRun(c *core.Ctx) {
	if c01SwapFailRan || c01FamilyOff("commit-swap-failure") {
		return
	}
	c01SwapFailRan = true
	dir := core.Scratch("c01swapfail")
	var idx int64
	for _, created := range append([][]string{nil}, c01MTSubsets([]string{"n1", "n2"})...) {
		for _, updated := range c01MTSubsets([]string{"t", "u", "x"}) {
			for _, victim := range updated {
				for _, first := range []bool{true, false} {
					if !first && len(created) == 0 {
						continue
					}
					for _, temp := range []bool{false, true} {
						idx++
						if !c.Mine(idx) {
							continue
						}
						if c.Expired() {
							c.Incomplete("time budget reached in family commit-swap-failure")
							return
						}
						c01SwapFailCaseOrders(c, dir, c01SwapFailCase{Family: "commit-swap-failure", Created: created, Updated: updated, CreatesFirst: first, Temp: temp, Victim: victim})
					}
				}
			}
		}
	}
	if c.Shard == 0 {
		c.Add("commit_swap_failure_family_transactions", idx)
	}
}

// c01SwapFailCaseOrders: sorted order, each map range of the COMMIT deviating (every permutation of up to 3 keys), descending order.
func c01SwapFailCaseOrders(c *core.Ctx, dir string, k c01SwapFailCase) {
	ref := k
	ref.Victim, ref.MapOrder = "", ""
	want := c01SwapFailOne(c, dir, ref, nil)
	if want == nil {
		return
	}
	if k.MapOrder != "" { // replay of one order
		c01SwapFailOne(c, dir, k, want)
		return
	}
	n := c01SwapFailRanges(c, dir, k, want)
	if n == 0 {
		return // no overlay: Go's own order only
	}
	perms := 1
	if len(k.Created)+len(k.Updated) > 2 {
		perms = 5
	}
	for j := int64(1); j <= n && j <= 60; j++ {
		for p := 1; p <= perms; p++ {
			k2 := k
			k2.MapOrder = fmt.Sprintf("%d:%d", j, p)
			c01SwapFailOne(c, dir, k2, want)
		}
	}
	k2 := k
	k2.MapOrder = "rev"
	c01SwapFailOne(c, dir, k2, want)
	c.Max("max_map_ranges_in_a_commit_swap_failure_run", n)
	if n > 60 {
		c.Incomplete(fmt.Sprintf("family commit-swap-failure: a run made %d map ranges, deviations were enumerated for the first 60", n))
	}
}

// c01SwapFailRanges runs the case under sorted order and returns the number of map ranges (over two or more keys) it made.
func c01SwapFailRanges(c *core.Ctx, dir string, k c01SwapFailCase, want map[string]string) int64 {
	c01SwapFailOne(c, dir, k, want)
	return c01SwapFailCount
}

var c01SwapFailCount int64

func c01SwapFailReplay(c *core.Ctx, payload json.RawMessage) bool {
	var k c01SwapFailCase
	if json.Unmarshal(payload, &k) != nil || k.Family != "commit-swap-failure" {
		return false
	}
	fmt.Printf("replaying family commit-swap-failure: %+v\n%s\n", k, k.program())
	c01SwapFailCaseOrders(c, core.Scratch("c01swapfail-replay"), k)
	return true
}
