package checks

// C19, part (d) without fault injection: statements under file-system conditions that exist without any
// interposition — missing file, directory in place of a file, ambiguous name, working directory removed
// (relative repository), repository that is a file / does not exist, dangling and looping symbolic links,
// a path component that is a file, an over-long name.

import (
	"fmt"
	"os"
	"path/filepath"
	"strings"
	"time"
)

type c19Cond struct {
	id        string
	names     []string // object names the statements are instantiated with
	shortWait bool     // the condition makes csvq wait for a lock: the wait time-out is 50 ms
	// setup prepares dir (fresh, empty) and returns the repository to use and a cleanup
	setup func(dir string) (repo string, cleanup func())
}

var c19Conds = []c19Cond{
	{id: "missing-file", names: []string{"nosuch", "sub/nosuch"}, setup: func(dir string) (string, func()) { return dir, nil }},
	{id: "directory-in-place-of-file", names: []string{"d", "e"}, setup: func(dir string) (string, func()) {
		for _, n := range []string{"d.csv", "d.json", "d.sql", "d.txt", "e"} {
			os.Mkdir(filepath.Join(dir, n), 0755)
		}
		return dir, nil
	}},
	{id: "ambiguous-name", names: []string{"t"}, setup: func(dir string) (string, func()) {
		os.WriteFile(filepath.Join(dir, "t.csv"), []byte("c1\n1\n"), 0644)
		os.WriteFile(filepath.Join(dir, "t.tsv"), []byte("c1\n2\n"), 0644)
		os.WriteFile(filepath.Join(dir, "t.json"), []byte(`[{"c1":3}]`), 0644)
		return dir, nil
	}},
	{id: "cwd-removed", names: []string{"t"}, setup: func(dir string) (string, func()) { return c19RemoveCwd(dir, "") }},
	{id: "cwd-removed-repo-dot", names: []string{"t"}, setup: func(dir string) (string, func()) { return c19RemoveCwd(dir, ".") }},
	{id: "cwd-removed-repo-sub", names: []string{"t"}, setup: func(dir string) (string, func()) { return c19RemoveCwd(dir, "sub") }},
	{id: "repository-is-a-file", names: []string{"t"}, setup: func(dir string) (string, func()) {
		p := filepath.Join(dir, "repo")
		os.WriteFile(p, []byte("c1\n1\n"), 0644)
		return p, nil
	}},
	{id: "repository-missing", names: []string{"t"}, setup: func(dir string) (string, func()) { return filepath.Join(dir, "no", "such", "repo"), nil }},
	{id: "dangling-symlink", names: []string{"t"}, setup: func(dir string) (string, func()) {
		for _, e := range []string{".csv", ".json", ".sql"} {
			os.Symlink(filepath.Join(dir, "nowhere"+e), filepath.Join(dir, "t"+e))
		}
		return dir, nil
	}},
	{id: "symlink-loop", names: []string{"t"}, setup: func(dir string) (string, func()) {
		for _, e := range []string{".csv", ".json", ".sql"} {
			os.Symlink("t"+e, filepath.Join(dir, "t"+e))
		}
		return dir, nil
	}},
	{id: "path-component-is-a-file", names: []string{"f.csv/t", "f.csv/"}, setup: func(dir string) (string, func()) {
		os.WriteFile(filepath.Join(dir, "f.csv"), []byte("c1\n1\n"), 0644)
		return dir, nil
	}},
	{id: "stale-lock-files", shortWait: true, names: []string{"t"}, setup: func(dir string) (string, func()) {
		for n, b := range map[string]string{"t.csv": "c1\n1\n", "t.json": `[{"c1":1}]`, "t.jsonl": "{\"c1\":1}\n", "t.txt": "c1\n1 \n", "t.sql": "SELECT 1;"} {
			os.WriteFile(filepath.Join(dir, n), []byte(b), 0644)
			os.WriteFile(filepath.Join(dir, "."+n+".lock"), nil, 0644)
		}
		return dir, nil
	}},
	{id: "stale-temp-files", shortWait: true, names: []string{"t"}, setup: func(dir string) (string, func()) {
		for n, b := range map[string]string{"t.csv": "c1\n1\n", "t.json": `[{"c1":1}]`, "t.jsonl": "{\"c1\":1}\n", "t.txt": "c1\n1 \n"} {
			os.WriteFile(filepath.Join(dir, n), []byte(b), 0644)
			os.WriteFile(filepath.Join(dir, "."+n+".temp"), nil, 0644)
		}
		return dir, nil
	}},
	{id: "stale-read-lock-files", shortWait: true, names: []string{"t"}, setup: func(dir string) (string, func()) {
		for n, b := range map[string]string{"t.csv": "c1\n1\n", "t.json": `[{"c1":1}]`, "t.jsonl": "{\"c1\":1}\n", "t.txt": "c1\n1 \n"} {
			os.WriteFile(filepath.Join(dir, n), []byte(b), 0644)
			os.WriteFile(filepath.Join(dir, "."+n+".abcdefghijkl.rlock"), nil, 0644)
		}
		return dir, nil
	}},
	{id: "file-sourcing-itself", names: []string{"t"}, setup: func(dir string) (string, func()) {
		os.WriteFile(filepath.Join(dir, "t.sql"), []byte("SOURCE `t.sql`;\n"), 0644)
		os.WriteFile(filepath.Join(dir, "t"), []byte("SOURCE `u.sql`;\n"), 0644)
		os.WriteFile(filepath.Join(dir, "u.sql"), []byte("SOURCE `t`;\n"), 0644)
		os.Chdir(dir) // SOURCE resolves a relative path against the working directory
		return dir, func() { os.Chdir("/") }
	}},
	{id: "name-too-long", names: []string{strings.Repeat("n", 300)}, setup: func(dir string) (string, func()) { return dir, nil }},
}

func c19RemoveCwd(dir, repo string) (string, func()) {
	gone := filepath.Join(dir, "gone")
	os.Mkdir(gone, 0755)
	if err := os.Chdir(gone); err != nil {
		panic(err)
	}
	if err := os.Remove(gone); err != nil {
		panic(err)
	}
	return repo, func() { os.Chdir("/") }
}

// %s = object name
var c19FSStatements = []string{
	"SELECT * FROM `%s`",
	"SELECT * FROM `%s.csv`",
	"SELECT * FROM `%s` a JOIN `%s` b ON TRUE",
	"SELECT * FROM FILE::('%s')",
	"SELECT * FROM INLINE::('%s.csv')",
	"SELECT * FROM CSV(',', `%s`)",
	"SELECT * FROM CSV(',', `%s.csv`, 'SJIS', TRUE, TRUE)",
	"SELECT * FROM JSON('', `%s.json`)",
	"SELECT * FROM JSON('', `%s`)",
	"SELECT * FROM JSONL('', `%s.jsonl`)",
	"SELECT * FROM LTSV(`%s.csv`)",
	"SELECT * FROM FIXED('[1]', `%s.txt`)",
	"SELECT * FROM FIXED('SPACES', `%s`)",
	"SELECT * FROM CSV_INLINE(',', `%s.csv`)",
	"SELECT * FROM JSON_INLINE('', `%s.json`)",
	"SELECT * FROM file:./%s.csv",
	"SELECT (SELECT COUNT(*) FROM `%s`)",
	"INSERT INTO `%s` VALUES (1)",
	"INSERT INTO `%s.csv` (c1) SELECT 1",
	"UPDATE `%s` SET c1 = 1",
	"DELETE FROM `%s`",
	"REPLACE INTO `%s` (c1) USING (c1) VALUES (1)",
	"ALTER TABLE `%s` ADD z",
	"ALTER TABLE `%s.csv` SET FORMAT TO 'JSON'",
	"CREATE TABLE `%s.csv` (a, b)",
	"CREATE TABLE `%s.csv` (a, b); INSERT INTO `%s.csv` VALUES (1, 2); SELECT * FROM `%s.csv`; COMMIT;",
	"CREATE TABLE IF NOT EXISTS `%s.csv` (a, b); COMMIT;",
	"CREATE TABLE `%s.json` AS SELECT 1 AS a; COMMIT;",
	"CREATE TABLE `new-%s.csv` (a); COMMIT;",
	"SHOW FIELDS FROM `%s`",
	"SOURCE `%s.sql`",
	"SOURCE `%s`",
	"CHDIR '%s'; PWD; SELECT * FROM `%s`;",
	"CHDIR '%s.csv'",
	"SHOW TABLES; SHOW FLAGS; SHOW RUNINFO; PWD; SELECT @#WORKING_DIRECTORY;",
	"SET @@REPOSITORY TO '%s'; SELECT * FROM `%s`;",
	"SET @@REPOSITORY TO '%s.csv'; SHOW @@REPOSITORY;",
	"SET @@REPOSITORY TO ''; SELECT * FROM `%s`; CREATE TABLE `x.csv` (a); COMMIT;",
	"RELOAD CONFIG",
}

func c19FSCases() []c19Case {
	var out []c19Case
	for _, cond := range c19Conds {
		for _, name := range cond.names {
			for _, st := range c19FSStatements {
				if !strings.Contains(st, "%s") && name != cond.names[0] {
					continue
				}
				out = append(out, c19Case{Fam: "fs", Cond: cond.id, Stmt: strings.ReplaceAll(st, "%s", name)})
			}
		}
	}
	return out
}

func c19EnumFS(r *c19Runner) {
	cases := c19FSCases()
	r.c.Info("fs_conditions", len(c19Conds))
	r.c.Info("fs_cases", len(cases))
	for i := range cases {
		if !r.c.Mine(int64(i)) {
			continue
		}
		if r.expired() {
			return
		}
		cs := cases[i]
		if r.step(&cs) {
			r.exec(&cs)
		}
	}
}

func (r *c19Runner) execFS(cs *c19Case) {
	var cond *c19Cond
	for i := range c19Conds {
		if c19Conds[i].id == cs.Cond {
			cond = &c19Conds[i]
		}
	}
	if cond == nil {
		fmt.Fprintln(os.Stderr, "C19: unknown file-system condition", cs.Cond)
		return
	}
	dir := filepath.Join(r.dir, "fs")
	os.RemoveAll(dir)
	os.MkdirAll(dir, 0755)
	repo, cleanup := cond.setup(dir)
	r.newEnv()
	r.env.Tx.Flags.Repository = repo
	if cond.shortWait {
		r.env.Tx.UpdateWaitTimeout(0.05, 5*time.Millisecond)
	}
	defer func() {
		r.closeEnv()
		if cleanup != nil {
			cleanup()
		}
		os.Chdir("/")
		time.Local = time.UTC
		os.RemoveAll(dir)
		r.newEnv()
	}()
	_, err, pnc := r.runText(cs.Stmt)
	out := r.judge(cs, "statement", err, pnc, false)
	// the end of the process: csvq rolls back and releases its files
	func() {
		defer func() {
			if p := recover(); p != nil {
				r.judge(cs, "release", nil, p, false)
			}
		}()
		if e := r.env.Proc.AutoRollback(); e != nil {
			r.judge(cs, "release", e, nil, false)
		}
		if e := r.env.Proc.ReleaseResourcesWithErrors(); e != nil {
			r.judge(cs, "release", e, nil, false)
		}
	}()
	r.c.Observe("fs_outcomes", cs.Cond+":"+out)
	r.evalN(1, 1)
	if r.verbose {
		fmt.Printf("  [%s] %s\n  err=%v panic=%v\n", cs.Cond, cs.Stmt, err, pnc)
	}
	if r.wantSample() && err != nil && out != "fatal" && (cs.Cond == "ambiguous-name" || cs.Cond == "directory-in-place-of-file") {
		r.sample(map[string]any{"family": "fs", "condition": cs.Cond, "statement": cs.Stmt, "outcome": err.Error()})
	}
}
