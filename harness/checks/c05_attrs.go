package checks

import (
	"strings"

	"verif/harness/internal/core"
)

// C05's committed files: what a data-changing statement + COMMIT writes is the table, in the table's own layout,
// whatever the session flags say (the family is C01's attributes family: 10 layouts x 4 statements x flags x ALTER SET).
//
// The cases that delete every row of the LTSV table or of the CSV table without a header line are left to C05's family
// layouts: such a file without a record has no place for the column names (nor for their number), which that family's
// oracle knows and the attributes oracle (written when csvq refused to commit such a table at all) does not.
func init() {
	core.Extend("C05", "committed files under session flags and changed table attributes ("+c01AttrRule+")", func(c *core.Ctx) {
		dir := core.Scratch("c01attr-C05")
		for i, k := range c01AttrCases() {
			if !c.Mine(int64(i)) {
				continue
			}
			if (k.Table == "ltsv" || k.Table == "csv-no-header") && strings.Contains(k.Prog, "DELETE FROM "+c01AttrTableOf(k.Table).Expr+";") {
				continue
			}
			if c.Expired() {
				c.Incomplete("time budget reached in family attributes")
				return
			}
			c01AttrOne(c, dir, k)
		}
	})
}
