package checks

import "verif/harness/internal/core"

// C05's committed files: what a data-changing statement + COMMIT writes is the table, in the table's own layout,
// whatever the session flags say (the family is C01's attributes family: 10 layouts x 4 statements x flags x ALTER SET).
func init() {
	core.Extend("C05", "committed files under session flags and changed table attributes ("+c01AttrRule+")", func(c *core.Ctx) { c01AttrRun(c, "C05") })
}
