package checks

import (
	"encoding/json"
	"fmt"
	"strings"

	"verif/harness/internal/core"
	"verif/harness/internal/drv"
	"verif/harness/internal/rv"
)

// Extra family for C15: the place a function is called from. "Every function invocation has its own parameters and
// locals": what the body of a function sees - its own declarations first, then the objects of the blocks around its
// declaration, then files - does not depend on the query that happens to call it. The same call is evaluated by
// PRINT (the reference) and from inside queries whose WITH clauses, table aliases, cursors and cached files carry
// the names the body uses; every one of them must give the value the function written out in Go gives.
func init() {
	core.Extend("C15", "family context: 9 functions whose bodies read files, views of the global block, local views, local cursors and aliases x 14 calling contexts (PRINT, plain SELECT, queries with WITH clauses / aliases / "+
		"cursors / recursive tables that carry the names the body uses, nested functions, WHERE / HAVING / ORDER BY / join conditions); oracle: the value of the call is the same everywhere and equals the function written out in Go", c15ContextRun)
}

const c15CtxSetup = "DECLARE gv VIEW (v) AS SELECT 50 UNION ALL SELECT 60;\n" +
	// reads the file w.csv
	"DECLARE f1 FUNCTION (@k) AS BEGIN RETURN (SELECT v FROM w WHERE v > @k ORDER BY v LIMIT 1); END;\n" +
	// a local view named like the file the callers read
	"DECLARE f2 FUNCTION (@k) AS BEGIN DECLARE t VIEW (n) AS SELECT @k + 1000; RETURN (SELECT n FROM t); END;\n" +
	// a local view named like the file w.csv and like the callers' inline tables
	"DECLARE f3 FUNCTION (@k) AS BEGIN DECLARE w VIEW (v) AS SELECT @k * 100; RETURN (SELECT v FROM w); END;\n" +
	// the view of the global block
	"DECLARE f4 FUNCTION (@k) AS BEGIN RETURN (SELECT MAX(v) FROM gv) + @k; END;\n" +
	// the file t.csv under the alias the callers use
	"DECLARE f5 FUNCTION (@k) AS BEGIN RETURN (SELECT COUNT(*) FROM t x WHERE x.a <= @k); END;\n" +
	// a local cursor named like the callers' cursor, a local variable named like the callers' variable
	"DECLARE f6 FUNCTION (@k) AS BEGIN DECLARE cur CURSOR FOR SELECT a FROM t WHERE a >= @k ORDER BY a; OPEN cur; VAR @v; FETCH cur INTO @v; CLOSE cur; RETURN @v * 7; END;\n" +
	// an inline table of its own named like the callers' inline tables
	"DECLARE f7 FUNCTION (@k) AS BEGIN RETURN (WITH w (v) AS (SELECT @k + 5) SELECT v FROM w); END;\n" +
	// calls another function that reads w
	"DECLARE f8 FUNCTION (@k) AS BEGIN RETURN f1(@k) + f3(@k); END;\n" +
	// a subquery over a derived table named like the callers' alias
	"DECLARE f9 FUNCTION (@k) AS BEGIN RETURN (SELECT SUM(x.v) FROM (SELECT v FROM w WHERE v < 30) x) + @k; END;\n"

var c15CtxFiles = map[string]string{"t.csv": "a,b\n1,p\n2,q\n3,r\n", "w.csv": "v\n10\n20\n30\n"}

// the functions written out (k = 2)
var c15CtxFuncs = []struct{ call, want string }{
	{"f1(2)", "10"}, {"f2(2)", "1002"}, {"f3(2)", "200"}, {"f4(2)", "62"}, {"f5(2)", "2"}, {"f6(2)", "14"}, {"f7(2)", "7"}, {"f8(2)", "210"}, {"f9(2)", "32"},
}

// calling contexts: $F is the call; the value is the first cell of the last result (or the printed line)
var c15CtxContexts = []struct{ name, sql string }{
	{"print", "PRINT $F;"},
	{"select-dual", "SELECT $F FROM DUAL;"},
	{"with-w", "WITH w (v) AS (SELECT 999) SELECT $F FROM DUAL;"},
	{"with-w-read-after", "WITH w (v) AS (SELECT 999) SELECT $F, (SELECT v FROM w) FROM DUAL;"},
	{"with-t-and-gv", "WITH t (n) AS (SELECT 777), gv (v) AS (SELECT 888) SELECT $F FROM t;"},
	{"from-file-t-alias-x", "SELECT $F FROM t x WHERE x.a = 2;"},
	{"from-file-w-alias-t", "SELECT $F FROM w t WHERE t.v = 20;"},
	{"where", "SELECT $F FROM t WHERE a = 2 AND $F = $F;"},
	{"nested-subquery-with", "WITH w (v) AS (SELECT 999) SELECT (SELECT (SELECT $F FROM DUAL) FROM w) FROM t LIMIT 1;"},
	{"recursive-w", "WITH RECURSIVE w (v) AS (SELECT 1 UNION ALL SELECT v + 1 FROM w WHERE v < 3) SELECT $F FROM w ORDER BY v DESC LIMIT 1;"},
	{"join-on", "SELECT $F FROM t JOIN w x ON x.v = t.a * 10 AND $F IS NOT NULL ORDER BY t.a LIMIT 1;"},
	{"group-having-order", "SELECT MAX($F) FROM t GROUP BY b HAVING MAX($F) IS NOT NULL ORDER BY MAX($F), b LIMIT 1;"},
	{"cursor-named-cur", "DECLARE cur CURSOR FOR WITH w (v) AS (SELECT 999) SELECT $F FROM w; OPEN cur; VAR @v; FETCH cur INTO @v; PRINT @v; CLOSE cur;"},
	{"inside-function-called-from-with", "DECLARE outerf FUNCTION () AS BEGIN VAR @k := 9; RETURN $F; END; WITH w (v) AS (SELECT 999) SELECT outerf() FROM DUAL;"},
}

type c15CtxCase struct {
	Family  string `json:"family"`
	Call    string `json:"call"`
	Want    string `json:"want"`
	Context string `json:"context"`
	SQL     string `json:"sql"`
	Prime   bool   `json:"prime,omitempty"` // the callers' tables were read by an earlier statement of the session
}

func c15CtxOne(c *core.Ctx, dir string, k c15CtxCase) {
	drv.ClearDir(dir)
	drv.WriteFiles(dir, c15CtxFiles)
	env := drv.NewText(dir)
	env.Tx.Flags.SetQuiet(true)
	defer env.Close()
	if r := env.Exec(c15CtxSetup); r.Err != nil || r.Panic != nil {
		c.Violate("harness:context-setup", fmt.Sprint(r.Err, r.Panic), k)
		return
	}
	if k.Prime {
		env.Exec("SELECT * FROM t; SELECT * FROM w;")
	}
	r := env.Exec(k.SQL)
	got := ""
	if n := len(r.Views); n > 0 {
		rows := drv.Rows(r.Views[n-1])
		if len(rows) > 0 && len(rows[0]) > 0 {
			switch v := rows[0][0]; v.K {
			case rv.Int:
				got = fmt.Sprint(v.I)
			case rv.Float:
				got = fmt.Sprint(v.F)
			case rv.Str:
				got = v.S
			default:
				got = v.Key()
			}
		}
	} else {
		lines := strings.Split(strings.TrimSpace(r.Out), "\n")
		got = strings.Trim(strings.TrimSpace(lines[len(lines)-1]), "'")
	}
	c.Eval("context|"+k.Call+"|"+k.Context+fmt.Sprint(k.Prime), k.Context != "print")
	if r.Err != nil || r.Panic != nil || got != k.Want {
		c.Violate("context:"+strings.SplitN(k.Call, "(", 2)[0]+":"+k.Context, fmt.Sprintf("%s evaluated by %q gives %q (err=%v panic=%v); the function written out gives %s (and so does PRINT %s)\n%s", k.Call, k.SQL, got, r.Err, r.Panic, k.Want, k.Call, c15CtxSetup), k)
	}
}

func c15ContextRun(c *core.Ctx) {
	if c15Skip(c, "context") {
		return
	}
	dir := core.Scratch("c15context")
	var idx int64
	for _, f := range c15CtxFuncs {
		for _, ctx := range c15CtxContexts {
			for _, prime := range []bool{false, true} {
				idx++
				if !c.Mine(idx) {
					continue
				}
				call := f.call
				if ctx.name == "inside-function-called-from-with" {
					// the inner call takes its argument from the outer function's local variable, which shadows nothing
					call = strings.Replace(call, "(2)", "(@k - 7)", 1)
				}
				k := c15CtxCase{Family: "context", Call: f.call, Want: f.want, Context: ctx.name, SQL: strings.ReplaceAll(ctx.sql, "$F", call), Prime: prime}
				c15CtxOne(c, dir, k)
				if c.WantSample() {
					c.Sample(k)
				}
			}
		}
	}
}

func c15ContextReplay(c *core.Ctx, payload json.RawMessage) bool {
	var k c15CtxCase
	if json.Unmarshal(payload, &k) != nil || k.Family != "context" {
		return false
	}
	fmt.Printf("replaying family context: %s in %s\n", k.Call, k.Context)
	c15CtxOne(c, core.Scratch("c15context-replay"), k)
	return true
}
