package checks

import (
	"strings"

	"verif/harness/internal/core"
)

// Extra family for C17: two analytic calls in one SELECT whose texts differ only INSIDE a string literal that holds
// quote characters or backslashes, over the ways such a literal can be written: '...' with \' (or ''), "..." with \",
// the other quote character unescaped, \\ for a backslash. csvq finds "the same call" by the text it prints for it and
// compares that text case-insensitively outside string literals only, so where it thinks a literal ends decides
// whether two calls are one. The family twin-calls has literals of letters only.
//
// Differential oracle (as in twin-calls): every call of the SELECT returns the column it returns in a SELECT of its
// own (Strings of the manual: both quoting styles denote the same string, a backslash escapes the following character).
func init() {
	core.Extend("C17", "family quoted-twins: literal contents of 1..2 characters over {a, A, ', \", \\} and of 3 characters over {a, A, '} (thorough: 1..3 over all five), every pair of contents that differ in exactly one position "+
		"and every content written in two styles, each literal written as '..' with backslash escapes, as '..' with a doubled apostrophe and as \"..\", x 4 call forms (LISTAGG separator, LAG default, FIRST_VALUE and MAX of v || literal) x 2 tables, "+
		"both calls in the select list or the second as ORDER BY key; oracle: each call's column (and the row order) equals that of the call alone", c17QuotedRun)
}

var c17QuotedForms = []string{
	"LISTAGG(v, %s) OVER (ORDER BY id)",
	"LAG(v, 1, %s) OVER (PARTITION BY p ORDER BY id)",
	"FIRST_VALUE(v || %s) OVER (PARTITION BY p ORDER BY id DESC)",
	"MAX(v || %s) OVER (PARTITION BY p)",
}

var c17QuotedTables = []string{
	"id,p,v\n1,1,a\n2,1,B\n3,2,b\n",
	"id,p,v\n1,1,b\n2,1,\n",
}

// c17QuotedSpell writes the string s as a literal: style 0 = '..' with \' , 1 = '..' with '' , 2 = "..".
func c17QuotedSpell(s string, style int) string {
	var sb strings.Builder
	q := byte('\'')
	if style == 2 {
		q = '"'
	}
	sb.WriteByte(q)
	for i := 0; i < len(s); i++ {
		ch := s[i]
		switch {
		case ch == '\\':
			sb.WriteString("\\\\")
		case ch == q && style == 1:
			sb.WriteByte(q)
			sb.WriteByte(q)
		case ch == q:
			sb.WriteByte('\\')
			sb.WriteByte(q)
		default:
			sb.WriteByte(ch)
		}
	}
	sb.WriteByte(q)
	return sb.String()
}

func c17QuotedContents(alphabet string, minLen, maxLen int) []string {
	var out []string
	var rec func(cur string, n int)
	rec = func(cur string, n int) {
		if len(cur) == n {
			out = append(out, cur)
			return
		}
		for i := 0; i < len(alphabet); i++ {
			rec(cur+alphabet[i:i+1], n)
		}
	}
	for n := minLen; n <= maxLen; n++ {
		rec("", n)
	}
	return out
}

// c17QuotedPairs: the pairs of literal texts (deterministic order, no repetitions).
func c17QuotedPairs(thorough bool) [][2]string {
	contents := c17QuotedContents("aA'\"\\", 1, 2)
	if thorough {
		contents = c17QuotedContents("aA'\"\\", 1, 3)
	} else {
		contents = append(contents, c17QuotedContents("aA'", 3, 3)...)
	}
	differInOne := func(a, b string) bool {
		if len(a) != len(b) {
			return false
		}
		n := 0
		for i := 0; i < len(a); i++ {
			if a[i] != b[i] {
				n++
			}
		}
		return n == 1
	}
	seen := map[[2]string]bool{}
	var out [][2]string
	for i, a := range contents {
		for j, b := range contents {
			if j < i || (i != j && !differInOne(a, b)) {
				continue
			}
			for sa := 0; sa < 3; sa++ {
				for sb := 0; sb < 3; sb++ {
					ta, tb := c17QuotedSpell(a, sa), c17QuotedSpell(b, sb)
					if ta == tb || seen[[2]string{ta, tb}] || seen[[2]string{tb, ta}] {
						continue
					}
					seen[[2]string{ta, tb}] = true
					out = append(out, [2]string{ta, tb})
				}
			}
		}
	}
	return out
}

func c17QuotedRun(c *core.Ctx) {
	if c17SkipFamily("quoted-twins") {
		return
	}
	dir := core.Scratch("c17quoted")
	pairs := c17QuotedPairs(c.Thorough())
	c.Info("quoted_twins_literal_pairs", len(pairs))
	var idx int64
	for _, pr := range pairs {
		for _, form := range c17QuotedForms {
			a, b := strings.Replace(form, "%s", pr[0], 1), strings.Replace(form, "%s", pr[1], 1)
			for ti, tb := range c17QuotedTables {
				for _, ord := range []bool{false, true} {
					idx++
					if !c.Mine(idx) {
						continue
					}
					if c.Expired() {
						c.Incomplete("time budget reached in family quoted-twins")
						return
					}
					calls := []string{a, b}
					if (idx+int64(ti))%2 == 1 {
						calls = []string{b, a}
					}
					c17TwinOne(c, dir, c17TwinCase{"quoted-twins", tb, calls, ord})
				}
			}
		}
	}
}
