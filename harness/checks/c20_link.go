//go:build verifx

package checks

import (
	"encoding/json"
	"fmt"
	"os"
	"path/filepath"
	"strconv"
	"strings"
	"time"

	"verif/harness/internal/core"
	"verif/harness/internal/drv"
)

// Extra family for C20: the table is reached through a SYMBOLIC LINK - the file itself is a link (relative, absolute,
// a chain of two), the repository directory is a link, or a directory inside the table's path is one. The transaction
// T names the table by the link (relative to the repository or with the absolute path through the link); another
// process commits to the file under its real name between two statements of T, whenever T does not hold the table
// for update.
//
// Oracle: the reference model of the property text (the first access of a transaction loads the file, a locking
// access after a plain read loads it again, own changes are seen, COMMIT / ROLLBACK forget the copy). What "the file"
// holds at the moment of a load is not modelled but read by the harness through the very path T uses (os.ReadFile
// follows the links), so nothing is assumed about where a COMMIT through a link writes to.
func init() {
	core.Extend("C20", "family linked-table: the table reached through a symbolic link x 6 layouts (no link, the file a relative link, an absolute link, a chain of two links, the repository directory a link, a directory of the table's path a link) "+
		"x every statement sequence up to length 3 (thorough 4) over {SELECT, SELECT by the absolute path through the link, SELECT FOR UPDATE, UPDATE, COMMIT, ROLLBACK} x another process's commit under the file's real name at no or at one inner statement boundary (when T does not hold the table for update); "+
		"oracle: reference model of the cache rule, the file at every load read by the harness through the same path", c20LinkRun)
}

var c20LinkLayouts = []string{"no-link", "file-link", "absolute-file-link", "link-chain", "directory-link", "directory-link-in-path"}

var c20LinkAlphabet = []string{
	"SELECT n FROM `$REL`",
	"SELECT n FROM `$ABS`",
	"SELECT n FROM `$REL` FOR UPDATE",
	"UPDATE `$REL` SET n = n + 1",
	"COMMIT",
	"ROLLBACK",
}

type c20LinkCase struct {
	Family string `json:"family"`
	Layout int    `json:"layout"`
	Seq    []int  `json:"statements"`
	At     int    `json:"commit_before_statement"` // 0 = the other process does not run
}

// c20LinkSetup builds the layout under base and returns T's repository, the table's name relative to it and the
// directory that really holds the file.
func c20LinkSetup(base string, layout int) (repo, rel, store string, err error) {
	os.RemoveAll(base)
	store = filepath.Join(base, "store")
	repo = filepath.Join(base, "repo")
	rel = "t.csv"
	if err = os.MkdirAll(store, 0755); err != nil {
		return
	}
	if err = os.WriteFile(filepath.Join(store, "t.csv"), []byte("n\n1\n2\n"), 0644); err != nil {
		return
	}
	switch c20LinkLayouts[layout] {
	case "no-link":
		repo = store
	case "file-link":
		if err = os.MkdirAll(repo, 0755); err == nil {
			err = os.Symlink(filepath.Join("..", "store", "t.csv"), filepath.Join(repo, "t.csv"))
		}
	case "absolute-file-link":
		if err = os.MkdirAll(repo, 0755); err == nil {
			err = os.Symlink(filepath.Join(store, "t.csv"), filepath.Join(repo, "t.csv"))
		}
	case "link-chain":
		if err = os.MkdirAll(repo, 0755); err == nil {
			if err = os.Symlink("hop.csv", filepath.Join(repo, "t.csv")); err == nil {
				err = os.Symlink(filepath.Join("..", "store", "t.csv"), filepath.Join(repo, "hop.csv"))
			}
		}
	case "directory-link":
		err = os.Symlink("store", repo)
	case "directory-link-in-path":
		if err = os.MkdirAll(repo, 0755); err == nil {
			err = os.Symlink(filepath.Join("..", "store"), filepath.Join(repo, "sub"))
		}
		rel = "sub/t.csv"
	}
	return
}

func c20LinkFile(path string) ([]int, error) {
	b, err := os.ReadFile(path)
	if err != nil {
		return nil, err
	}
	lines := strings.Split(strings.TrimRight(string(b), "\n"), "\n")
	if len(lines) == 0 || strings.TrimSpace(lines[0]) != "n" {
		return nil, fmt.Errorf("unexpected content %q", string(b))
	}
	out := []int{}
	for _, l := range lines[1:] {
		k, e := strconv.Atoi(strings.Trim(strings.TrimSpace(l), "\""))
		if e != nil {
			return nil, fmt.Errorf("unexpected content %q", string(b))
		}
		out = append(out, k)
	}
	return out, nil
}

func c20LinkOne(c *core.Ctx, base string, k c20LinkCase) {
	layout := c20LinkLayouts[k.Layout]
	repo, rel, store, err := c20LinkSetup(base, k.Layout)
	if err != nil {
		c.Incomplete(fmt.Sprintf("family linked-table: the layout %s cannot be built: %v", layout, err))
		return
	}
	path := filepath.Join(repo, filepath.FromSlash(rel))
	env := drv.New(repo)
	defer env.Close()
	env.Tx.Flags.SetQuiet(true)
	// nobody else holds a lock while a statement of T runs (the other process runs to its end between two statements):
	// T never has to wait, so a short limit does not turn machine load into errors; it only keeps a csvq that waits
	// for its own lock from taking two minutes
	env.Tx.UpdateWaitTimeout(3, 5*time.Millisecond)
	var cache []int
	loaded, forUpdate := false, false
	var trace []string
	nontrivial := false
	key := fmt.Sprintf("linked-table|%d|%v|%d", k.Layout, k.Seq, k.At)
	for i, si := range k.Seq {
		if k.At > 0 && i == k.At {
			if forUpdate {
				return // T holds the table for update here: this boundary is not part of the family
			}
			penv := drv.New(store)
			penv.Tx.AutoCommit = true
			penv.Tx.Flags.SetQuiet(true)
			r := penv.Exec("UPDATE t SET n = n + 10;")
			penv.Close()
			trace = append(trace, "    -- another process, in "+store+": UPDATE t SET n = n + 10 (auto-commit)")
			if r.Err != nil || r.Panic != nil {
				c.Violate("linked-table:another-process-cannot-update-a-table-that-is-not-locked:"+layout,
					fmt.Sprintf("layout %s: %v %v\n%s", layout, r.Err, r.Panic, strings.Join(trace, "\n")), k)
				return
			}
			nontrivial = loaded
		}
		fileNow, ferr := c20LinkFile(path)
		if ferr != nil {
			c.Incomplete(fmt.Sprintf("family linked-table: the harness cannot read %s: %v", path, ferr))
			return
		}
		stmt := strings.ReplaceAll(strings.ReplaceAll(c20LinkAlphabet[si], "$REL", rel), "$ABS", path)
		trace = append(trace, "    "+stmt)
		var want []int
		wasLoaded := loaded
		switch si {
		case 0, 1:
			if !loaded {
				cache, loaded, forUpdate = fileNow, true, false
			}
			want = append([]int{}, cache...)
		case 2, 3:
			if !loaded || !forUpdate {
				cache, loaded, forUpdate = fileNow, true, true
			}
			if si == 3 {
				cache = append([]int{}, cache...)
				for j := range cache {
					cache[j]++
				}
			} else {
				want = append([]int{}, cache...)
			}
		default:
			loaded, forUpdate, cache = false, false, nil
		}
		r := env.Exec(stmt + ";")
		if r.Err != nil || r.Panic != nil {
			c.Violate("linked-table:a-statement-of-the-transaction-fails:"+layout,
				fmt.Sprintf("layout %s (T's repository %s, table %s): statement %d fails: %v %v\n%s", layout, repo, rel, i, r.Err, r.Panic, strings.Join(trace, "\n")), k)
			return
		}
		if want == nil {
			continue
		}
		got, ok := []int(nil), false
		if len(r.Views) > 0 {
			got, ok = viewInts(drv.Rows(r.Views[len(r.Views)-1]))
		}
		if !ok || fmt.Sprint(got) != fmt.Sprint(want) {
			sig := "linked-table:the-first-read-of-a-transaction-does-not-show-the-file:" + layout
			what := "the first access of a transaction does not show the file as it is"
			if wasLoaded {
				sig = "linked-table:a-loaded-table-does-not-stay-as-loaded:" + layout
				what = "a table the transaction has loaded shows something else than that data plus the transaction's own changes"
			}
			c.Violate(sig, fmt.Sprintf("%s\n  layout %s (T's repository %s, table %s)\n  statement %d returns %v, the reference says %v\n%s", what, layout, repo, rel, i, got, want, strings.Join(trace, "\n")), k)
			return
		}
	}
	c.Eval(key, nontrivial)
}

func c20LinkRun(c *core.Ctx) {
	if !c20Only("linked-table") {
		return
	}
	base := filepath.Join(core.Scratch("c20link"), "w")
	maxLen := 3
	if c.Thorough() {
		maxLen = 4
	}
	n := len(c20LinkAlphabet)
	var idx int64
	for li := range c20LinkLayouts {
		for l := 1; l <= maxLen; l++ {
			total := 1
			for i := 0; i < l; i++ {
				total *= n
			}
			for code := 0; code < total; code++ {
				idx++
				if !c.Mine(idx) {
					continue
				}
				if c.Expired() {
					c.Incomplete("family linked-table: time budget reached")
					return
				}
				seq := make([]int, l)
				x := code
				for i := range seq {
					seq[i] = x % n
					x /= n
				}
				for at := 0; at < l; at++ {
					c20LinkOne(c, base, c20LinkCase{"linked-table", li, seq, at})
				}
			}
		}
	}
}

func c20LinkReplay(c *core.Ctx, payload json.RawMessage) bool {
	var k c20LinkCase
	if json.Unmarshal(payload, &k) != nil || k.Family != "linked-table" {
		return false
	}
	fmt.Printf("replaying family linked-table: %+v\n", k)
	c20LinkOne(c, filepath.Join(core.Scratch("c20link-replay"), "w"), k)
	return true
}
