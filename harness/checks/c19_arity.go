package checks

// Extra family for C19: the number of fields a query returns against the number its consumer takes.
//
// SELECT ... INTO, FETCH, a scalar or row subquery, IN / ANY / ALL, INSERT ... SELECT, the operands of a set
// operation, a column list of WITH / DECLARE VIEW / CREATE TABLE ... AS: each of them takes a fixed number of fields
// and indexes the records of the query by it. The number of select items says nothing about the number of fields: a
// wildcard expands to all fields of the tables, to the fields of one table, or - qualified with a name that is no
// table of the query, or with a table that has no field - to nothing at all. This family enumerates every select list
// of one and two (thorough: three) items over {field, constant, *, t.*, x.* (no such table), eo.* (a table without
// fields)} over sources that give no, one and several records (the consumers treat the three differently), under every
// consumer of a field count.

import (
	"encoding/json"
	"fmt"
	"os"
	"path/filepath"
	"strings"

	"verif/harness/internal/core"
	"verif/harness/internal/drv"
)

func init() {
	core.Extend("C19", "family arity: select lists of 1-2 (thorough: 3) items over {c1, 1, *, t.*, x.* (unknown qualifier), eo.* (table without fields)} x 6 sources (no FROM clause; 0, 1, 5 records; a table without fields; its product "+
		"with one record) x 36 consumers of a field count (SELECT INTO 1-3 variables at top level / in a function / prepared, FETCH and WHILE IN over a cursor, scalar, row, IN, ANY, ALL, EXISTS subqueries, INSERT / REPLACE / UPDATE with a query, "+
		"set operators on either side, WITH / DECLARE VIEW / CREATE TABLE AS with and without column list, recursive WITH, derived table, join, LATERAL, ORDER BY a subquery), each statement run alone; "+
		"oracle: no panic, no Fatal Error, documented return code, rectangular results", c19ArRun)
	c19ExtReplays["arity"] = c19ArReplay
}

var c19ArItems = []string{"c1", "1", "*", "t.*", "x.*", "eo.*"}

type c19ArSource struct{ id, sql string }

var c19ArSources = []c19ArSource{
	{"no-from", ""},
	{"one-record", " FROM t WHERE c1 = 2"},
	{"five-records", " FROM t"},
	{"no-record", " FROM t WHERE FALSE"},
	{"no-fields", " FROM eo"},
	{"one-record-x-no-fields", " FROM t CROSS JOIN eo WHERE c1 = 2"},
}

// %L = select list, %S = the rest of the query, %Q = SELECT %L%S
type c19ArConsumer struct{ id, sql string }

var c19ArConsumers = []c19ArConsumer{
	{"plain", "%Q; SELECT COUNT(*) FROM (%Q) q"},
	{"into-1", "VAR @v1; SELECT %L INTO @v1%S; SELECT @v1"},
	{"into-2", "VAR @v1, @v2; SELECT %L INTO @v1, @v2%S; SELECT @v1, @v2"},
	{"into-3", "VAR @v1, @v2, @v3; SELECT %L INTO @v1, @v2, @v3%S; SELECT @v1, @v2, @v3"},
	{"into-in-function", "DECLARE f FUNCTION () AS BEGIN VAR @v1, @v2; SELECT %L INTO @v1, @v2%S; RETURN @v2; END; SELECT f()"},
	{"into-in-loop", "VAR @v1, @v2, @i := 0; WHILE @i < 2 DO @i := @i + 1; SELECT %L INTO @v1, @v2%S; END WHILE; SELECT @v1, @v2"},
	{"into-prepared", "PREPARE p FROM 'VAR @v1, @v2; SELECT %L INTO @v1, @v2%S; SELECT @v1, @v2;'; EXECUTE p"},
	{"fetch", "VAR @v1, @v2; DECLARE cur CURSOR FOR %Q; OPEN cur; FETCH cur INTO @v1, @v2; FETCH cur INTO @v1; FETCH LAST cur INTO @v1, @v2; SELECT @v1, @v2"},
	{"while-in-cursor", "VAR @v1, @v2; DECLARE cur CURSOR FOR %Q; OPEN cur; WHILE @v1, @v2 IN cur DO PRINT @v1; END WHILE; OPEN cur; WHILE @v1 IN cur DO PRINT @v1; END WHILE"},
	{"scalar-subquery", "SELECT (%Q); SELECT c1, (%Q) FROM t"},
	{"in-subquery", "SELECT 1 IN (%Q), 1 NOT IN (%Q)"},
	{"row-in-subquery", "SELECT (1, 2) IN (%Q); SELECT c1 FROM t WHERE (c1, c2) IN (%Q)"},
	{"row-compare-subquery", "SELECT (1, 2) = (%Q); SELECT (1, 2) < (%Q); SELECT (1, 2, 3) <> (%Q)"},
	{"any-all", "SELECT 1 = ANY (%Q), 1 < ALL (%Q); SELECT (1, 2) = ANY (%Q), (1, 2) <> ALL (%Q)"},
	{"exists", "SELECT EXISTS (%Q); SELECT c1 FROM t WHERE NOT EXISTS (%Q)"},
	{"insert-select", "INSERT INTO u %Q; SELECT * FROM u"},
	{"insert-select-fields", "INSERT INTO u (a) %Q; SELECT * FROM u"},
	{"replace-select", "REPLACE INTO u (a, b) USING (a) %Q; SELECT * FROM u"},
	{"update-set-subquery", "UPDATE u SET a = (%Q); SELECT * FROM u"},
	{"delete-where-subquery", "DELETE FROM u WHERE (a, b) = (%Q); DELETE FROM u WHERE a IN (%Q)"},
	{"union-right", "SELECT 1, 2 UNION %Q; SELECT 1 UNION ALL %Q"},
	{"union-left", "%Q UNION ALL SELECT 1; %Q UNION SELECT 1, 2"},
	{"intersect-except", "SELECT 1, 2 INTERSECT %Q; %Q EXCEPT SELECT 1, 2; %Q INTERSECT ALL %Q"},
	{"with-columns", "WITH c (x, y) AS (%Q) SELECT * FROM c; WITH c (x) AS (%Q) SELECT x FROM c"},
	{"with", "WITH c AS (%Q) SELECT * FROM c; WITH c AS (%Q) SELECT COUNT(*) FROM c"},
	{"with-recursive", "WITH RECURSIVE r (n) AS (%Q UNION ALL SELECT n + 1 FROM r WHERE n < 3) SELECT * FROM r; WITH RECURSIVE r (n, m) AS (SELECT 1, 2 UNION ALL %Q) SELECT * FROM r LIMIT 3"},
	{"view-columns", "DECLARE v VIEW (x, y) AS %Q; SELECT * FROM v; INSERT INTO v VALUES (1, 2)"},
	{"view", "DECLARE v VIEW AS %Q; SELECT * FROM v; INSERT INTO v VALUES (1)"},
	{"create-as-columns", "CREATE TABLE `n.csv` (x, y) AS %Q; SELECT * FROM n"},
	{"create-as", "CREATE TABLE `n.csv` AS %Q; SELECT * FROM n; INSERT INTO n VALUES (1); SELECT COUNT(*) FROM n"},
	{"derived-table", "SELECT * FROM (%Q) s; SELECT s.* FROM (%Q) s ORDER BY 1; SELECT COUNT(*) FROM (%Q) s GROUP BY 1"},
	{"join", "SELECT * FROM t JOIN (%Q) s ON TRUE LIMIT 2; SELECT * FROM (%Q) s FULL JOIN t ON FALSE; SELECT * FROM (%Q) a NATURAL JOIN (%Q) b"},
	{"lateral", "SELECT * FROM t, LATERAL (%Q) s; SELECT * FROM t LEFT JOIN LATERAL (%Q) s ON FALSE"},
	{"order-by-subquery", "SELECT c1 FROM t ORDER BY (%Q); SELECT c1 FROM t GROUP BY c1 HAVING c1 > (%Q)"},
	{"case-subquery", "SELECT CASE (%Q) WHEN 1 THEN 2 END, CASE WHEN (%Q) IS NULL THEN 1 END, COALESCE((%Q), 0)"},
	{"function-argument", "SELECT ABS((%Q)), MAX((%Q)) FROM t; SELECT JSON_OBJECT((%Q))"},
}

type c19ArPayload struct {
	Family   string `json:"family"`
	Consumer string `json:"consumer"`
	List     string `json:"select_list"`
	Source   string `json:"source"`
}

func c19ArFiles(dir string) {
	drv.ClearDir(dir)
	drv.WriteFiles(dir, map[string]string{"t.csv": c19TableT, "eo.json": "[{}]\n", "u.csv": "a,b\n1,2\n3,4\n"})
}

func c19ArOne(c *core.Ctx, dir string, k c19ArPayload, verbose bool) string {
	var cons *c19ArConsumer
	for i := range c19ArConsumers {
		if c19ArConsumers[i].id == k.Consumer {
			cons = &c19ArConsumers[i]
		}
	}
	var src *c19ArSource
	for i := range c19ArSources {
		if c19ArSources[i].id == k.Source {
			src = &c19ArSources[i]
		}
	}
	if cons == nil || src == nil {
		fmt.Println("arity: unknown consumer or source in payload")
		return ""
	}
	q := "SELECT " + k.List + src.sql
	sql := strings.NewReplacer("%Q", q, "%L", k.List, "%S", src.sql).Replace(cons.sql)
	if _, err := os.Stat(filepath.Join(dir, "n.csv")); err == nil {
		os.Remove(filepath.Join(dir, "n.csv"))
	}
	env := drv.New(dir)
	defer env.Close()
	outcome := "ok"
	failed := false
	c19ExtExec(env, sql, func(i int, r c19ExtResult) {
		o := c19ExtJudge(c, "arity", cons.id, r, fmt.Sprintf("statement %d of %q", i+1, sql), k)
		if o != "ok" && !failed {
			outcome, failed = o, true
		}
		if verbose {
			fmt.Printf("  statement %d: err=%v panic=%v views=%d\n", i+1, r.Err, r.Panic, len(r.Views))
		}
	})
	// nothing is committed: the tables are as before for the next case
	c19ExtExec(env, "ROLLBACK", func(i int, r c19ExtResult) {
		c19ExtJudge(c, "arity", cons.id+":rollback", r, fmt.Sprintf("ROLLBACK after %q", sql), k)
	})
	return outcome
}

// c19ArLists: all select lists of 1..max items.
func c19ArLists(max int) []string {
	var out []string
	level := []string{""}
	for n := 1; n <= max; n++ {
		var next []string
		for _, p := range level {
			for _, it := range c19ArItems {
				l := it
				if p != "" {
					l = p + ", " + it
				}
				next = append(next, l)
			}
		}
		out = append(out, next...)
		level = next
	}
	return out
}

func c19ArRun(c *core.Ctx) {
	if c19ExtOff(c, "arity") {
		return
	}
	max := 2
	if c.Thorough() {
		max = 3
	}
	lists := c19ArLists(max)
	dir := core.Scratch("c19arity")
	c19ArFiles(dir)
	var idx int64
	for _, l := range lists {
		for _, s := range c19ArSources {
			idx++
			if !c.Mine(idx) {
				continue
			}
			if c.Expired() {
				c.Incomplete("time budget reached in family arity")
				return
			}
			for _, cons := range c19ArConsumers {
				k := c19ArPayload{Family: "arity", Consumer: cons.id, List: l, Source: s.id}
				o := c19ArOne(c, dir, k, false)
				c.EvalN(1, 1)
				c.Observe("arity_outcomes", o)
				if c.WantSample() && cons.id == "into-2" && s.id == "one-record" && strings.Contains(l, ".*") {
					c.Sample(map[string]any{"family": "arity", "consumer": cons.id, "select_list": l, "source": s.id, "outcome": o})
				}
			}
		}
	}
}

func c19ArReplay(c *core.Ctx, payload json.RawMessage) {
	var k c19ArPayload
	if json.Unmarshal(payload, &k) != nil {
		fmt.Println("bad payload")
		return
	}
	dir := core.Scratch("c19arity-replay")
	c19ArFiles(dir)
	fmt.Println("outcome:", c19ArOne(c, dir, k, true))
}
