package checks

import (
	"encoding/json"
	"fmt"
	"math"
	"sort"
	"strconv"
	"time"

	"github.com/mithrandie/csvq/lib/value"

	"verif/harness/internal/core"
	"verif/harness/internal/drv"
	"verif/harness/internal/rv"
)

// Family unixtime: the documented casts between numbers and datetimes.
//
// Manual (cast functions): DATETIME of an integer, of a float and of a text holding either is the "datetime represented
// by the value as a unix time"; FLOAT of a datetime is the "float representing its unix time", INTEGER of a datetime
// the "integer representing its unix time". A unix time x is the instant x seconds after 1970-01-01T00:00:00Z, before
// it when x is negative. The numbers enumerated have a fraction that is a multiple of 2^-9, so the float and the
// nanosecond count of the reference instant are exact; csvq may round within the resolution of a float of that
// magnitude (it goes through the shortest decimal text of the float), so an instant within one microsecond of the
// reference is accepted (the floats enumerated are below 2^33, their resolution is finer than a microsecond; the
// smallest non-zero fraction is 2^-9 s). The instant does not depend on the session's time zone nor on the zone given
// to DATETIME.
func init() {
	core.Extend("C06", "family unixtime: 2 signs x 10 whole parts (0 .. 4102444800) x 7 fractions that are exact in binary (0, 1/2, 1/4, 3/4, 1/8, 2^-9, 1-2^-9) x 5 spellings (float, decimal text, padded text, exponent text, integer) x 2 session time zones x DATETIME with and without a zone argument; "+
		"reference: the instant that many seconds from the epoch, to the microsecond; FLOAT(DATETIME(x)) = x, INTEGER(DATETIME(n)) = n; the order of the numbers is the order of their datetimes under csvq's own <", c06UnixtimeRun)
}

type c06UnixNum struct {
	neg   bool
	whole int64
	ns    int64 // nanoseconds of the fraction
}

func (n c06UnixNum) float() float64 {
	f := float64(n.whole) + float64(n.ns)/1e9 // exact: ns/1e9 is a multiple of 2^-9
	if n.neg {
		return -f
	}
	return f
}

func (n c06UnixNum) instant() time.Time {
	total := n.whole*1000000000 + n.ns
	if n.neg {
		total = -total
	}
	sec := total / 1000000000
	ns := total % 1000000000
	if ns < 0 {
		sec--
		ns += 1000000000
	}
	return time.Unix(sec, ns).UTC()
}

func (n c06UnixNum) class() string {
	s := "positive"
	if n.neg {
		s = "negative"
	}
	if n.ns != 0 {
		return s + "-fractional"
	}
	return s + "-integral"
}

func c06UnixNums() []c06UnixNum {
	wholes := []int64{0, 1, 2, 59, 86399, 86400, 1000000000, 2147483647, 2147483648, 4102444800}
	fracs := []int64{0, 500000000, 250000000, 750000000, 125000000, 1953125, 998046875}
	var out []c06UnixNum
	for _, neg := range []bool{false, true} {
		for _, w := range wholes {
			for _, f := range fracs {
				if neg && w == 0 && f == 0 {
					continue
				}
				out = append(out, c06UnixNum{neg, w, f})
			}
		}
	}
	sort.SliceStable(out, func(i, j int) bool { return out[i].float() < out[j].float() })
	return out
}

type c06UnixCase struct {
	Family string `json:"family"`
	Zone   string `json:"session_time_zone"`
	Index  int    `json:"index"`
	X      string `json:"x"`
}

func c06UnixSpellings(n c06UnixNum) []rv.V {
	x := n.float()
	text := strconv.FormatFloat(x, 'f', -1, 64)
	out := []rv.V{rv.Fl(x), rv.S(text), rv.S(" " + text + " "), rv.S(text + "e0")}
	if n.ns == 0 {
		i := n.whole
		if n.neg {
			i = -i
		}
		out = append(out, rv.I(i))
	}
	return out
}

func c06UnixtimeRun(c *core.Ctx) { c06UnixtimeOver(c, nil) }

func c06UnixtimeOver(c *core.Ctx, only *c06UnixCase) {
	nums := c06UnixNums()
	dir := core.Scratch("c06unixtime")
	other := "Asia/Tokyo"
	if _, err := time.LoadLocation(other); err != nil {
		c.Observe("unixtime_family_unavailable_time_zones", other)
		other = "UTC"
	}
	stmt := "SELECT DATETIME(@x), DATETIME(@x, 'UTC'), DATETIME(@x, '" + other + "'), FLOAT(DATETIME(@x)), INTEGER(DATETIME(@x)), DATETIME(@x) < DATETIME(@y), DATETIME(@x) >= DATETIME(@y), DATETIME(@x) = DATETIME(@y);"
	var idx int64
	for _, zone := range []string{"UTC", "Asia/Tokyo"} {
		if only != nil && only.Zone != zone {
			continue
		}
		if _, err := time.LoadLocation(zone); err != nil {
			c.Observe("unixtime_family_unavailable_time_zones", zone)
			continue
		}
		env := drv.New(dir)
		if r := env.Exec("SET @@TIMEZONE TO '" + zone + "';"); r.Err != nil {
			c.Observe("unixtime_family_unavailable_time_zones", zone+": "+r.Err.Error())
			env.Close()
			continue
		}
		env.SetVar("x", value.NewNull())
		env.SetVar("y", value.NewNull())
		for ni, n := range nums {
			idx++
			if only != nil {
				if ni != only.Index {
					continue
				}
			} else if !c.Mine(idx) {
				continue
			}
			if c.Expired() {
				c.Incomplete("time budget reached inside family unixtime")
				env.Close()
				return
			}
			want := n.instant()
			// the next greater number (the list is sorted and has no duplicates), in the same spelling where it has one
			var next *c06UnixNum
			if ni+1 < len(nums) {
				next = &nums[ni+1]
			}
			for si, x := range c06UnixSpellings(n) {
				pay := c06UnixCase{"unixtime", zone, ni, x.Key()}
				sig := func(what string) string { return "unixtime:" + what + ":" + n.class() + ":" + sigKind(x) }
				env.SetVar("x", x.Primary())
				yv := rv.N()
				if next != nil {
					ys := c06UnixSpellings(*next)
					yv = ys[0]
					if si < len(ys) {
						yv = ys[si]
					}
				}
				env.SetVar("y", yv.Primary())
				r := env.Exec(stmt)
				c.EvalN(8, 8)
				if r.Err != nil || r.Panic != nil || len(r.Views) != 1 || len(drv.Rows(r.Views[0])) != 1 {
					c.Violate(sig("error"), fmt.Sprintf("session time zone %s, @x = %s: %v %v", zone, x.Key(), r.Err, r.Panic), pay)
					continue
				}
				row := drv.Rows(r.Views[0])[0]
				for k, form := range []string{"DATETIME(x)", "DATETIME(x, 'UTC')", "DATETIME(x, '" + other + "')"} {
					if d := row[k].D.Sub(want); row[k].K != rv.Date || d > time.Microsecond || d < -time.Microsecond {
						c.Violate(sig("DATETIME-of-a-number-is-not-the-instant-that-many-seconds-from-the-epoch"),
							fmt.Sprintf("session time zone %s: %s with x = %s is %s; the unix time %s is the instant %s",
								zone, form, x.Key(), row[k].Key(), strconv.FormatFloat(n.float(), 'f', -1, 64), want.Format(time.RFC3339Nano)), pay)
						break
					}
				}
				if row[3].K != rv.Float || math.Abs(row[3].F-n.float()) > 1e-5 {
					c.Violate(sig("FLOAT-of-DATETIME-of-a-number-is-another-number"),
						fmt.Sprintf("session time zone %s: FLOAT(DATETIME(x)) with x = %s is %s", zone, x.Key(), row[3].Key()), pay)
				}
				if n.ns == 0 {
					i := n.whole
					if n.neg {
						i = -i
					}
					if row[4].K != rv.Int || row[4].I != i {
						c.Violate(sig("INTEGER-of-DATETIME-of-a-whole-number-is-another-number"),
							fmt.Sprintf("session time zone %s: INTEGER(DATETIME(x)) with x = %s is %s", zone, x.Key(), row[4].Key()), pay)
					}
				}
				if next != nil {
					if row[5].Tern3() != rv.T || row[6].Tern3() != rv.F || row[7].Tern3() != rv.F || row[5].K == rv.Null {
						c.Violate(sig("order-of-two-numbers-is-not-the-order-of-their-datetimes"),
							fmt.Sprintf("session time zone %s: x = %s is less than y = %s, but DATETIME(x) < DATETIME(y) is %s, >= is %s, = is %s",
								zone, x.Key(), yv.Key(), row[5].Key(), row[6].Key(), row[7].Key()), pay)
					}
				}
				if c.WantSample() && n.neg && n.ns != 0 && si == 0 {
					c.Sample(map[string]any{"family": "unixtime", "zone": zone, "x": x.Key(), "DATETIME(x)": row[0].Key()})
				}
			}
		}
		env.Close()
	}
}

func c06UnixtimeReplay(c *core.Ctx, payload json.RawMessage) bool {
	var k c06UnixCase
	if json.Unmarshal(payload, &k) != nil || k.Family != "unixtime" {
		return false
	}
	fmt.Printf("replaying family unixtime: %+v\n", k)
	c06UnixtimeOver(c, &k)
	return true
}
