package checks

import (
	"encoding/json"
	"fmt"
	"strings"

	"verif/harness/internal/core"
	"verif/harness/internal/drv"
)

// Extra family for C05, observation point "committed file": the statement's edit - and nothing else - is what the table
// file holds after COMMIT, in every layout a table file can have. The attributes family varies the session flags around
// INSERT / UPDATE / DELETE / REPLACE; this one varies the statement: emptying the table (and refilling it), ADD in three
// places, DROP, RENAME, and ALTER followed by a change of the new column, on nine layouts including the ones whose file
// has no header line, whose records sit inside a larger JSON document (JSON query) or at stated byte positions.
//
// Oracle (no hand-written expectation): a fresh process that reads the file through the same definition sees exactly
// the table (column names, rows as texts) the session saw after the statement. Where the layout has no place for the
// column names (no header line; JSON / LTSV without a record) only the rows are compared. Where the stated byte
// positions of a fixed-length table cannot describe the changed set of columns, the read-back through those positions
// is not defined: there csvq may refuse the COMMIT (file untouched) or write another layout, but every column name and
// every cell of the table must be in the file, in order (nothing silently lost).
func init() {
	core.Extend("C05", "family layouts: 9 table layouts (CSV, CSV without header, TSV, LTSV, JSON, JSON addressed through a JSON query, JSON Lines, fixed-length at stated positions multi-line and single-line) x "+
		fmt.Sprint(len(c05LayStmts))+" statement sequences (INSERT, UPDATE, DELETE some / all, DELETE all + INSERT, REPLACE, ADD last / FIRST / AFTER, DROP first / middle, RENAME, ADD + UPDATE of the new column, DROP + INSERT) + COMMIT; "+
		"oracle: a fresh process reading the file through the same definition sees the table the session saw after the statement; fixed-length x ADD / DROP: COMMIT refused with the file untouched, or every column name and cell in the file in order",
		c05LayRun)
}

type c05LayTable struct {
	Name, File, Init string
	Pre              string // SET statements that make up the definition (also given to the fresh process)
	Cols             [3]string
	NoHeader         bool
	Fixed            bool
	Single           bool
}

var c05LayTables = []c05LayTable{
	{"csv", "t.csv", "a,b,c\n1,x,p\n2,y,q\n3,z,r\n", "", [3]string{"a", "b", "c"}, false, false, false},
	{"csv-no-header", "n.csv", "1,x,p\n2,y,q\n3,z,r\n", "SET @@NO_HEADER TO TRUE;", [3]string{"c1", "c2", "c3"}, true, false, false},
	{"tsv", "t.tsv", "a\tb\tc\n1\tx\tp\n2\ty\tq\n3\tz\tr\n", "", [3]string{"a", "b", "c"}, false, false, false},
	{"ltsv", "t.ltsv", "a:1\tb:x\tc:p\na:2\tb:y\tc:q\na:3\tb:z\tc:r\n", "", [3]string{"a", "b", "c"}, false, false, false},
	{"json", "t.json", `[{"a":1,"b":"x","c":"p"},{"a":2,"b":"y","c":"q"},{"a":3,"b":"z","c":"r"}]` + "\n", "", [3]string{"a", "b", "c"}, false, false, false},
	{"json-query", "q.json", `{"meta":1,"items":[{"a":1,"b":"x","c":"p"},{"a":2,"b":"y","c":"q"},{"a":3,"b":"z","c":"r"}]}` + "\n", "SET @@JSON_QUERY TO 'items';", [3]string{"a", "b", "c"}, false, false, false},
	{"jsonl", "t.jsonl", `{"a":1,"b":"x","c":"p"}` + "\n" + `{"a":2,"b":"y","c":"q"}` + "\n" + `{"a":3,"b":"z","c":"r"}` + "\n", "", [3]string{"a", "b", "c"}, false, false, false},
	{"fixed", "f.txt", "a b c \n1 x p \n2 y q \n3 z r \n", "SET @@IMPORT_FORMAT TO FIXED; SET @@DELIMITER_POSITIONS TO '[2, 4, 6]';", [3]string{"a", "b", "c"}, false, true, false},
	{"fixed-single-line", "s.txt", "1 x p 2 y q 3 z r ", "SET @@IMPORT_FORMAT TO FIXED; SET @@DELIMITER_POSITIONS TO 'S[2, 4, 6]';", [3]string{"c1", "c2", "c3"}, true, true, true},
}

// %[1]s table, %[2]s %[3]s %[4]s its columns
var c05LayStmts = []struct {
	Name, SQL string
	Columns   bool // the set of columns changes
	Rename    bool
}{
	{"insert", "INSERT INTO %[1]s VALUES (4, 'w', 's');", false, false},
	{"update", "UPDATE %[1]s SET %[3]s = 'u' WHERE %[2]s = 2;", false, false},
	{"delete-some", "DELETE FROM %[1]s WHERE %[2]s = 1;", false, false},
	{"delete-all", "DELETE FROM %[1]s;", false, false},
	{"delete-all-insert", "DELETE FROM %[1]s; INSERT INTO %[1]s VALUES (4, 'w', 's');", false, false},
	{"replace", "REPLACE INTO %[1]s (%[2]s, %[3]s, %[4]s) USING (%[2]s) VALUES (3, 'k', 'l'), (5, 'v', 't');", false, false},
	{"add-last", "ALTER TABLE %[1]s ADD x DEFAULT 7;", true, false},
	{"add-first", "ALTER TABLE %[1]s ADD x DEFAULT 7 FIRST;", true, false},
	{"add-after", "ALTER TABLE %[1]s ADD x DEFAULT 7 AFTER %[2]s;", true, false},
	{"drop-first", "ALTER TABLE %[1]s DROP %[2]s;", true, false},
	{"drop-middle", "ALTER TABLE %[1]s DROP %[3]s;", true, false},
	{"rename", "ALTER TABLE %[1]s RENAME %[3]s TO bb;", false, true},
	{"add-update", "ALTER TABLE %[1]s ADD x DEFAULT 7; UPDATE %[1]s SET x = 8 WHERE %[2]s = 2;", true, false},
	{"drop-insert", "ALTER TABLE %[1]s DROP %[3]s; INSERT INTO %[1]s VALUES (4, 's');", true, false},
}

type c05LayCase struct {
	Family string `json:"family"`
	Table  string `json:"table"`
	Stmt   string `json:"statement"`
}

// c05LayView: column names and rows as texts
func c05LayView(env *drv.Env, sql string) (cols []string, rows [][]string, err error) {
	r := env.Exec(sql)
	if r.Panic != nil {
		return nil, nil, fmt.Errorf("panic: %v", r.Panic)
	}
	if r.Err != nil {
		return nil, nil, r.Err
	}
	if len(r.Views) == 0 {
		return nil, nil, fmt.Errorf("no result set")
	}
	v := r.Views[len(r.Views)-1]
	for _, row := range drv.Rows(v) {
		p := make([]string, len(row))
		for i, x := range row {
			p[i] = c01AttrText(x)
		}
		rows = append(rows, p)
	}
	return drv.Header(v), rows, nil
}

func c05LayShow(cols []string, rows [][]string, rowsOnly bool) string {
	var sb strings.Builder
	if !rowsOnly {
		sb.WriteString(strings.Join(cols, ",") + "|")
	}
	for _, r := range rows {
		sb.WriteString(strings.Join(r, ",") + ";")
	}
	return sb.String()
}

// c05LayInOrder: every token occurs in s, one after the other
func c05LayInOrder(s string, tokens []string) bool {
	for _, t := range tokens {
		i := strings.Index(s, t)
		if i < 0 {
			return false
		}
		s = s[i+len(t):]
	}
	return true
}

func c05LayOne(c *core.Ctx, dir string, k c05LayCase) {
	var t *c05LayTable
	for i := range c05LayTables {
		if c05LayTables[i].Name == k.Table {
			t = &c05LayTables[i]
		}
	}
	si := -1
	for i := range c05LayStmts {
		if c05LayStmts[i].Name == k.Stmt {
			si = i
		}
	}
	if t == nil || si < 0 {
		return
	}
	st := c05LayStmts[si]
	if st.Rename && t.NoHeader {
		return // a column name has no place in the file
	}
	ident := "`" + t.File + "`"
	prog := t.Pre + " " + fmt.Sprintf(st.SQL, ident, t.Cols[0], t.Cols[1], t.Cols[2])
	sig := func(what string) string { return "layouts:" + t.Name + ":" + what }
	files := map[string]string{t.File: t.Init, "other.csv": "k,v\n1,one\n"}
	drv.ClearDir(dir)
	drv.WriteFiles(dir, files)
	env := drv.New(dir)
	env.Tx.Flags.SetQuiet(true)
	r := env.Exec(prog)
	if r.Panic != nil {
		env.Close()
		c.Violate(sig("panic"), fmt.Sprintf("%s: %v", prog, r.Panic), k)
		return
	}
	if r.Err != nil {
		// whether a statement is accepted is the main search's subject
		env.Close()
		c.Observe("layout_statements_refused", t.Name+":"+st.Name+": "+strings.Join(strings.Fields(r.Err.Error()), " "))
		return
	}
	cols, rows, err := c05LayView(env, "SELECT * FROM "+ident+";")
	if err != nil {
		env.Close()
		c.Violate(sig("table-unreadable-inside-the-session"), fmt.Sprintf("%s: %v", prog, err), k)
		return
	}
	seen := c05LayShow(cols, rows, t.NoHeader)
	c.Eval("layouts|"+t.Name+"|"+st.Name, true)
	rc := env.Exec("COMMIT;")
	env.Close()
	snap := drv.DirSnapshot(dir)
	where := fmt.Sprintf("layout %s, file %q: %s COMMIT; (the session then saw %s) the file now holds %q", t.Name, t.Init, prog, c05LayShow(cols, rows, false), clip(snap[t.File]))
	if rc.Panic != nil {
		c.Violate(sig("panic"), fmt.Sprintf("%s: COMMIT: %v", where, rc.Panic), k)
		return
	}
	for n, b := range snap {
		if n == t.File {
			continue
		}
		if want, ok := files[n]; !ok || b != want {
			c.Violate(sig("another-file-changed-or-left-behind"), fmt.Sprintf("%s; %s holds %q", where, n, clip(b)), k)
			return
		}
	}
	positionsOutdated := t.Fixed && st.Columns
	if rc.Err != nil {
		if snap[t.File] != t.Init {
			c.Violate(sig("file-changed-by-refused-commit"), fmt.Sprintf("%s: COMMIT failed: %v", where, rc.Err), k)
			return
		}
		if positionsOutdated {
			c.Observe("layout_commits_refused", t.Name+":"+st.Name+": "+strings.Join(strings.Fields(rc.Err.Error()), " "))
			return
		}
		c.Violate(sig("commit-refused"), fmt.Sprintf("%s: COMMIT failed: %v", where, rc.Err), k)
		return
	}
	if positionsOutdated {
		var tokens []string
		if !t.NoHeader {
			tokens = append(tokens, cols...)
		}
		text := snap[t.File]
		ok := true
		if t.Single {
			for _, r := range rows {
				tokens = append(tokens, r...)
			}
			ok = c05LayInOrder(text, tokens)
		} else {
			lines := strings.Split(strings.TrimSuffix(text, "\n"), "\n")
			want := len(rows)
			if !t.NoHeader {
				want++
			}
			if len(lines) != want {
				ok = false
			} else {
				li := 0
				if !t.NoHeader {
					ok = c05LayInOrder(lines[0], tokens)
					li = 1
				}
				for i, r := range rows {
					ok = ok && c05LayInOrder(lines[li+i], r)
				}
			}
		}
		if !ok {
			c.Violate(sig("column-names-or-cells-missing-from-the-committed-file"), where, k)
		}
		return
	}
	fresh := drv.New(dir)
	gcols, grows, err := c05LayView(fresh, t.Pre+" SELECT * FROM "+ident+";")
	fresh.Close()
	if err != nil {
		c.Violate(sig("committed-file-unreadable"), fmt.Sprintf("%s; a fresh process reading it through the same definition: %v", where, err), k)
		return
	}
	got := c05LayShow(gcols, grows, t.NoHeader)
	if len(rows) == 0 && len(grows) == 0 && (t.NoHeader || strings.HasPrefix(t.Name, "json") || t.Name == "ltsv") {
		return // no record, and the layout keeps the column names in the records
	}
	if got != seen {
		c.Violate(sig("committed-file-differs"), fmt.Sprintf("%s; a fresh process reading it through the same definition sees %s", where, c05LayShow(gcols, grows, false)), k)
	}
}

func c05LayCases() []c05LayCase {
	var out []c05LayCase
	for _, t := range c05LayTables {
		for _, s := range c05LayStmts {
			out = append(out, c05LayCase{"layouts", t.Name, s.Name})
		}
	}
	return out
}

func c05LayRun(c *core.Ctx) {
	dir := core.Scratch("c05layouts")
	for i, k := range c05LayCases() {
		if !c.Mine(int64(i)) {
			continue
		}
		if c.Expired() {
			c.Incomplete("time budget reached in family layouts")
			return
		}
		c05LayOne(c, dir, k)
	}
}

func c05LayReplay(c *core.Ctx, payload json.RawMessage) bool {
	var k c05LayCase
	if json.Unmarshal(payload, &k) != nil || k.Family != "layouts" {
		return false
	}
	fmt.Printf("replaying family layouts: %+v\n", k)
	c05LayOne(c, core.Scratch("c05layouts-replay"), k)
	return true
}
