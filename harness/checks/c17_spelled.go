package checks

import (
	"fmt"
	"strconv"
	"strings"

	"verif/harness/internal/core"
	"verif/harness/internal/drv"
	"verif/harness/internal/rv"
)

// Extra family for C17: "the rows with the same PARTITION BY values" when equal values are spelled differently
// in the file (1 / 01 / +1, 2.5 / 2.50 / 25e-1). Integers are only mixed with integers and floats with floats,
// where the documented comparison leaves no doubt that the values are equal.
func init() {
	core.Extend("C17", "family spelled: all sequences of 1..4 rows over partition values {1, 01, +1, 2.5, 2.50, 25e-1, 3, NULL} (CSV texts) x COUNT(*), SUM, ROW_NUMBER, LISTAGG, FIRST_VALUE, LAG OVER (PARTITION BY p [ORDER BY id]); "+
		"reference: partitions by value equality, functions by definition", c17SpelledRun)
}

// c17OnlySeq, when set (replay), restricts the families spelled and wide-keys to the one table with this column
var c17OnlySeq []string

var c17SpelledVals = []string{"", "1", "01", "+1", "2.5", "2.50", "25e-1", "3"}

func c17SpelledRun(c *core.Ctx) {
	if c17SkipFamily("spelled") {
		return
	}
	dir := core.Scratch("c17spelled")
	maxRows := 3
	if c.Thorough() || c17OnlySeq != nil {
		maxRows = 4
	}
	const sql = "SELECT id, COUNT(*) OVER (PARTITION BY p), SUM(v) OVER (PARTITION BY p), ROW_NUMBER() OVER (PARTITION BY p ORDER BY id), LISTAGG(id, '-') OVER (PARTITION BY p ORDER BY id), " +
		"FIRST_VALUE(id) OVER (PARTITION BY p ORDER BY id), LAG(id) OVER (PARTITION BY p ORDER BY id) FROM t ORDER BY id"
	var idx int64
	n := len(c17SpelledVals)
	for k := 1; k <= maxRows; k++ {
		total := 1
		for i := 0; i < k; i++ {
			total *= n
		}
		for code := 0; code < total; code++ {
			idx++
			ps := make([]string, k)
			x := code
			for i := range ps {
				ps[i] = c17SpelledVals[x%n]
				x /= n
			}
			if c17OnlySeq != nil {
				if strings.Join(ps, ",") != strings.Join(c17OnlySeq, ",") {
					continue
				}
			} else if !c.Mine(idx) {
				continue
			}
			if c.Expired() {
				c.Incomplete("time budget reached in family spelled")
				return
			}
			var sb strings.Builder
			sb.WriteString("id,p,v\n")
			for i, p := range ps {
				fmt.Fprintf(&sb, "%d,%s,%d\n", i+1, p, (i+1)*10)
			}
			drv.ClearDir(dir)
			drv.WriteFiles(dir, map[string]string{"t.csv": sb.String()})
			env := drv.New(dir)
			res := env.Exec(sql)
			var rows [][]rv.V
			if res.Err == nil && res.Panic == nil && len(res.Views) == 1 {
				rows = drv.Rows(res.Views[0])
			}
			env.Close()
			// reference
			vals := make([]rv.V, k)
			for i, p := range ps {
				if p == "" {
					vals[i] = rv.N()
				} else {
					vals[i] = rv.S(p)
				}
			}
			same := func(i, j int) bool {
				if vals[i].K == rv.Null || vals[j].K == rv.Null {
					return vals[i].K == vals[j].K
				}
				return rv.Equivalent(vals[i], vals[j])
			}
			nontrivial := false
			var want []string
			for i := 0; i < k; i++ {
				cnt, sum, rn, first, lag := 0, 0, 0, 0, "NULL"
				var list []string
				for j := 0; j < k; j++ {
					if !same(i, j) {
						continue
					}
					if i != j && ps[i] != ps[j] {
						nontrivial = true
					}
					cnt++
					sum += (j + 1) * 10
					list = append(list, strconv.Itoa(j+1))
					if first == 0 {
						first = j + 1
					}
					if j < i {
						lag = strconv.Itoa(j + 1)
					}
					if j <= i {
						rn++
					}
				}
				want = append(want, fmt.Sprintf("%d|%d|%d|%d|%s|%d|%s", i+1, cnt, sum, rn, strings.Join(list, "-"), first, lag))
			}
			var got []string
			for _, r := range rows {
				f := make([]string, len(r))
				for i, v := range r {
					switch v.K {
					case rv.Null:
						f[i] = "NULL"
					case rv.Int:
						f[i] = strconv.FormatInt(v.I, 10)
					case rv.Float:
						f[i] = strconv.FormatFloat(v.F, 'f', -1, 64)
					default:
						f[i] = v.S
					}
				}
				got = append(got, strings.Join(f, "|"))
			}
			c.Eval("spelled:"+strings.Join(ps, ","), nontrivial)
			if res.Err != nil || res.Panic != nil || strings.Join(got, " ") != strings.Join(want, " ") {
				c.Violate("spelled: rows whose PARTITION BY values are equal but spelled differently are not one partition (or the functions are not computed over the partition)",
					fmt.Sprintf("table p = %q (id 1.., v = 10*id): %s\ncsvq gives (id|count|sum|row_number|listagg|first_value|lag) %v (err=%v panic=%v)\nthe definition gives %v", ps, sql, got, res.Err, res.Panic, want),
					map[string]any{"family": "spelled", "p": ps})
			}
		}
	}
}
