package checks

import (
	"encoding/json"
	"fmt"
	"strings"
	"time"

	"verif/harness/internal/core"
	"verif/harness/internal/drv"
	"verif/harness/internal/rv"
)

// Extra family for C06: the datetime rung of the coercion ladder under a session time zone other than UTC. A text
// without an offset is a wall-clock time of the session's zone, a text with an offset (or Z) names its own; two
// texts that both are datetimes compare as the instants they denote.
func init() {
	core.Extend("C06", "family zones: 3 session time zones (UTC, Asia/Tokyo, America/New_York) x all ordered pairs over 14 spellings of 4 neighbouring instants (blank / T / slash separated, date only, fraction, +09:00, -05:00, Z) x the six comparison operators; "+
		"reference: wall-clock texts in the session's zone, offset texts in their own, compared as instants", c06ZonesRun)
}

type c06Spelling struct {
	text   string
	layout string // Go layout; wall = no zone in the text
	wall   bool
}

var c06Spellings = []c06Spelling{
	{"2012-02-03 09:18:15", "2006-01-02 15:04:05", true},
	{"2012-02-03T09:18:15", "2006-01-02T15:04:05", true},
	{"2012/02/03 09:18:15", "2006/01/02 15:04:05", true},
	{"2012-02-03 09:18:15.000", "2006-01-02 15:04:05.000", true},
	{"2012-02-03T09:18:15.5", "2006-01-02T15:04:05.9", true},
	{"2012-02-03", "2006-01-02", true},
	{"2012-02-03 00:00:00", "2006-01-02 15:04:05", true},
	{"2012-02-03T09:18:15+09:00", time.RFC3339, false},
	{"2012-02-03T00:18:15Z", time.RFC3339, false},
	{"2012-02-02T19:18:15-05:00", time.RFC3339, false},
	{"2012-02-03T09:18:15Z", time.RFC3339, false},
	{"2012-02-03T09:18:15-05:00", time.RFC3339, false},
	{"2012-02-03 09:18:14", "2006-01-02 15:04:05", true},
	{"2012-02-03T09:18:16", "2006-01-02T15:04:05", true},
}

type c06ZoneCase struct {
	Family string `json:"family"`
	Zone   string `json:"session_time_zone"`
	A      string `json:"a"`
	B      string `json:"b"`
}

func c06ZoneRef(zone string, s c06Spelling) (time.Time, error) {
	loc, err := time.LoadLocation(zone)
	if err != nil {
		return time.Time{}, err
	}
	if s.wall {
		return time.ParseInLocation(s.layout, s.text, loc)
	}
	return time.Parse(s.layout, s.text)
}

func c06ZonesRun(c *core.Ctx) {
	dir := core.Scratch("c06zones")
	ops := []string{"=", "<>", "<", "<=", ">", ">="}
	var idx int64
	for _, zone := range []string{"UTC", "Asia/Tokyo", "America/New_York"} {
		if _, err := time.LoadLocation(zone); err != nil {
			c.Observe("zones_family_unavailable_time_zones", zone)
			continue
		}
		env := drv.New(dir)
		if r := env.Exec("SET @@TIMEZONE TO '" + zone + "';"); r.Err != nil {
			c.Observe("zones_family_unavailable_time_zones", zone+": "+r.Err.Error())
			env.Close()
			continue
		}
		// which spellings csvq takes for a datetime at all is the main family's subject
		var known []c06Spelling
		for _, s := range c06Spellings {
			r := env.Exec("SELECT DATETIME('" + s.text + "') IS NOT NULL;")
			if r.Err == nil && len(r.Views) == 1 && len(drv.Rows(r.Views[0])) == 1 && drv.Rows(r.Views[0])[0][0].Tern3() == rv.T {
				known = append(known, s)
			} else {
				c.Observe("zones_family_spellings_not_taken_for_datetimes", s.text)
			}
		}
		for _, a := range known {
			for _, b := range known {
				idx++
				if !c.Mine(idx) {
					continue
				}
				ta, e1 := c06ZoneRef(zone, a)
				tb, e2 := c06ZoneRef(zone, b)
				if e1 != nil || e2 != nil {
					c.Incomplete(fmt.Sprintf("family zones: reference cannot parse %q / %q: %v %v", a.text, b.text, e1, e2))
					continue
				}
				var exprs []string
				for _, op := range ops {
					exprs = append(exprs, fmt.Sprintf("'%s' %s '%s'", a.text, op, b.text))
				}
				r := env.Exec("SELECT " + strings.Join(exprs, ", ") + ";")
				c.Eval("zones|"+zone+"|"+a.text+"|"+b.text, !ta.Equal(tb) || a.text != b.text)
				if r.Err != nil || r.Panic != nil || len(r.Views) != 1 || len(drv.Rows(r.Views[0])) != 1 {
					c.Violate("zones:error", fmt.Sprintf("zone %s: comparing %q and %q: %v %v", zone, a.text, b.text, r.Err, r.Panic), c06ZoneCase{"zones", zone, a.text, b.text})
					continue
				}
				row := drv.Rows(r.Views[0])[0]
				want := []bool{ta.Equal(tb), !ta.Equal(tb), ta.Before(tb), !ta.After(tb), ta.After(tb), !ta.Before(tb)}
				for i, op := range ops {
					w := rv.F
					if want[i] {
						w = rv.T
					}
					if row[i].Tern3() != w {
						c.Violate("zones:comparison-of-two-datetime-texts:"+zoneKind(a, b), fmt.Sprintf("session time zone %s: '%s' %s '%s' is %s; the texts denote %s and %s", zone, a.text, op, b.text, row[i].Key(), ta.UTC().Format(time.RFC3339Nano), tb.UTC().Format(time.RFC3339Nano)), c06ZoneCase{"zones", zone, a.text, b.text})
						break
					}
				}
			}
		}
		env.Close()
	}
}

func zoneKind(a, b c06Spelling) string {
	switch {
	case a.wall && b.wall:
		return "both-without-offset"
	case !a.wall && !b.wall:
		return "both-with-offset"
	}
	return "one-with-offset"
}

func c06ZonesReplay(c *core.Ctx, payload json.RawMessage) bool {
	var k c06ZoneCase
	if json.Unmarshal(payload, &k) != nil || k.Family != "zones" {
		return false
	}
	fmt.Printf("replaying family zones: the whole family is run again (it is small): %+v\n", k)
	c06ZonesRun(c)
	return true
}
