//go:build verifx

package checks

import (
	"verif/harness/internal/fsx"
)

// Family blocks (C09): a table is held for update "from the first data-changing or FOR UPDATE statement until the
// transaction ends", and the manual (Transaction Management, Usage Flow in a Procedure) ends a transaction at a COMMIT or
// ROLLBACK statement or at the end of the procedure - not at the end of a block of statements. The statements that run a
// block of other statements (IF / ELSEIF / ELSE, CASE with conditions and with a comparison value, WHILE, WHILE IN over a
// cursor, the body of a user-defined function) are therefore transparent for the hold: a program that takes the table,
// then runs such a statement, then goes on, still holds the table afterwards. Every process is a non-interactive run
// (Tx.AutoCommit set, as action.Run does), the second process increments the table, all interleavings are explored.
//
// Enumerated: {how the table is taken: SELECT ... FOR UPDATE, UPDATE; thorough: DELETE, INSERT} x {the block statement
// and which of its branches runs, one statement per branch; the taking statement before the block or inside the branch}
// and the read-modify-write through a variable across a block (the value read under FOR UPDATE is written back after the
// block).
//
// Oracle: (in every state) between the end of the taking statement and the beginning of the first process's commit /
// release after its last statement has begun, the second process does not install new contents of the table; (terminal)
// the counter equals the initial value plus the committed increments, programs end well or by a lock time-out, no
// control file remains.
const c09BlocksRule = "family blocks: programs with auto-commit that take t {SELECT FOR UPDATE, UPDATE; thorough: DELETE, INSERT}, then run a statement with a block {IF then / else / elseif / no branch, CASE when / CASE value else, WHILE with an IF inside, a user-defined function with an IF in its body; thorough: nested IF, WHILE IN cursor, plain WHILE, CASE value when} - or take t inside the branch -, then go on (two further statements, or the write-back of a value read under FOR UPDATE) against a concurrent increment, all interleavings; " +
	"oracle: t is not written by the other process between the end of the taking statement and the end of the first one's transaction (a block does not end it: manual, Transaction Management); both committed changes survive"

func init() { c09FamRegister("blocks", c09BlocksRule, c09BlocksList) }

type c09Block struct {
	name     string
	prelude  string // statements before the taking statement
	nPrelude int    // how many statement points the prelude has
	block    string
	thorough bool // only in the thorough tier (whatever the taking statement)
	quickUPD bool // in the quick tier also after UPDATE (SELECT FOR UPDATE: every block that is not thorough)
}

func c09BlocksList() []c09FamScenario {
	const fn = "DECLARE f FUNCTION (@a) AS BEGIN IF @a > 0 THEN SELECT 1; END IF; RETURN @a; END;"
	blocks := []c09Block{
		{name: "IF then", block: "IF 1 = 1 THEN SELECT 1; END IF;", quickUPD: true},
		{name: "IF else", block: "IF 1 = 2 THEN SELECT 1; ELSE SELECT 2; END IF;"},
		{name: "IF elseif", block: "IF 1 = 2 THEN SELECT 1; ELSEIF 1 = 1 THEN SELECT 2; END IF;"},
		{name: "IF no branch", block: "IF 1 = 2 THEN SELECT 1; END IF;", thorough: true},
		{name: "CASE when", block: "CASE WHEN 1 = 1 THEN SELECT 1; END CASE;", quickUPD: true},
		{name: "CASE value else", block: "CASE 3 WHEN 1 THEN SELECT 1; ELSE SELECT 2; END CASE;"},
		{name: "CASE value when", block: "CASE 1 WHEN 1 THEN SELECT 1; ELSE SELECT 2; END CASE;", thorough: true},
		{name: "WHILE (IF inside)", prelude: "VAR @i := 0;", nPrelude: 1, block: "WHILE @i < 2 DO @i := @i + 1; IF @i = 1 THEN SELECT 1; END IF; END WHILE;"},
		{name: "WHILE", prelude: "VAR @i := 0;", nPrelude: 1, block: "WHILE @i < 2 DO @i := @i + 1; END WHILE;", thorough: true},
		{name: "WHILE (IF CONTINUE)", prelude: "VAR @i := 0;", nPrelude: 1, block: "WHILE @i < 2 DO @i := @i + 1; IF @i = 1 THEN CONTINUE; END IF; SELECT 1; END WHILE;", thorough: true},
		{name: "function (IF in body)", prelude: fn, nPrelude: 1, block: "SELECT f(1);"},
		{name: "IF in IF", block: "IF 1 = 1 THEN IF 2 = 2 THEN SELECT 1; END IF; SELECT 2; END IF;", thorough: true},
		{name: "WHILE IN cursor", prelude: "DECLARE cur CURSOR FOR SELECT 1 UNION ALL SELECT 2; OPEN cur;", nPrelude: 2, block: "WHILE VAR @c IN cur DO SELECT @c; END WHILE;", thorough: true},
	}
	type take struct {
		name, stmt string
		thorough   bool
	}
	takes := []take{
		{name: "SELFU", stmt: "SELECT n FROM t FOR UPDATE;"},
		{name: "UPDATE", stmt: "UPDATE t SET n = n + 1;"},
		{name: "DELETE", stmt: "DELETE FROM t WHERE n < 0;", thorough: true},
		{name: "INSERT", stmt: "INSERT INTO t VALUES (100);", thorough: true},
	}
	const inc = "UPDATE t SET n = n + 1;"
	const tail = " SELECT 1; SELECT 'end';"
	slots := []int64{2, 4, 7, 8, 9, 15, 16, 13, 14}
	var out []c09FamScenario
	add := func(name, p1 string, from int, noCounter, thorough bool) {
		slot := slots[len(out)%len(slots)]
		out = append(out, c09FamScenario{family: "blocks", name: "blocks: " + name + " || INC", slot: slot, thoroughOnly: thorough,
			build: func() *fsx.Scenario {
				return &fsx.Scenario{Setup: c09Setup(map[string]int{"t.csv": 5}), Check: c09HeldOracle(c09SQLOracle(5), "t", from, noCounter),
					Bodies: func(d string) []func(*fsx.Proc) { return sqlBodies(d, p1, inc) }}
			}})
	}
	for _, tk := range takes {
		for _, b := range blocks {
			quick := !tk.thorough && !b.thorough && (tk.name == "SELFU" || b.quickUPD)
			// an INSERT changes what the terminal oracle reads as the counter: the final value is not judged for it
			noCounter := tk.name == "INSERT"
			p1 := tk.stmt + " " + b.block + tail
			if b.prelude != "" {
				p1 = b.prelude + " " + p1
			}
			add(tk.name+", "+b.name+", 2 statements", p1, b.nPrelude+2, noCounter, !quick)
		}
	}
	// the table is taken inside the branch: the hold lasts beyond the end of the block
	for _, tk := range takes[:2] {
		add("IF then ("+tk.name+" inside), 2 statements", "IF 1 = 1 THEN "+tk.stmt+" END IF;"+tail, 3, false, tk.name != "SELFU")
		add("CASE when ("+tk.name+" inside), 2 statements", "CASE WHEN 1 = 1 THEN "+tk.stmt+" END CASE;"+tail, 3, false, true)
	}
	// read-modify-write through a variable across a block: the value read under FOR UPDATE is written back after it
	for i, b := range blocks {
		if b.name == "IF no branch" || b.name == "WHILE" || b.name == "WHILE (IF CONTINUE)" || b.name == "CASE value when" {
			continue
		}
		p1 := "VAR @n; SELECT n INTO @n FROM t FOR UPDATE; " + b.block + " UPDATE t SET n = @n + 1;"
		if b.prelude != "" {
			p1 = b.prelude + " " + p1
		}
		add("SELFU INTO @n, "+b.name+", t := @n + 1", p1, b.nPrelude+3, false, i != 0 && b.name != "CASE when")
	}
	return out
}
