package checks

import (
	"encoding/json"
	"fmt"
	"os"
	"path/filepath"
	"sort"
	"strings"
	"syscall"
	"time"

	"verif/harness/internal/core"
	"verif/harness/internal/drv"
	"verif/harness/internal/procx"
)

func init() {
	core.Register(&core.Check{
		ID:    "C11",
		Level: "fault_enumeration",
		Rule: "programs (reads, updates, creates, --out, --source, failing / EXIT-ending procedures, runs against stale or foreign-held locks) are run on the real csvq CLI built through the overlay; each is first traced to number its " +
			"file-system and statement points, then re-run once per (point k, injection): SIGINT / SIGTERM / SIGQUIT delivered to the process at point k, or point k made to fail with an errno. one case = (program, k, injection); " +
			"non-trivial = the injection happens after the program made its first change to the directory, or is a fault in a read-only program's locking steps",
		Assume: []string{"a signal is delivered at a file-system or statement point (any other delivery moment is observed by csvq at the next such point at the earliest, because cancellation is only checked there and at record boundaries)",
			"injected errno values stand for the real conditions (the sandbox runs as root, chmod cannot produce them)",
			"a fault injected into the stat/remove of one control file excuses that one file being left behind"},
		Run:    c11Run,
		Replay: c11Replay,
	})
}

type c11Program struct {
	Name     string            `json:"name"`
	Files    map[string]string `json:"files"`
	Args     []string          `json:"args"`
	ReadOnly bool              `json:"read_only"`
	Created  []string          `json:"created,omitempty"`   // tables / out files the program creates when it completes
	HoldLock string            `json:"hold_lock,omitempty"` // file on which the harness holds an exclusive flock(2) during the run (a foreign live holder)
	WantFail bool              `json:"want_fail,omitempty"` // the undisturbed run is expected to fail (error / timeout)
	MapOrder string            `json:"map_order"`           // VERIF_MAPORDER of every run of this program ("" = all map ranges in sorted key order)
	Base     string            `json:"base,omitempty"`      // name without the map order suffix
	Stdin    string            `json:"stdin,omitempty"`     // standard input of the process (families of c11_*.go)
	Broken   string            `json:"broken,omitempty"`    // "stdout", "stderr" or "stdout+stderr": these are pipes nobody reads any more (family pipes)
}

func c11Programs(thorough bool) []c11Program {
	t := "a,b\n1,x\n2,y\n"
	u := "a,c\n1,p\n3,q\n"
	tu := map[string]string{"t.csv": t, "u.csv": u}
	src := "UPDATE t SET b = 'z' WHERE a = 1;\nSELECT * FROM u;\n"
	// a table larger than the writer's buffer: the commit flushes (a point) in the middle of encoding it, so a signal
	// delivered there is first seen by the encoder at a record boundary inside the table
	bigT := "a,b\n" + strings.Repeat("1,"+strings.Repeat("x", 90)+"\n2,"+strings.Repeat("y", 90)+"\n", 40)
	ps := []c11Program{
		{Name: "select", Files: tu, Args: []string{"SELECT * FROM t"}, ReadOnly: true},
		{Name: "select-join", Files: tu, Args: []string{"SELECT * FROM t JOIN u ON t.a = u.a WHERE t.a IN (SELECT a FROM u)"}, ReadOnly: true},
		{Name: "update", Files: tu, Args: []string{"UPDATE t SET b = 'z' WHERE a = 1"}},
		{Name: "update-big", Files: map[string]string{"t.csv": bigT, "u.csv": u}, Args: []string{"UPDATE t SET b = 'z' WHERE a = 1"}},
		{Name: "update-2-tables", Files: tu, Args: []string{"UPDATE t SET b = 'z'; UPDATE u SET c = 'r';"}},
		{Name: "create-insert", Files: tu, Args: []string{"CREATE TABLE `n.csv` (c1, c2); INSERT INTO n VALUES (1, 2);"}, Created: []string{"n.csv"}},
		{Name: "update-create", Files: tu, Args: []string{"UPDATE t SET b = 'z'; CREATE TABLE `n.csv` (c1); INSERT INTO n VALUES (1);"}, Created: []string{"n.csv"}},
		{Name: "create-2-tables", Files: tu, Args: []string{"CREATE TABLE `n.csv` (c1); CREATE TABLE `m.csv` (c1); INSERT INTO n VALUES (1); INSERT INTO m VALUES (2);"}, Created: []string{"n.csv", "m.csv"}},
		// tables without records: the writers of a COMMIT look for a cancellation while they walk the records
		{Name: "delete-all", Files: tu, Args: []string{"DELETE FROM t"}},
		{Name: "delete-all-2-tables-create-empty", Files: tu, Args: []string{"DELETE FROM t; DELETE FROM u; CREATE TABLE `n.csv` (c1, c2);"}, Created: []string{"n.csv"}},
		{Name: "out-nonempty", Files: tu, Args: []string{"-o", "out.csv", "SELECT * FROM t"}, ReadOnly: true, Created: []string{"out.csv"}},
		{Name: "out-empty", Files: tu, Args: []string{"-o", "out.csv", "-f", "csv", "-N", "SELECT * FROM t WHERE a = 99"}, ReadOnly: true},
		{Name: "out-empty-chdir", Files: map[string]string{"t.csv": t, "sub/t.csv": t, "sub/out.csv": "keep\n"}, Args: []string{"-o", "out.csv", "CHDIR 'sub'; SELECT * FROM t WHERE a = 99;"}, ReadOnly: true},
		{Name: "out-chdir-error", Files: map[string]string{"t.csv": t, "sub/t.csv": t, "sub/out.csv": "keep\n"}, Args: []string{"-o", "out.csv", "CHDIR 'sub'; SELECT nosuch FROM t;"}, ReadOnly: true, WantFail: true},
		{Name: "source", Files: map[string]string{"t.csv": t, "u.csv": u, "prog.sql": src}, Args: []string{"-s", "prog.sql"}},
		{Name: "update-then-error", Files: tu, Args: []string{"UPDATE t SET b = 'z'; SELECT nosuch FROM u;"}, WantFail: true},
		{Name: "create-then-error", Files: tu, Args: []string{"CREATE TABLE `n.csv` (c1); INSERT INTO n VALUES (1); UPDATE u SET c = 1/0;"}, WantFail: true},
		// a second table whose path differs from a held one only in letter case: csvq keys its handlers without regard to case and refuses
		{Name: "update-then-create-other-case", Files: tu, Args: []string{"UPDATE t SET b = 'z'; CREATE TABLE `T.CSV` (c1);"}, WantFail: true},
		{Name: "create-then-create-other-case", Files: tu, Args: []string{"CREATE TABLE `n.csv` (c1); CREATE TABLE `N.CSV` (c1);"}, WantFail: true},
		{Name: "update-then-exit", Files: tu, Args: []string{"UPDATE t SET b = 'z'; EXIT;"}},
		{Name: "update-rollback-update", Files: tu, Args: []string{"UPDATE t SET b = 'z'; ROLLBACK; UPDATE u SET c = 'r';"}},
		{Name: "select-for-update", Files: tu, Args: []string{"SELECT * FROM t FOR UPDATE"}, ReadOnly: true},
		{Name: "update-vs-stale-lock", Files: map[string]string{"t.csv": t, ".t.csv.lock": ""}, Args: []string{"--wait-timeout", "0.05", "UPDATE t SET b = 'z'"}, WantFail: true, ReadOnly: true},
		{Name: "update-vs-stale-rlock", Files: map[string]string{"t.csv": t, ".t.csv.abcdefghijkl.rlock": ""}, Args: []string{"--wait-timeout", "0.05", "UPDATE t SET b = 'z'"}, WantFail: true, ReadOnly: true},
		{Name: "select-vs-stale-lock", Files: map[string]string{"t.csv": t, ".t.csv.lock": ""}, Args: []string{"--wait-timeout", "0.05", "SELECT * FROM t"}, WantFail: true, ReadOnly: true},
		{Name: "select-vs-foreign-flock", Files: tu, Args: []string{"--wait-timeout", "0.05", "SELECT * FROM t"}, HoldLock: "t.csv", WantFail: true, ReadOnly: true},
		{Name: "update-vs-foreign-flock", Files: tu, Args: []string{"--wait-timeout", "0.05", "UPDATE u SET c = 'r'; UPDATE t SET b = 'z';"}, HoldLock: "t.csv", WantFail: true, ReadOnly: true},
	}
	if thorough {
		ps = append(ps,
			c11Program{Name: "while-update", Files: tu, Args: []string{"VAR @i := 0; WHILE @i < 2 DO UPDATE t SET b = @i; @i := @i + 1; END WHILE;"}},
			c11Program{Name: "update-commit-create-error", Files: tu, Args: []string{"UPDATE t SET b = 'z'; COMMIT; CREATE TABLE `n.csv` (c1); SELECT nosuch FROM u;"}, WantFail: true},
			c11Program{Name: "replace-alter", Files: tu, Args: []string{"REPLACE INTO t (a, b) USING (a) VALUES (2, 'q'), (5, 'n'); ALTER TABLE u ADD d;"}},
		)
	}
	return ps
}

type c11Injection struct {
	Kind string `json:"kind"` // "signal" | "fail" | "none"
	Arg  string `json:"arg"`
}

type c11Payload struct {
	Program   c11Program   `json:"program"`
	K         int          `json:"point"`
	PointName string       `json:"point_name"`
	Inj       c11Injection `json:"injection"`
}

func c11Exec(dir string, p c11Program, env []string) procx.Outcome {
	out := c11ExecT(dir, p, env, 40*time.Second)
	if out.Killed {
		// no exit within 40 s: a hang - or a machine so loaded that the process was starved. Elapsed time is no oracle:
		// the same case is run again with ten times the patience, and only a run that does not end then either is a hang.
		out = c11ExecT(dir, p, env, 400*time.Second)
	}
	return out
}

func c11ExecT(dir string, p c11Program, env []string, timeout time.Duration) procx.Outcome {
	drv.ClearDir(dir)
	drv.WriteFiles(dir, p.Files)
	var held *os.File
	if p.HoldLock != "" {
		fp, err := os.OpenFile(filepath.Join(dir, p.HoldLock), os.O_RDWR, 0)
		if err == nil && syscall.Flock(int(fp.Fd()), syscall.LOCK_EX|syscall.LOCK_NB) == nil {
			held = fp
		}
	}
	if !strings.HasPrefix(strings.Join(env, " "), "VERIF_MAPORDER=") {
		env = append([]string{"VERIF_MAPORDER=" + p.MapOrder}, env...)
	}
	env = append(env, "VERIF_POLL_POINTS=1") // a signal can also arrive right before any look at the cancellation
	var out procx.Outcome
	if p.Broken != "" {
		out = c11ExecBroken(dir, p, env, timeout)
	} else {
		out = procx.Exec(procx.Run{Dir: dir, Args: p.Args, Env: env, Stdin: p.Stdin, Timeout: timeout})
	}
	if held != nil {
		syscall.Flock(int(held.Fd()), syscall.LOCK_UN)
		held.Close()
	}
	return out
}

// c11Judge applies the oracle to the directory left by one run.
// c11WritePhaseEnd is the number of the last point at which the commit of the undisturbed run still writes table
// contents (truncate / write); later points finalize the files one by one, where a fault can only stop half-way.
func c11WritePhaseEnd(ref []procx.TracePoint) int {
	end := 0
	for _, tp := range ref {
		if tp.Name == "write" || tp.Name == "truncate" {
			end = tp.K
		}
	}
	return end
}

func c11Judge(c *core.Ctx, dir string, p c11Program, out procx.Outcome, final map[string]string, inj c11Injection, k int, pt procx.TracePoint, writePhaseEnd int) {
	payload := c11Payload{Program: p, K: k, PointName: pt.String(), Inj: inj}
	where := fmt.Sprintf("program %s %q, %s %s at point %d %s: exit %d", p.Name, p.Args, inj.Kind, inj.Arg, k, pt.String(), out.Exit)
	cls := inj.Kind
	if inj.Kind == "fail" {
		cls = "fault-at-" + pt.Name
	}
	if inj.Kind == "signal" && inj.Arg != "INT" && inj.Arg != "TERM" && inj.Arg != "QUIT" {
		cls = "signal-" + inj.Arg // a signal the property does not name: a class of its own
	}
	if p.Broken != "" {
		cls = "broken-pipe-" + p.Broken
	}
	if out.Killed {
		c.Violate("hang:"+cls, where+": no exit within 40 s", payload)
		return
	}
	if strings.Contains(out.Stderr, "panic:") || strings.Contains(out.Stderr, "Fatal Error") || strings.Contains(out.Stderr, "goroutine ") && inj.Arg != "QUIT" {
		c.Violate("internal-failure:"+cls, where+": "+clip(out.Stderr), payload)
	}
	snap := drv.DirSnapshot(dir)
	// a fault injected into the stat or remove of one file excuses that file being left behind
	// (reader-lock names are random per run, so they are excused by table)
	excusedName := ""
	if inj.Kind == "fail" && (pt.Name == "remove" || pt.Name == "stat") {
		excusedName = filepath.Base(pt.Path)
	}
	isExcused := func(n string) bool {
		if excusedName == "" {
			return false
		}
		n = filepath.Base(n)
		if n == excusedName {
			return true
		}
		if strings.HasSuffix(n, ".rlock") && strings.HasSuffix(excusedName, ".rlock") && len(n) == len(excusedName) && n[:len(n)-18] == excusedName[:len(n)-18] {
			return true
		}
		return false
	}
	var names []string
	for n := range snap {
		names = append(names, n)
	}
	sort.Strings(names)
	for _, n := range names {
		_, initial := p.Files[n]
		if strings.HasSuffix(n, "/") {
			for f := range p.Files {
				if strings.HasPrefix(f, n) {
					initial = true // a directory of the initial state
				}
			}
			if initial {
				continue
			}
		}
		switch {
		case strings.HasPrefix(filepath.Base(n), "."):
			if !initial && !isExcused(n) {
				kind := "lock"
				if strings.HasSuffix(n, ".rlock") {
					kind = "rlock"
				} else if strings.HasSuffix(n, ".temp") {
					kind = "temp"
				}
				c.Violate("leftover-"+kind+"-file:"+cls, where+": "+n+" left behind; directory: "+fmt.Sprint(names), payload)
			}
		case !initial:
			want, ok := final[n]
			isCreated := false
			for _, cr := range p.Created {
				if cr == n {
					isCreated = true
				}
			}
			if isExcused(n) {
				continue
			}
			isOut := false
			for i, a := range p.Args {
				if (a == "-o" || a == "--out") && i+1 < len(p.Args) && p.Args[i+1] == n {
					isOut = true
				}
			}
			if isOut {
				// an --out file is not a table of the transaction: the property only requires that an EMPTY one is removed
				if snap[n] == "" {
					c.Violate("empty-out-file-left:"+cls, where+": "+n+" exists and is empty", payload)
				}
				continue
			}
			if !isCreated || !ok {
				c.Violate("unexpected-new-file:"+cls, where+": "+n+" exists though the undisturbed program does not create it (uncommitted transaction?)", payload)
			} else if snap[n] != want {
				c.Violate("half-created-file:"+cls, fmt.Sprintf("%s: %s exists with %q; a completed run writes %q, an uncommitted one must remove it", where, n, clip(snap[n]), clip(want)), payload)
			}
		}
	}
	// a transaction that left EVERY table it updates at its old contents was not committed: none of the tables it
	// creates may exist then (programs with one transaction; an --out file is not a table). Judged for injections
	// up to the end of the commit's write phase: a fault while the files are finalized one by one can stop half-way.
	if len(p.Created) > 0 && k >= 1 && k <= writePhaseEnd && !strings.Contains(strings.ToUpper(strings.Join(p.Args, " ")), "COMMIT") {
		updated, allOld := 0, true
		for n, old := range p.Files {
			if strings.HasPrefix(filepath.Base(n), ".") || final[n] == old {
				continue
			}
			updated++
			if snap[n] != old {
				allOld = false
			}
		}
		if updated > 0 && allOld {
			for _, cr := range p.Created {
				isOut := false
				for i, a := range p.Args {
					if (a == "-o" || a == "--out") && i+1 < len(p.Args) && p.Args[i+1] == cr {
						isOut = true
					}
				}
				if _, exists := snap[cr]; exists && !isOut && !isExcused(cr) {
					c.Violate("created-table-of-uncommitted-transaction:"+cls, fmt.Sprintf("%s: %s exists although every table the transaction updates still holds its old contents (the transaction was not committed)", where, cr), payload)
				}
			}
		}
	}
	for n, old := range p.Files {
		got, exists := snap[n]
		if strings.HasPrefix(filepath.Base(n), ".") {
			if !exists {
				c.Violate("foreign-control-file-removed:"+cls, where+": the pre-existing "+n+" (not created by this process) was removed", payload)
			}
			continue
		}
		switch {
		case !exists:
			c.Violate("table-missing:"+cls, where+": "+n+" no longer exists", payload)
		case p.ReadOnly && got != old:
			c.Violate("read-only-program-modified-a-file:"+cls, fmt.Sprintf("%s: %s changed from %q to %q", where, n, clip(old), clip(got)), payload)
		case got != old && got != final[n]:
			c.Violate("table-neither-old-nor-new:"+cls, fmt.Sprintf("%s: %s holds %q", where, n, clip(got)), payload)
		}
	}
}

func c11Run(c *core.Ctx) {
	dir := core.Scratch("c11")
	sigsList := []string{"INT", "TERM"}
	errnos := []string{"EACCES", "EIO"}
	if c.Thorough() {
		sigsList = []string{"INT", "TERM", "QUIT"}
		errnos = []string{"EACCES", "ENOENT", "EISDIR", "EROFS", "ENOSPC", "EIO"}
	}
	var idx int64
	var progs []c11Program
	for _, p0 := range c11Programs(c.Thorough()) {
		p0.Base = p0.Name
		orders := c10MapOrders(dir, func(env []string) { c11Exec(dir, p0, env) })
		if c.Shard == 0 {
			c.Add("map_orders_explored", int64(len(orders)))
		}
		for _, mo := range orders {
			p := p0
			p.MapOrder = mo
			if mo != "" {
				p.Name += "[map " + mo + "]"
			}
			progs = append(progs, p)
		}
	}
	for _, p := range progs {
		tr := filepath.Join(filepath.Dir(dir), fmt.Sprintf("c11trace-%s-%s.txt", p.Base, strings.ReplaceAll(p.MapOrder, ":", "_")))
		ref := c11Exec(dir, p, []string{"VERIF_TRACE=" + tr})
		if (ref.Exit != 0) != p.WantFail {
			c.Violate("undisturbed-run-unexpected-exit:"+p.Name, fmt.Sprintf("program %s %q exits %d (%s) with no injection", p.Name, p.Args, ref.Exit, clip(ref.Stderr)), c11Payload{Program: p, Inj: c11Injection{Kind: "none"}})
			continue
		}
		final := drv.DirSnapshot(dir)
		wpe := c11WritePhaseEnd(ref.Trace)
		c11Judge(c, dir, p, ref, final, c11Injection{Kind: "none"}, 0, procx.TracePoint{}, wpe)
		firstChange := len(ref.Trace) + 1
		for _, tp := range ref.Trace {
			if strings.HasPrefix(filepath.Base(tp.Path), ".") || tp.Name == "create" || tp.Name == "rename" || tp.Name == "write" {
				firstChange = tp.K
				break
			}
		}
		if c.Shard == 0 {
			c.Observe("program_list", fmt.Sprintf("%s: %d points, undisturbed exit %d", p.Name, len(ref.Trace), ref.Exit))
		}
		for _, tp := range ref.Trace {
			var injs []c11Injection
			for _, s := range sigsList {
				injs = append(injs, c11Injection{"signal", s})
			}
			if tp.Name != "stmt" && tp.Name != "wait" && tp.Name != "glob" && tp.Name != "poll" {
				for _, e := range errnos {
					injs = append(injs, c11Injection{"fail", e})
				}
			}
			// a second signal while csvq is unwinding from the first one
			if tp.K >= firstChange && (c.Thorough() || p.Base == "update-create" || p.Base == "update-2-tables" || p.Base == "select-join") {
				span := 3
				if c.Thorough() {
					span = len(ref.Trace)
				}
				for j := tp.K + 1; j <= tp.K+span && j <= len(ref.Trace)+2; j++ {
					injs = append(injs, c11Injection{"signal2", fmt.Sprintf("INT+TERM@%d", j)}, c11Injection{"signal2", fmt.Sprintf("TERM+INT@%d", j)})
				}
			}
			for _, inj := range injs {
				idx++
				if !c.Mine(idx) {
					continue
				}
				if c.Expired() {
					c.Incomplete("time budget reached")
					return
				}
				env := []string{}
				if inj.Kind == "signal" {
					env = append(env, fmt.Sprintf("VERIF_SIGNAL_AT=%d:%s", tp.K, inj.Arg))
				} else if inj.Kind == "signal2" {
					env = append(env, c11Signal2Env(tp.K, inj.Arg)...)
				} else {
					env = append(env, fmt.Sprintf("VERIF_FAIL_AT=%d:%s", tp.K, inj.Arg))
				}
				env = append(env, "VERIF_TRACE="+tr+".inj")
				out := c11Exec(dir, p, env)
				actual := tp
				if tp.K-1 < len(out.Trace) && out.Trace[tp.K-1].K == tp.K {
					actual = out.Trace[tp.K-1] // point k of this run may concern another file than in the reference run (failure paths range over other maps)
				}
				c11Judge(c, dir, p, out, final, inj, tp.K, actual, wpe)
				c.Eval(fmt.Sprintf("%s@%d:%s%s", p.Name, tp.K, inj.Kind, inj.Arg), tp.K >= firstChange)
				c.Observe("exit_codes", fmt.Sprint(out.Exit))
				if c.WantSample() && tp.K > firstChange && p.Base == "update-create" {
					c.Sample(map[string]any{"program": p.Args, "point": tp.String(), "injection": inj, "exit": out.Exit, "directory_after": keys(drv.DirSnapshot(dir))})
				}
			}
		}
	}
}

// "INT+TERM@j": first signal at point k, second at point j
func c11Signal2Env(k int, arg string) []string {
	var s1, s2 string
	var j int
	a := strings.SplitN(arg, "@", 2)
	ss := strings.SplitN(a[0], "+", 2)
	s1, s2 = ss[0], ss[1]
	fmt.Sscanf(a[1], "%d", &j)
	return []string{fmt.Sprintf("VERIF_SIGNAL_AT=%d:%s", k, s1), fmt.Sprintf("VERIF_SIGNAL2_AT=%d:%s", j, s2)}
}

func c11Replay(c *core.Ctx, payload json.RawMessage) {
	if c11CompetingReplay(c, payload) || c11Panic2Replay(c, payload) {
		return
	}
	var p c11Payload
	if err := json.Unmarshal(payload, &p); err != nil {
		fmt.Println(err)
		return
	}
	dir := core.Scratch("c11")
	tr := filepath.Join(filepath.Dir(dir), "c11trace.txt")
	refProg := p.Program
	refProg.Broken = "" // what a completed run leaves is taken from a run whose output is read
	ref := c11Exec(dir, refProg, []string{"VERIF_TRACE=" + tr})
	final := drv.DirSnapshot(dir)
	env := []string{}
	switch p.Inj.Kind {
	case "signal2":
		env = append(env, c11Signal2Env(p.K, p.Inj.Arg)...)
	case "signal":
		env = append(env, fmt.Sprintf("VERIF_SIGNAL_AT=%d:%s", p.K, p.Inj.Arg))
	case "fail":
		env = append(env, fmt.Sprintf("VERIF_FAIL_AT=%d:%s", p.K, p.Inj.Arg))
	}
	var tp procx.TracePoint
	if p.K >= 1 && p.K <= len(ref.Trace) {
		tp = ref.Trace[p.K-1]
	}
	fmt.Printf("replaying program %s %q with %s %s at point %d %s\n", p.Program.Name, p.Program.Args, p.Inj.Kind, p.Inj.Arg, p.K, tp.String())
	env = append(env, "VERIF_TRACE="+tr+".replay")
	out := c11Exec(dir, p.Program, env)
	for _, t := range out.Trace {
		fmt.Printf("  %3d %s -> %s\n", t.K, t.String(), t.Result)
	}
	fmt.Printf("  exit %d stderr: %s\n", out.Exit, clip(out.Stderr))
	if p.K-1 < len(out.Trace) && p.K >= 1 {
		tp = out.Trace[p.K-1]
	}
	c11Judge(c, dir, p.Program, out, final, p.Inj, p.K, tp, c11WritePhaseEnd(ref.Trace))
}
