package checks

import (
	"fmt"
	"regexp"
	"strings"

	"verif/harness/internal/core"
	"verif/harness/internal/drv"
)

// Extra family for C05: a temporary table declared inside a block (not the global one, not the executing one).
// Differential oracle: the statement executed one or two blocks deeper than the declaration must leave the table
// exactly as the same statement executed in the declaring block itself, and report the same log line.
func init() {
	core.Extend("C05", "family local: a temporary table declared in an IF / WHILE / function body x 7 data-changing statements executed 0, 1 or 2 blocks deeper (IF, WHILE, CASE) x read back in the declaring block; "+
		"oracle: same table and same log as with the statement in the declaring block", c05LocalRun)
}

var c05LocalStmts = []string{
	"INSERT INTO m VALUES ('c', 3), ('d', 4)",
	"UPDATE m SET n = n * 10 WHERE k <> 'a'",
	"DELETE FROM m WHERE n = 1",
	"REPLACE INTO m (k, n) USING (k) VALUES ('b', 20), ('z', 26)",
	"ALTER TABLE m ADD x DEFAULT n + 1",
	"ALTER TABLE m DROP n",
	"ALTER TABLE m RENAME n TO nn",
}

var c05Pos = regexp.MustCompile(`\[L:[0-9]+ C:[0-9]+\]`)

var c05LocalOuter = []string{"if", "while", "func"}
var c05LocalInner = []string{"", "if", "while", "case", "if-if", "while-if"}

func c05LocalProgram(outer, inner, stmt string) string {
	body := stmt + ";"
	for _, w := range strings.Split(inner, "-") {
		switch w {
		case "if":
			body = "IF TRUE THEN " + body + " END IF;"
		case "while":
			body = "VAR @j" + fmt.Sprint(len(body)) + " := 0; WHILE @j" + fmt.Sprint(len(body)) + " < 1 DO @j" + fmt.Sprint(len(body)) + " := @j" + fmt.Sprint(len(body)) + " + 1; " + body + " END WHILE;"
		case "case":
			body = "CASE WHEN TRUE THEN " + body + " END CASE;"
		}
	}
	core := "DECLARE m VIEW (k, n); INSERT INTO m VALUES ('a', 1), ('b', 2); " + body + " SELECT * FROM m; SELECT COUNT(*) FROM m;"
	switch outer {
	case "if":
		return "IF TRUE THEN " + core + " END IF;"
	case "while":
		return "VAR @i := 0; WHILE @i < 1 DO @i := @i + 1; " + core + " END WHILE;"
	}
	return "DECLARE fl FUNCTION () AS BEGIN " + core + " RETURN 0; END; VAR @r := fl();"
}

func c05LocalRun(c *core.Ctx) {
	dir := core.Scratch("c05local")
	var idx int64
	for _, outer := range c05LocalOuter {
		for _, stmt := range c05LocalStmts {
			// reference: the statement in the declaring block
			var want string
			for _, inner := range c05LocalInner {
				idx++
				prog := c05LocalProgram(outer, inner, stmt)
				env := drv.NewText(dir)
				r := env.Exec(prog)
				env.Close()
				got := c05Pos.ReplaceAllString(fmt.Sprintf("%s|err=%v|panic=%v", r.Out, r.Err, r.Panic), "[pos]")
				if inner == "" {
					want = got
					continue
				}
				if !c.Mine(idx) {
					continue
				}
				c.Eval(fmt.Sprintf("local:%s:%s:%s", outer, inner, stmt), true)
				if got != want {
					c.Violate("local:"+strings.Fields(stmt)[0]+": a statement on a block-local temporary table behaves differently when executed in a nested block",
						fmt.Sprintf("table m declared in a %s block, statement %q executed inside %s blocks:\n%s\nprints %q\nwith the statement in the declaring block itself: %q", outer, stmt, inner, prog, clip(got), clip(want)),
						map[string]any{"family": "local", "program": prog})
				}
			}
		}
	}
}
