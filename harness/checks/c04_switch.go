package checks

import (
	"fmt"
	"os"
	"path/filepath"
	"strconv"
	"strings"

	"verif/harness/internal/core"
	"verif/harness/internal/procx"
)

// Extra family for C04: the bucket of a row is a function of its values and of the session's settings AT THE TIME OF
// THE STATEMENT (the documented normalisation reads @@DATETIME_FORMAT, @@TIMEZONE and @@STRICT_EQUAL) - not of what the
// same process bucketed before under other settings. A program applies the settings F1, runs one bucketing operator
// over a table of datetime-like texts (the "primer"), applies the settings F2 and then asks, for every unordered pair
// of the texts and every bucketing operator, whether the two rows share a bucket. Two oracles:
//   - differential: the answers equal those of the process "F1; F2; questions", which never bucketed anything under F1;
//   - invariant (the reading-independent half of the property, as in the trim family): for a pair of texts neither of
//     which is a number or a boolean, the two rows share a bucket iff csvq's own `=` on the two texts - evaluated in
//     the same process, after F2 - is TRUE (`=` and the bucket key apply one normalisation).
// It runs on the real CLI: whatever outlives a statement lives at least as long as the process.
func init() {
	core.Extend("C04", "family switch: every ordered pair of 9 session settings (datetime formats set / added / cleared, time zones, strict equality, none) x 6 priming bucketing operators (thorough: also priming from a second table) x every unordered pair of 12 datetime-like texts x 8 bucketing operators, "+
		"primed under the first setting and asked under the second in one real csvq process; oracle: the answers of the process that applies both settings and only then buckets, and csvq's own `=` under the present settings for texts that are neither numbers nor booleans", c04SwitchRun)
}

var c04SwitchSettings = []string{
	"",
	"SET @@DATETIME_FORMAT TO '%d.%m.%Y';",
	"SET @@DATETIME_FORMAT TO '%m.%d.%Y';",
	"SET @@DATETIME_FORMAT TO '[\"%d/%m/%Y\", \"%Y%m%d\"]';",
	"SET @@DATETIME_FORMAT TO '';",
	"ADD '%d.%m.%Y' TO @@DATETIME_FORMAT;",
	"SET @@TIMEZONE TO 'Asia/Tokyo';",
	"SET @@TIMEZONE TO 'America/New_York';",
	"SET @@STRICT_EQUAL TO TRUE;",
}

var c04SwitchTexts = []string{
	"01.02.2012", "15.01.2012", "02.01.2012", "01/02/2012", "20120201", "2012-02-01", "2012-02-01 00:00:00",
	"2012-02-01T00:00:00+09:00", "2012-01-31T15:00:00Z", "2012-01-02", "abc", " ABC ",
}

// priming statements: each buckets every text of the table once
var c04SwitchPrimers = []struct{ name, sql string }{
	{"DISTINCT", "SELECT DISTINCT k FROM %[1]s;"},
	{"GROUP BY", "SELECT COUNT(*) FROM %[1]s GROUP BY k;"},
	{"UNION", "SELECT k FROM %[1]s WHERE id <= 6 UNION SELECT k FROM %[1]s WHERE id > 6;"},
	{"EXCEPT", "SELECT k FROM %[1]s WHERE id <= 6 EXCEPT SELECT k FROM %[1]s WHERE id > 6;"},
	{"INTERSECT", "SELECT k FROM %[1]s WHERE id <= 6 INTERSECT SELECT k FROM %[1]s WHERE id > 6;"},
	{"COUNT DISTINCT", "SELECT COUNT(DISTINCT k) FROM %[1]s;"},
}

// questions: one line of output each; same(answer) = the two rows share a bucket
var c04SwitchOps = []struct {
	name string
	sql  string // %[1]d, %[2]d: the ids of the two rows
	same string
}{
	{"DISTINCT", "SELECT COUNT(*) FROM (SELECT DISTINCT k FROM t WHERE id IN (%[1]d, %[2]d)) s;", "1"},
	{"GROUP BY", "SELECT COUNT(*) FROM (SELECT 1 FROM t WHERE id IN (%[1]d, %[2]d) GROUP BY k) s;", "1"},
	{"UNION", "SELECT COUNT(*) FROM (SELECT k FROM t WHERE id = %[1]d UNION SELECT k FROM t WHERE id = %[2]d) s;", "1"},
	{"EXCEPT", "SELECT COUNT(*) FROM (SELECT k FROM t WHERE id = %[1]d EXCEPT SELECT k FROM t WHERE id = %[2]d) s;", "0"},
	{"INTERSECT", "SELECT COUNT(*) FROM (SELECT k FROM t WHERE id = %[1]d INTERSECT SELECT k FROM t WHERE id = %[2]d) s;", "1"},
	{"COUNT DISTINCT", "SELECT COUNT(DISTINCT k) FROM t WHERE id IN (%[1]d, %[2]d);", "1"},
	{"GROUP BY + COUNT(*)", "SELECT MAX(c) FROM (SELECT COUNT(*) AS c FROM t WHERE id IN (%[1]d, %[2]d) GROUP BY k) s;", "2"},
	{"PARTITION BY", "SELECT MAX(c) FROM (SELECT COUNT(*) OVER (PARTITION BY k) AS c FROM t WHERE id IN (%[1]d, %[2]d)) s;", "2"},
}

const c04SwitchMarker = "#####"

type c04SwitchCase struct {
	Family string `json:"family"`
	First  string `json:"first_setting"`
	Second string `json:"second_setting"`
	Primer int    `json:"primer"`
	Table  string `json:"primer_table"`
}

type c04SwitchQuestion struct {
	i, j int    // indices of the texts
	op   string // "=" for csvq's own equality
	same string
	sql  string
}

func c04SwitchQuestions() []c04SwitchQuestion {
	var qs []c04SwitchQuestion
	for i := range c04SwitchTexts {
		for j := i + 1; j < len(c04SwitchTexts); j++ {
			qs = append(qs, c04SwitchQuestion{i, j, "=", "true", "SELECT " + c04Quote(c04SwitchTexts[i]) + " = " + c04Quote(c04SwitchTexts[j]) + ";"})
			for _, op := range c04SwitchOps {
				qs = append(qs, c04SwitchQuestion{i, j, op.name, op.same, fmt.Sprintf(op.sql, i+1, j+1)})
			}
		}
	}
	return qs
}

func c04SwitchPrepare(dir string) error {
	var b strings.Builder
	b.WriteString("id,k\n")
	for i, s := range c04SwitchTexts {
		fmt.Fprintf(&b, "%d,\"%s\"\n", i+1, s)
	}
	// the second table holds the same texts in another order and under other ids
	var b2 strings.Builder
	b2.WriteString("id,k\n")
	for i := range c04SwitchTexts {
		fmt.Fprintf(&b2, "%d,\"%s\"\n", i+1, c04SwitchTexts[len(c04SwitchTexts)-1-i])
	}
	if err := os.WriteFile(filepath.Join(dir, "t.csv"), []byte(b.String()), 0644); err != nil {
		return err
	}
	return os.WriteFile(filepath.Join(dir, "p.csv"), []byte(b2.String()), 0644)
}

// the lines after the marker, nil if the marker is missing
func c04SwitchAnswers(stdout string) []string {
	lines := strings.Split(strings.ReplaceAll(stdout, "\r\n", "\n"), "\n")
	for i, l := range lines {
		if strings.Contains(l, c04SwitchMarker) {
			var out []string
			for _, a := range lines[i+1:] {
				if a = strings.TrimSpace(a); a != "" {
					out = append(out, a)
				}
			}
			return out
		}
	}
	return nil
}

func c04SwitchKind(k c04SwitchCase) string {
	s := k.First + k.Second
	var kinds []string
	if strings.Contains(s, "DATETIME_FORMAT") {
		kinds = append(kinds, "format")
	}
	if strings.Contains(s, "TIMEZONE") {
		kinds = append(kinds, "zone")
	}
	if strings.Contains(s, "STRICT_EQUAL") {
		kinds = append(kinds, "strict")
	}
	return strings.Join(kinds, "+")
}

func c04SwitchPlainText(s string) bool {
	s = strings.TrimSpace(s)
	if _, err := strconv.ParseFloat(s, 64); err == nil {
		return false
	}
	switch strings.ToLower(s) {
	case "true", "false", "t", "f", "yes", "no", "y", "n", "on", "off", "null", "unknown", "":
		return false
	}
	return true
}

// alone: the answers of "F1; F2; questions" (nil = not yet asked); returns them for the next primer of the same pair
func c04SwitchOne(c *core.Ctx, dir string, k c04SwitchCase, alone []string) []string {
	qs := c04SwitchQuestions()
	var sqls []string
	for _, q := range qs {
		sqls = append(sqls, q.sql)
	}
	tail := "PRINT '" + c04SwitchMarker + "'; " + k.Second + " " + strings.Join(sqls, " ")
	run := func(prog string) procx.Outcome {
		return procx.Exec(procx.Run{Dir: dir, Args: []string{"-f", "CSV", "-N", prog}})
	}
	if alone == nil {
		o := run(k.First + " " + tail)
		if o.Killed || o.Exit < 0 {
			c.Incomplete(fmt.Sprintf("family switch: the reference process did not finish (settings %q, %q)", k.First, k.Second))
			return nil
		}
		if o.Exit != 0 {
			c.Observe("switch_family_settings_refused", k.First+" "+k.Second)
			return nil
		}
		alone = c04SwitchAnswers(o.Stdout)
		if len(alone) != len(qs) {
			c.Incomplete(fmt.Sprintf("family switch: the reference process printed %d answers for %d questions (settings %q, %q)", len(alone), len(qs), k.First, k.Second))
			return nil
		}
	}
	p := c04SwitchPrimers[k.Primer]
	o := run(k.First + " " + fmt.Sprintf(p.sql, k.Table) + " " + tail)
	if o.Killed || o.Exit < 0 {
		c.Incomplete(fmt.Sprintf("family switch: the primed process did not finish (settings %q, %q)", k.First, k.Second))
		return alone
	}
	c.EvalN(int64(len(qs)), int64(len(qs)))
	kind := c04SwitchKind(k)
	got := c04SwitchAnswers(o.Stdout)
	if o.Exit != 0 || len(got) != len(qs) {
		c.Violate("switch:statement-fails-after-an-earlier-bucketing-under-other-settings:"+kind,
			fmt.Sprintf("first setting %q, primer %s over %s, second setting %q: exit %d, %d of %d answers; stderr %q", k.First, p.name, k.Table, k.Second, o.Exit, len(got), len(qs), o.Stderr), k)
		return alone
	}
	strict := strings.Contains(k.Second, "STRICT_EQUAL") || (strings.Contains(k.First, "STRICT_EQUAL"))
	seen := map[string]bool{}
	ownEq := false
	for n, q := range qs {
		x, y := c04SwitchTexts[q.i], c04SwitchTexts[q.j]
		if q.op == "=" {
			ownEq = strings.EqualFold(got[n], "true")
		}
		if got[n] != alone[n] {
			sig := "switch:bucket-depends-on-an-earlier-bucketing-under-other-settings:" + kind + ":" + q.op
			if q.op == "=" {
				sig = "switch:comparison-depends-on-an-earlier-bucketing-under-other-settings:" + kind
			}
			if !seen[sig] {
				seen[sig] = true
				c.Violate(sig, fmt.Sprintf("first setting %q, primer %s over %s, second setting %q: %s on the rows {%q, %q} answers %s (same bucket = %v), but %s in the process that did not bucket anything under the first setting",
					k.First, p.name, k.Table, k.Second, q.op, x, y, got[n], got[n] == q.same, alone[n]), k)
			}
			continue
		}
		if q.op == "=" || strict || !c04SwitchPlainText(x) || !c04SwitchPlainText(y) {
			continue
		}
		if same := got[n] == q.same; same != ownEq {
			kindB := "bucket-split"
			if same {
				kindB = "bucket-merge"
			}
			sig := "switch:" + kindB + ":" + q.op + ":" + kind
			if !seen[sig] {
				seen[sig] = true
				c.Violate(sig, fmt.Sprintf("settings %q then %q (primer %s over %s): %s on the rows {%q, %q}: same bucket = %v, but csvq's own %q = %q is %v under the same settings",
					k.First, k.Second, p.name, k.Table, q.op, x, y, same, x, y, ownEq), k)
			}
		}
	}
	return alone
}

func c04SwitchRun(c *core.Ctx) {
	if procx.Binary() == "" {
		c.Incomplete("family switch needs the csvq-verif binary (overlay build)")
		return
	}
	if _, err := os.Stat(procx.Binary()); err != nil {
		c.Incomplete("family switch needs the csvq-verif binary (overlay build): " + err.Error())
		return
	}
	dir := core.Scratch("c04switch")
	if err := c04SwitchPrepare(dir); err != nil {
		c.Incomplete("family switch: cannot write the tables: " + err.Error())
		return
	}
	tables := []string{"t"}
	if c.Thorough() {
		tables = append(tables, "p")
	}
	var idx int64
	for _, f1 := range c04SwitchSettings {
		for _, f2 := range c04SwitchSettings {
			if f1 == f2 {
				continue
			}
			idx++
			if !c.Mine(idx) {
				continue
			}
			var alone []string
			for _, tb := range tables {
				for pi := range c04SwitchPrimers {
					if c.Expired() {
						c.Incomplete("time budget reached inside family switch")
						return
					}
					alone = c04SwitchOne(c, dir, c04SwitchCase{"switch", f1, f2, pi, tb}, alone)
				}
			}
		}
	}
}
