package checks

import (
	"encoding/json"
	"fmt"
	"strings"

	"verif/harness/internal/core"
	"verif/harness/internal/drv"
	"verif/harness/internal/procx"
)

// Extra family for C14: "evaluation never alters ... any cached table other than the ones it explicitly assigns ...
// reading the same data again gives the same values", for the tables csvq keeps for the length of a run: the table on
// the standard input (which only the real CLI loads: the in-process driver has no standard input), file tables and
// declared views. A statement that only reads such a table is executed, executed once more, and then the table is
// read in full by probe statements, all in one csvq process; every part must print what it prints in a process of its
// own, where it is the first one to touch the table.
func init() {
	core.Extend("C14", "family cached: 13 ways of naming a table that is kept for the run (STDIN as CSV / TSV / LTSV / JSON / JSONL / fixed-width through the import format or a format function, a CSV and a JSON file, FILE::, a declared view over a file and over STDIN) "+
		"x 31 statements that only read it (filter, projection, alias, ORDER BY, GROUP BY, DISTINCT, LIMIT/OFFSET, self joins, subqueries, set operators, analytic functions, SELECT INTO, cursor, prepared statement, loop, user function, declared view, common table expression, a SELECT without FROM clause), "+
		"executed twice and followed by probe statements reading the whole table, in one real csvq process (thorough: every ordered pair of reading statements); oracle: every part prints what it prints in a process of its own", c14CachedRun)
}

type c14CachedSource struct {
	Name  string   // class of the source (part of the signature)
	Args  []string // extra command line arguments
	Stdin string
	Pre   string // silent statements executed first in every process
	Ref   string // how the table is named in a FROM clause
}

const (
	c14CachedCSV   = "id,name,kind,qty\n1,apple,f,10\n2,banana,f,20\n3,carrot,v,30\n4,damson,f,40\n5,endive,v,\n"
	c14CachedTSV   = "id\tname\tkind\tqty\n1\tapple\tf\t10\n2\tbanana\tf\t20\n3\tcarrot\tv\t30\n4\tdamson\tf\t40\n5\tendive\tv\t\n"
	c14CachedLTSV  = "id:1\tname:apple\tkind:f\tqty:10\nid:2\tname:banana\tkind:f\tqty:20\nid:3\tname:carrot\tkind:v\tqty:30\nid:4\tname:damson\tkind:f\tqty:40\nid:5\tname:endive\tkind:v\tqty:\n"
	c14CachedJSONL = `{"id":1,"name":"apple","kind":"f","qty":10}` + "\n" + `{"id":2,"name":"banana","kind":"f","qty":20}` + "\n" + `{"id":3,"name":"carrot","kind":"v","qty":30}` + "\n" + `{"id":4,"name":"damson","kind":"f","qty":40}` + "\n" + `{"id":5,"name":"endive","kind":"v","qty":null}` + "\n"
	c14CachedFixed = "id name   kind qty\n1  apple  f    10 \n2  banana f    20 \n3  carrot v    30 \n4  damson f    40 \n5  endive v       \n"
)

func c14CachedJSON() string {
	return "[" + strings.ReplaceAll(strings.TrimSpace(c14CachedJSONL), "\n", ",") + "]"
}

func c14CachedSources() []c14CachedSource {
	return []c14CachedSource{
		{Name: "stdin-csv", Stdin: c14CachedCSV, Ref: "STDIN"},
		{Name: "stdin-csv-function", Stdin: c14CachedCSV, Ref: "CSV(',', STDIN)"},
		{Name: "stdin-tsv-import-format", Args: []string{"--import-format", "TSV"}, Stdin: c14CachedTSV, Ref: "STDIN"},
		{Name: "stdin-ltsv-function", Stdin: c14CachedLTSV, Ref: "LTSV(STDIN)"},
		{Name: "stdin-ltsv-import-format", Args: []string{"--import-format", "LTSV"}, Stdin: c14CachedLTSV, Ref: "STDIN"},
		{Name: "stdin-json-function", Stdin: c14CachedJSON(), Ref: "JSON('', STDIN)"},
		{Name: "stdin-jsonl-function", Stdin: c14CachedJSONL, Ref: "JSONL('', STDIN)"},
		{Name: "stdin-fixed-function", Stdin: c14CachedFixed, Ref: "FIXED('SPACES', STDIN)"},
		{Name: "stdin-view", Stdin: c14CachedCSV, Pre: "DECLARE w VIEW AS SELECT id, name, kind, qty FROM STDIN;", Ref: "w"},
		{Name: "file-csv", Ref: "t"},
		{Name: "file-function", Ref: "FILE::('t.csv')"},
		{Name: "file-json", Ref: "j"},
		{Name: "file-view", Pre: "DECLARE w VIEW AS SELECT id, name, kind, qty FROM t;", Ref: "w"},
	}
}

// statements that only read the table {S}; each can be executed any number of times in one session
var c14CachedReaders = []string{
	"SELECT name FROM {S} WHERE qty > 20 ORDER BY name DESC;",
	"SELECT name FROM {S} s WHERE s.qty > 20 ORDER BY s.name DESC;",
	"SELECT COUNT(*) FROM {S} WHERE id < 3;",
	"SELECT s.id AS k, s.qty * 2 AS d FROM {S} s;",
	"SELECT qty AS a, id AS b FROM {S} r;",
	"SELECT kind, SUM(qty), COUNT(*) FROM {S} GROUP BY kind ORDER BY kind;",
	"SELECT kind FROM {S} g GROUP BY kind HAVING COUNT(*) > 2;",
	"SELECT DISTINCT kind FROM {S};",
	"SELECT id FROM {S} ORDER BY qty DESC LIMIT 2;",
	"SELECT id FROM {S} o ORDER BY id LIMIT 2 OFFSET 2;",
	"SELECT * FROM {S} ORDER BY name DESC;",
	"SELECT * FROM {S} e WHERE FALSE;",
	"SELECT x.id, y.name FROM {S} x JOIN {S} y ON x.id = y.id - 1;",
	"SELECT id, y.qty FROM {S} x JOIN {S} y USING (id) WHERE x.kind = 'v';",
	"SELECT x.name, d.c FROM {S} x, (SELECT 1 AS c) d WHERE x.id = 2;",
	"SELECT x.id, y.id FROM {S} x LEFT JOIN {S} y ON y.id = x.id + 3 ORDER BY x.id;",
	"SELECT x.id, z.one FROM {S} x CROSS JOIN (SELECT 1 AS one) z WHERE x.id > 4;",
	"SELECT id FROM {S} a WHERE qty > (SELECT AVG(qty) FROM {S} b);",
	"SELECT id, (SELECT MAX(i.qty) FROM {S} i WHERE i.id <= u.id) FROM {S} u;",
	"SELECT id FROM {S} WHERE id < 3 UNION SELECT qty FROM {S} WHERE id > 3;",
	"SELECT kind FROM {S} EXCEPT SELECT kind FROM {S} n WHERE n.id > 3;",
	"SELECT id, RANK() OVER (PARTITION BY kind ORDER BY qty DESC) AS r, SUM(qty) OVER (ORDER BY id) AS c FROM {S} ORDER BY id;",
	"WITH c AS (SELECT id, name FROM {S} WHERE id > 2) SELECT name FROM c WHERE id < 5;",
	"VAR @n; SELECT SUM(qty) INTO @n FROM {S} s WHERE s.id > 1; PRINT @n; DISPOSE @n;",
	"DECLARE c CURSOR FOR SELECT name FROM {S} WHERE id > 2; OPEN c; VAR @v; FETCH c INTO @v; PRINT @v; FETCH c INTO @v; PRINT @v; CLOSE c; DISPOSE CURSOR c; DISPOSE @v;",
	"PREPARE p FROM 'SELECT name FROM {Q} q WHERE q.id = ?'; EXECUTE p USING 2; EXECUTE p USING 4; DISPOSE PREPARE p;",
	"VAR @i := 0; VAR @m; WHILE @i < 3 DO SELECT SUM(qty) INTO @m FROM {S} s WHERE s.id > @i; PRINT @m; @i := @i + 1; END WHILE; DISPOSE @i; DISPOSE @m;",
	"DECLARE f FUNCTION (@k) AS BEGIN VAR @r; SELECT name INTO @r FROM {S} h WHERE h.id = @k; RETURN @r; END; PRINT f(3); PRINT f(1); DISPOSE FUNCTION f;",
	"SELECT 1 + 1 AS two;", // without a FROM clause csvq reads the standard input when there is one
	"DECLARE v VIEW AS SELECT id AS i, name AS n FROM {S} WHERE id > 3; SELECT n FROM v; DISPOSE VIEW v;",
	"SELECT LISTAGG(name, '-') WITHIN GROUP (ORDER BY id DESC), MAX(qty) FROM {S} l WHERE l.kind = 'f';",
}

// statements reading the whole table
var c14CachedProbes = []string{
	"SELECT * FROM {S};",
	"SELECT COUNT(*) FROM {S};",
	"SELECT qty, kind, name, id FROM {S} ORDER BY id DESC;",
	"SELECT p.id, p.name, p.kind, p.qty FROM {S} p;",
}

func c14CachedImplicit(i int) bool {
	return !strings.Contains(c14CachedReaders[i], "{S}") && !strings.Contains(c14CachedReaders[i], "{Q}")
}

const c14CachedMark = "PRINT '#';"

type c14CachedCase struct {
	Family string `json:"family"`
	Source string `json:"source"`
	First  int    `json:"first_reader"`
	Second int    `json:"second_reader"`
}

type c14CachedEnv struct {
	c     *core.Ctx
	dir   string
	alone map[string]procx.Outcome
}

func (e *c14CachedEnv) run(s c14CachedSource, body string) procx.Outcome {
	drv.ClearDir(e.dir)
	drv.WriteFiles(e.dir, map[string]string{"t.csv": c14CachedCSV, "j.json": c14CachedJSON()})
	args := append([]string{"-f", "CSV"}, s.Args...)
	prog := c14CachedText(s, strings.TrimSpace(s.Pre+" "+body))
	return procx.Exec(procx.Run{Dir: e.dir, Args: append(args, prog), Stdin: s.Stdin})
}

// c14CachedText puts the name of the table into the statements ({Q}: inside a string literal)
func c14CachedText(s c14CachedSource, text string) string {
	text = strings.ReplaceAll(text, "{Q}", strings.ReplaceAll(s.Ref, "'", "\\'"))
	return strings.ReplaceAll(text, "{S}", s.Ref)
}

// runAlone: the statement(s) in a process of their own (memoised per worker)
func (e *c14CachedEnv) runAlone(s c14CachedSource, body string) procx.Outcome {
	k := s.Name + "\x00" + body
	if o, ok := e.alone[k]; ok {
		return o
	}
	o := e.run(s, body)
	e.alone[k] = o
	return o
}

func c14CachedOK(o procx.Outcome) bool {
	return o.Exit == 0 && !o.Killed && o.Stderr == ""
}

func c14CachedOne(e *c14CachedEnv, s c14CachedSource, k c14CachedCase) {
	c := e.c
	probes := strings.Join(c14CachedProbes, " "+c14CachedMark+" ")
	parts := []string{c14CachedReaders[k.First], c14CachedReaders[k.Second], probes}
	names := []string{"the first reading statement", "the second reading statement", "the probe statements"}
	want := ""
	for i, p := range parts {
		o := e.runAlone(s, p)
		if o.Killed {
			c.Incomplete("family cached: a csvq process was stopped by the time limit")
			return
		}
		if !c14CachedOK(o) {
			// the source does not take this form of statement (or no statement at all): nothing to compare
			c.Observe("cached_family_fails_alone", s.Name+": "+p[:strings.Index(p, ";")+1]+" -> "+clip(strings.TrimSpace(o.Stderr)))
			c.Eval(fmt.Sprintf("cached|%s|%d|%d", s.Name, k.First, k.Second), false)
			return
		}
		if i > 0 {
			want += "'#'\n"
		}
		want += o.Stdout
	}
	both := e.run(s, strings.Join(parts, " "+c14CachedMark+" "))
	if both.Killed {
		c.Incomplete("family cached: a csvq process was stopped by the time limit")
		return
	}
	c.Eval(fmt.Sprintf("cached|%s|%d|%d", s.Name, k.First, k.Second), true)
	if c14CachedOK(both) && both.Stdout == want {
		return
	}
	// name the first part that differs
	where := "the run"
	got, exp := strings.Split(both.Stdout, "'#'\n"), strings.Split(want, "'#'\n")
	for i := range exp {
		if i >= len(got) || got[i] != exp[i] {
			switch {
			case i == 0:
				where = names[0]
			case i == 1:
				where = names[1]
			default:
				where = names[2]
			}
			break
		}
	}
	sig := "cached-table-read-again-differs:" + s.Name
	c.Violate(sig, fmt.Sprintf("source %s (%s), one csvq process executes\n %s\n %s\n and then %s\n%s prints something else than in a process of its own, although the statements before it only read the table:\n expected output %q\n output %q\n exit %d, errors %q",
		s.Name, s.Ref, c14CachedText(s, parts[0]), c14CachedText(s, parts[1]), c14CachedText(s, probes), where, clip(want), clip(both.Stdout), both.Exit, clip(both.Stderr)), k)
}

func c14CachedRun(c *core.Ctx) {
	e := &c14CachedEnv{c: c, dir: core.Scratch("c14cached"), alone: map[string]procx.Outcome{}}
	var idx int64
	for _, s := range c14CachedSources() {
		for i := range c14CachedReaders {
			for j := range c14CachedReaders {
				if i != j && !c.Thorough() {
					continue
				}
				if strings.Contains(s.Ref, "STDIN)") && (c14CachedImplicit(i) || c14CachedImplicit(j)) {
					// a SELECT without FROM clause loads the standard input in the import format of the flags; a
					// format function naming STDIN afterwards gets that table (STDIN is one temporary table, loaded
					// once): two different ways of loading, not the same data read again
					continue
				}
				idx++
				if !c.Mine(idx) {
					continue
				}
				if c.Expired() {
					c.Incomplete("family cached cut by the time budget")
					return
				}
				c14CachedOne(e, s, c14CachedCase{"cached", s.Name, i, j})
			}
		}
	}
}

func c14CachedReplay(c *core.Ctx, payload json.RawMessage) bool {
	var k c14CachedCase
	if json.Unmarshal(payload, &k) != nil || k.Family != "cached" {
		return false
	}
	if k.First < 0 || k.First >= len(c14CachedReaders) || k.Second < 0 || k.Second >= len(c14CachedReaders) {
		return false
	}
	for _, s := range c14CachedSources() {
		if s.Name == k.Source {
			fmt.Printf("replaying family cached: source %s, readers %d and %d\n", s.Name, k.First, k.Second)
			e := &c14CachedEnv{c: c, dir: core.Scratch("c14cached-replay"), alone: map[string]procx.Outcome{}}
			c14CachedOne(e, s, k)
			return true
		}
	}
	return false
}
