//go:build verifx

package checks

import (
	"encoding/json"
	"fmt"
	"os"
	"sort"
	"strings"

	"github.com/mithrandie/csvq/lib/option"
	"github.com/mithrandie/csvq/lib/parser"
	"github.com/mithrandie/csvq/lib/query"
	"github.com/mithrandie/csvq/lib/value"
	"github.com/mithrandie/csvq/lib/verifshim/vrt"

	"verif/harness/internal/core"
	"verif/harness/internal/drv"
	"verif/harness/internal/rv"
)

// Family release (C14): a value in csvq is shared by reference between its holders - the literal of the program
// text and the variable initialised from it, two variables after `@b := @a`, the row of an open cursor and the
// variable it was fetched into, a table cell and the variable of SELECT ... INTO, an argument and the parameter of
// the called function. The statements that END the life of one holder (DISPOSE @v, an assignment that replaces the
// value, FETCH/SELECT INTO over it, the end of a block or a function, CLOSE / DISPOSE CURSOR / re-OPEN, DISPOSE VIEW,
// UPDATE/DELETE of the cell, ROLLBACK/COMMIT, DISPOSE FUNCTION, DISPOSE PREPARE) must leave the value to the other
// holders. Every (way of sharing) x (way of ending one holder) x (pooled value type) is a program:
//
//	setup; observe the other holder; end the first holder; take objects from every value pool; observe again
//
// (for a literal of a function body, a loop body or a prepared statement the body itself is the observation and is
// executed three times). Oracles: all observations of one program print the same; at every statement boundary no
// literal of the program, no value of a declared variable and no cell of a temporary table sits in a value pool
// (a live object in a pool is overwritten by the next allocation); value.Discard is never handed a literal of the
// program text.

func init() {
	core.Extend("C14", "family release: 19 ways of sharing one value between two holders (literal/variable, variable/variable, cursor row/variable, table cell/variable, argument/parameter, literal of a function body, loop body, prepared statement, "+
		"returned literal, pseudo cursor of an aggregate) x every statement that ends the life of one holder (DISPOSE @v, 6 forms of re-assignment, end of block, CLOSE/DISPOSE/re-OPEN of the cursor, DISPOSE VIEW, UPDATE, DELETE, ROLLBACK, COMMIT, DISPOSE FUNCTION, DISPOSE PREPARE) "+
		"x 4 pooled value types, then allocations from every pool; oracle: every observation of the surviving holder prints the same, no live literal/variable value/temporary-table cell sits in a value pool at a statement boundary, Discard never receives a literal", c14ReleaseRun)
}

type c14RelKind struct{ name, lit, other, fresh, use string }

// use: an expression over @a and @n that shows the value of @a
var c14RelKinds = []c14RelKind{
	{"string", "'abc'", "'zzz'", "'z' || 'w'", "@a || @n"},
	{"integer", "7", "8", "4 + 4", "@a + @n"},
	{"float", "1.5", "2.5", "1.25 * 2", "@a + @n"},
	{"datetime", "DATETIME('2012-02-03 09:18:15')", "DATETIME('2013-03-04 10:19:16')", "ADD_DAY(DATETIME('2013-03-04 10:19:16'), 1)", "DATETIME_FORMAT(@a, '%Y%m%d%H') || @n"},
}

// statements that take an object from each of the four pools (twice, with different contents)
const c14RelChurn = "@z1 := 'x' || 'y'; @z2 := 100 + 1; @z3 := 0.25 + 0.5; @z4 := DATETIME('2020-01-01 00:00:00'); @z1 := 'p' || 'q' || 'r'; @z2 := 200 + 2; @z3 := 0.125 + 0.25; @z4 := DATETIME('2021-06-07 08:09:10');"
const c14RelChurnDecl = "VAR @z1, @z2, @z3, @z4;"

// the same inside a function body (local variables)
const c14RelChurnLocal = "VAR @q1 := 'x' || 'y'; VAR @q2 := 100 + 1; VAR @q3 := 0.25 + 0.5; VAR @q4 := DATETIME('2020-01-01 00:00:00'); @q1 := 'p' || 'q' || 'r'; @q2 := 200 + 2; @q3 := 0.125 + 0.25; @q4 := DATETIME('2021-06-07 08:09:10');"

// ways of ending the life of the value held by variable $V ($O another value of the type, $F a computed one)
type c14RelEnd struct {
	name, pre, sql string
	keeps          bool // the variable stays declared
	thorough       bool
}

var c14RelEnds = []c14RelEnd{
	{name: "dispose", sql: "DISPOSE $V;"},
	{name: "dispose-redeclare", sql: "DISPOSE $V; VAR $V;", keeps: true},
	{name: "assign-literal", sql: "$V := $O;", keeps: true},
	{name: "assign-computed", sql: "$V := $F;", keeps: true},
	{name: "assign-null", sql: "$V := NULL;", keeps: true},
	{name: "assign-in-query", sql: "SELECT $V := $O FROM DUAL;", keeps: true},
	{name: "select-into", sql: "SELECT $O INTO $V FROM DUAL;", keeps: true},
	{name: "fetch-into", pre: "DECLARE rc CURSOR FOR SELECT $O FROM DUAL; OPEN rc;", sql: "FETCH rc INTO $V;", keeps: true},
	{name: "assign-then-dispose", sql: "$V := $F; DISPOSE $V;", thorough: true},
	{name: "dispose-twice", sql: "DISPOSE $V; VAR $V := $F; DISPOSE $V;", thorough: true},
}

type c14RelPiece struct {
	SQL     string `json:"sql"`
	Observe bool   `json:"observe,omitempty"`
	Blocks  bool   `json:"blocks,omitempty"` // the output up to each line '----' is an observation of its own
}

type c14RelProgram struct {
	Family string        `json:"family"`
	Name   string        `json:"name"`
	Share  string        `json:"share"`
	End    string        `json:"end"`
	Kind   string        `json:"kind"`
	Pieces []c14RelPiece `json:"pieces"`
}

func c14RelPrograms(thorough bool) []c14RelProgram {
	var out []c14RelProgram
	add := func(share, end string, k c14RelKind, pieces ...c14RelPiece) {
		out = append(out, c14RelProgram{"release", share + "/" + end + "/" + k.name, share, end, k.name, pieces})
	}
	set := func(s string) c14RelPiece { return c14RelPiece{SQL: s} }
	obs := func(s string) c14RelPiece { return c14RelPiece{SQL: s, Observe: true} }
	churn := set(c14RelChurn)
	for _, k := range c14RelKinds {
		view := "DECLARE w VIEW (c) AS SELECT " + k.lit + " UNION ALL SELECT " + k.other + ";"
		sub := func(t, v string) string {
			return strings.NewReplacer("$V", v, "$O", k.other, "$F", k.fresh, "$L", k.lit, "$U", k.use).Replace(t)
		}
		for _, e := range c14RelEnds {
			if e.thorough && !thorough {
				continue
			}
			pre := c14RelChurnDecl + sub(e.pre, "")
			endA, endP := set(sub(e.sql, "@a")), sub(e.sql, "@p")
			// -- the variable whose life ends is @a; somebody else holds the same value
			add("alias-of-a", e.name, k, set(pre+sub("VAR @a := $L; VAR @b := @a;", "")), obs("PRINT @b;"), endA, churn, obs("PRINT @b;"))
			add("a-alias-of", e.name, k, set(pre+sub("VAR @b := $L; VAR @a := @b;", "")), obs("PRINT @b;"), endA, churn, obs("PRINT @b;"))
			add("cursor-row", e.name, k, set(pre+view+"DECLARE cur CURSOR FOR SELECT c FROM w; OPEN cur; VAR @a; VAR @o; FETCH cur INTO @a;"),
				obs("FETCH FIRST cur INTO @o; PRINT @o;"), endA, churn, obs("FETCH FIRST cur INTO @o; PRINT @o;"), churn, obs("FETCH ABSOLUTE 0 cur INTO @o; PRINT @o;"))
			add("view-cell-select-into", e.name, k, set(pre+view+"VAR @a; SELECT c INTO @a FROM w LIMIT 1;"), obs("SELECT c FROM w;"), endA, churn, obs("SELECT c FROM w;"))
			add("view-cell-assign-in-query", e.name, k, set(pre+view+"VAR @a; SELECT @a := c FROM w;"), obs("SELECT c FROM w;"), endA, churn, obs("SELECT c FROM w;"))
			if k.name == "string" {
				add("file-cell-select-into", e.name, k, set(pre+"VAR @a; SELECT c INTO @a FROM t LIMIT 1;"), obs("SELECT c FROM t;"), endA, churn, obs("SELECT c FROM t;"))
			}
			add("returned-literal", e.name, k, set(pre+sub("DECLARE g FUNCTION () AS BEGIN RETURN $L; END; VAR @a := g(); VAR @b;", "")), obs("@b := g(); PRINT @b;"), endA, churn, obs("@b := g(); PRINT @b;"), churn, obs("PRINT g();"))
			// -- the variable is the parameter of a function; the caller's variable holds the value
			add("argument", e.name, k, set(pre+sub("DECLARE f FUNCTION (@p) AS BEGIN "+endP+" "+c14RelChurnLocal+" RETURN 1; END; VAR @b := $L; VAR @r;", "")), obs("PRINT @b;"), set("@r := f(@b);"), churn, obs("PRINT @b;"))
			add("argument-per-row", e.name, k, set(pre+view+"DECLARE f FUNCTION (@p) AS BEGIN "+endP+" "+c14RelChurnLocal+" RETURN 1; END;"), obs("SELECT c FROM w;"), set("SELECT f(c) FROM w;"), churn, obs("SELECT c FROM w;"))
			// -- the value is a literal of a body that is executed again
			body := sub("VAR @a := $L; VAR @r := $U; "+e.sql+" "+c14RelChurnLocal, "@a")
			add("literal-of-function-body", e.name, k, set(pre+"DECLARE g FUNCTION (@n) AS BEGIN "+body+" RETURN @r; END;"), obs("PRINT g(1);"), obs("PRINT g(1);"), churn, obs("PRINT g(1);"))
			add("literal-of-loop-body", e.name, k, set(pre), c14RelPiece{SQL: sub("VAR @i := 0; WHILE @i < 3 DO VAR @a := $L; PRINT @a; "+e.sql+" "+c14RelChurn+" PRINT '----'; @i := @i + 1; END WHILE;", "@a"), Observe: true, Blocks: true})
			if e.keeps {
				lit := strings.ReplaceAll(k.lit, "'", "''")
				add("literal-of-prepared-statement", e.name, k, set(pre+"VAR @a; PREPARE p FROM 'SELECT "+lit+" INTO @a FROM DUAL';"), obs("EXECUTE p; PRINT @a;"), endA, churn, obs("EXECUTE p; PRINT @a;"), endA, churn, obs("EXECUTE p; PRINT @a;"))
			}
			// -- the variable receives the rows of a cursor one after the other
			add("while-in-cursor", e.name, k, set(pre+view+"DECLARE cur CURSOR FOR SELECT c FROM w; OPEN cur; VAR @o;"), obs("FETCH FIRST cur INTO @o; PRINT @o; FETCH NEXT cur INTO @o; PRINT @o;"),
				set(sub("FETCH ABSOLUTE -1 cur INTO @o; WHILE VAR @a IN cur DO "+e.sql+" "+c14RelChurn+" END WHILE;", "@a")), churn, obs("FETCH FIRST cur INTO @o; PRINT @o; FETCH NEXT cur INTO @o; PRINT @o;"))
			add("aggregate-pseudo-cursor", e.name, k, set(pre+view+sub("DECLARE ag AGGREGATE (lst) AS BEGIN VAR @a; FETCH lst INTO @a; "+e.sql+" "+c14RelChurnLocal+" RETURN 1; END; VAR @r;", "@a")), obs("SELECT c FROM w;"),
				set("SELECT ag(c) INTO @r FROM w;"), churn, obs("SELECT c FROM w;"))
		}
		// -- the end of a block ends the variables declared in it
		pre := c14RelChurnDecl
		lit := func(t string) string { return strings.NewReplacer("$L", k.lit, "$O", k.other, "$U", k.use).Replace(t) }
		add("alias-of-a", "end-of-if-block", k, set(pre+"VAR @b;"), set(lit("IF TRUE THEN VAR @a := $L; @b := @a; END IF;")), obs("PRINT @b;"), churn, obs("PRINT @b;"))
		add("alias-of-a", "end-of-while-block", k, set(pre+"VAR @b; VAR @i := 0;"), set(lit("WHILE @i < 1 DO VAR @a := $L; @b := @a; @i := @i + 1; END WHILE;")), obs("PRINT @b;"), churn, obs("PRINT @b;"))
		add("alias-of-a", "end-of-function", k, set(pre+lit("DECLARE g FUNCTION () AS BEGIN VAR @a := $L; RETURN @a; END; VAR @b := g();")), obs("PRINT @b;"), churn, obs("PRINT @b;"), set("@b := g();"), churn, obs("PRINT @b;"))
		add("argument", "end-of-function", k, set(pre+lit("DECLARE f FUNCTION (@p) AS BEGIN RETURN 1; END; VAR @b := $L; VAR @r;")), obs("PRINT @b;"), set("@r := f(@b);"), churn, obs("PRINT @b;"))
		add("argument", "returned-and-dropped", k, set(pre+lit("DECLARE f FUNCTION (@p) AS BEGIN RETURN @p; END; VAR @b := $L;")), obs("PRINT @b;"), set("PRINT f(@b) = f(@b);"), churn, obs("PRINT @b;"))
		add("cursor-row", "end-of-if-block", k, set(pre+lit("DECLARE w VIEW (c) AS SELECT $L UNION ALL SELECT $O; DECLARE cur CURSOR FOR SELECT c FROM w; OPEN cur; VAR @o;")), obs("FETCH FIRST cur INTO @o; PRINT @o;"),
			set("FETCH ABSOLUTE -1 cur INTO @o; IF TRUE THEN VAR @a; FETCH cur INTO @a; END IF;"), churn, obs("FETCH FIRST cur INTO @o; PRINT @o;"))
		add("literal-of-function-body", "end-of-function", k, set(pre+lit("DECLARE g FUNCTION (@n) AS BEGIN VAR @a := $L; IF TRUE THEN VAR @c := @a; END IF; RETURN $U; END;")), obs("PRINT g(1);"), churn, obs("PRINT g(1);"), churn, obs("PRINT g(1);"))
		// -- the other holder's life ends; the variable @a keeps the value
		view = lit("DECLARE w VIEW (c) AS SELECT $L UNION ALL SELECT $O;")
		for _, e := range []string{"CLOSE cur;", "CLOSE cur; DISPOSE CURSOR cur;", "CLOSE cur; OPEN cur;", "DISPOSE VIEW w;", "UPDATE w SET c = $O;", "ROLLBACK;"} {
			add("variable-of-cursor-row", strings.ToLower(strings.Fields(e)[0])+fmt.Sprint(len(e)), k, set(pre+view+"DECLARE cur CURSOR FOR SELECT c FROM w; OPEN cur; VAR @a; FETCH cur INTO @a;"), obs("PRINT @a;"), set(lit(e)), churn, obs("PRINT @a;"))
		}
		for _, e := range []string{"DISPOSE VIEW w;", "UPDATE w SET c = $O;", "UPDATE w SET c = c;", "DELETE FROM w;", "ROLLBACK;", "COMMIT;", "UPDATE w SET c = $O; ROLLBACK;", "COMMIT; UPDATE w SET c = $O; ROLLBACK;", "ALTER TABLE w DROP c;", "INSERT INTO w VALUES ($O); DELETE FROM w WHERE c = $L;"} {
			add("variable-of-view-cell", strings.ToLower(strings.Fields(e)[0])+fmt.Sprint(len(e)), k, set(pre+view+"VAR @a; SELECT c INTO @a FROM w LIMIT 1;"), obs("PRINT @a;"), set(lit(e)), churn, obs("PRINT @a;"))
		}
		if k.name == "string" {
			for _, e := range []string{"UPDATE t SET c = 'zzz';", "UPDATE t SET c = 'zzz'; ROLLBACK;", "ROLLBACK;", "UPDATE t SET c = 'zzz'; COMMIT;", "COMMIT;", "DELETE FROM t; COMMIT;"} {
				add("variable-of-file-cell", strings.ToLower(strings.Fields(e)[0])+fmt.Sprint(len(e)), k, set(pre+"VAR @a; SELECT c INTO @a FROM t LIMIT 1;"), obs("PRINT @a;"), set(e), churn, obs("PRINT @a;"))
			}
		}
		add("variable-of-returned-literal", "dispose-function", k, set(pre+lit("DECLARE g FUNCTION () AS BEGIN RETURN $L; END; VAR @a := g();")), obs("PRINT @a;"), set("DISPOSE FUNCTION g;"), churn, obs("PRINT @a;"))
		add("variable-of-prepared-literal", "dispose-prepare", k, set(pre+"VAR @a; PREPARE p FROM 'SELECT "+strings.ReplaceAll(k.lit, "'", "''")+" INTO @a FROM DUAL'; EXECUTE p;"), obs("PRINT @a;"), set("DISPOSE PREPARE p;"), churn, obs("PRINT @a;"))
	}
	return out
}

// c14RelLive returns the live objects that sit in a value pool: literals of the program, values of the declared
// variables, cells of the temporary tables.
func c14RelLive(env *drv.Env, stmts [][]parser.Statement) []string {
	var hits []string
	look := func(p value.Primary, what string) {
		if who, ok := vrt.InPool(p); ok {
			hits = append(hits, what+" was handed to value.Discard by "+who)
		}
	}
	for _, s := range stmts {
		walkPrimaries(s, func(p value.Primary) { look(p, "a literal of the program text") })
	}
	vars := env.Proc.ReferenceScope.AllVariables()
	for _, n := range vars.SortedKeys() {
		if p, ok := vars.Load(n); ok {
			look(p, "the value of a declared variable")
		}
	}
	tabs := env.Proc.ReferenceScope.AllTemporaryTables()
	names := tabs.SortedKeys()
	sort.Strings(names)
	for _, n := range names {
		v, ok := tabs.Load(n)
		if !ok || v == nil {
			continue
		}
		for _, rec := range v.RecordSet {
			for _, cell := range rec {
				if len(cell) > 0 {
					look(cell[0], "a cell of a temporary table")
				}
			}
		}
	}
	return hits
}

func c14RelOne(c *core.Ctx, dir string, p c14RelProgram) {
	drv.ClearDir(dir)
	drv.WriteFiles(dir, map[string]string{"t.csv": "c\nabc\ndef\n"})
	env := drv.NewText(dir)
	defer env.Close()
	env.Tx.Flags.ExportOptions.Format = option.CSV
	env.Tx.Flags.SetQuiet(true)
	parsed := make([][]parser.Statement, len(p.Pieces))
	reg := &c14Registry{ptrs: map[uintptr]string{}}
	for i, pc := range p.Pieces {
		st, _, err := parser.Parse(pc.SQL, "", false, false)
		if err != nil {
			c.Add("release_programs_not_in_grammar", 1)
			c.Observe("release_programs_not_in_grammar_list", p.Name+": "+err.Error())
			return
		}
		parsed[i] = st
		walkPrimaries(st, func(pr value.Primary) { reg.add(pr, "a literal of the program text") })
	}
	prevHook := vrt.DiscardHook
	vrt.DiscardHook = reg.hook
	defer func() { vrt.DiscardHook = prevHook }()
	vrt.DoubleDiscards()
	var observations []string
	var live []string
	failed := ""
	for i, pc := range p.Pieces {
		env.Out.Reset()
		var err error
		func() {
			defer func() {
				if r := recover(); r != nil {
					err = fmt.Errorf("panic: %v", r)
				}
			}()
			_, err = env.Proc.Execute(query.ContextForStoringResults(env.Ctx), parsed[i])
		}()
		out := strings.ReplaceAll(env.Out.String(), "\r", "")
		if err != nil {
			out += "error: " + err.Error()
			if !pc.Observe && failed == "" {
				failed = pc.SQL + " -> " + err.Error()
			}
		}
		if pc.Observe {
			if pc.Blocks {
				observations = append(observations, strings.Split(strings.TrimSuffix(out, "'----'\n"), "'----'\n")...)
			} else {
				observations = append(observations, out)
			}
		}
		if len(live) == 0 {
			live = c14RelLive(env, parsed)
		}
	}
	c.Eval("release|"+p.Name, true)
	// debugging aid: C14_DUMP=<path prefix> writes every program with what it printed
	if d := os.Getenv("C14_DUMP"); d != "" {
		if f, err := os.OpenFile(fmt.Sprintf("%s.%d", d, os.Getpid()), os.O_APPEND|os.O_CREATE|os.O_WRONLY, 0644); err == nil {
			fmt.Fprintf(f, "%s\n  %s\n  observations: %q\n  failed: %s\n", p.Name, c14RelText(p), observations, failed)
			f.Close()
		}
	}
	if failed != "" {
		// a program of this family is written to run without errors: the oracles below still apply to what was executed
		c.Add("release_programs_with_a_failing_step", 1)
		c.Observe("release_programs_with_a_failing_step_list", p.Name+": "+clip(failed))
	}
	cls := p.Share + ":" + p.End
	for _, h := range reg.hits {
		c.Violate("provenance:"+h[strings.Index(h, "discarded by"):], fmt.Sprintf("family release, program %s: %s (value.Discard was handed an object the program text still holds)\n  %s", p.Name, h, c14RelText(p)), p)
		break
	}
	if len(live) > 0 {
		h := live[0]
		c.Violate("live-object-in-pool:"+h[strings.Index(h, "value.Discard by")+17:], fmt.Sprintf("family release, program %s: %s and sits in its pool while it is still held: the next allocation overwrites it\n  %s", p.Name, h, c14RelText(p)), p)
	}
	for i := 1; i < len(observations); i++ {
		if observations[i] != observations[0] {
			c.Violate("release:surviving-holder-reads-another-value:"+cls, fmt.Sprintf("family release, program %s: observation %d of the holder that was not touched prints %q, the first observation printed %q\n  %s", p.Name, i+1, clip(observations[i]), clip(observations[0]), c14RelText(p)), p)
			break
		}
	}
	for _, d := range vrt.DoubleDiscards() {
		c.Violate("double-discard:"+d, fmt.Sprintf("family release, program %s: an object was handed to value.Discard twice without being re-issued in between (%s)\n  %s", p.Name, d, c14RelText(p)), p)
	}
	if c.WantSample() {
		c.Sample(map[string]any{"family": "release", "program": p.Name, "text": c14RelText(p), "observations": observations})
	}
}

func c14RelText(p c14RelProgram) string {
	var sb strings.Builder
	for _, pc := range p.Pieces {
		if pc.Observe {
			sb.WriteString(" [observe: " + pc.SQL + "]")
		} else {
			sb.WriteString(" " + pc.SQL)
		}
	}
	return strings.TrimSpace(sb.String())
}

func c14ReleaseRun(c *core.Ctx) {
	vrt.TrackPools(true)
	defer vrt.TrackPools(false)
	dir := core.Scratch("c14release")
	progs := c14RelPrograms(c.Thorough())
	c.Info("release_programs", len(progs))
	for i, p := range progs {
		if !c.Mine(int64(i)) {
			continue
		}
		if c.Expired() {
			c.Incomplete("time budget reached in family release")
			return
		}
		c14RelOne(c, dir, p)
	}
}

func c14ReleaseReplay(c *core.Ctx, payload json.RawMessage) bool {
	var p c14RelProgram
	if json.Unmarshal(payload, &p) != nil || p.Family != "release" {
		return false
	}
	fmt.Printf("replaying family release: %s\n  %s\n", p.Name, c14RelText(p))
	vrt.TrackPools(true)
	defer vrt.TrackPools(false)
	c14RelOne(c, core.Scratch("c14release-replay"), p)
	return true
}

var _ = rv.N
