package checks

import (
	"fmt"
	"strings"

	"verif/harness/internal/core"
	"verif/harness/internal/drv"
)

// Extra family for C04: plain texts whose leading/trailing characters are blanks of more than one byte
// (U+3000, U+2003, U+00A0, U+0085 ...). For such texts "trimmed" has two readings (every Unicode blank, or
// what csvq's own trimming removes), so the reference partition of the main families cannot decide them.
// None of these texts converts to a number, datetime or boolean: the only rung of the ladder that applies is
// the text rung, and csvq's own `=` is the normalisation the bucket key has to reproduce. The oracle is the
// reading-independent half of the property: two rows share a bucket iff csvq itself calls the two texts equal.
func init() {
	core.Extend("C04", "family trim: every unordered pair of plain texts with multi-byte blanks at the ends as a 2-row table x 7 bucketing operators x normal/strict; "+
		"oracle: same bucket iff csvq's own `=` (normal) / exact text identity (strict) holds for the pair", c04TrimRun)
}

func c04TrimAlphabet(thorough bool) []string {
	al := []string{"a", "A", " a", "a ", "a\u3000", "\u3000a", "a\u2003", "\u00a0a", "a\u00a0", "\u3000", "", " ", "b\u3000", "a\u3000b"}
	if thorough {
		al = append(al, "\u3000A\u3000", "a\u0085", "\u0085a", "a\u2028", "\u2003a\u2003", "a\u3000 ", " \u3000a", "\u00a0", "\u00e0", "\u00c0", "a\u1680", "\ufeffa", "a\ufeff", "a\u200b")
	}
	return al
}

type c04TrimOp struct {
	name string
	sql  string
	same func(rows int, first string) bool // decides "same bucket" from the number of result rows / first cell
}

var c04TrimOps = []c04TrimOp{
	{"DISTINCT", "SELECT DISTINCT k FROM t", func(n int, _ string) bool { return n == 1 }},
	{"GROUP BY", "SELECT COUNT(*) FROM t GROUP BY k", func(n int, _ string) bool { return n == 1 }},
	{"UNION", "SELECT k FROM t WHERE id = 1 UNION SELECT k FROM t WHERE id = 2", func(n int, _ string) bool { return n == 1 }},
	{"EXCEPT", "SELECT k FROM t WHERE id = 1 EXCEPT SELECT k FROM t WHERE id = 2", func(n int, _ string) bool { return n == 0 }},
	{"INTERSECT", "SELECT k FROM t WHERE id = 1 INTERSECT SELECT k FROM t WHERE id = 2", func(n int, _ string) bool { return n == 1 }},
	{"PARTITION BY", "SELECT COUNT(*) OVER (PARTITION BY k) FROM t WHERE id IN (1, 2)", func(_ int, f string) bool { return f == "2" }},
	{"COUNT DISTINCT", "SELECT COUNT(DISTINCT k) FROM t", func(_ int, f string) bool { return f == "1" }},
}

func c04Quote(s string) string { return "'" + strings.ReplaceAll(s, "'", "''") + "'" }

func c04TrimRun(c *core.Ctx) {
	dir := core.Scratch("c04trim")
	al := c04TrimAlphabet(c.Thorough())
	var idx int64
	for i := range al {
		for j := i; j < len(al); j++ {
			for strict := 0; strict < 2; strict++ {
				idx++
				if !c.Mine(idx) {
					continue
				}
				c04TrimPair(c, dir, al[i], al[j], strict == 1)
			}
		}
	}
}

type c04TrimPayload struct {
	Family string `json:"family"`
	X      string `json:"x"`
	Y      string `json:"y"`
	Strict bool   `json:"strict"`
}

func c04TrimPair(c *core.Ctx, dir string, x, y string, strict bool) {
	env := drv.New(dir)
	defer env.Close()
	payload := c04TrimPayload{"trim", x, y, strict}
	set := ""
	mode := "normal"
	if strict {
		set = "SET @@STRICT_EQUAL TO TRUE; "
		mode = "strict"
	}
	r := env.Exec(set + "DECLARE t VIEW (id, k); INSERT INTO t VALUES (1, " + c04Quote(x) + "), (2, " + c04Quote(y) + "); SELECT " + c04Quote(x) + " = " + c04Quote(y) + ";")
	if r.Err != nil || r.Panic != nil || len(r.Views) != 1 {
		c.Incomplete(fmt.Sprintf("trim family: setup failed for (%q, %q): %v %v", x, y, r.Err, r.Panic))
		return
	}
	eqRows := drv.Rows(r.Views[0])
	ownEq := len(eqRows) == 1 && len(eqRows[0]) == 1 && strings.Contains(strings.ToUpper(fmt.Sprint(eqRows[0][0])), "TRUE")
	want := ownEq
	ref := fmt.Sprintf("csvq's own %q = %q is %v", x, y, ownEq)
	if strict {
		want = x == y
		ref = fmt.Sprintf("the texts are identical: %v", x == y)
	}
	for _, op := range c04TrimOps {
		q := env.Exec(op.sql + ";")
		c.Eval(fmt.Sprintf("trim:%q:%q:%s:%s", x, y, op.name, mode), x != y)
		if q.Err != nil || q.Panic != nil || len(q.Views) == 0 {
			c.Violate("trim:"+op.name+":query-fails", fmt.Sprintf("%s on the table {%q, %q}: %v %v", op.sql, x, y, q.Err, q.Panic), payload)
			continue
		}
		rows := drv.Rows(q.Views[len(q.Views)-1])
		first := ""
		if len(rows) > 0 && len(rows[0]) > 0 {
			first = strings.TrimPrefix(fmt.Sprint(rows[0][0]), "I:")
		}
		got := op.same(len(rows), first)
		if got != want {
			kind := "bucket-split"
			if got {
				kind = "bucket-merge"
			}
			c.Violate("trim:"+kind+":"+op.name+":"+mode, fmt.Sprintf("%s on the 2-row table {%q, %q} (%s mode): same bucket = %v, but %s", op.name, x, y, mode, got, ref), payload)
		}
	}
}
