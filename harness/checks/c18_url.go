package checks

import (
	"reflect"
	"sort"
	"strings"

	"github.com/mithrandie/csvq/lib/parser"
	"github.com/mithrandie/csvq/lib/value"

	"verif/harness/internal/core"
)

// Extra family for C18: URL tokens. The manual (select-query, _url_) describes a table given as "a string of
// characters representing URL starting with a schema name and a colon" and leaves open where that string ends; the
// scanner ends it at a blank or one of { } | \ ^ [ ] `. The printer, on the other hand, puts its own separators right
// behind a table: ", " in a table list or an argument list, ")" behind a parenthesised table, a subquery or a
// format-specified function. The family enumerates every URL body up to a small length over the characters that
// matter (the printer's separators, quotes, operator and comment characters, the manual's own examples) in every
// place of the grammar that takes a table, written with a blank behind the URL (so that the text parses whatever the
// URL holds) and written tight. The oracle is the one of the whole check: the text parses or is rejected with a
// positioned syntax error, and what parsed prints to a text that parses back to the same tree.
func init() {
	core.Extend("C18", "family url: every URL token <scheme>:<body> (3 schemes; bodies = all strings up to length 2 (thorough 3) over 16 characters , ; ) ( ' \" ? = % : - # @ . / a, "+
		"plus the manual's examples) in 47 table positions (table lists, aliases, parentheses, joins, subqueries in 5 expression forms, the 9 format-specified functions with and without "+
		"further arguments, set operations, WITH, cursors, INSERT/UPDATE/DELETE/ALTER/CREATE targets), each with a blank behind the URL and tight, in all four modes; same oracle as the other text families", c18URLRun)
}

var c18URLSchemes = []string{"file:", "https://h/", "x:"}

var c18URLChars = []string{",", ";", ")", "(", "'", "\"", "?", "=", "%", ":", "-", "#", "@", ".", "/", "a"}

var c18URLManual = []string{
	"https://example.com/files/data.csv", "file:///C:/Users/yourname/files/data.csv", "file:./data.csv", "https://api.github.com/repos/mithrandie/csvq/releases",
	"https://example.com/csv?q=1", "file:a.csv", "file:./a(1).csv", "https://example.com/a?ids=1,2&x=(3)", "file:a.csv--", "file:/*a*/",
}

// {U} = the URL followed by a blank, {V} = the URL with nothing behind it
var c18URLContexts = []string{
	"SELECT * FROM {V}", "SELECT * FROM {U}, t", "SELECT * FROM {V}, t", "SELECT * FROM t, {V}", "SELECT * FROM {U}, {V}", "SELECT * FROM {V}, {V}", "SELECT * FROM t, {U}, u",
	"SELECT * FROM {U} x", "SELECT * FROM {U} AS x, t", "SELECT * FROM ({U})", "SELECT * FROM ({V})", "SELECT * FROM ({U}), ({U})", "SELECT * FROM ({U}) x",
	"SELECT * FROM {U} JOIN t ON a = b", "SELECT * FROM t JOIN {U} ON a = b", "SELECT * FROM t CROSS JOIN {V}", "SELECT * FROM (t NATURAL JOIN {U})", "SELECT * FROM t JOIN {U} USING (a)", "SELECT * FROM t LEFT JOIN {U} ON a = b, u",
	"SELECT (SELECT a FROM {U})", "SELECT (SELECT a FROM {V})", "SELECT 1 WHERE EXISTS (SELECT 1 FROM {U})", "SELECT a IN (SELECT a FROM {U}) FROM t", "SELECT f((SELECT a FROM {U}), 2)", "SELECT a = ANY (SELECT a FROM {U}) FROM t",
	"SELECT * FROM CSV(',', {U})", "SELECT * FROM CSV(',', {V})", "SELECT * FROM CSV(',', {U}, 'UTF8', TRUE)", "SELECT * FROM JSON('q', {U}) j", "SELECT * FROM JSONL('q', {U})", "SELECT * FROM FIXED('[1]', {U}, 'UTF8')",
	"SELECT * FROM LTSV({U})", "SELECT * FROM LTSV({U}, 'UTF8')", "SELECT * FROM CSV_INLINE(',', {U})", "SELECT * FROM JSON_INLINE('q', {U}, 'UTF8')", "SELECT * FROM JSON_TABLE('q', {U})",
	"SELECT a FROM {U} UNION SELECT a FROM {V}", "(SELECT a FROM {U}) EXCEPT (SELECT a FROM {U})", "WITH ct AS (SELECT a FROM {U}) SELECT 1", "DECLARE c CURSOR FOR SELECT a FROM {U}, t",
	"SELECT * FROM {V};SELECT 2", "SELECT a FROM {U} WHERE a IN (SELECT a FROM {V}) ORDER BY a", "INSERT INTO {U} SELECT a FROM {U}, t", "UPDATE {U} SET a = (SELECT 1 FROM {U})", "DELETE FROM {U} WHERE EXISTS (SELECT 1 FROM {U})",
	"ALTER TABLE {U} ADD a DEFAULT (SELECT 1 FROM {U})", "CREATE TABLE n AS SELECT a FROM {U}, u",
}

func c18URLRun(c *core.Ctx) {
	s := newC18State(c)
	defer func() {
		if !s.stopped.Load() {
			s.env.Close()
		}
	}()
	c18Guard(s, func() {
		c18FamURL(s)
		s.flush()
		c.Add("cases_url", s.total)
	})
}

func c18FamURL(s *c18State) bool {
	maxLen := 2
	if s.c.Thorough() {
		maxLen = 3
	}
	var serial int64
	one := func(url string) {
		for _, ctx := range c18URLContexts {
			serial++
			if !s.c.Mine(serial) {
				continue
			}
			s.runText("url", strings.NewReplacer("{U}", url+" ", "{V}", url).Replace(ctx), true)
		}
		s.tick()
	}
	for _, u := range c18URLManual {
		one(u)
	}
	var bodies []string
	var rec func(prefix string, k int)
	rec = func(prefix string, k int) {
		bodies = append(bodies, prefix)
		if k == 0 {
			return
		}
		for _, ch := range c18URLChars {
			rec(prefix+ch, k-1)
		}
	}
	rec("", maxLen)
	for _, b := range bodies {
		if s.expired("url") {
			return false
		}
		for _, sch := range c18URLSchemes {
			one(sch + b)
		}
	}
	s.c.Max("max_length_url", int64(maxLen))
	return true
}

// c18URLBeforeDelimiter: the scanner does not read from the print of q the URLs that q's tree holds - one of the
// printer's separators behind a URL became part of it (used to name the class of a failed round trip, not to decide it).
func c18URLBeforeDelimiter(q parser.QueryExpression, m c18Mode) bool {
	var raws []string
	var walk func(v reflect.Value)
	walk = func(v reflect.Value) {
		switch v.Kind() {
		case reflect.Interface, reflect.Ptr:
			if v.IsNil() {
				return
			}
			if v.Kind() == reflect.Ptr {
				if _, ok := v.Interface().(value.Primary); ok {
					return
				}
				if _, ok := v.Interface().(*parser.BaseExpr); ok {
					return
				}
			}
			walk(v.Elem())
		case reflect.Struct:
			if v.Type() == c18TokenType {
				return
			}
			if u, ok := v.Interface().(parser.Url); ok {
				raws = append(raws, u.Raw)
				return
			}
			for i := 0; i < v.NumField(); i++ {
				if v.Type().Field(i).PkgPath == "" {
					walk(v.Field(i))
				}
			}
		case reflect.Slice:
			for i := 0; i < v.Len(); i++ {
				walk(v.Index(i))
			}
		}
	}
	walk(reflect.ValueOf(q))
	if len(raws) == 0 {
		return false
	}
	var read []string
	func() {
		defer func() { _ = recover() }()
		sc := new(parser.Scanner).Init(q.String(), "", m.Prep, m.Ansi)
		for i := 0; i < 100000; i++ {
			tok, err := sc.Scan()
			if err != nil || tok.Token == parser.EOF {
				return
			}
			if tok.Token == parser.URL {
				read = append(read, tok.Literal)
			}
		}
	}()
	sort.Strings(raws)
	sort.Strings(read)
	if len(raws) != len(read) {
		return true
	}
	for i := range raws {
		if raws[i] != read[i] {
			return true
		}
	}
	return false
}
