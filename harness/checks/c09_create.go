//go:build verifx

package checks

import (
	"fmt"
	"path/filepath"
	"strings"

	"github.com/mithrandie/csvq/lib/file"

	"verif/harness/internal/drv"
	"verif/harness/internal/fsx"
)

// Family create (C09): two (thorough: three) processes race for the creation of one table that does not exist yet. A
// creator is the narrow seam (file.Container.CreateHandlerForCreate, write, Commit or Close = rollback) or a full csvq
// process image running CREATE TABLE + INSERT with the automatic commit; the other party is a second creator or a reader
// of the table under creation. All interleavings of their file-system steps.
//
// Oracle: creating a table is a change of that table like any other - "every committed change survives" and a process
// that does not get the table "changes nothing":
//   - at most one creation of the table is committed (the second creator finds the table, or its lock, and fails);
//   - when a creation was committed the table exists once all processes have ended and holds what its creator wrote;
//   - when none was committed (rolled back, failed) no table file is left;
//   - a reader either fails or returns the complete committed content; two creators are never inside at once; no control
//     file is left.
const c09CreateRule = "family create: creators {lib/file create handler + Commit, + Close (rollback), CREATE TABLE + INSERT with automatic commit} racing with {a second creator of either kind, a read handler; thorough: two more creators}, all interleavings; " +
	"oracle: at most one creation is committed; a committed creation is there at the end with its creator's content; no creation committed = no table file; a reader fails or reads the complete committed content"

func init() { c09FamRegister("create", c09CreateRule, c09CreateList) }

const c09CreateTable = "new.csv"

func c09CreateValue(pid int) int { return 100 * pid }

func bodyCreateRollback(table string) func(p *fsx.Proc) {
	return func(p *fsx.Proc) {
		c := file.NewContainer()
		h, err := c.CreateHandlerForCreate(filepath.Join(p.Dir, table))
		if err != nil {
			p.Obs("C-fail " + table + " " + errClass(err))
			return
		}
		p.Obs("W-enter " + table)
		fp, _ := h.FileForUpdate()
		fmt.Fprintf(fp, "n\n%d\n", c09CreateValue(p.ID))
		p.Yield("in-section")
		err = c.Close(h)
		p.Obs("C-rollback " + table + " " + errClass(err))
		p.Obs("W-exit " + table)
	}
}

// one creator per letter: c = handler + commit, r = handler + rollback, s = CREATE TABLE + INSERT, R = read handler
func c09CreateBodies(kinds string) func(dir string) []func(*fsx.Proc) {
	return func(dir string) []func(*fsx.Proc) {
		var out []func(*fsx.Proc)
		for i, k := range kinds {
			switch k {
			case 'c':
				out = append(out, bodyCreate(c09CreateTable))
			case 'r':
				out = append(out, bodyCreateRollback(c09CreateTable))
			case 'R':
				out = append(out, bodyRead(c09CreateTable))
			case 's':
				env := drv.New(dir)
				env.Tx.AutoCommit = true
				prog := fmt.Sprintf("CREATE TABLE `%s` (n); INSERT INTO `%s` VALUES (%d);", c09CreateTable, c09CreateTable, c09CreateValue(i+1))
				out = append(out, func(p *fsx.Proc) {
					r := env.Exec(prog)
					p.Obs(fmt.Sprintf("SQL-create -> %s", c09SQLRes(r)))
					env.Close()
					p.Obs("closed")
				})
			}
		}
		return out
	}
}

func c09CreateOracle() func(w *fsx.World) []fsx.Violation {
	narrow := c09Oracle(map[string]int{c09CreateTable: -1}) // mutual exclusion of the sections, completeness of what is read, leftovers
	return func(w *fsx.World) []fsx.Violation {
		out := narrow(w)
		if !w.Final {
			return out
		}
		var winners []*fsx.Proc
		for _, p := range w.Procs {
			if p.HasObs("C-commit "+c09CreateTable+" ok") || p.HasObs("SQL-create -> ok") {
				winners = append(winners, p)
			}
			for _, l := range p.ObsWithPrefix("SQL-create -> ") {
				if strings.HasPrefix(l, "PANIC") || strings.Contains(l, "Fatal") {
					out = append(out, fsx.Violation{Sig: "unexpected-error-or-panic", Msg: p.Name + ": " + l})
				}
			}
			for _, l := range p.ObsWithPrefix("R-read " + c09CreateTable + " ") {
				ok := false
				for _, q := range w.Procs {
					if l == fmt.Sprintf("%q", fmt.Sprintf("n\n%d\n", c09CreateValue(q.ID))) {
						ok = true
					}
				}
				if !ok {
					out = append(out, fsx.Violation{Sig: "I3:read-of-incomplete-content", Msg: p.Name + " read " + l + " from the table under creation"})
				}
			}
		}
		content, exists := w.Files[c09CreateTable]
		switch {
		case len(winners) > 1:
			out = append(out, fsx.Violation{Sig: "create:I2:two-creations-of-one-table-committed", Msg: fmt.Sprintf("%s and %s both created %s and committed", winners[0].Name, winners[1].Name, c09CreateTable)})
		case len(winners) == 1:
			want := fmt.Sprintf("n\n%d\n", c09CreateValue(winners[0].ID))
			if !exists {
				out = append(out, fsx.Violation{Sig: "create:I2:committed-creation-lost", Msg: fmt.Sprintf("%s created %s and committed %q without an error; after all processes ended the table does not exist", winners[0].Name, c09CreateTable, want)})
			} else if content != want {
				out = append(out, fsx.Violation{Sig: "create:I2:committed-creation-overwritten", Msg: fmt.Sprintf("%s created %s and committed %q without an error; the table ends as %q", winners[0].Name, c09CreateTable, want, content)})
			}
		default:
			if exists {
				out = append(out, fsx.Violation{Sig: "create:no-creation-committed-yet-a-table-file-is-left", Msg: fmt.Sprintf("no process committed a creation of %s; the file exists with %q", c09CreateTable, content)})
			}
		}
		return out
	}
}

func c09CreateList() []c09FamScenario {
	type cs struct {
		kinds    string
		slot     int64
		thorough bool
	}
	names := map[rune]string{'c': "create", 'r': "create+rollback", 's': "sql CREATE,INSERT", 'R': "read handler"}
	var out []c09FamScenario
	for _, s := range []cs{{"cc", 16, false}, {"rc", 5, false}, {"ss", 6, false}, {"sc", 10, false}, {"cR", 5, false}, {"sR", 6, true}, {"rR", 13, true}, {"sr", 14, true}, {"ccc", 1, true}, {"ssc", 3, true}} {
		s := s
		var parts []string
		for _, k := range s.kinds {
			parts = append(parts, names[k])
		}
		out = append(out, c09FamScenario{family: "create", name: "create: " + strings.Join(parts, " || "), slot: s.slot, thoroughOnly: s.thorough,
			build: func() *fsx.Scenario {
				return &fsx.Scenario{Setup: func(string) {}, Bodies: c09CreateBodies(s.kinds), Check: c09CreateOracle()}
			}})
	}
	return out
}
