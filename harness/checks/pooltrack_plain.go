//go:build !verifx

package checks

func poolTrack(on bool)            {}
func poolDoubleReleases() []string { return nil }
