package checks

import (
	"encoding/json"
	"fmt"
	"strings"

	"verif/harness/internal/core"
	"verif/harness/internal/drv"
)

// Extra family for C15: the cursor status expressions and FETCH on a name that is declared in several nested
// blocks. The property: a cursor declared inside an IF/CASE/WHILE block or a user-defined function "shadows,
// without modifying, an outer object of the same name" and "exists only until that block ... ends". The manual
// (cursor.md, Cursor Status): IS OPEN tells whether the cursor is open; IS IN RANGE is UNKNOWN before the first
// fetch, tells whether the pointer is on an existing record afterwards, and "if the cursor is closed, then an
// error is occurred"; COUNT is the number of rows of the cursor's view (no view while it is closed: an error).
//
// Enumerated: a chain of 1 (and 2 over a reduced alphabet; thorough: 2, and 3 reduced) nested blocks below the global one, every
// block of every syntactic form (IF, ELSE, CASE, WHILE, WHILE VAR IN, function body), every level - the global one
// included - with the cursor c in each of six states (not declared / declared and never opened / opened, fetched
// and closed again / open, not fetched / open, pointer on a record / open, pointer behind the last record), the
// cursors of different levels with different row counts and values, x six observations (COUNT, IS IN RANGE, IS NOT
// IN RANGE, IS OPEN, IS NOT OPEN, FETCH) x the level at which the observation stands (inside the innermost block,
// or in an enclosing one after the inner blocks have ended) x PRINT <expression> / VAR @o := <expression>.
//
// Oracle (reference model): the observation is answered by the innermost level, at or outside the observing one,
// that declares c, in the state that level's own statements gave it - a closed one with the error "cursor is
// closed" for COUNT / IS IN RANGE / FETCH and FALSE for IS OPEN, never by walking on to an outer cursor, never by
// a cursor of a block that has ended; no level declares c: "undeclared cursor". Not compared: a name that would
// have to be found across a function boundary (the manual does not say what a function body sees of its caller).
func init() {
	core.Extend("C15", "family curstatus: cursor c declared in up to 2 nested levels, 3 over a reduced alphabet (thorough: 3, 4 reduced; global, IF / ELSE / CASE / WHILE / WHILE VAR IN / function body), each level's cursor in one of 6 states "+
		"(undeclared, never opened, closed again, open unfetched, on a record, behind the last record) x COUNT / IS [NOT] IN RANGE / IS [NOT] OPEN / FETCH x observing level (innermost block, enclosing blocks after the inner ones ended) x PRINT / VAR; "+
		"oracle: answered by the innermost declaration visible at the observing level in its own state (closed: error for COUNT / IN RANGE / FETCH, FALSE for IS OPEN), outer cursors unmodified", c15CurStatusRun)
}

const (
	c15csNone = iota
	c15csDeclared
	c15csReclosed
	c15csOpen
	c15csOnRecord
	c15csPast
)

var c15csStateName = []string{"undeclared", "never-opened", "closed-again", "open-unfetched", "on-record", "behind-last"}

var c15csForms = []string{"if", "else", "case", "while", "while-var-in", "function"}

var c15csObs = []string{"count", "in-range", "not-in-range", "is-open", "is-not-open", "fetch"}

type c15CSCase struct {
	Family string   `json:"family"`
	States []int    `json:"states"` // per level, level 0 = global block
	Forms  []string `json:"forms"`  // per level >= 1 (index 0 unused)
	Obs    string   `json:"observation"`
	At     int      `json:"observed_at_level"`
	Var    bool     `json:"through_variable"`
	SQL    string   `json:"sql"`
	Want   string   `json:"want"`     // printed line, or ""
	WantEr string   `json:"want_err"` // error class, or ""
	From   int      `json:"answering_level"`
}

func c15csRows(level int) int { return level + 2 }

func c15csQuery(level int) string {
	var parts []string
	for i := 1; i <= c15csRows(level); i++ {
		parts = append(parts, fmt.Sprintf("SELECT %d", 100*(level+1)+i))
	}
	return strings.Join(parts, " UNION ALL ")
}

// the statements that bring the cursor of one level into a state; they only ever name the cursor they have just
// declared in their own block
func c15csSetup(level, state int) string {
	if state == c15csNone {
		return ""
	}
	v := fmt.Sprintf("@v%d", level)
	s := fmt.Sprintf("DECLARE c CURSOR FOR %s; ", c15csQuery(level))
	switch state {
	case c15csReclosed:
		s += fmt.Sprintf("VAR %s; OPEN c; FETCH c INTO %s; CLOSE c; ", v, v)
	case c15csOpen:
		s += "OPEN c; "
	case c15csOnRecord:
		s += fmt.Sprintf("VAR %s; OPEN c; FETCH c INTO %s; ", v, v)
	case c15csPast:
		s += fmt.Sprintf("VAR %s; OPEN c; FETCH LAST c INTO %s; FETCH NEXT c INTO %s; ", v, v, v)
	}
	return s
}

func c15csBlock(form string, level int, body string) string {
	switch form {
	case "if":
		return "IF TRUE THEN " + body + "END IF; "
	case "else":
		return "IF FALSE THEN PRINT 'no'; ELSE " + body + "END IF; "
	case "case":
		return "CASE WHEN FALSE THEN PRINT 'no'; ELSE " + body + "END CASE; "
	case "while":
		return fmt.Sprintf("VAR @i%d := 0; WHILE @i%d < 1 DO @i%d := @i%d + 1; %sEND WHILE; ", level, level, level, level, body)
	case "while-var-in":
		return fmt.Sprintf("DECLARE w%d CURSOR FOR SELECT 1; OPEN w%d; WHILE VAR @w%d IN w%d DO %sEND WHILE; ", level, level, level, level, body)
	default: // function
		return fmt.Sprintf("DECLARE f%d FUNCTION () AS BEGIN %sRETURN 0; END; VAR @r%d := f%d(); ", level, body, level, level)
	}
}

func c15csObserve(obs string, at int, through bool) string {
	if obs == "fetch" {
		return fmt.Sprintf("VAR @o%d; FETCH c INTO @o%d; PRINT @o%d; ", at, at, at)
	}
	var e string
	switch obs {
	case "count":
		e = "CURSOR c COUNT"
	case "in-range":
		e = "CURSOR c IS IN RANGE"
	case "not-in-range":
		e = "CURSOR c IS NOT IN RANGE"
	case "is-open":
		e = "CURSOR c IS OPEN"
	default:
		e = "CURSOR c IS NOT OPEN"
	}
	if through {
		return fmt.Sprintf("VAR @o%d := %s; PRINT @o%d; ", at, e, at)
	}
	return "PRINT " + e + "; "
}

// the reference model: what the cursor of `level` in `state` answers
func c15csAnswer(level, state int, obs string) (string, string) {
	closed := state == c15csDeclared || state == c15csReclosed
	neg := func(s string) string {
		switch s {
		case "TRUE":
			return "FALSE"
		case "FALSE":
			return "TRUE"
		}
		return s
	}
	switch obs {
	case "is-open", "is-not-open":
		s := "TRUE"
		if closed {
			s = "FALSE"
		}
		if obs == "is-not-open" {
			s = neg(s)
		}
		return s, ""
	}
	if closed {
		return "", "cursor-closed"
	}
	switch obs {
	case "count":
		return fmt.Sprint(c15csRows(level)), ""
	case "in-range", "not-in-range":
		s := "UNKNOWN"
		switch state {
		case c15csOnRecord:
			s = "TRUE"
		case c15csPast:
			s = "FALSE"
		}
		if obs == "not-in-range" {
			s = neg(s)
		}
		return s, ""
	}
	// fetch (NEXT)
	switch state {
	case c15csOpen:
		return fmt.Sprint(100*(level+1) + 1), ""
	case c15csOnRecord:
		return fmt.Sprint(100*(level+1) + 2), ""
	}
	return "NULL", ""
}

// c15csBuild returns false for a case the oracle does not speak about
func c15csBuild(states []int, forms []string, obs string, at int, through bool) (c15CSCase, bool) {
	k := c15CSCase{Family: "curstatus", States: states, Forms: forms, Obs: obs, At: at, Var: through, From: -1}
	for l := at; l >= 0; l-- {
		if states[l] != c15csNone {
			k.From = l
			break
		}
	}
	if k.From >= 0 {
		for l := k.From + 1; l <= at; l++ {
			if forms[l] == "function" {
				return k, false // the name would be found across a function boundary
			}
		}
		k.Want, k.WantEr = c15csAnswer(k.From, states[k.From], obs)
	} else {
		k.WantEr = "undeclared-cursor"
	}
	body := ""
	for l := len(states) - 1; l >= 0; l-- {
		b := c15csSetup(l, states[l]) + body
		if l == at {
			b += c15csObserve(obs, at, through)
		}
		if l == 0 {
			body = b
		} else {
			body = c15csBlock(forms[l], l, b)
		}
	}
	k.SQL = strings.ReplaceAll(strings.TrimSpace(body), "; ", ";\n") + "\n"
	return k, true
}

func c15csEnumerate(depth int, stateSet []int, formSet []string, ctxs []bool, emit func(c15CSCase)) {
	states := make([]int, depth+1)
	forms := make([]string, depth+1)
	var rec func(l int)
	rec = func(l int) {
		if l > depth {
			for _, obs := range c15csObs {
				for at := 0; at <= depth; at++ {
					for _, through := range ctxs {
						if through && obs == "fetch" {
							continue
						}
						k, ok := c15csBuild(append([]int(nil), states...), append([]string(nil), forms...), obs, at, through)
						if ok {
							emit(k)
						}
					}
				}
			}
			return
		}
		for _, s := range stateSet {
			states[l] = s
			if l == 0 {
				rec(l + 1)
				continue
			}
			for _, f := range formSet {
				forms[l] = f
				rec(l + 1)
			}
		}
	}
	rec(0)
}

func c15CurStatusCases(thorough bool) []c15CSCase {
	var out []c15CSCase
	emit := func(k c15CSCase) { out = append(out, k) }
	all := []int{c15csNone, c15csDeclared, c15csReclosed, c15csOpen, c15csOnRecord, c15csPast}
	small := []int{c15csNone, c15csDeclared, c15csReclosed, c15csOnRecord}
	c15csEnumerate(1, all, c15csForms, []bool{false, true}, emit)
	if thorough {
		c15csEnumerate(2, all, c15csForms, []bool{false}, emit)
		c15csEnumerate(3, small, []string{"if", "while", "function"}, []bool{false}, emit)
	} else {
		c15csEnumerate(2, small, []string{"if", "while", "function"}, []bool{false}, emit)
	}
	return out
}

func c15CurStatusOne(c *core.Ctx, dir string, k c15CSCase) {
	var names []string
	for _, s := range k.States {
		names = append(names, c15csStateName[s])
	}
	c.Eval(fmt.Sprintf("curstatus|%v|%v|%s|%d|%v", k.States, k.Forms, k.Obs, k.At, k.Var), k.From >= 0 && k.From < k.At || len(k.States)-1 > k.At)
	for run := 0; run < 2; run++ { // twice on one process image
		env := drv.NewText(dir)
		env.Tx.Flags.SetQuiet(true)
		r := env.Exec(k.SQL)
		env.Close()
		got := strings.TrimSpace(r.Out)
		cls := c15ErrClass(r.Err)
		if r.Panic == nil && cls == k.WantEr && (k.WantEr != "" || got == k.Want) {
			continue
		}
		// which other declaration of the chain would have given this answer?
		what := "neither the answer nor the error of the innermost visible declaration"
		if r.Panic != nil {
			what = "panic"
		} else {
			for l := range k.States {
				if l == k.From || k.States[l] == c15csNone {
					continue
				}
				w, we := c15csAnswer(l, k.States[l], k.Obs)
				if we == cls && (we != "" || w == got) {
					if l < k.From {
						what = "answered by an outer cursor of the same name instead of the innermost declaration"
					} else {
						what = "answered by the cursor of a block that has ended"
					}
					break
				}
			}
			if k.From < 0 && cls == "" {
				what = "answered although no visible block declares the cursor"
			}
		}
		inner := "none"
		if k.From >= 0 {
			inner = c15csStateName[k.States[k.From]]
		}
		c.Violate("curstatus:"+k.Obs+": innermost declaration "+inner+": "+what,
			fmt.Sprintf("cursor c per level (0 = global) %v, blocks %v, observation %s at level %d (through a variable: %v)\n%sprints %q, error class %q (err=%v panic=%v); the innermost declaration visible there is the one of level %d: expected %q, error class %q",
				names, k.Forms[1:], k.Obs, k.At, k.Var, k.SQL, got, cls, r.Err, r.Panic, k.From, k.Want, k.WantEr), k)
		return
	}
}

func c15CurStatusRun(c *core.Ctx) {
	if c15Skip(c, "curstatus") {
		return
	}
	dir := core.Scratch("c15curstatus")
	for i, k := range c15CurStatusCases(c.Thorough()) {
		if i%64 == 0 && c.Expired() {
			c.Incomplete("family curstatus cut by the time budget")
			return
		}
		if !c.Mine(int64(i)) {
			continue
		}
		c15CurStatusOne(c, dir, k)
		if c.WantSample() && k.From >= 0 && k.From < k.At && k.WantEr != "" {
			c.Sample(k)
		}
	}
}

func c15CurStatusReplay(c *core.Ctx, payload json.RawMessage) bool {
	var k c15CSCase
	if json.Unmarshal(payload, &k) != nil || k.Family != "curstatus" {
		return false
	}
	fmt.Printf("replaying family curstatus: states %v, blocks %v, %s at level %d\n%s", k.States, k.Forms, k.Obs, k.At, k.SQL)
	c15CurStatusOne(c, core.Scratch("c15curstatus-replay"), k)
	return true
}
