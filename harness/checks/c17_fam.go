package checks

// Shared runner of the C17 families order-twins, strict-distinct and wrapped: one case = one table t(id, p, o, v)
// given by its CSV texts and one SELECT id, p, o, v, <item>, <item>, ... FROM t; every item is an analytic call
// (anref.Call, what the model computes) together with the program text that is given to csvq for it. Each item's
// column is decided against the definitional model exactly as in the main family (c17Explained: tie order free,
// every accepted reading of the points the manual leaves open).

import (
	"encoding/json"
	"fmt"
	"os"
	"path/filepath"
	"strconv"
	"strings"

	"github.com/mithrandie/csvq/lib/parser"
	"github.com/mithrandie/csvq/lib/query"

	"verif/harness/internal/anref"
	"verif/harness/internal/core"
	"verif/harness/internal/drv"
	"verif/harness/internal/rv"
)

type c17FamItem struct {
	Call *anref.Call `json:"call"`
	SQL  string      `json:"sql"` // the select-list expression given to csvq
	// Wrap names how the call's value is found in the expression's value: "" = it is the value,
	// "json" = the expression is JSON_OBJECT(<call> AS r), the value is member r of the object
	Wrap string `json:"wrap,omitempty"`
}

type c17FamCase struct {
	Family string       `json:"family"`
	Rows   [][3]string  `json:"rows"` // CSV texts of p, o, v; the empty text is NULL
	Items  []c17FamItem `json:"items"`
	Strict bool         `json:"strict_equal,omitempty"`
}

type c17FamEval func(*anref.Call, []anref.Row, anref.Reading) anref.Result

type c17Fam struct {
	c      *core.Ctx
	name   string
	dir    string
	env    *drv.Env
	strict bool
	eval   c17FamEval
	// defect (optional) gives a mismatch that a model of a diagnosed csvq defect reproduces its narrow signature
	defect func(it c17FamItem, rows []anref.Row, got map[int]rv.V, ev c17FamEval) string
}

func newC17Fam(c *core.Ctx, name, scratch string, strict bool) *c17Fam {
	f := &c17Fam{c: c, name: name, dir: core.Scratch(scratch), strict: strict, eval: anref.Eval}
	f.env = drv.New(f.dir)
	if res := f.env.Exec(c17UCAT); res.Err != nil || res.Panic != nil {
		panic(fmt.Sprint("C17: cannot declare the user defined aggregate: ", res.Err, res.Panic))
	}
	if strict {
		if res := f.env.Exec("SET @@STRICT_EQUAL TO TRUE;"); res.Err != nil || res.Panic != nil {
			panic(fmt.Sprint("C17: cannot set @@STRICT_EQUAL: ", res.Err, res.Panic))
		}
	}
	return f
}

func (f *c17Fam) close() { f.env.Close() }

func c17FamSelect(items []c17FamItem) string {
	cols := make([]string, len(items))
	for i, it := range items {
		cols[i] = it.SQL + " AS c" + strconv.Itoa(i)
	}
	return "SELECT id, p, o, v, " + strings.Join(cols, ", ") + " FROM t"
}

func c17FamRows(texts [][3]string) []anref.Row {
	rows := make([]anref.Row, len(texts))
	for i, r := range texts {
		rows[i].ID = i + 1
		for k, s := range r {
			if s == "" {
				rows[i].C[k] = rv.N()
			} else {
				rows[i].C[k] = rv.S(s)
			}
		}
	}
	return rows
}

func c17FamCSV(texts [][3]string) string {
	var sb strings.Builder
	sb.WriteString("id,p,o,v\n")
	for i, r := range texts {
		sb.WriteString(strconv.Itoa(i + 1))
		for _, s := range r {
			sb.WriteByte(',')
			sb.WriteString(s)
		}
		sb.WriteByte('\n')
	}
	return sb.String()
}

func c17FamKey(texts [][3]string) string {
	parts := make([]string, len(texts))
	for i, r := range texts {
		cs := make([]string, 3)
		for k, s := range r {
			if s == "" {
				s = "N"
			}
			cs[k] = s
		}
		parts[i] = strings.Join(cs, ",")
	}
	return strings.Join(parts, " ")
}

func (f *c17Fam) load(texts [][3]string) {
	_ = f.env.Tx.ReleaseResources()
	if err := os.WriteFile(filepath.Join(f.dir, "t.csv"), []byte(c17FamCSV(texts)), 0644); err != nil {
		panic(err)
	}
}

func (f *c17Fam) exec(st []parser.Statement) (o c17Outcome) {
	defer func() {
		if p := recover(); p != nil {
			o.panic = p
		}
	}()
	_, err := f.env.Proc.Execute(query.ContextForStoringResults(f.env.Ctx), st)
	if err != nil {
		o.err = err
		return
	}
	vs := f.env.Tx.SelectedViews
	if len(vs) == 0 {
		o.err = fmt.Errorf("harness: no result view")
		return
	}
	o.rows = drv.Rows(vs[len(vs)-1])
	return
}

// c17JSONMember: member r of the JSON object the text holds, as a value (numbers as floats: the text of a JSON
// number does not tell integer and float apart).
func c17JSONMember(v rv.V) rv.V {
	if v.K != rv.Str {
		return rv.S("not a JSON object: " + v.Key())
	}
	var obj map[string]any
	dec := json.NewDecoder(strings.NewReader(v.S))
	dec.UseNumber()
	if err := dec.Decode(&obj); err != nil {
		return rv.S("not a JSON object: " + v.S)
	}
	e, ok := obj["r"]
	if !ok || len(obj) != 1 {
		return rv.S("not an object with the one member r: " + v.S)
	}
	switch x := e.(type) {
	case nil:
		return rv.N()
	case string:
		return rv.S(x)
	case json.Number:
		fl, err := x.Float64()
		if err != nil {
			return rv.S("unreadable number: " + x.String())
		}
		return rv.Fl(fl)
	case []any:
		// JSON_OBJECT embeds a text that is a JSON array (the value of JSON_AGG) as an array: back to the text
		b, err := json.Marshal(x)
		if err != nil {
			return rv.S(fmt.Sprintf("unexpected member %v", e))
		}
		return rv.S(string(b))
	}
	return rv.S(fmt.Sprintf("unexpected member %v", e))
}

// c17NumbersAsFloats wraps a model so that its numbers are floats (for values read back from JSON).
func c17NumbersAsFloats(ev c17FamEval) c17FamEval {
	return func(call *anref.Call, ord []anref.Row, rd anref.Reading) anref.Result {
		res := ev(call, ord, rd)
		for i, v := range res.Vals {
			if v.K == rv.Int {
				res.Vals[i] = rv.Fl(float64(v.I))
			}
		}
		return res
	}
}

// one runs a case: st is the parsed SELECT of k.Items (nil = parse now). counted: the items are counted as evaluations.
func (f *c17Fam) one(k c17FamCase, st []parser.Statement, counted bool) {
	sql := c17FamSelect(k.Items)
	if st == nil {
		var perr error
		st, _, perr = parser.Parse(sql, "", false, false)
		if perr != nil {
			f.c.Violate(f.name+":syntax", "documented syntax rejected: "+sql+": "+perr.Error(), k)
			return
		}
	}
	rows := c17FamRows(k.Rows)
	f.load(k.Rows)
	o := f.exec(st)
	f.c.Add("statements", 1)
	if counted {
		nt := int64(0)
		for _, it := range k.Items {
			if c17Nontrivial(rows, it.Call) {
				nt++
			}
		}
		f.c.EvalN(int64(len(k.Items)), nt)
	}
	where := fmt.Sprintf("family %s, table [%s]", f.name, c17FamKey(k.Rows))
	if k.Strict {
		where += ", @@STRICT_EQUAL = TRUE"
	}
	if o.err != nil || o.panic != nil {
		if len(k.Items) > 1 {
			// one failing item fails the SELECT: isolate it
			n0 := f.c.NViolations()
			for _, it := range k.Items {
				k1 := k
				k1.Items = []c17FamItem{it}
				f.one(k1, nil, false)
			}
			if f.c.NViolations() > n0 {
				return
			}
		}
		kind, msg := "error", ""
		switch {
		case o.panic != nil:
			kind, msg = "panic", fmt.Sprint("panic: ", o.panic)
		case drv.IsFatal(o.err):
			kind, msg = "fatal", o.err.Error()
		default:
			msg = o.err.Error()
		}
		f.c.Violate(f.name+":"+kind+":"+k.Items[0].Call.FnLabel()+"|"+k.Items[0].Call.ClauseClass(), fmt.Sprintf("%s: %s\n  csvq: %s", where, sql, msg), k)
		return
	}
	bad := func(msg string) {
		f.c.Violate(f.name+":rows-or-other-columns-changed", fmt.Sprintf("%s: %s: %s", where, sql, msg), k)
	}
	if len(o.rows) != len(rows) {
		bad(fmt.Sprintf("%d result rows for %d table rows", len(o.rows), len(rows)))
		return
	}
	byID := map[int][]rv.V{}
	for _, r := range o.rows {
		if len(r) != 4+len(k.Items) {
			bad(fmt.Sprintf("a result row has %d cells, the SELECT has %d columns", len(r), 4+len(k.Items)))
			return
		}
		id := 0
		if r[0].K == rv.Str {
			id, _ = strconv.Atoi(r[0].S)
		}
		if id < 1 || id > len(rows) || byID[id] != nil {
			bad("unknown or repeated id " + r[0].Key())
			return
		}
		for c := 0; c < 3; c++ {
			if !rv.SameValue(r[1+c], rows[id-1].C[c]) {
				bad(fmt.Sprintf("row id %d column %s is %s, loaded %s", id, anref.ColNames[c], r[1+c].Key(), rows[id-1].C[c].Key()))
				return
			}
		}
		byID[id] = r
	}
	for ci, it := range k.Items {
		ev := f.eval
		got := make(map[int]rv.V, len(byID))
		for id, r := range byID {
			v := r[4+ci]
			if it.Wrap == "json" {
				v = c17JSONMember(v)
			}
			if it.Call.Fn == "JSON_AGG" {
				v = c17NormJSON(v)
			}
			got[id] = v
		}
		if it.Wrap == "json" {
			ev = c17NumbersAsFloats(ev)
		}
		readings := anref.Readings(it.Call)
		if ok, _, _ := c17Explained(f.c, it.Call, rows, got, readings, ev); ok {
			continue
		}
		exp := map[int]rv.V{}
		for _, part := range anref.Partitions(rows, it.Call.Part) {
			anref.Orderings(part, it.Call.Order, 1, func(ord []anref.Row) bool {
				res := ev(it.Call, ord, readings[0])
				for i := range ord {
					if !res.Err {
						exp[ord[i].ID] = res.Vals[i]
					}
				}
				return true
			})
		}
		k1 := k
		if len(k.Items) > 12 {
			k1.Items = []c17FamItem{it}
		}
		sig := f.name + ":mismatch:" + it.Call.FnLabel() + "|" + it.Call.ClauseClass()
		if f.defect != nil {
			if s := f.defect(it, rows, got, ev); s != "" {
				sig = s
			}
		}
		f.c.Violate(sig,
			fmt.Sprintf("%s: column c%d = %s of\n  %s\n  csvq:  %s\n  model: %s\n  (model shown for the stable tie order and the first reading; no admissible tie order and no accepted reading reproduces csvq's column)",
				where, ci, it.SQL, sql, c17ColumnText(rows, got), c17ColumnText(rows, exp)), k1)
	}
}

// c17FamSeqs enumerates every sequence of 0..maxLen rows over the given row alphabet (shortest first).
func c17FamSeqs(alphabet [][3]string, maxLen int, fn func(rows [][3]string) bool) {
	var rec func(cur [][3]string, n int) bool
	rec = func(cur [][3]string, n int) bool {
		if len(cur) == n {
			return fn(append([][3]string(nil), cur...))
		}
		for _, r := range alphabet {
			if !rec(append(cur, r), n) {
				return false
			}
		}
		return true
	}
	for n := 0; n <= maxLen; n++ {
		if !rec(nil, n) {
			return
		}
	}
}

// c17FamMultisets enumerates every multiset of exactly n rows over the alphabet, in ascending arrangement.
func c17FamMultisets(alphabet [][3]string, n int, fn func(rows [][3]string) bool) {
	var rec func(cur [][3]string, from int) bool
	rec = func(cur [][3]string, from int) bool {
		if len(cur) == n {
			return fn(append([][3]string(nil), cur...))
		}
		for i := from; i < len(alphabet); i++ {
			if !rec(append(cur, alphabet[i]), i) {
				return false
			}
		}
		return true
	}
	rec(nil, 0)
}

// c17FamAlphabet: the rows over the value lists of the columns of mask (bit c = column c); a column outside the
// mask holds the one value "1".
func c17FamAlphabet(mask int, vals [3][]string) [][3]string {
	lists := [3][]string{{"1"}, {"1"}, {"1"}}
	for c := 0; c < 3; c++ {
		if mask&(1<<c) != 0 {
			lists[c] = vals[c]
		}
	}
	var out [][3]string
	for _, p := range lists[0] {
		for _, o := range lists[1] {
			for _, v := range lists[2] {
				out = append(out, [3]string{p, o, v})
			}
		}
	}
	return out
}

// c17SkipFamily (experimentation only): C17_ONLY=<family> runs that family alone.
func c17SkipFamily(name string) bool {
	s := os.Getenv("C17_ONLY")
	return s != "" && s != name
}

func c17FamReplay(c *core.Ctx, payload json.RawMessage) bool {
	var k c17FamCase
	if json.Unmarshal(payload, &k) != nil || len(k.Items) == 0 {
		return false
	}
	switch k.Family {
	case "order-twins", "strict-distinct", "wrapped":
	default:
		return false
	}
	fmt.Printf("replaying family %s: table [%s] %s\n", k.Family, c17FamKey(k.Rows), c17FamSelect(k.Items))
	f := newC17Fam(c, k.Family, "c17fam-replay", k.Strict)
	defer f.close()
	switch k.Family {
	case "strict-distinct":
		f.eval = c17StrictEval
	case "wrapped":
		f.defect = c17WrappedDefect
	}
	// csvq evaluates the calls of one SELECT in an order that varies between executions: repeat
	for i := 0; i < 25 && c.NViolations() == 0; i++ {
		f.one(k, nil, false)
	}
	return true
}
