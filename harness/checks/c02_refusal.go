package checks

import (
	"encoding/json"
	"fmt"
	"os"
	"path/filepath"
	"strconv"
	"strings"

	"verif/harness/internal/core"
	"verif/harness/internal/drv"
	"verif/harness/internal/procx"
)

// Extra family for C02: the refusal comes late. "A cell the format cannot spell is refused with an error and nothing
// is written" - the main family asks this of tables of at most three records, which never fill a writer's buffer.
// Here the one cell that cannot be spelled stands behind 0, 1, 100, 400 or 1000 records that can (about 2, 8 and 20 KB
// of output: less than one, more than one, more than four 4096-byte buffers) and is followed by 0 or 1 more record.
//
// Causes (the reason the writer gives up, one per writer and kind): an LTSV value holding a tab or a line break, a
// fixed-length value longer than its field, a character without a code in the write encoding (CSV, TSV, LTSV,
// fixed-length with automatic positions, each in Shift_JIS).
// Paths (real CLI, one process per case): --out file, stdout, CREATE TABLE .. AS SELECT (+ the CLI's commit at the
// end), INSERT .. SELECT into an existing file of the format.
//
// Oracle (only when csvq answers with an error, i.e. exit code != 0): the --out file does not exist or is empty,
// nothing was printed on stdout, the table file was not created, the existing file still holds its bytes. A run csvq
// accepts is not judged here (whether it should have refused is the main family's question); per cause a control run
// without the offending record has to succeed, otherwise the family declares itself incomplete.
func init() {
	core.Extend("C02", "family late-refusal: 7 causes of a refusal (LTSV tab / line break in a value, fixed-length value too long, character without a Shift_JIS code in CSV / TSV / LTSV / fixed-length) x "+
		"5 counts of good records before the offending one (0, 1, 100, 400, 1000: up to about 20 KB of output, writers buffer 4096 bytes) x 0 or 1 record after it x 4 paths on the real CLI (--out, stdout, CREATE TABLE AS, INSERT SELECT into an existing file); "+
		"oracle: when csvq answers with an error the --out file is absent or empty, stdout is empty, no table file was created, the existing file is unchanged", c02RefusalRun)
}

type c02RefCause struct {
	Name   string   // <format>:<reason>
	Ext    string   // of the written file
	Write  []string // flags of the writing process (out, stdout, create)
	Import []string // flags under which an existing file of the format is read (insert)
	Exist  string   // an existing file of the format (insert); "" = path not applicable
	Bad    string
	Create bool // the format of a created table follows from the extension and the flags
}

var c02RefCauses = []c02RefCause{
	{Name: "LTSV:tab-in-value", Ext: "ltsv", Write: []string{"-f", "LTSV"}, Exist: "id:k1\tv:w1\nid:k2\tv:w2\n", Bad: "a\tb", Create: true},
	{Name: "LTSV:line-break-in-value", Ext: "ltsv", Write: []string{"-f", "LTSV"}, Exist: "id:k1\tv:w1\nid:k2\tv:w2\n", Bad: "a\nb", Create: true},
	{Name: "FIXED:value-longer-than-field", Ext: "txt", Write: []string{"-f", "FIXED", "--write-delimiter-positions", "[6, 16]"}, Import: []string{"-i", "FIXED", "-m", "[6, 16]"},
		Exist: "id    v         \nk1    w1        \nk2    w2        \n", Bad: "xxxxxxxxxxxxxxxxxxxx"},
	{Name: "CSV:character-without-code-in-SJIS", Ext: "csv", Write: []string{"-f", "CSV", "--write-encoding", "SJIS"}, Import: []string{"-e", "SJIS"}, Exist: "id,v\nk1,w1\nk2,w2\n", Bad: "é", Create: true},
	{Name: "TSV:character-without-code-in-SJIS", Ext: "tsv", Write: []string{"-f", "TSV", "--write-encoding", "SJIS"}, Import: []string{"-e", "SJIS"}, Exist: "id\tv\nk1\tw1\nk2\tw2\n", Bad: "é", Create: true},
	{Name: "LTSV:character-without-code-in-SJIS", Ext: "ltsv", Write: []string{"-f", "LTSV", "--write-encoding", "SJIS"}, Import: []string{"-e", "SJIS"}, Exist: "id:k1\tv:w1\nid:k2\tv:w2\n", Bad: "é", Create: true},
	{Name: "FIXED(SPACES):character-without-code-in-SJIS", Ext: "txt", Write: []string{"-f", "FIXED", "--write-encoding", "SJIS"}, Bad: "é"},
}

type c02RefCase struct {
	Family string `json:"family"`
	Cause  string `json:"cause"`
	Before int    `json:"good_records_before"`
	After  int    `json:"good_records_after"`
	Path   string `json:"path"`
	Ctrl   bool   `json:"control,omitempty"` // without the offending record
}

func c02RefSource(cs c02RefCause, k c02RefCase) string {
	h := []string{"id", "v"}
	q := func(s string) string { return `"` + strings.ReplaceAll(s, `"`, `""`) + `"` }
	var sb strings.Builder
	sb.WriteString(q(h[0]) + "," + q(h[1]) + "\n")
	n := 0
	row := func(v string) {
		sb.WriteString("r" + strconv.Itoa(n) + "," + q(v) + "\n")
		n++
	}
	for i := 0; i < k.Before; i++ {
		row("value" + strconv.Itoa(i))
	}
	if !k.Ctrl {
		row(cs.Bad)
	}
	for i := 0; i < k.After; i++ {
		row("after" + strconv.Itoa(i))
	}
	return sb.String()
}

// a finding is believed only if it shows again when the case is executed a second time
func c02RefOne(c *core.Ctx, dir string, k c02RefCase) {
	sig, msg := c02RefExec(c, dir, k, true)
	if sig == "" {
		return
	}
	if again, _ := c02RefExec(c, dir, k, false); again != sig {
		c.Observe("unreproducible_findings_dropped", sig)
		return
	}
	c.Violate(sig, msg, k)
}

func c02RefExec(c *core.Ctx, dir string, k c02RefCase, count bool) (string, string) {
	var cs *c02RefCause
	for i := range c02RefCauses {
		if c02RefCauses[i].Name == k.Cause {
			cs = &c02RefCauses[i]
		}
	}
	if cs == nil {
		return "", ""
	}
	drv.ClearDir(dir)
	file := "out." + cs.Ext
	full := filepath.Join(dir, file)
	drv.WriteFiles(dir, map[string]string{"src.csv": c02RefSource(*cs, k)})
	args := []string{"-q"}
	switch k.Path {
	case "out":
		args = append(append(args, cs.Write...), "-o", file, "SELECT * FROM src")
	case "stdout":
		args = append(append(args, cs.Write...), "SELECT * FROM src")
	case "create":
		args = append(append(args, cs.Write[2:]...), "CREATE TABLE `"+file+"` AS SELECT * FROM src")
	case "insert":
		drv.WriteFiles(dir, map[string]string{file: cs.Exist})
		// the source is UTF-8 whatever encoding the flags state for the existing file
		args = append(append(args, cs.Import...), "INSERT INTO `"+file+"` SELECT * FROM CSV(',', `src.csv`, 'UTF8')")
	}
	r := procx.Exec(procx.Run{Dir: dir, Args: args})
	if r.Killed || r.Exit < 0 {
		c.Incomplete("family late-refusal: a csvq process did not end by itself")
		return "", ""
	}
	left, err := os.ReadFile(full)
	exists := err == nil
	what := fmt.Sprintf("%s, %d good records before the offending one and %d after it: csvq %s", k.Cause, k.Before, k.After, strings.Join(args, " "))
	if k.Ctrl {
		// the same run without the offending record: has to succeed, or the refusals of this cause say nothing
		ok := r.Exit == 0
		switch k.Path {
		case "stdout":
			ok = ok && r.Stdout != ""
		case "insert":
			ok = ok && exists && string(left) != cs.Exist
		default:
			ok = ok && exists && len(left) > 0
		}
		if !ok {
			c.Incomplete(fmt.Sprintf("family late-refusal: the control run of %s through %s did not write its table (exit %d %s)", k.Cause, k.Path, r.Exit, strings.TrimSpace(r.Stderr)))
		}
		return "", ""
	}
	refused := r.Exit != 0
	if count {
		c.Eval(fmt.Sprintf("late-refusal|%s|%d|%d|%s", k.Cause, k.Before, k.After, k.Path), refused && k.Before > 0)
	}
	if !refused {
		c.Observe("late_refusal_cases_not_refused", k.Cause+" "+k.Path)
		return "", ""
	}
	sig := "late-refusal:refused-but-output-left:" + k.Cause + ":" + k.Path
	msg := ""
	switch k.Path {
	case "out":
		if exists && len(left) > 0 {
			msg = fmt.Sprintf("the --out file holds %d bytes, ending in %q", len(left), c02Tail(left))
		}
	case "stdout":
		if r.Stdout != "" {
			msg = fmt.Sprintf("%d bytes were printed on stdout, ending in %q", len(r.Stdout), c02Tail([]byte(r.Stdout)))
		}
	case "create":
		if exists {
			msg = fmt.Sprintf("the table file was created with %d bytes, ending in %q", len(left), c02Tail(left))
		}
	case "insert":
		if !exists || string(left) != cs.Exist {
			msg = fmt.Sprintf("the existing file %q became %q (exists: %v)", cs.Exist, clip(string(left)), exists)
		}
	}
	if msg == "" {
		return "", ""
	}
	return sig, fmt.Sprintf("%s answered with exit code %d (%s) but %s", what, r.Exit, strings.Join(strings.Fields(r.Stderr), " "), msg)
}

func c02Tail(b []byte) string {
	if len(b) > 60 {
		return "..." + string(b[len(b)-60:])
	}
	return string(b)
}

func c02RefusalRun(c *core.Ctx) {
	if !c02Only(c, "late-refusal") {
		return
	}
	dir := core.Scratch("c02refusal")
	befores := []int{0, 1, 100, 400, 1000}
	if c.Thorough() {
		befores = []int{0, 1, 2, 50, 100, 150, 200, 250, 300, 400, 600, 1000, 2000, 5000}
	}
	var idx int64
	for _, cs := range c02RefCauses {
		for _, p := range []string{"out", "stdout", "create", "insert"} {
			if p == "create" && !cs.Create || p == "insert" && cs.Exist == "" {
				continue
			}
			for _, ctrl := range []bool{true, false} {
				for _, b := range befores {
					for _, a := range []int{0, 1} {
						if ctrl && (b != 100 || a != 0) {
							continue
						}
						idx++
						if !c.Mine(idx) {
							continue
						}
						if c.Expired() {
							c.Incomplete("time budget reached in family late-refusal")
							return
						}
						c02RefOne(c, dir, c02RefCase{Family: "late-refusal", Cause: cs.Name, Before: b, After: a, Path: p, Ctrl: ctrl})
					}
				}
			}
		}
	}
}

func c02RefusalReplay(c *core.Ctx, payload json.RawMessage) bool {
	var k c02RefCase
	if json.Unmarshal(payload, &k) != nil || k.Family != "late-refusal" {
		return false
	}
	fmt.Printf("replaying family late-refusal: %+v\n", k)
	c02RefOne(c, core.Scratch("c02refusal-replay"), k)
	return true
}
