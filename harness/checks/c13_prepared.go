//go:build verifx

package checks

import (
	"fmt"
	"strings"

	"verif/harness/internal/core"
)

// Family prepared (C13): the values of EXECUTE ... USING belong to one EXECUTE, and the placeholders that stand for
// them are evaluated once per record by every worker of the statement (filtering, the select list, grouping keys,
// HAVING, ORDER BY keys, join conditions, analytic functions, per-record subqueries, UPDATE / DELETE / INSERT SELECT).
// What the workers share through the statement's context - the list of values, their expressions, whatever an
// implementation keeps next to them - must be read-only for them or synchronised.
//
// Enumerated: every site of the list below x placeholder style (positional, named) x kind of the given value (a
// literal, a variable, an expression over a variable, a scalar subquery on a file - which every worker then evaluates
// in the context of the EXECUTE statement). Sites with two placeholders get two values of that kind.
// Each case runs free on 4 real threads over 600 records, the statement executed twice with different values. Under the
// scheduler (all schedules with at most one non-default decision, a 6-record table with 2 workers, joins 20 x 10
// records): quick = every site once, the (style, kind) pairs without a subquery taken in turn, and the site "where"
// with all eight pairs (a subquery as value multiplies the scheduling points of every record); thorough = the whole
// product with 3 workers. Oracle: the race detector's log.
func init() {
	core.Extend("C13", "family prepared: a prepared statement whose placeholders are evaluated per record by several workers: 18 sites (WHERE, select list, GROUP BY key, HAVING, aggregate argument, ORDER BY key, analytic argument and partition key, JOIN ON, "+
		"correlated and IN subquery, CASE / function arguments, IN list, user function argument, UPDATE, DELETE, INSERT SELECT, one named placeholder met twice) x {positional, named} x value given by {literal, variable, expression, scalar subquery}; "+
		"every case runs free on 4 threads over 600 records executing the statement twice; every schedule with at most one non-default decision (2 workers, 6 records) for every site with one (style, kind) pair taken in turn and for WHERE with all pairs (thorough: the whole product, 3 workers); oracle: race detector log empty", c13PreparedRun)
}

type c13PreparedSite struct {
	Name string
	Pre  string // statements before PREPARE
	Stmt string // {1}, {2}: the placeholders
	N    int    // number of values
	Join bool   // runs on tl / ur (a join is split when left x right is large enough)
	Post string // statements after EXECUTE
}

var c13PreparedSites = []c13PreparedSite{
	{Name: "where", Stmt: "SELECT a FROM t WHERE b > {1}", N: 1},
	{Name: "where-2-placeholders", Stmt: "SELECT a FROM t WHERE {1} < a AND b < {2} + 3", N: 2},
	{Name: "select-list", Stmt: "SELECT a, b * {1} + {2} FROM t", N: 2},
	{Name: "group-by-key", Stmt: "SELECT COUNT(*) FROM t GROUP BY b % {1}", N: 1},
	{Name: "having", Stmt: "SELECT g, COUNT(*) FROM t GROUP BY g HAVING SUM(b) >= {1} - 2", N: 1},
	{Name: "aggregate-argument", Stmt: "SELECT g, SUM(b * {1}), LISTAGG(a + {2}, '') FROM t GROUP BY g", N: 2},
	{Name: "order-by-key", Stmt: "SELECT a FROM t ORDER BY (a * {1}) % 5, a", N: 1},
	{Name: "analytic-argument-and-partition", Stmt: "SELECT a, SUM(b + {1}) OVER (PARTITION BY g), RANK() OVER (PARTITION BY b % {2} ORDER BY a) FROM t", N: 2},
	{Name: "join-on", Stmt: "SELECT tl.a, ur.a FROM tl JOIN ur ON tl.a = ur.a + {1}", N: 1, Join: true},
	{Name: "correlated-subquery", Stmt: "SELECT a FROM t WHERE EXISTS (SELECT 1 FROM u WHERE u.a = t.a + {1} - 2)", N: 1},
	{Name: "in-subquery-and-scalar-subquery", Stmt: "SELECT a, (SELECT MAX(c) + {1} FROM u) FROM t WHERE a IN (SELECT a + {2} FROM u)", N: 2},
	{Name: "case-and-function-arguments", Stmt: "SELECT a, CASE WHEN b > {1} THEN 'x' ELSE 'y' END, COALESCE(NULL, {2}), ABS(a - b) FROM t", N: 2},
	{Name: "in-list", Stmt: "SELECT a FROM t WHERE a IN ({1}, {2}, 5)", N: 2},
	{Name: "user-function-argument", Pre: "DECLARE f FUNCTION (@x, @y) AS BEGIN RETURN @x * @y; END;", Stmt: "SELECT a, f(a, {1}) FROM t", N: 1},
	{Name: "update", Stmt: "UPDATE t SET b = b + {1} WHERE a > {2} - 2", N: 2, Post: "SELECT * FROM t;"},
	{Name: "delete", Stmt: "DELETE FROM t WHERE b < {1}", N: 1, Post: "SELECT * FROM t;"},
	{Name: "insert-select", Stmt: "INSERT INTO t SELECT a + {1}, g, c FROM u", N: 1, Post: "SELECT * FROM t;"},
	{Name: "named-placeholder-met-twice", Stmt: "SELECT a FROM t WHERE a > {1} OR b > {1}", N: 1},
}

// the kinds of values; %d = 0 for the first value, 1 for the second
var c13PreparedValues = []struct{ Name, Pre, Expr string }{
	{"literal", "", ""}, // 2 and 3
	{"variable", "VAR @v0 := 2; VAR @v1 := 3;", "@v%d"},
	{"expression", "VAR @v0 := 1; VAR @v1 := 2;", "@v%d + 1"},
	{"subquery", "", "(SELECT MIN(a) + 1 + %d FROM u)"},
}

func c13PreparedProgram(site c13PreparedSite, named bool, vi int, twice bool) string {
	stmt := site.Stmt
	for i := 1; i <= 2; i++ {
		ph := "?"
		if named {
			ph = fmt.Sprintf(":p%d", i)
		}
		stmt = strings.ReplaceAll(stmt, fmt.Sprintf("{%d}", i), ph)
	}
	val := c13PreparedValues[vi]
	using := func(shift int) string {
		var vs []string
		for i := 0; i < site.N; i++ {
			e := fmt.Sprintf(val.Expr, i)
			if val.Name == "literal" {
				e = fmt.Sprint(i + 2 + shift) // the bare literal
			} else if shift != 0 {
				e = fmt.Sprintf("%s + %d", e, shift)
			}
			if named {
				e += fmt.Sprintf(" AS p%d", i+1)
			}
			vs = append(vs, e)
		}
		return strings.Join(vs, ", ")
	}
	var sb strings.Builder
	sb.WriteString(site.Pre)
	sb.WriteString(val.Pre)
	fmt.Fprintf(&sb, " PREPARE st FROM '%s;';", strings.ReplaceAll(stmt, "'", "''"))
	fmt.Fprintf(&sb, " EXECUTE st USING %s;", using(0))
	if twice {
		fmt.Fprintf(&sb, " EXECUTE st USING %s;", using(1))
	}
	sb.WriteString(" " + site.Post)
	return strings.TrimSpace(sb.String())
}

func c13PreparedCases(thorough bool) []c13FamilyCase {
	t := csvTable("a,g,b", 6, func(i int) string {
		return fmt.Sprintf("%d,%s,%d", i+1, []string{"x", "y", "z", "y", "x", "w"}[i], (i*7)%5)
	})
	u := csvTable("a,g,c", 4, func(i int) string { return fmt.Sprintf("%d,%s,%d", i+1, []string{"y", "x", "q", "y"}[i], i*10) })
	small := map[string]string{"t.csv": t, "u.csv": u,
		"tl.csv": csvTable("a,g", 20, func(i int) string { return fmt.Sprintf("%d,k%d", i+1, i%7) }),
		"ur.csv": csvTable("a,g", 10, func(i int) string { return fmt.Sprintf("%d,k%d", i+1, (i*3)%9) })}
	large := map[string]string{"u.csv": u,
		"t.csv":  csvTable("a,g,b", 600, func(i int) string { return fmt.Sprintf("%d,k%d,%d", i+1, i%3, i*3%7) }),
		"tl.csv": csvTable("a,g", 60, func(i int) string { return fmt.Sprintf("%d,k%d", i+1, i%7) }),
		"ur.csv": csvTable("a,g", 40, func(i int) string { return fmt.Sprintf("%d,k%d", i+1, (i*3)%9) })}
	cpu := 2
	if thorough {
		cpu = 3
	}
	var out []c13FamilyCase
	for si, site := range c13PreparedSites {
		k := 0
		for _, named := range []bool{false, true} {
			if site.Name == "named-placeholder-met-twice" && !named {
				continue
			}
			for vi, val := range c13PreparedValues {
				style := "positional"
				if named {
					style = "named"
				}
				name := fmt.Sprintf("%s/%s/%s", site.Name, style, val.Name)
				cs := c13FamilyCase{Name: name,
					Free: goxScenario{Name: "prepared:" + name, Files: large, SQL: c13PreparedProgram(site, named, vi, true), CPU: 4}}
				// the scheduler: quick = every site with one (style, kind) of the six without a subquery, taken in turn, and the
				// site "where" with all eight; thorough = the whole product
				if thorough || site.Name == "where" || (val.Name != "subquery" && k == si%6 && site.Name != "named-placeholder-met-twice") ||
					(site.Name == "named-placeholder-met-twice" && vi == si%3) {
					cs.Sched = goxScenario{Name: "prepared:" + name, Files: small, SQL: c13PreparedProgram(site, named, vi, false), CPU: cpu}
				}
				if val.Name != "subquery" {
					k++
				}
				out = append(out, cs)
			}
		}
	}
	return out
}

func c13PreparedRun(c *core.Ctx) {
	c13FamilyRun(c, "prepared", c13PreparedCases(c.Thorough()), nil)
}
