//go:build verifx

package checks

import (
	"fmt"
	"regexp"
	"runtime"
	"strings"

	"verif/harness/internal/core"
	"verif/harness/internal/drv"
	"verif/harness/internal/procx"
)

// Family long-calls (C12): every built-in function, aggregate and analytic function that takes the text column or
// the JSON column, called over cells of about 4 KB. A built-in has no scheduling point inside, so an object that its
// calls share by mistake (a cache, a scratch buffer, a stateful transformer kept in a package variable) is only met
// by two workers that are inside the function at the same time. With the short cells of family builtin-calls a call
// lasts a fraction of a microsecond and the workers hardly ever overlap, least of all on a busy machine; here nearly
// the whole run time of a worker is spent inside the function, so whenever two workers are alive - or one is taken
// off its core in the middle of a call - they are inside together. The programs run through the real command line
// over 320 records (the real split threshold: 80 records per worker): --cpu 1 is the reference, --cpu 4 is run twice
// (thorough: --cpu 2 and --cpu 4 six times each). The call forms are found as in family builtin-calls (probing), not
// listed. Oracle: exit code, result and messages equal to the --cpu 1 run.
func init() {
	c12GeneratedFiles["long-calls"] = func() map[string]string { return map[string]string{"w.csv": c12LongTable(c12LongRows)} }
	core.Extend("C12", "family long-calls: every call form (found by probing, as in builtin-calls) of a built-in, aggregate or analytic function that names the text or the JSON column, over 320 records with cells of about 4 KB "+
		"(a worker spends nearly all of its time inside the function), through the real command line: --cpu 1 against 2 runs with --cpu 4 (thorough: 6 runs each with --cpu 2 and 4); oracle: exit code, result and messages equal to the --cpu 1 run", c12LongCallsRun)
}

const c12LongRows = 320

// c12LongTable: the columns of goxFnTable; s is a text of about 4 KB that differs from row to row in content and length, j a
// JSON text of about 1.5 KB; 160 groups of two rows (aggregates and partitions are split over workers by group).
func c12LongTable(n int) string {
	words := []string{"alpha", "beta", "Gamma delta", "epsilon-zeta eta", "THETA", "iota kappa lambda mu", "nu", "xi omicron", "pi rho sigma tau upsilon", "phi chi", "psi", "omega  end"}
	return csvTable("s,n,f,d,j,b,g", n, func(i int) string {
		var sb strings.Builder
		for k := 0; sb.Len() < 3500+(i%13)*80; k++ {
			sb.WriteString(words[(i+k*(1+i%5))%len(words)])
			sb.WriteByte(' ')
			if k%29 == 28 {
				fmt.Fprintf(&sb, "r%dw%d ", i, k)
			}
		}
		var jb strings.Builder
		fmt.Fprintf(&jb, "\"{\"\"k\"\":%d,\"\"l\"\":[", i)
		for k := 0; jb.Len() < 1500+(i%7)*60; k++ {
			fmt.Fprintf(&jb, "%d,\"\"%s\"\",", (i*31+k)%97, words[(i+k)%len(words)])
		}
		jb.WriteString("0]}\"")
		d := fmt.Sprintf("20%02d-%02d-%02d %02d:%02d:%02d", 10+i%13, 1+i%12, 1+i%28, i%24, i%60, (i*7)%60)
		return fmt.Sprintf("%s,%d,%d.%d,%s,%s,%v,k%d", strings.TrimSpace(sb.String()), i+1, i%50, i%7, d, jb.String(), i%2 == 0, i%160)
	})
}

var c12LongArg = regexp.MustCompile(`[(,] ?(s|j)[,) ]`)

func c12LongCallsRun(c *core.Ctx) {
	if !c12FamilyOnly("long-calls") {
		return
	}
	if procx.Binary() == "" || runtime.NumCPU() < 2 {
		c.Incomplete("family long-calls: needs the csvq-verif binary and at least 2 cores")
		return
	}
	probeDir := core.Scratch("c12long-probe")
	drv.ClearDir(probeDir)
	drv.WriteFiles(probeDir, map[string]string{"w.csv": goxFnTable(3)})
	files := map[string]string{"w.csv": c12LongTable(c12LongRows)}
	perArity, runs, cpus := 1, 2, []int{4}
	if c.Thorough() {
		perArity, runs, cpus = 3, 6, []int{2, 4}
	}
	handle := func(call goxFnCall) {
		// the part after SELECT n, : the call itself
		if !c12LongArg.MatchString(strings.TrimPrefix(call.SQL, "SELECT n, ")) && !c12LongArg.MatchString(strings.TrimPrefix(call.SQL, "SELECT g, ")) {
			return
		}
		fn := strings.SplitN(call.Name, "/", 2)[0]
		// REPEAT(s, n) would return 4 KB x the row number per record (200 MB in all): left to family builtin-calls
		if goxFnNondeterministic[strings.TrimPrefix(fn, "fn:")] || fn == "fn:REPEAT" {
			return
		}
		sc := goxScenario{Name: "long-calls:" + call.Name, Files: files, SQL: call.SQL, CPU: 4}
		c12ThreadsScenarioCPUs(c, "long-calls", fn, sc, runs, cpus)
		c.Observe("long_call_forms", call.Name)
		if c.WantSample() {
			c.Sample(map[string]any{"family": "long-calls", "form": call.Name, "sql": call.SQL, "rows": c12LongRows, "runs_per_cpu": runs})
		}
	}
	var idx int64
	for _, fn := range goxFnNames() {
		idx++
		if !c.Mine(idx) {
			continue
		}
		if c.Expired() {
			c.Incomplete("family long-calls: time budget reached")
			return
		}
		env := drv.NewText(probeDir)
		env.Tx.Flags.SetQuiet(true)
		calls := goxFnProbe(env, fn, perArity)
		env.Close()
		for _, call := range calls {
			handle(call)
		}
	}
	// the aggregate and analytic forms: every worker probes them (cheap) and takes its share
	env := drv.NewText(probeDir)
	env.Tx.Flags.SetQuiet(true)
	calls := goxFnAggregates(env)
	env.Close()
	for _, call := range calls {
		idx++
		if !c.Mine(idx) {
			continue
		}
		if c.Expired() {
			c.Incomplete("family long-calls: time budget reached")
			return
		}
		handle(call)
	}
}
