//go:build verifx

package checks

import (
	"encoding/json"
	"fmt"
	"github.com/mithrandie/csvq/lib/value"
	"os"
	"path/filepath"
	"sort"
	"strconv"
	"strings"

	"github.com/mithrandie/csvq/lib/option"

	"verif/harness/internal/core"
	"verif/harness/internal/drv"
	"verif/harness/internal/fsx"
	"verif/harness/internal/rv"
)

func init() {
	core.Register(&core.Check{
		ID:    "C20",
		Level: "model_checking",
		Rule: "transaction T = every statement sequence up to length L over {SELECT t, SELECT t FOR UPDATE, UPDATE t, INSERT t, SELECT u, UPDATE u, COMMIT, ROLLBACK}, run as one csvq program (auto-commit at the end); " +
			"a second csvq process P (UPDATE t [and u] +10, auto-commit) runs to completion at every subset of <=2 statement boundaries of T (and after T); P's lock waits end by wait-timeout in virtual time. " +
			"Every SELECT output of T, P's success/failure and the final files are compared with a reference of the documented cache rule. state = reference state (files, T's cache) after each step; non-trivial case = P ran at least once before T ended",
		Assume: []string{"P runs atomically between two statements of T (statement granularity; finer interleavings of the lock protocol are C09's subject)",
			"reference cache rule from the property text and docs/_posts/2006-01-02-transaction.md"},
		Run:    c20Run,
		Replay: c20Replay,
	})
}

var c20Alphabet = []string{
	"SELECT n FROM t",
	"SELECT n FROM t FOR UPDATE",
	"UPDATE t SET n = n + 1",
	"INSERT INTO t VALUES (100)",
	"SELECT n FROM u",
	"UPDATE u SET n = n + 1",
	"COMMIT",
	"ROLLBACK",
	"IF 1 = 1 THEN SELECT n FROM t; END IF",
	"IF 1 = 1 THEN UPDATE t SET n = n + 1; END IF",
	"CASE WHEN 1 = 2 THEN SELECT 1; ELSE SELECT n FROM u; END CASE",
	// the same table reached by another spelling, an alias, a derived table, twice in one query; another kind of change
	"SELECT n FROM `t.csv`",
	"SELECT x.n FROM t AS x",
	"SELECT n FROM (SELECT n FROM t) AS s",
	"SELECT n FROM t WHERE n IN (SELECT n FROM t)",
	"DELETE FROM t WHERE n >= 100",
	// an absolute path that has to be cleaned before it can be recognised as the cached file; a locking read whose
	// table stands on the right-hand side of a set operator
	"SELECT n FROM `$DIR/sub/../t`",
	"SELECT n FROM `$DIR/./t.csv`",
	"SELECT n FROM u UNION ALL SELECT n FROM t FOR UPDATE",
	// the file named through the table functions URL:: and FILE:: and through a format function
	"SELECT n FROM URL::('file:$DIR/t.csv')",
	"SELECT n FROM FILE::('$DIR/t.csv')",
	"SELECT n FROM CSV(',', URL::('file:$DIR/t.csv'))",
	"SELECT n FROM CSV(',', `t.csv`)",
	// an UPDATE whose new value reads the table being updated: every row sees the table as it was before the statement
	"UPDATE t SET n = (SELECT MAX(n) FROM t) + 1",
	// a cell of u used as a clause value (never fewer than the rows of t), then something that builds new strings
	"SELECT n FROM t LIMIT (SELECT n FROM u); SELECT 'x' || 'y', 'p' || 'q' INTO @s1, @s2",
}

// other ways of reading t: for the reference they are the plain SELECT
var c20Same = map[string]string{
	"SELECT n FROM `t.csv`":                            "SELECT n FROM t",
	"SELECT x.n FROM t AS x":                           "SELECT n FROM t",
	"SELECT n FROM (SELECT n FROM t) AS s":             "SELECT n FROM t",
	"SELECT n FROM t WHERE n IN (SELECT n FROM t)":     "SELECT n FROM t",
	"SELECT n FROM `$DIR/sub/../t`":                    "SELECT n FROM t",
	"SELECT n FROM `$DIR/./t.csv`":                     "SELECT n FROM t",
	"SELECT n FROM URL::('file:$DIR/t.csv')":           "SELECT n FROM t",
	"SELECT n FROM FILE::('$DIR/t.csv')":               "SELECT n FROM t",
	"SELECT n FROM CSV(',', URL::('file:$DIR/t.csv'))": "SELECT n FROM t",
	"SELECT n FROM CSV(',', `t.csv`)":                  "SELECT n FROM t",
}

// the first c20CoreLen entries of the alphabet are the core statements
const c20CoreLen = 8

// statement boundaries each alphabet entry passes through, as reference steps ("" = no table access)
var c20Steps = map[string][]string{
	"SELECT n FROM t LIMIT (SELECT n FROM u); SELECT 'x' || 'y', 'p' || 'q' INTO @s1, @s2": {"SELECT n FROM t LIMIT (SELECT n FROM u); SELECT 'x' || 'y', 'p' || 'q' INTO @s1, @s2", ""},
	"IF 1 = 1 THEN SELECT n FROM t; END IF":                                                {"", "SELECT n FROM t"},
	"IF 1 = 1 THEN UPDATE t SET n = n + 1; END IF":                                         {"", "UPDATE t SET n = n + 1"},
	"CASE WHEN 1 = 2 THEN SELECT 1; ELSE SELECT n FROM u; END CASE":                        {"", "SELECT n FROM u"},
}

var c20PProgs = [][]string{
	{"t"},
	{"t", "u"},
	{"u"},
}

type c20Case struct {
	T    []int `json:"t"`    // indexes into the alphabet
	Pos  []int `json:"pos"`  // statement boundaries (0..len(T)-1 = before statement k; len(T) = after T ended)
	Prog int   `json:"prog"` // which P program
}

// ---- reference -----------------------------------------------------------------------------------

type c20Ent struct {
	rows      []int
	forUpdate bool
	dirty     bool
}

type c20Model struct {
	file  map[string][]int
	cache map[string]*c20Ent
}

func (m *c20Model) read(t string, forUpdate bool) *c20Ent {
	e := m.cache[t]
	if e == nil || (forUpdate && !e.forUpdate) {
		e = &c20Ent{rows: append([]int(nil), m.file[t]...), forUpdate: forUpdate}
		m.cache[t] = e
	}
	return e
}

func (m *c20Model) commit() {
	for t, e := range m.cache {
		if e.dirty {
			m.file[t] = append([]int(nil), e.rows...)
		}
	}
	m.cache = map[string]*c20Ent{}
}

// step returns the rows a SELECT prints (nil for other statements)
func (m *c20Model) step(stmt string) []int {
	if same, ok := c20Same[stmt]; ok {
		stmt = same
	}
	switch stmt {
	case "SELECT n FROM u UNION ALL SELECT n FROM t FOR UPDATE":
		return append(append([]int{}, m.read("u", true).rows...), m.read("t", true).rows...)
	case "SELECT n FROM t LIMIT (SELECT n FROM u); SELECT 'x' || 'y', 'p' || 'q' INTO @s1, @s2":
		m.read("u", false)
		return append([]int{}, m.read("t", false).rows...)
	case "UPDATE t SET n = (SELECT MAX(n) FROM t) + 1":
		e := m.read("t", true)
		if len(e.rows) > 0 {
			mx := e.rows[0]
			for _, n := range e.rows {
				if n > mx {
					mx = n
				}
			}
			for i := range e.rows {
				e.rows[i] = mx + 1
			}
			e.dirty = true
		}
	case "DELETE FROM t WHERE n >= 100":
		e := m.read("t", true)
		kept := e.rows[:0:0]
		for _, n := range e.rows {
			if n < 100 {
				kept = append(kept, n)
			}
		}
		e.rows = kept
		e.dirty = true
	case "SELECT n FROM t":
		return append([]int{}, m.read("t", false).rows...)
	case "SELECT n FROM u":
		return append([]int{}, m.read("u", false).rows...)
	case "SELECT n FROM t FOR UPDATE":
		return append([]int{}, m.read("t", true).rows...)
	case "UPDATE t SET n = n + 1", "UPDATE u SET n = n + 1":
		t := string(stmt[7])
		e := m.read(t, true)
		for i := range e.rows {
			e.rows[i]++
		}
		e.dirty = true
	case "INSERT INTO t VALUES (100)":
		e := m.read("t", true)
		e.rows = append(e.rows, 100)
		e.dirty = true
	case "COMMIT":
		m.commit()
	case "ROLLBACK":
		m.cache = map[string]*c20Ent{}
	}
	return nil
}

func (m *c20Model) runP(tables []string) bool {
	for _, t := range tables {
		if e := m.cache[t]; e != nil && e.forUpdate {
			return false // T holds the table for update: P times out and changes nothing
		}
	}
	for _, t := range tables {
		for i := range m.file[t] {
			m.file[t][i] += 10
		}
	}
	return true
}

func (m *c20Model) key() string {
	var sb strings.Builder
	for _, t := range []string{"t", "u"} {
		fmt.Fprintf(&sb, "%s=%v;", t, m.file[t])
		if e := m.cache[t]; e != nil {
			fmt.Fprintf(&sb, "c%s=%v,%v,%v;", t, e.rows, e.forUpdate, e.dirty)
		}
	}
	return sb.String()
}

// ---- driver --------------------------------------------------------------------------------------

func renderCSV(rows []int) string {
	var sb strings.Builder
	sb.WriteString("n\n")
	for _, r := range rows {
		sb.WriteString(strconv.Itoa(r))
		sb.WriteByte('\n')
	}
	return sb.String()
}

func viewInts(rows [][]rv.V) ([]int, bool) {
	out := []int{}
	for _, r := range rows {
		if len(r) != 1 {
			return nil, false
		}
		var s string
		switch r[0].K {
		case rv.Int:
			out = append(out, int(r[0].I))
			continue
		case rv.Str:
			s = r[0].S
		default:
			return nil, false
		}
		k, err := strconv.Atoi(s)
		if err != nil {
			return nil, false
		}
		out = append(out, k)
	}
	return out, true
}

func c20Eval(c *core.Ctx, dir string, cs c20Case, states map[string]struct{}) {
	drv.ClearDir(dir)
	m := &c20Model{file: map[string][]int{"t": {1, 2}, "u": {5}}, cache: map[string]*c20Ent{}}
	drv.WriteFiles(dir, map[string]string{"t.csv": renderCSV(m.file["t"]), "u.csv": renderCSV(m.file["u"])})
	stmts := make([]string, len(cs.T))
	var steps []string // one reference step per statement boundary csvq passes
	for i, k := range cs.T {
		stmts[i] = c20Alphabet[k]
		if st, ok := c20Steps[stmts[i]]; ok {
			steps = append(steps, st...)
		} else {
			steps = append(steps, stmts[i])
		}
	}
	pos := map[int]bool{}
	for _, p := range cs.Pos {
		pos[p] = true
	}
	ptables := c20PProgs[cs.Prog]
	var pprog string
	for _, t := range ptables {
		pprog += fmt.Sprintf("UPDATE %s SET n = n + 10; ", t)
	}

	var expectSel [][]int
	var problems []string
	transitions := 0
	runP := func(at int) {
		want := m.runP(ptables)
		transitions++
		states[m.key()] = struct{}{}
		penv := drv.New(dir)
		penv.Tx.AutoCommit = true
		r := penv.Exec(pprog)
		penv.Close()
		got := r.Err == nil && r.Panic == nil
		if got != want {
			problems = append(problems, fmt.Sprintf("P at boundary %d: csvq %s (err=%v), reference says P %s", at, okFail(got), r.Err, okFail(want)))
		} else if r.Err != nil && !strings.Contains(sqlErrClass(r.Err), "lock-timeout") {
			problems = append(problems, fmt.Sprintf("P at boundary %d failed with %v instead of a lock timeout", at, r.Err))
		}
	}

	tenv := drv.NewText(dir) // results of SELECTs nested in IF/CASE blocks are only visible in the output stream
	tenv.Tx.AutoCommit = true
	tenv.Tx.Flags.ExportOptions.Format = option.CSV
	tenv.SetVar("s1", value.NewNull())
	tenv.SetVar("s2", value.NewNull())
	k := 0
	fsx.SequentialTimeouts(true)
	fsx.OnStmt = func() {
		// boundary k: before T's k-th statement. Bring the reference up to date first.
		if pos[k] {
			runP(k)
		}
		if k < len(steps) {
			if rows := m.step(steps[k]); rows != nil {
				expectSel = append(expectSel, rows)
			}
			transitions++
			states[m.key()] = struct{}{}
		}
		k++
	}
	os.MkdirAll(filepath.Join(dir, "sub"), 0755)
	r := tenv.Exec(strings.ReplaceAll(strings.Join(stmts, "; ")+";", "$DIR", dir))
	fsx.OnStmt = nil
	if r.Err == nil && r.Panic == nil {
		m.commit() // normal end of the program: auto-commit
	} else {
		m.cache = map[string]*c20Ent{}
	}
	tenv.Close()
	if pos[len(steps)] {
		runP(len(steps))
	}
	fsx.SequentialTimeouts(false)

	if r.Err != nil || r.Panic != nil {
		problems = append(problems, fmt.Sprintf("T failed: err=%v panic=%v", r.Err, r.Panic))
	}
	if k != len(steps) && r.Err == nil {
		problems = append(problems, fmt.Sprintf("harness: %d statement boundaries seen, %d expected", k, len(steps)))
	}
	// every result set is printed as CSV: a header line "n" followed by its rows
	var gotSel [][]int
	okText := true
	for _, line := range strings.Split(strings.TrimSpace(r.Out), "\n") {
		line = strings.TrimSpace(line)
		switch {
		case line == "n": // header of a result set
			gotSel = append(gotSel, []int{})
		case line == "" || strings.HasPrefix(line, "Commit:") || strings.HasPrefix(line, "Rollback:") || strings.Contains(line, "record") || strings.Contains(line, "Empty"):
		default:
			k, err := strconv.Atoi(line)
			if err != nil || len(gotSel) == 0 {
				okText = false
			} else {
				gotSel[len(gotSel)-1] = append(gotSel[len(gotSel)-1], k)
			}
		}
	}
	if !okText {
		problems = append(problems, fmt.Sprintf("harness: cannot read T's output %q", r.Out))
	} else if fmt.Sprint(gotSel) != fmt.Sprint(expectSel) {
		problems = append(problems, fmt.Sprintf("SELECT # results of T are %v, reference %v", gotSel, expectSel))
	}
	snap := drv.DirSnapshot(dir)
	for _, t := range []string{"t", "u"} {
		if snap[t+".csv"] != renderCSV(m.file[t]) {
			problems = append(problems, fmt.Sprintf("%s.csv ends as %q, reference %q", t, snap[t+".csv"], renderCSV(m.file[t])))
		}
	}
	var left []string
	for n := range snap {
		if n != "t.csv" && n != "u.csv" && n != "sub/" {
			left = append(left, n)
		}
	}
	sort.Strings(left)
	if len(left) > 0 {
		problems = append(problems, fmt.Sprintf("leftover files %v", left))
	}
	c.Add("transitions", int64(transitions))
	key := fmt.Sprint(cs.T, cs.Pos, cs.Prog)
	nontrivial := false
	for _, p := range cs.Pos {
		if p < len(steps) {
			nontrivial = true
		}
	}
	c.Eval(key, nontrivial)
	if len(problems) > 0 {
		// signature: the statement kinds around the first problem, not the whole case
		sig := "c20:" + strings.SplitN(problems[0], ":", 2)[0]
		if strings.HasPrefix(problems[0], "SELECT #") {
			sig = "c20:stale-or-wrong-read"
		} else if strings.Contains(problems[0], ".csv ends as") {
			sig = "c20:final-file-differs"
		} else if strings.HasPrefix(problems[0], "P at boundary") {
			sig = "c20:second-process-outcome"
		}
		c.Violate(sig, fmt.Sprintf("T = %v; P = %q at boundaries %v\n  %s", stmts, pprog, cs.Pos, strings.Join(problems, "\n  ")), cs)
	}
	if c.WantSample() && nontrivial && len(stmts) >= 3 && cs.T[0] != cs.T[1] {
		c.Sample(map[string]any{"T": stmts, "P": pprog, "P_at_boundaries": cs.Pos, "selects_of_T": expectSel, "final_t": m.file["t"], "final_u": m.file["u"]})
	}
}

func okFail(b bool) string {
	if b {
		return "succeeded"
	}
	return "failed"
}


func c20Run(c *core.Ctx) {
	if !c20Only("main") {
		return
	}
	maxLen := 3
	if c.Thorough() {
		maxLen = 4
	}
	dir := core.Scratch("c20")
	states := map[string]struct{}{}
	var idx int64
	var seq []int
	var rec func()
	rec = func() {
		if len(seq) > 0 {
			n := 0
			for _, a := range seq {
				if st, ok := c20Steps[c20Alphabet[a]]; ok {
					n += len(st)
				} else {
					n++
				}
			}
			// subsets of <= 2 boundaries among 0..n
			var subsets [][]int
			subsets = append(subsets, []int{})
			for a := 0; a <= n; a++ {
				subsets = append(subsets, []int{a})
				for b := a + 1; b <= n; b++ {
					subsets = append(subsets, []int{a, b})
				}
			}
			for _, ss := range subsets {
				for prog := range c20PProgs {
					if len(ss) == 0 && prog > 0 {
						continue
					}
					idx++
					if !c.Mine(idx) {
						continue
					}
					if c.Expired() {
						c.Incomplete("time budget reached")
						return
					}
					c20Eval(c, dir, c20Case{T: append([]int(nil), seq...), Pos: ss, Prog: prog}, states)
				}
			}
		}
		if len(seq) == maxLen {
			return
		}
		for a := range c20Alphabet {
			// quick tier: at most one statement of the variant group (other spellings of t, block forms, DELETE,
			// the set operator) in a sequence of the greatest length; all others are complete
			if !c.Thorough() && len(seq) == maxLen-1 && a >= c20CoreLen {
				variants := 0
				for _, b := range seq {
					if b >= c20CoreLen {
						variants++
					}
				}
				if variants >= 1 {
					continue
				}
			}
			seq = append(seq, a)
			rec()
			seq = seq[:len(seq)-1]
		}
	}
	rec()
	c.Add("states", int64(len(states)))
	c.Add("traces_validated_against_impl", c.Evaluations())
}

func c20Replay(c *core.Ctx, payload json.RawMessage) {
	if c20RemoteReplay(c, payload) || c20TwinsReplay(c, payload) || c20FailedReplay(c, payload) || c20RepoReplay(c, payload) || c20BorrowReplay(c, payload) || c20ManyReplay(c, payload) || c20AttrsReplay(c, payload) || c20ReloadReplay(c, payload) || c20ContendReplay(c, payload) || c20LinkReplay(c, payload) || c20ColumnReplay(c, payload) {
		return
	}
	var cs c20Case
	if err := json.Unmarshal(payload, &cs); err != nil {
		fmt.Println(err)
		return
	}
	c20Eval(c, core.Scratch("c20"), cs, map[string]struct{}{})
}
