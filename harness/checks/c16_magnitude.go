package checks

import (
	"encoding/json"
	"fmt"
	"math"
	"math/big"
	"strings"

	"verif/harness/internal/core"
	"verif/harness/internal/drv"
)

// Extra family for C16: the number of FETCH ABSOLUTE / RELATIVE in every way an integral number can be written,
// with magnitudes up to and far beyond the 64-bit integer range ("any offset incl. negative and out of range").
//
// cursor.md: "ABSOLUTE number: the pointer is set to the number-th record from the first record", "RELATIVE number:
// ... from the current record", "If specified record does not exist, the fetch cursor statement is set nulls to the
// variables"; number is an integer.  Two readings of a number that is not written as an integer literal exist:
// value.md's conversion table (a float is not converted to an integer: the statement is refused) and csvq's practice
// (an integral float or a numeric text stands for the integer it equals).  A case is condemned only when both
// readings condemn it: the statement either fails with an ordinary error, or it addresses exactly the record its
// number denotes - and a number beyond the last (before the first) record leaves the pointer after the last (before
// the first) record, which the following FETCH PRIOR / NEXT / NEXT and IS IN RANGE show.
func init() {
	core.Extend("C16", "family position-magnitude: cursor over 0, 1, 3 records x pointer {before the first, first, last, after the last} x FETCH {ABSOLUTE, RELATIVE} x number written as "+
		"integer literal, integral float literal, numeric text, arithmetic expression or variable, with values 0, +-1, +-2, +-len, +-(2^63-1), +-2^63, +-1e19, +-2^64, +-3e38, +-1e300 "+
		"(thorough: 25 magnitudes around 2^63 and 2^64 more); oracle: clamped integer arithmetic on the position, or an ordinary error for a number that is not an integer literal", c16MagnitudeRun)
}

type c16MagForm struct {
	SQL   string   // how the number is written
	Val   *big.Int // the integer it denotes
	Kind  string   // integer literal | float literal | numeric text | expression | variable
	IsInt bool     // an integer literal within the 64-bit range: only one reading exists
}

type c16MagCase struct {
	Family string `json:"family"`
	Rows   int    `json:"rows"`
	Start  int    `json:"start"` // 0 before the first, 1 first, 2 last, 3 after the last
	Rel    bool   `json:"rel"`
	Form   int    `json:"form"`
	Deep   bool   `json:"deep"`
}

func c16bigf(f float64) *big.Int {
	b, _ := new(big.Float).SetFloat64(f).Int(nil)
	return b
}

func c16MagForms(thorough bool) []c16MagForm {
	var out []c16MagForm
	add := func(sql string, v *big.Int, kind string, isInt bool) {
		out = append(out, c16MagForm{SQL: sql, Val: v, Kind: kind, IsInt: isInt})
	}
	for _, i := range []int64{0, 1, -1, 2, -2, 3, -3, math.MaxInt64, -math.MaxInt64} {
		add(fmt.Sprint(i), big.NewInt(i), "integer literal", true)
	}
	floats := []float64{0, 1, 2, 3, 4e0, 9.2e18, 9223372036854775808, 1e19, 18446744073709551616, 3e38, 1e300}
	if thorough {
		for _, base := range []float64{9223372036854775808, 18446744073709551616} {
			f := base
			for i := 0; i < 6; i++ {
				f = math.Nextafter(f, 0)
			}
			for i := 0; i < 12; i++ {
				floats = append(floats, f)
				f = math.Nextafter(f, math.Inf(1))
			}
		}
		floats = append(floats, 1e20, 1e100, math.MaxFloat64)
	}
	for _, f := range floats {
		for _, sign := range []float64{1, -1} {
			if f == 0 && sign < 0 {
				continue
			}
			v := sign * f
			lit := fmt.Sprintf("%.1f", v)
			if math.Abs(v) >= 1e15 {
				lit = fmt.Sprintf("%.17e", v)
			}
			add(lit, c16bigf(v), "float literal", false)
			add("'"+lit+"'", c16bigf(v), "numeric text", false)
		}
	}
	// digits only, beyond the integer range
	add("9223372036854775808", c16bigf(9223372036854775808), "float literal", false)
	add("-9223372036854775808", c16bigf(-9223372036854775808), "float literal", false)
	add("'9223372036854775808'", c16bigf(9223372036854775808), "numeric text", false)
	add("' 2 '", big.NewInt(2), "numeric text", false)
	add("'-1'", big.NewInt(-1), "numeric text", false)
	add("1e18 * 100", c16bigf(1e18*100), "expression", false)
	add("-1e18 * 100", c16bigf(-1e18*100), "expression", false)
	add("4611686018427387904.0 * 2", c16bigf(9223372036854775808), "expression", false)
	add("1 + 1", big.NewInt(2), "expression", true)
	add("@big", c16bigf(1e19), "variable", false)
	add("@nbig", c16bigf(-1e19), "variable", false)
	add("@two", big.NewInt(2), "variable", true)
	return out
}

type c16MagProg struct {
	sql     string
	want    []string
	floatOK bool // the number is not an integer literal: an ordinary error is accepted as well
	class   string
}

func (k c16MagCase) program() c16MagProg {
	f := c16MagForms(k.Deep)[k.Form]
	var sb strings.Builder
	sb.WriteString("VAR @v; VAR @big := 1e19; VAR @nbig := -1e19; VAR @two := 2;\nDECLARE src VIEW (x);\n")
	rows := make([]int, k.Rows)
	for i := range rows {
		rows[i] = 10 * (i + 1)
		fmt.Fprintf(&sb, "INSERT INTO src VALUES (%d);\n", rows[i])
	}
	sb.WriteString("DECLARE c CURSOR FOR SELECT x FROM src;\nOPEN c;\n")
	n := k.Rows
	p := -1
	switch k.Start {
	case 1:
		sb.WriteString("FETCH FIRST c INTO @v;\n")
		p = 0
		if n == 0 {
			p = 0 // clamped to len
		}
	case 2:
		sb.WriteString("FETCH LAST c INTO @v;\n")
		p = n - 1
	case 3:
		fmt.Fprintf(&sb, "FETCH ABSOLUTE %d c INTO @v;\n", n)
		p = n
	}
	clamp := func(b *big.Int) int {
		if b.Cmp(big.NewInt(int64(n))) >= 0 {
			return n
		}
		if b.Sign() < 0 {
			return -1
		}
		return int(b.Int64())
	}
	var want []string
	show := func() {
		if p >= 0 && p < n {
			want = append(want, fmt.Sprint(rows[p]))
		} else {
			want = append(want, "NULL")
		}
	}
	sb.WriteString("PRINT 'go';\n")
	want = append(want, "'go'")
	kind := "ABSOLUTE"
	if k.Rel {
		kind = "RELATIVE"
		p = clamp(new(big.Int).Add(big.NewInt(int64(p)), f.Val))
	} else {
		p = clamp(f.Val)
	}
	fmt.Fprintf(&sb, "FETCH %s %s c INTO @v; PRINT @v;\n", kind, f.SQL)
	show()
	sb.WriteString("PRINT CURSOR c IS IN RANGE;\n")
	want = append(want, map[bool]string{true: "TRUE", false: "FALSE"}[p >= 0 && p < n])
	for _, step := range []int{-1, 1, 1} {
		if step < 0 {
			sb.WriteString("FETCH PRIOR c INTO @v; PRINT @v;\n")
		} else {
			sb.WriteString("FETCH NEXT c INTO @v; PRINT @v;\n")
		}
		p = clamp(big.NewInt(int64(p + step)))
		show()
	}
	sb.WriteString("PRINT CURSOR c COUNT;\n")
	want = append(want, fmt.Sprint(n))
	size := "within the integer range"
	if !f.Val.IsInt64() {
		size = "beyond the integer range"
	}
	sign := "positive"
	if f.Val.Sign() < 0 {
		sign = "negative"
	} else if f.Val.Sign() == 0 {
		sign = "zero"
	}
	return c16MagProg{sql: sb.String(), want: want, floatOK: !f.IsInt, class: fmt.Sprintf("FETCH %s with a %s number %s written as %s", kind, sign, size, f.Kind)}
}

func c16MagnitudeOne(c *core.Ctx, dir string, k c16MagCase, verbose bool) {
	p := k.program()
	env := drv.NewText(dir)
	env.Tx.Flags.SetQuiet(true)
	r := env.Exec(p.sql)
	env.Close()
	var got []string
	for _, l := range strings.Split(strings.TrimSpace(r.Out), "\n") {
		got = append(got, strings.TrimSpace(l))
	}
	if verbose {
		fmt.Printf("%s\ncsvq prints %q, error %v, panic %v\nexpected %q (an ordinary error of the FETCH statement accepted: %v)\n", p.sql, got, r.Err, r.Panic, p.want, p.floatOK)
	}
	c.Add("transitions", 5)
	switch {
	case r.Panic != nil || drv.IsFatal(r.Err):
	case r.Err != nil && p.floatOK && len(got) == 1 && got[0] == "'go'" && drv.ErrCode(r.Err) > 0:
		// refused: a number that is not an integer literal need not be accepted
		c.Add("position_magnitude_refused", 1)
		return
	case r.Err == nil && strings.Join(got, "\n") == strings.Join(p.want, "\n"):
		return
	}
	c.Violate("position-magnitude: "+p.class+": the pointer is not where the number puts it",
		fmt.Sprintf("%s\ncsvq prints %q (err=%v panic=%v); the position arithmetic gives %q", p.sql, got, r.Err, r.Panic, p.want), k)
}

func c16MagnitudeRun(c *core.Ctx) {
	dir := core.Scratch("c16magnitude")
	forms := c16MagForms(c.Thorough())
	c.Info("position_magnitude_number_forms", len(forms))
	var idx int64
	for _, rows := range []int{0, 1, 3} {
		for start := 0; start < 4; start++ {
			if c.Expired() {
				c.Incomplete("time budget reached in family position-magnitude")
				return
			}
			for _, rel := range []bool{false, true} {
				for fi := range forms {
					idx++
					if !c.Mine(idx) {
						continue
					}
					k := c16MagCase{Family: "position-magnitude", Rows: rows, Start: start, Rel: rel, Form: fi, Deep: c.Thorough()}
					c16MagnitudeOne(c, dir, k, false)
					c.EvalN(1, 1)
					c.Add("position_magnitude_programs", 1)
					if c.WantSample() && rows == 3 && start == 1 && rel && !forms[fi].Val.IsInt64() {
						p := k.program()
						c.Sample(map[string]any{"family": "position-magnitude", "program": p.sql, "expected_output": p.want})
					}
				}
			}
		}
	}
}

func c16MagnitudeReplay(c *core.Ctx, payload json.RawMessage) bool {
	var k c16MagCase
	if json.Unmarshal(payload, &k) != nil || k.Family != "position-magnitude" {
		return false
	}
	fmt.Println("replaying family position-magnitude")
	c16MagnitudeOne(c, core.Scratch("c16magnitude-replay"), k, true)
	return true
}
