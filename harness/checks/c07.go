package checks

import (
	"context"
	"encoding/json"
	"fmt"
	"math"
	"os"
	"path/filepath"
	"strconv"
	"strings"
	"time"

	"github.com/mithrandie/csvq/lib/parser"
	"github.com/mithrandie/csvq/lib/query"
	"github.com/mithrandie/csvq/lib/value"

	"verif/harness/internal/core"
	"verif/harness/internal/drv"
	"verif/harness/internal/ordref"
	"verif/harness/internal/rv"
)

// C07 — ORDER BY, LIMIT, OFFSET return a correctly sorted, correctly cut permutation.
//
// Five enumerated families (all deterministic, simplest first, no repetition):
//   sort : every table (row sequence) up to R rows over a two-column row alphabet x every key list
//          (1-2 order items x direction x null position), no limit clause
//   cut  : every table up to R rows over a small row alphabet x a fixed set of key lists x every
//          LIMIT / PERCENT / WITH TIES / OFFSET combination over the number alphabets (LIMIT and FETCH spellings)
//   big  : tables of 99..150 rows (so that "100 rows" and "100 percent" differ) x percentages and counts
//   nan  : NaN among numbers; only the relative order of the rows whose key is not NaN is judged
//   file : the sort and a cut subset again on tables loaded from CSV files (text and empty fields)
// Oracle: a predicate (internal/ordref): the output rows are distinct input rows, unchanged; the sequence is
// sorted under the listed items; its length is the documented window's; position by position its sort keys tie
// with a reference sorted arrangement's window (the sequence of tie classes is unique, tie order is free).

func init() {
	core.Register(&core.Check{
		ID:    "C07",
		Level: "exploration",
		Rule: "one case = one (table, SELECT k1,k2,id FROM t [ORDER BY ..] [LIMIT/FETCH ..] [OFFSET ..]) executed by csvq and judged by the reference predicate; " +
			"tables are all row sequences up to the stated length over the stated row alphabets, queries all key lists / limit forms of the family; " +
			"non-trivial = the ORDER BY strictly orders at least one pair of rows of the table, or the limit clause removes at least one row; cases are enumerated without repetition",
		Assume: []string{
			"sort-key columns hold mutually comparable values only (one of: numbers incl. integer/float/numeric text, datetimes, non-numeric text) plus NULL; booleans and mixed-class columns are not enumerated; with NaN present only the order of the other rows is judged",
			"manual silent, csvq followed: negative LIMIT/OFFSET/PERCENT count as 0, a fractional PERCENT row count is rounded up, text orders case-insensitively (as the comparison operators do)",
			"tie order under ORDER BY is free; a limited result is compared by tie classes, not with one expected sequence",
			"TZ=UTC; in-process csvq (lib/query) on temporary views and on CSV files in a private tmpfs repository",
		},
		Run:            c07Run,
		Replay:         c07Replay,
		QuickBudget:    240 * time.Second,
		ThoroughBudget: 9 * time.Minute,
	})
}

// ---- alphabets ------------------------------------------------------------------------------------

var c07d1 = time.Date(2012, 1, 1, 0, 0, 0, 0, time.UTC)

// column alphabets: each holds mutually comparable values of one class plus NULL
var (
	// numbers: integers, a float equal to an integer, 10 (text order would put it before 2)
	c07Num  = []rv.V{rv.N(), rv.I(1), rv.I(2), rv.I(10), rv.Fl(1)}
	c07Num3 = []rv.V{rv.N(), rv.I(1), rv.I(2)}
	// integers that differ only beyond float64 precision (2^53, 2^53+1) and at the int64 bound
	c07BigInt = []rv.V{rv.N(), rv.I(1 << 53), rv.I(1<<53 + 1), rv.I(-(1<<53 + 1)), rv.I(9223372036854775807), rv.I(9223372036854775806)}
	// non-numeric text: 'a' < 'B' only case-insensitively, 'B' ties with 'b'
	c07Text  = []rv.V{rv.N(), rv.S("a"), rv.S("B"), rv.S("b")}
	c07Text3 = []rv.V{rv.N(), rv.S("a"), rv.S("B")}
	c07Text2 = []rv.V{rv.S("a"), rv.S("B")}
	// datetimes: two spellings plus a datetime object equal to one of them
	c07Date  = []rv.V{rv.N(), rv.S("2012-01-02"), rv.S("2012-01-01"), rv.D(c07d1)}
	c07Date3 = []rv.V{rv.N(), rv.S("2012-01-02"), rv.S("2012-01-01")}
	// datetimes whose distance from 1970 does not fit into 64 bits of nanoseconds (before 1678, after 2262) next to one that does
	c07FarDate = []rv.V{rv.N(), rv.S("2300-01-01"), rv.S("1970-01-01"), rv.S("1500-06-01"), rv.S("2263-01-01 00:00:00")}
	// numbers as a CSV file holds them: text
	c07NumText  = []rv.V{rv.N(), rv.S("1"), rv.S("10"), rv.S("2"), rv.S("1.0")}
	c07NumText4 = []rv.V{rv.N(), rv.S("1"), rv.S("10"), rv.S("1.0")}
	c07NumText3 = []rv.V{rv.N(), rv.S("1"), rv.S("2")}
	c07DateText = []rv.V{rv.N(), rv.S("2012-01-02"), rv.S("2012-01-01"), rv.S("2012-1-1 00:00:00")}
)

type c07Pair struct {
	Name    string
	K1, K2  []rv.V
	MaxRows int
}

// c07AllValues: every value any family uses, for decoding replay payloads.
func c07AllValues() map[string]rv.V {
	m := map[string]rv.V{}
	for _, al := range [][]rv.V{c07Num, c07Num3, c07BigInt, c07Text, c07Text3, c07Text2, c07Date, c07Date3, c07FarDate, c07NumText, c07NumText4, c07NumText3, c07DateText, c07NaN} {
		for _, v := range al {
			m[v.Key()] = v
		}
	}
	for _, al := range c07MoreAlphabets {
		for _, v := range al {
			m[v.Key()] = v
		}
	}
	for i := 0; i < 12; i++ {
		m[rv.I(int64(i)).Key()] = rv.I(int64(i))
	}
	return m
}

// c07MoreAlphabets: the values of the families in the other c07_*.go files (for decoding their replay payloads).
var c07MoreAlphabets [][]rv.V

// ---- queries --------------------------------------------------------------------------------------

type c07Query struct {
	Keys  []ordref.Key `json:"keys"`
	Lim   ordref.Limit `json:"lim"`
	Decor int          `json:"decor,omitempty"` // other clauses around the same rows (family decorated), see c07Decors
}

// c07Decors: select forms that return the same rows as SELECT k1, k2, id FROM t (id is unique) while DISTINCT,
// GROUP BY or analytic functions with their own ORDER BY run before the query's ORDER BY. cols maps the
// result columns back to (k1, k2, id).
var c07Decors = []struct {
	sel  string
	cols [3]int
	wrap string // how a key column is written in ORDER BY ("" = the column itself): an expression with the column's value
}{
	{"SELECT k1, k2, id FROM t", [3]int{0, 1, 2}, ""},
	{"SELECT DISTINCT k1, k2, id FROM t", [3]int{0, 1, 2}, ""},
	{"SELECT DISTINCT k2, k1, id, RANK() OVER (ORDER BY k1) AS r FROM t", [3]int{1, 0, 2}, ""},
	{"SELECT k1, k2, id, ROW_NUMBER() OVER (PARTITION BY k2 ORDER BY k1 DESC) AS r FROM t", [3]int{0, 1, 2}, ""},
	{"SELECT k1, k2, id FROM t GROUP BY k1, k2, id", [3]int{0, 1, 2}, ""},
	{"SELECT k2, k1, id, COUNT(*) OVER (PARTITION BY k1) AS n, SUM(id) OVER (ORDER BY k2 DESC, id) AS s FROM t", [3]int{1, 0, 2}, ""},
	// set operations whose (empty) other operand carries an OFFSET / LIMIT of its own
	{"(SELECT k1, k2, id FROM t WHERE FALSE OFFSET 1) UNION ALL SELECT k1, k2, id FROM t", [3]int{0, 1, 2}, ""},
	{"SELECT k1, k2, id FROM t UNION ALL (SELECT k1, k2, id FROM t WHERE FALSE LIMIT 1 OFFSET 2)", [3]int{0, 1, 2}, ""},
	{"(SELECT k1, k2, id FROM t ORDER BY id DESC LIMIT 100 PERCENT OFFSET 0) EXCEPT SELECT k1, k2, id FROM t WHERE FALSE", [3]int{0, 1, 2}, ""},
	// the sort key is an expression; the select list holds an expression that differs from it only in the letter case of a
	// text literal (and is NULL in every row), one that is exactly the key, and one that differs in white space only
	{"SELECT k1, k2, id, IF(INSTR('abc', 'B') IS NOT NULL, k1, NULL) AS d1, IF(INSTR('abc', 'B') IS NOT NULL, k2, NULL) AS d2 FROM t", [3]int{0, 1, 2}, "IF(INSTR('abc', 'b') IS NOT NULL, %s, NULL)"},
	{"SELECT IF(INSTR('abc', 'b') IS NOT NULL, k1, NULL) AS e1, IF(INSTR('abc', 'b') IS NOT NULL, k2, NULL) AS e2, id FROM t", [3]int{0, 1, 2}, "IF(INSTR('abc', 'b') IS NOT NULL, %s, NULL)"},
	{"SELECT k1, k2, id, COALESCE(NULL,k1) AS x, COALESCE( NULL , k2 ) AS y FROM t", [3]int{0, 1, 2}, "COALESCE(NULL, %s)"},
}

func c07Undecorate(q c07Query, out [][]rv.V) [][]rv.V {
	if q.Decor == 0 || q.Decor >= len(c07Decors) {
		return out
	}
	d := c07Decors[q.Decor]
	res := make([][]rv.V, len(out))
	for i, r := range out {
		if len(r) < 3 {
			res[i] = r
			continue
		}
		res[i] = []rv.V{r[d.cols[0]], r[d.cols[1]], r[d.cols[2]]}
	}
	return res
}

var c07Cols = []string{"k1", "k2"}

func (q c07Query) OrderSQL() string {
	if len(q.Keys) == 0 {
		return ""
	}
	parts := make([]string, len(q.Keys))
	for i, k := range q.Keys {
		s := c07Cols[k.Col]
		if q.Decor > 0 && q.Decor < len(c07Decors) && c07Decors[q.Decor].wrap != "" {
			s = fmt.Sprintf(c07Decors[q.Decor].wrap, s)
		}
		switch k.Dir {
		case ordref.DirAsc:
			s += " ASC"
		case ordref.DirDesc:
			s += " DESC"
		}
		switch k.Nulls {
		case ordref.NullsFirst:
			s += " NULLS FIRST"
		case ordref.NullsLast:
			s += " NULLS LAST"
		}
		parts[i] = s
	}
	return " ORDER BY " + strings.Join(parts, ", ")
}

func (q c07Query) LimitSQL() string {
	l := q.Lim
	var sb strings.Builder
	num := ""
	switch l.Kind {
	case ordref.LimRows:
		num = strconv.FormatInt(l.N, 10)
	case ordref.LimPercent:
		num = l.Pct
	}
	if l.Fetch && l.Kind != ordref.LimNone {
		if l.HasOff {
			fmt.Fprintf(&sb, " OFFSET %d ROWS", l.Off)
		}
		sb.WriteString(" FETCH FIRST " + num)
		if l.Kind == ordref.LimPercent {
			sb.WriteString(" PERCENT")
		} else {
			sb.WriteString(" ROWS")
		}
		if l.Ties {
			sb.WriteString(" WITH TIES")
		} else {
			sb.WriteString(" ONLY")
		}
		return sb.String()
	}
	if l.Kind != ordref.LimNone {
		sb.WriteString(" LIMIT " + num)
		if l.Kind == ordref.LimPercent {
			sb.WriteString(" PERCENT")
		}
		if l.Ties {
			sb.WriteString(" WITH TIES")
		}
	}
	if l.HasOff {
		fmt.Fprintf(&sb, " OFFSET %d", l.Off)
	}
	return sb.String()
}

func (q c07Query) SQL() string {
	if q.Decor > 0 && q.Decor < len(c07Decors) {
		return c07Decors[q.Decor].sel + q.OrderSQL() + q.LimitSQL()
	}
	return "SELECT k1, k2, id FROM t" + q.OrderSQL() + q.LimitSQL()
}

// all key lists: none, 18 single items, 72 two-item lists over the two columns
func c07KeyLists() [][]ordref.Key {
	out := [][]ordref.Key{nil}
	for col := 0; col < 2; col++ {
		for _, dir := range []int{ordref.DirNone, ordref.DirAsc, ordref.DirDesc} {
			for _, nl := range []int{ordref.NullsDefault, ordref.NullsFirst, ordref.NullsLast} {
				out = append(out, []ordref.Key{{Col: col, Dir: dir, Nulls: nl}})
			}
		}
	}
	for first := 0; first < 2; first++ {
		for _, d1 := range []int{ordref.DirAsc, ordref.DirDesc} {
			for _, n1 := range []int{ordref.NullsDefault, ordref.NullsFirst, ordref.NullsLast} {
				for _, d2 := range []int{ordref.DirAsc, ordref.DirDesc} {
					for _, n2 := range []int{ordref.NullsDefault, ordref.NullsFirst, ordref.NullsLast} {
						out = append(out, []ordref.Key{{Col: first, Dir: d1, Nulls: n1}, {Col: 1 - first, Dir: d2, Nulls: n2}})
					}
				}
			}
		}
	}
	return out
}

// key lists of the cut family
func c07CutKeyLists() [][]ordref.Key {
	return [][]ordref.Key{
		nil,
		{{Col: 0, Dir: ordref.DirNone}},
		{{Col: 0, Dir: ordref.DirDesc}},
		{{Col: 0, Dir: ordref.DirAsc, Nulls: ordref.NullsLast}},
		{{Col: 0, Dir: ordref.DirDesc}, {Col: 1, Dir: ordref.DirAsc}},
		{{Col: 1, Dir: ordref.DirDesc, Nulls: ordref.NullsFirst}, {Col: 0, Dir: ordref.DirAsc}},
	}
}

var c07Ns = []int64{-1, 0, 1, 2, 3, 5, 100}
var c07Pcts = []string{"-1", "0", "25", "50", "99.9", "100", "150"}

// every limit clause over the number alphabets: (none | LIMIT n | LIMIT p PERCENT) x (ONLY | WITH TIES) x (no OFFSET | OFFSET m)
func c07LimitForms(ns []int64, pcts []string, offs []int64, fetch bool) []ordref.Limit {
	var out []ordref.Limit
	type off struct {
		has bool
		m   int64
	}
	offsets := []off{{false, 0}}
	for _, m := range offs {
		offsets = append(offsets, off{true, m})
	}
	for _, o := range offsets {
		if !fetch {
			out = append(out, ordref.Limit{Kind: ordref.LimNone, HasOff: o.has, Off: o.m})
		}
		for _, ties := range []bool{false, true} {
			for _, n := range ns {
				out = append(out, ordref.Limit{Kind: ordref.LimRows, N: n, Ties: ties, HasOff: o.has, Off: o.m, Fetch: fetch})
			}
			for _, p := range pcts {
				out = append(out, ordref.Limit{Kind: ordref.LimPercent, Pct: p, Ties: ties, HasOff: o.has, Off: o.m, Fetch: fetch})
			}
		}
	}
	return out
}

// ---- driving csvq ---------------------------------------------------------------------------------

const c07Chunk = 5

type c07Runner struct {
	env   *drv.Env
	ctx   context.Context
	del   []parser.Statement
	ins   [c07Chunk + 1][]parser.Statement
	cache map[string][]parser.Statement
}

func newC07Runner(dir string) *c07Runner {
	r := &c07Runner{env: drv.New(dir), cache: map[string][]parser.Statement{}}
	r.ctx = query.ContextForStoringResults(r.env.Ctx)
	if res := r.env.Exec("DECLARE t VIEW (k1, k2, id)"); res.Err != nil || res.Panic != nil {
		panic(fmt.Sprint("harness: cannot declare the view: ", res.Err, res.Panic))
	}
	r.del = mustParse("DELETE FROM t")
	for n := 1; n <= c07Chunk; n++ {
		parts := make([]string, n)
		for i := range parts {
			parts[i] = fmt.Sprintf("(@a%d, @b%d, @i%d)", i, i, i)
		}
		r.ins[n] = mustParse("INSERT INTO t VALUES " + strings.Join(parts, ", "))
	}
	for i := 0; i < c07Chunk; i++ {
		r.env.SetVar(fmt.Sprintf("a%d", i), value.NewNull())
		r.env.SetVar(fmt.Sprintf("b%d", i), value.NewNull())
		r.env.SetVar(fmt.Sprintf("i%d", i), value.NewNull())
	}
	return r
}

func (r *c07Runner) close() { r.env.Close() }

func (r *c07Runner) exec(st []parser.Statement) (err error, pn any) {
	defer func() {
		if p := recover(); p != nil {
			pn = p
		}
	}()
	_, err = r.env.Proc.Execute(r.ctx, st)
	return
}

// load replaces the content of the temporary view t with rows (typed values through variables).
func (r *c07Runner) load(rows []ordref.Row) {
	if err, pn := r.exec(r.del); err != nil || pn != nil {
		panic(fmt.Sprint("harness: DELETE failed: ", err, pn))
	}
	for at := 0; at < len(rows); at += c07Chunk {
		n := len(rows) - at
		if n > c07Chunk {
			n = c07Chunk
		}
		for i := 0; i < n; i++ {
			row := rows[at+i]
			r.env.SetVar(fmt.Sprintf("a%d", i), row.V[0].Primary())
			r.env.SetVar(fmt.Sprintf("b%d", i), row.V[1].Primary())
			r.env.SetVar(fmt.Sprintf("i%d", i), value.NewInteger(int64(row.ID)))
		}
		if err, pn := r.exec(r.ins[n]); err != nil || pn != nil {
			panic(fmt.Sprint("harness: INSERT failed: ", err, pn))
		}
	}
}

func (r *c07Runner) query(sql string) (rows [][]rv.V, err error, pn any) {
	st, ok := r.cache[sql]
	if !ok {
		var perr error
		st, _, perr = parser.Parse(sql, "", false, false)
		if perr != nil {
			return nil, fmt.Errorf("syntax: %v", perr), nil
		}
		if len(r.cache) < 20000 {
			r.cache[sql] = st
		}
	}
	err, pn = r.exec(st)
	if err != nil || pn != nil {
		return nil, err, pn
	}
	vs := r.env.Tx.SelectedViews
	if len(vs) != 1 {
		return nil, fmt.Errorf("harness: %d result tables", len(vs)), nil
	}
	return drv.Rows(vs[0]), nil, nil
}

// ---- the judge ------------------------------------------------------------------------------------

type c07Payload struct {
	Family string     `json:"family"`
	Seam   string     `json:"seam"` // view | file
	Rows   [][]string `json:"rows"` // value keys, in input order
	Query  c07Query   `json:"query"`
	SQL    string     `json:"sql"`
}

// c07Kind names a value by what the documented ladder makes of it as a sort key (numeric text is a number).
func c07Kind(v rv.V) string {
	if v.K == rv.Str {
		if _, ok := v.StrictInt(); ok {
			return "Int"
		}
		if _, ok := v.Float(); ok {
			return "Float"
		}
		if _, ok := v.Datetime(); ok {
			return "Date"
		}
	}
	return sigKind(v)
}

func kindPair(a, b rv.V) string {
	x, y := c07Kind(a), c07Kind(b)
	if x == y {
		return ""
	}
	if x > y {
		x, y = y, x
	}
	return "(" + x + "~" + y + ")"
}

func c07RowsText(rows []ordref.Row) string {
	parts := make([]string, 0, len(rows))
	for i, r := range rows {
		if len(rows) > 16 && i >= 8 && i < len(rows)-4 {
			if i == 8 {
				parts = append(parts, fmt.Sprintf("... %d more ...", len(rows)-12))
			}
			continue
		}
		parts = append(parts, fmt.Sprintf("#%d(%s, %s)", r.ID, r.V[0].Key(), r.V[1].Key()))
	}
	return "[" + strings.Join(parts, " ") + "]"
}

// active features of the limit clause, coarse enough that one defect gives few signatures
func c07Form(q c07Query, w ordref.Window, sorted []ordref.Row, ordered bool) string {
	var parts []string
	l := q.Lim
	switch l.Kind {
	case ordref.LimRows:
		s := "ROWS"
		if l.N < 0 {
			s += "(neg)"
		} else if l.N == 0 {
			s += "(zero)"
		}
		parts = append(parts, s)
	case ordref.LimPercent:
		s := "PERCENT"
		f, _ := strconv.ParseFloat(l.Pct, 64)
		switch {
		case f < 0:
			s += "(neg)"
		case f == 0:
			s += "(zero)"
		case f > 100:
			s += "(over100)"
		}
		parts = append(parts, s)
	}
	if w.TiesConsulted {
		s := "TIES"
		// does the tie class at the boundary hold keys of different value kinds?
		last := sorted[w.PlainEnd-1]
		mixed := ""
		for i := range sorted {
			if r, _, ok := ordref.CmpRows(last, sorted[i], q.Keys); ok && r == ordref.Tie {
				for _, k := range q.Keys {
					if kp := kindPair(sorted[i].V[k.Col], last.V[k.Col]); kp != "" && mixed == "" {
						mixed = kp
					}
				}
			}
		}
		s += mixed
		parts = append(parts, s)
	}
	if w.Start > 0 {
		parts = append(parts, "OFFSET")
	}
	if len(parts) == 0 {
		if l.HasOff {
			switch {
			case l.Off < 0:
				parts = append(parts, "OFFSET(neg)")
			default:
				parts = append(parts, "OFFSET(zero)")
			}
		}
		if l.Ties {
			parts = append(parts, "TIES(not consulted)")
		}
		if !ordered {
			parts = append(parts, "unordered")
		}
	}
	if len(parts) == 0 {
		return "no limit clause"
	}
	return strings.Join(parts, "+")
}

func c07FatalSig(err error, pn any) string {
	text := ""
	if pn != nil {
		text = fmt.Sprint(pn)
	} else {
		text = err.Error()
	}
	first := strings.TrimSpace(strings.SplitN(text, "\n", 2)[0])
	first = strings.TrimPrefix(first, "[Fatal Error] ")
	fn := "?"
	for _, l := range strings.Split(text, "\n") {
		l = strings.TrimSpace(l)
		if i := strings.Index(l, "github.com/mithrandie/csvq/lib/"); i >= 0 && !strings.Contains(l, "(*Processor).execute") {
			f := l[i+len("github.com/mithrandie/csvq/lib/"):]
			if j := strings.Index(f, " ["); j >= 0 {
				f = f[:j]
			}
			fn = f
			break
		}
	}
	// concrete numbers (indexes, lengths) do not belong in a class name
	var sb strings.Builder
	digit := false
	for _, r := range first {
		if r >= '0' && r <= '9' {
			if !digit {
				sb.WriteByte('N')
			}
			digit = true
			continue
		}
		digit = false
		sb.WriteRune(r)
	}
	return "fatal:" + sb.String() + ":" + fn
}

type c07Exec func(sql string) ([][]rv.V, error, any)

// c07Match maps output rows to input rows: every output row must be an input row, unchanged, used once.
func c07Match(out [][]rv.V, tbl []ordref.Row) ([]ordref.Row, bool) {
	n := len(tbl)
	got := make([]ordref.Row, 0, len(out))
	seen := make([]bool, n)
	for _, r := range out {
		id := -1
		if len(r) == 3 {
			switch r[2].K {
			case rv.Int:
				id = int(r[2].I)
			case rv.Str:
				if x, e := strconv.Atoi(r[2].S); e == nil {
					id = x
				}
			}
		}
		if id < 0 || id >= n || seen[id] || !rv.SameValue(r[0], tbl[id].V[0]) || !rv.SameValue(r[1], tbl[id].V[1]) {
			return nil, false
		}
		seen[id] = true
		got = append(got, tbl[id])
	}
	return got, true
}

// c07Inversion finds the first adjacent pair that the listed items order the other way round and names its class.
func c07Inversion(got []ordref.Row, keys []ordref.Key) (sig string, at, decider int, found bool) {
	for i := 0; i+1 < len(got); i++ {
		r, decider, ok := ordref.CmpRows(got[i+1], got[i], keys)
		if ok && r == ordref.Before {
			var path []string
			for j := 0; j < decider; j++ {
				k := keys[j]
				path = append(path, "tie"+kindPair(got[i].V[k.Col], got[i+1].V[k.Col]))
			}
			k := keys[decider]
			_, byNull, _ := ordref.CmpVal(got[i+1].V[k.Col], got[i].V[k.Col], k)
			if byNull {
				path = append(path, "null-position")
			} else {
				path = append(path, "value"+kindPair(got[i].V[k.Col], got[i+1].V[k.Col]))
			}
			return "sort:inversion:" + strings.Join(path, ">"), i, decider, true
		}
	}
	return "", 0, 0, false
}

// c07Judge compares one csvq result with the reference predicate and reports a disagreement. Returns whether the
// case was non-trivial. exec runs a further query on the same table; it is used only to attribute a wrong window to
// the sort when the same ORDER BY without the limit clause is already wrongly sorted.
func c07Judge(c *core.Ctx, family, seam string, tbl []ordref.Row, q c07Query, out [][]rv.V, err error, pn any, exec c07Exec) bool {
	sig, msg, nontrivial := c07Assess(c, seam, tbl, q, q.SQL(), out, err, pn, exec)
	if sig != "" {
		c.Violate(c07SigPrefix(family)+sig, msg, c07PayloadOf(family, seam, tbl, q, q.SQL()))
	}
	return nontrivial
}

// c07SigPrefix: the families added after round 7 name themselves in the signature (the older ones keep the bare class).
func c07SigPrefix(family string) string {
	switch family {
	case "sort", "cut", "big", "file", "decorated", "nan":
		return ""
	}
	return family + ":"
}

func c07PayloadOf(family, seam string, tbl []ordref.Row, q c07Query, sql string) c07Payload {
	p := c07Payload{Family: family, Seam: seam, Query: q, SQL: sql}
	for _, r := range tbl {
		p.Rows = append(p.Rows, []string{r.V[0].Key(), r.V[1].Key()})
	}
	return p
}

// c07Assess is the reference predicate itself: it returns the class and the description of the disagreement
// ("" when csvq's answer is one the manual allows). sql is the statement as it was executed (for the message);
// out holds the rows of SELECT k1, k2, id of q's form in output order.
func c07Assess(c *core.Ctx, seam string, tbl []ordref.Row, q c07Query, sql string, out [][]rv.V, err error, pn any, exec c07Exec) (vsig, vmsg string, nontrivial bool) {
	out = c07Undecorate(q, out)
	n := len(tbl)
	ordered := len(q.Keys) > 0
	sorted := ordref.Sorted(tbl, q.Keys)
	w := ordref.Cut(sorted, q.Keys, ordered, q.Lim)
	nontrivial = w.End-w.Start < n
	if ordered && n >= 2 {
		if r, _, _ := ordref.CmpRows(sorted[0], sorted[n-1], q.Keys); r != ordref.Tie {
			nontrivial = true
		}
	}
	where := func() string { return fmt.Sprintf("%s on %s table %s", sql, seam, c07RowsText(tbl)) }

	if pn != nil || drv.IsFatal(err) {
		return c07FatalSig(err, pn), fmt.Sprintf("%s: csvq fails internally: %v %v", where(), firstLine(err), pn), nontrivial
	}
	if err != nil {
		return fmt.Sprintf("error:%d:%s", drv.ErrCode(err), c07Form(q, w, sorted, ordered)),
			fmt.Sprintf("%s: csvq returns the error %q, the manual defines a result", where(), err.Error()), nontrivial
	}

	// 1. every output row is an input row, unchanged, used once
	got, ok := c07Match(out, tbl)
	if !ok {
		return "rows:not-a-sub-permutation:" + c07Form(q, w, sorted, ordered),
			fmt.Sprintf("%s: output %s contains a row that is not an unused, unchanged input row", where(), drv.RowsKey(out)), nontrivial
	}

	// 2. the output is sorted under the listed items
	if sig, i, decider, found := c07Inversion(got, q.Keys); found {
		return sig, fmt.Sprintf("%s: output %s has row #%d before row #%d although order item %d puts it after",
			where(), c07RowsText(got), got[i].ID, got[i+1].ID, decider+1), nontrivial
	}
	if w.Ambiguous {
		if c != nil {
			c.Add("percent_rounding_ambiguous_not_compared", 1)
		}
		return "", "", nontrivial
	}

	// 3. length of the window; 4. position by position the output ties with the window of a sorted arrangement
	// (exactly the same rows when there is no ORDER BY)
	kind, msg := "", ""
	if len(got) != w.End-w.Start {
		kind = "cut:length:"
		msg = fmt.Sprintf("csvq returns %d rows %s, the documented window is positions [%d,%d) of the %d sorted rows = %d rows (one sorted arrangement: %s)",
			len(got), c07RowsText(got), w.Start, w.End, n, w.End-w.Start, c07RowsText(sorted))
	} else {
		for p := range got {
			ref := sorted[w.Start+p]
			bad := false
			if !ordered {
				// without ORDER BY the rows come in table order - unless an analytic function or a grouping of the
				// select form has rearranged them (family decorated): then only the number of rows is documented
				bad = got[p].ID != ref.ID && q.Decor == 0
			} else if r, _, ok := ordref.CmpRows(got[p], ref, q.Keys); ok && r != ordref.Tie {
				bad = true
			}
			if bad {
				kind = "cut:wrong-window:"
				msg = fmt.Sprintf("csvq returns %s, the documented window is positions [%d,%d) of the sorted rows, e.g. %s",
					c07RowsText(got), w.Start, w.End, c07RowsText(sorted[w.Start:w.End]))
				break
			}
		}
	}
	if kind == "" {
		return "", "", nontrivial
	}
	if ordered && exec != nil && (q.Lim.Kind != ordref.LimNone || q.Lim.HasOff) {
		// is the sort itself already wrong on this table? then this is the sort's violation, seen through a window
		full := c07Query{Keys: q.Keys}
		if fout, ferr, fpn := exec(full.SQL()); ferr == nil && fpn == nil {
			if fgot, ok := c07Match(fout, tbl); ok {
				if sig, i, decider, found := c07Inversion(fgot, q.Keys); found {
					return sig, fmt.Sprintf("%s: %s; the same ORDER BY without the limit clause gives %s, which has row #%d before row #%d although order item %d puts it after",
						where(), msg, c07RowsText(fgot), fgot[i].ID, fgot[i+1].ID, decider+1), nontrivial
				}
			}
		}
	}
	return kind + c07Form(q, w, sorted, ordered), where() + ": " + msg, nontrivial
}

func firstLine(err error) string {
	if err == nil {
		return ""
	}
	return strings.SplitN(err.Error(), "\n", 2)[0]
}

// ---- table enumeration ----------------------------------------------------------------------------

// c07Tables calls f for every row sequence of length 0..maxRows over the row alphabet a1 x a2
// (shorter first, then lexicographic); idx numbers them.
func c07Tables(a1, a2 []rv.V, maxRows int, f func(idx int64, tbl []ordref.Row) bool) {
	m := len(a1) * len(a2)
	var idx int64
	for r := 0; r <= maxRows; r++ {
		digits := make([]int, r)
		for {
			tbl := make([]ordref.Row, r)
			for i, d := range digits {
				tbl[i] = ordref.Row{ID: i, V: []rv.V{a1[d/len(a2)], a2[d%len(a2)]}}
			}
			if !f(idx, tbl) {
				return
			}
			idx++
			i := r - 1
			for ; i >= 0; i-- {
				digits[i]++
				if digits[i] < m {
					break
				}
				digits[i] = 0
			}
			if i < 0 {
				break
			}
		}
	}
}

// ---- families -------------------------------------------------------------------------------------

type c07Plan struct {
	sortPairs  []c07Pair
	cutPairs   []c07Pair
	cutFetchKL int // number of cut key lists that are also run in the OFFSET .. FETCH spelling (first table set only)
	filePairs  []c07Pair
	nanRows    int
}

func c07PlanOf(thorough bool) c07Plan {
	if thorough {
		return c07Plan{
			sortPairs: []c07Pair{
				{"num,text", c07Num, c07Text3, 4}, {"text,num", c07Text, c07Num3, 4}, {"num,num", c07Num, c07Num3, 4},
				{"date,num", c07Date, c07Num3, 4}, {"text,date", c07Text, c07Date3, 4}, {"numtext,text", c07NumText, c07Text3, 4},
				{"num,text2", c07Num, c07Text2, 5}, {"bigint,text2", c07BigInt, c07Text2, 4}, {"fardate,text2", c07FarDate, c07Text2, 4}},
			cutPairs: []c07Pair{
				{"cut 3x2", c07Num3, []rv.V{rv.S("a"), rv.S("b")}, 5},
				{"cut 4x2", []rv.V{rv.N(), rv.I(1), rv.I(2), rv.Fl(1)}, []rv.V{rv.N(), rv.S("a")}, 4},
				{"cut bigint", []rv.V{rv.N(), rv.I(1 << 53), rv.I(1<<53 + 1), rv.I(9223372036854775807), rv.I(9223372036854775806)}, []rv.V{rv.S("a")}, 4}},
			cutFetchKL: 2,
			filePairs:  []c07Pair{{"file numtext,text", c07NumText4, c07Text3, 4}, {"file text,numtext", c07Text, c07NumText3, 3}, {"file date,text", c07DateText, c07Text3, 3}},
			nanRows:    5,
		}
	}
	return c07Plan{
		sortPairs: []c07Pair{
			{"num,text", c07Num, c07Text3, 3}, {"num,text2", c07Num, c07Text2, 4}, {"text,num", c07Text, c07Num3, 3}, {"num,num", c07Num, c07Num3, 3},
			{"date,num", c07Date, c07Num3, 3}, {"text,date", c07Text, c07Date3, 3}, {"numtext,text", c07NumText, c07Text3, 3}, {"bigint,text2", c07BigInt, c07Text2, 3}, {"fardate,text2", c07FarDate, c07Text2, 3}},
		cutPairs: []c07Pair{
			{"cut 3x2", c07Num3, []rv.V{rv.S("a"), rv.S("b")}, 4},
			{"cut 3x1", []rv.V{rv.N(), rv.I(1), rv.Fl(1)}, []rv.V{rv.S("a")}, 4},
			{"cut bigint", []rv.V{rv.I(1 << 53), rv.I(1<<53 + 1), rv.I(9223372036854775807), rv.I(9223372036854775806)}, []rv.V{rv.S("a")}, 3}},
		cutFetchKL: 2,
		filePairs:  []c07Pair{{"file numtext,text", c07NumText4, c07Text3, 3}},
		nanRows:    4,
	}
}

// c07Only: development aid. C07_ONLY=<family>[,<family>] runs only the named families of the c07_*.go files
// (the run is then reported as not exhaustive).
func c07Only(c *core.Ctx, family string) bool {
	only := os.Getenv("C07_ONLY")
	if only == "" {
		return true
	}
	c.Incomplete("C07_ONLY is set: only the families " + only + " were run")
	for _, f := range strings.Split(only, ",") {
		if f == family {
			return true
		}
	}
	return false
}

func c07Run(c *core.Ctx) {
	if !c07Only(c, "main") {
		return
	}
	plan := c07PlanOf(c.Thorough())
	r := newC07Runner(core.Scratch("c07"))
	defer r.close()

	t0 := time.Now()
	lap := func(name string) {
		c.Max("max_ms_"+name, time.Since(t0).Milliseconds())
		t0 = time.Now()
	}
	// --- family sort
	lists := c07KeyLists()
	queries := make([]c07Query, len(lists))
	sqls := make([]string, len(lists))
	for i, kl := range lists {
		queries[i] = c07Query{Keys: kl}
		sqls[i] = queries[i].SQL()
	}
	c.Info("sort_key_lists", len(lists))
	var base int64
	for _, p := range plan.sortPairs {
		c.Info("sort tables "+p.Name, fmt.Sprintf("k1 in %v, k2 in %v, all row sequences of 0..%d rows", p.K1, p.K2, p.MaxRows))
		cut := false
		var count int64
		c07Tables(p.K1, p.K2, p.MaxRows, func(idx int64, tbl []ordref.Row) bool {
			count = idx + 1
			if !c.Mine(base + idx) {
				return true
			}
			if c.Expired() {
				c.Incomplete("time budget reached in family sort (" + p.Name + ")")
				cut = true
				return false
			}
			r.load(tbl)
			c07RunQueries(c, r, "sort", tbl, queries, sqls)
			// the stored table must still be in input order (the enumeration treats tables as sequences)
			out, err, pn := r.query(sqls[0])
			c07Judge(c, "sort", "view", tbl, queries[0], out, err, pn, r.query)
			c.Add("tables", 1)
			return true
		})
		base += count
		if cut {
			return
		}
	}

	lap("sort")
	// --- family decorated: DISTINCT / GROUP BY / analytic functions with their own ordering before the ORDER BY
	{
		var dq []c07Query
		var dsql []string
		for d := 1; d < len(c07Decors); d++ {
			for _, kl := range lists {
				if len(kl) == 0 {
					continue // without ORDER BY the order left by an analytic function or by grouping is not promised
				}
				q := c07Query{Keys: kl, Decor: d}
				dq = append(dq, q)
				dsql = append(dsql, q.SQL())
			}
			for _, lim := range []ordref.Limit{{Kind: ordref.LimRows, N: 2}, {Kind: ordref.LimRows, N: 1, Ties: true}, {Kind: ordref.LimRows, N: 2, HasOff: true, Off: 1},
				{Kind: ordref.LimPercent, Pct: "50"}, {Kind: ordref.LimPercent, Pct: "34", Ties: true}, {Kind: ordref.LimPercent, Pct: "50", HasOff: true, Off: 1}} {
				// nil: no ORDER BY - WITH TIES then has no sort keys to tie on, the count alone decides the cut
				for _, kl := range [][]ordref.Key{{{Col: 0}}, {{Col: 1, Dir: ordref.DirDesc}}, {{Col: 1}, {Col: 0, Dir: ordref.DirDesc}}, nil} {
					q := c07Query{Keys: kl, Lim: lim, Decor: d}
					dq = append(dq, q)
					dsql = append(dsql, q.SQL())
				}
			}
		}
		maxRows := 3
		dk1 := c07Num3
		if c.Thorough() {
			dk1 = c07Num
		}
		c.Info("decorated select forms", len(c07Decors)-1)
		cut := false
		var count int64
		c07Tables(dk1, c07Num3, maxRows, func(idx int64, tbl []ordref.Row) bool {
			count = idx + 1
			if !c.Mine(base + idx) {
				return true
			}
			if c.Expired() {
				c.Incomplete("time budget reached in family decorated")
				cut = true
				return false
			}
			r.load(tbl)
			c07RunQueries(c, r, "decorated", tbl, dq, dsql)
			c.Add("tables", 1)
			return true
		})
		base += count
		if cut {
			return
		}
	}
	lap("decorated")
	// --- family cut
	for i, p := range plan.cutPairs {
		f := 0
		if i == 0 {
			f = plan.cutFetchKL
		}
		if !c07CutFamily(c, r, p, f, &base) {
			return
		}
	}

	lap("cut")
	// --- family big
	if !c07Big(c, r) {
		return
	}
	lap("big")
	// --- family nan
	if !c07NaNFamily(c, r, plan.nanRows, &base) {
		return
	}
	lap("nan")
	// --- family file
	c07File(c, plan, &base)
	lap("file")
}

func c07RunQueries(c *core.Ctx, r *c07Runner, family string, tbl []ordref.Row, queries []c07Query, sqls []string) {
	var nt int64
	for i, q := range queries {
		out, err, pn := r.query(sqls[i])
		if c07Judge(c, family, "view", tbl, q, out, err, pn, r.query) {
			nt++
			c07MaybeSample(c, family, "view", tbl, q, out)
		}
	}
	c.EvalN(int64(len(queries)), nt)
}

var c07Sampled = map[string]int{}

// c07MaybeSample keeps at most one or two explored cases per family and worker: a two-item ORDER BY on a table
// with at least three rows, or a limit clause with WITH TIES and OFFSET that keeps something.
func c07MaybeSample(c *core.Ctx, family, seam string, tbl []ordref.Row, q c07Query, out [][]rv.V) {
	if !c.WantSample() || len(tbl) < 3 || len(out) == 0 {
		return
	}
	max := 1
	switch family {
	case "sort", "file":
		if len(q.Keys) != 2 || q.Keys[0].Dir != ordref.DirDesc || tbl[0].V[0].K == rv.Null || tbl[1].V[1].K == rv.Null {
			return
		}
	case "cut", "big":
		max = 2
		if len(q.Keys) == 0 || !q.Lim.Ties || !q.Lim.HasOff || q.Lim.Off < 1 || len(out) == len(tbl) || (c07Sampled[family] == 1 && q.Lim.Kind != ordref.LimPercent) {
			return
		}
	}
	if c07Sampled[family] >= max {
		return
	}
	c07Sampled[family]++
	c.Sample(map[string]any{"family": family, "seam": seam, "table": c07RowsText(tbl), "sql": q.SQL(), "result": drv.RowsKey(out)})
}

func c07CutQueries(fetchKL int) ([]c07Query, []string) {
	var queries []c07Query
	offs := c07Ns
	for ki, kl := range c07CutKeyLists() {
		for _, l := range c07LimitForms(c07Ns, c07Pcts, offs, false) {
			queries = append(queries, c07Query{Keys: kl, Lim: l})
		}
		if ki < fetchKL {
			for _, l := range c07LimitForms(c07Ns, c07Pcts, offs, true) {
				queries = append(queries, c07Query{Keys: kl, Lim: l})
			}
		}
	}
	sqls := make([]string, len(queries))
	for i, q := range queries {
		sqls[i] = q.SQL()
	}
	return queries, sqls
}

func c07CutFamily(c *core.Ctx, r *c07Runner, p c07Pair, fetchKL int, base *int64) bool {
	queries, sqls := c07CutQueries(fetchKL)
	c.Info("cut tables "+p.Name, fmt.Sprintf("k1 in %v, k2 in %v, all row sequences of 0..%d rows, %d queries each", p.K1, p.K2, p.MaxRows, len(queries)))
	ok := true
	var count int64
	c07Tables(p.K1, p.K2, p.MaxRows, func(idx int64, tbl []ordref.Row) bool {
		count = idx + 1
		if !c.Mine(*base + idx) {
			return true
		}
		if c.Expired() {
			c.Incomplete("time budget reached in family cut (" + p.Name + ")")
			ok = false
			return false
		}
		r.load(tbl)
		c07RunQueries(c, r, "cut", tbl, queries, sqls)
		c.Add("tables", 1)
		return true
	})
	*base += count
	return ok
}

// --- family big: more than 100 rows, so that a percentage above 100 and the number 100 differ

func c07BigTable(n int) []ordref.Row {
	tbl := make([]ordref.Row, n)
	for i := range tbl {
		var k1 rv.V
		if i%10 == 3 {
			k1 = rv.N()
		} else {
			k1 = rv.I(int64((i * 7) % 10))
		}
		k2 := rv.S("a")
		if i%3 == 0 {
			k2 = rv.S("b")
		}
		tbl[i] = ordref.Row{ID: i, V: []rv.V{k1, k2}}
	}
	return tbl
}

var c07BigSizes = []int{99, 100, 101, 150}

func c07BigQueries() []c07Query {
	var qs []c07Query
	lists := [][]ordref.Key{nil, {{Col: 0, Dir: ordref.DirAsc}}, {{Col: 0, Dir: ordref.DirDesc, Nulls: ordref.NullsFirst}, {Col: 1, Dir: ordref.DirAsc}}}
	forms := c07LimitForms([]int64{0, 1, 99, 100, 101, 1000}, []string{"-1", "0", "0.1", "1", "33.3", "50", "99.9", "100", "100.5", "150", "1000"},
		[]int64{0, 1, 50, 100, 101, 1000}, false)
	for _, kl := range lists {
		for _, l := range forms {
			qs = append(qs, c07Query{Keys: kl, Lim: l})
		}
	}
	return qs
}

func c07Big(c *core.Ctx, r *c07Runner) bool {
	qs := c07BigQueries()
	c.Info("big_tables", fmt.Sprintf("sizes %v, k1 = (7i mod 10) with NULL at i%%10=3, k2 in {a,b}; %d queries each", c07BigSizes, len(qs)))
	for si, n := range c07BigSizes {
		tbl := c07BigTable(n)
		loaded := false
		var cnt, nt int64
		for qi, q := range qs {
			if !c.Mine(int64(si*len(qs) + qi)) {
				continue
			}
			if c.Expired() {
				c.Incomplete("time budget reached in family big")
				return false
			}
			if !loaded {
				r.load(tbl)
				loaded = true
				c.Add("tables", 1)
			}
			out, err, pn := r.query(q.SQL())
			cnt++
			if c07Judge(c, "big", "view", tbl, q, out, err, pn, r.query) {
				nt++
			}
		}
		c.EvalN(cnt, nt)
	}
	return true
}

// --- family file: the same questions on tables loaded from CSV files

func c07CSV(tbl []ordref.Row) string {
	var sb strings.Builder
	sb.WriteString("k1,k2,id\n")
	for _, r := range tbl {
		for _, v := range r.V {
			if v.K == rv.Str {
				sb.WriteString(v.S)
			} else if v.K != rv.Null {
				panic("harness: only text and NULL can be written to the CSV seam")
			}
			sb.WriteByte(',')
		}
		sb.WriteString(strconv.Itoa(r.ID))
		sb.WriteByte('\n')
	}
	return sb.String()
}

func c07FileQueries() []c07Query {
	var qs []c07Query
	for _, kl := range c07KeyLists() {
		qs = append(qs, c07Query{Keys: kl})
	}
	for _, kl := range c07CutKeyLists()[:5] {
		for _, l := range c07LimitForms([]int64{0, 1, 2}, []string{"50", "150"}, []int64{1, 2}, false) {
			if l.Kind == ordref.LimNone && !l.HasOff {
				continue
			}
			qs = append(qs, c07Query{Keys: kl, Lim: l})
		}
	}
	return qs
}

var c07FileStmts = map[string][]parser.Statement{}

func c07RunFileTable(c *core.Ctx, dir string, tbl []ordref.Row, qs []c07Query) {
	drv.ClearDir(dir)
	if err := os.WriteFile(filepath.Join(dir, "t.csv"), []byte(c07CSV(tbl)), 0644); err != nil {
		panic(err)
	}
	env := drv.New(dir)
	defer env.Close()
	// nobody else touches this private directory: a lock wait can only time out because the machine is
	// overloaded (the deadline passes before the first attempt); that must never look like a csvq answer
	env.Tx.UpdateWaitTimeout(600, 5*time.Millisecond)
	var nt int64
	ctx := query.ContextForStoringResults(env.Ctx)
	var exec c07Exec
	exec1 := func(sql string) (rows [][]rv.V, err error, pn any) {
		defer func() {
			if p := recover(); p != nil {
				pn = p
			}
		}()
		st, ok := c07FileStmts[sql]
		if !ok {
			st = mustParse(sql)
			c07FileStmts[sql] = st
		}
		if _, err = env.Proc.Execute(ctx, st); err != nil {
			return nil, err, nil
		}
		if vs := env.Tx.SelectedViews; len(vs) != 1 {
			return nil, fmt.Errorf("harness: %d result tables", len(vs)), nil
		} else {
			return drv.Rows(vs[0]), nil, nil
		}
	}
	exec = func(sql string) (rows [][]rv.V, err error, pn any) {
		for attempt := 0; attempt < 3; attempt++ {
			rows, err, pn = exec1(sql)
			if pn != nil || err == nil || drv.ErrCode(err) != query.ReturnCodeContextDone {
				break
			}
		}
		return
	}
	var done int64
	for _, q := range qs {
		out, err, pn := exec(q.SQL())
		if pn == nil && err != nil && drv.ErrCode(err) == query.ReturnCodeContextDone {
			c.Incomplete("file seam: a lock wait deadline passed three times (overloaded machine); that table's remaining queries were skipped")
			break
		}
		done++
		if c07Judge(c, "file", "file", tbl, q, out, err, pn, exec) {
			nt++
			c07MaybeSample(c, "file", "file", tbl, q, out)
		}
	}
	c.EvalN(done, nt)
	c.Add("tables", 1)
}

func c07File(c *core.Ctx, plan c07Plan, base *int64) {
	dir := core.Scratch("c07file")
	qs := c07FileQueries()
	for _, p := range plan.filePairs {
		c.Info("file tables "+p.Name, fmt.Sprintf("k1 in %v, k2 in %v, all row sequences of 0..%d rows, %d queries each", p.K1, p.K2, p.MaxRows, len(qs)))
		cut := false
		var count int64
		c07Tables(p.K1, p.K2, p.MaxRows, func(idx int64, tbl []ordref.Row) bool {
			count = idx + 1
			if !c.Mine(*base + idx) {
				return true
			}
			if c.Expired() {
				c.Incomplete("time budget reached in family file (" + p.Name + ")")
				cut = true
				return false
			}
			c07RunFileTable(c, dir, tbl, qs)
			return true
		})
		*base += count
		if cut {
			return
		}
	}
}

// --- family nan: NaN among the numbers. The manual does not say where NaN sorts, so only the rows whose
// key is not NaN are judged: they must be a correctly sorted sub-sequence, whatever csvq does with the NaN rows.

var c07NaN = []rv.V{rv.N(), rv.I(1), rv.I(2), rv.Fl(1.5), rv.Fl(math.NaN())}

func c07NaNJudge(c *core.Ctx, tbl []ordref.Row, q c07Query, out [][]rv.V, err error, pn any) bool {
	where := func() string { return fmt.Sprintf("%s on view table %s", q.SQL(), c07RowsText(tbl)) }
	payload := func() c07Payload {
		p := c07Payload{Family: "nan", Seam: "view", Query: q, SQL: q.SQL()}
		for _, r := range tbl {
			p.Rows = append(p.Rows, []string{r.V[0].Key(), r.V[1].Key()})
		}
		return p
	}
	if pn != nil || err != nil {
		c.Violate("nan:"+c07FatalSig(fmt.Errorf("%v", err), pn), fmt.Sprintf("%s: csvq fails: %v %v", where(), firstLine(err), pn), payload())
		return true
	}
	// SameValue treats NaN as equal to NaN
	got, ok := c07Match(out, tbl)
	if !ok || len(got) != len(tbl) {
		c.Violate("nan:rows:not-a-permutation", fmt.Sprintf("%s: output %s is not a permutation of the input", where(), drv.RowsKey(out)), payload())
		return true
	}
	var plain []ordref.Row
	nans := 0
	for _, r := range got {
		if r.V[0].K == rv.Float && math.IsNaN(r.V[0].F) {
			nans++
			continue
		}
		plain = append(plain, r)
	}
	if _, i, _, found := c07Inversion(plain, q.Keys); found {
		c.Violate("nan:sort:inversion-among-the-other-rows",
			fmt.Sprintf("%s: output %s has row #%d before row #%d although neither key is NaN and the order item puts it after",
				where(), c07RowsText(got), plain[i].ID, plain[i+1].ID), payload())
	}
	return nans > 0 && len(plain) >= 2
}

func c07NaNFamily(c *core.Ctx, r *c07Runner, maxRows int, base *int64) bool {
	var queries []c07Query
	for _, kl := range c07KeyLists() {
		if len(kl) == 1 && kl[0].Col == 0 {
			queries = append(queries, c07Query{Keys: kl})
		}
	}
	c.Info("nan tables", fmt.Sprintf("k1 in %v, k2 = 'a', all row sequences of 0..%d rows, %d single-item queries each; only rows without NaN are judged", c07NaN, maxRows, len(queries)))
	ok := true
	var count int64
	c07Tables(c07NaN, []rv.V{rv.S("a")}, maxRows, func(idx int64, tbl []ordref.Row) bool {
		count = idx + 1
		if !c.Mine(*base + idx) {
			return true
		}
		if c.Expired() {
			c.Incomplete("time budget reached in family nan")
			ok = false
			return false
		}
		r.load(tbl)
		var nt int64
		for _, q := range queries {
			out, err, pn := r.query(q.SQL())
			if c07NaNJudge(c, tbl, q, out, err, pn) {
				nt++
			}
		}
		c.EvalN(int64(len(queries)), nt)
		c.Add("tables", 1)
		return true
	})
	*base += count
	return ok
}

// ---- replay ---------------------------------------------------------------------------------------

// c07MoreReplays: the replay functions of the families in the other c07_*.go files (each recognises its own payload).
var c07MoreReplays []func(c *core.Ctx, payload json.RawMessage) bool

func c07Replay(c *core.Ctx, payload json.RawMessage) {
	if c07CustomReplay(c, payload) {
		return
	}
	for _, f := range c07MoreReplays {
		if f(c, payload) {
			return
		}
	}
	var p c07Payload
	if err := json.Unmarshal(payload, &p); err != nil {
		fmt.Println("bad payload:", err)
		return
	}
	vals := c07AllValues()
	tbl := make([]ordref.Row, len(p.Rows))
	for i, r := range p.Rows {
		row := ordref.Row{ID: i}
		for _, k := range r {
			v, ok := vals[k]
			if !ok {
				fmt.Println("replay: unknown value", k)
				return
			}
			row.V = append(row.V, v)
		}
		tbl[i] = row
	}
	if p.Query.SQL() != p.SQL {
		fmt.Printf("replay: the query renders as %q, recorded %q\n", p.Query.SQL(), p.SQL)
	}
	fmt.Printf("replaying %s on %s table %s\n", p.Query.SQL(), p.Seam, c07RowsText(tbl))
	if p.Seam == "file" {
		c07RunFileTable(c, core.Scratch("c07file"), tbl, []c07Query{p.Query})
		return
	}
	r := newC07Runner(core.Scratch("c07"))
	defer r.close()
	r.load(tbl)
	out, err, pn := r.query(p.Query.SQL())
	text := drv.RowsKey(out)
	if len(text) > 600 {
		text = text[:600] + "..."
	}
	fmt.Printf("csvq: rows %s err %v panic %v\n", text, firstLine(err), pn)
	if p.Family == "nan" {
		c07NaNJudge(c, tbl, p.Query, out, err, pn)
		return
	}
	c07Judge(c, p.Family, "view", tbl, p.Query, out, err, pn, r.query)
}
