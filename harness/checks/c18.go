package checks

import (
	"context"
	"encoding/json"
	"fmt"
	"hash/fnv"
	"reflect"
	"runtime/debug"
	"strconv"
	"strings"
	"sync/atomic"
	"time"
	"unicode"
	"unicode/utf8"

	"github.com/mithrandie/csvq/lib/parser"
	"github.com/mithrandie/csvq/lib/query"
	"github.com/mithrandie/csvq/lib/value"

	"verif/harness/internal/core"
	"verif/harness/internal/drv"
	"verif/harness/internal/lexref"
)

// C18 — the parser is total; printed queries re-parse to the same query.
//
// Every case is one (program text, quoting mode, prepared-statement mode). Families of texts:
//   chars   all strings over c18Chars up to a length bound, bare and behind "SELECT " / "SELECT 1 "
//   tokens  all sequences over c18Tokens up to a length bound, bare and behind "SELECT"
//   lit     all enclosed bodies over c18Body up to a length bound, in ' " ` and @%` enclosures
//   val     all character strings over c18ValueRunes spelled per the manual (doubling / backslash), with the
//           manual's meaning of the literal as reference
//   expr    expression templates x atoms, operator pairs and triples with/without parentheses, prefix chains
//   stmt    SELECT clause combinations (LIMIT/OFFSET/FETCH product, joins, set operators, WITH) and other
//           statements carrying expressions
// Oracle per case: parser.Parse returns (a panic is recovered and reported with the input, a hang is reported by
// a watchdog); an error is a *parser.SyntaxError whose position passes lexref.CheckPos; every statement that parsed
// is printed (String()), the print parses again in the same mode to one statement that prints identically, has the
// same tree (positions and documented case-insensitive names aside) and, when it needs no table, evaluates to the
// same header and value as the original tree.

func init() {
	core.Register(&core.Check{
		ID:    "C18",
		Level: "exploration",
		Rule: "one case = one (program text, ansi-quotes on/off, prepared-statement mode on/off); texts are enumerated without repetition inside a family " +
			"(all strings over a 36-symbol character alphabet, all sequences over a 72-token alphabet, all enclosed literal bodies and all manual-spelled literals " +
			"over escaping alphabets, expression and statement templates over atom alphabets); non-trivial = the text parsed to at least one statement, " +
			"so the print/re-parse/evaluate half of the property was exercised on it",
		Assume: []string{
			"bounds quick: strings <= 4 over 32 characters in 3 contexts, token sequences <= 3 over 72 tokens in 2 contexts, literal bodies <= 5 over 10 symbols in 7 enclosures, spelled values <= 4 over 13 runes; " +
				"thorough: strings <= 4 over 36 characters plus length 5 over 32 (bare), token sequences <= 3 plus length 4 over the 48 most structural tokens, bodies <= 5 in all modes plus length 6 in two enclosures, spelled values <= 5",
			"a text of the greatest length of its family that holds none of the characters \" ? : is run in the default mode only; that such texts come out the same in all four modes is checked on every shorter text (counter mode_insensitivity_verified_texts)",
			"line breaks are LF, CR LF or a bare CR (csvq's reading, the manual is silent); CR LF inside a literal means LF",
			"evaluation is compared only for SELECT without FROM/INTO and with built-in deterministic functions; TZ=UTC; variables @a=1 @b='x' predeclared; where it is not compared the re-parsed tree must equal the original (positions and documented case-insensitive names aside)",
			"termination is observed by a per-case watchdog (45 s of CPU time or 1.5 GiB of memory without finishing), not proved; round trips already seen are remembered by 64-bit hashes",
		},
		Run:            c18Run,
		Replay:         c18Replay,
		QuickBudget:    240 * time.Second,
		ThoroughBudget: 9 * time.Minute,
	})
}

// ---- alphabets ---------------------------------------------------------------------------------------

var c18Chars = []string{
	"a", "e", "1", ".", "+", "-", "*", "/", "%", "(", ")", ",", ";", ":", "=", "<", "!", "|",
	"'", "\"", "`", "\\", "@", "#", "$", "{", "}", "?", " ", "\n", "\r", "é",
	">", "_", "\x00", "\xff", // thorough only (up to length 4)
}

const c18CharsQuick = 32

var c18CharContexts = []string{"", "SELECT ", "SELECT 1 "}

var c18Tokens = []string{
	// the first c18TokensDeep tokens also form the sequences of length 4 (thorough)
	"SELECT", "FROM", "WHERE", "ORDER", "BY", "LIMIT", "OFFSET", "AS", "DISTINCT", "ALL", "UNION", "JOIN", "ON", "NOT", "AND", "IS", "NULL", "TRUE",
	"IN", "BETWEEN", "LIKE", "CASE", "WHEN", "THEN", "END", "EXISTS", "COUNT", "OVER", "ROWS",
	"(", ")", ",", ";", "*", "+", "-", "=", "||", "!", ":=", ".", "a", "1", "'s'", "\"q\"", "`i`", "@v", "?",
	"GROUP", "HAVING", "FETCH", "OR", "ELSE", "ANY", "WITH", "VAR", "IF", "INTO", "VALUES", "SET", "DUAL",
	"/", "%", "<", "t", "1.5", "@@f", "@%e", "@#i", ":n", "a::b", "--",
}

const c18TokensDeep = 48

var c18TokenContexts = []string{"", "SELECT "}

// bodies of enclosed literals (family lit)
var c18Body = []string{"'", "\"", "`", "\\", "a", "n", "\n", "\r", "é", "-"}

// character strings spelled per the manual (family val)
var c18ValueRunes = []string{"'", "\"", "`", "\\", "a", "n", "\n", "\r", "é", "\t", "\x00", "-", "*"}

type c18Mode struct{ Prep, Ansi bool }

var c18Modes = []c18Mode{{false, false}, {false, true}, {true, false}, {true, true}}

func (m c18Mode) String() string { return fmt.Sprintf("prepared=%v ansi_quotes=%v", m.Prep, m.Ansi) }
func (m c18Mode) key() byte {
	k := byte('0')
	if m.Prep {
		k++
	}
	if m.Ansi {
		k += 2
	}
	return k
}

// ---- payload -----------------------------------------------------------------------------------------

type c18Payload struct {
	Family string  `json:"family"`
	Input  []byte  `json:"input"` // raw bytes (base64 in JSON: texts may hold invalid UTF-8)
	Shown  string  `json:"shown"` // Go-quoted form for the reader
	Prep   bool    `json:"prepared"`
	Ansi   bool    `json:"ansi_quotes"`
	Want   *string `json:"want,omitempty"`      // family val: the meaning of the literal per the manual
	Kind   string  `json:"want_kind,omitempty"` // "string" | "identifier" | "envvar"
}

// ---- per worker state --------------------------------------------------------------------------------

type c18RT struct { // what a printed text (per mode) parsed back to, when it came back as the same text
	shape uint64 // hash of the reparsed tree
	ev    uint64 // hash of its evaluation
	hasEv bool
}

type c18Eval struct {
	ok     bool // executed without error
	code   int  // csvq error code when !ok
	panic  bool
	header string
	rows   string
}

type c18State struct {
	c                         *core.Ctx
	env                       *drv.Env
	ctx                       context.Context
	rt                        map[uint64]c18RT
	evalSeen                  map[uint64]uint64
	stopped                   atomic.Bool
	inflight                  atomic.Pointer[c18Payload]
	ticks                     atomic.Int64
	nCases                    int64
	skippedModes, modeChecked int64
	total                     int64
	nParsed                   int64
}

func newC18State(c *core.Ctx) *c18State {
	s := &c18State{c: c, rt: map[uint64]c18RT{}, evalSeen: map[uint64]uint64{}}
	s.newEnv()
	return s
}

func (s *c18State) newEnv() {
	if s.env != nil {
		s.env.Close()
	}
	s.env = drv.New(core.Scratch("c18"))
	s.ctx = query.ContextForStoringResults(s.env.Ctx)
}

func (s *c18State) flush() {
	s.c.EvalN(s.nCases, s.nParsed)
	s.total += s.nCases
	s.c.Add("mode_runs_skipped_for_insensitive_texts", s.skippedModes)
	s.c.Add("mode_insensitivity_verified_texts", s.modeChecked)
	s.skippedModes, s.modeChecked = 0, 0
	s.nCases, s.nParsed = 0, 0
}

// ---- run / replay ------------------------------------------------------------------------------------

// c18Guard runs f on its own goroutine and reports a case that does not finish as a hang: no case completed while
// this process burnt 45 s of CPU time, or while its resident memory passed 1.5 GiB (a scanner that never reaches the
// end of the text fills its buffer at hundreds of MB per second; the longest text here has a few dozen bytes).
// No progress without CPU use (a blocked machine) for 10 minutes only ends the shard as not covered.
func c18Guard(s *c18State, f func()) {
	done := make(chan struct{})
	go func() {
		defer close(done)
		f()
	}()
	last := int64(-1)
	cpuAt, wallAt := core.ProcessCPU(), time.Now()
	t := time.NewTicker(200 * time.Millisecond)
	defer t.Stop()
	for {
		select {
		case <-done:
			return
		case <-t.C:
			now := s.ticks.Load()
			p := s.inflight.Load()
			if now != last || p == nil {
				last = now
				cpuAt, wallAt = core.ProcessCPU(), time.Now()
				continue
			}
			cpu := core.ProcessCPU() - cpuAt
			rss := core.ProcessRSS()
			switch {
			case cpu >= 45*time.Second:
				s.c.Violate("hang:no-progress-for-45s-cpu", fmt.Sprintf("the case %s [%s] did not finish while the process used %.0f s of CPU time (parser or evaluation does not terminate)",
					p.Shown, c18Mode{p.Prep, p.Ansi}, cpu.Seconds()), p)
			case rss > 3<<29:
				s.c.Violate("hang:runaway-memory", fmt.Sprintf("the case %s [%s] did not finish and the process grew to %d MiB (parser or evaluation does not terminate)",
					p.Shown, c18Mode{p.Prep, p.Ansi}, rss>>20), p)
			case time.Since(wallAt) > 10*time.Minute:
			default:
				continue
			}
			s.c.Incomplete("a case did not finish; this worker stopped its shard there")
			s.stopped.Store(true)
			return
		}
	}
}

func c18Run(c *core.Ctx) {
	debug.SetGCPercent(400) // every parse allocates a 20 kB parser stack; the live heap is small
	debug.SetMemoryLimit(640 << 20)
	t00 := time.Now()
	s := newC18State(c)
	defer func() {
		if !s.stopped.Load() {
			s.env.Close()
		}
	}()
	c18Guard(s, func() {
		fams := []func(*c18State) bool{c18FamExpr, c18FamStmt, c18FamVal, c18FamLit, c18FamRunes, c18FamTokens, c18FamChars}
		names := []string{"expr", "stmt", "val", "lit", "runes", "tokens", "chars"}
		for i, f := range fams {
			t0 := time.Now()
			before := s.total
			ok := f(s)
			s.flush()
			c.Add("cases_"+names[i], s.total-before)
			c.Add("worker_ms_"+names[i], time.Since(t0).Milliseconds())
			if !ok {
				return
			}
		}
	})
	c.Max("max_worker_ms", time.Since(t00).Milliseconds())
	c.Info("char_alphabet", len(c18Chars))
	c.Info("token_alphabet", len(c18Tokens))
}

func c18Replay(c *core.Ctx, payload json.RawMessage) {
	if c18LongReplay(c, payload) || c18HistReplay(c, payload) {
		return
	}
	var p c18Payload
	if err := json.Unmarshal(payload, &p); err != nil {
		fmt.Println("bad payload:", err)
		return
	}
	fmt.Printf("replaying family %s: %s [%s]\n", p.Family, p.Shown, c18Mode{p.Prep, p.Ansi})
	s := newC18State(c)
	defer func() { s.env.Close() }()
	c18Guard(s, func() {
		s.doCase(p.Family, string(p.Input), c18Mode{p.Prep, p.Ansi}, p.Want, p.Kind, false)
		s.flush()
	})
}

// violate records a violation unless the watchdog has already given this worker up (its environment is closed then).
func (s *c18State) violate(sig, msg string, payload any) {
	if !s.stopped.Load() {
		s.c.Violate(sig, msg, payload)
	}
}

func (s *c18State) expired(what string) bool {
	if s.stopped.Load() {
		return true
	}
	if s.c.Expired() {
		s.c.Incomplete("time budget reached in family " + what)
		return true
	}
	return false
}

// ---- one case ----------------------------------------------------------------------------------------

func c18Parse(in string, m c18Mode) (st []parser.Statement, err error, pan any) {
	defer func() {
		if r := recover(); r != nil {
			pan = r
		}
	}()
	st, _, err = parser.Parse(in, "", m.Prep, m.Ansi)
	return
}

func c18Show(in string) string {
	if len(in) > 300 {
		in = in[:300] + "…"
	}
	return strconv.Quote(in)
}

func (s *c18State) payload(fam, in string, m c18Mode, want *string, kind string) *c18Payload {
	return &c18Payload{Family: fam, Input: []byte(in), Shown: c18Show(in), Prep: m.Prep, Ansi: m.Ansi, Want: want, Kind: kind}
}

// doCase checks one (text, mode); all four modes are driven by the callers.
// The result is what the caller compares across modes: the error with its position, or the tree.
func (s *c18State) doCase(fam, in string, m c18Mode, want *string, kind string, wantOutcome bool) (outcome string) {
	if s.stopped.Load() {
		return "stopped"
	}
	p := s.payload(fam, in, m, want, kind)
	s.inflight.Store(p)
	s.ticks.Add(1)
	defer s.inflight.Store(nil)
	s.nCases++
	c := s.c

	st, err, pan := c18Parse(in, m)
	if pan != nil {
		s.violate("panic:parser.Parse", fmt.Sprintf("parser.Parse(%s) [%s] panicked: %v", p.Shown, m, pan), p)
		return "panic"
	}
	if err != nil {
		c.Add("syntax_errors", 1)
		se, ok := err.(*parser.SyntaxError)
		if !ok {
			s.violate("error:not-a-syntax-error", fmt.Sprintf("parser.Parse(%s) [%s] returned a %T: %v", p.Shown, m, err, err), p)
			return "error"
		}
		atEnd := strings.HasSuffix(se.Message, "unexpected termination")
		if why := lexref.CheckPos(in, se.Line, se.Char, atEnd); why != "" {
			s.violate("errpos:"+why, fmt.Sprintf("parser.Parse(%s) [%s]: error %q reported at line %d, column %d; the text has %d line(s) — %s",
				p.Shown, m, se.Message, se.Line, se.Char, len(lexref.Lines(in)), why), p)
		}
		if want != nil {
			s.violate("literal:"+kind+":rejected", fmt.Sprintf("%s [%s] spells the %s %q as the manual describes, csvq answers: %s", p.Shown, m, kind, *want, se.Message), p)
		}
		if wantOutcome {
			outcome = fmt.Sprintf("E%d:%d:%s", se.Line, se.Char, se.Message)
		}
		return
	}
	c.Add("parsed_ok", 1)
	if wantOutcome {
		outcome = "O" + c18ShapeOf(st)
	}
	if len(st) == 0 {
		return
	}
	s.nParsed++
	if want != nil {
		s.checkLiteral(p, st, *want, kind)
	}
	for _, one := range st {
		s.roundTripStatement(p, one, m)
	}
	if c.WantSample() && len(st) == 1 && len(in) > 8 && s.nParsed%97 == 1 {
		if q, ok := st[0].(parser.QueryExpression); ok {
			c.Sample(map[string]any{"family": fam, "input": p.Shown, "mode": m.String(), "printed": q.String()})
		}
	}
	return
}

// checkLiteral: family val — the literal must mean the character string it was spelled from.
func (s *c18State) checkLiteral(p *c18Payload, st []parser.Statement, want, kind string) {
	got, found := "", false
	if len(st) == 1 {
		if q, ok := st[0].(parser.SelectQuery); ok {
			if se, ok := q.SelectEntity.(parser.SelectEntity); ok {
				if sc, ok := se.SelectClause.(parser.SelectClause); ok && len(sc.Fields) == 1 {
					if f, ok := sc.Fields[0].(parser.Field); ok {
						switch kind {
						case "string":
							if pt, ok := f.Object.(parser.PrimitiveType); ok {
								if sv, ok := pt.Value.(*value.String); ok {
									got, found = sv.Raw(), true
									if pt.Literal != sv.Raw() {
										found = false
									}
								}
							}
						case "identifier":
							if fr, ok := f.Object.(parser.FieldReference); ok {
								if id, ok := fr.Column.(parser.Identifier); ok && id.Quoted {
									got, found = id.Literal, true
								}
							}
						case "envvar":
							if ev, ok := f.Object.(parser.EnvironmentVariable); ok && ev.Quoted {
								got, found = ev.Name, true
							}
						}
					}
				}
			}
		}
	}
	if !found || got != want {
		s.violate("literal:"+kind+":meaning", fmt.Sprintf("%s [%s] spells the %s %q as the manual describes; csvq reads %q (recognised as %s: %v)",
			p.Shown, c18Mode{p.Prep, p.Ansi}, kind, want, got, kind, found), p)
	}
}

// ---- round trip --------------------------------------------------------------------------------------

// the node types that can stand alone behind SELECT
var c18ValueTypes = map[string]bool{
	"PrimitiveType": true, "Placeholder": true, "FieldReference": true, "ColumnNumber": true, "Parentheses": true, "Subquery": true,
	"Comparison": true, "Is": true, "Between": true, "In": true, "All": true, "Any": true, "Like": true, "Exists": true,
	"Arithmetic": true, "UnaryArithmetic": true, "Logic": true, "UnaryLogic": true, "Concat": true, "Function": true,
	"AggregateFunction": true, "CaseExpr": true, "ListFunction": true, "AnalyticFunction": true, "Variable": true,
	"VariableSubstitution": true, "EnvironmentVariable": true, "RuntimeInformation": true, "Flag": true, "Constant": true,
	"CursorStatus": true, "CursorAttrebute": true,
}

var c18QEType = reflect.TypeOf((*parser.QueryExpression)(nil)).Elem()

// c18Children collects the outermost value / SELECT nodes strictly below v.
func c18Children(v reflect.Value, top bool, out *[]parser.QueryExpression) {
	switch v.Kind() {
	case reflect.Interface, reflect.Ptr:
		if v.IsNil() {
			return
		}
		if v.Kind() == reflect.Ptr {
			if _, ok := v.Interface().(value.Primary); ok {
				return
			}
			if _, ok := v.Interface().(*parser.BaseExpr); ok {
				return
			}
		}
		c18Children(v.Elem(), top, out)
	case reflect.Struct:
		t := v.Type()
		if !top && t.PkgPath() == "github.com/mithrandie/csvq/lib/parser" {
			if sq, isq := v.Interface().(parser.SelectQuery); isq && sq.SelectEntity == nil {
				return // the zero query of DECLARE c CURSOR FOR statement_name
			}
			if t.Name() == "SelectQuery" || c18ValueTypes[t.Name()] && c18IsValue(v.Interface()) {
				if fr, ok := v.Interface().(parser.FieldReference); ok {
					if _, star := fr.Column.(parser.AllColumns); star {
						return
					}
				}
				if q, ok := v.Interface().(parser.QueryExpression); ok {
					*out = append(*out, q)
					return
				}
			}
		}
		if t == reflect.TypeOf(parser.Token{}) {
			return
		}
		for i := 0; i < v.NumField(); i++ {
			if t.Field(i).PkgPath != "" { // unexported
				continue
			}
			c18Children(v.Field(i), false, out)
		}
	case reflect.Slice:
		for i := 0; i < v.Len(); i++ {
			c18Children(v.Index(i), false, out)
		}
	}
}

// c18IsValue: parentheses are a value only around a value (they also enclose tables and joins).
func c18IsValue(x any) bool {
	for {
		p, ok := x.(parser.Parentheses)
		if !ok {
			break
		}
		x = p.Expr
	}
	return c18ValueTypes[c18TypeName(x)]
}

func c18TypeName(x any) string {
	t := reflect.TypeOf(x)
	if t == nil {
		return "nil"
	}
	return t.Name()
}

// c18Text is the program text of a node: a SELECT query and a top-level statement stand alone, a value goes behind SELECT.
func c18Text(q parser.QueryExpression, standalone bool) string {
	if _, ok := q.(parser.SelectQuery); ok || standalone {
		return q.String()
	}
	return "SELECT " + q.String()
}

// c18Tree gives the node the text is expected to parse back to: the statement itself, or the one field behind SELECT.
func c18Unwrap(st parser.Statement, wrapped bool) (parser.QueryExpression, bool) {
	q, ok := st.(parser.QueryExpression)
	if !ok {
		return nil, false
	}
	if !wrapped {
		return q, true
	}
	sq, ok := q.(parser.SelectQuery)
	if !ok || sq.WithClause != nil || sq.OrderByClause != nil || sq.LimitClause != nil || !sq.Context.IsEmpty() {
		return nil, false
	}
	se, ok := sq.SelectEntity.(parser.SelectEntity)
	if !ok || se.IntoClause != nil || se.FromClause != nil || se.WhereClause != nil || se.GroupByClause != nil || se.HavingClause != nil {
		return nil, false
	}
	sc, ok := se.SelectClause.(parser.SelectClause)
	if !ok || sc.IsDistinct() || len(sc.Fields) != 1 {
		return nil, false
	}
	f, ok := sc.Fields[0].(parser.Field)
	if !ok || f.Alias != nil || !f.As.IsEmpty() {
		return nil, false
	}
	return f.Object, true
}

type c18Fail struct {
	kind string // text (the print does not parse back to a tree that prints the same) | tree:<where> | value
	msg  string
}

// roundTripNode checks one node. standalone: the node was a statement of its own.
func (s *c18State) roundTripNode(q parser.QueryExpression, standalone bool, m c18Mode) *c18Fail {
	_, isSel := q.(parser.SelectQuery)
	wrapped := !standalone && !isSel
	s1 := c18Text(q, standalone)
	shape1 := c18ShapeOf(q)
	h1 := c18Hash(shape1)
	evaluable := !wrapped && isSel && c18Evaluable(q)
	wk := byte('s')
	if wrapped {
		wk = 'w'
	}
	key := c18Hash(string([]byte{m.key(), wk}) + s1)
	s.c.Add("roundtrips", 1)
	r, ok := s.rt[key]
	if !ok {
		// parse the print; only a print that comes back as the same text is remembered (by hashes)
		s.c.Add("distinct_printed_texts", 1)
		st2, err, pan := c18Parse(s1, m)
		switch {
		case pan != nil:
			return &c18Fail{"text", fmt.Sprintf("parsing the printed text panics: %v", pan)}
		case err != nil:
			return &c18Fail{"text", "the printed text does not parse: " + err.Error()}
		case len(st2) != 1:
			return &c18Fail{"text", fmt.Sprintf("the printed text parses to %d statements instead of one", len(st2))}
		}
		q2, ok := c18Unwrap(st2[0], wrapped)
		if !ok {
			return &c18Fail{"text", fmt.Sprintf("the printed text parses to a %s that is not the printed node alone", c18TypeName(st2[0]))}
		}
		if s2 := c18Text(q2, standalone); s2 != s1 {
			return &c18Fail{"text", fmt.Sprintf("the printed text parses to a tree that prints as %s", c18Show(s2))}
		}
		shape2 := c18ShapeOf(q2)
		r.shape = c18Hash(shape2)
		if r.shape != h1 {
			return &c18Fail{"tree:" + c18ShapeDiff(shape1, shape2), fmt.Sprintf("the printed text parses to a different tree:\n  original %s\n  reparsed %s", shape1, shape2)}
		}
		if _, sel2 := q2.(parser.SelectQuery); sel2 && !wrapped && c18Evaluable(q2) {
			r.ev = c18Hash(s.eval(st2[0]).describe())
			r.hasEv = true
		}
		if len(s.rt) < 1000000 {
			s.rt[key] = r
		}
	}
	if r.shape != h1 {
		// same print, different tree than the one remembered: rebuild the reparsed shape for the message
		shape2 := "?"
		if st2, err, _ := c18Parse(s1, m); err == nil && len(st2) == 1 {
			if q2, ok := c18Unwrap(st2[0], wrapped); ok {
				shape2 = c18ShapeOf(q2)
			}
		}
		return &c18Fail{"tree:" + c18ShapeDiff(shape1, shape2), fmt.Sprintf("the printed text parses to a different tree:\n  original %s\n  reparsed %s", shape1, shape2)}
	}
	if evaluable && r.hasEv {
		ek := c18Hash(string([]byte{m.key()}) + shape1)
		e1, ok := s.evalSeen[ek]
		if !ok {
			e1 = c18Hash(s.eval(q).describe())
			if len(s.evalSeen) < 1000000 {
				s.evalSeen[ek] = e1
			}
			s.c.Add("evaluated_pairs", 1)
		}
		if e1 != r.ev {
			d2 := "?"
			if st2, err, _ := c18Parse(s1, m); err == nil && len(st2) == 1 {
				d2 = s.eval(st2[0]).describe()
			}
			return &c18Fail{"value", fmt.Sprintf("the original evaluates to %s, the re-parsed print to %s", s.eval(q).describe(), d2)}
		}
	}
	return nil
}

func c18Hash(x string) uint64 {
	h := fnv.New64a()
	h.Write([]byte(x))
	return h.Sum64()
}

func (e *c18Eval) describe() string {
	switch {
	case e.panic:
		return "a panic"
	case !e.ok:
		return fmt.Sprintf("an error (code %d)", e.code)
	}
	return fmt.Sprintf("header %s rows %s", e.header, e.rows)
}

// roundTripStatement checks every printable part of one parsed statement.
func (s *c18State) roundTripStatement(p *c18Payload, st parser.Statement, m c18Mode) {
	var nodes []parser.QueryExpression
	standalone := false
	if q, ok := st.(parser.QueryExpression); ok {
		nodes, standalone = []parser.QueryExpression{q}, true
	} else {
		c18Children(reflect.ValueOf(st), true, &nodes)
	}
	for _, q := range nodes {
		f := s.roundTripNode(q, standalone, m)
		if f == nil {
			continue
		}
		// blame the innermost node that fails on its own
		culprit, cf, path := q, f, c18TypeName(q)
		for depth := 0; depth < 40; depth++ {
			var kids []parser.QueryExpression
			c18Children(reflect.ValueOf(culprit), true, &kids)
			found := false
			for _, k := range kids {
				if kf := s.roundTripNode(k, false, m); kf != nil {
					culprit, cf, found = k, kf, true
					path += ">" + c18TypeName(k)
					break
				}
			}
			if !found {
				break
			}
		}
		desc := c18Describe(culprit)
		sig := "roundtrip:" + cf.kind + ":" + desc
		if strings.HasSuffix(desc, "[name-needs-enclosure]") {
			// one class whether the bare name fails to parse or parses to another kind of call
			sig = "roundtrip:text:" + desc
		} else if c18URLBeforeDelimiter(culprit, m) {
			// one class whatever node holds the URL and whether the print is rejected or read as another URL
			sig = "roundtrip:text:Url[separator-follows]"
		}
		s.violate(sig, fmt.Sprintf("%s [%s] parses; the %s node prints as %s; %s (found in statement %s, path %s)",
			p.Shown, m, c18TypeName(culprit), c18Show(c18Text(culprit, false)), cf.msg, c18TypeName(st), path), p)
	}
}

// c18Describe names the class of a node for signatures: its type, its operator if it has one, and for operator nodes
// the classes of the operands one level down.
func c18Describe(q parser.QueryExpression) string {
	op := func(t parser.Token) string { return strings.ToUpper(t.String()) }
	short := func(x parser.QueryExpression) string {
		switch n := x.(type) {
		case parser.UnaryArithmetic:
			return "UnaryArithmetic[" + op(n.Operator) + "]"
		case parser.UnaryLogic:
			return "UnaryLogic[" + op(n.Operator) + "]"
		case parser.Arithmetic:
			return "Arithmetic[" + op(n.Operator) + "]"
		case parser.Logic:
			return "Logic[" + op(n.Operator) + "]"
		case parser.Comparison:
			return "Comparison[" + op(n.Operator) + "]"
		case parser.PrimitiveType:
			return "PrimitiveType[" + strings.TrimPrefix(fmt.Sprintf("%T", n.Value), "*value.") + "]"
		case parser.Placeholder:
			if n.Name == "" {
				return "Placeholder[positional]"
			}
			return "Placeholder[named]"
		case parser.Identifier:
			return fmt.Sprintf("Identifier[quoted=%v]", n.Quoted)
		case parser.AnalyticFunction:
			if !n.IgnoreType.IsEmpty() {
				return "AnalyticFunction[IGNORE " + op(n.IgnoreType) + "]"
			}
			if !c18PlainName(n.Name, n) {
				return "AnalyticFunction[name-needs-enclosure]"
			}
		case parser.Function:
			if !c18PlainName(n.Name, n) {
				return "Function[name-needs-enclosure]"
			}
		case parser.AggregateFunction:
			if !c18PlainName(n.Name, n) {
				return "AggregateFunction[name-needs-enclosure]"
			}
		}
		return c18TypeName(x)
	}
	switch n := q.(type) {
	case parser.UnaryArithmetic:
		return short(q) + "(" + short(n.Operand) + ")"
	case parser.UnaryLogic:
		return short(q) + "(" + short(n.Operand) + ")"
	case parser.Arithmetic:
		return short(q) + "(" + short(n.LHS) + "," + short(n.RHS) + ")"
	case parser.SelectQuery:
		// name the clauses present, the values inside them were cleared by the blame walk
		parts := []string{}
		if se, ok := n.SelectEntity.(parser.SelectEntity); ok {
			if sc, ok := se.SelectClause.(parser.SelectClause); ok {
				for _, f := range sc.Fields {
					if fd, ok := f.(parser.Field); ok {
						if fr, ok := fd.Object.(parser.FieldReference); ok && fr.View.Literal == "" && fr.View.Quoted {
							if _, star := fr.Column.(parser.AllColumns); star {
								return "SelectQuery{field ``.*}"
							}
						}
					}
				}
			}
		}
		if n.WithClause != nil {
			parts = append(parts, "With")
		}
		parts = append(parts, c18TypeName(n.SelectEntity))
		if n.OrderByClause != nil {
			parts = append(parts, "OrderBy")
		}
		if lc, ok := n.LimitClause.(parser.LimitClause); ok {
			parts = append(parts, "Limit["+op(lc.Type)+"]")
		}
		if n.IsForUpdate() {
			parts = append(parts, "ForUpdate")
		}
		return "SelectQuery{" + strings.Join(parts, ",") + "}"
	}
	return short(q)
}

// c18PlainName: name can be written without enclosure — it scans as one word and a call spelled with the bare word
// parses to the same kind of node (`max`(1) is a user function, max(1) the aggregate).
func c18PlainName(name string, as any) bool {
	for i, r := range name {
		if !(r == '_' || unicode.IsLetter(r) || (i > 0 && unicode.IsDigit(r))) {
			return false
		}
	}
	if name == "" {
		return false
	}
	for _, call := range []string{"(1)", "(1) OVER ()", "() OVER ()"} {
		st, err, pan := c18Parse(name+call, c18Modes[0])
		if err != nil || pan != nil || len(st) != 1 {
			continue
		}
		if reflect.TypeOf(st[0]) == reflect.TypeOf(as) {
			return true
		}
	}
	return false
}

// ---- tree shape --------------------------------------------------------------------------------------

// names the manual declares case-insensitive and csvq prints in upper case
var c18UpperFields = map[string]bool{
	"Function.Name": true, "AggregateFunction.Name": true, "ListFunction.Name": true, "AnalyticFunction.Name": true, "TableFunction.Name": true,
	"Constant.Space": true, "Constant.Name": true, "RuntimeInformation.Name": true, "Flag.Name": true,
}

var c18TokenType = reflect.TypeOf(parser.Token{})

func c18ShapeOf(x any) string {
	var sb strings.Builder
	c18Shape(&sb, reflect.ValueOf(x))
	return sb.String()
}

func c18Shape(sb *strings.Builder, v reflect.Value) {
	switch v.Kind() {
	case reflect.Invalid:
		sb.WriteString("nil")
	case reflect.Interface:
		if v.IsNil() {
			sb.WriteString("nil")
			return
		}
		c18Shape(sb, v.Elem())
	case reflect.Ptr:
		if v.IsNil() {
			sb.WriteString("nil")
			return
		}
		if p, ok := v.Interface().(value.Primary); ok {
			fmt.Fprintf(sb, "%s<%s>", strings.TrimPrefix(fmt.Sprintf("%T", p), "*value."), p.String())
			return
		}
		c18Shape(sb, v.Elem())
	case reflect.Struct:
		t := v.Type()
		if t == c18TokenType {
			tok := v.Interface().(parser.Token)
			switch {
			case tok.IsEmpty():
				sb.WriteString("_")
			default:
				if kw, err := parser.KeywordLiteral(tok.Token); err == nil {
					sb.WriteString(kw)
				} else {
					fmt.Fprintf(sb, "tok%d%q", tok.Token, tok.Literal)
				}
			}
			return
		}
		if fr, ok := v.Interface().(parser.FieldReference); ok && fr.View.Literal == "" {
			// an empty enclosed qualifier (``.a) is no qualifier to the evaluator and is not printed
			if _, star := fr.Column.(parser.AllColumns); !star {
				fr.View = parser.Identifier{}
				v = reflect.ValueOf(fr)
			}
		}
		sb.WriteString(t.Name())
		sb.WriteByte('{')
		for i := 0; i < v.NumField(); i++ {
			f := t.Field(i)
			if f.PkgPath != "" || f.Name == "BaseExpr" || (f.Name == "Ordinal" && t.Name() == "Placeholder") {
				continue // positions: line, column, file, and the running number of a placeholder
			}
			sb.WriteString(f.Name)
			sb.WriteByte(':')
			if f.Type.Kind() == reflect.String && c18UpperFields[t.Name()+"."+f.Name] {
				sb.WriteString(strconv.Quote(strings.ToUpper(v.Field(i).String())))
			} else {
				c18Shape(sb, v.Field(i))
			}
			sb.WriteByte(' ')
		}
		sb.WriteByte('}')
	case reflect.Slice:
		sb.WriteByte('[')
		for i := 0; i < v.Len(); i++ {
			c18Shape(sb, v.Index(i))
			sb.WriteByte(',')
		}
		sb.WriteByte(']')
	case reflect.String:
		sb.WriteString(strconv.Quote(v.String()))
	case reflect.Bool:
		sb.WriteString(strconv.FormatBool(v.Bool()))
	case reflect.Int, reflect.Int64:
		sb.WriteString(strconv.FormatInt(v.Int(), 10))
	default:
		fmt.Fprintf(sb, "?%s", v.Kind())
	}
}

// c18ShapeDiff names where two shapes first differ: the innermost "Type{" and "Field:" before the first differing byte.
func c18ShapeDiff(a, b string) string {
	i := 0
	for i < len(a) && i < len(b) && a[i] == b[i] {
		i++
	}
	pre := a[:i]
	if !strings.Contains(pre, ":") {
		return "root"
	}
	field, typ := "?", "?"
	if k := strings.LastIndexByte(pre, ':'); k >= 0 {
		j := k
		for j > 0 && (pre[j-1] >= 'A' && pre[j-1] <= 'Z' || pre[j-1] >= 'a' && pre[j-1] <= 'z') {
			j--
		}
		field = pre[j:k]
		// the type that owns the field: the nearest unclosed '{' before j
		depth := 0
		for x := j - 1; x >= 0; x-- {
			if pre[x] == '}' {
				depth++
			} else if pre[x] == '{' {
				if depth == 0 {
					y := x
					for y > 0 && (pre[y-1] >= 'A' && pre[y-1] <= 'Z' || pre[y-1] >= 'a' && pre[y-1] <= 'z') {
						y--
					}
					typ = pre[y:x]
					break
				}
				depth--
			}
		}
	}
	return typ + "." + field
}

// ---- evaluation --------------------------------------------------------------------------------------

var c18PureFunctions = map[string]bool{
	"UPPER": true, "LOWER": true, "COALESCE": true, "IF": true, "IFNULL": true, "NULLIF": true, "REPLACE": true, "SUBSTRING": true,
	"SUBSTR": true, "LEN": true, "TRIM": true, "ABS": true, "JSON_OBJECT": true, "STRING": true, "INTEGER": true, "FLOAT": true,
	"BOOLEAN": true, "TERNARY": true, "CEIL": true, "FLOOR": true, "BYTE_LEN": true, "LPAD": true, "INSTR": true,
}

// c18Evaluable: a SELECT that reads no table, writes no variable through INTO and calls only deterministic built-ins
// (or names too short to be a built-in with an effect).
func c18Evaluable(q parser.QueryExpression) bool {
	ok := true
	var walk func(v reflect.Value)
	walk = func(v reflect.Value) {
		if !ok {
			return
		}
		switch v.Kind() {
		case reflect.Interface, reflect.Ptr:
			if v.IsNil() {
				return
			}
			if v.Kind() == reflect.Ptr {
				if _, isP := v.Interface().(value.Primary); isP {
					return
				}
				if _, isB := v.Interface().(*parser.BaseExpr); isB {
					return
				}
			}
			walk(v.Elem())
		case reflect.Struct:
			t := v.Type()
			if t == c18TokenType {
				return
			}
			switch n := v.Interface().(type) {
			case parser.FromClause, parser.IntoClause, parser.EnvironmentVariable, parser.RuntimeInformation, parser.Flag,
				parser.TableFunction, parser.Url, parser.Stdin, parser.Placeholder:
				ok = false
				return
			case parser.Function:
				if !c18PureFunctions[strings.ToUpper(n.Name)] && utf8.RuneCountInString(n.Name) > 2 {
					ok = false
					return
				}
			case parser.SelectQuery:
				if n.IsForUpdate() {
					ok = false
					return
				}
			}
			for i := 0; i < v.NumField(); i++ {
				if t.Field(i).PkgPath == "" {
					walk(v.Field(i))
				}
			}
		case reflect.Slice:
			for i := 0; i < v.Len(); i++ {
				walk(v.Index(i))
			}
		}
	}
	walk(reflect.ValueOf(q))
	return ok
}

func (s *c18State) eval(st parser.Statement) (r *c18Eval) {
	r = &c18Eval{}
	s.env.SetVar("a", value.NewInteger(1))
	s.env.SetVar("b", value.NewString("x"))
	defer func() {
		if p := recover(); p != nil {
			r = &c18Eval{panic: true}
			s.newEnv()
		}
	}()
	_, err := s.env.Proc.Execute(s.ctx, []parser.Statement{st})
	if err != nil {
		r.code = drv.ErrCode(err)
		if drv.IsFatal(err) {
			r.code = -2
		}
		return r
	}
	vs := s.env.Tx.SelectedViews
	if len(vs) != 1 {
		r.code = -3
		return r
	}
	r.ok = true
	r.header = strconv.Quote(strings.Join(drv.Header(vs[0]), "\x1f"))
	r.rows = drv.RowsKey(drv.Rows(vs[0]))
	return r
}

// ---- families ----------------------------------------------------------------------------------------

// c18Sensitive: the spelling holds a character whose reading depends on a mode (" on ansi_quotes; ? and : on
// prepared-statement mode).
func c18Sensitive(in string) bool { return strings.ContainsAny(in, "\"?:") }

// runText runs one text. full = in all four modes; a text without a mode-sensitive character must then come out the same
// in all of them (this is what entitles the longest texts of a family to run such texts in the default mode only).
func (s *c18State) runText(fam, in string, full bool) {
	sens := c18Sensitive(in)
	if !full && !sens {
		s.doCase(fam, in, c18Modes[0], nil, "", false)
		s.skippedModes += 3
		return
	}
	first := ""
	for i, m := range c18Modes {
		o := s.doCase(fam, in, m, nil, "", !sens)
		if sens {
			continue
		}
		if i == 0 {
			first = o
		} else if o != first {
			s.violate("assumption:mode-insensitivity", fmt.Sprintf("%s holds none of \" ? : yet parses differently with %s than with %s:\n  %s\n  %s",
				c18Show(in), m, c18Modes[0], o, first), s.payload(fam, in, m, nil, ""))
		}
	}
	if !sens {
		s.modeChecked++
	}
}

// product calls f with every string built from 0..maxLen symbols of alpha that belongs to this worker. Strings of
// length >= 2 are dealt out by their first two symbols (a worker skips whole subtrees), shorter ones one by one.
// Order: by length, then lexicographic in alphabet order.
func (s *c18State) product(fam string, alpha []string, minLen, maxLen int, f func(text string, l int)) bool {
	n := len(alpha)
	if minLen <= 0 && s.c.Mine(0) {
		f("", 0)
	}
	if minLen <= 1 && maxLen >= 1 {
		for i := range alpha {
			if s.c.Mine(int64(1 + i)) {
				f(alpha[i], 1)
			}
		}
	}
	l := 0
	var rec func(prefix string, k int)
	rec = func(prefix string, k int) {
		if k == 0 {
			f(prefix, l)
			return
		}
		for _, a := range alpha {
			rec(prefix+a, k-1)
		}
	}
	if minLen < 2 {
		minLen = 2
	}
	for l = minLen; l <= maxLen; l++ {
		for i := 0; i < n; i++ {
			for j := 0; j < n; j++ {
				if s.expired(fam) {
					return false
				}
				if s.c.Mine(int64(i*n + j + l)) {
					rec(alpha[i]+alpha[j], l-2)
				}
			}
		}
		s.c.Max("max_length_"+fam, int64(l))
	}
	return true
}

func (s *c18State) tick() {
	if s.nCases > 1<<15 {
		s.flush()
	}
}

// c18FamRunes: single code points the scanner hands to the grammar as they are. goyacc numbers the grammar's named
// tokens from 57346 (U+E002) upwards, inside the private use area, so a raw character of that range reaches the
// grammar as a keyword or literal token whose text is that character. Every code point of U+DFF0..U+E2FF (and the
// borders of the other planes) in 8 positions x all four modes.
var c18RuneContexts = []string{"%s", "SELECT %s", "SELECT %s FROM t", "SELECT 1 WHERE %s = 1", "SELECT f(%s, 1)", "PRINT %s", "SELECT 1 %s 2", "%s 1", "SELECT a%s", "VAR @x := %s"}

func c18FamRunes(s *c18State) bool {
	var runes []rune
	for r := rune(0xDFF0); r <= 0xE2FF; r++ {
		if r >= 0xD800 && r <= 0xDFFF {
			continue // surrogates are not characters; the bytes of their would-be encoding are covered by family chars (\xff)
		}
		runes = append(runes, r)
	}
	runes = append(runes, 0x1, 0x7f, 0x80, 0xA0, 0xD7FF, 0xF8FF, 0xFFFD, 0xFFFE, 0xFFFF, 0x10000, 0xF0000, 0x10FFFF)
	for i, r := range runes {
		if !s.c.Mine(int64(i)) {
			continue
		}
		if s.expired("runes") {
			return false
		}
		for _, ctx := range c18RuneContexts {
			s.runText("runes", fmt.Sprintf(ctx, string(r)), true)
		}
		s.tick()
	}
	return true
}

func c18FamChars(s *c18State) bool {
	if !s.c.Thorough() {
		// quick: the 32 symbols, length <= 4, bare, behind "SELECT " and behind "SELECT 1 "; all four modes below length 4
		return s.product("chars", c18Chars[:c18CharsQuick], 0, 4, func(x string, l int) {
			for _, pre := range c18CharContexts {
				s.runText("chars", pre+x, l < 4)
			}
			s.tick()
		})
	}
	// thorough: all 36 symbols to length 4 in three contexts and all four modes, then length 5 over the 32 symbols, bare
	if !s.product("chars", c18Chars, 0, 4, func(x string, l int) {
		for _, pre := range c18CharContexts {
			s.runText("chars", pre+x, true)
		}
		s.tick()
	}) {
		return false
	}
	return s.product("chars", c18Chars[:c18CharsQuick], 5, 5, func(x string, l int) {
		s.runText("chars", x, false)
		s.tick()
	})
}

func c18FamTokens(s *c18State) bool {
	alpha := make([]string, len(c18Tokens))
	for i, t := range c18Tokens {
		alpha[i] = t + " "
	}
	th := s.c.Thorough()
	if !s.product("tokens", alpha, 0, 3, func(x string, l int) {
		for _, pre := range c18TokenContexts {
			s.runText("tokens", pre+x, th || l < 3)
		}
		s.tick()
	}) {
		return false
	}
	if !th {
		return true
	}
	return s.product("tokens", alpha[:c18TokensDeep], 4, 4, func(x string, l int) {
		for _, pre := range c18TokenContexts {
			s.runText("tokens", pre+x, false)
		}
		s.tick()
	})
}

func c18FamLit(s *c18State) bool {
	maxLen := 5 // all four modes below this length; at it, texts without a mode-sensitive character run in the default mode
	if !s.product("lit", c18Body, 0, maxLen, func(b string, l int) {
		full := l < maxLen || s.c.Thorough()
		for _, q := range []string{"'", "\"", "`"} {
			s.runText("lit", "SELECT "+q+b+q, full)
			s.runText("lit", "SELECT 1 AS "+q+b+q, full)
		}
		s.runText("lit", "SELECT @%`"+b+"`", full)
		s.tick()
	}) {
		return false
	}
	if !s.c.Thorough() {
		return true
	}
	return s.product("lit", c18Body, 6, 6, func(b string, l int) {
		s.runText("lit", "SELECT '"+b+"'", false)
		s.runText("lit", "SELECT `"+b+"`", false)
		s.tick()
	})
}

func c18FamVal(s *c18State) bool {
	maxLen := 4
	if s.c.Thorough() {
		maxLen = 5
	}
	return s.product("val", c18ValueRunes, 0, maxLen, func(v string, l int) {
		want := lexref.Meaning(v)
		for _, m := range c18Modes {
			for _, dbl := range []bool{true, false} {
				// strings: '…' always, "…" unless ansi_quotes
				s.doCase("val", "SELECT "+lexref.Encode(v, '\'', dbl), m, &want, "string", false)
				if !m.Ansi {
					s.doCase("val", "SELECT "+lexref.Encode(v, '"', dbl), m, &want, "string", false)
				}
				if v != "" {
					// identifiers: `…` always, "…" with ansi_quotes; environment variables @%`…`
					s.doCase("val", "SELECT "+lexref.Encode(v, '`', dbl), m, &want, "identifier", false)
					if m.Ansi {
						s.doCase("val", "SELECT "+lexref.Encode(v, '"', dbl), m, &want, "identifier", false)
					}
					s.doCase("val", "SELECT @%"+lexref.Encode(v, '`', dbl), m, &want, "envvar", false)
				}
			}
		}
		s.tick()
	})
}

// ---- expression templates ----------------------------------------------------------------------------

var c18AtomsSmall = []string{"1", "2", "3", "TRUE", "NULL", "'a'"} // the first four also fill the operator pairs in the quick tier

var c18AtomsFull = []string{
	"1", "2", "3", "007", "1.", "1.50", "1e2", "1E-2", "9223372036854775807", "9223372036854775808", "0",
	"'a'", "''", "'a''b'", "'a\\'b'", "\"q\"", "'a\\\\b'", "'a\\nb'", "'a\nb'", "'--'", "'/*'", "'?'", "':n'", "'a\"b'", "'\\x'", "'%'", "'_'",
	"TRUE", "false", "UNKNOWN", "NULL", "null",
	"a", "`a b`", "`a``b`", "`select`", "é", "`1a`", "\"qi\"", "t.a", "t.1", "`t x`.`a b`", "stdin.a", "rows", "csv", "`a\\\\b`", "`a'b`",
	"@a", "@b", "@é", "@@ansi_quotes", "@@Cpu", "@%HOME", "@%`a b`", "@#version", "@#Uptime", "math::pi", "Float::Max",
	"?", ":n", "(1)", "(SELECT 1)", "(a)", "-1", "- 1", "+1",
}

var c18AtomsMore = []string{"-2", "'b'", "FALSE", "@a", "a", "1.5"}

type c18Template struct {
	text  string // holes are X, Y, Z as whole words
	holes int
}

var c18Templates = []c18Template{
	{"X", 1}, {"(X)", 1}, {"((X))", 1}, {"-X", 1}, {"+X", 1}, {"!X", 1}, {"NOT X", 1}, {"- -X", 1}, {"-(-X)", 1}, {"- +X", 1}, {"+ -X", 1}, {"! !X", 1}, {"!(!X)", 1},
	{"NOT NOT X", 1}, {"- - -X", 1}, {"X - -Y", 2}, {"X - - -Y", 2}, {"X + +Y", 2}, {"X * -Y", 2}, {"X / -Y", 2},
	{"X + Y", 2}, {"X - Y", 2}, {"X * Y", 2}, {"X / Y", 2}, {"X % Y", 2}, {"X || Y", 2}, {"X || Y || Z", 3}, {"X || (Y || Z)", 3},
	{"X = Y", 2}, {"X == Y", 2}, {"X < Y", 2}, {"X <= Y", 2}, {"X > Y", 2}, {"X >= Y", 2}, {"X <> Y", 2}, {"X != Y", 2},
	{"X AND Y", 2}, {"X OR Y", 2}, {"X and Y", 2}, {"X Or Y", 2},
	{"X IS NULL", 1}, {"X IS NOT NULL", 1}, {"X IS TRUE", 1}, {"X IS NOT FALSE", 1}, {"X IS UNKNOWN", 1}, {"X is not unknown", 1},
	{"X BETWEEN Y AND Z", 3}, {"X NOT BETWEEN Y AND Z", 3}, {"(X, Y) BETWEEN (Y, Z) AND (Z, X)", 3}, {"(X, Y) NOT BETWEEN (Y, Z) AND (Z, X)", 3},
	{"X IN (Y, Z)", 3}, {"X NOT IN (Y)", 2}, {"X IN (SELECT Y)", 2}, {"(X, Y) IN ((Y, Z), (Z, X))", 3}, {"(X, Y) NOT IN (SELECT Y, Z)", 3},
	{"X IN JSON_ROW('q', Y)", 2}, {"(X, Y) IN JSON_ROW('q', Z)", 3},
	{"X LIKE Y", 2}, {"X NOT LIKE Y", 2},
	{"X = ANY (Y, Z)", 3}, {"X < ALL (Y, Z)", 3}, {"X <> ANY (SELECT Y)", 2}, {"(X, Y) = ANY ((Y, Z))", 3}, {"(X, Y) >= ALL (SELECT Y, Z)", 3},
	{"(X, Y) = (Y, Z)", 3}, {"(X, Y) < (Y, Z)", 3}, {"(X, Y) == (SELECT Y, Z)", 3},
	{"EXISTS (SELECT X)", 1}, {"NOT EXISTS (SELECT X)", 1}, {"(SELECT X)", 1}, {"(SELECT X) + Y", 2},
	{"CASE X WHEN Y THEN Z END", 3}, {"CASE WHEN X THEN Y ELSE Z END", 3}, {"CASE X WHEN Y THEN Z WHEN Z THEN X ELSE Y END", 3}, {"case when X then Y end", 2},
	{"COALESCE(X, Y)", 2}, {"coalesce(X)", 1}, {"IF(X, Y, Z)", 3}, {"if(X, Y, Z)", 3}, {"REPLACE(X, Y, Z)", 3}, {"replace(X, Y, Z)", 3},
	{"SUBSTRING(X FROM Y FOR Z)", 3}, {"SUBSTRING(X FROM Y)", 2}, {"SUBSTRING(X, Y)", 2}, {"substring(X from Y for Z)", 3},
	{"UPPER(X)", 1}, {"Upper(X)", 1}, {"`upper`(X)", 1}, {"`a b`(X)", 1}, {"f()", 0}, {"é(X)", 1}, {"NULLIF(X, Y)", 2}, {"IFNULL(X, Y)", 2},
	{"JSON_OBJECT()", 0}, {"JSON_OBJECT(X)", 1}, {"JSON_OBJECT(X AS k)", 1}, {"JSON_OBJECT(X AS `k k`, Y)", 2}, {"json_object(X k)", 1},
	{"COUNT(X)", 1}, {"COUNT(DISTINCT X)", 1}, {"COUNT(*)", 0}, {"count(distinct *)", 0}, {"MAX(X)", 1}, {"max(DISTINCT X)", 1}, {"VAR(X)", 1}, {"Median(X)", 1}, {"useraggr(DISTINCT X)", 1},
	{"LISTAGG(X)", 1}, {"LISTAGG(X, Y)", 2}, {"LISTAGG(DISTINCT X, Y) WITHIN GROUP (ORDER BY Z)", 3}, {"json_agg(X) within group (order by Y desc nulls last)", 2},
	{"ROW_NUMBER() OVER ()", 0}, {"`a b`(X) OVER ()", 1}, {"`a b`(DISTINCT X)", 1}, {"`select`(X)", 1}, {"`max`(X)", 1}, {"`count`(X) OVER ()", 1}, {"RANK() OVER (PARTITION BY X ORDER BY Y)", 2}, {"rank() over (partition by X, Y order by Z desc nulls last, X asc)", 3},
	{"NTILE(X) OVER (ORDER BY Y)", 2}, {"SUM(X) OVER ()", 1}, {"sum(DISTINCT X) OVER (PARTITION BY Y)", 2}, {"COUNT(*) OVER ()", 0}, {"COUNT(DISTINCT X) OVER (ORDER BY Y)", 2},
	{"SUM(X) OVER (ORDER BY Y ROWS UNBOUNDED PRECEDING)", 2}, {"SUM(X) OVER (ORDER BY Y ROWS 2 PRECEDING)", 2}, {"SUM(X) OVER (ORDER BY Y ROWS CURRENT ROW)", 2},
	{"SUM(X) OVER (ORDER BY Y ROWS BETWEEN UNBOUNDED PRECEDING AND UNBOUNDED FOLLOWING)", 2}, {"SUM(X) OVER (ORDER BY Y ROWS BETWEEN 1 PRECEDING AND 01 FOLLOWING)", 2},
	{"SUM(X) OVER (ORDER BY Y ROWS BETWEEN CURRENT ROW AND CURRENT ROW)", 2}, {"sum(X) over (partition by Z order by Y rows between 2 following and 3 following)", 3},
	{"VAR(X) OVER (ORDER BY Y ROWS BETWEEN 1 PRECEDING AND CURRENT ROW)", 2}, {"useraggr(X) OVER (ORDER BY Y ROWS 1 PRECEDING)", 2}, {"useraggr(DISTINCT X) OVER ()", 1},
	{"LISTAGG(X, Y) OVER (PARTITION BY Z)", 3}, {"FIRST_VALUE(X) OVER ()", 1}, {"FIRST_VALUE(X) IGNORE NULLS OVER (ORDER BY Y ROWS 1 PRECEDING)", 2},
	{"NTH_VALUE(X, Y) ignore nulls OVER (PARTITION BY Z)", 3}, {"LAG(X) OVER (ORDER BY Y)", 2}, {"LAG(X, Y, Z) IGNORE NULLS OVER (ORDER BY Y)", 3}, {"lead(X) ignore nulls over (order by Y)", 2},
	{"@a := X", 1}, {"@a := @b := X", 1}, {"(@a := X) + Y", 2}, {"@a := X + Y", 2},
	{"CURSOR c IS OPEN", 0}, {"CURSOR c IS NOT OPEN", 0}, {"CURSOR `c c` IS IN RANGE", 0}, {"cursor c is not in range", 0}, {"CURSOR c COUNT", 0}, {"cursor c count", 0},
	{"X AS `a b`", 1}, {"X AS a", 1}, {"X a", 1}, {"X AS rows", 1}, {"X, Y", 2}, {"DISTINCT X, Y", 2}, {"*", 0}, {"t.*", 0}, {"`t x`.*", 0}, {"*, X", 1},
}

var c18BinOps = []string{"+", "-", "*", "/", "%", "||", "=", "<", "<>", "==", "AND", "OR"}
var c18PreOps = []string{"-", "+", "!", "NOT "}

func c18Fill(t string, vals []string) string {
	r := strings.NewReplacer("X", "\x01", "Y", "\x02", "Z", "\x03")
	t = r.Replace(t)
	out := t
	for i, v := range vals {
		out = strings.ReplaceAll(out, string(rune(1+i)), v)
	}
	return out
}

func c18FamExpr(s *c18State) bool {
	small := c18AtomsSmall
	if s.c.Thorough() {
		small = append(append([]string{}, c18AtomsSmall...), c18AtomsMore...)
	}
	var serial int64
	full := true
	emit := func(text string) {
		serial++
		if s.c.Mine(serial) {
			s.runText("expr", "SELECT "+text, full)
			s.runText("expr", text, full) // a value is a statement of its own too
			s.tick()
		}
	}
	for ti, t := range c18Templates {
		if s.expired("expr") {
			return false
		}
		tmpl := t.text
		// templates are written with X Y Z; protect words that contain those letters
		safe := c18Protect(tmpl)
		switch t.holes {
		case 0:
			emit(tmpl)
		default:
			vals := make([]string, t.holes)
			var rec func(k int)
			rec = func(k int) {
				if k == t.holes {
					emit(c18Unprotect(c18Fill(safe, vals)))
					return
				}
				for _, a := range small {
					vals[k] = a
					rec(k + 1)
				}
			}
			rec(0)
			for h := 0; h < t.holes; h++ {
				for i := range vals {
					vals[i] = small[(i+1)%len(small)]
				}
				for _, a := range c18AtomsFull {
					vals[h] = a
					emit(c18Unprotect(c18Fill(safe, vals)))
				}
			}
		}
		_ = ti
	}
	s.flush()
	// operator pairs with every placement of parentheses
	full = false
	ops := c18BinOps
	small = small[:4]
	if s.c.Thorough() {
		small = append(small, "NULL", "'a'")
	}
	for _, o1 := range ops {
		if s.expired("expr") {
			return false
		}
		for _, o2 := range ops {
			for _, a := range small {
				for _, b := range small {
					for _, cc := range small {
						emit(fmt.Sprintf("%s %s %s %s %s", a, o1, b, o2, cc))
						emit(fmt.Sprintf("(%s %s %s) %s %s", a, o1, b, o2, cc))
						emit(fmt.Sprintf("%s %s (%s %s %s)", a, o1, b, o2, cc))
					}
				}
			}
		}
	}
	s.flush()
	// prefix operator chains, written with and without spaces and parentheses, alone and as right operand
	depth := 3
	if s.c.Thorough() {
		depth = 4
	}
	operands := []string{"1", "TRUE", "a", "@a", "(1)", "'a'", "1.5", "NULL"}
	var chains func(prefix []string)
	chains = func(prefix []string) {
		if len(prefix) > 0 {
			for _, o := range operands {
				for _, style := range []int{0, 1, 2} {
					var sb strings.Builder
					for i, p := range prefix {
						sb.WriteString(p)
						switch style {
						case 1:
							sb.WriteByte(' ')
						case 2:
							if i < len(prefix)-1 {
								sb.WriteByte('(')
							}
						}
					}
					sb.WriteString(o)
					if style == 2 {
						sb.WriteString(strings.Repeat(")", len(prefix)-1))
					}
					e := sb.String()
					emit(e)
					emit("2 - " + e)
					emit("2 * " + e)
					emit("TRUE AND " + e)
					emit(e + " + 2")
					emit(e + " IS NULL")
				}
			}
		}
		if len(prefix) == depth {
			return
		}
		for _, p := range c18PreOps {
			chains(append(append([]string{}, prefix...), p))
		}
	}
	chains(nil)
	s.flush()
	return !s.expired("expr")
}

func c18Protect(t string) string {
	// a hole is the single letter X, Y or Z standing as a word of its own
	var sb strings.Builder
	rs := []rune(t)
	isWord := func(r rune) bool {
		return r == '_' || r >= 'a' && r <= 'z' || r >= 'A' && r <= 'Z' || r >= '0' && r <= '9' || r > 127
	}
	for i, r := range rs {
		if (r == 'X' || r == 'Y' || r == 'Z') && (i == 0 || !isWord(rs[i-1])) && (i == len(rs)-1 || !isWord(rs[i+1])) {
			sb.WriteRune(r)
		} else if r == 'X' || r == 'Y' || r == 'Z' {
			sb.WriteRune(map[rune]rune{'X': '\x11', 'Y': '\x12', 'Z': '\x13'}[r])
		} else {
			sb.WriteRune(r)
		}
	}
	return sb.String()
}

func c18Unprotect(t string) string {
	return strings.NewReplacer("\x11", "X", "\x12", "Y", "\x13", "Z").Replace(t)
}

// ---- statement templates -----------------------------------------------------------------------------

func c18FamStmt(s *c18State) bool {
	var serial int64
	emit := func(text string) {
		serial++
		if s.c.Mine(serial) {
			s.runText("stmt", text, true)
			s.tick()
		}
	}
	vals := []string{"1", "@a", "(1)", "1 + 1", "- -1", "'x'"}
	if !s.c.Thorough() {
		vals = vals[:4]
	}
	orders := []string{"", " ORDER BY a"}
	fors := []string{"", " FOR UPDATE"}
	heads := []string{"SELECT a FROM t", "SELECT 1"}
	for _, h := range heads {
		for _, ob := range orders {
			for _, fu := range fors {
				for _, v := range vals {
					if s.expired("stmt") {
						return false
					}
					for _, unit := range []string{"", " PERCENT", " ROW", " ROWS"} {
						for _, re := range []string{"", " ONLY", " WITH TIES"} {
							for _, off := range []string{"", " OFFSET " + v, " OFFSET " + v + " ROW", " OFFSET 2 ROWS"} {
								emit(h + ob + " LIMIT " + v + unit + re + off + fu)
							}
						}
					}
					for _, off := range []string{"", " OFFSET " + v, " OFFSET " + v + " ROW", " OFFSET 2 ROWS"} {
						for _, pos := range []string{" FIRST", " NEXT"} {
							for _, unit := range []string{" PERCENT", " ROW", " ROWS"} {
								for _, re := range []string{"", " ONLY", " WITH TIES"} {
									emit(h + ob + off + " FETCH" + pos + " " + v + unit + re + fu)
								}
							}
						}
						if off != "" {
							emit(h + ob + off + fu)
						}
					}
				}
			}
		}
	}
	s.flush()
	tables := []string{
		"t", "t AS x", "t x", "`t x`", "`t x` AS `a b`", "dual", "DUAL", "stdin", "STDIN AS s", "(SELECT 1) x", "(SELECT 1) AS x", "(SELECT 1)",
		"t, u", "t, LATERAL (SELECT 1) x", "t, (SELECT 1) x, u", "t JOIN u ON a = b", "t INNER JOIN u ON a = b", "t CROSS JOIN u", "t JOIN u USING (a)",
		"t INNER JOIN u USING (a, `b b`)", "t LEFT JOIN u ON a = b", "t LEFT OUTER JOIN u ON a = b", "t RIGHT JOIN u USING (a)", "t FULL OUTER JOIN u ON TRUE",
		"t NATURAL JOIN u", "t NATURAL INNER JOIN u", "t NATURAL LEFT JOIN u", "t NATURAL RIGHT OUTER JOIN u", "t NATURAL FULL JOIN u",
		"t JOIN u ON a = b JOIN v ON c = d", "t JOIN (u JOIN v ON c = d) ON a = b", "(t)", "(t JOIN u ON a = b)", "(t) x", "((t))",
		"t CROSS JOIN LATERAL (SELECT 1) x", "t JOIN LATERAL (SELECT 1) x ON TRUE", "t LEFT JOIN LATERAL (SELECT 1) AS x ON TRUE", "t NATURAL JOIN LATERAL (SELECT 1) x",
		"t NATURAL LEFT OUTER JOIN LATERAL (SELECT 1) x", "t join u on a = b", "t natural left outer join u", "t cross join u",
		"csv(',', t)", "CSV(',', `t.csv`, 'UTF8', TRUE)", "csv(t)", "json('q', t)", "JSON('', `a b.json`) j", "jsonl('q', t)", "fixed('[1,2]', t)", "FIXED('SPACES', t, 'UTF8') AS f",
		"ltsv(t)", "LTSV(t, 'UTF8', TRUE)", "csv_inline(',', 'a,b')", "CSV_INLINE(',', t)", "json_inline('q', '{}')", "JSON_TABLE('q', '{}') jt", "json_inline('q', t, 'UTF8')",
		"file:./a.csv", "file:///tmp/a.csv f", "https://example.com/a.csv", "data::('a,b')", "Inline::('a', 1) x", "file::('a.csv')", "csv(',', stdin)", "csv(',', file:a.csv)",
	}
	for _, t := range tables {
		if s.expired("stmt") {
			return false
		}
		emit("SELECT * FROM " + t)
		emit("SELECT a FROM " + t + " WHERE a = 1")
		emit("DELETE FROM " + t + " WHERE a = - -1")
		emit("SELECT (SELECT 1 FROM " + t + ")")
	}
	tails := []string{
		"", " WHERE a = 1", " WHERE NOT a", " GROUP BY a", " GROUP BY a, `b b`", " GROUP BY a HAVING COUNT(*) > 1", " HAVING a", " WHERE a GROUP BY b HAVING c",
		" ORDER BY a", " ORDER BY a ASC", " ORDER BY a DESC", " ORDER BY a NULLS FIRST", " ORDER BY a NULLS LAST", " ORDER BY a ASC NULLS LAST", " ORDER BY a DESC NULLS FIRST",
		" ORDER BY a, b DESC", " ORDER BY 1", " ORDER BY a + 1 desc nulls last, `b b`", " order by a asc nulls first", " ORDER BY - -a", " ORDER BY (a)",
	}
	lists := []string{"1", "a", "*", "t.*", "a AS b", "a b", "DISTINCT a", "a, b", "COUNT(*)", "1 AS `a b`", "distinct a as b, *", "- -a"}
	for _, l := range lists {
		for _, tl := range tails {
			emit("SELECT " + l + " FROM t" + tl)
			emit("SELECT " + l + tl)
		}
	}
	s.flush()
	sel := []string{"SELECT 1", "(SELECT 1)", "SELECT a FROM t", "(SELECT a FROM t ORDER BY a LIMIT 1)", "SELECT - -1"}
	setops := []string{"UNION", "UNION ALL", "INTERSECT", "INTERSECT ALL", "EXCEPT", "EXCEPT ALL", "union all"}
	for _, a := range sel {
		if s.expired("stmt") {
			return false
		}
		for _, o1 := range setops {
			for _, b := range sel {
				emit(a + " " + o1 + " " + b)
				emit(a + " " + o1 + " " + b + " ORDER BY 1 LIMIT 1")
				emit("SELECT (" + a + " " + o1 + " " + b + ")")
				for _, o2 := range setops {
					emit(a + " " + o1 + " " + b + " " + o2 + " SELECT 3")
					emit(a + " " + o1 + " (" + b + " " + o2 + " SELECT 3)")
					emit("(" + a + " " + o1 + " " + b + ") " + o2 + " SELECT 3")
				}
			}
		}
	}
	withs := []string{
		"WITH ct AS (SELECT 1) SELECT * FROM ct", "WITH RECURSIVE ct (n) AS (SELECT 1 UNION ALL SELECT n + 1 FROM ct WHERE n < 3) SELECT n FROM ct",
		"WITH a AS (SELECT 1), b (x, y) AS (SELECT 1, 2) SELECT 1", "with recursive `c t` (`a b`) as (select 1) select 1", "WITH ct AS (SELECT - -1) SELECT 1 UNION SELECT 2",
		"WITH ct AS (SELECT 1) SELECT 1 INTO @a", "SELECT 1, 2 INTO @a, @b", "SELECT a INTO @a FROM t WHERE a = 1 ORDER BY a LIMIT 1 FOR UPDATE", "SELECT - -1 INTO @a",
		"WITH ct AS (SELECT 1) INSERT INTO t VALUES (- -1)", "WITH ct AS (SELECT 1) UPDATE t SET a = 1", "WITH ct AS (SELECT 1) DELETE FROM t", "WITH ct AS (SELECT 1) REPLACE INTO t USING (a) VALUES (1)",
	}
	for _, w := range withs {
		emit(w)
	}
	// statements that carry expressions and queries (each § is replaced by sensitive expressions)
	carriers := []string{
		"VAR @x := §", "VAR @x, @y := §", "DECLARE @x := §", "@a := §", "§", "PRINT §", "PRINTF 'f', §, §", "ECHO §", "SOURCE §", "CHDIR §", "EXECUTE § USING §", "EXECUTE §",
		"INSERT INTO t VALUES (§, §), (§, §)", "INSERT INTO t (a, `b b`) VALUES (§, §)", "INSERT INTO t SELECT §", "INSERT INTO t (a) SELECT § FROM u",
		"UPDATE t SET a = §, `b b` = § WHERE §", "UPDATE t, u SET t.a = § FROM t JOIN u ON § WHERE §", "DELETE FROM t WHERE §", "DELETE t FROM t JOIN u ON § WHERE §",
		"REPLACE INTO t USING (a) VALUES (§, §)", "REPLACE INTO t (a, b) USING (a) VALUES (§, §)", "REPLACE INTO t USING (a) SELECT §", "REPLACE INTO t (a, b) USING (a, b) SELECT §, §",
		"CREATE TABLE t (a, b)", "CREATE TABLE t (a, b) AS SELECT §, §", "CREATE TABLE IF NOT EXISTS t AS SELECT §", "CREATE TABLE t SELECT §",
		"ALTER TABLE t ADD a DEFAULT §", "ALTER TABLE t ADD (a DEFAULT §, b) AFTER c", "ALTER TABLE t ADD a FIRST", "ALTER TABLE t DROP a", "ALTER TABLE t RENAME a TO b", "ALTER TABLE t SET delimiter TO §",
		"DECLARE c CURSOR FOR SELECT §", "DECLARE c CURSOR FOR SELECT § FROM t ORDER BY § LIMIT §", "DECLARE c CURSOR FOR stmt", "OPEN c", "OPEN c USING §, § AS n", "CLOSE c", "DISPOSE CURSOR c",
		"FETCH c INTO @a", "FETCH NEXT c INTO @a, @b", "FETCH ABSOLUTE § c INTO @a", "FETCH RELATIVE § c INTO @a", "FETCH PRIOR c INTO @a", "FETCH FIRST c INTO @a", "FETCH LAST c INTO @a",
		"DECLARE v VIEW (a, b)", "DECLARE v VIEW AS SELECT §", "DECLARE v VIEW (a) AS SELECT §", "DISPOSE VIEW v", "DISPOSE @x",
		"PREPARE s FROM 'SELECT 1'", "EXECUTE s", "EXECUTE s USING §, § AS n", "DISPOSE PREPARE s",
		"DECLARE f FUNCTION (@a, @b DEFAULT §) AS BEGIN RETURN §; END", "DECLARE g AGGREGATE (c, @a DEFAULT §) AS BEGIN RETURN §; END", "DISPOSE FUNCTION f",
		"IF § THEN PRINT §; ELSEIF § THEN PRINT §; ELSE PRINT §; END IF", "CASE § WHEN § THEN PRINT §; ELSE PRINT §; END CASE", "CASE WHEN § THEN PRINT §; END CASE",
		"WHILE § DO PRINT §; CONTINUE; BREAK; END WHILE", "WHILE @a IN c DO PRINT §; END WHILE", "WHILE VAR @a, @b IN c DO IF § THEN BREAK; END IF; END WHILE",
		"SET @@f TO §", "SET @@f = §", "ADD § TO @@f", "REMOVE § FROM @@f", "SHOW @@f", "SHOW tables", "SHOW FIELDS FROM t", "SET @%e TO §", "SET @%`e e` = §", "UNSET @%e",
		"TRIGGER ERROR", "TRIGGER ERROR §", "TRIGGER ERROR 5 §", "EXIT", "EXIT 1", "COMMIT", "ROLLBACK", "PWD", "RELOAD CONFIG", "SYNTAX §, §", "SYNTAX",
		"$ls -l ${§} `x`", "$echo 'a;b'; SELECT §",
	}
	exprs := []string{"1", "- -1", "`a b`(1)", "'a\\'b'", "(SELECT - -1)", "NOT ! !TRUE", "\"q\"", "?", ":n", "@a := - -1"}
	for _, cst := range carriers {
		if s.expired("stmt") {
			return false
		}
		for _, e := range exprs {
			emit(strings.ReplaceAll(cst, "§", e))
			if !strings.Contains(cst, "§") {
				break
			}
		}
	}
	s.flush()
	return !s.expired("stmt")
}
