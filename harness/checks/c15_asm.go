package checks

import (
	"fmt"

	"github.com/mithrandie/csvq/lib/parser"

	sm "verif/harness/internal/scopemodel"
)

// Parsing a procedure costs three times as much as executing it twice, so the check parses every
// distinct simple statement and every distinct block header once (with csvq's real parser), keeps the
// syntax trees, and assembles a procedure's tree by putting the children's statement lists into copies of
// the parsed block headers — exactly what the grammar actions do (`If{Condition, Statements, ElseIf, Else}`
// …).  A fixed fraction of the procedures, and every replay, is additionally run from the full program
// text through parser.Parse and must behave identically.

type c15Asm struct {
	cache map[string]parser.Statement
	pro   []parser.Statement
}

func newC15Asm() *c15Asm { return &c15Asm{cache: map[string]parser.Statement{}} }

func (a *c15Asm) parseOne(text string) parser.Statement {
	if s, ok := a.cache[text]; ok {
		return s
	}
	st, _, err := parser.Parse(text, "", false, false)
	if err != nil || len(st) != 1 {
		panic(fmt.Sprintf("c15: statement does not parse to one statement: %q: %v", text, err))
	}
	a.cache[text] = st[0]
	return st[0]
}

func (a *c15Asm) list(stmts []*sm.Stmt) []parser.Statement {
	if len(stmts) == 0 {
		return nil // the grammar's empty program is nil
	}
	out := make([]parser.Statement, 0, len(stmts))
	for _, s := range stmts {
		out = append(out, a.stmt(s))
	}
	return out
}

func (a *c15Asm) stmt(s *sm.Stmt) parser.Statement {
	switch s.Op {
	case sm.SBreak: // only grammatical inside a loop: parse it there
		w := a.parseOne("WHILE FALSE DO BREAK; END WHILE;").(parser.While)
		return w.Statements[0]
	case sm.SContinue:
		w := a.parseOne("WHILE FALSE DO CONTINUE; END WHILE;").(parser.While)
		return w.Statements[0]
	case sm.SReturn: // only grammatical inside a function
		f := a.parseOne("DECLARE zz FUNCTION () AS BEGIN " + sm.Render([]*sm.Stmt{s}) + " END;").(parser.FunctionDeclaration)
		return f.Statements[0]
	case sm.SFunc:
		h := *s
		h.Body = nil
		f := a.parseOne(sm.Render([]*sm.Stmt{&h})).(parser.FunctionDeclaration)
		f.Statements = a.list(s.Body)
		return f
	case sm.SAgg:
		h := *s
		h.Body = nil
		f := a.parseOne(sm.Render([]*sm.Stmt{&h})).(parser.AggregateDeclaration)
		f.Statements = a.list(s.Body)
		return f
	case sm.SIf:
		h := *s
		h.Br = make([]*sm.Branch, len(s.Br))
		for i, b := range s.Br {
			h.Br[i] = &sm.Branch{Cond: b.Cond}
		}
		h.Else = nil
		f := a.parseOne(sm.Render([]*sm.Stmt{&h})).(parser.If)
		f.Statements = a.list(s.Br[0].Body)
		if len(s.Br) > 1 {
			ei := make([]parser.ElseIf, len(f.ElseIf))
			copy(ei, f.ElseIf)
			for i := range ei {
				ei[i].Statements = a.list(s.Br[i+1].Body)
			}
			f.ElseIf = ei
		}
		if s.HasElse {
			f.Else.Statements = a.list(s.Else)
		}
		return f
	case sm.SCase:
		h := *s
		h.Br = make([]*sm.Branch, len(s.Br))
		for i, b := range s.Br {
			h.Br[i] = &sm.Branch{Cond: b.Cond}
		}
		h.Else = nil
		f := a.parseOne(sm.Render([]*sm.Stmt{&h})).(parser.Case)
		wh := make([]parser.CaseWhen, len(f.When))
		copy(wh, f.When)
		for i := range wh {
			wh[i].Statements = a.list(s.Br[i].Body)
		}
		f.When = wh
		if s.HasElse {
			f.Else.Statements = a.list(s.Else)
		}
		return f
	case sm.SWhile:
		h := *s
		h.Body = nil
		f := a.parseOne(sm.Render([]*sm.Stmt{&h})).(parser.While)
		f.Statements = a.list(s.Body)
		return f
	case sm.SWhileIn:
		h := *s
		h.Body = nil
		f := a.parseOne(sm.Render([]*sm.Stmt{&h})).(parser.WhileInCursor)
		f.Statements = a.list(s.Body)
		return f
	}
	return a.parseOne(sm.Render([]*sm.Stmt{s}))
}

// program assembles prologue + procedure.
func (a *c15Asm) program(prog []*sm.Stmt) []parser.Statement {
	if a.pro == nil {
		st, _, err := parser.Parse(sm.Prologue, "", false, false)
		if err != nil {
			panic(err)
		}
		a.pro = st
	}
	out := make([]parser.Statement, 0, len(a.pro)+len(prog))
	out = append(out, a.pro...)
	return append(out, a.list(prog)...)
}
