package checks

import "verif/harness/internal/core"

// C10's base line: the file a completed COMMIT leaves must be the table's complete new contents - readable through
// the table's own definition as exactly the new rows - before any crash point is looked at (the family is C01's).
func init() {
	core.Extend("C10", "base line without a crash ("+c01AttrRule+")", func(c *core.Ctx) { c01AttrRun(c, "C10") })
}

// the same for a COMMIT that is interrupted instead of killed: what it leaves is the old or the complete new table
func init() {
	core.Extend("C10", "base line without a crash ("+c01CommitCancelRule+")", func(c *core.Ctx) { c01CommitCancelRun(c, "C10") })
}

// C02: a table file is written whole or not at all - also when the writing is interrupted
func init() {
	core.Extend("C02", "interrupted writes ("+c01CommitCancelRule+")", func(c *core.Ctx) { c01CommitCancelRun(c, "C02") })
}
