package checks

import (
	"encoding/json"
	"fmt"
	"strings"

	"verif/harness/internal/core"
	"verif/harness/internal/drv"
)

// Extra family for C08: tables long enough to cross the chunk sizes and goroutine thresholds of the engine (every other
// family of this check works on tables of two or three records) and statements that fail LATE - at a record near the
// end, after most of the table has been worked through. A file table and a temporary table; with and without an
// earlier successful change in the same transaction; the table is read before and after the failed statement, then a
// further successful change and a COMMIT follow, and the committed file has to equal the file the same session commits
// without the failed statement.
func init() {
	core.Extend("C08", "family long: tables of 160, 257, 300, 513 and 700 records (file and temporary table) x 9 statements that fail at the first, a middle, a near-last or the last record (division by zero in SET / WHERE / VALUES of a sub-select / DEFAULT, "+
		"a sub-query that returns two records) x with / without an earlier change; oracle: SELECT * as before the failed statement (also after further evaluation), a later change and COMMIT give the file they give without the failed statement", c08LongRun)
}

// %[1]s table, %[2]d the id at which the statement fails
var c08LongFails = []string{
	"UPDATE %[1]s SET v = 1000 / (%[2]d - id)",
	"UPDATE %[1]s SET v = 'w' WHERE 1000 / (%[2]d - id) > 0",
	"UPDATE %[1]s SET v = (SELECT s.id FROM %[1]s s WHERE s.id = %[1]s.id OR %[1]s.id = %[2]d AND s.id <= 3)",
	"DELETE FROM %[1]s WHERE 1000 / (%[2]d - id) > 0",
	"INSERT INTO %[1]s SELECT id + 10000, 1000 / (%[2]d - id) FROM %[1]s",
	"REPLACE INTO %[1]s (id, v) USING (id) SELECT id, 1000 / (%[2]d - id) FROM %[1]s",
	"ALTER TABLE %[1]s ADD (z DEFAULT 1000 / (%[2]d - id))",
	"UPDATE %[1]s SET id = id + 1, v = 1000 / (%[2]d - id)",
	"DELETE FROM %[1]s WHERE id < %[2]d OR 1 / (%[2]d - id) > 0",
}

type c08LongCase struct {
	Family string `json:"family"`
	Rows   int    `json:"records"`
	Temp   bool   `json:"temporary_table"`
	Stmt   string `json:"failing_statement"`
	At     int    `json:"fails_at_id"`
	Before bool   `json:"earlier_change_in_the_transaction"`
}

func c08LongContent(n int) string {
	var sb strings.Builder
	sb.WriteString("id,v\n")
	for i := 1; i <= n; i++ {
		fmt.Fprintf(&sb, "%d,v%d\n", i, i)
	}
	return sb.String()
}

func c08LongOne(c *core.Ctx, dir string, k c08LongCase) {
	name := "big"
	sql := fmt.Sprintf(k.Stmt, name, k.At)
	run := func(withFail bool) (snap map[string]string, final, before, after string, ferr error, ok bool) {
		drv.ClearDir(dir)
		drv.WriteFiles(dir, map[string]string{"big.csv": c08LongContent(k.Rows)})
		if k.Temp {
			drv.WriteFiles(dir, map[string]string{"src.csv": c08LongContent(k.Rows)})
			drv.ClearFile(dir + "/big.csv")
		}
		env := drv.New(dir)
		defer env.Close()
		env.Tx.Flags.SetQuiet(true)
		if k.Temp {
			if r := env.Exec("DECLARE big VIEW AS SELECT id, v FROM src; COMMIT;"); r.Err != nil {
				c.Incomplete("family long: cannot declare the temporary table: " + r.Err.Error())
				return
			}
		}
		if k.Before {
			if r := env.Exec("UPDATE big SET v = 'first' WHERE id = 2;"); r.Err != nil {
				c.Incomplete("family long: the earlier change fails: " + r.Err.Error())
				return
			}
		}
		before, _ = c01AttrView(env, name, false)
		if withFail {
			r := env.Exec(sql + ";")
			if r.Panic != nil {
				c.Violate("long:panic", fmt.Sprintf("%d records: %q: %v", k.Rows, sql, r.Panic), k)
				return
			}
			if ferr = r.Err; ferr == nil {
				return
			}
			env.Exec(c08DialectChurn)
			var err error
			if after, err = c01AttrView(env, name, false); err != nil {
				after = "unreadable: " + err.Error()
			}
		}
		if r := env.Exec("UPDATE big SET v = 'last' WHERE id = 3; COMMIT;"); r.Err != nil || r.Panic != nil {
			if withFail {
				c.Violate("long:later-statement-fails", fmt.Sprintf("%d records: after the failed %q (%v) a later UPDATE and COMMIT: %v %v", k.Rows, sql, ferr, r.Err, r.Panic), k)
			}
			return
		}
		final, _ = c01AttrView(env, name, false)
		return drv.DirSnapshot(dir), final, before, after, ferr, true
	}
	want, wantFinal, _, _, _, ok := run(false)
	if !ok {
		c.Incomplete("family long: the reference session fails")
		return
	}
	got, gotFinal, before, after, ferr, ok := run(true)
	if !ok {
		if ferr == nil {
			c.Observe("long_family_statement_did_not_fail", fmt.Sprintf("%s @%d of %d", k.Stmt, k.At, k.Rows))
		}
		return
	}
	c.Eval(fmt.Sprintf("long|%d|%v|%s|%d|%v", k.Rows, k.Temp, k.Stmt, k.At, k.Before), true)
	cls := strings.ToLower(strings.Fields(sql)[0])
	kind := "file"
	if k.Temp {
		kind = "temporary"
	}
	where := fmt.Sprintf("%s table of %d records: %q fails with %q", kind, k.Rows, sql, ferr)
	if before != after {
		c.Violate("long:"+cls+"@"+kind+":table-changed-by-failed-statement", fmt.Sprintf("%s, yet the table differs afterwards: %s", where, c08LongDiff(before, after)), k)
		return
	}
	if gotFinal != wantFinal {
		c.Violate("long:"+cls+"@"+kind+":later-statements-see-partial-effects", fmt.Sprintf("%s; after a later UPDATE and COMMIT the table differs from the session without the failed statement: %s", where, c08LongDiff(wantFinal, gotFinal)), k)
		return
	}
	if fmt.Sprint(got) != fmt.Sprint(want) {
		c.Violate("long:"+cls+"@"+kind+":commit-writes-partial-effects", fmt.Sprintf("%s; the committed files differ from those of the session without the failed statement: %s", where, c08LongDiff(want["big.csv"], got["big.csv"])), k)
	}
}

// first difference of two long texts, for the message
func c08LongDiff(a, b string) string {
	as, bs := strings.FieldsFunc(a, func(r rune) bool { return r == '\x1e' || r == '\n' }), strings.FieldsFunc(b, func(r rune) bool { return r == '\x1e' || r == '\n' })
	if len(as) != len(bs) {
		return fmt.Sprintf("%d records expected, %d found", len(as), len(bs))
	}
	for i := range as {
		if as[i] != bs[i] {
			return fmt.Sprintf("record %d: expected %q, found %q", i, strings.ReplaceAll(as[i], "\x1f", ","), strings.ReplaceAll(bs[i], "\x1f", ","))
		}
	}
	return "no difference in the records"
}

func c08LongRun(c *core.Ctx) {
	dir := core.Scratch("c08long")
	sizes := []int{160, 257, 300, 513}
	if c.Thorough() {
		sizes = append(sizes, 255, 256, 511, 700, 1025)
	}
	var idx int64
	for _, n := range sizes {
		for _, temp := range []bool{false, true} {
			for _, f := range c08LongFails {
				for _, at := range []int{1, n / 2, n - 3, n} {
					for _, bef := range []bool{false, true} {
						idx++
						if !c.Mine(idx) {
							continue
						}
						if c.Expired() {
							c.Incomplete("time budget reached inside family long")
							return
						}
						c08LongOne(c, dir, c08LongCase{"long", n, temp, f, at, bef})
					}
				}
			}
		}
	}
}

func c08LongReplay(c *core.Ctx, payload json.RawMessage) bool {
	var k c08LongCase
	if json.Unmarshal(payload, &k) != nil || k.Family != "long" {
		return false
	}
	fmt.Printf("replaying family long: %+v\n", k)
	c08LongOne(c, core.Scratch("c08long-replay"), k)
	return true
}
