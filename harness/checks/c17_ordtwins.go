package checks

import (
	"fmt"
	"strings"

	"github.com/mithrandie/csvq/lib/parser"

	"verif/harness/internal/anref"
	"verif/harness/internal/core"
)

// Extra family for C17: analytic calls of ONE SELECT that are the same text except for the way one ORDER BY item of
// the clause is written: direction (none / ASC / DESC) x position of the nulls (none / NULLS FIRST / NULLS LAST).
// csvq finds "the same call" by the text it prints for it, so what the printed text of an order item leaves out
// makes two calls one. The main family runs such calls in different SELECTs (and writes no ASC at all).
//
// Oracle: the definitional model, per column (ORDER BY clause of the manual: ASC is the default direction, the nulls
// come first under ASC and last under DESC unless NULLS FIRST / LAST says otherwise).
func init() {
	core.Extend("C17", "family order-twins: 19 function forms x PARTITION BY none/p x the 9 spellings of the order item o ({o, o ASC, o DESC} x {-, NULLS FIRST, NULLS LAST}), all 9 calls in one SELECT "+
		"(thorough: also every pair of spellings in a SELECT of two calls on the tables of up to 2 rows, and the 9 calls with the item as second key behind v DESC), on every table over the mentioned columns with cells in {NULL,1,2} "+
		"(1 column: 0..4 rows, 2 columns: 0..3 rows, 3 columns: 0..2 rows; thorough one row more as multisets); oracle: the definitional model per column", c17OrdTwinsRun)
}

type c17OrdSpelling struct {
	item anref.OrdItem
	asc  bool // ASC is written
}

func c17OrdSpellings() []c17OrdSpelling {
	var out []c17OrdSpelling
	for dir := 0; dir < 3; dir++ { // none, ASC, DESC
		for nulls := 0; nulls < 3; nulls++ {
			out = append(out, c17OrdSpelling{anref.OrdItem{Col: anref.ColO, Desc: dir == 2, Nulls: nulls}, dir == 1})
		}
	}
	return out
}

func c17OrdTwinForms() []anref.Call {
	p1, f1, cur, uf := anref.Bound{K: anref.Prec, N: 1}, anref.Bound{K: anref.Foll, N: 1}, anref.Bound{K: anref.Cur}, anref.Bound{K: anref.UnbFoll}
	return []anref.Call{
		{Fn: "ROW_NUMBER"}, {Fn: "RANK"}, {Fn: "DENSE_RANK"}, {Fn: "CUME_DIST"}, {Fn: "PERCENT_RANK"}, {Fn: "NTILE", N: 2},
		{Fn: "LAG"}, {Fn: "LEAD", HasOffset: true, Offset: 1}, {Fn: "FIRST_VALUE"}, {Fn: "LAST_VALUE"}, {Fn: "NTH_VALUE", N: 2},
		{Fn: "LISTAGG", HasSep: true, Sep: ","}, {Fn: "JSON_AGG"}, {Fn: "COUNT"}, {Fn: "SUM"}, {Fn: "UCAT"},
		{Fn: "SUM", Frame: &anref.Frame{Low: p1}},
		{Fn: "FIRST_VALUE", IgnoreNulls: true, Frame: &anref.Frame{Low: p1, High: &f1}},
		{Fn: "LAST_VALUE", Frame: &anref.Frame{Low: cur, High: &uf}},
	}
}

// c17OrdTwinItem: the call with the spelled order item (behind "v DESC" when second).
func c17OrdTwinItem(base anref.Call, part []int, sp c17OrdSpelling, second bool) c17FamItem {
	c := base
	c.Part = part
	prefix := ""
	if second {
		c.Order = []anref.OrdItem{{Col: anref.ColV, Desc: true}, sp.item}
		prefix = "v DESC, "
	} else {
		c.Order = []anref.OrdItem{sp.item}
	}
	sql := c.SQL()
	if sp.asc {
		old := "ORDER BY " + prefix + "o"
		if !strings.Contains(sql, old) {
			panic("C17 order-twins: cannot spell " + sql)
		}
		sql = strings.Replace(sql, old, old+" ASC", 1)
	}
	return c17FamItem{Call: &c, SQL: sql}
}

type c17FamPack struct {
	items  []c17FamItem
	parsed []parser.Statement
	small  bool // run on the tables of up to 2 rows only
}

func c17OrdTwinPacks(thorough bool) map[int][]*c17FamPack {
	packs := map[int][]*c17FamPack{}
	add := func(items []c17FamItem, small bool) {
		m := 0
		for _, it := range items {
			m |= c17Refs(it.Call)
		}
		packs[m] = append(packs[m], &c17FamPack{items, mustParse(c17FamSelect(items)), small})
	}
	sps := c17OrdSpellings()
	seconds := []bool{false}
	if thorough {
		seconds = []bool{false, true}
	}
	for _, base := range c17OrdTwinForms() {
		for _, part := range [][]int{nil, {anref.ColP}} {
			for _, second := range seconds {
				var all []c17FamItem
				for _, sp := range sps {
					all = append(all, c17OrdTwinItem(base, part, sp, second))
				}
				add(all, false)
				if thorough && !second {
					for i := range all {
						for j := range all {
							if i < j {
								add([]c17FamItem{all[i], all[j]}, true)
							}
						}
					}
				}
			}
		}
	}
	return packs
}

func c17OrdTwinsRun(c *core.Ctx) {
	if c17SkipFamily("order-twins") {
		return
	}
	thorough := c.Thorough()
	packs := c17OrdTwinPacks(thorough)
	f := newC17Fam(c, "order-twins", "c17ordtwins", false)
	defer f.close()
	vals := [3][]string{{"", "1", "2"}, {"", "1", "2"}, {"", "1", "2"}}
	seqLen := [4]int{0, 4, 3, 2}
	var idx int64
	stopped := false
	for mask := 1; mask < 8 && !stopped; mask++ {
		ps := packs[mask]
		if len(ps) == 0 {
			continue
		}
		k := 0
		for b := 0; b < 3; b++ {
			k += mask >> b & 1
		}
		alphabet := c17FamAlphabet(mask, vals)
		visit := func(rows [][3]string) bool {
			idx++
			if !c.Mine(idx) {
				return true
			}
			if c.Expired() {
				c.Incomplete(fmt.Sprintf("time budget reached in family order-twins at a table of %d rows", len(rows)))
				stopped = true
				return false
			}
			for _, p := range ps {
				if p.small && len(rows) > 2 {
					continue
				}
				f.one(c17FamCase{Family: "order-twins", Rows: rows, Items: p.items}, p.parsed, true)
			}
			c.Add("order_twins_tables", 1)
			return true
		}
		c17FamSeqs(alphabet, seqLen[k], visit)
		if thorough && !stopped {
			c17FamMultisets(alphabet, seqLen[k]+1, visit)
		}
	}
}
