package checks

import (
	"bytes"
	"encoding/json"
	"fmt"
	"os"
	"path/filepath"
	"sort"
	"strconv"
	"strings"
	"time"

	"github.com/mithrandie/csvq/lib/query"
	"github.com/mithrandie/csvq/lib/value"

	m "verif/harness/internal/c02m"
	"verif/harness/internal/core"
	"verif/harness/internal/drv"
	"verif/harness/internal/rv"
)

func init() {
	core.Register(&core.Check{
		ID:    "C02",
		Level: "exploration",
		Rule: "family A (write-then-read): every table of a slice (all 1x1/1x2/2x1 tables over the full cell alphabet, all 2x2 tables over a sub-alphabet, all header pairs, a fixed table set) x " +
			"every dialect of the slice's grid (format x delimiter x encoding x line break x enclose-all/without-header/strip-ending-line-break/json-escape/pretty-print x positions) x " +
			"write path (--out, stdout, CREATE+INSERT+COMMIT), written by csvq, re-imported by a fresh transaction under the mirrored import settings and compared with the reference model; " +
			"family B (dialect preservation): every file of the dialect grid (rendered by the model) x import encoding option x session line break/strip flags x one UPDATE or INSERT + COMMIT, " +
			"compared byte-wise with the model's rendering of the edited table in the same dialect and re-imported; one case = one (table, dialect, path) or (file, options, edit); " +
			"non-trivial = csvq wrote a file with at least one record and it was read back and compared (refused, skipped and nothing-to-write cases are trivial); distinct by case key",
		Assume: []string{
			"cell/header alphabets are finite samples of each character class (delimiters, quotes, the three line breaks, tab, colon, edge/inner blanks, Latin-1, CJK, typed integer/boolean, NULL, empty)",
			"reference model internal/c02m written from the manual, RFC 4180, ltsv.org and RFC 8259; encodings from golang.org/x/text",
			"the in-process driver reproduces the CLI's --out handling (action.Run) for the out path; stdout is captured through Session.SetStdout",
			"where the manual is silent csvq is followed: enclose-all detection of files without unquoted letters, JSON pretty-print not detected on load, presence of the ending line break follows --strip-ending-line-break",
		},
		Run:    c02Run,
		Replay: c02Replay,
	})
}

// ---- case ---------------------------------------------------------------------------------------

type c02Case struct {
	Fam  string    `json:"fam"`            // A | B
	Path string    `json:"path,omitempty"` // A: out | stdout | create
	T    m.Table   `json:"table"`
	D    m.Dialect `json:"dialect"`
	// family B
	Final  bool   `json:"final,omitempty"`   // the original file ends with a line break
	ImpEnc string `json:"imp_enc,omitempty"` // --encoding given at import
	SessLB string `json:"sess_lb,omitempty"` // --line-break of the session
	Op     string `json:"op,omitempty"`      // update | insert
	NewVal m.Cell `json:"new_val,omitempty"`
}

func (k c02Case) Key() string {
	return fmt.Sprintf("%s|%s|%s|%s|%v|%s|%s|%s|%s", k.Fam, k.Path, k.D.Key(), k.T.Key(), k.Final, k.ImpEnc, k.SessLB, k.Op, k.NewVal.Key())
}

type c02Finding struct {
	Kind string
	Msg  string
}

type c02Result struct {
	Findings []c02Finding
	Outcome  string // refused | skipped | nothing | compared | ...
	Nontriv  bool
	Note     string
	Sample   map[string]any
}

func (r *c02Result) add(kind, format string, a ...any) {
	for _, f := range r.Findings {
		if f.Kind == kind {
			return
		}
	}
	r.Findings = append(r.Findings, c02Finding{kind, fmt.Sprintf(format, a...)})
}

func (r *c02Result) hasClass(class string) bool {
	for _, f := range r.Findings {
		if c02KindClass(f.Kind) == class {
			return true
		}
	}
	return false
}

// the ways a round trip can go wrong are one class for minimisation: which of them shows depends on the neighbours
func c02KindClass(kind string) string {
	switch kind {
	case "reload-error", "reload-panic", "record-count-differs", "field-count-differs", "header-differs", "cell-differs":
		return "round-trip"
	case "byte-order-mark-changed", "encoding-changed", "line-break-changed", "line-count-changed", "delimiter-changed", "quoting-changed", "content-differs":
		return "bytes-differ"
	}
	return kind
}

// ---- driving csvq ---------------------------------------------------------------------------------

var c02Ext = map[string]string{"CSV": ".csv", "TSV": ".tsv", "LTSV": ".ltsv", "FIXED": ".txt", "JSON": ".json", "JSONL": ".jsonl"}

// one csvq process image; lock waits are long so that a loaded machine cannot turn into a timeout error
func c02Env(dir string, text bool) *drv.Env {
	var e *drv.Env
	if text {
		e = drv.NewText(dir)
	} else {
		e = drv.New(dir)
	}
	e.Tx.UpdateWaitTimeout(60, 5*time.Millisecond)
	return e
}

func c02SetFlag(e *drv.Env, k string, v any) {
	if err := e.Tx.SetFlag(k, v); err != nil {
		panic(fmt.Sprintf("harness: flag %s=%v rejected: %v", k, v, err))
	}
}

func c02ExportFlags(e *drv.Env, d m.Dialect) {
	if err := e.Tx.SetFormatFlag(d.Format, ""); err != nil {
		panic(err)
	}
	if d.Enc != "" && !d.IsJSON() {
		c02SetFlag(e, "WRITE_ENCODING", d.Enc)
	}
	if d.Format == "CSV" && d.Delim != "" {
		c02SetFlag(e, "WRITE_DELIMITER", d.Delim)
	}
	if d.LB != "" {
		c02SetFlag(e, "LINE_BREAK", d.LB)
	}
	c02SetFlag(e, "ENCLOSE_ALL", d.EncloseAll)
	c02SetFlag(e, "WITHOUT_HEADER", d.WithoutHeader)
	c02SetFlag(e, "STRIP_ENDING_LINE_BREAK", d.Strip)
	if d.Format == "FIXED" && d.Pos != "" {
		c02SetFlag(e, "WRITE_DELIMITER_POSITIONS", d.Pos)
	}
	if d.Escape != "" {
		c02SetFlag(e, "JSON_ESCAPE", d.Escape)
	}
	c02SetFlag(e, "PRETTY_PRINT", d.Pretty)
}

// the mirrored import settings of a dialect; enc overrides the --encoding option ("" = the dialect's)
func c02ImportFlags(e *drv.Env, d m.Dialect, enc string) {
	c02SetFlag(e, "IMPORT_FORMAT", d.Format)
	if d.Format == "CSV" && d.Delim != "" {
		c02SetFlag(e, "DELIMITER", d.Delim)
	}
	if !d.IsJSON() {
		if enc == "" {
			enc = d.Enc
		}
		if enc != "" {
			c02SetFlag(e, "ENCODING", enc)
		}
	}
	switch d.Format {
	case "CSV", "TSV", "FIXED":
		c02SetFlag(e, "NO_HEADER", d.WithoutHeader)
	}
	if d.Format == "FIXED" && d.Pos != "" {
		c02SetFlag(e, "DELIMITER_POSITIONS", d.Pos)
	}
}

func c02Primary(c m.Cell) value.Primary {
	switch c.K {
	case m.KStr:
		return value.NewString(c.S)
	case m.KInt:
		return value.NewInteger(c.I)
	case m.KBool:
		return value.NewBoolean(c.B)
	}
	return value.NewNull()
}

func c02Ident(s string) string {
	return "`" + strings.ReplaceAll(strings.ReplaceAll(s, `\`, `\\`), "`", "``") + "`"
}

// binds every cell to a variable and returns the VALUES lists
func c02Bind(e *drv.Env, rows [][]m.Cell) []string {
	out := make([]string, len(rows))
	n := 0
	for i, r := range rows {
		vs := make([]string, len(r))
		for j, c := range r {
			name := "v" + strconv.Itoa(n)
			n++
			e.SetVar(name, c02Primary(c))
			vs[j] = "@" + name
		}
		out[i] = "(" + strings.Join(vs, ", ") + ")"
	}
	return out
}

type c02Written struct {
	Err     error
	Panic   any
	Data    []byte
	Exists  bool // the output file exists afterwards
	IsStdio bool
}

// c02Write lets csvq write table t in dialect d through the given path into dir; the file is dir/t<ext>.
func c02Write(dir string, t m.Table, d m.Dialect, path string) c02Written {
	drv.ClearDir(dir)
	name := "t" + c02Ext[d.Format]
	full := filepath.Join(dir, name)
	var w c02Written
	switch path {
	case "out", "stdout":
		var e *drv.Env
		if path == "stdout" {
			e = c02Env(dir, true)
			w.IsStdio = true
		} else {
			e = c02Env(dir, false)
		}
		defer e.Close()
		e.Tx.Flags.SetQuiet(true)
		c02ExportFlags(e, d)
		var fp *os.File
		if path == "out" {
			var err error
			if fp, err = os.Create(full); err != nil {
				panic(err)
			}
			e.Sess.SetOutFile(fp)
		}
		xs := make([]string, len(t.Header))
		sel := make([]string, len(t.Header))
		for i, h := range t.Header {
			xs[i] = "x" + strconv.Itoa(i)
			sel[i] = xs[i] + " AS " + c02Ident(h)
		}
		sql := "DECLARE src VIEW (" + strings.Join(xs, ", ") + ");"
		if vals := c02Bind(e, t.Rows); len(vals) > 0 {
			sql += "INSERT INTO src VALUES " + strings.Join(vals, ", ") + ";"
		}
		sql += "SELECT " + strings.Join(sel, ", ") + " FROM src;"
		r := e.Exec(sql)
		w.Err, w.Panic = r.Err, r.Panic
		if path == "out" {
			// what action.Run does with the --out file when the program ends
			if st, err := fp.Stat(); err == nil && st.Size() < 1 {
				os.Remove(full)
			}
			fp.Close()
		} else if w.Err == nil && w.Panic == nil && len(r.Out) > 0 {
			os.WriteFile(full, []byte(r.Out), 0644)
		}
	case "create":
		e := c02Env(dir, false)
		defer e.Close()
		c02ExportFlags(e, d)
		hs := make([]string, len(t.Header))
		for i, h := range t.Header {
			hs[i] = c02Ident(h)
		}
		sql := "CREATE TABLE " + c02Ident(name) + " (" + strings.Join(hs, ", ") + ");"
		if d.Format == "FIXED" {
			if d.Spaces() {
				sql += "ALTER TABLE " + c02Ident(name) + " SET FORMAT TO 'FIXED';"
			} else {
				sql += "ALTER TABLE " + c02Ident(name) + " SET DELIMITER_POSITIONS TO '" + d.Pos + "';"
			}
		}
		if d.IsJSON() && d.Escape != "" && d.Escape != "BACKSLASH" {
			sql += "ALTER TABLE " + c02Ident(name) + " SET JSON_ESCAPE TO '" + d.Escape + "';"
		}
		if vals := c02Bind(e, t.Rows); len(vals) > 0 {
			sql += "INSERT INTO " + c02Ident(name) + " VALUES " + strings.Join(vals, ", ") + ";"
		}
		sql += "COMMIT;"
		r := e.Exec(sql)
		w.Err, w.Panic = r.Err, r.Panic
		if w.Err != nil || w.Panic != nil {
			e.Close() // rollback, as the CLI does on exit
		}
	default:
		panic("bad path " + path)
	}
	if b, err := os.ReadFile(full); err == nil {
		w.Exists = true
		w.Data = b
	}
	return w
}

type c02Loaded struct {
	Err    error
	Panic  any
	Header []string
	Null   [][]bool
	Text   [][]string
	LB     string
	Enc    string
}

func c02Text(v rv.V) (bool, string) {
	switch v.K {
	case rv.Null:
		return true, ""
	case rv.Str:
		return false, v.S
	case rv.Int:
		return false, strconv.FormatInt(v.I, 10)
	case rv.Float:
		return false, strconv.FormatFloat(v.F, 'f', -1, 64)
	case rv.Bool:
		return false, strconv.FormatBool(v.B)
	}
	return false, v.Key()
}

// c02Load reads dir/t<ext> in a fresh transaction under the mirrored import settings.
func c02Load(dir string, d m.Dialect, enc string) c02Loaded {
	e := c02Env(dir, false)
	defer e.Close()
	c02ImportFlags(e, d, enc)
	r := e.Exec("SELECT * FROM " + c02Ident("t"+c02Ext[d.Format]))
	var l c02Loaded
	l.Err, l.Panic = r.Err, r.Panic
	if l.Err != nil && strings.Contains(l.Err.Error(), "is ambiguous") {
		// two column names that a field reference cannot tell apart (equal, or equal but for letter case or edge blanks):
		// `SELECT *` is refused; that is csvq's rule for field references, the table itself is loaded. It is read from
		// the transaction's table cache instead.
		return c02LoadCached(dir, d, enc)
	}
	if l.Err != nil || l.Panic != nil || len(r.Views) != 1 {
		if l.Err == nil && l.Panic == nil {
			l.Err = fmt.Errorf("harness: no result view")
		}
		return l
	}
	v := r.Views[0]
	l.Header = drv.Header(v)
	for _, row := range drv.Rows(v) {
		ns := make([]bool, len(row))
		ts := make([]string, len(row))
		for i, c := range row {
			ns[i], ts[i] = c02Text(c)
		}
		l.Null = append(l.Null, ns)
		l.Text = append(l.Text, ts)
	}
	return l
}

// c02LoadCached reads dir/t<ext> in a fresh transaction and returns the table the loader has put into the cache.
func c02LoadCached(dir string, d m.Dialect, enc string) c02Loaded {
	e := c02Env(dir, false)
	defer e.Close()
	c02ImportFlags(e, d, enc)
	r := e.Exec("SELECT COUNT(*) FROM " + c02Ident("t"+c02Ext[d.Format]))
	var l c02Loaded
	l.Err, l.Panic = r.Err, r.Panic
	if l.Err != nil || l.Panic != nil {
		return l
	}
	var v *query.View
	n := 0
	e.Tx.CachedViews.Range(func(_, x interface{}) bool {
		if cv, ok := x.(*query.View); ok {
			v = cv
			n++
		}
		return true
	})
	if n != 1 {
		l.Err = fmt.Errorf("harness: %d tables in the cache after one file was read", n)
		return l
	}
	l.Header = drv.Header(v)
	for _, row := range drv.Rows(v) {
		ns := make([]bool, len(row))
		ts := make([]string, len(row))
		for i, c := range row {
			ns[i], ts[i] = c02Text(c)
		}
		l.Null = append(l.Null, ns)
		l.Text = append(l.Text, ts)
	}
	return l
}

func (l c02Loaded) String() string {
	if l.Err != nil {
		return "error: " + l.Err.Error()
	}
	if l.Panic != nil {
		return fmt.Sprint("panic: ", l.Panic)
	}
	var sb strings.Builder
	fmt.Fprintf(&sb, "header %q rows", l.Header)
	for i := range l.Text {
		sb.WriteString(" [")
		for j := range l.Text[i] {
			if j > 0 {
				sb.WriteString(" | ")
			}
			if l.Null[i][j] {
				sb.WriteString("NULL")
			} else {
				sb.WriteString(strconv.Quote(l.Text[i][j]))
			}
		}
		sb.WriteString("]")
	}
	return sb.String()
}

// compare a loaded table with the expectation; returns kind, detail ("" = equal)
func c02Compare(ex m.Expect, l c02Loaded) (string, string) {
	if l.Panic != nil {
		return "reload-panic", fmt.Sprint(l.Panic)
	}
	if l.Err != nil {
		return "reload-error", l.Err.Error()
	}
	if len(l.Text) != len(ex.Rows) {
		return "record-count-differs", fmt.Sprintf("%d records read back, %d written", len(l.Text), len(ex.Rows))
	}
	if !(ex.HeaderFree && len(ex.Rows) == 0) {
		if len(l.Header) != len(ex.Header) {
			return "field-count-differs", fmt.Sprintf("%d fields read back, %d written", len(l.Header), len(ex.Header))
		}
		for i := range ex.Header {
			if l.Header[i] != ex.Header[i] {
				return "header-differs", fmt.Sprintf("column %d is named %q, written as %q", i+1, l.Header[i], ex.Header[i])
			}
		}
	}
	for i, row := range ex.Rows {
		if len(l.Text[i]) != len(row) {
			return "field-count-differs", fmt.Sprintf("record %d has %d fields, written with %d", i+1, len(l.Text[i]), len(row))
		}
		for j, want := range row {
			if !ex.CellEq(want, l.Null[i][j], l.Text[i][j]) {
				got := strconv.Quote(l.Text[i][j])
				if l.Null[i][j] {
					got = "NULL"
				}
				return "cell-differs", fmt.Sprintf("record %d field %d reads back as %s, written as %s", i+1, j+1, got, want.Key())
			}
		}
	}
	return "", ""
}

// the two ways the unchanged tree damages the END of a file, undone. They are only named when the file as written does
// not read back and the repaired file does, so a csvq that learns to read such endings raises nothing.
func c02FixRawEnding(data []byte, d m.Dialect, strip bool, sessLB string) ([]byte, bool) {
	enc := d.WriteEnc()
	if strip || len(data) == 0 || (d.Format == "FIXED" && d.SingleLine()) || !m.IsUTF16(enc) {
		return data, false
	}
	raw := []byte(m.Dialect{LB: sessLB}.LineBreak())
	encLB, _ := m.EncodeText(string(raw), enc)
	if bytes.HasSuffix(data, raw) && !bytes.HasSuffix(data, encLB) {
		return append(append([]byte(nil), data[:len(data)-len(raw)]...), encLB...), true
	}
	return data, false
}

func c02FixBlankLastLine(data []byte, d m.Dialect, strip bool, sessLB string) ([]byte, bool) {
	if strip || d.Format != "JSONL" || len(data) == 0 {
		return data, false
	}
	lb := []byte(m.Dialect{LB: sessLB}.LineBreak())
	if bytes.Equal(data, lb) {
		return []byte{}, true
	}
	if bytes.HasSuffix(data, append(append([]byte(nil), lb...), lb...)) {
		return data[:len(data)-len(lb)], true
	}
	return data, false
}

// c02LoadChecked reads the file as csvq wrote it in a fresh transaction and compares; on a disagreement it tries the two
// ending repairs to name the cause. Returns what was read back from the file as written.
func c02LoadChecked(res *c02Result, dir string, d m.Dialect, impEnc string, data []byte, strip bool, sessLB string, ex m.Expect, context string) c02Loaded {
	full := filepath.Join(dir, "t"+c02Ext[d.Format])
	l := c02Load(dir, d, impEnc)
	kind, detail := c02Compare(ex, l)
	if kind == "" {
		return l
	}
	if fixed, ok := c02FixRawEnding(data, d, strip, sessLB); ok {
		os.WriteFile(full, fixed, 0644)
		if k2, _ := c02Compare(ex, c02Load(dir, d, impEnc)); k2 == "" {
			res.add("ending-line-break-not-in-file-encoding", "the ending line break of a %s file is appended as the raw byte(s) %q instead of being encoded; %s; %s; read back: %s",
				d.WriteEnc(), m.Dialect{LB: sessLB}.LineBreak(), detail, context, l.String())
			return l
		}
	}
	if fixed, ok := c02FixBlankLastLine(data, d, strip, sessLB); ok {
		os.WriteFile(full, fixed, 0644)
		if k2, _ := c02Compare(ex, c02Load(dir, d, impEnc)); k2 == "" {
			res.add("jsonl-ends-with-blank-line", "the JSON Lines file ends with a blank line (the ending line break is appended after the last record's own), which the loader rejects; %s; %s; read back: %s",
				detail, context, l.String())
			return l
		}
	}
	res.add(kind, "%s; %s; read back: %s", detail, context, l.String())
	return l
}

// ---- family A -------------------------------------------------------------------------------------

func c02RunA(dir string, k c02Case) (res c02Result) {
	ex := m.Reload(k.T, k.D)
	if len(k.T.Rows) == 0 && k.D.IsJSON() && c02Repeats(k.T.Header) {
		// a JSON file names its columns in its records: without a record no member name is written, repeated or not
		ex = m.Reload(m.Table{Header: c02HeaderN(len(k.T.Header))}, k.D)
	}
	switch {
	case ex.Skip != "":
		res.Outcome = "skipped: " + ex.Skip
		return
	case ex.Nothing:
		res.Outcome = "nothing to write"
		return
	}
	w := c02Write(dir, k.T, k.D, k.Path)
	if w.Panic != nil {
		res.add("write-panic", "csvq panicked while writing: %v", w.Panic)
		return
	}
	if w.Err != nil {
		if drv.IsFatal(w.Err) {
			res.add("write-panic", "csvq failed internally while writing: %v", w.Err)
			return
		}
		res.Outcome = "refused"
		if ex.Refuse == "" {
			res.Outcome = "refused although the model can spell it: " + k.D.Format + ": " + c02ErrClass(w.Err)
		}
		if !w.IsStdio && w.Exists && len(w.Data) > 0 {
			res.add("refused-but-output-left", "csvq answered %q but left %d bytes in the output file: %q", w.Err.Error(), len(w.Data), c02Clip(w.Data))
		}
		return
	}
	if ex.Refuse != "" {
		res.Outcome = "written although unspellable"
		l := c02Load(dir, k.D, "")
		res.add("unspellable-not-refused", "the format cannot spell this table (%s) but csvq wrote %q without an error; it reads back as %s", ex.Refuse, c02Clip(w.Data), l.String())
		return
	}
	if !w.Exists {
		if len(k.T.Rows) == 0 && ex.HeaderFree {
			res.Outcome = "nothing written for an empty table"
			return
		}
		res.add("nothing-written", "csvq reported success but wrote nothing")
		return
	}
	res.Outcome = "compared"
	res.Nontriv = len(k.T.Rows) > 0
	l := c02LoadChecked(&res, dir, k.D, "", w.Data, k.D.Strip, k.D.LB, ex, fmt.Sprintf("csvq wrote %q", c02Clip(w.Data)))
	res.Sample = map[string]any{"family": "A", "path": k.Path, "dialect": k.D.Key(), "table": k.T.Key(), "written": c02Clip(w.Data), "read_back": l.String()}
	return
}

func c02Clip(b []byte) string {
	if len(b) > 160 {
		return string(b[:160]) + "..."
	}
	return string(b)
}

func c02ErrClass(err error) string {
	s := err.Error()
	if strings.HasPrefix(s, "[L:") {
		if i := strings.Index(s, "] "); i > 0 {
			s = s[i+2:]
		}
	}
	// drop paths, positions and quoted data so that the class is stable
	var sb strings.Builder
	inQ := false
	for _, r := range s {
		switch {
		case r == '"':
			inQ = !inQ
			if inQ {
				sb.WriteString("\"..\"")
			}
		case inQ:
		case r >= '0' && r <= '9':
			sb.WriteByte('#')
		default:
			sb.WriteRune(r)
		}
	}
	s = sb.String()
	if i := strings.Index(s, "/dev/shm"); i >= 0 {
		if j := strings.IndexAny(s[i:], ": "); j > 0 {
			s = s[:i] + "<file>" + s[i+j:]
		}
	}
	if len(s) > 90 {
		s = s[:90]
	}
	return s
}

// ---- family B -------------------------------------------------------------------------------------

// the table a file in dialect d holds after csvq has loaded it: texts, NULL for unquoted empty fields
func c02AsLoaded(t m.Table, d m.Dialect) m.Table {
	n := t.Clone()
	if !d.HasHeaderLine() {
		for i := range n.Header {
			n.Header[i] = "c" + strconv.Itoa(i+1)
		}
	}
	return n
}

func c02RunB(dir string, k c02Case) (res c02Result) {
	d := k.D
	orig, ok := m.Render(k.T, d, k.Final)
	if !ok {
		res.Outcome = "skipped: the model cannot render the file"
		return
	}
	name := "t" + c02Ext[d.Format]
	full := filepath.Join(dir, name)
	drv.ClearDir(dir)
	if err := os.WriteFile(full, orig, 0644); err != nil {
		panic(err)
	}
	loaded := c02AsLoaded(k.T, d)
	edited := loaded.Clone()
	e := c02Env(dir, false)
	c02ImportFlags(e, d, k.ImpEnc)
	c02SetFlag(e, "LINE_BREAK", k.SessLB)
	c02SetFlag(e, "STRIP_ENDING_LINE_BREAK", d.Strip)
	e.SetVar("nv", c02Primary(k.NewVal))
	var sql string
	switch k.Op {
	case "update":
		// the last column of the first record
		last := len(loaded.Header) - 1
		e.SetVar("k", c02Primary(loaded.Rows[0][0]))
		if last == 0 {
			sql = "UPDATE " + c02Ident(name) + " SET " + c02Ident(loaded.Header[0]) + " = @nv WHERE " + c02Ident(loaded.Header[0]) + " = @k;"
			for i := range edited.Rows {
				if edited.Rows[i][0].Text() == loaded.Rows[0][0].Text() {
					edited.Rows[i][0] = k.NewVal
				}
			}
		} else {
			sql = "UPDATE " + c02Ident(name) + " SET " + c02Ident(loaded.Header[last]) + " = @nv WHERE " + c02Ident(loaded.Header[0]) + " = @k;"
			for i := range edited.Rows {
				if edited.Rows[i][0].Text() == loaded.Rows[0][0].Text() {
					edited.Rows[i][last] = k.NewVal
				}
			}
		}
	case "insert":
		row := make([]m.Cell, len(loaded.Header))
		vs := make([]string, len(row))
		for i := range row {
			row[i] = m.Str("n" + strconv.Itoa(i+1))
			vs[i] = "'n" + strconv.Itoa(i+1) + "'"
		}
		row[len(row)-1] = k.NewVal
		vs[len(row)-1] = "@nv"
		sql = "INSERT INTO " + c02Ident(name) + " VALUES (" + strings.Join(vs, ", ") + ");"
		edited.Rows = append(edited.Rows, row)
	default:
		panic("bad op")
	}
	r := e.Exec(sql + "COMMIT;")
	e.Close()
	after, _ := os.ReadFile(full)
	if r.Panic != nil || drv.IsFatal(r.Err) {
		res.add("edit-panic", "csvq failed internally: %v %v", r.Panic, r.Err)
		return
	}
	// what the edited table looks like in dialect d
	ed := d
	// a JSON Lines record always ends with its line break (follows csvq; --strip-ending-line-break only drops the extra one)
	want, spell := m.Render(edited, ed, !d.Strip || d.Format == "JSONL")
	ex := m.Reload(edited, ed)
	if r.Err != nil {
		res.Outcome = "edit refused"
		if spell && ex.Refuse == "" && ex.Skip == "" {
			res.Outcome = "edit refused although the model can spell it: " + d.Format + " lb=" + d.LB + ": " + c02ErrClass(r.Err)
		}
		if !bytes.Equal(after, orig) {
			res.add("refused-but-file-changed", "csvq answered %q but the file changed from %q to %q", r.Err.Error(), c02Clip(orig), c02Clip(after))
		}
		return
	}
	if r.Affected != 1 {
		res.add("edit-affected-count", "the edit reported %d affected records instead of 1: the file was not loaded as the table it spells; file %q", r.Affected, c02Clip(orig))
		return
	}
	if !spell || ex.Refuse != "" {
		res.Outcome = "written although unspellable"
		res.add("unspellable-not-refused", "the dialect cannot spell the edited table (%s) but csvq rewrote the file as %q", ex.Refuse, c02Clip(after))
		return
	}
	res.Outcome = "compared"
	res.Nontriv = true

	// 1. bytes
	data := after
	enc := d.WriteEnc()
	if fixed, ok := c02FixRawEnding(data, d, d.Strip, k.SessLB); ok {
		// byte-wise the file is no longer text in its encoding
		res.add("ending-line-break-not-in-file-encoding", "the ending line break of a %s file is appended as the raw byte(s) %q instead of being encoded: file %q became %q",
			enc, m.Dialect{LB: k.SessLB}.LineBreak(), c02Clip(orig), c02Clip(after))
		data = fixed
	}
	if fixed, ok := c02FixBlankLastLine(data, d, d.Strip, k.SessLB); ok {
		data = fixed // tolerated byte-wise; whether the blank last line matters is decided by the fresh load below
	}
	if !d.Strip && !(d.Format == "FIXED" && d.SingleLine()) && !d.IsJSON() && k.SessLB != d.LB {
		// the file's own line break must end it, not the session's
		fileLB, _ := m.EncodeText(d.LineBreak(), enc)
		sessLB, _ := m.EncodeText(m.Dialect{LB: k.SessLB}.LineBreak(), enc)
		if !bytes.HasSuffix(data, fileLB) || (d.LB == "LF" && k.SessLB == "CRLF" && bytes.HasSuffix(data, sessLB)) {
			if bytes.HasSuffix(data, sessLB) {
				res.add("ending-line-break-from-session-flag", "a file with %s line breaks ends with the session's --line-break %s after the update: %q", d.LB, k.SessLB, c02Clip(after))
				data = append(append([]byte(nil), data[:len(data)-len(sessLB)]...), fileLB...)
			}
		}
	}
	byteCompare := true
	switch {
	case d.Spaces():
		byteCompare = false // column widths follow the data; only the reload and the line breaks are determinable
	case d.IsJSON() && d.Pretty:
		byteCompare = false // pretty printing is not detected on load (manual silent); reload only
		if !bytes.Contains(after, []byte("  ")) {
			res.Note = "B: a pretty-printed JSON file is rewritten compact (followed, the manual is silent)"
		}
	}
	if d.Format == "JSON" && !d.Strip {
		// JSON has no line structure: the ending line break is the session's (documented flag)
		want, _ = m.Render(edited, ed, false)
		want = append(want, []byte(m.Dialect{LB: k.SessLB}.LineBreak())...)
	}
	if byteCompare && !bytes.Equal(c02NormJSON(data, d), c02NormJSON(want, d)) {
		alt := false
		if (d.Format == "CSV" || d.Format == "TSV") && !d.EncloseAll && !c02HasUnquotedLetter(loaded, d) {
			// no unquoted field of the original holds a letter: csvq takes the file for an enclose-all file (manual silent)
			q := ed
			q.EncloseAll = true
			if w2, ok := m.Render(edited, q, !d.Strip); ok && bytes.Equal(data, w2) {
				alt = true
			}
		}
		if !alt {
			kind := c02DiffKind(data, want, d)
			res.add(kind, "file %q, after the edit csvq wrote %q, the same dialect spells the edited table as %q", c02Clip(orig), c02Clip(after), c02Clip(want))
		}
	}
	if !byteCompare && !d.IsJSON() {
		// line breaks inside the file must still be the file's
		if txt, ok := c02Decode(data, enc); ok {
			for _, other := range []string{"LF", "CRLF", "CR"} {
				if other != d.LB && c02CountBreak(txt, other) > 0 {
					res.add("line-break-changed", "a %s file contains %s line breaks after the update: %q", d.LB, other, c02Clip(after))
					break
				}
			}
		}
	}
	// 2. fresh load, under the same import options, of the file as csvq left it
	if ex.Skip != "" {
		return
	}
	l := c02LoadChecked(&res, dir, d, k.ImpEnc, after, d.Strip, k.SessLB, ex, fmt.Sprintf("file %q became %q", c02Clip(orig), c02Clip(after)))
	res.Sample = map[string]any{"family": "B", "dialect": d.Key(), "op": k.Op, "new_value": k.NewVal.Key(), "before": c02Clip(orig), "after": c02Clip(after), "read_back": l.String()}
	return
}

// hex digits of \uXXXX escapes are case-insensitive (the manual prints them in upper case)
func c02NormJSON(b []byte, d m.Dialect) []byte {
	if !d.IsJSON() {
		return b
	}
	out := append([]byte(nil), b...)
	for i := 0; i+5 < len(out); i++ {
		if out[i] == '\\' && out[i+1] == 'u' {
			for j := i + 2; j < i+6; j++ {
				if out[j] >= 'A' && out[j] <= 'F' {
					out[j] += 'a' - 'A'
				}
			}
			i += 5
		} else if out[i] == '\\' {
			i++
		}
	}
	return out
}

func c02HasUnquotedLetter(t m.Table, d m.Dialect) bool {
	delim := string(d.Delimiter())
	chk := func(s string) bool {
		if strings.Contains(s, delim) || strings.ContainsAny(s, "\"\r\n") {
			return false // written quoted
		}
		for _, r := range s {
			if r >= 'a' && r <= 'z' || r >= 'A' && r <= 'Z' || r > 0x7f {
				return true
			}
		}
		return false
	}
	if d.HasHeaderLine() {
		for _, h := range t.Header {
			if chk(h) {
				return true
			}
		}
	}
	for _, r := range t.Rows {
		for _, c := range r {
			if c.K != m.KNull && chk(c.Text()) {
				return true
			}
		}
	}
	return false
}

func c02Decode(data []byte, enc string) (string, bool) {
	data = bytes.TrimPrefix(data, m.BOM(enc))
	switch {
	case m.IsUTF16(enc):
		if len(data)%2 != 0 {
			return "", false
		}
		le := enc == "UTF16LE" || enc == "UTF16LEM"
		var sb strings.Builder
		for i := 0; i+1 < len(data); i += 2 {
			var u uint16
			if le {
				u = uint16(data[i]) | uint16(data[i+1])<<8
			} else {
				u = uint16(data[i])<<8 | uint16(data[i+1])
			}
			sb.WriteRune(rune(u)) // the alphabets stay inside the BMP
		}
		return sb.String(), true
	case enc == "SJIS":
		// line breaks and ASCII are single bytes in Shift_JIS and never trail bytes below 0x40
		return string(data), true
	}
	return string(data), true
}

func c02CountBreak(s, lb string) int {
	switch lb {
	case "CRLF":
		return strings.Count(s, "\r\n")
	case "LF":
		return strings.Count(s, "\n") - strings.Count(s, "\r\n")
	}
	return strings.Count(s, "\r") - strings.Count(s, "\r\n")
}

// names the first dialect element in which two files differ
func c02DiffKind(got, want []byte, d m.Dialect) string {
	enc := d.WriteEnc()
	if bytes.HasPrefix(want, m.BOM(enc)) != bytes.HasPrefix(got, m.BOM(enc)) && len(m.BOM(enc)) > 0 {
		return "byte-order-mark-changed"
	}
	g, ok1 := c02Decode(got, enc)
	w, ok2 := c02Decode(want, enc)
	if !ok1 || !ok2 {
		return "encoding-changed"
	}
	if d.Format == "JSONL" && strings.NewReplacer("\r\n", "\n", "\r", "\n").Replace(g) == strings.NewReplacer("\r\n", "\n", "\r", "\n").Replace(w) {
		return "jsonl-line-break-changed"
	}
	for _, lb := range []string{"LF", "CRLF", "CR"} {
		if (c02CountBreak(g, lb) > 0) != (c02CountBreak(w, lb) > 0) {
			return "line-break-changed"
		}
	}
	gl := strings.FieldsFunc(g, func(r rune) bool { return r == '\r' || r == '\n' })
	wl := strings.FieldsFunc(w, func(r rune) bool { return r == '\r' || r == '\n' })
	if len(gl) != len(wl) {
		return "line-count-changed"
	}
	for _, lb := range []string{"LF", "CRLF", "CR"} {
		if c02CountBreak(g, lb) != c02CountBreak(w, lb) {
			return "line-break-changed"
		}
	}
	if !d.IsJSON() && d.Format != "LTSV" && d.Format != "FIXED" {
		delim := string(d.Delimiter())
		for i := range gl {
			if strings.Count(gl[i], delim) != strings.Count(wl[i], delim) {
				return "delimiter-changed"
			}
		}
		if strings.Count(g, `"`) != strings.Count(w, `"`) {
			return "quoting-changed"
		}
	}
	return "content-differs"
}

// ---- alphabets and grids --------------------------------------------------------------------------

func c02Cells(full bool) []m.Cell {
	cs := []m.Cell{m.Null(), m.Str(""), m.Str("a"), m.Str("a,b"), m.Str(`a"b`), m.Str("a\nb"), m.Str("a\r\nb"), m.Str("a\rb"), m.Str("a\tb"),
		m.Str("a:b"), m.Str(" a "), m.Str("é"), m.Str("あ"), m.Str("1"), m.Str("true"), m.Str("-"), m.Str("'"), m.Str(`a\`)}
	if full {
		cs = append(cs, m.Int(1), m.Bool(true), m.Str("a;b"), m.Str("a b"), m.Str(`"`), m.Str("\n"), m.Str("a\\b"), m.Str("a/b"), m.Str("ab:"), m.Str("abcdefg"))
	}
	return cs
}

func c02SubCells(thorough bool) []m.Cell {
	cs := []m.Cell{m.Null(), m.Str("a"), m.Str("a,b"), m.Str(`a"b`), m.Str("a\nb")}
	if thorough {
		cs = append(cs, m.Str(""), m.Str("a\tb"), m.Str("a:b"), m.Str(" a "))
	}
	return cs
}

var c02Headers = []string{"c1", "a b", "a,b", "a:b", "あ", "A", "x-1", `a"b`, "a.b"}

type c02Grid struct {
	Formats []string // CSV CSV; TSV LTSV FIXED FIXED[] FIXEDS[] JSON JSONL
	Encs    []string
	LBs     []string
	Bools   bool // vary enclose-all / without-header / escape / pretty where the format has them
	Strip   []bool
	Paths   []string
}

var c02AllFormats = []string{"CSV", "CSV;", "TSV", "LTSV", "FIXED", "FIXED[]", "FIXEDS[]", "JSON", "JSONL"}
var c02AllEncs = []string{"UTF8", "UTF8M", "UTF16", "UTF16BE", "UTF16LE", "UTF16BEM", "UTF16LEM", "SJIS"}
var c02AllLBs = []string{"LF", "CRLF", "CR"}
var c02AllPaths = []string{"out", "stdout", "create"}

// dialects of a grid for tables with ncol columns
func (g c02Grid) dialects(ncol int) []m.Dialect {
	var out []m.Dialect
	bools := []bool{false}
	if g.Bools {
		bools = []bool{false, true}
	}
	for _, f := range g.Formats {
		base := m.Dialect{Format: f}
		switch f {
		case "CSV;":
			base.Format, base.Delim = "CSV", ";"
		case "FIXED":
			base.Pos = "SPACES"
		case "FIXED[]", "FIXEDS[]":
			base.Format = "FIXED"
			ps := make([]string, ncol)
			for i := range ps {
				ps[i] = strconv.Itoa(4 * (i + 1))
			}
			base.Pos = "[" + strings.Join(ps, ", ") + "]"
			if f == "FIXEDS[]" {
				base.Pos = "S" + base.Pos
			}
		}
		encs := g.Encs
		if base.IsJSON() {
			encs = []string{"UTF8"}
		}
		for _, enc := range encs {
			for _, lb := range g.LBs {
				for _, strip := range g.Strip {
					d := base
					d.Enc, d.LB, d.Strip = enc, lb, strip
					switch d.Format {
					case "CSV", "TSV":
						for _, q := range bools {
							for _, n := range bools {
								x := d
								x.EncloseAll, x.WithoutHeader = q, n
								out = append(out, x)
							}
						}
					case "FIXED":
						if d.SingleLine() {
							out = append(out, d)
							break
						}
						for _, n := range bools {
							x := d
							x.WithoutHeader = n
							out = append(out, x)
						}
					case "JSON", "JSONL":
						escs := []string{"BACKSLASH"}
						if g.Bools {
							escs = []string{"BACKSLASH", "HEX", "HEXALL"}
						}
						for _, esc := range escs {
							for _, p := range bools {
								x := d
								x.Escape, x.Pretty = esc, p
								out = append(out, x)
							}
						}
					default:
						out = append(out, d)
					}
				}
			}
		}
	}
	return out
}

func c02HeaderN(n int) []string {
	h := make([]string, n)
	for i := range h {
		h[i] = "c" + strconv.Itoa(i+1)
	}
	return h
}

// all r x c tables over cells with the plain header
func c02Tables(r, c int, cells []m.Cell) []m.Table {
	n := r * c
	total := 1
	for i := 0; i < n; i++ {
		total *= len(cells)
	}
	out := make([]m.Table, 0, total)
	idx := make([]int, n)
	for {
		t := m.Table{Header: c02HeaderN(c)}
		for i := 0; i < r; i++ {
			row := make([]m.Cell, c)
			for j := 0; j < c; j++ {
				row[j] = cells[idx[i*c+j]]
			}
			t.Rows = append(t.Rows, row)
		}
		out = append(out, t)
		p := n - 1
		for p >= 0 {
			idx[p]++
			if idx[p] < len(cells) {
				break
			}
			idx[p] = 0
			p--
		}
		if p < 0 {
			break
		}
	}
	return out
}

type c02Slice struct {
	Name   string
	Tables []m.Table
	Grid   c02Grid
}

func c02SlicesA(thorough bool) []c02Slice {
	var s []c02Slice
	cells := c02Cells(thorough)
	small := append(append(c02Tables(1, 1, cells), c02Tables(1, 2, cells)...), c02Tables(2, 1, cells)...)
	// S1: every small table x every format, plain dialect
	g1 := c02Grid{Formats: c02AllFormats, Encs: []string{"UTF8"}, LBs: []string{"LF"}, Bools: true, Strip: []bool{false}, Paths: c02AllPaths}
	if thorough {
		g1.Encs = []string{"UTF8", "UTF16LE", "SJIS"}
		g1.LBs = []string{"LF", "CRLF"}
	}
	s = append(s, c02Slice{"cells", small, g1})
	// S2: 2x2 tables over the sub-alphabet
	g2 := c02Grid{Formats: c02AllFormats, Encs: []string{"UTF8"}, LBs: []string{"LF"}, Strip: []bool{false}, Paths: []string{"out"}}
	if thorough {
		g2.Paths = []string{"out", "create"}
		g2.LBs = []string{"LF", "CRLF"}
	}
	s = append(s, c02Slice{"2x2", c02Tables(2, 2, c02SubCells(thorough)), g2})
	if thorough {
		s = append(s, c02Slice{"3x2", c02Tables(3, 2, []m.Cell{m.Null(), m.Str("a"), m.Str("a\nb")}), g2})
	}
	// S3: the whole dialect grid on a fixed table set
	fixed := []m.Table{
		{Header: []string{"c1", "c2"}, Rows: [][]m.Cell{{m.Str("a"), m.Str("b")}, {m.Str("c"), m.Str("d")}}},
		{Header: []string{"c1", "c2"}, Rows: [][]m.Cell{{m.Str("あ"), m.Str("a,b")}, {m.Str(`a"b`), m.Null()}}},
		{Header: []string{"c1", "c2"}, Rows: nil},
		{Header: []string{"c1"}, Rows: [][]m.Cell{{m.Str("a")}}},
		{Header: []string{"c1", "c2", "c3"}, Rows: [][]m.Cell{{m.Str("a"), m.Int(1), m.Bool(true)}, {m.Str("é"), m.Str("b;c"), m.Str("d")}}},
	}
	g3 := c02Grid{Formats: c02AllFormats, Encs: c02AllEncs, LBs: c02AllLBs, Bools: true, Strip: []bool{false, true}, Paths: c02AllPaths}
	s = append(s, c02Slice{"dialects", fixed, g3})
	// S5: long tables: row counts around the loaders' buffer sizes (300 prepared records, then regrown by estimate)
	var long []m.Table
	counts := []int{300, 301, 601, 1201}
	if thorough {
		counts = []int{1, 299, 300, 301, 302, 599, 600, 601, 901, 1201, 2401, 5000}
	}
	for _, n := range counts {
		t := m.Table{Header: []string{"c1", "c2"}}
		for i := 0; i < n; i++ {
			t.Rows = append(t.Rows, []m.Cell{m.Str(fmt.Sprintf("r%d", i)), m.Str(strings.Repeat("x", i%7))})
		}
		long = append(long, t)
	}
	// front-heavy tables: the loaders estimate the record count from the first 300 records; long records first make
	// the estimate fall short of the real count, so the record buffer has to grow a second time
	for _, n := range []int{1300, 700} {
		t := m.Table{Header: []string{"c1", "c2"}}
		for i := 0; i < n; i++ {
			pad := ""
			if i < 300 {
				pad = strings.Repeat("y", 90)
			}
			t.Rows = append(t.Rows, []m.Cell{m.Str(fmt.Sprintf("r%d", i)), m.Str(pad)})
		}
		long = append(long, t)
		if !thorough {
			break
		}
	}
	g5 := c02Grid{Formats: c02AllFormats, Encs: []string{"UTF8"}, LBs: []string{"LF"}, Strip: []bool{false}, Paths: c02AllPaths}
	if thorough {
		g5.LBs = []string{"LF", "CRLF"}
		g5.Encs = []string{"UTF8", "UTF16LE"}
	}
	s = append(s, c02Slice{"long", long, g5})
	// S4: header pairs
	var ht []m.Table
	for _, h1 := range c02Headers {
		for _, h2 := range c02Headers {
			if h1 == h2 {
				continue
			}
			ht = append(ht, m.Table{Header: []string{h1, h2}, Rows: [][]m.Cell{{m.Str("a"), m.Str("b")}}})
			ht = append(ht, m.Table{Header: []string{h1, h2}})
		}
	}
	g4 := c02Grid{Formats: c02AllFormats, Encs: []string{"UTF8", "SJIS"}, LBs: []string{"LF"}, Bools: true, Strip: []bool{false}, Paths: c02AllPaths}
	if thorough {
		g4.Encs = []string{"UTF8", "UTF16BEM", "SJIS"}
		g4.LBs = []string{"LF", "CRLF"}
	}
	s = append(s, c02Slice{"headers", ht, g4})
	return s
}

// ---- family B grid ----------------------------------------------------------------------------------

func c02CasesB(thorough bool, emit func(c02Case)) {
	bases := []m.Table{
		{Header: []string{"c1", "c2"}, Rows: [][]m.Cell{{m.Str("k1"), m.Str("bb")}, {m.Str("k2"), m.Str("dd")}}},
		{Header: []string{"id", "na"}, Rows: [][]m.Cell{{m.Str("k1"), m.Str("あ")}, {m.Str("12"), m.Str("34")}}},
		{Header: []string{"c1", "c2", "c3"}, Rows: [][]m.Cell{{m.Str("kk1"), m.Str("bbb"), m.Str("ccc")}, {m.Str("kk2"), m.Str("eee"), m.Str("fff")}}},
	}
	quoted := m.Table{Header: []string{"c1", "c2"}, Rows: [][]m.Cell{{m.Str("k1"), m.Str("b,\"b;")}, {m.Str("k2"), m.Str("d\\e/")}}}
	nums := m.Table{Header: []string{"c1", "c2"}, Rows: [][]m.Cell{{m.Str("11"), m.Str("22")}, {m.Str("33"), m.Str("44")}}}
	newVals := []m.Cell{m.Str("xx"), m.Str("x,y")}
	jsonVals := []m.Cell{m.Str("xx"), m.Str("x/y")}
	if thorough {
		newVals = append(newVals, m.Str("x/y"), m.Str("x\"y"), m.Str("é"), m.Null(), m.Str("x y"), m.Str("x;y"))
		jsonVals = newVals
	}
	g := c02Grid{Formats: c02AllFormats, Encs: c02AllEncs, LBs: c02AllLBs, Bools: true, Strip: []bool{false, true}}
	for bi, base := range append(append([]m.Table{}, bases...), quoted, nums) {
		for _, d := range g.dialects(len(base.Header)) {
			if d.Enc == "UTF16" {
				continue // an import-side alias (detect BOM and endianness), not a dialect of a file
			}
			if bi >= len(bases) && !(d.Format == "CSV" || d.Format == "TSV" || d.IsJSON()) {
				continue
			}
			if d.IsJSON() && d.Escape != "BACKSLASH" && bi != len(bases) {
				continue // an escape style is only detectable when the file holds an escaped character
			}
			impEncs := []string{d.Enc}
			switch d.Enc {
			case "UTF8", "UTF8M":
				impEncs = []string{"AUTO", "UTF8"}
				if d.Enc == "UTF8M" {
					impEncs = append(impEncs, "UTF8M")
				}
			case "UTF16BEM", "UTF16LEM":
				impEncs = []string{"AUTO", "UTF16", d.Enc}
			}
			if d.IsJSON() {
				impEncs = []string{"AUTO"}
			}
			for _, ie := range impEncs {
				for _, final := range []bool{true, false} {
					if d.Format == "FIXED" && d.SingleLine() && final {
						continue
					}
					sess := []string{"LF", "CRLF"}
					if thorough {
						sess = c02AllLBs
					}
					for _, sl := range sess {
						for _, op := range []string{"update", "insert"} {
							nvs := newVals
							if d.IsJSON() {
								nvs = jsonVals
							}
							for _, nv := range nvs {
								emit(c02Case{Fam: "B", T: base, D: d, Final: final, ImpEnc: ie, SessLB: sl, Op: op, NewVal: nv})
							}
						}
					}
				}
			}
		}
	}
}

// ---- running, signatures, minimisation ----------------------------------------------------------

var c02Slow func(key string)

func c02RunCase(dir string, k c02Case) c02Result {
	t0 := time.Now()
	defer func() {
		if el := time.Since(t0); el > 5*time.Second && c02Slow != nil {
			c02Slow(fmt.Sprintf("%.0fs %s", el.Seconds(), k.Key())) // diagnostics only, never an oracle
		}
	}()
	if k.Fam == "B" {
		return c02RunB(dir, k)
	}
	return c02RunA(dir, k)
}

func c02Class(s string, null bool) string {
	if null {
		return "NULL"
	}
	if s == "" {
		return "EMPTY"
	}
	var tags []string
	add := func(t string) {
		for _, x := range tags {
			if x == t {
				return
			}
		}
		tags = append(tags, t)
	}
	if strings.Contains(s, "\r\n") {
		add("CRLF")
	}
	rest := strings.ReplaceAll(s, "\r\n", "")
	if m.TrimBlanks(s) != s {
		add("EDGEBLANK")
	}
	for i, r := range rest {
		_ = i
		switch {
		case r == '\n':
			add("LF")
		case r == '\r':
			add("CR")
		case r == '\t':
			add("TAB")
		case r == ',':
			add("COMMA")
		case r == ';':
			add("SEMICOLON")
		case r == '"':
			add("QUOTE")
		case r == ':':
			add("COLON")
		case r == ' ':
			if m.TrimBlanks(s) == s {
				add("INNERBLANK")
			}
		case r == '\'':
			add("APOSTROPHE")
		case r == '\\':
			add("BACKSLASH")
		case r == '/':
			add("SLASH")
		case r == '.':
			add("PERIOD")
		case r == '-':
			add("HYPHEN")
		case r > 0x7f && r < 0x100:
			add("LATIN1")
		case r >= 0x100:
			add("CJK")
		}
	}
	if len(tags) == 0 {
		if len(s) > 3 {
			return "LONGWORD"
		}
		return "WORD"
	}
	sort.Strings(tags)
	return strings.Join(tags, "+")
}

func c02CellClass(c m.Cell) string {
	switch c.K {
	case m.KInt:
		return "INT"
	case m.KBool:
		return "BOOL"
	}
	return c02Class(c.Text(), c.K == m.KNull)
}

// c02Minimise shrinks a violating case while the same kind of finding persists, so that the signature names only what matters.
func c02Minimise(dir string, k c02Case, kind string) c02Case {
	still := func(x c02Case) (ok bool) {
		defer func() {
			if recover() != nil {
				ok = false
			}
		}()
		r := c02RunCase(dir, x)
		return r.hasClass(c02KindClass(kind))
	}
	// the benign twin: same shape, dialect and path, every text an ordinary word. If the twin of the original passes, the
	// content causes the finding and a shrinking step may not wander into a shape or dialect that fails by itself.
	twin := func(x c02Case) c02Case {
		y := x
		y.T = x.T.Clone()
		if x.Fam == "A" {
			for i := range y.T.Rows {
				for j := range y.T.Rows[i] {
					y.T.Rows[i][j] = m.Str("a")
				}
			}
			for j := range y.T.Header {
				y.T.Header[j] = "c" + strconv.Itoa(j+1)
			}
		} else {
			y.NewVal = m.Str("xx")
		}
		return y
	}
	byContent := !still(twin(k))
	try := func(mod func(x *c02Case)) {
		x := k
		x.T = k.T.Clone()
		mod(&x)
		if x.Key() != k.Key() && still(x) && (!byContent || !still(twin(x))) {
			k = x
		}
	}
	if k.Fam == "A" {
		try(func(x *c02Case) { x.Path = "out" })
	} else {
		try(func(x *c02Case) { x.Op = "update" })
		try(func(x *c02Case) { x.NewVal = m.Str("xx") })
		try(func(x *c02Case) { x.Final = true })
		try(func(x *c02Case) { x.SessLB = "LF" })
		try(func(x *c02Case) {
			x.ImpEnc = x.D.Enc
		})
	}
	try(func(x *c02Case) {
		x.D.Enc = "UTF8"
		x.ImpEnc = strings.NewReplacer("UTF16BEM", "UTF8", "UTF16LEM", "UTF8", "UTF16BE", "UTF8", "UTF16LE", "UTF8", "UTF16", "UTF8", "SJIS", "UTF8", "UTF8M", "UTF8").Replace(x.ImpEnc)
	})
	try(func(x *c02Case) { x.D.LB = "LF" })
	try(func(x *c02Case) { x.D.Strip = false })
	try(func(x *c02Case) { x.D.EncloseAll = false })
	try(func(x *c02Case) { x.D.WithoutHeader = false })
	try(func(x *c02Case) { x.D.Pretty = false })
	try(func(x *c02Case) {
		if x.D.Escape != "" {
			x.D.Escape = "BACKSLASH"
		}
	})
	try(func(x *c02Case) {
		if x.D.Format == "CSV" {
			x.D.Delim = ""
		}
	})
	if k.Fam == "A" {
		for len(k.T.Rows) > 0 {
			n := len(k.T.Rows)
			try(func(x *c02Case) { x.T.Rows = x.T.Rows[:n-1] })
			if len(k.T.Rows) == n {
				break
			}
		}
		if len(k.T.Rows) > 1 {
			try(func(x *c02Case) { x.T.Rows = x.T.Rows[1:] })
		}
		for k.D.Format == "FIXED" && !k.D.Spaces() && len(k.T.Header) > 1 {
			n := len(k.T.Header)
			try(func(x *c02Case) {
				x.T.Header = x.T.Header[:n-1]
				for i, r := range x.T.Rows {
					x.T.Rows[i] = r[:n-1]
				}
				ps := x.D.Positions()[:n-1]
				strs := make([]string, len(ps))
				for i, p := range ps {
					strs[i] = strconv.Itoa(p)
				}
				pos := "[" + strings.Join(strs, ", ") + "]"
				if x.D.SingleLine() {
					pos = "S" + pos
				}
				x.D.Pos = pos
			})
			if len(k.T.Header) == n {
				break
			}
		}
		if len(k.T.Header) > 1 && !(k.D.Format == "FIXED" && !k.D.Spaces()) {
			for col := len(k.T.Header) - 1; col >= 0 && len(k.T.Header) > 1; col-- {
				col := col
				try(func(x *c02Case) {
					x.T.Header = append(append([]string{}, x.T.Header[:col]...), x.T.Header[col+1:]...)
					for i, r := range x.T.Rows {
						x.T.Rows[i] = append(append([]m.Cell{}, r[:col]...), r[col+1:]...)
					}
				})
			}
		}
		for i := range k.T.Rows {
			for j := range k.T.Rows[i] {
				i, j := i, j
				if c02CellClass(k.T.Rows[i][j]) != "WORD" {
					try(func(x *c02Case) { x.T.Rows[i][j] = m.Str("a") })
				}
			}
		}
		try(func(x *c02Case) { x.T.Header = c02HeaderN(len(x.T.Header)) })
		for j := range k.T.Header {
			j := j
			try(func(x *c02Case) { x.T.Header[j] = "c" + strconv.Itoa(j+1) })
		}
	}
	return k
}

// c02Diagnose names the defect when the minimal case shows one of the patterns that were triaged on the unchanged tree
// (REPORT.md); every other disagreement keeps the detailed generic signature.
func c02Diagnose(k c02Case, kind, msg string) string {
	d := k.D
	pathClass := "select-output"
	if k.Fam == "B" || k.Path == "create" {
		pathClass = "commit"
	}
	cellHas := func(tags ...string) bool {
		cells := [][]m.Cell{{k.NewVal}}
		if k.Fam == "A" {
			cells = k.T.Rows
		}
		for _, r := range cells {
			for _, c := range r {
				cc := "+" + c02CellClass(c) + "+"
				for _, t := range tags {
					if strings.Contains(cc, "+"+t+"+") {
						return true
					}
				}
			}
		}
		return false
	}
	csvLike := d.Format == "CSV" || d.Format == "TSV"
	switch kind {
	case "ending-line-break-not-in-file-encoding":
		return "ending-line-break-appended-as-raw-bytes-to-utf16-output:" + pathClass
	case "jsonl-ends-with-blank-line":
		return "jsonl-written-with-blank-last-line-that-the-loader-rejects:" + pathClass
	case "ending-line-break-from-session-flag":
		return "ending-line-break-taken-from-session-flag-not-from-file"
	case "jsonl-line-break-changed":
		return "jsonl-line-breaks-rewritten-with-session-line-break"
	case "refused-but-output-left":
		if d.Enc == "SJIS" {
			return "unencodable-character-error-leaves-partial-out-file"
		}
	}
	if strings.Contains(msg, "invalid use of UnreadRune") {
		return "file-ending-with-cr-rejected-on-load"
	}
	if d.Format == "FIXED" && m.IsUTF16(d.Enc) {
		switch kind {
		case "content-differs", "line-count-changed", "line-break-changed", "encoding-changed", "edit-affected-count", "unspellable-not-refused":
			return "fixed-length-utf16-padding-counted-in-bytes-written-in-characters"
		}
	}
	if d.Spaces() && d.LB == "CR" && (c02KindClass(kind) == "round-trip" || kind == "edit-affected-count") {
		return "fixed-length-automatic-delimiting-does-not-recognise-cr-line-breaks"
	}
	if c02KindClass(kind) == "round-trip" || kind == "unspellable-not-refused" {
		switch {
		case k.Fam == "B" && d.Spaces() && !m.IsUTF16(d.Enc):
			return "fixed-length-spaces-file-rewritten-without-blank-between-columns"
		case k.Fam == "A" && csvLike && !d.EncloseAll && cellHas("LF", "CR", "CRLF"):
			return "csv-cell-with-line-break-written-unquoted"
		case k.Fam == "A" && csvLike && len(k.T.Header) == 1 && cellHas("NULL", "EMPTY"):
			return "csv-single-column-empty-record-dropped-on-load"
		case kind == "unspellable-not-refused" && d.IsJSON() && c02Repeats(k.T.Header):
			return "json-repeated-member-name-not-refused"
		case kind == "unspellable-not-refused" && d.Format == "LTSV" && c02Repeats(k.T.Header):
			return "ltsv-repeated-label-not-refused"
		case d.Format == "LTSV" && cellHas("COLON"):
			return "ltsv-colon-in-value-dropped-on-load"
		case d.Format == "LTSV" && len(k.T.Header) == 1:
			return "ltsv-single-field-record-dropped-on-load"
		case d.Format == "FIXED" && m.IsUTF16(d.Enc):
			return "fixed-length-utf16-padding-counted-in-bytes-written-in-characters"
		case d.Format == "FIXED" && kind == "unspellable-not-refused" && cellHas("LF", "CR", "CRLF"):
			return "fixed-length-line-break-in-field-not-refused"
		case k.Fam == "A" && d.Format == "FIXED" && d.SingleLine() && k.Path == "stdout" && !d.Strip:
			return "fixed-single-line-stdout-ending-line-break-read-back-as-record"
		case d.IsJSON() && cellHas("BACKSLASH"):
			return "json-string-ending-with-backslash-rejected-on-load"
		case d.Format == "JSONL" && d.Pretty:
			return "jsonl-pretty-print-not-loadable"
		case d.Format == "JSONL" && (d.LB == "CR" || (k.Fam == "B" && k.SessLB == "CR")):
			return "jsonl-cr-line-break-not-loadable"
		}
	}
	return ""
}

func c02Sig(k c02Case, kind, msg string) string {
	if name := c02Diagnose(k, kind, msg); name != "" {
		return k.Fam + ":" + name
	}
	d := k.D
	f := d.Format
	if d.Format == "FIXED" {
		switch {
		case d.Spaces():
			f = "FIXED(SPACES)"
		case d.SingleLine():
			f = "FIXED(S[..])"
		default:
			f = "FIXED([..])"
		}
	}
	if f == "TSV" {
		f = "CSV" // one writer, one reader
	}
	var set []string
	if d.Enc != "UTF8" && d.Enc != "" {
		e := d.Enc
		if m.IsUTF16(e) {
			e = "UTF16*"
		}
		set = append(set, "enc="+e)
	}
	if d.LB != "LF" && d.LB != "" {
		set = append(set, "lb="+d.LB)
	}
	if d.Delim != "" && d.Delim != "," {
		set = append(set, "delim="+d.Delim)
	}
	if d.EncloseAll {
		set = append(set, "enclose-all")
	}
	if d.WithoutHeader {
		set = append(set, "without-header")
	}
	if d.Strip {
		set = append(set, "strip-ending-line-break")
	}
	if d.Pretty {
		set = append(set, "pretty-print")
	}
	if d.Escape != "" && d.Escape != "BACKSLASH" {
		set = append(set, "escape="+d.Escape)
	}
	if k.Fam == "A" {
		if k.Path != "out" {
			set = append(set, "path="+k.Path)
		}
		var cls []string
		seen := map[string]bool{}
		for _, r := range k.T.Rows {
			for _, c := range r {
				if cc := c02CellClass(c); cc != "WORD" && !seen["cell:"+cc] {
					seen["cell:"+cc] = true
					cls = append(cls, "cell:"+cc)
				}
			}
		}
		for j, h := range k.T.Header {
			if h != "c"+strconv.Itoa(j+1) {
				if cc := "header:" + c02Class(h, false); !seen[cc] {
					seen[cc] = true
					cls = append(cls, cc)
				}
			}
		}
		sort.Strings(cls)
		return fmt.Sprintf("A:%s:%s:[%s]:%dx%d:[%s]", kind, f, strings.Join(set, ","), len(k.T.Rows), len(k.T.Header), strings.Join(cls, ","))
	}
	if !k.Final {
		set = append(set, "no-ending-line-break")
	}
	if k.SessLB != "LF" {
		set = append(set, "session-lb="+k.SessLB)
	}
	if k.ImpEnc != d.Enc {
		set = append(set, "import-encoding="+k.ImpEnc)
	}
	if k.Op != "update" {
		set = append(set, "op="+k.Op)
	}
	if cc := c02CellClass(k.NewVal); cc != "WORD" {
		set = append(set, "new="+cc)
	}
	return fmt.Sprintf("B:%s:%s:[%s]", kind, f, strings.Join(set, ","))
}

// worth printing as a sample: a compared case with a text the format has to escape, quote or encode
func c02Interesting(k c02Case) bool {
	if k.Fam == "B" {
		return k.D.Enc != "UTF8" || k.D.LB != "LF" || k.D.IsJSON()
	}
	for _, r := range k.T.Rows {
		for _, c := range r {
			switch c02CellClass(c) {
			case "WORD", "NULL", "EMPTY", "LONGWORD":
			default:
				return len(k.T.Rows)*len(k.T.Header) > 1
			}
		}
	}
	return false
}

type c02Runner struct {
	c     *core.Ctx
	dir   string
	mdir  string
	cache map[string]string
}

func (r *c02Runner) one(k c02Case) {
	res := c02RunCase(r.dir, k)
	r.c.Eval(k.Key(), res.Nontriv)
	out := res.Outcome
	if out == "" {
		out = "stopped at a finding"
	}
	r.c.Observe("outcomes", k.Fam+": "+out)
	if res.Note != "" {
		r.c.Observe("notes", res.Note)
	}
	if len(res.Findings) == 0 && res.Nontriv && res.Sample != nil && r.c.WantSample() && c02Interesting(k) {
		r.c.Sample(res.Sample)
	}
	for _, f := range res.Findings {
		// cases that agree in everything a signature can name are minimised once
		ck := f.Kind + "|" + c02Sig(k, f.Kind, f.Msg)
		sig, ok := r.cache[ck]
		if !ok {
			// a finding is believed only if it shows again when the case is executed a second time
			if again := c02RunCase(r.mdir, k); !again.hasClass(c02KindClass(f.Kind)) {
				r.c.Observe("unreproducible_findings_dropped", f.Kind)
				continue
			}
			mk := c02Minimise(r.mdir, k, f.Kind)
			if mk.Key() != k.Key() {
				// report the minimal case, with its own message
				mres := c02RunCase(r.mdir, mk)
				for _, mf := range mres.Findings {
					if c02KindClass(mf.Kind) == c02KindClass(f.Kind) {
						sig = c02Sig(mk, mf.Kind, mf.Msg)
						r.cache[ck] = sig
						r.c.Violate(sig, mf.Msg+"\n(case: "+mk.Key()+")", mk)
						break
					}
				}
				if sig != "" {
					continue
				}
			}
			sig = c02Sig(mk, f.Kind, f.Msg)
			r.cache[ck] = sig
		}
		r.c.Violate(sig, f.Msg+"\n(case: "+k.Key()+")", k)
	}
}

// c02Only: a development aid. VERIF_C02_ONLY=<family> runs that family alone; such a run never claims to be exhaustive.
func c02Only(c *core.Ctx, family string) bool {
	o := os.Getenv("VERIF_C02_ONLY")
	if o == "" || o == family {
		return true
	}
	c.Incomplete("VERIF_C02_ONLY=" + o + ": the other families were not run")
	return false
}

func c02Run(c *core.Ctx) {
	if !c02Only(c, "main") {
		return
	}
	if os.Getenv("VERIF_C02_DEBUG") != "" {
		c02Slow = func(key string) { c.Observe("slow_cases_over_5s", key) }
	}
	r := &c02Runner{c: c, dir: core.Scratch("c02"), mdir: core.Scratch("c02min"), cache: map[string]string{}}
	var idx int64
	nA, nB := int64(0), int64(0)
	for _, sl := range c02SlicesA(c.Thorough()) {
		byCols := map[int][]m.Dialect{}
		for _, t := range sl.Tables {
			ds, ok := byCols[len(t.Header)]
			if !ok {
				ds = sl.Grid.dialects(len(t.Header))
				byCols[len(t.Header)] = ds
			}
			for _, d := range ds {
				for _, p := range sl.Grid.Paths {
					idx++
					if !c.Mine(idx) {
						continue
					}
					if c.Expired() {
						c.Incomplete("time budget reached in family A slice " + sl.Name)
						return
					}
					r.one(c02Case{Fam: "A", Path: p, T: t, D: d})
					nA++
				}
			}
		}
	}
	stop := false
	c02CasesB(c.Thorough(), func(k c02Case) {
		idx++
		if stop || !c.Mine(idx) {
			return
		}
		if c.Expired() {
			c.Incomplete("time budget reached in family B")
			stop = true
			return
		}
		r.one(k)
		nB++
	})
	c.Add("family_A_cases", nA)
	c.Add("family_B_cases", nB)
}

func c02Replay(c *core.Ctx, payload json.RawMessage) {
	if c02SecondReplay(c, payload) || c02ExtReplay(c, payload) || c01CommitCancelReplay(c, payload) || c02RefusalReplay(c, payload) || c02DisplayReplay(c, payload) {
		return
	}
	var k c02Case
	if err := json.Unmarshal(payload, &k); err != nil {
		fmt.Println("bad payload:", err)
		return
	}
	fmt.Println("replaying", k.Key())
	r := &c02Runner{c: c, dir: core.Scratch("c02"), mdir: core.Scratch("c02min"), cache: map[string]string{}}
	res := c02RunCase(r.dir, k)
	fmt.Println("outcome:", res.Outcome)
	for _, f := range res.Findings {
		fmt.Printf("finding %s: %s\n", f.Kind, f.Msg)
	}
	r.one(k)
}
