package checks

import (
	"encoding/json"
	"fmt"
	"strings"

	"verif/harness/internal/core"
	"verif/harness/internal/drv"
)

// Extra family for C08: ALTER TABLE interrupted at every point at which it looks at its context.
//
// ALTER TABLE ... ADD / DROP / RENAME / SET convert a working copy of the table (DROP and ADD rewrite every record:
// cells are moved, the header is replaced at the very end) and install it when they are done. The conversion polls the
// context before every 16th record and once more when all records are done; a cancellation that becomes visible there
// makes the statement return an error, and then nothing of the half-converted copy may be visible: not to the following
// statements of the transaction (which run with a live context, as the statements of an interactive shell after Ctrl-C
// or of a library user with a context per statement do) and not in the files a later COMMIT writes.
//
// Enumerated (bound stated in the rule text): the statement forms over a table of four columns - every non-empty
// proper subset of the columns dropped, a column added at every position with no / a constant / a computed default,
// two columns at once, every column renamed, three attributes set -, the state of the table in the transaction
// (not yet loaded, read before, changed before and not committed, a temporary table changed before), the number of
// records (below, at and above the distance of 16 between two polls), and the poll K from which on Err() reports
// Canceled, K = 0, 1, 2, ... until the statement completes.
//
// Oracle (differential, nothing about ALTER TABLE's own result is modelled): after an error SELECT * of the table, of a
// second table changed earlier in the transaction and (temporary state) of the source file's table are well formed and
// equal what they were before the statement; then an INSERT of a record with the ORIGINAL four columns and a COMMIT
// succeed and leave the same files (and the same temporary table) as the same session without the interrupted
// statement.
func init() {
	core.Extend("C08", "family alter-cancel: 57 ALTER TABLE statements over a table of four columns (DROP of each of the 14 proper subsets of the columns and one in reversed order; ADD of a column at each of the 11 positions with no, a constant and a computed default; "+
		"two columns at once; RENAME of every column; SET of DELIMITER, LINE_BREAK, HEADER) x 4 states of the table in the transaction (not loaded, read, changed and uncommitted, temporary table changed and uncommitted) x 17 and 40 records "+
		"(thorough: 1, 15, 16, 17, 32, 33, 40, 100, 200; the CPU flag is 1 so that the polls come in a fixed order, the 200 records also with 4) x cancellation visible from the K-th poll of the context for every K until the statement completes; after the error every table reads well formed and as before, "+
		"a following INSERT of a record with the original columns and COMMIT give the files and the temporary table of the session without the interrupted statement", c08AlterCancelRun)
}

var c08AlterCols = []string{"a", "k", "b", "c"}

// c08AlterStatements lists the statement forms; %s is the table.
func c08AlterStatements() []string {
	var out []string
	n := len(c08AlterCols)
	for m := 1; m < (1<<n)-1; m++ {
		var cols []string
		for i, cn := range c08AlterCols {
			if m&(1<<i) != 0 {
				cols = append(cols, cn)
			}
		}
		if len(cols) == 1 {
			out = append(out, "ALTER TABLE %s DROP "+cols[0])
		} else {
			out = append(out, "ALTER TABLE %s DROP ("+strings.Join(cols, ", ")+")")
		}
	}
	out = append(out, "ALTER TABLE %s DROP (c, a)")
	positions := []string{"", " FIRST", " LAST"}
	for _, cn := range c08AlterCols {
		positions = append(positions, " AFTER "+cn, " BEFORE "+cn)
	}
	for _, def := range []string{"", " DEFAULT 'd'", " DEFAULT a * 2"} {
		for _, pos := range positions {
			out = append(out, "ALTER TABLE %s ADD x"+def+pos)
		}
	}
	out = append(out, "ALTER TABLE %s ADD (x, y DEFAULT k || '!') FIRST", "ALTER TABLE %s ADD (x DEFAULT 1, y DEFAULT b) AFTER k")
	for _, cn := range c08AlterCols {
		out = append(out, "ALTER TABLE %s RENAME "+cn+" TO z"+cn)
	}
	out = append(out, "ALTER TABLE %s SET DELIMITER TO ';'", "ALTER TABLE %s SET LINE_BREAK TO 'CRLF'", "ALTER TABLE %s SET HEADER TO FALSE")
	return out
}

var c08AlterStates = []string{"not-loaded", "read", "changed", "temporary"}

type c08AlterCase struct {
	Family  string `json:"family"`
	Records int    `json:"records"`
	State   string `json:"state_of_the_table"`
	Stmt    string `json:"statement"`
	K       int64  `json:"cancel_visible_from_poll"`
	Cores   int    `json:"cpu_flag"`
	Deep    bool   `json:"thorough_bounds,omitempty"` // only read when the whole family is replayed
}

func c08AlterFiles(n int) map[string]string {
	var t strings.Builder
	t.WriteString("a,k,b,c\n")
	for i := 1; i <= n; i++ {
		fmt.Fprintf(&t, "%d,k%d,b%d,c%d\n", i, i, i, i)
	}
	return map[string]string{"t.csv": t.String(), "u.csv": "k,w\nk1,10\nk2,20\nk3,30\n"}
}

// c08AlterSession is one csvq transaction brought to the state the case asks for.
type c08AlterSession struct {
	env   *drv.Env
	table string
	reads string
}

func c08AlterOpen(dir string, n int, state string, cores int) (*c08AlterSession, error) {
	drv.ClearDir(dir)
	drv.WriteFiles(dir, c08AlterFiles(n))
	s := &c08AlterSession{env: drv.New(dir), table: "t", reads: "SELECT * FROM t; SELECT * FROM u;"}
	s.env.Tx.Flags.SetQuiet(true)
	s.env.Tx.Flags.SetCPU(cores) // 1: every loop over the records runs in the calling goroutine, the order of the polls is fixed
	prep := "UPDATE u SET w = 0 WHERE k = 'k2';"
	switch state {
	case "not-loaded":
	case "read":
		prep += " SELECT * FROM t;"
	case "changed":
		prep += " UPDATE t SET b = 'pre' WHERE a = 1;"
	case "temporary":
		s.table, s.reads = "tmp", "SELECT * FROM tmp; SELECT * FROM t; SELECT * FROM u;"
		prep += " DECLARE tmp VIEW (a, k, b, c) AS SELECT a, k, b, c FROM t; COMMIT; UPDATE tmp SET b = 'pre' WHERE a = 1;"
	default:
		s.env.Close()
		return nil, fmt.Errorf("unknown state %q", state)
	}
	if r := s.env.Exec(prep); r.Err != nil || r.Panic != nil {
		s.env.Close()
		return nil, fmt.Errorf("preparation %q: %v %v", prep, r.Err, r.Panic)
	}
	return s, nil
}

func (s *c08AlterSession) read() (string, error) {
	r := s.env.Exec(s.reads)
	if r.Panic != nil {
		return "", fmt.Errorf("panic: %v", r.Panic)
	}
	if r.Err != nil {
		return "", r.Err
	}
	var sb strings.Builder
	for _, v := range r.Views {
		k, err := c08ViewKey(v)
		if err != nil {
			return "", err
		}
		sb.WriteString(k + "\n")
	}
	return sb.String(), nil
}

// finish: a further change with the original columns, COMMIT, and what is there afterwards.
func (s *c08AlterSession) finish() (files map[string]string, tables string, err error) {
	r := s.env.Exec("INSERT INTO " + s.table + " VALUES (9001, 'kn', 'bn', 'cn'); COMMIT;")
	if r.Panic != nil {
		return nil, "", fmt.Errorf("panic: %v", r.Panic)
	}
	if r.Err != nil {
		return nil, "", r.Err
	}
	if tables, err = s.read(); err != nil {
		return nil, "", err
	}
	return drv.DirSnapshot(s.env.Dir), tables, nil
}

type c08AlterRef struct {
	before string // the tables as a statement of the transaction sees them in this state
	files  map[string]string
	tables string
	err    error
}

var c08AlterCases int

const c08AlterChurn = "SELECT k || 'p', w + 1, w * 1.5, 'q' || w FROM u; " + c08DialectChurn

var c08AlterRefs = map[string]*c08AlterRef{}

// c08AlterReference runs the session without the interrupted statement (once per state and size in a worker).
func c08AlterReference(dir string, n int, state string) *c08AlterRef {
	key := fmt.Sprintf("%s|%d", state, n)
	if ref, ok := c08AlterRefs[key]; ok {
		return ref
	}
	ref := &c08AlterRef{}
	c08AlterRefs[key] = ref
	s, err := c08AlterOpen(dir, n, state, 1)
	if err != nil {
		ref.err = err
		return ref
	}
	defer s.env.Close()
	if ref.before, ref.err = s.read(); ref.err != nil {
		return ref
	}
	ref.files, ref.tables, ref.err = s.finish()
	return ref
}

// c08AlterOne runs one case; it returns false when no further K is to be tried for the statement.
func c08AlterOne(c *core.Ctx, dir string, k c08AlterCase) bool {
	ref := c08AlterReference(dir, k.Records, k.State)
	if ref.err != nil {
		c.Incomplete("family alter-cancel: the session without the interrupted statement fails: " + ref.err.Error())
		return false
	}
	if k.Cores < 1 {
		k.Cores = 1
	}
	s, err := c08AlterOpen(dir, k.Records, k.State, k.Cores)
	if err != nil {
		c.Incomplete("family alter-cancel: " + err.Error())
		return false
	}
	defer s.env.Close()
	before := ref.before
	if k.State != "not-loaded" {
		// read in this very transaction; in the state "not-loaded" a read would load the table, there the tables
		// are what the reference session read from the same files
		if before, err = s.read(); err != nil {
			c.Incomplete("family alter-cancel: tables unreadable before the statement: " + err.Error())
			return false
		}
		if before != ref.before {
			c.Incomplete("family alter-cancel: two sessions prepared alike read different tables")
			return false
		}
	}
	sql := fmt.Sprintf(k.Stmt, s.table)
	var calls int64
	normal := s.env.Ctx
	s.env.Ctx = c08PollCtx{Context: normal, calls: &calls, k: k.K}
	r := s.env.Exec(sql)
	s.env.Ctx = normal

	f := strings.Fields(k.Stmt)
	cls := "alter-cancel:" + f[3] + "@" + k.State
	where := fmt.Sprintf("table of %d records, state %s, CPU flag %d: %q with the cancellation visible from poll %d of the context on (%d polls made)", k.Records, k.State, k.Cores, sql, k.K, calls)
	if r.Panic != nil {
		c.Violate(cls+":panic", where+": "+fmt.Sprint(r.Panic), k)
		return false
	}
	if r.Err == nil {
		return false // completed
	}
	c08AlterCases++
	c.Eval(fmt.Sprintf("alter-cancel|%d|%d|%s|%s|%d", k.Records, k.Cores, k.State, k.Stmt, k.K), k.K > 0)
	cancelled := c08IsCancelled(r.Err)
	if !cancelled {
		// refused for another reason (SET on a temporary table): a failing statement all the same, but the error does
		// not depend on K
		c.Observe("alter_cancel_family_other_errors", r.Err.Error())
	}
	where += fmt.Sprintf(": error %q", r.Err)
	s.env.Exec(c08AlterChurn)
	after, err := s.read()
	if err != nil {
		c.Violate(cls+":tables-unreadable-after-the-cancelled-statement", where+"; afterwards: "+err.Error(), k)
		return cancelled
	}
	if after != before {
		c.Violate(cls+":table-changed-by-cancelled-statement", fmt.Sprintf("%s, yet the tables read\n%safterwards; before:\n%s", where, clip(after), clip(before)), k)
		return cancelled
	}
	files, tables, err := s.finish()
	if err != nil {
		c.Violate(cls+":later-statement-fails", where+"; a following INSERT of a record with the original columns and COMMIT: "+err.Error(), k)
		return cancelled
	}
	if tables != ref.tables {
		c.Violate(cls+":later-statements-see-partial-effects", fmt.Sprintf("%s; after a following INSERT and COMMIT the tables read\n%sthe session without the interrupted statement reads\n%s", where, clip(tables), clip(ref.tables)), k)
		return cancelled
	}
	for n, want := range ref.files {
		if files[n] != want {
			c.Violate(cls+":commit-writes-partial-effects", fmt.Sprintf("%s; after a following INSERT and COMMIT %s holds %q, the session without the interrupted statement writes %q", where, n, clip(files[n]), clip(want)), k)
			return cancelled
		}
	}
	for n := range files {
		if _, ok := ref.files[n]; !ok {
			c.Violate(cls+":file-left-by-cancelled-statement", fmt.Sprintf("%s; after COMMIT the directory holds %s", where, n), k)
			return cancelled
		}
	}
	return cancelled
}

func c08AlterCancelRun(c *core.Ctx) {
	c08AlterCancelSweep(c, c.Thorough())
}

func c08AlterCancelSweep(c *core.Ctx, deep bool) {
	dir := core.Scratch("c08altercancel")
	sizes := []int{17, 40}
	if deep {
		sizes = []int{1, 15, 16, 17, 32, 33, 40, 100, 200}
	}
	var idx int64
	maxPolls := int64(0)
	for _, n := range sizes {
		// with the CPU flag at 1 the polls of a statement come in a fixed order, and "every K" is every point of
		// interruption; tables long enough to be divided among goroutines (80 records each) are swept a second time with
		// 4 goroutines allowed: there the K-th poll is whichever goroutine comes K-th, the oracle does not depend on it
		cores := []int{1}
		if n >= 160 {
			cores = append(cores, 4)
		}
		for _, cpu := range cores {
			for _, state := range c08AlterStates {
				for _, stmt := range c08AlterStatements() {
					idx++
					if !c.Mine(idx) {
						continue
					}
					var k int64
					for ; k < 400; k++ {
						if c.Expired() {
							c.Incomplete("time budget reached in family alter-cancel")
							return
						}
						if !c08AlterOne(c, dir, c08AlterCase{Family: "alter-cancel", Records: n, State: state, Stmt: stmt, K: k, Cores: cpu}) {
							break
						}
					}
					if k > maxPolls {
						maxPolls = k
					}
					if k >= 400 {
						c.Incomplete("family alter-cancel: more than 400 polls in " + stmt)
					}
				}
			}
		}
	}
	c.Max("alter_cancel_family_max_polls_of_a_statement", maxPolls)
}

func c08AlterCancelReplay(c *core.Ctx, payload json.RawMessage) bool {
	var k c08AlterCase
	if json.Unmarshal(payload, &k) != nil || k.Family != "alter-cancel" {
		return false
	}
	if k.Stmt == "" {
		// {"family": "alter-cancel"} alone: the whole family, serially, in this process
		fmt.Println("replaying the whole family alter-cancel")
		c08AlterCancelSweep(c, k.Deep)
		fmt.Printf("%d cases in which the statement returned an error\n", c08AlterCases)
		return true
	}
	fmt.Printf("replaying family alter-cancel: %+v\n", k)
	c08AlterOne(c, core.Scratch("c08altercancel-replay"), k)
	return true
}
