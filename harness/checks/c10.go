package checks

import (
	"encoding/json"
	"fmt"
	"os"
	"os/exec"
	"path/filepath"
	"sort"
	"strings"

	"verif/harness/internal/core"
	"verif/harness/internal/drv"
	"verif/harness/internal/procx"
	"verif/harness/internal/ptx"
)

func init() {
	core.Register(&core.Check{
		ID:    "C10",
		Level: "fault_enumeration",
		Rule: "for every scenario (a transaction that updates and/or creates one or more tables) the real csvq CLI, built through the overlay, is run once to number its file-system points, then once per point k with " +
			"VERIF_CRASH_AT=k: the process SIGKILLs itself immediately before point k, nothing after it runs. one case = (scenario, k); non-trivial = the crash happens after the transaction made its first change to the directory",
		Assume: []string{"process death, not power loss: what the kernel has been told survives", "point granularity = the file-system calls of lib/file and Transaction.Commit (syscall granularity is the thorough tier)"},
		Run:    c10Run,
		Replay: c10Replay,
	})
}

type c10Scenario struct {
	Name  string            `json:"name"`
	Files map[string]string `json:"files"`
	Args  []string          `json:"args"`
	Mid   []string          `json:"mid,omitempty"`   // program reaching an intermediate committed state (explicit COMMIT inside Args)
	Links map[string]string `json:"links,omitempty"` // symbolic links created next to the files: name -> target (a table reached through a link)
}

// tables of the scenario with their contents before the transaction (a link holds what its target holds)
func (sc c10Scenario) old() map[string]string {
	m := map[string]string{}
	for n, b := range sc.Files {
		m[n] = b
	}
	for n, t := range sc.Links {
		m[n] = sc.Files[t]
	}
	return m
}

func c10Scenarios(thorough bool) []c10Scenario {
	small := "a,b\n1,x\n2,y\n"
	big := "a,b\n" + strings.Repeat("1,xxxxxxxxxxxxxxxxxxxxxxxxxxxxxxxxxxxxxxxx\n2,yyyyyyyyyyyyyyyyyyyyyyyyyyyyyyyyyyyyyy\n", 40)
	u := "c,d\n7,p\n8,q\n"
	tsv := "a\tb\n1\tx\n2\ty\n"
	js := "[{\"a\":\"1\",\"b\":\"x\"},{\"a\":\"2\",\"b\":\"y\"}]\n"
	scs := []c10Scenario{
		{"update-1", map[string]string{"t.csv": small}, []string{"UPDATE t SET b = 'z' WHERE a = 1"}, nil, nil},
		{"update-1-shrinks", map[string]string{"t.csv": big}, []string{"DELETE FROM t WHERE a = 1"}, nil, nil},
		{"update-1-grows", map[string]string{"t.csv": small}, []string{"INSERT INTO t VALUES (3,'" + strings.Repeat("w", 300) + "'),(4,'v')"}, nil, nil},
		{"update-2", map[string]string{"t.csv": small, "u.csv": u}, []string{"UPDATE t SET b = 'z' WHERE a = 1; UPDATE u SET d = 'r';"}, nil, nil},
		{"update-1-create-1", map[string]string{"t.csv": small}, []string{"UPDATE t SET b = 'z'; CREATE TABLE `n.csv` (c1, c2); INSERT INTO n VALUES (1, 2);"}, nil, nil},
		{"create-only", map[string]string{"t.csv": small}, []string{"CREATE TABLE `n.csv` (c1, c2); INSERT INTO n VALUES (1, 2);"}, nil, nil},
		{"alter-add", map[string]string{"t.csv": small}, []string{"ALTER TABLE t ADD c DEFAULT 0"}, nil, nil},
		{"replace", map[string]string{"t.csv": small}, []string{"REPLACE INTO t (a, b) USING (a) VALUES (2, 'q'), (5, 'n')"}, nil, nil},
		{"update-commit-update", map[string]string{"t.csv": small}, []string{"UPDATE t SET b = 'z' WHERE a = 1; COMMIT; UPDATE t SET b = 'w' WHERE a = 2;"}, []string{"UPDATE t SET b = 'z' WHERE a = 1"}, nil},
		{"update-tsv", map[string]string{"t.tsv": tsv}, []string{"UPDATE t SET b = 'z' WHERE a = 1"}, nil, nil},
		{"update-json", map[string]string{"t.json": js}, []string{"UPDATE t SET b = 'z' WHERE a = 1"}, nil, nil},
		// a JSON Lines table whose record count is a multiple of the writers' flush interval
		{"update-jsonl-300", map[string]string{"t.jsonl": strings.Repeat("{\"a\":\"1\",\"b\":\"x\"}\n{\"a\":\"2\",\"b\":\"y\"}\n", 150)}, []string{"UPDATE t SET b = 'z' WHERE a = 1"}, nil, nil},
		// the table is a symbolic link: to a file in the same directory, to a file in another directory
		{"update-through-link", map[string]string{"real.csv": big}, []string{"DELETE FROM t WHERE a = 1"}, nil, map[string]string{"t.csv": "real.csv"}},
		{"update-through-link-to-other-directory", map[string]string{"store/real.csv": small}, []string{"UPDATE t SET b = 'z' WHERE a = 1"}, nil, map[string]string{"t.csv": "store/real.csv"}},
	}
	if thorough {
		scs = append(scs,
			c10Scenario{"update-3", map[string]string{"t.csv": small, "u.csv": u, "v.csv": big}, []string{"UPDATE t SET b = 'z'; UPDATE u SET d = 'r'; DELETE FROM v WHERE a = 2;"}, nil, nil},
			c10Scenario{"update-2-create-2", map[string]string{"t.csv": small, "u.csv": u}, []string{"CREATE TABLE `n.csv` (c1); UPDATE t SET b = 'z'; CREATE TABLE `m.csv` (c1); UPDATE u SET d = 'r'; INSERT INTO m VALUES (1);"}, nil, nil},
			c10Scenario{"drop-column-big", map[string]string{"t.csv": big}, []string{"ALTER TABLE t DROP b"}, nil, nil},
		)
	}
	return scs
}

type c10Payload struct {
	Scenario c10Scenario `json:"scenario"`
	K        int         `json:"crash_before_point"`
	Point    string      `json:"point"`
	Syscall  bool        `json:"syscall_level"` // K counts file system calls under the directory (ptrace) instead of shim points
	MapOrder string      `json:"map_order"`     // VERIF_MAPORDER of the run: "" = every map-range site in sorted key order; "j:p" = the j-th map range takes the p-th permutation
}

// c10MapOrders lists the map-iteration orders to explore for a program: sorted order everywhere, plus every
// single map range (of the complete sorted-order run) taking each other permutation of its keys, plus "rev".
// run executes the program once with the given extra environment.
func c10MapOrders(dir string, run func(env []string)) []string {
	lf := filepath.Join(filepath.Dir(dir), "maplog.txt")
	os.Remove(lf)
	run([]string{"VERIF_MAPORDER=", "VERIF_MAPLOG=" + lf})
	orders := []string{""}
	b, _ := os.ReadFile(lf)
	os.Remove(lf)
	for _, l := range strings.Split(strings.TrimSpace(string(b)), "\n") {
		var j, n int
		var site string
		if k, _ := fmt.Sscanf(l, "%d %s %d", &j, &site, &n); k != 3 {
			continue
		}
		f := 1
		for i := 2; i <= n && f < 24; i++ {
			f *= i
		}
		for p := 1; p < f; p++ {
			orders = append(orders, fmt.Sprintf("%d:%d", j, p))
		}
	}
	if len(orders) > 1 {
		orders = append(orders, "rev") // every map range descending: also reaches ranges that only run on failure paths
	}
	return orders
}

func isControl(name string) bool { return strings.HasPrefix(name, ".") }

func c10Prepare(dir string, sc c10Scenario) {
	drv.ClearDir(dir)
	drv.WriteFiles(dir, sc.Files)
	for n, t := range sc.Links {
		os.Symlink(t, filepath.Join(dir, n))
	}
}

// c10Crash runs the scenario with a crash before point k (shim point, or k-th file system call under the
// directory when sys is set) and judges the directory.
func c10Crash(c *core.Ctx, dir string, sc c10Scenario, mo string, k int, pt string, sys bool, newFiles map[string]string, midFiles map[string]string) {
	c10Prepare(dir, sc)
	payload := c10Payload{Scenario: sc, K: k, Point: pt, Syscall: sys, MapOrder: mo}
	if sys {
		cmd := exec.Command(procx.Binary(), sc.Args...)
		cmd.Dir = dir
		cmd.Env = []string{"HOME=" + procx.Home(), "XDG_CONFIG_HOME=" + procx.Home(), "PATH=/usr/bin:/bin", "TZ=UTC", "GOMAXPROCS=2", "VERIF_MAPORDER=" + mo}
		r := ptx.Run(cmd, dir, k)
		if !r.Killed {
			c.Incomplete(fmt.Sprintf("scenario %s: process was not killed at file system call %d (err %v) - call sequence not stable between runs", sc.Name, k, r.Err))
			return
		}
		if got := r.Calls[len(r.Calls)-1].String(); got != pt {
			// the k-th call of this run is a legitimate crash point too; it is judged as what it is
			c.Add("points_differing_from_reference_run", 1)
			pt = got
			payload.Point = got
		}
	} else {
		out := procx.Exec(procx.Run{Dir: dir, Args: sc.Args, Env: []string{fmt.Sprintf("VERIF_CRASH_AT=%d", k), "VERIF_MAPORDER=" + mo}})
		if out.Exit != -1 {
			c.Incomplete(fmt.Sprintf("scenario %s: process was not killed at point %d (exit %d) - points are not stable between runs", sc.Name, k, out.Exit))
			return
		}
	}
	unit := "point"
	if sys {
		unit = "system call"
	}
	snap := drv.DirSnapshot(dir)
	old := sc.old()
	names := make([]string, 0, len(old))
	for n := range old {
		names = append(names, n)
	}
	sort.Strings(names)
	bad := false
	for _, n := range names {
		got, exists := snap[n]
		switch {
		case !exists:
			c.Violate("missing-table:killed-before "+pt, fmt.Sprintf("scenario %s, killed before %s %d %s: %s no longer exists; directory: %v", sc.Name, unit, k, pt, n, keys(snap)), payload)
			bad = true
		case got != old[n] && got != newFiles[n] && !(midFiles != nil && got == midFiles[n]):
			c.Violate("mixed-or-truncated-table:killed-before "+pt, fmt.Sprintf("scenario %s, killed before %s %d %s: %s holds %q, neither the old (%d bytes) nor the new (%d bytes) contents",
				sc.Name, unit, k, pt, n, clip(got), len(old[n]), len(newFiles[n])), payload)
			bad = true
		}
	}
	if bad {
		return
	}
	// before anybody cleans up, a user runs csvq again: a session that tries to update each table (matching no
	// record) either gets through or times out on a leftover lock; either way it must leave the directory as it is
	for _, n := range names {
		if strings.Contains(n, "/") {
			continue
		}
		tbl := strings.TrimSuffix(n, filepath.Ext(n))
		procx.Exec(procx.Run{Dir: dir, Args: []string{"--wait-timeout", "0.05", "UPDATE " + tbl + " SET a = a WHERE 1 = 0"}})
	}
	if again := drv.DirSnapshot(dir); drv.SnapshotKey(again) != drv.SnapshotKey(snap) {
		diff := ""
		for n, b := range snap {
			if nb, ok := again[n]; !ok {
				diff += " " + n + " is gone;"
			} else if nb != b {
				diff += " " + n + " changed;"
			}
		}
		for n := range again {
			if _, ok := snap[n]; !ok {
				diff += " " + n + " appeared;"
			}
		}
		c.Violate("later-session-before-cleanup-changes-the-directory:killed-before "+pt, fmt.Sprintf("scenario %s, killed before %s %d %s: a later csvq session (UPDATE matching no record, --wait-timeout 0.05) changed the directory:%s", sc.Name, unit, k, pt, diff), payload)
		return
	}
	// the manual's recovery: delete the hidden control files, then the tables are usable again
	for n := range snap {
		if isControl(n) {
			drv.ClearFile(filepath.Join(dir, n))
		}
	}
	for _, n := range names {
		if strings.Contains(n, "/") {
			continue // the target of a link in another directory is addressed through the link
		}
		tbl := strings.TrimSuffix(n, filepath.Ext(n))
		r1 := procx.Exec(procx.Run{Dir: dir, Args: []string{"SELECT COUNT(*) FROM " + tbl}})
		r2 := procx.Exec(procx.Run{Dir: dir, Args: []string{"INSERT INTO " + tbl + " SELECT * FROM " + tbl + " LIMIT 1"}})
		if r1.Exit != 0 || r2.Exit != 0 {
			c.Violate("unusable-after-cleanup:killed-before "+pt, fmt.Sprintf("scenario %s, killed before %s %d %s, control files deleted: SELECT exit %d (%s), INSERT exit %d (%s)",
				sc.Name, unit, k, pt, r1.Exit, clip(r1.Stderr), r2.Exit, clip(r2.Stderr)), payload)
		}
	}
}

// c10SyscallRef lists the file system calls (under dir) of a complete run.
func c10SyscallRef(dir string, sc c10Scenario, mo string) []ptx.Call {
	c10Prepare(dir, sc)
	cmd := exec.Command(procx.Binary(), sc.Args...)
	cmd.Dir = dir
	cmd.Env = []string{"HOME=" + procx.Home(), "XDG_CONFIG_HOME=" + procx.Home(), "PATH=/usr/bin:/bin", "TZ=UTC", "GOMAXPROCS=2", "VERIF_MAPORDER=" + mo}
	r := ptx.Run(cmd, dir, 0)
	if r.Err != nil || r.Exit != 0 {
		return nil
	}
	return r.Calls
}

func keys(m map[string]string) []string {
	ks := make([]string, 0, len(m))
	for k := range m {
		ks = append(ks, k)
	}
	sort.Strings(ks)
	return ks
}

func clip(s string) string {
	if len(s) > 160 {
		return s[:160] + "..."
	}
	return s
}

func c10Reference(c *core.Ctx, dir string, sc c10Scenario, mo string) ([]procx.TracePoint, map[string]string, map[string]string, bool) {
	var mid map[string]string
	if sc.Mid != nil {
		c10Prepare(dir, sc)
		if out := procx.Exec(procx.Run{Dir: dir, Args: sc.Mid}); out.Exit == 0 {
			mid = drv.DirSnapshot(dir)
		}
	}
	c10Prepare(dir, sc)
	tr := filepath.Join(filepath.Dir(dir), "trace-"+sc.Name+".txt")
	out := procx.Exec(procx.Run{Dir: dir, Args: sc.Args, Env: []string{"VERIF_TRACE=" + tr, "VERIF_MAPORDER=" + mo}})
	if out.Exit != 0 {
		c.Violate("scenario-fails-without-crash:"+sc.Name, fmt.Sprintf("scenario %s exits %d without any injected crash: %s", sc.Name, out.Exit, clip(out.Stderr)), c10Payload{Scenario: sc, MapOrder: mo})
		return nil, nil, nil, false
	}
	snap := drv.DirSnapshot(dir)
	for n := range snap {
		if isControl(n) {
			c.Violate("leftover-after-complete-run", fmt.Sprintf("scenario %s: %s remains after a complete run", sc.Name, n), c10Payload{Scenario: sc, MapOrder: mo})
		}
	}
	// the "new contents" of the oracle are what the complete run wrote: they must be COMPLETE - a fresh process reads
	// from the committed file exactly what the transaction itself saw just before it committed
	if mo == "" && len(sc.Args) == 1 {
		for n := range sc.old() {
			if strings.Contains(n, "/") {
				continue
			}
			tbl := strings.TrimSuffix(n, filepath.Ext(n))
			c10Prepare(dir, sc)
			inTx := procx.Exec(procx.Run{Dir: dir, Args: []string{"-q", "-f", "CSV", strings.TrimRight(strings.TrimSpace(sc.Args[0]), ";") + "; SELECT * FROM " + tbl + ";"}})
			fresh := procx.Exec(procx.Run{Dir: dir, Args: []string{"-q", "-f", "CSV", "SELECT * FROM " + tbl}})
			if inTx.Exit == 0 && (fresh.Exit != 0 || fresh.Stdout != inTx.Stdout) {
				c.Violate("committed-file-is-not-what-the-transaction-saw:"+sc.Name, fmt.Sprintf("scenario %s, no crash: after the commit a fresh process reads %q from %s (exit %d); the transaction saw %q before committing",
					sc.Name, clip(fresh.Stdout), n, fresh.Exit, clip(inTx.Stdout)), c10Payload{Scenario: sc, MapOrder: mo})
			}
		}
		c10Prepare(dir, sc)
		procx.Exec(procx.Run{Dir: dir, Args: sc.Args})
	}
	return out.Trace, snap, mid, true
}

func c10Run(c *core.Ctx) {
	dir := core.Scratch("c10")
	var idx int64
	for _, sc0 := range c10Scenarios(c.Thorough()) {
		orders := c10MapOrders(dir, func(env []string) {
			c10Prepare(dir, sc0)
			procx.Exec(procx.Run{Dir: dir, Args: sc0.Args, Env: env})
		})
		if c.Shard == 0 {
			c.Add("map_orders_explored", int64(len(orders)))
		}
		for _, mo := range orders {
			sc := sc0
			tag := sc.Name
			if mo != "" {
				tag += "[map " + mo + "]"
			}
			ref, newFiles, midFiles, ok := c10Reference(c, dir, sc, mo)
			if !ok {
				continue
			}
			firstChange := len(ref) + 1
			for _, tp := range ref {
				if tp.Name == "create" || tp.Name == "rename" || tp.Name == "remove" || tp.Name == "write" || tp.Name == "truncate" {
					firstChange = tp.K
					break
				}
			}
			if c.Shard == 0 {
				names := make([]string, len(ref))
				for i, tp := range ref {
					names[i] = tp.String()
				}
				c.Observe("scenarios", fmt.Sprintf("%s: %d points", tag, len(ref)))
				if sc.Name == "update-1" || sc.Name == "update-2" {
					c.Sample(map[string]any{"scenario": tag, "program": sc.Args, "points": names})
				}
			}
			for k := 1; k <= len(ref)+1; k++ {
				idx++
				if !c.Mine(idx) {
					continue
				}
				if c.Expired() {
					c.Incomplete("time budget reached")
					return
				}
				if k == len(ref)+1 {
					continue // past the last point: the complete run, already judged
				}
				c10Crash(c, dir, sc, mo, k, ref[k-1].String(), false, newFiles, midFiles)
				c.Eval(fmt.Sprintf("%s@%d", tag, k), k > firstChange)
			}
			// the same at system-call granularity: kill before every file system call that touches the directory
			calls := c10SyscallRef(dir, sc, mo)
			if calls == nil {
				c.Incomplete("scenario " + tag + ": ptrace run failed; system-call granularity not covered")
				continue
			}
			c.Add("syscall_level_points", 0)
			firstMod := len(calls) + 1
			for _, cl := range calls {
				if cl.Name != "openat" && cl.Name != "close" && cl.Name != "flock" || strings.HasPrefix(cl.Path, ".") {
					firstMod = cl.K
					break
				}
			}
			if c.Shard == 0 && sc.Name == "update-1" {
				cs := make([]string, len(calls))
				for i, cl := range calls {
					cs[i] = cl.String()
				}
				c.Sample(map[string]any{"scenario": tag, "file_system_calls_under_the_directory": cs})
			}
			for k := 1; k <= len(calls); k++ {
				idx++
				if !c.Mine(idx) {
					continue
				}
				if c.Expired() {
					c.Incomplete("time budget reached")
					return
				}
				c10Crash(c, dir, sc, mo, k, calls[k-1].String(), true, newFiles, midFiles)
				c.Eval(fmt.Sprintf("%s@sys%d", tag, k), k > firstMod)
				c.Add("syscall_level_points", 1)
			}
		}
	}
}

func c10Replay(c *core.Ctx, payload json.RawMessage) {
	if c01AttrReplay(c, payload) || c01CommitCancelReplay(c, payload) || c10HistoryReplay(c, payload) {
		return
	}
	var p c10Payload
	if err := json.Unmarshal(payload, &p); err != nil {
		fmt.Println(err)
		return
	}
	dir := core.Scratch("c10")
	ref, newFiles, midFiles, ok := c10Reference(c, dir, p.Scenario, p.MapOrder)
	if !ok {
		return
	}
	_ = ref
	fmt.Printf("replaying scenario %s (map order %q), kill before %d %s (syscall level: %v)\n", p.Scenario.Name, p.MapOrder, p.K, p.Point, p.Syscall)
	c10Crash(c, dir, p.Scenario, p.MapOrder, p.K, p.Point, p.Syscall, newFiles, midFiles)
}
