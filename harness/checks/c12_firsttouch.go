//go:build verifx

package checks

import (
	"fmt"
	"runtime"
	"sort"
	"strings"
	"time"

	"verif/harness/internal/core"
	"verif/harness/internal/drv"
	"verif/harness/internal/procx"
)

// Family first-touch (C12): a resource of the transaction - a table file (by name, with import options, as an inline
// table), a SOURCE file, an EXECUTE text, a cursor - that is touched for the FIRST time by
// an expression evaluated once per record, i.e. by whichever worker gets there first. The records of the lower half
// of the table reach the resource through one expression, those of the upper half through another; the places are a
// subquery in the select list, a subquery in WHERE and the body of a user-defined function.
//
// Part 1, controlled: 6 records x 3 workers, ALL schedules with at most one non-default decision; the scheduling
// points are goroutine start and exit, record boundaries, lock and wait-group operations (thorough: every expression
// evaluation and loop iteration as well). Part 2, real threads: the same programs over 400 records through
// the command line (`csvq --cpu n`, the real split threshold of 80 records per worker), --cpu 1 as the reference and
// --cpu 2 and 4 twice each (thorough: six times): what happens between two scheduling points of part 1 - opening,
// reading and closing a file - overlaps only there. Oracle: the property - result, messages, exit code and file
// bytes equal to the single-worker run. Which of two conflicting sets of import options OUGHT to win is not judged.
func init() {
	core.Extend("C12", "family first-touch: a table file (same options / different no_header, delimiter, without_null / another file / inline), SOURCE, EXECUTE and a cursor first reached inside per-record evaluation "+
		"(subquery in the select list, in WHERE, user-function body; lower and upper half of the records through different expressions); part 1: 6 records x 3 workers, all schedules with at most 1 non-default decision at record/lock/wait-group points (thorough: evaluation and loop points too); "+
		"part 2: 400 records through the real command line, --cpu 1 against --cpu 2 and 4, 2 runs each (thorough 6); oracle: result, messages, exit code and file bytes equal to the single-worker run", c12FirstTouchRun)
}

type c12TouchCase struct {
	Class string // names the feature; part of the signature
	Name  string
	SQL   func(half int) string
}

const c12TouchG = "v,w\n1,x\n2,\n3,z\n"      // a table with an empty field
const c12TouchH = "v,w\n7,p\n8,q\n"          // another table
const c12TouchD = "v;w,u\n1;x,p\n2;,q\n3;z,r\n" // two readings: delimiter ',' or ';'

func c12TouchFiles(n int) map[string]string {
	return map[string]string{
		"t.csv":   csvTable("a", n, func(i int) string { return fmt.Sprintf("%d", i+1) }),
		"g.csv":   c12TouchG,
		"h.csv":   c12TouchH,
		"d.csv":   c12TouchD,
		"inc.sql": "VAR @zz := 100;\n",
	}
}

func c12TouchCases() []c12TouchCase {
	var out []c12TouchCase
	// two table expressions, each yielding one value
	pairs := []struct{ class, name, lo, hi string }{
		{"same-file-same-way", "by-name-twice", "SELECT COUNT(*) FROM g", "SELECT COUNT(w) FROM g"},
		{"same-file-same-way", "same-options-twice", "SELECT COUNT(*) FROM CSV(',', `g.csv`, 'UTF8', TRUE)", "SELECT COUNT(*) FROM CSV(',', `g.csv`, 'UTF8', TRUE) g2"},
		{"two-files", "two-files", "SELECT COUNT(*) FROM g", "SELECT COUNT(*) FROM h"},
		{"file-and-inline-table", "name-and-inline", "SELECT COUNT(*) FROM g", "SELECT COUNT(*) FROM INLINE::('g.csv')"},
		{"same-file-with-different-import-options", "no-header", "SELECT COUNT(*) FROM CSV(',', `g.csv`, 'UTF8', TRUE)", "SELECT COUNT(*) FROM g"},
		{"same-file-with-different-import-options", "delimiter", "SELECT MAX(d1.1) FROM CSV(';', `d.csv`) d1", "SELECT MAX(d2.1) FROM CSV(',', `d.csv`) d2"},
		{"same-file-with-different-import-options", "without-null", "SELECT COUNT(g1.2) FROM CSV(',', `g.csv`, 'UTF8', FALSE, TRUE) g1", "SELECT COUNT(g2.2) FROM g g2"},
	}
	for _, p := range pairs {
		p := p
		out = append(out,
			c12TouchCase{p.class, "select-list/" + p.name, func(half int) string {
				return fmt.Sprintf("SELECT a, CASE WHEN a <= %d THEN (%s) ELSE (%s) END FROM t", half, p.lo, p.hi)
			}},
			c12TouchCase{p.class, "where/" + p.name, func(half int) string {
				return fmt.Sprintf("SELECT a FROM t WHERE (a <= %d AND (%s) = 3) OR (a > %d AND (%s) = 3)", half, p.lo, half, p.hi)
			}},
			c12TouchCase{p.class, "function-body/" + p.name, func(half int) string {
				return fmt.Sprintf("DECLARE pick FUNCTION (@a) AS BEGIN IF @a <= %d THEN RETURN (%s); END IF; RETURN (%s); END; SELECT a, pick(a) FROM t", half, p.lo, p.hi)
			}})
	}
	fn := func(class, body string) {
		out = append(out, c12TouchCase{class, "function-body/" + class, func(half int) string {
			return "DECLARE touch FUNCTION (@a) AS BEGIN " + body + " END; SELECT a, touch(a) FROM t; SELECT COUNT(touch(a)) FROM t WHERE touch(a) > 0;"
		}})
	}
	fn("source-in-function", "SOURCE `inc.sql`; RETURN @a + @zz;")
	fn("execute-in-function", "EXECUTE 'VAR @q := %s * 2;' USING @a; RETURN @q;")
	fn("cursor-in-function", "VAR @r; DECLARE cur CURSOR FOR SELECT v FROM g WHERE v = @a % 3 + 1; OPEN cur; FETCH cur INTO @r; CLOSE cur; DISPOSE CURSOR cur; RETURN @r + @a;")
	return out
}

func c12FirstTouchRun(c *core.Ctx) {
	if !c12FamilyOnly("first-touch") {
		return
	}
	var idx int64
	// part 1: controlled schedules
	for _, k := range c12TouchCases() {
		idx++
		if !c.Mine(idx) {
			continue
		}
		if c.Expired() {
			c.Incomplete("family first-touch: time budget reached")
			return
		}
		sc := goxScenario{Name: "first-touch:" + k.Name, Files: c12TouchFiles(6), SQL: k.SQL(2), CPU: 3}
		c12FamilyScenarioSig(c, "first-touch", k.Class, sc, c.Thorough(), 0, 0, true, nil)
		c.Observe("first_touch_classes", k.Class)
	}
	// part 2: real threads through the command line
	if procx.Binary() == "" || runtime.NumCPU() < 2 {
		c.Incomplete("family first-touch, part 2: needs the csvq-verif binary and at least 2 cores")
		return
	}
	runs := 2
	if c.Thorough() {
		runs = 6
	}
	for _, k := range c12TouchCases() {
		idx++
		if !c.Mine(idx) {
			continue
		}
		if c.Expired() {
			c.Incomplete("family first-touch: time budget reached")
			return
		}
		sc := goxScenario{Name: "first-touch-threads:" + k.Name, Files: c12TouchFiles(400), SQL: k.SQL(200), CPU: 4}
		c12ThreadsScenario(c, "first-touch", k.Class, sc, runs)
	}
}

// c12ThreadsOutcome runs the scenario once through the command line.
func c12ThreadsOutcome(dir string, sc goxScenario, cpu int) (string, procx.Outcome) {
	drv.ClearDir(dir)
	drv.WriteFiles(dir, sc.Files)
	o := procx.Exec(procx.Run{Dir: dir, Args: []string{"--cpu", fmt.Sprint(cpu), "--wait-timeout", "120", "-f", "csv", sc.SQL}, Env: []string{"GOMAXPROCS=4"}, Stdin: sc.Stdin, Timeout: 120 * time.Second})
	var sb strings.Builder
	fmt.Fprintf(&sb, "exit: %d\nstdout: %q\nstderr: %q\n", o.Exit, o.Stdout, clipTo(o.Stderr, 600))
	snap := drv.DirSnapshot(dir)
	names := make([]string, 0, len(snap))
	for n := range snap {
		names = append(names, n)
	}
	sort.Strings(names)
	for _, n := range names {
		if _, input := sc.Files[n]; input && snap[n] == sc.Files[n] {
			continue
		}
		fmt.Fprintf(&sb, "file %s: %q\n", n, snap[n])
	}
	return sb.String(), o
}

func clipTo(s string, n int) string {
	if len(s) > n {
		return s[:n] + "..."
	}
	return s
}

// c12GeneratedFiles: families whose tables are too large for a replay payload regenerate them.
var c12GeneratedFiles = map[string]func() map[string]string{}

func c12ThreadsScenario(c *core.Ctx, family, class string, sc goxScenario, runs int) {
	c12ThreadsScenarioCPUs(c, family, class, sc, runs, []int{2, 4})
}

func c12ThreadsScenarioCPUs(c *core.Ctx, family, class string, sc goxScenario, runs int, cpus []int) {
	psc := sc
	if c12GeneratedFiles[family] != nil {
		psc.Files = nil
	}
	dir := core.Scratch("c12-threads")
	want, ref := c12ThreadsOutcome(dir, sc, 1)
	if ref.Killed || ref.Exit < 0 {
		c.Incomplete(fmt.Sprintf("family %s, scenario %s: the reference run did not end by itself (exit %d, killed %v)", family, sc.Name, ref.Exit, ref.Killed))
		return
	}
	n := int64(1)
	done := false
	for _, cpu := range cpus {
		if cpu > runtime.NumCPU() {
			continue // csvq clamps --cpu to the number of cores: not another configuration
		}
		for r := 0; r < runs && !done; r++ {
			got, o := c12ThreadsOutcome(dir, sc, cpu)
			n++
			if o.Killed {
				c.Incomplete(fmt.Sprintf("family %s, scenario %s: a run with --cpu %d was still running after the allowance and was killed; not judged", family, sc.Name, cpu))
				continue
			}
			if got == want {
				continue
			}
			if strings.Contains(o.Stderr, "timeout") {
				// a wait that ran out (120 s) is the machine's load, not the program's result
				c.Incomplete(fmt.Sprintf("family %s, scenario %s: a run with --cpu %d ended in a time-out; not judged", family, sc.Name, cpu))
				continue
			}
			kind := "result-differs"
			switch {
			case ref.Exit == 0 && o.Exit != 0:
				kind = "fails-where-the-single-worker-run-succeeds"
			case ref.Exit != 0 && o.Exit == 0:
				kind = "succeeds-where-the-single-worker-run-fails"
			case ref.Exit != 0 && o.Exit != 0:
				kind = "another-error"
			}
			done = true
			c.Violate(family+":"+class+":"+kind, fmt.Sprintf("scenario %s: csvq --cpu %d -f csv %q (run %d) against --cpu 1: %s", sc.Name, cpu, clip(sc.SQL), r+1, goxFirstDiff(want, got)),
				c12FamPayload{Family: family, Class: class, Scenario: psc, FreeRuns: runs, Threads: true})
		}
	}
	c.EvalN(n, n-1)
	c.Add(family+"_command_line_runs", n)
}

func c12ThreadsReplay(c *core.Ctx, p c12FamPayload) {
	runs := p.FreeRuns
	if runs < 6 {
		runs = 6
	}
	if gen := c12GeneratedFiles[p.Family]; gen != nil && p.Scenario.Files == nil {
		p.Scenario.Files = gen()
	}
	c12ThreadsScenario(c, p.Family, p.Class, p.Scenario, runs)
	fmt.Printf("scenario %s run again through the command line: --cpu 1 once, --cpu 2 and 4 %d times each\n", p.Scenario.Name, runs)
}
