package checks

import (
	"encoding/json"
	"fmt"
	"os"
	"path/filepath"
	"strconv"
	"strings"
	"time"

	"github.com/mithrandie/csvq/lib/parser"
	"github.com/mithrandie/csvq/lib/query"

	"verif/harness/internal/core"
	"verif/harness/internal/drv"
	"verif/harness/internal/relm"
	"verif/harness/internal/rv"
)

// C03 — SELECT filters, projects and joins exactly as relational semantics prescribe.
//
// Bounded-exhaustive: every world (contents of t1(a,b), t2(a,c)) up to a row bound over a small value alphabet
// is run through a catalogue of queries generated from component lists (FROM shape x WHERE x select list);
// every result is compared with internal/relm (a relational evaluator over the same query AST).
// Families:
//   single  all t1 tables (ordered rows) x single-source catalogue (sequence comparison), CTE/table referenced twice,
//           self joins, recursive CTEs
//   pair    all pairs of tables (rows as multisets) x two-table catalogue (multiset comparison)
//   big     generated larger tables so that csvq splits the work over 2..4 goroutines, CPU = 1..4
//   file    the same catalogues on CSV files, every query followed by SELECT ... FOR UPDATE on the tables + ROLLBACK
//   ranges  GoroutineTaskManager.RecordRange partitions [0,len) for every len <= 2000 x workers <= 32
// After every query a follow-up SELECT * on a base table (same transaction) must still return the table.

func init() {
	core.Register(&core.Check{
		ID:    "C03",
		Level: "exploration",
		Rule: "one case = (world, query, execution mode), enumerated without repetition. Worlds: t1(a,b) with rows over {NULL,1,2,'x'}^2 and t2(a,c) over {NULL,1,'2','X'}^2. " +
			"single family: every ordered t1 of <=2 rows and every ordered 3-row t1 over 8 of the 16 rows (thorough: every t1 of <=3 rows, 4-row t1 over 6 rows); " +
			"pair family, rows as multisets: (t1<=2)x(t2<=1), (t1<=1)x(t2=2), (2 rows)x(2 rows) over 8 rows each (thorough: (<=2)x(<=2), (3)x(<=1), (<=1)x(3 rows over 8)); " +
			"modes: --cpu 1, plus --cpu 2 / 3 (thorough 4) with the per-core threshold lowered to 1 when a table has that many rows; " +
			"12 (thorough 14) generated worlds of 20x22 .. 403x3 rows at --cpu 1..4 with the default threshold, 4 worlds of 5..12 rows at thresholds 1,2 x --cpu 1..4; " +
			"CSV-file worlds (t1 <=1 row, thorough <=2, x 2 t2) where every query is followed by SELECT * [FOR UPDATE] on both tables and ROLLBACK. " +
			"Queries (quick 693, thorough 1852): plain table: full product of 17 WHERE forms (comparisons, IS NULL, NOT, AND/OR, TRUE, NULL, arithmetic, IN/NOT IN subquery, correlated [NOT] EXISTS, correlated scalar subquery, correlated IN) x 8 select lists; " +
			"9 other single sources (alias, subquery, subquery with WHERE, nested subquery, unnamed subquery, renaming subquery, CTE, CTE with column list, aliased CTE) x every WHERE and x every select list (thorough: full product); " +
			"CTE / table / subquery referenced twice (UNION ALL both orders, IN, EXISTS, chained CTEs, join) x 3 predicates; self joins; 6 recursive CTEs bounded by a depth column; " +
			"comma, CROSS, {INNER,LEFT,RIGHT,FULL} x 10 ON conditions, NATURAL, USING, aliases; 3 LATERAL subqueries x 13 join forms; subquery and CTE operands; 3-operand chains; " +
			"9 core joins x 9 WHERE x 5 select lists (quick: full product for two of them); joins inside derived tables, CTEs, EXISTS, IN; scalar subquery in the select list. " +
			"After every query a follow-up SELECT * on a base table in the same transaction must return the table. Also RecordRange for every len<=2000 x workers<=32. " +
			"non-trivial = every base table the query names is non-empty and the model does not refuse the query",
		Assume: []string{
			"reference = internal/relm (nested-loop relational evaluator written from the property text and the manual: a row is kept iff its condition is TRUE; IN is = ANY, NOT IN is <> ALL; EXISTS; scalar subquery = NULL when empty, error when >1 row; recursive CTE as the manual's iteration) on top of internal/rv (value comparison, ternary logic, arithmetic; validated separately by C06)",
			"rows are compared as sequences only where the property promises an order (a single source: table, or subquery/CTE over a single source); joins, UNION ALL and recursive CTEs as multisets",
			"USING/NATURAL: accepted if csvq equals the model under any of four readings (merged columns first as in standard SQL, or in place; a merged cell with two non-NULL sides shows the left or the right value); merged columns are only referenced without a table name",
			"column names are compared for *, plain columns and aliases only; result column order as written",
			"value alphabet is a finite sample (NULL, integers, text incl. numeric-looking and case-differing text); TZ=UTC; one session; temporary tables (typed cells) and CSV files (text cells)",
		},
		Run:            c03Run,
		Replay:         c03Replay,
		QuickBudget:    240 * time.Second,
		ThoroughBudget: 25 * time.Minute,
	})
}

// ---- AST helpers ----------------------------------------------------------------------------------

func c3c(s string) relm.Col {
	if i := strings.IndexByte(s, '.'); i >= 0 {
		return relm.Col{T: s[:i], N: s[i+1:]}
	}
	return relm.Col{N: s}
}
func c3q(o, n string) relm.Col { return relm.Col{T: o, N: n} }
func c3i(i int64) relm.Expr    { return relm.Lit{V: rv.I(i)} }
func c3s(s string) relm.Expr   { return relm.Lit{V: rv.S(s)} }

var c3null relm.Expr = relm.Lit{V: rv.N()}
var c3true relm.Expr = relm.Lit{V: rv.Tv(rv.T)}

func c3cmp(op string, l, r relm.Expr) relm.Expr { return relm.Cmp{Op: op, L: l, R: r} }
func c3eq(l, r relm.Expr) relm.Expr             { return relm.Cmp{Op: "=", L: l, R: r} }
func c3and(l, r relm.Expr) relm.Expr            { return relm.Logic{Op: "AND", L: l, R: r} }
func c3or(l, r relm.Expr) relm.Expr             { return relm.Logic{Op: "OR", L: l, R: r} }
func c3plus(l, r relm.Expr) relm.Expr           { return relm.Arith{Op: '+', L: l, R: r} }

func c3star() []relm.Field { return []relm.Field{{Star: true}} }
func c3f(es ...any) []relm.Field {
	var out []relm.Field
	for _, e := range es {
		switch x := e.(type) {
		case string:
			switch {
			case x == "*":
				out = append(out, relm.Field{Star: true})
			case strings.HasSuffix(x, ".*"):
				out = append(out, relm.Field{TStar: strings.TrimSuffix(x, ".*")})
			default:
				out = append(out, relm.Field{E: c3c(x)})
			}
		case relm.Field:
			out = append(out, x)
		case relm.Expr:
			out = append(out, relm.Field{E: x})
		}
	}
	return out
}
func c3as(e relm.Expr, as string) relm.Field { return relm.Field{E: e, As: as} }

func c3sel(fields []relm.Field, where relm.Expr, from ...relm.Table) *relm.Query {
	return &relm.Query{Body: &relm.Select{Fields: fields, From: from, Where: where}}
}
func c3body(q *relm.Query) relm.Body { return q.Body }
func c3union(l, r *relm.Query) *relm.Query {
	return &relm.Query{Body: &relm.UnionAll{L: l.Body, R: r.Body}}
}
func c3with(q *relm.Query, ctes ...*relm.CTE) *relm.Query {
	return &relm.Query{With: ctes, Body: q.Body}
}
func c3ref(n string) relm.Table       { return relm.Ref{Name: n} }
func c3refAs(n, as string) relm.Table { return relm.Ref{Name: n, As: as} }
func c3sub(q *relm.Query, as string) relm.Table {
	return relm.Sub{Q: q, As: as}
}
func c3lat(q *relm.Query, as string) relm.Table {
	return relm.Sub{Q: q, As: as, Lateral: true}
}
func c3join(kind string, l, r relm.Table, on relm.Expr) relm.Table {
	return relm.Join{Kind: kind, L: l, R: r, On: on}
}
func c3using(kind string, l, r relm.Table, cols ...string) relm.Table {
	return relm.Join{Kind: kind, L: l, R: r, Using: cols}
}
func c3natural(kind string, l, r relm.Table) relm.Table {
	return relm.Join{Kind: kind, L: l, R: r, Natural: true}
}

// ---- catalogue --------------------------------------------------------------------------------------

type c03Query struct {
	ID      string // stable name inside the catalogue
	Class   string // coarse class used in signatures
	Q       *relm.Query
	SQL     string
	Tables  []string // base tables named
	FromSub bool     // a FROM subquery reads a base table directly (classification of follow-up failures)
	Heavy   bool     // cost grows with |t1|^2 (self join, subquery over t1 per row of t1): skipped on the long generated tables
	stmt    []parser.Statement
}

type c03Cat struct {
	name string
	qs   []*c03Query
	ids  map[string]bool
}

func (cat *c03Cat) add(id, class string, q *relm.Query) {
	if cat.ids == nil {
		cat.ids = map[string]bool{}
	}
	if cat.ids[id] {
		panic("c03: duplicate query id " + id)
	}
	cat.ids[id] = true
	sql := q.SQL()
	e := &c03Query{ID: id, Class: class, Q: q, SQL: sql}
	for _, n := range q.RefNames() {
		if n == "t1" || n == "t2" {
			e.Tables = append(e.Tables, n)
		}
	}
	e.FromSub = q.HasFromSubquery()
	for _, m := range []string{"(sub)", "(corr)", "scalar", "J/self", "T/cte-in", "T/cte-exists", "T/cte-join", "T/table-in", "exists-join", "in-join", "/chain", "nested-right", "R/chain", "R/stepin", "join-again"} {
		if strings.Contains(id, m) {
			e.Heavy = true
		}
	}
	cat.qs = append(cat.qs, e)
}

func (cat *c03Cat) parse() {
	for _, q := range cat.qs {
		q.stmt = mustParse(q.SQL)
	}
}

// single-source catalogue -------------------------------------------------------------------------

type c03From struct {
	id     string
	with   []*relm.CTE
	from   relm.Table
	o      string // name under which the source is known ("" = none)
	ca, cb string
}

func c03SingleFroms() []c03From {
	t1 := c3ref("t1")
	all := c3sel(c3star(), nil, t1)
	return []c03From{
		{id: "table", from: t1, o: "t1", ca: "a", cb: "b"},
		{id: "alias", from: c3refAs("t1", "x"), o: "x", ca: "a", cb: "b"},
		{id: "sub", from: c3sub(all, "s"), o: "s", ca: "a", cb: "b"},
		{id: "subwhere", from: c3sub(c3sel(c3f("a", "b"), relm.IsNull{E: c3c("a"), Neg: true}, t1), "s"), o: "s", ca: "a", cb: "b"},
		{id: "subsub", from: c3sub(c3sel(c3star(), nil, c3sub(all, "s1")), "s"), o: "s", ca: "a", cb: "b"},
		{id: "cte", with: []*relm.CTE{{Name: "c", Q: all}}, from: c3ref("c"), o: "c", ca: "a", cb: "b"},
		{id: "ctecols", with: []*relm.CTE{{Name: "c", Cols: []string{"x", "y"}, Q: c3sel(c3f("a", "b"), nil, t1)}}, from: c3ref("c"), o: "c", ca: "x", cb: "y"},
		{id: "subrename", from: c3sub(c3sel(c3f(c3as(c3c("b"), "p"), c3as(c3c("a"), "q")), nil, t1), "s"), o: "s", ca: "p", cb: "q"},
		{id: "subnoalias", from: c3sub(all, ""), o: "", ca: "a", cb: "b"},
		{id: "ctealias", with: []*relm.CTE{{Name: "c", Q: c3sel(c3star(), relm.IsNull{E: c3c("b"), Neg: true}, t1)}}, from: c3refAs("c", "c2"), o: "c2", ca: "a", cb: "b"},
	}
}

type c03Where struct {
	id    string
	needO bool
	mk    func(o, ca, cb string) relm.Expr
}

func c03SingleWheres() []c03Where {
	y := c3refAs("t1", "y")
	return []c03Where{
		{"none", false, func(o, ca, cb string) relm.Expr { return nil }},
		{"a=1", false, func(o, ca, cb string) relm.Expr { return c3eq(c3c(ca), c3i(1)) }},
		{"a<b", false, func(o, ca, cb string) relm.Expr { return c3cmp("<", c3c(ca), c3c(cb)) }},
		{"aISNULL", false, func(o, ca, cb string) relm.Expr { return relm.IsNull{E: c3c(ca)} }},
		{"NOT(a=b)", false, func(o, ca, cb string) relm.Expr { return relm.Not{E: c3eq(c3c(ca), c3c(cb))} }},
		{"a=1ORb=x", false, func(o, ca, cb string) relm.Expr { return c3or(c3eq(c3c(ca), c3i(1)), c3eq(c3c(cb), c3s("x"))) }},
		{"a<>1ANDbNOTNULL", false, func(o, ca, cb string) relm.Expr {
			return c3and(c3cmp("<>", c3c(ca), c3i(1)), relm.IsNull{E: c3c(cb), Neg: true})
		}},
		{"TRUE", false, func(o, ca, cb string) relm.Expr { return c3true }},
		{"NULL", false, func(o, ca, cb string) relm.Expr { return c3null }},
		{"a+1=2", false, func(o, ca, cb string) relm.Expr { return c3eq(c3plus(c3c(ca), c3i(1)), c3i(2)) }},
		{"o.a=1", true, func(o, ca, cb string) relm.Expr { return c3eq(c3q(o, ca), c3i(1)) }},
		{"aIN(sub)", false, func(o, ca, cb string) relm.Expr { return relm.In{E: c3c(ca), Q: c3sel(c3f("b"), nil, c3ref("t1"))} }},
		{"aNOTIN(sub)", false, func(o, ca, cb string) relm.Expr {
			return relm.In{E: c3c(ca), Q: c3sel(c3f("b"), nil, c3ref("t1")), Neg: true}
		}},
		{"EXISTS(corr)", true, func(o, ca, cb string) relm.Expr {
			return relm.Exists{Q: c3sel(c3f(c3i(1)), c3eq(c3c("y.a"), c3q(o, cb)), y)}
		}},
		{"NOTEXISTS(corr)", true, func(o, ca, cb string) relm.Expr {
			return relm.Exists{Q: c3sel(c3f(c3i(1)), c3eq(c3c("y.a"), c3q(o, cb)), y), Neg: true}
		}},
		{"b=(scalar corr)", true, func(o, ca, cb string) relm.Expr {
			return c3eq(c3c(cb), relm.Scalar{Q: c3sel(c3f("y.b"), c3eq(c3c("y.a"), c3q(o, ca)), y)})
		}},
		{"aIN(corr)", true, func(o, ca, cb string) relm.Expr {
			return relm.In{E: c3q(o, ca), Q: c3sel(c3f("y.b"), c3cmp("<>", c3c("y.a"), c3q(o, ca)), y)}
		}},
	}
}

type c03Sel struct {
	id    string
	needO bool
	mk    func(o, ca, cb string) []relm.Field
}

func c03SingleSels() []c03Sel {
	return []c03Sel{
		{"*", false, func(o, ca, cb string) []relm.Field { return c3star() }},
		{"a", false, func(o, ca, cb string) []relm.Field { return c3f(ca) }},
		{"b,a", false, func(o, ca, cb string) []relm.Field { return c3f(cb, ca) }},
		{"o.a", true, func(o, ca, cb string) []relm.Field { return c3f(o + "." + ca) }},
		{"a+1ASx,b", false, func(o, ca, cb string) []relm.Field { return c3f(c3as(c3plus(c3c(ca), c3i(1)), "x"), cb) }},
		{"o.*", true, func(o, ca, cb string) []relm.Field { return c3f(o + ".*") }},
		{"preds", false, func(o, ca, cb string) []relm.Field {
			return c3f(c3as(c3eq(c3c(ca), c3i(1)), "is1"), c3as(relm.IsNull{E: c3c(ca)}, "isn"))
		}},
		{"*,aASa2", false, func(o, ca, cb string) []relm.Field { return c3f("*", c3as(c3c(ca), "a2")) }},
		{"a,aASk", false, func(o, ca, cb string) []relm.Field { return c3f(ca, c3as(c3c(ca), "k")) }},
		{"b,bASk,a", false, func(o, ca, cb string) []relm.Field { return c3f(cb, c3as(c3c(cb), "k"), ca) }},
	}
}

func c03CatSingle(thorough bool) *c03Cat {
	cat := &c03Cat{name: "single"}
	froms, wheres, sels := c03SingleFroms(), c03SingleWheres(), c03SingleSels()
	for fi, f := range froms {
		for wi, w := range wheres {
			for si, s := range sels {
				// full product for the plain table; every other FROM shape meets every WHERE (with *) and every select list (with a=1)
				if fi != 0 && !(si == 0 || wi == 1) && !thorough {
					continue
				}
				if (w.needO || s.needO) && f.o == "" {
					continue
				}
				q := c3sel(s.mk(f.o, f.ca, f.cb), w.mk(f.o, f.ca, f.cb), f.from)
				q.With = f.with
				cat.add(fmt.Sprintf("S/%s/%s/%s", f.id, w.id, s.id), "single:"+f.id, q)
			}
		}
	}
	t1 := c3ref("t1")
	all := c3sel(c3star(), nil, t1)
	cteAll := &relm.CTE{Name: "c", Q: all}
	// a stored table referenced twice: one reference filters away a non-trailing row
	preds := []struct {
		id string
		e  relm.Expr
	}{{"a=2", c3eq(c3c("a"), c3i(2))}, {"aISNULL", relm.IsNull{E: c3c("a")}}, {"b=x", c3eq(c3c("b"), c3s("x"))}}
	for _, p := range preds {
		cat.add("T/cte-union/"+p.id, "twice:cte", c3with(c3union(c3sel(c3star(), p.e, c3ref("c")), c3sel(c3star(), nil, c3ref("c"))), cteAll))
		cat.add("T/cte-union-rev/"+p.id, "twice:cte", c3with(c3union(c3sel(c3star(), nil, c3ref("c")), c3sel(c3star(), p.e, c3ref("c"))), cteAll))
		cat.add("T/cte-in/"+p.id, "twice:cte", c3with(c3sel(c3star(), relm.In{E: c3c("a"), Q: c3sel(c3f("a"), p.e, c3ref("c"))}, c3ref("c")), cteAll))
		cat.add("T/cte-in-outerfilter/"+p.id, "twice:cte", c3with(c3sel(c3star(), c3and(p.e, relm.In{E: c3c("b"), Q: c3sel(c3f("b"), nil, c3ref("c"))}), c3ref("c")), cteAll))
		cat.add("T/cte-exists/"+p.id, "twice:cte", c3with(c3sel(c3star(), relm.Exists{Q: c3sel(c3f(c3i(1)), c3and(p.e, c3eq(c3c("d.a"), c3c("c.b"))), c3refAs("c", "d"))}, c3ref("c")), cteAll))
		cat.add("T/cte-chain/"+p.id, "twice:cte", c3with(c3union(c3sel(c3star(), nil, c3ref("d")), c3sel(c3star(), nil, c3ref("c"))), cteAll, &relm.CTE{Name: "d", Q: c3sel(c3star(), p.e, c3ref("c"))}))
		cat.add("T/table-union/"+p.id, "twice:table", c3union(c3sel(c3star(), p.e, t1), c3sel(c3star(), nil, t1)))
		cat.add("T/table-in/"+p.id, "twice:table", c3sel(c3star(), relm.In{E: c3c("a"), Q: c3sel(c3f("a"), p.e, t1)}, t1))
		cat.add("T/sub-union/"+p.id, "twice:sub", c3union(c3sel(c3star(), nil, c3sub(c3sel(c3star(), p.e, t1), "s")), c3sel(c3star(), nil, c3sub(all, "s"))))
		cat.add("T/cte-join/"+p.id, "twice:cte", c3with(c3sel(c3star(), nil, c3join("INNER", c3sub(c3sel(c3star(), p.e, c3ref("c")), "x"), c3refAs("c", "y"), c3eq(c3c("x.a"), c3c("y.a")))), cteAll))
	}
	// self joins
	for _, k := range []string{"INNER", "LEFT", "RIGHT", "FULL"} {
		cat.add("J/self/"+k+"/x.a=y.b", "selfjoin:"+k, c3sel(c3star(), nil, c3join(k, c3refAs("t1", "x"), c3refAs("t1", "y"), c3eq(c3c("x.a"), c3c("y.b")))))
		cat.add("J/self/"+k+"/natural", "selfjoin:NATURAL "+k, c3sel(c3star(), nil, c3natural(k, c3refAs("t1", "x"), c3refAs("t1", "y"))))
		cat.add("J/self/"+k+"/using(b)", "selfjoin:USING "+k, c3sel(c3f("b", "x.a", c3as(c3c("y.a"), "ya")), nil, c3using(k, c3refAs("t1", "x"), c3refAs("t1", "y"), "b")))
	}
	cat.add("J/self/cross", "selfjoin:CROSS", c3sel(c3f("x.a", "y.b"), nil, c3refAs("t1", "x"), c3refAs("t1", "y")))
	cat.add("J/self/lateral", "selfjoin:LATERAL", c3sel(c3star(), nil, c3refAs("t1", "x"), c3lat(c3sel(c3f("y.b"), c3eq(c3c("y.a"), c3c("x.b")), c3refAs("t1", "y")), "s")))
	// recursive common table expressions, bounded by a depth column
	rec := func(id string, base, step *relm.Query, cols []string, outer *relm.Query) {
		cat.add("R/"+id, "recursive", c3with(outer, &relm.CTE{Name: "r", Cols: cols, Recursive: true, Q: c3union(base, step)}))
	}
	dlt := func(n int64) relm.Expr { return c3cmp("<", c3c("d"), c3i(n)) }
	rec("count", c3sel(c3f(c3i(1)), nil), c3sel(c3f(c3plus(c3c("n"), c3i(1))), c3cmp("<", c3c("n"), c3i(3)), c3ref("r")), []string{"n"}, c3sel(c3f("n"), nil, c3ref("r")))
	rec("copy", c3sel(c3f("a", "b", c3i(0)), nil, t1),
		c3sel(c3f("a", "b", c3plus(c3c("d"), c3i(1))), c3and(dlt(2), relm.IsNull{E: c3c("a"), Neg: true}), c3ref("r")),
		[]string{"a", "b", "d"}, c3sel(c3star(), nil, c3ref("r")))
	rec("chain", c3sel(c3f("a", "b", c3i(0)), c3eq(c3c("a"), c3i(1)), t1),
		c3sel(c3f("t1.a", "t1.b", c3plus(c3c("r.d"), c3i(1))), dlt(2), c3join("INNER", c3ref("r"), t1, c3eq(c3c("t1.a"), c3c("r.b")))),
		[]string{"a", "b", "d"}, c3sel(c3star(), nil, c3ref("r")))
	rec("twice", c3sel(c3f("a", "b", c3i(0)), nil, t1),
		c3sel(c3f("a", "b", c3plus(c3c("d"), c3i(1))), c3and(dlt(1), c3eq(c3c("b"), c3s("x"))), c3ref("r")),
		[]string{"a", "b", "d"}, c3union(c3sel(c3star(), c3eq(c3c("d"), c3i(1)), c3ref("r")), c3sel(c3star(), nil, c3ref("r"))))
	rec("stepin", c3sel(c3f("a", "b", c3i(0)), nil, t1),
		c3sel(c3f("a", "b", c3plus(c3c("d"), c3i(1))), c3and(dlt(2), relm.In{E: c3c("a"), Q: c3sel(c3f("b"), nil, t1)}), c3ref("r")),
		[]string{"a", "b", "d"}, c3sel(c3f("d", "a"), c3cmp(">", c3c("d"), c3i(0)), c3ref("r")))
	// UNION (without ALL) as the recursion: an anchor with equal rows, steps that produce rows already known
	recd := func(id string, base, step *relm.Query, cols []string, outer *relm.Query) {
		cat.add("R/"+id, "recursive", c3with(outer, &relm.CTE{Name: "r", Cols: cols, Recursive: true, Q: &relm.Query{Body: &relm.UnionAll{L: base.Body, R: step.Body, Distinct: true}}}))
	}
	recd("distinct-anchor-with-equal-rows", c3sel(c3f("b", c3i(0)), nil, t1),
		c3sel(c3f("b", c3plus(c3c("d"), c3i(1))), dlt(2), c3ref("r")),
		[]string{"b", "d"}, c3sel(c3star(), nil, c3ref("r")))
	recd("distinct-reach", c3sel(c3f("a", "b", c3i(0)), relm.IsNull{E: c3c("a"), Neg: true}, t1),
		c3sel(c3f("t1.a", "t1.b", c3plus(c3c("r.d"), c3i(1))), dlt(3), c3join("INNER", c3ref("r"), t1, c3eq(c3c("t1.a"), c3c("r.b")))),
		[]string{"a", "b", "d"}, c3sel(c3f("a", "b"), nil, c3ref("r")))
	recd("distinct-step-repeats-known-rows", c3sel(c3f("a", c3i(0)), nil, t1),
		c3sel(c3f("a", c3i(1)), dlt(1), c3ref("r")),
		[]string{"a", "d"}, c3sel(c3star(), nil, c3ref("r")))
	rec("alias", c3sel(c3f("a", c3i(0)), nil, t1),
		c3sel(c3f("q.a", c3plus(c3c("q.d"), c3i(1))), c3cmp("<", c3c("q.d"), c3i(2)), c3refAs("r", "q")),
		[]string{"a", "d"}, c3sel(c3star(), relm.IsNull{E: c3c("a")}, c3ref("r")))
	return cat
}

// two-table catalogue --------------------------------------------------------------------------------

type c03On struct {
	id string
	e  relm.Expr
}

func c03Ons(l, r string) []c03On {
	la, lb, ra, rc := c3q(l, "a"), c3q(l, "b"), c3q(r, "a"), c3q(r, "c")
	return []c03On{
		{"a=a", c3eq(la, ra)},
		{"a<a", c3cmp("<", la, ra)},
		{"b=c", c3eq(lb, rc)},
		{"a=aANDb=c", c3and(c3eq(la, ra), c3eq(lb, rc))},
		{"a=aORb=c", c3or(c3eq(la, ra), c3eq(lb, rc))},
		{"r.aISNULL", relm.IsNull{E: ra}},
		{"TRUE", c3true},
		{"NULL", c3null},
		{"l.a=1", c3eq(la, c3i(1))},
		{"NOT(a=a)", relm.Not{E: c3eq(la, ra)}},
	}
}

var c03Kinds = []string{"INNER", "LEFT", "RIGHT", "FULL"}

func c03CatPair(thorough bool) *c03Cat {
	cat := &c03Cat{name: "pair"}
	t1, t2 := c3ref("t1"), c3ref("t2")
	addStar := func(id, class string, from ...relm.Table) {
		cat.add(id, class, c3sel(c3star(), nil, from...))
	}
	addStar("P/comma", "join:comma", t1, t2)
	addStar("P/cross", "join:CROSS", c3join("CROSS", t1, t2, nil))
	for _, k := range c03Kinds {
		for _, on := range c03Ons("t1", "t2") {
			addStar("P/"+k+"/on:"+on.id, "join:"+k+" ON", c3join(k, t1, t2, on.e))
		}
		addStar("P/"+k+"/natural", "join:NATURAL "+k, c3natural(k, t1, t2))
		addStar("P/"+k+"/using(a)", "join:"+k+" USING", c3using(k, t1, t2, "a"))
		addStar("P/"+k+"/alias-on", "join:"+k+" ON", c3join(k, c3refAs("t1", "l"), c3refAs("t2", "r"), c3eq(c3c("l.a"), c3c("r.a"))))
	}
	// LATERAL
	latA := c3sel(c3star(), c3eq(c3c("t2.a"), c3c("t1.a")), t2)
	latC := c3sel(c3f("a", "c"), c3eq(c3c("t2.c"), c3c("t1.b")), t2)
	latX := c3sel(c3f(c3as(c3c("c"), "c"), c3as(c3plus(c3c("t1.a"), c3i(1)), "n")), c3cmp("<>", c3c("t2.a"), c3c("t1.a")), t2)
	for li, ls := range []*relm.Query{latA, latC, latX} {
		n := []string{"a=a", "c=b", "outer-in-select"}[li]
		addStar("P/lateral/comma/"+n, "lateral:comma", t1, c3lat(ls, "s"))
		addStar("P/lateral/cross/"+n, "lateral:CROSS", c3join("CROSS", t1, c3lat(ls, "s"), nil))
		addStar("P/lateral/inner-on-true/"+n, "lateral:INNER ON", c3join("INNER", t1, c3lat(ls, "s"), c3true))
		addStar("P/lateral/left-on-true/"+n, "lateral:LEFT ON", c3join("LEFT", t1, c3lat(ls, "s"), c3true))
		addStar("P/lateral/left-on-c=b/"+n, "lateral:LEFT ON", c3join("LEFT", t1, c3lat(ls, "s"), c3eq(c3c("s.c"), c3c("t1.b"))))
		addStar("P/lateral/inner-on-c=b/"+n, "lateral:INNER ON", c3join("INNER", t1, c3lat(ls, "s"), c3eq(c3c("s.c"), c3c("t1.b"))))
		if li < 2 {
			addStar("P/lateral/natural/"+n, "lateral:NATURAL INNER", c3natural("INNER", t1, c3lat(ls, "s")))
			addStar("P/lateral/natural-left/"+n, "lateral:NATURAL LEFT", c3natural("LEFT", t1, c3lat(ls, "s")))
			addStar("P/lateral/using/"+n, "lateral:INNER USING", c3using("INNER", t1, c3lat(ls, "s"), "a"))
			addStar("P/lateral/left-using/"+n, "lateral:LEFT USING", c3using("LEFT", t1, c3lat(ls, "s"), "a"))
		}
		cat.add("P/lateral/fields/"+n, "lateral:LEFT ON", c3sel(c3f("s.c", "t1.a"), relm.IsNull{E: c3c("s.c")}, c3join("LEFT", t1, c3lat(ls, "s"), c3true)))
		// the lateral join as one branch of a UNION ALL and as an operand of an outer join (header must exist for an empty t1)
		cat.add("P/lateral/union/"+n, "lateral:in UNION ALL", c3union(c3sel(c3star(), nil, t1, c3lat(ls, "s")), c3sel(c3f("a", "b", "a", "b"), nil, t1)))
		if li == 2 {
			cat.add("P/lateral/right-operand/"+n, "lateral:in derived table", c3sel(c3star(), nil, c3join("RIGHT", c3sub(c3sel(c3star(), nil, t1, c3lat(ls, "s")), "x"), t2, c3eq(c3c("x.b"), c3c("t2.c")))))
		}
	}
	// operands that are subqueries / CTEs
	s1 := c3sub(c3sel(c3star(), relm.IsNull{E: c3c("a"), Neg: true}, t1), "s")
	s2 := c3sub(c3sel(c3f("a", "c"), nil, t2), "s")
	cte2 := &relm.CTE{Name: "c2", Q: c3sel(c3star(), nil, t2)}
	for _, k := range c03Kinds {
		addStar("P/"+k+"/left-sub", "join:"+k+" ON (subquery operand)", c3join(k, s1, t2, c3eq(c3c("s.a"), c3c("t2.a"))))
		addStar("P/"+k+"/right-sub", "join:"+k+" ON (subquery operand)", c3join(k, t1, s2, c3eq(c3c("t1.a"), c3c("s.a"))))
		addStar("P/"+k+"/right-sub-using", "join:"+k+" USING (subquery operand)", c3using(k, t1, s2, "a"))
		q := c3sel(c3star(), nil, c3join(k, t1, c3ref("c2"), c3eq(c3c("t1.a"), c3c("c2.a"))))
		q.With = []*relm.CTE{cte2}
		cat.add("P/"+k+"/right-cte", "join:"+k+" ON (cte operand)", q)
		// three operands
		addStar("P/"+k+"/chain-on", "join:chain", c3join(k, c3join("LEFT", t1, t2, c3eq(c3c("t1.a"), c3c("t2.a"))), c3refAs("t1", "z"), c3eq(c3c("z.b"), c3c("t2.c"))))
		addStar("P/"+k+"/chain-using", "join:chain USING", c3using(k, c3using("INNER", t1, t2, "a"), c3refAs("t1", "z"), "a"))
		addStar("P/"+k+"/nested-right", "join:chain", c3join(k, t1, c3join("INNER", t2, c3refAs("t1", "z"), c3eq(c3c("z.b"), c3c("t2.c"))), c3eq(c3c("t1.a"), c3c("t2.a"))))
	}
	// WHERE and select lists on the core joins
	type core struct {
		id, class string
		from      relm.Table
		merged    bool // column a is merged: only unqualified
		lateral   bool
	}
	var cores []core
	for _, k := range c03Kinds {
		cores = append(cores, core{k + "/on:a=a", "join:" + k + " ON", c3join(k, t1, t2, c3eq(c3c("t1.a"), c3c("t2.a"))), false, false})
	}
	cores = append(cores,
		core{"LEFT/natural", "join:NATURAL LEFT", c3natural("LEFT", t1, t2), true, false},
		core{"FULL/using(a)", "join:FULL USING", c3using("FULL", t1, t2, "a"), true, false},
		core{"RIGHT/using(a)", "join:RIGHT USING", c3using("RIGHT", t1, t2, "a"), true, false},
		core{"lateral/left", "lateral:LEFT ON", c3join("LEFT", t1, c3lat(c3sel(c3f(c3as(c3c("a"), "a2"), "c"), c3eq(c3c("t2.a"), c3c("t1.a")), t2), "t2"), c3true), false, true},
		core{"comma", "join:comma", nil, false, false},
	)
	z := c3refAs("t2", "z")
	for _, co := range cores {
		a1 := "t1.a"
		a2 := "t2.a"
		if co.merged {
			a1, a2 = "a", "a"
		}
		if co.lateral {
			a2 = "t2.a2"
		}
		wheres := []struct {
			id string
			e  relm.Expr
		}{
			{"none", nil},
			{"l.a=1", c3eq(c3c(a1), c3i(1))},
			{"r.cISNULL", relm.IsNull{E: c3c("t2.c")}},
			{"NOT(b=c)", relm.Not{E: c3eq(c3c("t1.b"), c3c("t2.c"))}},
			{"a=a", c3eq(c3c(a1), c3c(a2))},
			{"bIN(sub)", relm.In{E: c3c("t1.b"), Q: c3sel(c3f("c"), nil, t2)}},
			{"bNOTIN(sub)", relm.In{E: c3c("b"), Q: c3sel(c3f("z.c"), relm.IsNull{E: c3c("z.c"), Neg: true}, z), Neg: true}},
			{"EXISTS(corr)", relm.Exists{Q: c3sel(c3f(c3i(1)), c3eq(c3c("z.c"), c3c("t1.b")), z)}},
			{"NOTEXISTS(corr)", relm.Exists{Q: c3sel(c3f(c3i(1)), c3eq(c3c("z.a"), c3c(a1)), z), Neg: true}},
		}
		sels := []struct {
			id string
			f  []relm.Field
		}{
			{"*", c3star()},
			{"l.b,r.c", c3f("t1.b", "t2.c")},
			{"r.*", c3f("t2.*")},
			{"b+1ASx,c", c3f(c3as(c3plus(c3c("b"), c3i(1)), "x"), "c")},
			{"a-cols", c3f(c3as(c3c(a1), "a1"), c3as(c3c(a2), "a2"))},
			{"first-col,computed,last-col", c3f(c3as(c3c(a1), "k"), c3as(c3plus(c3c("b"), c3i(1)), "x"), c3as(c3plus(c3c(a1), c3i(10)), "y"), "t2.c")},
			{"dup-then-later", c3f(c3as(c3c(a1), "k1"), c3as(c3c(a1), "k2"), "t1.b", "t2.c")},
			{"later-dup", c3f("t1.b", c3as(c3c("t2.c"), "c1"), c3as(c3c("t2.c"), "c2"))},
		}
		for wi, w := range wheres {
			for si, s := range sels {
				if wi == 0 && si == 0 && co.from != nil {
					continue // already in the list of plain joins
				}
				// quick: the full WHERE x select-list product for two joins; the others meet every WHERE (with *) and every select list (with l.a=1)
				if !thorough && !(co.id == "LEFT/on:a=a" || co.id == "FULL/using(a)") && !(si == 0 || wi == 1) {
					continue
				}
				if co.merged && s.id == "r.*" {
					continue // what t2.* means after a merge is not stated anywhere
				}
				var q *relm.Query
				if co.from == nil {
					q = c3sel(s.f, w.e, t1, t2)
				} else {
					q = c3sel(s.f, w.e, co.from)
				}
				cat.add("P/"+co.id+"/w:"+w.id+"/s:"+s.id, co.class, q)
			}
		}
	}
	// one level deeper: the join inside a derived table, inside a CTE, inside an EXISTS / IN subquery
	for _, k := range c03Kinds {
		j := c3join(k, t1, t2, c3eq(c3c("t1.a"), c3c("t2.a")))
		inner := c3sel(c3f(c3as(c3c("t1.a"), "a"), "b", "c"), nil, j)
		cat.add("P/"+k+"/derived/cISNULL", "nested:derived join", c3sel(c3star(), relm.IsNull{E: c3c("c")}, c3sub(inner, "s")))
		cat.add("P/"+k+"/derived/join-again", "nested:derived join", c3sel(c3star(), nil, c3join("LEFT", c3sub(inner, "s"), c3refAs("t2", "z"), c3eq(c3c("s.b"), c3c("z.c")))))
		cat.add("P/"+k+"/cte/twice", "nested:cte join", c3with(c3union(c3sel(c3star(), c3eq(c3c("a"), c3i(1)), c3ref("j")), c3sel(c3star(), nil, c3ref("j"))), &relm.CTE{Name: "j", Q: inner}))
		cat.add("P/"+k+"/exists-join", "nested:join in EXISTS", c3sel(c3star(), relm.Exists{Q: c3sel(c3f(c3i(1)), c3eq(c3c("y.b"), c3c("t1.b")),
			c3join(k, c3refAs("t1", "y"), t2, c3eq(c3c("y.a"), c3c("t2.a"))))}, t1))
		cat.add("P/"+k+"/in-join", "nested:join in IN", c3sel(c3star(), relm.In{E: c3c("c"), Q: c3sel(c3f("y.b"), nil,
			c3join(k, c3refAs("t1", "y"), c3refAs("t2", "z"), c3eq(c3c("y.a"), c3c("z.a"))))}, t2))
	}
	// a derived table / CTE that exports two columns under one name: a reference to that name, qualified or not, matches
	// two columns and has to be refused; the other columns stay usable
	for _, k := range []string{"INNER", "LEFT", "FULL"} {
		j := c3join(k, t1, t2, c3eq(c3c("t1.a"), c3c("t2.a")))
		dup := c3sel(c3f("t1.a", "t2.a", "t1.b", "t2.c"), nil, j)
		cat.add("P/"+k+"/dup-names/qualified", "ambiguity:derived", c3sel(c3f("s.a"), nil, c3sub(dup, "s")))
		cat.add("P/"+k+"/dup-names/unqualified", "ambiguity:derived", c3sel(c3f("a"), nil, c3sub(dup, "s")))
		cat.add("P/"+k+"/dup-names/where-qualified", "ambiguity:derived", c3sel(c3f("s.b"), relm.IsNull{E: c3c("s.a")}, c3sub(dup, "s")))
		cat.add("P/"+k+"/dup-names/other-columns", "ambiguity:derived", c3sel(c3f("s.b", "c"), relm.IsNull{E: c3c("s.c"), Neg: true}, c3sub(dup, "s")))
		cat.add("P/"+k+"/dup-names/cte-qualified", "ambiguity:cte", c3with(c3sel(c3f("d.a"), nil, c3ref("d")), &relm.CTE{Name: "d", Q: dup}))
		cat.add("P/"+k+"/dup-names/join-condition", "ambiguity:derived", c3sel(c3f("z.c"), nil, c3join("INNER", c3sub(dup, "s"), c3refAs("t2", "z"), c3eq(c3c("s.a"), c3c("z.a")))))
	}
	// operands of different widths (the base tables both have two columns): a four-column right or left operand
	for _, k := range c03Kinds {
		wide2 := c3sub(c3sel(c3f("a", "c", c3as(c3c("c"), "c2"), c3as(c3c("a"), "a3")), nil, t2), "w")
		wide1 := c3sub(c3sel(c3f("a", "b", c3as(c3c("b"), "b2"), c3as(c3c("a"), "a3")), nil, t1), "w")
		narrow2 := c3sub(c3sel(c3f("a"), nil, t2), "n")
		cat.add("P/"+k+"/wider-right", "join:widths", c3sel(c3star(), nil, c3join(k, t1, wide2, c3eq(c3c("t1.a"), c3c("w.a")))))
		cat.add("P/"+k+"/wider-left", "join:widths", c3sel(c3star(), nil, c3join(k, wide1, t2, c3eq(c3c("w.a"), c3c("t2.a")))))
		cat.add("P/"+k+"/narrower-right", "join:widths", c3sel(c3star(), nil, c3join(k, t1, narrow2, c3eq(c3c("t1.a"), c3c("n.a")))))
	}
	// a derived table / CTE over a join, named like the table its first column comes from: every column is the derived table's
	for _, k := range []string{"INNER", "LEFT"} {
		inner := c3sel(c3f("t1.a", "t1.b", "t2.c"), nil, c3join(k, t1, t2, c3eq(c3c("t1.a"), c3c("t2.a"))))
		cat.add("P/"+k+"/derived-named-like-its-first-table/star", "nested:derived join", c3sel(c3f("t1.*"), nil, c3sub(inner, "t1")))
		cat.add("P/"+k+"/derived-named-like-its-first-table/last-column", "nested:derived join", c3sel(c3f("t1.c", "t1.a"), relm.IsNull{E: c3c("t1.c"), Neg: true}, c3sub(inner, "t1")))
		cat.add("P/"+k+"/cte-named-like-its-first-table/star", "nested:cte join", c3with(c3sel(c3f("t1.*", "t1.c"), nil, c3ref("t1")), &relm.CTE{Name: "t1", Q: inner}))
	}
	// names are case-insensitive: qualifiers written in another letter case than the table or its alias
	cat.add("P/upper-qualifier/star", "names:case", c3sel(c3f("T1.*", "T2.c"), nil, t1, t2))
	cat.add("P/upper-qualifier/columns", "names:case", c3sel(c3f("T1.A", "t2.C"), c3eq(c3c("T1.a"), c3c("T2.A")), t1, t2))
	cat.add("P/upper-qualifier/alias-star", "names:case", c3sel(c3f("X.*"), nil, c3join("LEFT", c3refAs("t1", "x"), c3refAs("t2", "Y"), c3eq(c3c("X.a"), c3c("y.a")))))
	cat.add("P/upper-qualifier/derived-star", "names:case", c3sel(c3f("S.*", "s.B"), nil, c3sub(c3sel(c3f("a", "b"), nil, t1), "s")))
	cat.add("P/scalar-in-select", "nested:scalar subquery", c3sel(c3f("a", c3as(relm.Scalar{Q: c3sel(c3f("c"), c3eq(c3c("t2.a"), c3c("t1.a")), t2)}, "m")), nil, t1))
	return cat
}

// ---- worlds -----------------------------------------------------------------------------------------

type c03World struct {
	Name string     `json:"name"`
	T1   [][]rv.V   `json:"-"`
	T2   [][]rv.V   `json:"-"`
	K1   [][]string `json:"t1"`
	K2   [][]string `json:"t2"`
}

func (w *c03World) keys() {
	enc := func(rows [][]rv.V) [][]string {
		out := make([][]string, len(rows))
		for i, r := range rows {
			out[i] = make([]string, len(r))
			for j, v := range r {
				out[i][j] = v.Key()
			}
		}
		return out
	}
	w.K1, w.K2 = enc(w.T1), enc(w.T2)
}

func c03DecodeKey(k string) rv.V {
	switch {
	case k == "NULL":
		return rv.N()
	case strings.HasPrefix(k, "I:"):
		i, _ := strconv.ParseInt(k[2:], 10, 64)
		return rv.I(i)
	case strings.HasPrefix(k, "S:"):
		s, _ := strconv.Unquote(k[2:])
		return rv.S(s)
	}
	panic("c03: cannot decode " + k)
}

func (w *c03World) decode() {
	dec := func(rows [][]string) [][]rv.V {
		out := make([][]rv.V, len(rows))
		for i, r := range rows {
			out[i] = make([]rv.V, len(r))
			for j, k := range r {
				out[i][j] = c03DecodeKey(k)
			}
		}
		return out
	}
	w.T1, w.T2 = dec(w.K1), dec(w.K2)
}

var c03Alpha1 = []rv.V{rv.N(), rv.I(1), rv.I(2), rv.S("x")}
var c03Alpha2 = []rv.V{rv.N(), rv.I(1), rv.S("2"), rv.S("X")}

func c03RowsOver(al []rv.V) [][]rv.V {
	var rows [][]rv.V
	for _, a := range al {
		for _, b := range al {
			rows = append(rows, []rv.V{a, b})
		}
	}
	return rows
}

// all tables with up to max rows; ordered = sequences of rows, else multisets (non-decreasing row indexes)
func c03Tables(rows [][]rv.V, max int, ordered bool, fn func(t [][]rv.V)) {
	var rec func(prefix []int, n int)
	rec = func(prefix []int, n int) {
		if len(prefix) == n {
			t := make([][]rv.V, n)
			for i, ix := range prefix {
				t[i] = rows[ix]
			}
			fn(t)
			return
		}
		start := 0
		if !ordered && len(prefix) > 0 {
			start = prefix[len(prefix)-1]
		}
		for i := start; i < len(rows); i++ {
			rec(append(prefix, i), n)
		}
	}
	for n := 0; n <= max; n++ {
		rec(nil, n)
	}
}

// ---- execution --------------------------------------------------------------------------------------

type c03Mode struct {
	Storage string `json:"storage"` // view | file
	CPU     int    `json:"cpu"`
	Thr     int    `json:"thr"` // GoroutineManager.MinimumRequiredPerCore
}

func (m c03Mode) String() string { return fmt.Sprintf("%s,cpu=%d,thr=%d", m.Storage, m.CPU, m.Thr) }

type c03Payload struct {
	Family string    `json:"family"`
	Mode   c03Mode   `json:"mode"`
	World  *c03World `json:"world"`
	Query  string    `json:"query_id"`
	SQL    string    `json:"sql"`
}

type c03Runner struct {
	c       *core.Ctx
	dir     string
	verbose bool
	limit   int64 // > 0: @@LIMIT_RECURSION of the process images (families whose valid queries need far fewer iterations)
	fu      [4][]parser.Statement
	rb      []parser.Statement
}

var c03FollowSQL = [4]string{"SELECT * FROM t1", "SELECT * FROM t2", "SELECT * FROM t1 FOR UPDATE", "SELECT * FROM t2 FOR UPDATE"}

func newC03Runner(c *core.Ctx) *c03Runner {
	r := &c03Runner{c: c, dir: core.Scratch("c03")}
	for i, s := range c03FollowSQL {
		r.fu[i] = mustParse(s)
	}
	r.rb = mustParse("ROLLBACK")
	return r
}

func c03ValueSQL(v rv.V) string {
	s, ok := v.SQL()
	if !ok {
		panic("c03: no literal for " + v.Key())
	}
	return s
}

func c03CSV(cols []string, rows [][]rv.V) string {
	var sb strings.Builder
	sb.WriteString(strings.Join(cols, ",") + "\n")
	for _, r := range rows {
		for i, v := range r {
			if i > 0 {
				sb.WriteByte(',')
			}
			switch v.K {
			case rv.Null:
			case rv.Int:
				sb.WriteString(strconv.FormatInt(v.I, 10))
			case rv.Str:
				sb.WriteString(`"` + strings.ReplaceAll(v.S, `"`, `""`) + `"`)
			default:
				panic("c03: value kind not storable in CSV")
			}
		}
		sb.WriteByte('\n')
	}
	return sb.String()
}

// what a CSV file gives back: text cells, NULL for the empty unquoted field
func c03AsFile(rows [][]rv.V) [][]rv.V {
	out := make([][]rv.V, len(rows))
	for i, r := range rows {
		out[i] = make([]rv.V, len(r))
		for j, v := range r {
			switch v.K {
			case rv.Int:
				out[i][j] = rv.S(strconv.FormatInt(v.I, 10))
			default:
				out[i][j] = v
			}
		}
	}
	return out
}

// setup declares the two temporary tables of a world.
func (r *c03Runner) setup(env *drv.Env, w *c03World) error {
	var sb strings.Builder
	for ti, t := range [][][]rv.V{w.T1, w.T2} {
		name, cols := "t1", "a, b"
		if ti == 1 {
			name, cols = "t2", "a, c"
		}
		sb.WriteString("DECLARE " + name + " VIEW (" + cols + ");")
		for at := 0; at < len(t); at += 500 {
			end := at + 500
			if end > len(t) {
				end = len(t)
			}
			sb.WriteString("INSERT INTO " + name + " VALUES ")
			for i, row := range t[at:end] {
				if i > 0 {
					sb.WriteString(", ")
				}
				sb.WriteString("(" + c03ValueSQL(row[0]) + ", " + c03ValueSQL(row[1]) + ")")
			}
			sb.WriteString(";")
		}
	}
	if res := env.Exec(sb.String()); res.Err != nil || res.Panic != nil {
		return fmt.Errorf("%v %v", res.Err, res.Panic)
	}
	return nil
}

func newC03RunnerForTest() *c03Runner { return &c03Runner{} }

// one defect, three symptoms (no columns at all; too few columns in an enclosing join; "exactly no field" from a set operator)
const c03LateralSig = "result:columns-lost:lateral-join-whose-left-operand-is-empty"

type c03Exec struct {
	rows  [][]rv.V
	names []string
	err   error
	panic any
}

func (r *c03Runner) exec(env *drv.Env, st []parser.Statement) (res c03Exec) {
	defer func() {
		if p := recover(); p != nil {
			res.panic = p
		}
	}()
	_, err := env.Proc.Execute(query.ContextForStoringResults(env.Ctx), st)
	if err != nil {
		res.err = err
		return
	}
	vs := env.Tx.SelectedViews
	if len(vs) != 1 {
		res.err = fmt.Errorf("harness: %d result views", len(vs))
		return
	}
	res.rows = drv.Rows(vs[0])
	res.names = drv.Header(vs[0])
	return
}

// expected result of one query in one world: the distinct results over the readings
type c03Want struct {
	rels []*relm.Rel
	err  error
}

func c03Expect(q *relm.Query, t1, t2 [][]rv.V) c03Want {
	var w c03Want
	for i, rd := range relm.Readings {
		ev := &relm.Ev{Tables: map[string]*relm.Rel{
			"T1": relm.NewTable("t1", []string{"a", "b"}, t1),
			"T2": relm.NewTable("t2", []string{"a", "c"}, t2),
		}, R: rd}
		rel, err := ev.Run(q)
		if err != nil {
			w.err = err
			return w
		}
		w.rels = append(w.rels, rel)
		if i == 0 && !ev.Merged {
			break
		}
	}
	return w
}

func c03NamesMatch(got []string, want []string) bool {
	if len(got) != len(want) {
		return false
	}
	for i := range got {
		if want[i] != "" && !strings.EqualFold(got[i], want[i]) {
			return false
		}
	}
	return true
}

// runWorld runs catalogue entries (all, or the one named only) against one world in one mode.
func (r *c03Runner) runWorld(family string, cat *c03Cat, w *c03World, mode c03Mode, only string, wants map[*c03Query]c03Want) {
	c := r.c
	gm := query.GetGoroutineManager()
	saved := gm.MinimumRequiredPerCore
	gm.MinimumRequiredPerCore = mode.Thr
	defer func() { gm.MinimumRequiredPerCore = saved }()

	dir := filepath.Join(r.dir, "w")
	os.RemoveAll(dir)
	os.MkdirAll(dir, 0755)
	env := drv.New(dir)
	defer env.Close()
	env.Tx.Flags.SetCPU(mode.CPU)
	if r.limit > 0 {
		env.Tx.Flags.SetLimitRecursion(r.limit)
	}
	env.Tx.UpdateWaitTimeout(300, 5*time.Millisecond) // csvq's lock wait limit must not fire on a loaded machine

	t1, t2 := w.T1, w.T2
	if mode.Storage == "file" {
		drv.WriteFiles(dir, map[string]string{"t1.csv": c03CSV([]string{"a", "b"}, t1), "t2.csv": c03CSV([]string{"a", "c"}, t2)})
		t1, t2 = c03AsFile(t1), c03AsFile(t2)
	} else if err := r.setup(env, w); err != nil {
		c.Violate("harness:cannot-create-world", err.Error(), nil)
		return
	}
	tabs := map[string][][]rv.V{"t1": t1, "t2": t2}
	payload := func(q *c03Query) c03Payload {
		w.keys()
		return c03Payload{Family: family, Mode: mode, World: w, Query: q.ID, SQL: q.SQL}
	}
	describe := func(q *c03Query) string {
		return fmt.Sprintf("%s\n  t1(a,b)=%s t2(a,c)=%s  [%s, %s]", q.SQL, relm.RowsText(t1), relm.RowsText(t2), family, mode)
	}
	nFollow := 0
	for qi, q := range cat.qs {
		if only != "" && q.ID != only {
			continue
		}
		if q.Heavy && (len(w.T1) > 60 || len(w.T2) > 60) && only == "" {
			c.Add("heavy_queries_skipped_on_long_tables", 1)
			continue
		}
		want, ok := wants[q]
		if !ok {
			want = c03Expect(q.Q, t1, t2)
			if wants != nil {
				wants[q] = want
			}
		}
		got := r.exec(env, q.stmt)
		nontrivial := want.err == nil
		for _, t := range q.Tables {
			if len(tabs[t]) == 0 {
				nontrivial = false
			}
		}
		c.EvalN(1, b2i(nontrivial))
		c.Add("evaluations_"+family, 1)
		if r.verbose {
			fmt.Printf("query: %s\n  csvq: rows=%s names=%v err=%v panic=%v\n", describe(q), relm.RowsText(got.rows), got.names, got.err, got.panic)
			for _, rel := range want.rels {
				fmt.Printf("  model: rows=%s names=%v ordered=%v\n", relm.RowsText(rel.Rows), rel.Names(), rel.Ordered)
			}
			if want.err != nil {
				fmt.Printf("  model: refuses (%v)\n", want.err)
			}
		}
		switch {
		case got.panic != nil:
			c.Violate("panic:"+q.Class, fmt.Sprintf("csvq panics: %v\n  %s", got.panic, describe(q)), payload(q))
		case got.err != nil && drv.IsFatal(got.err):
			c.Violate("fatal-error:"+c03FatalFrame(got.err.Error()), fmt.Sprintf("csvq fails internally: %v\n  %s", got.err, describe(q)), payload(q))
		case want.err != nil:
			c.Add("model_refusals", 1)
			kind := want.err.(*relm.Error).Kind
			if got.err != nil {
				c.Add("refusals_agreed", 1)
				c.Observe("refusal_kinds", kind+" <-> "+c03ErrClass(got.err))
			} else if kind == "toomany" {
				// the manual demands at most one record, but csvq does not evaluate the subquery when the other operand of the
				// comparison is NULL; not evaluating an operand is a reasonable reading, so this is only counted
				c.Add("subquery_error_avoided_by_lazy_evaluation", 1)
			} else if kind == "ambiguous" && strings.HasPrefix(q.Class, "ambiguity:") && len(got.rows) == 0 {
				// no row came out, so csvq may never have had to resolve the reference (it resolves while evaluating a record)
				c.Add("ambiguous_reference_never_evaluated", 1)
			} else if kind == "fieldcount" || (kind == "ambiguous" && strings.HasPrefix(q.Class, "ambiguity:")) {
				c.Violate("no-error:"+kind+":"+q.Class, fmt.Sprintf("csvq returns %s where the manual demands an error (%v)\n  %s", relm.RowsText(got.rows), want.err, describe(q)), payload(q))
			} else {
				c.Add("outside_fragment", 1)
			}
		case got.err != nil:
			if strings.Contains(q.SQL, "LATERAL") && len(t1) == 0 && strings.Contains(got.err.Error(), "exactly no field") {
				c.Violate(c03LateralSig, fmt.Sprintf("csvq refuses a valid query: %v\n  expected %s\n  %s", got.err, relm.RowsText(want.rels[0].Rows), describe(q)), payload(q))
				break
			}
			c.Violate("error-on-valid-query:"+q.Class+":"+c03ErrClass(got.err), fmt.Sprintf("csvq refuses a valid query: %v\n  expected %s\n  %s", got.err, relm.RowsText(want.rels[0].Rows), describe(q)), payload(q))
		default:
			okAny := false
			colsOK := false
			for _, rel := range want.rels {
				if len(rel.Cols) == len(got.names) {
					colsOK = true
				}
				if c03NamesMatch(got.names, rel.Names()) && relm.SameRows(got.rows, rel.Rows, rel.Ordered) {
					okAny = true
					break
				}
			}
			if len(want.rels) > 1 {
				c.Add("cases_with_readings", 1)
				first := want.rels[0]
				differ := false
				for _, rel := range want.rels[1:] {
					if !relm.SameRows(first.Rows, rel.Rows, first.Ordered) {
						differ = true
					}
				}
				if differ {
					c.Add("cases_where_readings_differ", 1)
				}
			}
			if !okAny {
				rel := want.rels[0]
				kind := "rows"
				switch {
				case !colsOK && len(got.names) == 0 && len(got.rows) == 0:
					kind = "no-columns-at-all"
				case !colsOK:
					kind = "column-count"
				case relm.SameRows(got.rows, rel.Rows, false):
					if !c03NamesMatch(got.names, rel.Names()) {
						kind = "column-names"
					} else {
						kind = "row-order"
					}
				}
				sig := "result:" + kind + ":" + q.Class
				if (kind == "no-columns-at-all" || kind == "column-count") && strings.Contains(q.SQL, "LATERAL") && len(t1) == 0 && len(got.names) < len(rel.Cols) {
					sig = c03LateralSig
				}
				c.Violate(sig, fmt.Sprintf("csvq gives %s %v, relational semantics give %s %v (ordered=%v)\n  %s",
					relm.RowsText(got.rows), got.names, relm.RowsText(rel.Rows), rel.Names(), rel.Ordered, describe(q)), payload(q))
			} else if c.WantSample() && nontrivial && len(got.rows) > 0 && len(t1)+len(t2) <= 8 && (qi+len(got.rows))%41 == 5 &&
				(strings.Contains(q.SQL, "JOIN") || strings.Contains(q.SQL, "WITH") || strings.Contains(q.SQL, "EXISTS")) {
				c.Sample(map[string]any{"family": family, "mode": mode.String(), "sql": q.SQL, "t1": relm.RowsText(t1), "t2": relm.RowsText(t2), "result": relm.RowsText(got.rows)})
			}
		}
		// follow-up statements: the tables the query read must still be there and unchanged
		var fus []int
		if mode.Storage == "file" {
			fus = []int{0, 1, 2, 3}
		} else if only != "" {
			fus = []int{0, 1, 2, 3}
		} else {
			fus = []int{nFollow % 2}
			nFollow++
		}
		for _, k := range fus {
			f := r.exec(env, r.fu[k])
			tab := t1
			if k%2 == 1 {
				tab = t2
			}
			c.Add("followups", 1)
			store := "temporary-table"
			if mode.Storage == "file" {
				store = "file-table"
			}
			kindF := "select"
			if k >= 2 {
				kindF = "select-for-update"
			}
			after := "after-other-query"
			if q.FromSub {
				after = "after-query-with-from-subquery"
			}
			switch {
			case f.panic != nil || f.err != nil:
				c.Violate("followup-error:"+kindF+":"+store+":"+after, fmt.Sprintf("%q in the same transaction fails after the query: %v %v\n  %s", c03FollowSQL[k], f.err, f.panic, describe(q)), payload(q))
			case !relm.SameRows(f.rows, tab, true):
				c.Violate("followup-rows:"+kindF+":"+store+":"+after, fmt.Sprintf("%q in the same transaction returns %s after the query\n  %s", c03FollowSQL[k], relm.RowsText(f.rows), describe(q)), payload(q))
			}
		}
		if mode.Storage == "file" {
			if f := r.exec(env, r.rb); f.err != nil && !strings.Contains(f.err.Error(), "result views") {
				c.Violate("followup-error:rollback", fmt.Sprintf("ROLLBACK fails: %v\n  %s", f.err, describe(q)), payload(q))
			}
		}
	}
}

// c03FatalFrame names the csvq function in which a recovered panic was raised (first csvq frame below the runtime).
func c03FatalFrame(msg string) string {
	lines := strings.Split(msg, "\n")
	what := ""
	if len(lines) > 0 {
		what = strings.TrimPrefix(lines[0], "[Fatal Error] ")
		if len(what) > 60 {
			what = what[:60]
		}
	}
	seenRuntime := false
	for _, l := range lines {
		l = strings.TrimSpace(l)
		i := strings.Index(l, ": ")
		if i < 0 || i > 4 {
			continue
		}
		fn := l[i+2:]
		if j := strings.Index(fn, " ["); j >= 0 {
			fn = fn[:j]
		}
		if strings.HasPrefix(fn, "runtime.") || strings.HasPrefix(fn, "type:") {
			seenRuntime = true
			continue
		}
		if seenRuntime && strings.Contains(fn, "csvq/lib/") {
			return "in " + fn[strings.Index(fn, "csvq/lib/")+len("csvq/lib/"):]
		}
	}
	return what
}

func c03ErrClass(err error) string {
	if err == nil {
		return "none"
	}
	s := err.Error()
	if i := strings.Index(s, "] "); i >= 0 && strings.HasPrefix(s, "[") {
		s = s[i+2:]
	}
	// drop concrete identifiers: keep letters and blanks of the message skeleton
	words := strings.Fields(s)
	out := []string{}
	for _, w := range words {
		if strings.ContainsAny(w, ".0123456789") && len(out) > 0 {
			continue
		}
		out = append(out, w)
		if len(out) >= 6 {
			break
		}
	}
	return strings.Join(out, " ")
}

// ---- big generated worlds ------------------------------------------------------------------------------

func c03BigWorlds(thorough bool) []*c03World {
	var ws []*c03World
	mk := func(name string, n1 int, f1 func(i int) []rv.V, n2 int, f2 func(i int) []rv.V) {
		w := &c03World{Name: name}
		for i := 0; i < n1; i++ {
			w.T1 = append(w.T1, f1(i))
		}
		for i := 0; i < n2; i++ {
			w.T2 = append(w.T2, f2(i))
		}
		ws = append(ws, w)
	}
	id := func(i int) rv.V { return rv.I(int64(i)) }
	tag := func(p string, i int) rv.V { return rv.S(p + strconv.Itoa(i)) }
	// 20 x 22: ids partly overlapping, matches spread over every chunk of either side, NULLs and duplicates
	mk("20x22", 20, func(i int) []rv.V {
		switch {
		case i == 7:
			return []rv.V{rv.N(), tag("l", i)}
		case i == 13:
			return []rv.V{id(12), tag("l", i)} // duplicate of row 12
		}
		return []rv.V{id(i), tag("l", i)}
	}, 22, func(i int) []rv.V {
		switch {
		case i == 5:
			return []rv.V{rv.N(), tag("r", i)}
		case i%3 == 0:
			return []rv.V{id(i + 100), tag("r", i)} // no partner
		case i == 20:
			return []rv.V{id(2), tag("r", i)} // second partner of id 2
		}
		return []rv.V{id(i), tag("r", i)}
	})
	// the same, matches only in the last chunk of t1 / the first chunk
	mk("20x22-tail", 20, func(i int) []rv.V { return []rv.V{id(i), tag("l", i)} }, 22, func(i int) []rv.V { return []rv.V{id(17 + i%3 + (i/3)*100), tag("r", i)} })
	mk("20x22-head", 20, func(i int) []rv.V { return []rv.V{id(i), tag("l", i)} }, 22, func(i int) []rv.V { return []rv.V{id(i%3 + (i/3)*100), tag("r", i)} })
	mk("22x20-nomatch", 22, func(i int) []rv.V { return []rv.V{id(i), tag("l", i)} }, 20, func(i int) []rv.V { return []rv.V{id(i + 50), tag("r", i)} })
	// 300 x 10: with two workers the second chunk of t1 has no partner
	mk("300x10", 300, func(i int) []rv.V { return []rv.V{id(i), tag("l", i%7)} }, 10, func(i int) []rv.V {
		return [][]rv.V{{id(3), rv.S("l3")}, {id(7), rv.S("c1")}, {id(7), rv.S("l0")}, {id(20), rv.S("c3")}, {id(100), rv.S("l2")}, {id(149), rv.S("c5")},
			{rv.N(), rv.S("c6")}, {id(500), rv.S("c7")}, {rv.S("x"), rv.S("c8")}, {id(12), rv.S("l5")}}[i]
	})
	// small left operand, long right operand: one left row per worker
	mk("3x81", 3, func(i int) []rv.V { return []rv.V{id(i * 40), tag("l", i)} }, 81, func(i int) []rv.V { return []rv.V{id(i), tag("r", i%5)} })
	mk("4x41", 4, func(i int) []rv.V { return []rv.V{id(i * 10), tag("r", i)} }, 41, func(i int) []rv.V { return []rv.V{id(i), tag("r", i%4)} })
	mk("161x1", 161, func(i int) []rv.V { return []rv.V{id(i), tag("l", i%3)} }, 1, func(i int) []rv.V { return []rv.V{id(160), rv.S("l1")} })
	mk("1x161", 1, func(i int) []rv.V { return []rv.V{id(80), rv.S("r1")} }, 161, func(i int) []rv.V { return []rv.V{id(i % 100), tag("r", i%3)} })
	mk("200x0", 200, func(i int) []rv.V { return []rv.V{id(i % 9), tag("l", i%4)} }, 0, nil)
	mk("0x200", 0, nil, 200, func(i int) []rv.V { return []rv.V{id(i % 9), tag("r", i%4)} })
	// long single table for the filter / projection workers: the kept rows are not a prefix, the last chunk is ragged
	mk("403x3", 403, func(i int) []rv.V {
		if i%11 == 4 {
			return []rv.V{rv.N(), tag("l", i%5)}
		}
		return []rv.V{id(i % 13), tag("l", i%5)}
	}, 3, func(i int) []rv.V { return []rv.V{id(i + 1), tag("l", i)} })
	if thorough {
		mk("650x7", 650, func(i int) []rv.V { return []rv.V{id((i * 7) % 31), tag("l", i%6)} }, 7, func(i int) []rv.V { return []rv.V{id(i * 5), tag("l", i)} })
		mk("45x45", 45, func(i int) []rv.V { return []rv.V{id(i), tag("l", i%6)} }, 45, func(i int) []rv.V { return []rv.V{id(44 - i + (i%4)*100), tag("l", i%5)} })
	}
	return ws
}

// medium worlds: 5..12 rows so that with a threshold of 1 or 2 rows per core the chunks are uneven
func c03MediumWorlds() []*c03World {
	var ws []*c03World
	vals := []rv.V{rv.I(1), rv.N(), rv.I(2), rv.S("x"), rv.I(1), rv.I(3), rv.S("x"), rv.I(2), rv.N(), rv.I(4), rv.I(1), rv.S("y"), rv.I(2)}
	for _, n := range []int{5, 7, 8, 12} {
		w := &c03World{Name: fmt.Sprintf("medium-%d", n)}
		for i := 0; i < n; i++ {
			w.T1 = append(w.T1, []rv.V{vals[i%len(vals)], vals[(i*5+2)%len(vals)]})
		}
		for i := 0; i < n-3; i++ {
			w.T2 = append(w.T2, []rv.V{vals[(i*3+1)%len(vals)], vals[(i*7)%len(vals)]})
		}
		ws = append(ws, w)
	}
	return ws
}

// ---- the run ----------------------------------------------------------------------------------------

func c03Modes(maxRows int, thorough bool) []c03Mode {
	ms := []c03Mode{{"view", 1, 80}}
	if maxRows >= 2 {
		ms = append(ms, c03Mode{"view", 2, 1})
	}
	if maxRows >= 3 {
		ms = append(ms, c03Mode{"view", 3, 1})
	}
	if maxRows >= 4 && thorough {
		ms = append(ms, c03Mode{"view", 4, 1})
	}
	return ms
}

func c03Run(c *core.Ctx) {
	th := c.Thorough()
	r := newC03Runner(c)
	single := c03CatSingle(th)
	pair := c03CatPair(th)
	single.parse()
	pair.parse()
	c.Info("queries_single_source", len(single.qs))
	c.Info("queries_two_tables", len(pair.qs))

	c03Ranges(c)

	idx := int64(0)
	expired := func(what string) bool {
		if c.Expired() {
			c.Incomplete("time budget reached in " + what)
			return true
		}
		return false
	}

	// big and medium generated worlds first (few, but they are the ones that reach the multi-worker code)
	both := &c03Cat{name: "both"}
	both.qs = append(append(both.qs, single.qs...), pair.qs...)
	for _, w := range c03BigWorlds(th) {
		for cpu := 1; cpu <= 4; cpu++ {
			idx++
			if !c.Mine(idx) {
				continue
			}
			if expired("family big") {
				return
			}
			r.runWorld("big", both, w, c03Mode{"view", cpu, 80}, "", nil)
			c.Add("worlds", 1)
		}
	}
	for _, w := range c03MediumWorlds() {
		for _, thr := range []int{1, 2} {
			for cpu := 1; cpu <= 4; cpu++ {
				if thr == 2 && cpu == 1 {
					continue
				}
				idx++
				if !c.Mine(idx) {
					continue
				}
				if expired("family medium") {
					return
				}
				r.runWorld("medium", both, w, c03Mode{"view", cpu, thr}, "", nil)
				c.Add("worlds", 1)
			}
		}
	}

	// file worlds: every catalogue entry on CSV files with FOR UPDATE follow-ups
	rows1 := c03RowsOver(c03Alpha1)
	rows2 := c03RowsOver(c03Alpha2)
	fileT2 := [][][]rv.V{{}, {rows2[7], rows2[1], rows2[15]}}
	maxFile := 1
	if th {
		maxFile = 2
	}
	stop := false
	c03Tables(rows1, maxFile, true, func(t1 [][]rv.V) {
		for _, t2 := range fileT2 {
			idx++
			if stop || !c.Mine(idx) {
				continue
			}
			if expired("family file") {
				stop = true
				return
			}
			r.runWorld("file", both, &c03World{T1: t1, T2: t2}, c03Mode{"file", 1, 80}, "", nil)
			c.Add("worlds", 1)
		}
	})
	for _, w := range c03MediumWorlds()[:2] {
		idx++
		if stop || !c.Mine(idx) {
			continue
		}
		r.runWorld("file", both, w, c03Mode{"file", 2, 2}, "", nil)
		c.Add("worlds", 1)
	}
	if stop {
		return
	}

	// single-source family: t1 tables with ordered rows
	fixed2 := [][]rv.V{{rv.I(1), rv.S("X")}}
	for _, t1 := range c03SingleTables(th) {
		idx++
		if !c.Mine(idx) {
			continue
		}
		if expired("family single") {
			return
		}
		w := &c03World{T1: t1, T2: fixed2}
		wants := map[*c03Query]c03Want{}
		for _, m := range c03Modes(len(t1), th) {
			r.runWorld("single", single, w, m, "", wants)
		}
		c.Add("worlds", 1)
		c.Add("worlds_single", 1)
	}

	// pair family: pairs of tables, rows as multisets
	c03PairWorlds(th, func(t1, t2 [][]rv.V) bool {
		idx++
		if !c.Mine(idx) {
			return true
		}
		if expired("family pair") {
			return false
		}
		w := &c03World{T1: t1, T2: t2}
		wants := map[*c03Query]c03Want{}
		n := len(t1)
		if len(t2) > n {
			n = len(t2)
		}
		for _, m := range c03Modes(n, th) {
			r.runWorld("pair", pair, w, m, "", wants)
		}
		c.Add("worlds", 1)
		c.Add("worlds_pair", 1)
		return true
	})
}

func c03Pick(rows [][]rv.V, idx ...int) [][]rv.V {
	out := make([][]rv.V, len(idx))
	for i, ix := range idx {
		out[i] = rows[ix]
	}
	return out
}

// rows are numbered 4*i+j over the alphabet (i: column a, j: second column)
var c03Sub8 = []int{0, 5, 7, 9, 11, 15, 3, 4} // (N,N) (1,1) (1,x) (2,1) (2,x) (x,x) (N,x) (1,N)
var c03Sub6 = []int{3, 5, 7, 8, 11, 14}       // (N,x) (1,1) (1,x) (2,N) (2,x) (x,2)

// quick: every ordered table of <=2 rows, and every ordered 3-row table over 8 of the 16 rows;
// thorough: every ordered table of <=3 rows, and every ordered 4-row table over 6 of the 16 rows.
func c03SingleTables(thorough bool) [][][]rv.V {
	rows := c03RowsOver(c03Alpha1)
	var out [][][]rv.V
	add := func(t [][]rv.V) { out = append(out, t) }
	if !thorough {
		c03Tables(rows, 2, true, add)
		c03Tables(c03Pick(rows, c03Sub8...), 3, true, func(t [][]rv.V) {
			if len(t) == 3 {
				add(t)
			}
		})
	} else {
		c03Tables(rows, 3, true, add)
		c03Tables(c03Pick(rows, c03Sub6...), 4, true, func(t [][]rv.V) {
			if len(t) == 4 {
				add(t)
			}
		})
	}
	return out
}

// quick: (t1 <=2 rows) x (t2 <=1 row), (t1 <=1 row) x (t2 2 rows), and 2 x 2 rows over 8 of the 16 rows each;
// thorough: (t1 <=2) x (t2 <=2) over all rows, (t1 3 rows) x (t2 <=1), (t1 <=1) x (t2 3 rows over 8 of the 16 rows).  Rows as multisets.
func c03PairWorlds(thorough bool, fn func(t1, t2 [][]rv.V) bool) {
	rows1 := c03RowsOver(c03Alpha1)
	rows2 := c03RowsOver(c03Alpha2)
	list := func(rows [][]rv.V, min, max int) [][][]rv.V {
		var out [][][]rv.V
		c03Tables(rows, max, false, func(t [][]rv.V) {
			if len(t) >= min {
				out = append(out, t)
			}
		})
		return out
	}
	type block struct{ a, b [][][]rv.V }
	var blocks []block
	if !thorough {
		blocks = []block{
			{list(rows1, 0, 2), list(rows2, 0, 1)},
			{list(rows1, 0, 1), list(rows2, 2, 2)},
			{list(c03Pick(rows1, c03Sub8...), 2, 2), list(c03Pick(rows2, c03Sub8...), 2, 2)},
		}
	} else {
		blocks = []block{
			{list(rows1, 0, 2), list(rows2, 0, 2)},
			{list(rows1, 3, 3), list(rows2, 0, 1)},
			{list(rows1, 0, 1), list(c03Pick(rows2, c03Sub8...), 3, 3)},
		}
	}
	for _, b := range blocks {
		for _, t1 := range b.a {
			for _, t2 := range b.b {
				if !fn(t1, t2) {
					return
				}
			}
		}
	}
}

// RecordRange: for every record count and every number of workers the ranges are a partition of [0,len) in order.
func c03Ranges(c *core.Ctx) {
	if c.Shard != 0 {
		return
	}
	for n := 0; n <= 2000; n++ {
		for cpu := 1; cpu <= 32; cpu++ {
			m := query.NewGoroutineTaskManager(n, 1, cpu)
			next := 0
			bad := m.Number < 1 || m.Number > cpu
			for i := 0; i < m.Number && !bad; i++ {
				s, e := m.RecordRange(i)
				if s == 0 && e == 0 && (i > 0 || n == 0) {
					continue // an empty range; a lost tail is caught below
				}
				if s != next || e <= s {
					bad = true
				}
				next = e
			}
			if next != n {
				bad = true
			}
			// give the borrowed goroutine slots back
			for i := 1; i < m.Number; i++ {
				query.GetGoroutineManager().Release()
			}
			if bad {
				c.Violate("record-range-not-a-partition", fmt.Sprintf("recordLen=%d cpu=%d workers=%d", n, cpu, m.Number), c03Payload{Family: "ranges", Query: fmt.Sprintf("%d/%d", n, cpu)})
			}
		}
	}
	c.EvalN(2001*32, 2000*31)
}

func c03Replay(c *core.Ctx, raw json.RawMessage) {
	var p c03Payload
	if err := json.Unmarshal(raw, &p); err != nil {
		fmt.Println("bad payload:", err)
		return
	}
	if p.Family == "ranges" {
		c03Ranges(c)
		return
	}
	if c03DiffReplay(c, raw) {
		return
	}
	p.World.decode()
	r := newC03Runner(c)
	r.verbose = true
	if p.Family == "recset" {
		r.limit = c03RecsetLimit
	}
	both := &c03Cat{name: "both"}
	for _, th := range []bool{false, true} {
		for _, cat := range []*c03Cat{c03CatSingle(th), c03CatPair(th), c03CatRecset()} {
			for _, q := range cat.qs {
				if q.ID == p.Query && len(both.qs) == 0 {
					both.qs = append(both.qs, q)
				}
			}
		}
	}
	if len(both.qs) == 0 {
		fmt.Println("replay: the catalogue has no query", p.Query)
		return
	}
	both.parse()
	if both.qs[0].SQL != p.SQL {
		fmt.Printf("replay: catalogue text changed\n  recorded %s\n  now      %s\n", p.SQL, both.qs[0].SQL)
	}
	r.runWorld(p.Family, both, p.World, p.Mode, p.Query, nil)
	if c.NViolations() == 0 && p.Mode.CPU > 1 {
		// a disagreement that depends on how csvq's worker goroutines interleave does not show on every execution
		r.verbose = false
		for i := 2; i <= 3000 && c.NViolations() == 0; i++ {
			r.runWorld(p.Family, both, p.World, p.Mode, p.Query, nil)
			if c.NViolations() > 0 {
				fmt.Printf("replay: reproduced at execution %d of the same case (depends on goroutine scheduling)\n", i)
			}
		}
	}
}
