package checks

import (
	"encoding/json"
	"fmt"
	"os"
	"path/filepath"
	"strings"

	"verif/harness/internal/core"
	"verif/harness/internal/drv"
)

// Extra family for C20: one table name, two directories. A relative table name denotes the file of that name in the
// current repository (or working directory); a transaction that moves between two directories holding a file t.csv
// each works on two tables. A read of t shows the table the name denotes at that moment, with exactly the changes
// the transaction made to THAT table; a COMMIT writes each table to its own file.
func init() {
	core.Extend("C20", "family repository-switch: the directories r1 and r2 hold a t.csv each x every sequence of 1-4 statements over {SELECT t, UPDATE t, switch to the other directory by SET @@REPOSITORY, by CHDIR, COMMIT, ROLLBACK}; "+
		"oracle: two independent tables (every read, and both files after the final COMMIT)", c20RepoRun)
}

var c20RepoAlphabet = []string{"SELECT", "UPDATE", "SETREPO", "CHDIR", "COMMIT", "ROLLBACK"}

type c20RepoCase struct {
	Family string `json:"family"`
	Seq    []int  `json:"statements"`
}

func c20RepoOne(c *core.Ctx, base string, k c20RepoCase) {
	dirs := []string{filepath.Join(base, "r1"), filepath.Join(base, "r2")}
	for i, d := range dirs {
		os.MkdirAll(d, 0755)
		drv.ClearDir(d)
		drv.WriteFiles(d, map[string]string{"t.csv": fmt.Sprintf("n\n%d\n", i+1)})
	}
	cwd, _ := os.Getwd()
	os.Chdir(dirs[0])
	defer os.Chdir(cwd)
	env := drv.New(dirs[0])
	env.Tx.Flags.Repository = "" // relative names are resolved against the working directory until SET @@REPOSITORY names one
	env.Tx.Flags.SetQuiet(true)
	// reference: the working and the committed value of each table, the directory the name t refers to
	work, disk := []int{1, 2}, []int{1, 2}
	cur := 0
	var trace []string
	bad := ""
	for _, si := range k.Seq {
		stmt := ""
		switch c20RepoAlphabet[si] {
		case "SELECT":
			stmt = "SELECT n FROM t"
		case "UPDATE":
			stmt = "UPDATE t SET n = n + 10"
			work[cur] += 10
		case "SETREPO":
			cur = 1 - cur
			stmt = fmt.Sprintf("SET @@REPOSITORY TO '%s'", dirs[cur])
		case "CHDIR":
			cur = 1 - cur
			// a repository that was set takes precedence over the working directory: move both
			stmt = fmt.Sprintf("CHDIR '%s'; SET @@REPOSITORY TO ''", dirs[cur])
		case "COMMIT":
			stmt = "COMMIT"
			copy(disk, work)
		case "ROLLBACK":
			stmt = "ROLLBACK"
			copy(work, disk)
		}
		r := env.Exec(stmt + ";")
		trace = append(trace, stmt)
		if r.Err != nil || r.Panic != nil {
			bad = fmt.Sprintf("%q fails: %v %v", stmt, r.Err, r.Panic)
			break
		}
		if c20RepoAlphabet[si] == "SELECT" {
			got := ""
			if len(r.Views) > 0 {
				if rows := drv.Rows(r.Views[len(r.Views)-1]); len(rows) == 1 {
					got = strings.TrimPrefix(rows[0][0].Key(), "S:")
				}
			}
			if got != fmt.Sprintf("%q", fmt.Sprint(work[cur])) && got != fmt.Sprint(work[cur]) && got != "I:"+fmt.Sprint(work[cur]) {
				bad = fmt.Sprintf("after %v the read of t (directory r%d) shows %s; that table holds %d (the other one %d)", trace, cur+1, got, work[cur], work[1-cur])
				break
			}
		}
	}
	if bad == "" {
		r := env.Exec("COMMIT;")
		copy(disk, work)
		if r.Err != nil {
			bad = fmt.Sprintf("the final COMMIT fails: %v", r.Err)
		}
	}
	env.Close()
	if bad == "" {
		for i, d := range dirs {
			b, _ := os.ReadFile(filepath.Join(d, "t.csv"))
			if string(b) != fmt.Sprintf("n\n%d\n", disk[i]) {
				bad = fmt.Sprintf("after %v and a final COMMIT r%d/t.csv holds %q; the transaction left that table at %d", trace, i+1, b, disk[i])
				break
			}
		}
	}
	nt := false
	for _, si := range k.Seq {
		if si == 2 || si == 3 {
			nt = true
		}
	}
	c.Eval(fmt.Sprintf("repository-switch|%v", k.Seq), nt)
	c.Add("transitions", int64(len(k.Seq)))
	if bad != "" {
		c.Violate("repository-switch:a-read-or-commit-of-one-directory's-table-shows-the-other's", bad, k)
	}
}

func c20RepoRun(c *core.Ctx) {
	if !c20Only("repository-switch") {
		return
	}
	base := core.Scratch("c20repo")
	maxLen := 4
	if c.Thorough() {
		maxLen = 5
	}
	var idx int64
	var rec func(seq []int)
	rec = func(seq []int) {
		if len(seq) > 0 {
			idx++
			if c.Mine(idx) {
				k := c20RepoCase{Family: "repository-switch", Seq: append([]int{}, seq...)}
				c20RepoOne(c, base, k)
				if c.WantSample() && len(seq) == maxLen && seq[0] == 0 && seq[1] == 2 {
					c.Sample(k)
				}
			}
		}
		if len(seq) == maxLen || c.Expired() {
			return
		}
		for i := range c20RepoAlphabet {
			rec(append(seq, i))
		}
	}
	rec(nil)
}

func c20RepoReplay(c *core.Ctx, payload json.RawMessage) bool {
	var k c20RepoCase
	if json.Unmarshal(payload, &k) != nil || k.Family != "repository-switch" {
		return false
	}
	fmt.Printf("replaying family repository-switch: %v\n", k.Seq)
	c20RepoOne(c, core.Scratch("c20repo-replay"), k)
	return true
}
