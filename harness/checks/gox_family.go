//go:build verifx

package checks

import (
	"encoding/json"
	"fmt"
	"strings"

	"github.com/mithrandie/csvq/lib/query"

	"verif/harness/internal/core"
	"verif/harness/internal/gox"
)

// goxFamily: a family of another check that borrows C12's machinery - a program run by several workers under ALL
// goroutine schedules with at most one non-default decision, compared with the single-worker run.
type goxFamilyPayload struct {
	Family   string      `json:"family"`
	Scenario goxScenario `json:"scenario"`
	Choices  []int       `json:"choices"`
}

func goxFamilyExplore(c *core.Ctx, family string, sc goxScenario, fine bool, replay []int) {
	prev := query.GetGoroutineManager().MinimumRequiredPerCore
	query.GetGoroutineManager().MinimumRequiredPerCore = 2
	gox.EvalPoints, gox.LoopPoints = fine, fine
	defer func() {
		query.GetGoroutineManager().MinimumRequiredPerCore = prev
		gox.EvalPoints, gox.LoopPoints = false, false
	}()
	dir := core.Scratch("gox-" + family)
	want, _ := goxRunOnce(dir, sc, 1, false, nil)
	if strings.Contains(want, "error: ") || strings.Contains(want, "panic: ") {
		c.Incomplete(fmt.Sprintf("family %s, scenario %s: the single-worker run fails: %s", family, sc.Name, clip(want)))
	}
	judge := func(choices []int, got string) {
		if got != want {
			c.Violate(family+":"+sc.Name+":"+c12Signature("x", want, got)[2:], fmt.Sprintf("scenario %s %q with %d workers, choices %v:\n--- single worker:\n%s--- this schedule:\n%s", sc.Name, sc.SQL, sc.CPU, choices, want, got),
				goxFamilyPayload{family, sc, choices})
		}
	}
	if replay != nil {
		got, _ := goxRunOnce(dir, sc, sc.CPU, true, replay)
		fmt.Printf("replayed schedule equal to the single-worker run: %v\n", got == want)
		judge(replay, got)
		return
	}
	pass := func(bound int, tag string) {
		e := &gox.Explorer{MaxPreempt: bound, MaxMapDev: 0, MaxSwitch: bound, Stop: c.Expired}
		var got string
		nontrivial := int64(0)
		e.ExploreRunner(func(prefix []int) gox.Execution {
			var ex gox.Execution
			got, ex = goxRunOnce(dir, sc, sc.CPU, true, prefix)
			return ex
		}, func(choices []int, ex gox.Execution) {
			if ex.Tasks > 1 {
				nontrivial++
			}
			if ex.Deadlock {
				c.Violate(family+":"+sc.Name+":deadlock", fmt.Sprintf("scenario %s: every live task is blocked under choices %v", sc.Name, choices), goxFamilyPayload{family, sc, choices})
			}
			judge(choices, got)
		})
		c.EvalN(int64(e.Executions), nontrivial)
		c.Observe(family+"_family", fmt.Sprintf("%s%s: %d schedules, %d tasks max", sc.Name, tag, e.Executions, e.MaxTasks))
		if e.Capped {
			c.Incomplete("family " + family + ", scenario " + sc.Name + tag + ": time budget reached before all schedules within the bound were run")
		}
		if e.Divergences > 0 {
			c.Incomplete(fmt.Sprintf("family %s, scenario %s%s: %d executions diverged from their choice vector", family, sc.Name, tag, e.Divergences))
		}
	}
	pass(1, "")
	if c.Thorough() {
		// thorough: a second pass with the coarse points (mutexes, wait groups, record boundaries) and two decisions
		gox.EvalPoints, gox.LoopPoints = false, false
		// the number of executions grows with the square of the choice points of the all-default execution
		if _, probe := goxRunOnce(dir, sc, sc.CPU, true, nil); len(probe.Points) <= 150 {
			pass(2, " (coarse points, 2 decisions)")
		} else {
			c.Observe(family+"_family_scenarios_left_at_one_decision", fmt.Sprintf("%s: %d coarse choice points", sc.Name, len(probe.Points)))
		}
	}
}

func goxFamilyRun(c *core.Ctx, family string, scs []goxScenario, fine bool) {
	for i, sc := range scs {
		if !c.Mine(int64(i)) {
			continue
		}
		goxFamilyExplore(c, family, sc, fine, nil)
	}
}

func goxFamilyReplay(c *core.Ctx, family string, fine bool, payload json.RawMessage) bool {
	var p goxFamilyPayload
	if json.Unmarshal(payload, &p) != nil || p.Family != family {
		return false
	}
	fmt.Printf("replaying family %s, scenario %s\n", family, p.Scenario.Name)
	goxFamilyExplore(c, family, p.Scenario, fine, p.Choices)
	return true
}
