//go:build verifx

package checks

import "github.com/mithrandie/csvq/lib/verifshim/vrt"

// c16InPool tells whether a value object sits in its pool right now (handed to value.Discard and not issued again),
// and which csvq function put it there. Needs poolTrack(true).
func c16InPool(p any) (string, bool) { return vrt.InPool(p) }
