//go:build verifx

package checks

import (
	"fmt"
	"strings"

	"verif/harness/internal/core"
	"verif/harness/internal/drv"

	"github.com/mithrandie/csvq/lib/verifshim/vrt"
)

// Family after-failure (C14): a statement that FAILS (or fails inside and swallows the failure) is followed, in the
// same session, by statements that only read. Error paths release what the statement had taken - node scopes of
// queries, block scopes of loops and functions, pooled values, join records - and a release that happens twice, or
// of something still in use, shows in the next statements: every probe is executed before the failing statement,
// after it, and once more, and must give the same result each time; the pools of lib/query and lib/value must not
// receive an object that already sits in them.

// probes: statements that only read, written so that several query nodes, block scopes and pooled objects are alive at once
var c14Probes = []string{
	"WITH w (v) AS (SELECT 'inline') SELECT (SELECT (SELECT 1 FROM DUAL) FROM DUAL) AS a, (SELECT v FROM w) AS b FROM DUAL",
	"WITH w (v) AS (SELECT a FROM t WHERE a > 1), x (v) AS (SELECT v + 10 FROM w) SELECT w.v, (SELECT MAX(v) FROM x WHERE x.v > w.v) FROM w ORDER BY 1",
	"SELECT t.a, u.c, (SELECT COUNT(*) FROM t z WHERE z.a <= t.a) FROM t JOIN u ON t.a = u.a ORDER BY t.a",
	"SELECT z.a, z.b FROM t z WHERE EXISTS (SELECT 1 FROM u WHERE u.a = z.a) OR z.a IN (SELECT a + 1 FROM u) ORDER BY z.a",
	"SELECT DISTINCT b || '!' FROM t UNION SELECT c FROM u ORDER BY 1",
	"DECLARE pf FUNCTION (@x) AS BEGIN VAR @y := @x * 2; IF @y > 2 THEN VAR @z := @y + 1; RETURN @z; END IF; RETURN @y; END; SELECT a, pf(a) FROM t ORDER BY a; DISPOSE FUNCTION pf;",
	"VAR @i := 0; VAR @s := ''; WHILE @i < 3 DO VAR @l := @i * 2; @s := @s || @l; @i := @i + 1; END WHILE; PRINT @s; DISPOSE @i; DISPOSE @s;",
	"DECLARE pc CURSOR FOR SELECT a, b FROM t ORDER BY a; OPEN pc; VAR @pa, @pb; WHILE @pa, @pb IN pc DO PRINT @pa || @pb; END WHILE; CLOSE pc; DISPOSE CURSOR pc; DISPOSE @pa; DISPOSE @pb;",
	"SELECT a, RANK() OVER (ORDER BY b DESC), SUM(a) OVER (PARTITION BY b ORDER BY a) FROM t ORDER BY a",
	"SELECT b, COUNT(*), LISTAGG(a, ',') WITHIN GROUP (ORDER BY a DESC) FROM t GROUP BY b HAVING COUNT(*) > 0 ORDER BY b",
}

// failing statements (each ends in an error, or meets one inside and goes on)
var c14Failing = []string{
	"SELECT 1 FROM DUAL LIMIT 'abc'",
	"SELECT a FROM t ORDER BY a LIMIT 'abc'",
	"SELECT a FROM t LIMIT 1/0",
	"SELECT a FROM t LIMIT 10 PERCENT OFFSET 'x'",
	"SELECT a FROM t OFFSET 'x'",
	"SELECT a FROM t LIMIT -1 PERCENT",
	"SELECT 1 FROM DUAL HAVING (SELECT 1 FROM DUAL LIMIT COUNT(*)) = 1",
	"WITH w (v) AS (SELECT 1) SELECT v FROM w LIMIT 'abc'",
	"SELECT (SELECT 1 FROM DUAL LIMIT 'abc') FROM t",
	"SELECT a FROM t WHERE a IN (SELECT a FROM u LIMIT 'abc')",
	"(SELECT a FROM t LIMIT 'x') UNION SELECT a FROM t",
	"SELECT a FROM t UNION (SELECT a FROM u OFFSET 'x')",
	"SELECT a FROM t ORDER BY nosuch",
	"SELECT a FROM t ORDER BY 1/0",
	"SELECT nosuch FROM t",
	"SELECT a FROM nosuch",
	"SELECT a FROM t WHERE 1/0 = 1",
	"SELECT a FROM t WHERE nosuch > 1",
	"SELECT a FROM t GROUP BY nosuch",
	"SELECT b, COUNT(*) FROM t GROUP BY b HAVING nosuch > 1",
	"SELECT a, b FROM t GROUP BY a",
	"WITH w AS (SELECT nosuch FROM t) SELECT * FROM w",
	"WITH w (x, y) AS (SELECT a FROM t) SELECT * FROM w",
	"WITH RECURSIVE r (n) AS (SELECT 1 UNION ALL SELECT n + 1 FROM r WHERE n < 3 AND 1/(n - 2) > 0) SELECT n FROM r",
	"SELECT (SELECT a FROM t) FROM DUAL",
	"SELECT (SELECT a, b FROM t LIMIT 1) FROM DUAL",
	"SELECT a FROM t UNION SELECT a, b FROM t",
	"SELECT a, b INTO @nosuchvar FROM t LIMIT 1",
	"SELECT * FROM t JOIN u ON nosuch = 1",
	"SELECT * FROM t JOIN u ON t.a = u.a AND 1/(t.a - 2) > 0",
	"SELECT * FROM t NATURAL JOIN nosuch",
	"SELECT * FROM t LEFT JOIN u USING (nosuch)",
	"SELECT * FROM t, LATERAL (SELECT nosuch FROM u WHERE u.a = t.a) s",
	"SELECT * FROM t FULL JOIN u ON 1/(u.a - 1) > 0",
	"SELECT a, RANK() OVER (ORDER BY nosuch) FROM t",
	"SELECT a, NTILE('x') OVER (ORDER BY a) FROM t",
	"SELECT a, SUM(a) OVER (ORDER BY a ROWS BETWEEN 'x' PRECEDING AND CURRENT ROW) FROM t",
	"SELECT a, LAG(a, 'x') OVER (ORDER BY a) FROM t",
	"SELECT LISTAGG(a, ',') WITHIN GROUP (ORDER BY nosuch) FROM t",
	"SELECT b, LISTAGG(a) WITHIN GROUP (ORDER BY 1/(a - 2)) FROM t GROUP BY b",
	"SELECT nosuchfn(a) FROM t",
	"SELECT SUBSTRING(b, 'x') FROM t",
	"SELECT a, 1/(a - 2) FROM t",
	"SELECT CASE WHEN a = 2 THEN 1/0 ELSE a END FROM t",
	"SELECT a FROM t WHERE a = ANY (SELECT a, c FROM u)",
	"SELECT a FROM t WHERE (a, b) IN (SELECT a FROM u)",
	"SELECT a FROM t WHERE a BETWEEN (SELECT a FROM u) AND 3",
	"DECLARE ef FUNCTION (@x) AS BEGIN VAR @y := 1; IF TRUE THEN VAR @z := 1/0; END IF; RETURN @y; END; SELECT ef(a) FROM t;",
	"DECLARE ef2 FUNCTION (@x) AS BEGIN WHILE TRUE DO VAR @q := 1; SELECT nosuch FROM t; END WHILE; RETURN 1; END; SELECT ef2(a) FROM t;",
	"DECLARE ef3 FUNCTION (@x) AS BEGIN RETURN ef3b(@x); END; SELECT ef3(1) FROM DUAL;",
	"DECLARE ea AGGREGATE (cur) AS BEGIN VAR @v; WHILE @v IN cur DO VAR @w := 1/0; END WHILE; RETURN 1; END; SELECT ea(a) FROM t;",
	"DECLARE ea2 AGGREGATE (cur) AS BEGIN RETURN 1/0; END; SELECT a, ea2(a) OVER (PARTITION BY b) FROM t;",
	"WHILE TRUE DO VAR @q := 1; SELECT nosuch FROM t; END WHILE;",
	"IF TRUE THEN VAR @q := 1; IF TRUE THEN VAR @r := 1/0; END IF; END IF;",
	"CASE WHEN TRUE THEN VAR @q := 1; SELECT a FROM nosuch; END CASE;",
	"VAR @k := 0; WHILE @k < 2 DO @k := @k + 1; IF @k = 2 THEN TRIGGER ERROR 'stop'; END IF; END WHILE;",
	"DECLARE ec CURSOR FOR SELECT nosuch FROM t; OPEN ec;",
	"DECLARE ec2 CURSOR FOR SELECT a FROM t LIMIT 'x'; OPEN ec2;",
	"DECLARE ec3 CURSOR FOR SELECT a FROM t; OPEN ec3; VAR @e1, @e2; FETCH ec3 INTO @e1, @e2;",
	"DECLARE ec4 CURSOR FOR SELECT a FROM t; OPEN ec4; VAR @e3; WHILE @e3 IN ec4 DO VAR @in := 1/(@e3 - 2); END WHILE;",
	"FETCH nosuchcur INTO @nosuchvar",
	"UPDATE t SET nosuch = 1",
	"UPDATE t SET a = 1/(a - 2)",
	"UPDATE t SET a = (SELECT a FROM u)",
	"DELETE FROM t WHERE nosuch = 1",
	"DELETE FROM t WHERE a IN (SELECT a FROM u LIMIT 'x')",
	"INSERT INTO t VALUES (1)",
	"INSERT INTO t (a, b) VALUES (9, 'n'), (1/0, 'm')",
	"INSERT INTO t SELECT a FROM u",
	"INSERT INTO t (a, b) SELECT a, c FROM u LIMIT 'x'",
	"REPLACE INTO t (a, b) USING (nosuch) VALUES (1, 'x')",
	"CREATE TABLE `new.csv` (c1, c2) AS SELECT a FROM t",
	"CREATE TABLE `new.csv` AS SELECT a FROM t LIMIT 'x'",
	"ALTER TABLE t ADD (z DEFAULT 1/0)",
	"ALTER TABLE t DROP nosuch",
	"DECLARE dv VIEW (x) AS SELECT a, b FROM t",
	"DECLARE dv2 VIEW AS SELECT a FROM t LIMIT 'x'",
	"PREPARE ps FROM 'SELECT a FROM t LIMIT ?'; EXECUTE ps USING 'abc';",
	"PREPARE ps2 FROM 'SELECT a FROM'; ",
	"EXECUTE 'SELECT a FROM t LIMIT ''abc'''",
	"EXECUTE 'SELECT %s FROM t' USING 'nosuch'",
	"SOURCE `nosuch.sql`",
	"VAR @vv := (SELECT a FROM t)",
	"VAR @vw := 1; VAR @vw := 2;",
	"PRINT (SELECT a FROM t LIMIT 'x')",
	"SELECT a FROM t WHERE a = (SELECT a FROM t z WHERE z.a = t.a LIMIT 'x')",
	"SELECT JSON_VALUE('a[', '{}') FROM t",
	"SELECT a FROM JSON_INLINE('x[', '{}') j",
	"SELECT * FROM CSV(',', `nosuch.csv`)",
	"SELECT * FROM t FOR UPDATE LIMIT 'x'",
}

func c14FailureFamily(c *core.Ctx, r *c14Runner) {
	dir := core.Scratch("c14fail")
	files := map[string]string{"t.csv": "a,b\n1,x\n2,y\n3,x\n", "u.csv": "a,c\n1,p\n3,q\n4,r\n"}
	var idx int64
	for fi, f := range c14Failing {
		idx++
		if !c.Mine(idx) {
			continue
		}
		if c.Expired() {
			c.Incomplete("time budget reached in family after-failure")
			return
		}
		drv.ClearDir(dir)
		drv.WriteFiles(dir, files)
		env := drv.NewText(dir)
		env.Tx.Flags.SetQuiet(true)
		payload := c14Payload{Family: "after-failure", SQL: f}
		run := func(sql string) string {
			res := env.Exec(sql)
			var sb strings.Builder
			for _, v := range res.Views {
				sb.WriteString(fmt.Sprint(drv.Header(v)) + drv.RowsKey(drv.Rows(v)) + "\n")
			}
			sb.WriteString(res.Out)
			if res.Err != nil {
				sb.WriteString("error: " + res.Err.Error())
			}
			if res.Panic != nil {
				sb.WriteString(fmt.Sprint("panic: ", res.Panic))
			}
			return sb.String()
		}
		before := make([]string, len(c14Probes))
		for i, p := range c14Probes {
			before[i] = run(p)
		}
		// the tables as the probes see them must not be changed by a statement that fails: roll back whatever a
		// multi-statement failing program did before its error (C08 judges the single statement)
		fout := run(f)
		failed := strings.Contains(fout, "error: ") || strings.Contains(fout, "panic: ")
		run("ROLLBACK")
		c.Eval("after-failure|"+f, failed)
		if !failed {
			c.Observe("after_failure_statements_that_did_not_fail", fmt.Sprint(fi))
		}
		cls := strings.Join(strings.Fields(f)[:2], " ")
		// every order of the probes after the failure starts with another one: the first Gets after the failure differ
		order := make([]int, len(c14Probes))
		for i := range order {
			order[i] = (i + fi) % len(c14Probes)
		}
		for round := 0; round < 2; round++ {
			for _, i := range order {
				if got := run(c14Probes[i]); got != before[i] {
					c.Violate("after-failure:read-differs-after-failed-statement:"+cls, fmt.Sprintf("after the failing statement %q (%s) the reading statement %q gives\n    %q\n  before it gave\n    %q", f, clip(fout), c14Probes[i], got, before[i]), payload)
					round = 2
					break
				}
			}
		}
		for _, d := range vrtxDoubleReleases() {
			c.Violate("double-release:"+d, fmt.Sprintf("failing statement %q followed by the reading statements: an object was put into its pool while it was already there (%s)", f, d), payload)
		}
		env.Close()
	}
	if c.WantSample() {
		c.Sample(map[string]any{"family": "after-failure", "failing_statement": c14Failing[0], "reading_statements": c14Probes[:2], "order": "probes, failing statement, ROLLBACK, probes twice in rotated order"})
	}
}

func vrtxDoubleReleases() []string { return vrt.DoubleDiscards() }
