package checks

import (
	"encoding/json"
	"fmt"
	"sort"
	"strings"

	"verif/harness/internal/core"
	"verif/harness/internal/drv"
)

// Family commit-cancel (C01, base line of C10 and C02): the interrupt that ends a run can arrive while COMMIT is writing
// the tables. csvq polls its context inside every encoder (every 16 records) and between the steps of the commit; the
// poll at which the cancellation becomes visible is an environment answer and is enumerated: the COMMIT of a transaction
// that changed a 40-record table (written in each of the ten table formats) and a small second table runs under a context
// whose Err() reports Canceled from its K-th call on, for every K until the COMMIT completes, under both orders of the
// commit's map ranges.
//
// Oracle: a COMMIT that returns an error has written nothing (every file byte-identical, after the session has ended);
// a COMMIT that returns without an error has written exactly what the uninterrupted COMMIT writes.
const c01CommitCancelRule = "family commit-cancel: the COMMIT of a changed 40-record table in each of 10 formats (CSV, TSV, FIXED, JSON, JSONL, LTSV, GFM, ORG, BOX, TEXT) plus a second table x both orders of the commit's map ranges x a cancellation that becomes visible at the K-th poll of the context, every K until the COMMIT completes; " +
	"oracle: an error means every file is byte-identical to the last commit, success means the files of the uninterrupted COMMIT"

func init() {
	core.Extend("C01", c01CommitCancelRule, func(c *core.Ctx) {
		if !c01FamilyOff("commit-cancel") {
			c01CommitCancelRun(c, "C01")
		}
	})
}

var c01CommitCancelFormats = []string{"CSV", "TSV", "FIXED", "JSON", "JSONL", "LTSV", "GFM", "ORG", "BOX", "TEXT"}

type c01CommitCancelCase struct {
	Family string `json:"family"`
	Format string `json:"format_of_the_big_table"`
	Order  string `json:"map_order"`
	Second bool   `json:"second_table_changed"`
	K      int64  `json:"cancel_visible_from_poll"`
}

func c01CommitCancelFiles() map[string]string {
	var t strings.Builder
	t.WriteString("a,k,b\n")
	for i := 1; i <= 40; i++ {
		fmt.Fprintf(&t, "%d,k%d,b%d\n", i, i, i)
	}
	return map[string]string{"t.csv": t.String(), "u.csv": "k,w\nk1,10\nk2,20\n"}
}

// one (case): returns (completed, ok)
func c01CommitCancelOne(c *core.Ctx, dir string, k c01CommitCancelCase, want map[string]string) (completed bool, snap map[string]string) {
	setProcOrder(k.Order, true)
	defer setProcOrder("", false)
	files := c01CommitCancelFiles()
	drv.ClearDir(dir)
	drv.WriteFiles(dir, files)
	env := drv.New(dir)
	env.Tx.Flags.SetQuiet(true)
	prog := "UPDATE t SET b = b || '!';"
	if k.Format != "CSV" {
		prog += " ALTER TABLE t SET FORMAT TO '" + k.Format + "';"
	}
	if k.Second {
		prog += " UPDATE u SET w = w + 1;"
	}
	if r := env.Exec(prog); r.Err != nil || r.Panic != nil {
		env.Close()
		c.Observe("commit_cancel_family_transactions_refused", fmt.Sprintf("%s: %v %v", k.Format, r.Err, r.Panic))
		return true, nil
	}
	var calls int64
	normal := env.Ctx
	if k.K >= 0 {
		env.Ctx = c08PollCtx{Context: normal, calls: &calls, k: k.K}
	}
	r := env.Exec("COMMIT;")
	env.Ctx = normal
	env.Close()
	snap = drv.DirSnapshot(dir)
	if k.K < 0 {
		if r.Err != nil || r.Panic != nil {
			c.Observe("commit_cancel_family_transactions_refused", fmt.Sprintf("%s: COMMIT: %v %v", k.Format, r.Err, r.Panic))
			return true, nil
		}
		return true, snap
	}
	where := fmt.Sprintf("COMMIT of t (written as %s)%s with the cancellation visible from poll %d of the context on (%d polls made), map ranges %s", k.Format, map[bool]string{true: " and u", false: ""}[k.Second], k.K, calls, map[string]string{"": "ascending", "rev": "descending"}[k.Order])
	if r.Panic != nil {
		c.Violate("commit-cancel:panic", where+": "+fmt.Sprint(r.Panic), k)
		return false, snap
	}
	c.Eval(fmt.Sprintf("commit-cancel|%s|%s|%v|%d", k.Format, k.Order, k.Second, k.K), true)
	same := func(a, b map[string]string) bool { return fmt.Sprint(sortedMap(a)) == fmt.Sprint(sortedMap(b)) }
	switch {
	case r.Err != nil && same(snap, files):
		return false, snap
	case r.Err == nil && same(snap, want):
		return true, snap
	case r.Err != nil && same(snap, want):
		c.Observe("commit_cancel_family_error_reported_after_everything_was_written", k.Format)
		return false, snap
	}
	cls := "error-reported"
	if r.Err == nil {
		cls = "success-reported"
	}
	var diff []string
	for _, n := range sortedKeys(snap, files, want) {
		switch {
		case snap[n] == files[n]:
			diff = append(diff, n+": old")
		case snap[n] == want[n]:
			diff = append(diff, n+": new")
		default:
			diff = append(diff, fmt.Sprintf("%s: neither (%d bytes; old %d, new %d): %q", n, len(snap[n]), len(files[n]), len(want[n]), clip(snap[n])))
		}
	}
	c.Violate("commit-cancel:"+cls+":files-neither-as-before-nor-as-the-complete-commit:"+c01CommitCancelKind(k.Format), fmt.Sprintf("%s: COMMIT returned %v; %s", where, r.Err, strings.Join(diff, "; ")), k)
	return r.Err == nil, snap
}

func c01CommitCancelKind(f string) string {
	switch f {
	case "GFM", "ORG", "BOX", "TEXT":
		return "text-table"
	}
	return strings.ToLower(f)
}

func sortedMap(m map[string]string) []string {
	var out []string
	for k, v := range m {
		out = append(out, k+"="+v)
	}
	sort.Strings(out)
	return out
}

func sortedKeys(ms ...map[string]string) []string {
	seen := map[string]bool{}
	var out []string
	for _, m := range ms {
		for k := range m {
			if !seen[k] {
				seen[k] = true
				out = append(out, k)
			}
		}
	}
	sort.Strings(out)
	return out
}

func c01CommitCancelRun(c *core.Ctx, id string) {
	dir := core.Scratch("c01commitcancel-" + id)
	var idx int64
	for _, f := range c01CommitCancelFormats {
		for _, order := range []string{"", "rev"} {
			for _, second := range []bool{false, true} {
				idx++
				if !c.Mine(idx) {
					continue
				}
				_, want := c01CommitCancelOne(c, dir, c01CommitCancelCase{"commit-cancel", f, order, second, -1}, nil)
				if want == nil {
					continue
				}
				var k int64
				for ; k < 300; k++ {
					if c.Expired() {
						c.Incomplete("time budget reached in family commit-cancel")
						return
					}
					if done, _ := c01CommitCancelOne(c, dir, c01CommitCancelCase{"commit-cancel", f, order, second, k}, want); done {
						break
					}
				}
				c.Observe("commit_cancel_family_polls", fmt.Sprintf("%s%s: %d polls until the COMMIT completes", f, map[bool]string{true: "+u", false: ""}[second], k))
				if k >= 300 {
					c.Incomplete("commit-cancel family: more than 300 polls for " + f)
				}
			}
		}
	}
}

func c01CommitCancelReplay(c *core.Ctx, payload json.RawMessage) bool {
	var k c01CommitCancelCase
	if json.Unmarshal(payload, &k) != nil || k.Family != "commit-cancel" {
		return false
	}
	fmt.Printf("replaying family commit-cancel: %+v\n", k)
	dir := core.Scratch("c01commitcancel-replay")
	ref := k
	ref.K = -1
	_, want := c01CommitCancelOne(c, dir, ref, nil)
	if want != nil {
		c01CommitCancelOne(c, dir, k, want)
	}
	return true
}
