package checks

import (
	"fmt"
	"path/filepath"
	"strings"

	"verif/harness/internal/core"
	"verif/harness/internal/drv"
	"verif/harness/internal/procx"
)

// Shared by the families of c11_*.go: the main family's procedure for one program - trace the undisturbed run to
// number its points, judge it, then re-run it once per (point, injection) and judge the directory with c11Judge.

// c11Undisturbed runs p without any injection and applies the oracle. ok=false: the run ended in a way the family did
// not announce (reported as a violation of its own), nothing further can be derived from it.
func c11Undisturbed(c *core.Ctx, dir string, p c11Program, tag string) (ref procx.Outcome, final map[string]string, ok bool) {
	tr := filepath.Join(filepath.Dir(dir), "c11trace-"+tag+".txt")
	ref = c11Exec(dir, p, []string{"VERIF_TRACE=" + tr})
	if ref.Killed {
		c11Judge(c, dir, p, ref, nil, c11Injection{Kind: "none"}, 0, procx.TracePoint{}, 0)
		return ref, nil, false
	}
	// a process that dies of a Go panic (exit status 2 and the runtime's report) is judged by the oracle, not by the
	// expectation about the exit status: what it left behind is the finding
	died := strings.Contains(ref.Stderr, "panic:") || ref.Exit == -1
	if (ref.Exit != 0) != p.WantFail && !died {
		c.Violate("undisturbed-run-unexpected-exit:"+tag, fmt.Sprintf("program %s %q exits %d (%s) with no injection", p.Name, p.Args, ref.Exit, clip(ref.Stderr)), c11Payload{Program: p, Inj: c11Injection{Kind: "none"}})
		return ref, nil, false
	}
	final = drv.DirSnapshot(dir)
	c11Judge(c, dir, p, ref, final, c11Injection{Kind: "none"}, 0, procx.TracePoint{}, c11WritePhaseEnd(ref.Trace))
	return ref, final, !died
}

// c11Sweep re-runs p once per (point of the reference trace, injection chosen by injsAt for that point); the cases are
// dealt out to the workers through *idx. Returns false when the time budget ended the sweep.
func c11Sweep(c *core.Ctx, dir string, p c11Program, tag string, ref procx.Outcome, final map[string]string, idx *int64, injsAt func(tp procx.TracePoint) []c11Injection) bool {
	tr := filepath.Join(filepath.Dir(dir), "c11trace-"+tag+".txt.inj")
	wpe := c11WritePhaseEnd(ref.Trace)
	firstChange := len(ref.Trace) + 1
	for _, tp := range ref.Trace {
		if strings.HasPrefix(filepath.Base(tp.Path), ".") || tp.Name == "create" || tp.Name == "rename" || tp.Name == "write" {
			firstChange = tp.K
			break
		}
	}
	for _, tp := range ref.Trace {
		for _, inj := range injsAt(tp) {
			*idx++
			if !c.Mine(*idx) {
				continue
			}
			if c.Expired() {
				c.Incomplete("family " + tag + ": time budget reached")
				return false
			}
			env := []string{}
			switch inj.Kind {
			case "signal":
				env = append(env, fmt.Sprintf("VERIF_SIGNAL_AT=%d:%s", tp.K, inj.Arg))
			case "signal2":
				env = append(env, c11Signal2Env(tp.K, inj.Arg)...)
			case "fail":
				env = append(env, fmt.Sprintf("VERIF_FAIL_AT=%d:%s", tp.K, inj.Arg))
			}
			env = append(env, "VERIF_TRACE="+tr)
			out := c11Exec(dir, p, env)
			actual := tp
			if tp.K-1 < len(out.Trace) && out.Trace[tp.K-1].K == tp.K {
				actual = out.Trace[tp.K-1]
			}
			c11Judge(c, dir, p, out, final, inj, tp.K, actual, wpe)
			c.Eval(fmt.Sprintf("%s:%s@%d:%s%s", tag, p.Name, tp.K, inj.Kind, inj.Arg), tp.K >= firstChange)
			c.Observe("exit_codes", fmt.Sprint(out.Exit))
		}
	}
	return true
}

// c11FirstStmt is the number of the first statement point of a trace (the points before it are the look-ups of the
// configuration files, which every program of the main family already sweeps).
func c11FirstStmt(ref []procx.TracePoint) int {
	for _, tp := range ref {
		if tp.Name == "stmt" {
			return tp.K
		}
	}
	return 1
}
