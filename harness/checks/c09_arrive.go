//go:build verifx

package checks

import (
	"context"
	"fmt"
	"path/filepath"
	"strconv"
	"strings"

	"github.com/mithrandie/csvq/lib/file"

	"verif/harness/internal/drv"
	"verif/harness/internal/fsx"
)

// Family arrive (C09): a process arrives at a table that another process holds for update. The holder is a full csvq
// process image whose program is cut in two: the first part makes it hold the counter table t (a data-changing or FOR
// UPDATE statement has completed, the transaction has not ended), the second part ends the transaction (COMMIT, automatic
// commit, ROLLBACK). The arriver - a plain SELECT, a locking SELECT, an UPDATE, a read through a table function, or the
// narrow seam (file.Container.CreateHandlerForRead, read, Close) - starts at any point of any interleaving; whether the
// holder held t at the moment the arriver began is a function of the holder's observation log and is written into the
// arriver's log.
//
// Oracle (no more than the property says):
//   - "while one process holds a table for update no other process can read it": an arriver that began while t was held
//     and ended well did its reading after the holder's transaction had ended, so every value it returns is the value the
//     holder's transaction left (initial + 1 after a commit, the initial value after a rollback);
//   - "while a process is reading it none can start writing": in every state in which the narrow reader has been granted
//     the table and has not given it back, what it read is what t.csv contains;
//   - every value anybody returns is a committed one; a committed increment of the arriver survives; nothing is left behind;
//     a program fails by a lock time-out only.
const c09ArriveRule = "family arrive: holder programs {UPDATE|COMMIT, SELECT FOR UPDATE|UPDATE + automatic commit, UPDATE|ROLLBACK; thorough: DELETE (no record)|UPDATE, SELECT INTO a variable FOR UPDATE|UPDATE from the variable} cut after the statement that establishes the hold x arrivers {lib/file read handler, plain SELECT; thorough: locking SELECT, UPDATE, SELECT through the table function CSV()}, all interleavings; " +
	"oracle: an arriver that began while the table was held and ended well returns the state the holder's transaction left; a granted reader read what the table file contains; only committed values are seen; the arriver's committed increment survives"

func init() { c09FamRegister("arrive", c09ArriveRule, c09ArriveList) }

type c09Holder struct {
	name        string
	first, rest string
	incs        int // increments the transaction commits (0 after a rollback)
	thorough    bool
}

type c09Arriver struct {
	name     string
	sql      string // "" = the narrow seam
	incs     int
	thorough bool
}

var c09Holders = []c09Holder{
	{name: "INC|COMMIT", first: "UPDATE t SET n = n + 1;", rest: "COMMIT;", incs: 1},
	{name: "SELFU|INC", first: "SELECT n FROM t FOR UPDATE;", rest: "UPDATE t SET n = n + 1;", incs: 1},
	{name: "INC|ROLLBACK", first: "UPDATE t SET n = n + 1;", rest: "ROLLBACK;", incs: 0},
	{name: "DELETE(none)|INC", first: "DELETE FROM t WHERE n < 0;", rest: "UPDATE t SET n = n + 1;", incs: 1, thorough: true},
	{name: "SELFU INTO @n|t:=@n+1", first: "VAR @n; SELECT n INTO @n FROM t FOR UPDATE;", rest: "UPDATE t SET n = @n + 1; COMMIT;", incs: 1, thorough: true},
}

var c09Arrivers = []c09Arriver{
	{name: "read handler"},
	{name: "SEL", sql: "SELECT n FROM t;"},
	{name: "SELFU", sql: "SELECT n FROM t FOR UPDATE;", thorough: true},
	{name: "INC", sql: "UPDATE t SET n = n + 1;", incs: 1, thorough: true},
	{name: "SEL CSV()", sql: "SELECT n FROM CSV(',', `t.csv`) x;", thorough: true},
}

const c09ArriveInit = 5

func c09ArriveList() []c09FamScenario {
	// the light workers of the main list (see c09_family.go)
	slots := []int64{13, 14, 16, 1, 10, 5, 6, 3}
	var out []c09FamScenario
	k := 0
	for _, h := range c09Holders {
		for _, a := range c09Arrivers {
			h, a := h, a
			out = append(out, c09FamScenario{family: "arrive", name: "arrive: " + h.name + " || " + a.name, slot: slots[k%len(slots)], thoroughOnly: h.thorough || a.thorough,
				build: func() *fsx.Scenario {
					return &fsx.Scenario{Setup: c09Setup(map[string]int{"t.csv": c09ArriveInit}), Bodies: c09ArriveBodies(h, a), Check: c09ArriveOracle(h, a)}
				}})
			k++
		}
	}
	return out
}

func c09SQLRes(r drv.Result) string {
	if r.Panic != nil {
		return fmt.Sprintf("PANIC %v", r.Panic)
	}
	if r.Err != nil {
		return "ERR " + sqlErrClass(r.Err)
	}
	return "ok"
}

func c09ArriveBodies(h c09Holder, a c09Arriver) func(dir string) []func(*fsx.Proc) {
	return func(dir string) []func(*fsx.Proc) {
		holding := false // per execution; true from the end of the holder's first part until its second part has returned
		henv := drv.New(dir)
		holder := func(p *fsx.Proc) {
			r := henv.Exec(h.first)
			if res := c09SQLRes(r); res != "ok" {
				p.Obs("HOLD-fail " + res)
				henv.Close()
				p.Obs("closed")
				return
			}
			holding = true
			p.Obs("holding")
			p.Yield("holding")
			henv.Tx.AutoCommit = true
			r = henv.Exec(h.rest)
			holding = false
			p.Obs("END " + c09SQLRes(r))
			henv.Close()
			p.Obs("closed")
		}
		var arriver func(p *fsx.Proc)
		if a.sql == "" {
			arriver = func(p *fsx.Proc) {
				p.Obs(fmt.Sprintf("start held=%v", holding))
				c := file.NewContainer()
				hd, err := c.CreateHandlerForRead(context.Background(), filepath.Join(p.Dir, "t.csv"), c09Timeout, c09Retry)
				if err != nil {
					p.Obs("R-fail " + errClass(err))
					return
				}
				p.Obs(fmt.Sprintf("R-read %q", readAll(hd.File())))
				p.Yield("reading")
				err = c.Close(hd)
				p.Obs("R-exit " + errClass(err))
			}
		} else {
			aenv := drv.New(dir)
			aenv.Tx.AutoCommit = true
			arriver = func(p *fsx.Proc) {
				p.Obs(fmt.Sprintf("start held=%v", holding))
				r := aenv.Exec(a.sql)
				var vals []string
				for _, v := range r.Views {
					vals = append(vals, drv.RowsKey(drv.Rows(v)))
				}
				p.Obs(fmt.Sprintf("SQL %q views=%v -> %s", a.sql, vals, c09SQLRes(r)))
				aenv.Close()
				p.Obs("closed")
			}
		}
		return []func(*fsx.Proc){holder, arriver}
	}
}

func c09ArriveOracle(h c09Holder, a c09Arriver) func(w *fsx.World) []fsx.Violation {
	return func(w *fsx.World) []fsx.Violation {
		var out []fsx.Violation
		p1, p2 := w.Procs[0], w.Procs[1]
		// a reader that has been granted the table and has not given it back read what the table file contains
		if l2 := p2.Log(); a.sql == "" && len(l2) > 0 && strings.HasPrefix(l2[len(l2)-1], "obs:R-read ") {
			content, _ := strconv.Unquote(strings.TrimPrefix(l2[len(l2)-1], "obs:R-read "))
			if disk := w.Files["t.csv"]; disk != content {
				out = append(out, fsx.Violation{Sig: "arrive:I3:granted-reader-read-other-than-the-table-contains", Msg: fmt.Sprintf("%s holds the read lock of t.csv and read %q from its handler; the table file contains %q", p2.Name, content, disk)})
			}
		}
		if !w.Final {
			return out
		}
		// the holder
		committed := c09ArriveInit // what the holder's transaction left
		holderKnown := false
		for _, l := range p1.Log() {
			switch {
			case l == "obs:END ok":
				committed, holderKnown = c09ArriveInit+h.incs, true
			case strings.HasPrefix(l, "obs:HOLD-fail "):
				holderKnown = true
				if !strings.HasPrefix(l, "obs:HOLD-fail ERR lock-timeout") {
					out = append(out, fsx.Violation{Sig: "unexpected-error-or-panic", Msg: p1.Name + ": " + l})
				}
			case strings.HasPrefix(l, "obs:END "):
				out = append(out, fsx.Violation{Sig: "unexpected-error-or-panic", Msg: p1.Name + " (holds the table, second part " + h.rest + "): " + l})
			}
		}
		holderOK := p1.HasObs("END ok")
		// the arriver
		held := p2.HasObs("start held=true")
		var reads []int
		arriverOK, arriverInc := false, 0
		for _, l := range p2.Log() {
			switch {
			case strings.HasPrefix(l, "obs:R-read "):
				content, _ := strconv.Unquote(strings.TrimPrefix(l, "obs:R-read "))
				k, ok := parseN(content)
				if !ok {
					out = append(out, fsx.Violation{Sig: "I3:read-of-incomplete-content", Msg: p2.Name + ": " + l})
					continue
				}
				reads = append(reads, k)
			case l == "obs:R-exit ok":
				arriverOK = true
			case strings.HasPrefix(l, "obs:R-exit "), strings.HasPrefix(l, "obs:R-fail ") && !strings.Contains(l, "TimeoutError"):
				out = append(out, fsx.Violation{Sig: "unexpected-error-or-panic", Msg: p2.Name + ": " + l})
			case strings.HasPrefix(l, "obs:SQL "):
				res := l[strings.LastIndex(l, "-> ")+3:]
				if res == "ok" {
					arriverOK, arriverInc = true, a.incs
				} else if !strings.HasPrefix(res, "ERR lock-timeout") {
					out = append(out, fsx.Violation{Sig: "unexpected-error-or-panic", Msg: p2.Name + ": " + l})
				}
				for _, m := range reSelVal.FindAllStringSubmatch(l[strings.Index(l, " views="):], -1) {
					k, _ := strconv.Atoi(m[1])
					reads = append(reads, k)
				}
			}
		}
		for _, k := range reads {
			if k != c09ArriveInit && !(holderOK && k == committed) {
				out = append(out, fsx.Violation{Sig: "I3:reader-saw-impossible-value", Msg: fmt.Sprintf("%s returned %d; the committed values are %d and, once the holder has committed, %d", p2.Name, k, c09ArriveInit, c09ArriveInit+h.incs)})
			} else if held && holderOK && arriverOK && k != committed {
				out = append(out, fsx.Violation{Sig: "arrive:I3:read-the-state-from-before-the-end-of-the-hold", Msg: fmt.Sprintf("%s began while %s held t for update (%s completed, transaction open) and ended well, so it read after that transaction had ended (%s): it returned %d, the transaction left %d",
					p2.Name, p1.Name, h.first, h.rest, k, committed)})
			}
		}
		if holderKnown {
			want := committed + arriverInc
			if n, ok := parseN(w.Files["t.csv"]); !ok || n != want {
				out = append(out, fsx.Violation{Sig: "I2:lost-update", Msg: fmt.Sprintf("t.csv ends as %q; the holder left %d and the arriver committed %d increments", w.Files["t.csv"], committed, arriverInc)})
			}
		}
		out = append(out, c09Leftover(w)...)
		for _, p := range w.Procs {
			if !p.Done() {
				out = append(out, fsx.Violation{Sig: "I5:process-never-ends", Msg: p.Name + " is not finished in a terminal state"})
			}
		}
		return out
	}
}
