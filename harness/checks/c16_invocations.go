package checks

import (
	"encoding/json"
	"fmt"
	"strings"

	"verif/harness/internal/core"
	"verif/harness/internal/drv"
)

// Extra family for C16: one cursor name per function invocation. A recursive function declares and opens a cursor c
// over rows computed from its parameter, optionally fetches once, calls itself, and then walks the cursor in a loop
// that is left by RETURN, BREAK or after CONTINUEs (four loop forms) at a chosen row; a cursor c of the top level is
// fetched before, between and after two calls. Every invocation must walk its own snapshot from its own position,
// and the top-level cursor must keep its position.
func init() {
	core.Extend("C16", "family invocations: recursion depth 1-3 x fetch before / after the recursive call x 4 loop forms (IS IN RANGE loop left by RETURN, WHILE IN left by RETURN, WHILE TRUE left by BREAK then CLOSE, WHILE IN with CONTINUE) "+
		"x exit row 0-2, each function called twice with a top-level cursor of the same name fetched around the calls; oracle: the function written out in Go", c16InvocationsRun)
}

type c16InvCase struct {
	Family     string `json:"family"`
	Depth      int    `json:"depth"`
	FetchFirst bool   `json:"fetch_first"`
	Loop       int    `json:"loop"`
	Target     int    `json:"target"`
}

func (k c16InvCase) sql() string {
	var sb strings.Builder
	target := map[int]string{0: "@n", 1: "@n * 10", 2: "@n * 100"}[k.Target]
	sb.WriteString("DECLARE nest FUNCTION (@n) AS BEGIN\n")
	sb.WriteString("  DECLARE c CURSOR FOR SELECT @n UNION ALL SELECT @n * 10 UNION ALL SELECT @n * 100;\n  OPEN c; VAR @v; VAR @r := '';\n")
	rec := "  IF @n > 1 THEN @r := nest(@n - 1); END IF;\n"
	if k.FetchFirst {
		sb.WriteString("  FETCH c INTO @v;\n" + rec)
	} else {
		sb.WriteString(rec)
	}
	switch k.Loop {
	case 0:
		sb.WriteString("  FETCH c INTO @v;\n  WHILE CURSOR c IS IN RANGE DO\n    IF @v >= " + target + " THEN RETURN @r || '|' || @v; END IF;\n    FETCH c INTO @v;\n  END WHILE;\n  RETURN @r || '|none';\n")
	case 1:
		sb.WriteString("  WHILE @v IN c DO\n    IF @v >= " + target + " THEN RETURN @r || '|' || @v; END IF;\n  END WHILE;\n  RETURN @r || '|none';\n")
	case 2:
		sb.WriteString("  WHILE TRUE DO\n    FETCH c INTO @v;\n    IF @v >= " + target + " THEN BREAK; END IF;\n  END WHILE;\n  CLOSE c;\n  RETURN @r || '|' || @v;\n")
	case 3:
		sb.WriteString("  WHILE @v IN c DO\n    IF @v < " + target + " THEN CONTINUE; END IF;\n    RETURN @r || '|' || @v;\n  END WHILE;\n  RETURN @r || '|none';\n")
	}
	sb.WriteString("END;\n")
	sb.WriteString("DECLARE c CURSOR FOR SELECT 7 UNION ALL SELECT 8 UNION ALL SELECT 9; OPEN c; VAR @t;\n")
	sb.WriteString(fmt.Sprintf("FETCH c INTO @t; PRINT @t;\nPRINT nest(%d);\nFETCH c INTO @t; PRINT @t;\nPRINT nest(%d);\nFETCH c INTO @t; PRINT @t;\nPRINT CURSOR c COUNT;\nPRINT CURSOR c IS IN RANGE;\n", k.Depth, k.Depth))
	return sb.String()
}

func (k c16InvCase) nest(n int) string {
	r := ""
	if n > 1 {
		r = k.nest(n - 1)
	}
	rows := []int{n, n * 10, n * 100}
	start := 0
	if k.FetchFirst {
		start = 1
	}
	for _, v := range rows[start:] {
		if v >= rows[k.Target] {
			return fmt.Sprintf("%s|%d", r, v)
		}
	}
	return r + "|none"
}

func (k c16InvCase) want() []string {
	f := k.nest(k.Depth)
	return []string{"7", f, "8", f, "9", "3", "TRUE"}
}

func c16InvOne(c *core.Ctx, dir string, k c16InvCase) {
	env := drv.NewText(dir)
	env.Tx.Flags.SetQuiet(true)
	sql := k.sql()
	r := env.Exec(sql)
	env.Close()
	var got []string
	for _, l := range strings.Split(strings.TrimSpace(r.Out), "\n") {
		got = append(got, strings.Trim(strings.TrimSpace(l), "'"))
	}
	want := k.want()
	c.Eval(fmt.Sprintf("invocations|%d|%v|%d|%d", k.Depth, k.FetchFirst, k.Loop, k.Target), k.Depth > 1)
	c.Add("transitions", int64(7+k.Depth*6))
	loop := []string{"in-range-loop+RETURN", "WHILE-IN+RETURN", "WHILE-TRUE+BREAK+CLOSE", "WHILE-IN+CONTINUE"}[k.Loop]
	if r.Err != nil || r.Panic != nil || strings.Join(got, "\n") != strings.Join(want, "\n") {
		c.Violate("invocations:"+loop, fmt.Sprintf("recursion depth %d, fetch before the recursive call: %v, exit at row %d: csvq prints %q (err=%v panic=%v); the function written out gives %q\n%s", k.Depth, k.FetchFirst, k.Target, got, r.Err, r.Panic, want, sql), k)
	}
	for _, d := range poolDoubleReleases() {
		c.Violate("invocations:scope-released-twice:"+loop, fmt.Sprintf("a block scope was put into its pool while it was already there (%s)\n%s", d, sql), k)
	}
}

func c16InvocationsRun(c *core.Ctx) {
	poolTrack(true)
	defer poolTrack(false)
	dir := core.Scratch("c16inv")
	var idx int64
	for depth := 1; depth <= 3; depth++ {
		for _, ff := range []bool{false, true} {
			for loop := 0; loop < 4; loop++ {
				for target := 0; target < 3; target++ {
					idx++
					if !c.Mine(idx) {
						continue
					}
					k := c16InvCase{Family: "invocations", Depth: depth, FetchFirst: ff, Loop: loop, Target: target}
					c16InvOne(c, dir, k)
					if c.WantSample() && depth == 3 {
						c.Sample(map[string]any{"family": "invocations", "program": k.sql(), "expected_output": k.want()})
					}
				}
			}
		}
	}
}

func c16InvocationsReplay(c *core.Ctx, payload json.RawMessage) bool {
	var k c16InvCase
	if json.Unmarshal(payload, &k) != nil || k.Family != "invocations" {
		return false
	}
	fmt.Printf("replaying family invocations: %+v\n", k)
	c16InvOne(c, core.Scratch("c16inv-replay"), k)
	return true
}
