//go:build verifx

package checks

import (
	"fmt"
	"runtime"
	"strings"

	"verif/harness/internal/core"
	"verif/harness/internal/procx"
)

// Family held-file (C12): a file that the transaction already HOLDS - an earlier statement of the same program locked
// it (SELECT ... FOR UPDATE, UPDATE, INSERT, DELETE), so the transaction keeps ONE open handle of it until it ends -
// is read again as an inline table (which the manual describes as "not cached": it is read from the file every time)
// by an expression that is evaluated once per record, i.e. by several workers at the same time. Family first-touch
// reaches inline tables only on files nobody holds, where every reader opens the file for itself; here all readers
// go through the one handle of the transaction and its one file offset.
//
// Enumerated: every inline notation of the manual that names a file (CSV_INLINE, JSON_INLINE, JSON_TABLE, INLINE::(),
// a format-specified function over INLINE::(), a file: URL) over the formats CSV, TSV, JSON and LTSV (9 readers) x the
// way the file came to be held (4) x the per-record place (subquery in the select list, in WHERE, user-function body).
// Quick tier: all reader x hold pairs in the select list and all reader x place pairs under FOR UPDATE (54 programs);
// thorough: the full product (108). The held file is larger than one read buffer (about 10 KB; JSON 3 KB), the outer
// table has 400 records, the programs run through the real command line (the split threshold of 80 records per
// worker is the real one): --cpu 1 is the reference, --cpu 2 and 4 are run once each (thorough: six times each).
// Reading a file has no scheduling point inside, so this is detection by real overlap as in part 2 of first-touch:
// a run that shows no difference proves nothing about the schedules it did not take.
// Oracle: the property - exit code, result, messages and file bytes equal to the --cpu 1 run.
func init() {
	c12GeneratedFiles["held-file"] = c12HeldFiles
	core.Extend("C12", "family held-file: a file the transaction holds (locked by an earlier SELECT FOR UPDATE / UPDATE / INSERT / DELETE of the program) read again as an inline table "+
		"(CSV_INLINE, JSON_INLINE, JSON_TABLE, INLINE::(), CSV/JSON/LTSV over INLINE::(), file: URL; CSV, TSV, JSON, LTSV: 9 readers) inside per-record evaluation (select list, WHERE, user-function body) over 400 records; "+
		"all reader x hold pairs in the select list and all reader x place pairs under FOR UPDATE (thorough: the full product); real command line, --cpu 1 against --cpu 2 and 4, 1 run each (thorough 6); "+
		"oracle: exit code, result, messages and file bytes equal to the --cpu 1 run", c12HeldFileRun)
}

const (
	c12HeldOuter = 400 // records of the outer table: five workers' worth at the real threshold
	c12HeldLines = 300 // records of the held text files (about 10 KB: several read buffers)
	c12HeldJSON  = 60  // records of the held JSON file (parsing JSON costs about eight times as much per record)
	c12HeldKeys  = 10  // the records of the outer table look up a mod 10
)

func c12HeldFiles() map[string]string {
	cell := func(i int) string { return fmt.Sprintf("padding-text-of-some-length-x%d", i) }
	var js, lt, ts strings.Builder
	js.WriteString("[")
	for i := 0; i < c12HeldJSON; i++ {
		if i > 0 {
			js.WriteString(",")
		}
		fmt.Fprintf(&js, "{\"k\":%d,\"p\":%q}", i%c12HeldKeys, cell(i))
	}
	js.WriteString("]")
	ts.WriteString("k\tp\n")
	for i := 0; i < c12HeldLines; i++ {
		fmt.Fprintf(&lt, "k:%d\tp:%s\n", i%c12HeldKeys, cell(i))
		fmt.Fprintf(&ts, "%d\t%s\n", i%c12HeldKeys, cell(i))
	}
	return map[string]string{
		"t.csv":  csvTable("a", c12HeldOuter, func(i int) string { return fmt.Sprintf("%d", i+1) }),
		"f.csv":  csvTable("k,p", c12HeldLines, func(i int) string { return fmt.Sprintf("%d,%s", i%c12HeldKeys, cell(i)) }),
		"f.tsv":  ts.String(),
		"f.json": js.String(),
		"f.ltsv": lt.String(),
	}
}

type c12HeldReader struct {
	Name  string // part of the signature
	File  string // the file it reads, which the hold statement locks
	Table string // the table expression (the alias i is added by the program)
	Each  int    // records of the file per key
}

func c12HeldReaders() []c12HeldReader {
	txt, jsn := c12HeldLines/c12HeldKeys, c12HeldJSON/c12HeldKeys
	return []c12HeldReader{
		{"CSV_INLINE", "f.csv", "CSV_INLINE(',', `f.csv`)", txt},
		{"INLINE-csv", "f.csv", "INLINE::('f.csv')", txt},
		{"CSV-over-INLINE", "f.csv", "CSV(',', INLINE::('f.csv'))", txt},
		{"file-url", "f.csv", "file:./f.csv", txt},
		{"INLINE-tsv", "f.tsv", "INLINE::('f.tsv')", txt},
		{"JSON_INLINE", "f.json", "JSON_INLINE('', `f.json`)", jsn},
		{"JSON_TABLE", "f.json", "JSON_TABLE('', `f.json`)", jsn},
		{"JSON-over-INLINE", "f.json", "JSON('', INLINE::('f.json'))", jsn},
		{"LTSV-over-INLINE", "f.ltsv", "LTSV(INLINE::('f.ltsv'))", txt},
	}
}

// the ways a file comes to be held by the transaction; %s is the file name
var c12HeldHolds = []struct{ Name, SQL string }{
	{"for-update", "SELECT COUNT(*) FROM `%s` FOR UPDATE;"},
	{"update", "UPDATE `%s` SET p = 'y' WHERE k = 3;"},
	{"insert", "INSERT INTO `%s` VALUES (1, 'new');"},
	{"delete", "DELETE FROM `%s` WHERE k = 7;"},
}

var c12HeldPlaces = []struct {
	Name string
	SQL  func(r c12HeldReader) string
}{
	{"select-list", func(r c12HeldReader) string {
		return fmt.Sprintf("SELECT a, (SELECT COUNT(*) FROM %s i WHERE i.k = a %% %d) AS c FROM t;", r.Table, c12HeldKeys)
	}},
	{"where", func(r c12HeldReader) string {
		return fmt.Sprintf("SELECT a FROM t WHERE (SELECT COUNT(*) FROM %s i WHERE i.k = a %% %d) = %d;", r.Table, c12HeldKeys, r.Each)
	}},
	{"function-body", func(r c12HeldReader) string {
		return fmt.Sprintf("DECLARE cnt FUNCTION (@a) AS BEGIN RETURN (SELECT COUNT(*) FROM %s i WHERE i.k = @a %% %d); END; SELECT a, cnt(a) FROM t;", r.Table, c12HeldKeys)
	}},
}

func c12HeldFileRun(c *core.Ctx) {
	if !c12FamilyOnly("held-file") {
		return
	}
	if procx.Binary() == "" || runtime.NumCPU() < 2 {
		c.Incomplete("family held-file: needs the csvq-verif binary and at least 2 cores")
		return
	}
	runs := 1
	if c.Thorough() {
		runs = 6
	}
	files := c12HeldFiles()
	var idx int64
	for _, r := range c12HeldReaders() {
		for hi, h := range c12HeldHolds {
			for pi, p := range c12HeldPlaces {
				if !c.Thorough() && hi != 0 && pi != 0 {
					continue
				}
				idx++
				if !c.Mine(idx) {
					continue
				}
				if c.Expired() {
					c.Incomplete("family held-file: time budget reached")
					return
				}
				sc := goxScenario{Name: "held-file:" + h.Name + "/" + p.Name + "/" + r.Name, Files: files, SQL: fmt.Sprintf(h.SQL, r.File) + " " + p.SQL(r), CPU: 4}
				c12ThreadsScenario(c, "held-file", h.Name+"/"+r.Name, sc, runs)
				c.Observe("held_file_readers", r.Name)
				c.Observe("held_file_holds", h.Name)
				c.Observe("held_file_places", p.Name)
				if c.WantSample() {
					c.Sample(map[string]any{"family": "held-file", "scenario": sc.Name, "sql": sc.SQL, "outer_records": c12HeldOuter, "runs_per_cpu": runs})
				}
			}
		}
	}
}
