package checks

// C19, parts (b) and (c): every built-in function x boundary argument tuples; boundary arguments to every
// clause and statement.

import (
	"fmt"
	"os"
	"path/filepath"
	"regexp"
	"sort"
	"strconv"
	"strings"
	"time"

	"github.com/mithrandie/csvq/lib/parser"
	"github.com/mithrandie/csvq/lib/query"

	"verif/harness/internal/c19ref"
)

// the table every function and clause case reads (unquoted empty fields load as NULL)
const c19TableT = "c1,c2,c3\n1,a,x\n2,,x\n-3,é,y\n,abc,\n2.5,1,y\n"

func (r *c19Runner) ensureT() {
	for name, content := range map[string]string{"t.csv": c19TableT, "e.csv": "c1,c2,c3\n", "z.csv": "", "ea.json": "[]\n", "eo.json": "[{}]\n", "nl.csv": "\n"} {
		p := filepath.Join(r.dir, name)
		if b, err := os.ReadFile(p); err != nil || string(b) != content {
			if err := os.WriteFile(p, []byte(content), 0644); err != nil {
				panic(err)
			}
		}
	}
}

// ---- function catalogue: manual headings, cross-checked against the tables csvq dispatches on ---------

func c19Catalogue(c interface{ Info(string, any) }) []c19ref.Fn {
	fns := append([]c19ref.Fn{}, c19ref.Functions...)
	have := map[string]bool{}
	for _, f := range fns {
		have[fmt.Sprint(f.Kind)+f.Name] = true
	}
	var extra []string
	addMissing := func(kind c19ref.FnKind, names []string) {
		sort.Strings(names)
		for _, n := range names {
			if !have[fmt.Sprint(kind)+n] {
				have[fmt.Sprint(kind)+n] = true
				fns = append(fns, c19ref.Fn{Name: n, Kind: kind})
				extra = append(extra, n)
			}
		}
	}
	var sc, ag, an []string
	for n := range query.Functions {
		sc = append(sc, n)
	}
	for n := range query.AggregateFunctions {
		ag = append(ag, n)
	}
	for n := range query.AnalyticFunctions {
		an = append(an, n)
	}
	addMissing(c19ref.Scalar, sc)
	addMissing(c19ref.Aggregate, ag)
	addMissing(c19ref.Analytic, an)
	c.Info("functions_in_catalogue", len(fns))
	if len(extra) > 0 {
		c.Info("functions_dispatched_but_without_manual_heading", strings.Join(extra, " "))
	}
	return fns
}

// ---- forms -----------------------------------------------------------------------------------------

type c19Form struct {
	id   string
	sql  string // %F = function name, @a0.. = arguments
	nvar int
}

func c19ScalarForm(arity int) c19Form {
	args := make([]string, arity)
	for i := range args {
		args[i] = "@a" + strconv.Itoa(i)
	}
	return c19Form{id: "scalar" + strconv.Itoa(arity), sql: "SELECT %F(" + strings.Join(args, ", ") + ")", nvar: arity}
}

var c19AggForms = []c19Form{
	{"agg()", "SELECT %F() FROM t", 0},
	{"agg(*)", "SELECT %F(*) FROM t", 0},
	{"agg(cols)", "SELECT %F(c1), %F(c2), %F(c3), %F(DISTINCT c3) FROM t", 0},
	{"agg-group", "SELECT c3, %F(c2), %F(c1) FROM t GROUP BY c3", 0},
	{"agg-empty", "SELECT %F(c1), %F(DISTINCT c2) FROM t WHERE FALSE", 0},
	{"agg-nested", "SELECT %F(%F(c1)) FROM t", 0},
	{"agg-where", "SELECT c1 FROM t WHERE %F(c1) > 0", 0},
	{"agg(v)", "SELECT %F(@a0) FROM t", 1},
	{"agg(distinct v)", "SELECT %F(DISTINCT @a0) FROM t", 1},
	{"agg(col,v)", "SELECT %F(c2, @a0) FROM t", 1},
	{"agg(col,v)-within", "SELECT %F(c2, @a0) WITHIN GROUP (ORDER BY c1 DESC) FROM t", 1},
	{"agg-having", "SELECT c3 FROM t GROUP BY c3 HAVING %F(c1) > @a0", 1},
	{"agg(v)-dual", "SELECT %F(@a0)", 1},
	{"agg(v,v)", "SELECT %F(@a0, @a1) FROM t", 2},
	{"agg(col,v,v)", "SELECT %F(c2, @a0, @a1) FROM t", 2},
}

var c19AnalyticForms = []c19Form{
	{"over()", "SELECT %F() OVER () FROM t", 0},
	{"over(p,o)", "SELECT %F() OVER (PARTITION BY c3 ORDER BY c1) FROM t", 0},
	{"over(*)", "SELECT %F(*) OVER (ORDER BY c1) FROM t", 0},
	{"over-col", "SELECT %F(c2) OVER (ORDER BY c1 DESC NULLS FIRST), %F(c1) OVER (PARTITION BY c3) FROM t", 0},
	{"over-col-ignore-nulls", "SELECT %F(c2) IGNORE NULLS OVER (ORDER BY c1) FROM t", 0},
	{"over-distinct", "SELECT %F(DISTINCT c2) OVER () FROM t", 0},
	{"over-frame", "SELECT %F(c1) OVER (ORDER BY c1 ROWS BETWEEN 1 PRECEDING AND 1 FOLLOWING) FROM t", 0},
	{"over-in-where", "SELECT c1 FROM t WHERE %F(c1) OVER () > 0", 0},
	{"over-empty", "SELECT %F(c1) OVER (PARTITION BY c3 ORDER BY c1) FROM t WHERE FALSE", 0},
	{"over(v)", "SELECT %F(@a0) OVER (PARTITION BY c3 ORDER BY c1) FROM t", 1},
	{"over(col,v)", "SELECT %F(c2, @a0) OVER (PARTITION BY c3 ORDER BY c1) FROM t", 1},
	{"over(col,v)-ignore-nulls", "SELECT %F(c2, @a0) IGNORE NULLS OVER (ORDER BY c1) FROM t", 1},
	{"over-partition-v", "SELECT %F(c1) OVER (PARTITION BY @a0 ORDER BY @a0) FROM t", 1},
	{"over(v,v)", "SELECT %F(@a0, @a1) OVER (ORDER BY c1) FROM t", 2},
	{"over(col,v,v)", "SELECT %F(c2, @a0, @a1) OVER (PARTITION BY c3 ORDER BY c1) FROM t", 2},
	{"over(col,v,v)-frame", "SELECT %F(c2, @a0, @a1) OVER (ORDER BY c1 ROWS 1 PRECEDING) FROM t", 2},
}

func c19FormByID(id string) (c19Form, bool) {
	if strings.HasPrefix(id, "scalar") {
		n, err := strconv.Atoi(id[len("scalar"):])
		if err == nil && n >= 0 && n <= 8 {
			return c19ScalarForm(n), true
		}
	}
	for _, f := range c19AggForms {
		if f.id == id {
			return f, true
		}
	}
	for _, f := range c19AnalyticForms {
		if f.id == id {
			return f, true
		}
	}
	return c19Form{}, false
}

// tolerant parse: a form that the grammar does not accept for a function is simply not applicable
func (r *c19Runner) parseMaybe(key, sql string) ([]parser.Statement, error) {
	if st, ok := r.stmts[key]; ok {
		if st == nil {
			return nil, fmt.Errorf("not applicable")
		}
		return st, nil
	}
	st, _, err := parser.Parse(sql, "", false, false)
	if err != nil {
		r.stmts[key] = nil
		return nil, err
	}
	r.stmts[key] = st
	return st, nil
}

func (r *c19Runner) execFn(cs *c19Case) {
	c := r.c
	form, ok := c19FormByID(cs.Form)
	if !ok {
		fmt.Fprintln(os.Stderr, "C19: unknown form", cs.Form)
		return
	}
	r.ensureT()
	sql := strings.ReplaceAll(form.sql, "%F", cs.Fn)
	st, perr := r.parseMaybe("fn:"+cs.Form+":"+cs.Fn, sql)
	if perr != nil {
		c.Add("function_forms_not_in_grammar", 1)
		r.evalN(1, 0)
		if r.verbose {
			fmt.Printf("  %s: not accepted by the grammar: %v\n", sql, perr)
		}
		return
	}
	if !r.setArgs("a", cs.Args) {
		return
	}
	views, err, pnc := r.run(st)
	out := r.judge(cs, "call", err, pnc, false)
	nt := int64(0)
	if err == nil && pnc == nil {
		nt = 1
		for _, v := range views {
			for i, rec := range v.RecordSet {
				if len(rec) != len(v.Header) {
					c.Violate("ragged:"+cs.class()+":result", fmt.Sprintf("result record %d has %d fields, header %d; case %s", i, len(rec), len(v.Header), c19JSON(cs)), cs)
					break
				}
			}
		}
	} else if out != "E"+strconv.Itoa(query.ErrorFunctionArgumentsLength) && out != "E"+strconv.Itoa(query.ErrorFunctionNotExist) && out != "panic" && out != "fatal" {
		nt = 1
	}
	c.Observe("function_outcomes", out)
	r.evalN(1, nt)
	if r.verbose {
		fmt.Printf("  %s with %v: err=%v panic=%v", sql, cs.Args, err, pnc)
		for _, v := range views {
			fmt.Printf(" result=%d records", len(v.RecordSet))
		}
		fmt.Println()
	}
	if nt == 1 && err == nil && r.wantSample() && len(cs.Args) >= 2 && cs.Args[0] != "NULL" && cs.Args[1] != "NULL" && len(views) == 1 && len(views[0].RecordSet) > 0 {
		r.sample(map[string]any{"family": "fn", "sql": sql, "args": cs.Args, "result": views[0].RecordSet[0][0][0].String()})
	}
}

// tuples enumerates alphabet^arity, skipping tuples that put a huge integer at an allocation position.
func (r *c19Runner) fnTuples(fn c19ref.Fn, form c19Form, al []c19ref.Val) {
	n := form.nvar
	idx := make([]int, n)
	names := make([]string, n)
	for {
		skip := false
		for _, p := range fn.AllocArgs {
			if p < n && al[idx[p]].Kind == 'i' && al[idx[p]].Huge {
				skip = true
			}
		}
		if skip {
			r.c.Add("tuples_skipped_huge_length_argument", 1)
		} else {
			for i := range idx {
				names[i] = al[idx[i]].Name
			}
			cs := c19Case{Fam: "fn", Fn: fn.Name, Form: form.id, Args: append([]string(nil), names...)}
			if r.step(&cs) {
				r.exec(&cs)
			}
		}
		k := n - 1
		for k >= 0 {
			idx[k]++
			if idx[k] < len(al) {
				break
			}
			idx[k] = 0
			k--
		}
		if k < 0 {
			return
		}
	}
}

func c19EnumScalar(r *c19Runner) {
	th := r.c.Thorough()
	fns := c19Catalogue(r.c)
	a3, a4, a5 := c19ref.Alpha3Quick, c19ref.Alpha4Quick, c19ref.Alpha5Quick
	if th {
		a3, a4, a5 = c19ref.Alpha3Thorough, c19ref.Alpha4Thorough, c19ref.Alpha5Thorough
	}
	r.c.Info("argument_alphabet_size", len(c19ref.Alphabet))
	r.c.Info("argument_alphabet_arity3_4_5", fmt.Sprintf("%d/%d/%d", len(a3), len(a4), len(a5)))
	alphabets := [][]c19ref.Val{nil, c19ref.Alphabet, c19ref.Alphabet, a3, a4, a5}
	unit := int64(0)
	nfn := 0
	for _, fn := range fns {
		if fn.Kind != c19ref.Scalar {
			continue
		}
		nfn++
		for arity := 0; arity <= 5; arity++ {
			// the work unit that is sharded: (function, arity, first argument)
			form := c19ScalarForm(arity)
			if arity == 0 {
				if r.c.Mine(unit) {
					cs := c19Case{Fam: "fn", Fn: fn.Name, Form: form.id}
					if r.step(&cs) {
						r.exec(&cs)
					}
				}
				unit++
				continue
			}
			al := alphabets[arity]
			if r.expired() {
				return
			}
			r.fnTuplesSharded(fn, form, al, &unit)
		}
	}
	r.c.Info("scalar_functions", nfn)
}

// fnTuplesSharded: like fnTuples for scalar forms, the first argument being the sharding unit.
func (r *c19Runner) fnTuplesSharded(fn c19ref.Fn, form c19Form, al []c19ref.Val, unit *int64) {
	n := form.nvar
	for first := range al {
		mine := r.c.Mine(*unit)
		*unit++
		if !mine {
			continue
		}
		idx := make([]int, n)
		idx[0] = first
		names := make([]string, n)
		for {
			skip := false
			for _, p := range fn.AllocArgs {
				if p < n && al[idx[p]].Kind == 'i' && al[idx[p]].Huge {
					skip = true
				}
			}
			if skip {
				r.c.Add("tuples_skipped_huge_length_argument", 1)
			} else {
				for i := range idx {
					names[i] = al[idx[i]].Name
				}
				cs := c19Case{Fam: "fn", Fn: fn.Name, Form: form.id, Args: append([]string(nil), names...)}
				if r.step(&cs) {
					r.exec(&cs)
				}
			}
			k := n - 1
			for k >= 1 {
				idx[k]++
				if idx[k] < len(al) {
					break
				}
				idx[k] = 0
				k--
			}
			if k < 1 {
				break
			}
		}
	}
}

func c19EnumSetFunctions(r *c19Runner) {
	th := r.c.Thorough()
	fns := c19Catalogue(r.c)
	a2 := c19ref.Alpha3Thorough
	if th {
		a2 = c19ref.Alphabet
	}
	unit := int64(0)
	for _, fn := range fns {
		var forms []c19Form
		switch fn.Kind {
		case c19ref.Aggregate:
			forms = c19AggForms
		case c19ref.Analytic:
			forms = c19AnalyticForms
		default:
			// scalar functions in aggregate / analytic position and vice versa: only the argument-free forms
			forms = []c19Form{c19AggForms[2], c19AnalyticForms[3]}
		}
		for _, form := range forms {
			mine := r.c.Mine(unit)
			unit++
			al := c19ref.Alphabet
			if form.nvar == 2 {
				al = a2
			}
			if !mine {
				continue
			}
			if r.expired() {
				return
			}
			if form.nvar == 0 {
				cs := c19Case{Fam: "fn", Fn: fn.Name, Form: form.id}
				if r.step(&cs) {
					r.exec(&cs)
				}
				continue
			}
			r.fnTuples(c19ref.Fn{Name: fn.Name, Kind: fn.Kind}, form, al)
		}
	}
}

// ---- clauses ---------------------------------------------------------------------------------------

type c19Tpl struct {
	id       string
	sql      string // $a, $b: variables @a0, @a1;  #a, #b: literal text substituted before parsing
	fresh    bool   // run on a fresh csvq process image (declares names / sets flags)
	rollback bool   // changes tables: rolled back afterwards
	userCode bool   // the return code is chosen by the program (TRIGGER ERROR, EXIT)
}

var c19Literals = []string{"0", "1", "2", "-1", "9223372036854775807", "9223372036854775808", "99999999999999999999999999", "1.5", "1e400", "'a'", "''", "NULL", "TRUE", "@a0"}

var c19Flags = []string{"REPOSITORY", "TIMEZONE", "DATETIME_FORMAT", "ANSI_QUOTES", "STRICT_EQUAL", "WAIT_TIMEOUT", "IMPORT_FORMAT", "DELIMITER", "ALLOW_UNEVEN_FIELDS", "DELIMITER_POSITIONS",
	"JSON_QUERY", "ENCODING", "NO_HEADER", "WITHOUT_NULL", "STRIP_ENDING_LINE_BREAK", "FORMAT", "WRITE_ENCODING", "WRITE_DELIMITER", "WRITE_DELIMITER_POSITIONS", "WITHOUT_HEADER", "LINE_BREAK",
	"ENCLOSE_ALL", "JSON_ESCAPE", "PRETTY_PRINT", "SCIENTIFIC_NOTATION", "EAST_ASIAN_ENCODING", "COUNT_DIACRITICAL_SIGN", "COUNT_FORMAT_CODE", "COLOR", "QUIET", "LIMIT_RECURSION", "CPU", "STATS", "NO_SUCH_FLAG"}

var c19TableAttrs = []string{"FORMAT", "DELIMITER", "DELIMITER_POSITIONS", "JSON_ESCAPE", "ENCODING", "LINE_BREAK", "HEADER", "ENCLOSE_ALL", "PRETTY_PRINT", "NO_SUCH_ATTRIBUTE"}

var c19Templates = func() []c19Tpl {
	t := []c19Tpl{
		// limit / offset
		{id: "limit", sql: "SELECT c1 FROM t LIMIT $a"},
		{id: "limit-rows-only", sql: "SELECT c1 FROM t LIMIT $a ROWS ONLY"},
		{id: "limit-with-ties", sql: "SELECT c1 FROM t ORDER BY c3 LIMIT $a WITH TIES"},
		{id: "limit-percent", sql: "SELECT c1 FROM t LIMIT $a PERCENT"},
		{id: "limit-percent-with-ties", sql: "SELECT c1 FROM t ORDER BY c3 LIMIT $a PERCENT WITH TIES"},
		{id: "limit-offset", sql: "SELECT c1 FROM t LIMIT $a OFFSET $b"},
		{id: "offset", sql: "SELECT c1 FROM t OFFSET $a ROWS"},
		{id: "offset-fetch", sql: "SELECT c1 FROM t ORDER BY c1 OFFSET $a ROWS FETCH NEXT $b ROWS ONLY"},
		{id: "fetch-percent-with-ties", sql: "SELECT c1 FROM t ORDER BY c3 FETCH FIRST $a PERCENT WITH TIES"},
		{id: "limit-in-subquery", sql: "SELECT (SELECT c1 FROM t ORDER BY c1 LIMIT $a OFFSET $b)"},
		{id: "limit-union", sql: "SELECT c1 FROM t UNION ALL SELECT c2 FROM t ORDER BY 1 LIMIT $a OFFSET $b"},
		// where / group / having / order / distinct
		{id: "where", sql: "SELECT c1 FROM t WHERE $a"},
		{id: "where-cmp", sql: "SELECT c1 FROM t WHERE c1 > $a AND c2 <= $b"},
		{id: "group-by", sql: "SELECT $a, COUNT(*) FROM t GROUP BY $a"},
		{id: "group-by-2", sql: "SELECT COUNT(*), MAX(c1) FROM t GROUP BY $a, c3, $b"},
		{id: "having", sql: "SELECT c3, COUNT(*) FROM t GROUP BY c3 HAVING $a"},
		{id: "having-no-group", sql: "SELECT COUNT(*) FROM t HAVING COUNT(*) > $a"},
		{id: "order-by", sql: "SELECT c1 FROM t ORDER BY $a"},
		{id: "order-by-2", sql: "SELECT c1 FROM t ORDER BY $a DESC NULLS LAST, $b ASC NULLS FIRST"},
		{id: "order-by-expr", sql: "SELECT c1 FROM t ORDER BY c1 + $a, c2 || $b"},
		{id: "distinct", sql: "SELECT DISTINCT $a, $b FROM t"},
		{id: "select-alias-dup", sql: "SELECT $a AS x, $b AS x FROM t ORDER BY x"},
		// predicates
		{id: "like", sql: "SELECT c1 FROM t WHERE c2 LIKE $a"},
		{id: "like-2", sql: "SELECT $a LIKE $b, $a NOT LIKE $b"},
		{id: "between", sql: "SELECT c1 FROM t WHERE c1 BETWEEN $a AND $b"},
		{id: "in-list", sql: "SELECT c1 FROM t WHERE c1 IN ($a, $b)"},
		{id: "row-in-list", sql: "SELECT c1 FROM t WHERE (c1, c2) IN (($a, $b), (1, 'a'))"},
		{id: "row-in-list-mismatch", sql: "SELECT c1 FROM t WHERE (c1, c2) IN (($a, $b, 1))"},
		{id: "row-eq", sql: "SELECT c1 FROM t WHERE (c1, c2) = ($a, $b)"},
		{id: "row-lt-mismatch", sql: "SELECT c1 FROM t WHERE (c1, c2, c3) < ($a, $b)"},
		{id: "row-between", sql: "SELECT (1, 2) BETWEEN ($a, $b) AND (3, 4)"},
		{id: "any-subquery", sql: "SELECT c1 FROM t WHERE c1 = ANY (SELECT $a)"},
		{id: "all-subquery", sql: "SELECT c1 FROM t WHERE c1 > ALL (SELECT c1 FROM t WHERE c1 > $a)"},
		{id: "row-any-subquery", sql: "SELECT c1 FROM t WHERE (c1, c2) = ANY (SELECT $a, $b)"},
		{id: "row-in-subquery-mismatch", sql: "SELECT c1 FROM t WHERE (c1, c2) IN (SELECT $a)"},
		{id: "in-subquery-too-many-fields", sql: "SELECT c1 FROM t WHERE c1 IN (SELECT $a, $b)"},
		{id: "exists", sql: "SELECT c1 FROM t WHERE EXISTS (SELECT 1 FROM t WHERE c1 = $a)"},
		{id: "scalar-subquery", sql: "SELECT (SELECT c1 FROM t WHERE c1 > $a)"},
		{id: "scalar-subquery-fields", sql: "SELECT (SELECT $a, $b)"},
		{id: "json-row", sql: "SELECT c1 FROM t WHERE (c1, c2) = JSON_ROW($a, $b)"},
		{id: "json-row-in", sql: "SELECT c1 FROM t WHERE (c1, c2) IN JSON_ROW($a, $b)"},
		{id: "case-simple", sql: "SELECT CASE $a WHEN $b THEN 1 ELSE 2 END"},
		{id: "case-searched", sql: "SELECT CASE WHEN $a THEN $b END"},
		{id: "concat", sql: "SELECT $a || $b"},
		{id: "arith", sql: "SELECT $a + $b, $a - $b, $a * $b"},
		{id: "div", sql: "SELECT $a / $b"},
		{id: "mod", sql: "SELECT $a % $b"},
		{id: "unary", sql: "SELECT -$a, +$a, NOT $a, !$b"},
		{id: "is", sql: "SELECT $a IS NULL, $a IS NOT TRUE, $b IS UNKNOWN"},
		{id: "field-number", sql: "SELECT t.#a FROM t"},
		{id: "order-by-number", sql: "SELECT c1, c2 FROM t ORDER BY #a"},
		// joins, set operators, CTE
		{id: "join-on", sql: "SELECT t.c1 FROM t JOIN t t2 ON t.c1 = $a"},
		{id: "left-join-on", sql: "SELECT * FROM t LEFT JOIN t t2 ON $a"},
		{id: "right-join-on", sql: "SELECT * FROM t RIGHT OUTER JOIN t t2 ON t.c1 = t2.c1 AND $a"},
		{id: "full-join-using", sql: "SELECT * FROM t FULL JOIN t t2 USING (c1) WHERE $a"},
		{id: "natural-join", sql: "SELECT * FROM t NATURAL JOIN t t2 LIMIT $a"},
		{id: "join-using-missing", sql: "SELECT * FROM t JOIN t t2 USING (c9)"},
		{id: "join-same-alias", sql: "SELECT * FROM t JOIN t ON TRUE"},
		{id: "cross-join-lateral", sql: "SELECT * FROM t CROSS JOIN LATERAL (SELECT $a AS k LIMIT $b) s"},
		{id: "left-join-lateral", sql: "SELECT * FROM t LEFT JOIN LATERAL (SELECT c1 FROM t t3 WHERE t3.c1 > t.c1 LIMIT $a) s ON $b"},
		// operands of different widths, rows without a partner on either side
		{id: "full-join-wider-right", sql: "SELECT * FROM (SELECT c1 FROM t) n FULL JOIN t t2 ON n.c1 = t2.c1 + 1 AND n.c1 <> $a"},
		{id: "full-join-narrower-right", sql: "SELECT * FROM t FULL JOIN (SELECT c1 FROM t) n ON t.c1 = n.c1 + 1 AND n.c1 <> $a"},
		{id: "full-join-empty-wider", sql: "SELECT * FROM (SELECT c2 FROM t) n FULL JOIN e ON n.c2 = e.c1 OR $a"},
		{id: "right-join-wider-right", sql: "SELECT * FROM (SELECT c1 FROM t) n RIGHT JOIN t t2 ON n.c1 = t2.c1 + 1 AND n.c1 <> $a"},
		{id: "left-join-narrower-right", sql: "SELECT * FROM t LEFT JOIN (SELECT c1 FROM t) n ON t.c1 = n.c1 + 1 AND n.c1 <> $a"},
		{id: "full-join-using-wider", sql: "SELECT * FROM (SELECT c1 FROM t WHERE c1 <> $a) n FULL JOIN t t2 USING (c1)"},
		{id: "natural-full-join-narrower", sql: "SELECT * FROM t NATURAL FULL JOIN (SELECT c1 + 1 AS c1 FROM t WHERE c1 <> $a) n"},
		{id: "cross-join-widths", sql: "SELECT * FROM (SELECT c1 FROM t LIMIT $a) n CROSS JOIN t t2"},
		{id: "union", sql: "SELECT c1 FROM t UNION SELECT $a"},
		{id: "union-field-mismatch", sql: "SELECT c1 FROM t UNION ALL SELECT $a, $b"},
		{id: "intersect", sql: "SELECT c1 FROM t INTERSECT SELECT $a"},
		{id: "except", sql: "SELECT c1, c2 FROM t EXCEPT ALL SELECT $a, $b"},
		{id: "recursive", sql: "WITH RECURSIVE r (n) AS (SELECT $a UNION ALL SELECT n + 1 FROM r WHERE n < $b) SELECT COUNT(*) FROM r"},
		{id: "cte-field-mismatch", sql: "WITH c (x) AS (SELECT $a, $b) SELECT * FROM c"},
		{id: "cte-duplicate", sql: "WITH c AS (SELECT $a), c AS (SELECT $b) SELECT * FROM c"},
		{id: "dual", sql: "SELECT $a, $b FROM DUAL"},
		{id: "stdin", sql: "SELECT * FROM STDIN"},
		// window frames (offsets are integer literals in the grammar)
		{id: "frame-rows-preceding", sql: "SELECT SUM(c1) OVER (ORDER BY c1 ROWS #a PRECEDING) FROM t"},
		{id: "frame-between", sql: "SELECT SUM(c1) OVER (ORDER BY c1 ROWS BETWEEN #a PRECEDING AND #b FOLLOWING) FROM t"},
		{id: "frame-between-reversed", sql: "SELECT LISTAGG(c2) OVER (ORDER BY c1 ROWS BETWEEN #a FOLLOWING AND #b PRECEDING) FROM t"},
		{id: "frame-following-following", sql: "SELECT FIRST_VALUE(c2) OVER (ORDER BY c1 ROWS BETWEEN #a FOLLOWING AND #b FOLLOWING) FROM t"},
		{id: "frame-without-order", sql: "SELECT SUM(c1) OVER (ROWS #a PRECEDING) FROM t"},
		// table objects
		{id: "tbl-csv", sql: "SELECT * FROM CSV($a, t, $b)"},
		{id: "tbl-csv-flags", sql: "SELECT * FROM CSV(',', t, 'UTF8', $a, $b)"},
		{id: "tbl-csv-too-many", sql: "SELECT * FROM CSV(',', t, 'UTF8', FALSE, FALSE, $a)"},
		{id: "tbl-fixed", sql: "SELECT * FROM FIXED($a, `t.csv`, $b)"},
		{id: "tbl-json", sql: "SELECT * FROM JSON($a, DATA::($b))"},
		{id: "tbl-jsonl", sql: "SELECT * FROM JSONL($a, DATA::($b))"},
		{id: "tbl-ltsv", sql: "SELECT * FROM LTSV(DATA::($a), $b)"},
		{id: "tbl-ltsv-flags", sql: "SELECT * FROM LTSV(DATA::('a:1\tb:2'), 'UTF8', $a, $b)"},
		{id: "tbl-csv-inline", sql: "SELECT * FROM CSV_INLINE($a, $b)"},
		{id: "tbl-json-inline", sql: "SELECT * FROM JSON_INLINE($a, $b)"},
		{id: "tbl-json-table", sql: "SELECT * FROM JSON_TABLE($a, $b)"},
		{id: "tbl-data", sql: "SELECT * FROM DATA::($a)"},
		{id: "tbl-file", sql: "SELECT * FROM FILE::($a)"},
		{id: "tbl-inline", sql: "SELECT * FROM INLINE::($a)"},
		// tables without any field: an empty file, an empty JSON array, an array of an empty object, every column dropped
		{id: "no-fields-count", sql: "SELECT COUNT(*) FROM z; SELECT COUNT(*) FROM ea; SELECT COUNT(*) FROM eo; SELECT COUNT(*) FROM nl"},
		{id: "no-fields-star", sql: "SELECT * FROM z; SELECT * FROM ea; SELECT * FROM eo; SELECT * FROM nl; SELECT $a FROM eo"},
		{id: "no-fields-clauses", sql: "SELECT $a FROM eo WHERE TRUE ORDER BY 1; SELECT DISTINCT $a FROM eo; SELECT MAX($a), LISTAGG($a) FROM eo GROUP BY $a; SELECT * FROM t CROSS JOIN eo; SELECT * FROM eo UNION SELECT * FROM ea"},
		{id: "no-fields-dml", sql: "INSERT INTO eo VALUES ($a); UPDATE eo SET x = $a; DELETE FROM eo; ALTER TABLE eo ADD x; SELECT * FROM eo", rollback: true},
		{id: "drop-all-columns", sql: "ALTER TABLE t DROP (c1, c2, c3); SELECT COUNT(*) FROM t; SELECT * FROM t; SELECT $a FROM t; INSERT INTO t VALUES ($a); ALTER TABLE t ADD x DEFAULT $a; SELECT * FROM t", rollback: true},
		// a data-changing statement inside a function that a data-changing statement evaluates
		{id: "nesteddml-in-update", sql: "DECLARE ins FUNCTION (@x) AS BEGIN INSERT INTO e VALUES (@x, 1, 1); RETURN @x; END; UPDATE t SET c2 = ins($a)", rollback: true},
		{id: "nesteddml-in-insert", sql: "DECLARE upd FUNCTION (@x) AS BEGIN UPDATE e SET c1 = @x; RETURN @x; END; INSERT INTO t VALUES (upd($a), 1, 1)", rollback: true},
		{id: "nesteddml-in-delete", sql: "DECLARE del FUNCTION (@x) AS BEGIN DELETE FROM e WHERE c1 = @x; RETURN TRUE; END; DELETE FROM t WHERE del($a)", rollback: true},
		{id: "nesteddml-in-select", sql: "DECLARE ins FUNCTION (@x) AS BEGIN INSERT INTO e VALUES (@x, 1, 1); RETURN @x; END; SELECT ins($a) FROM t", rollback: true},
		// names csvq uses internally, a key given twice
		{id: "internal-id-column", sql: "UPDATE t SET `@__internal_id` = $a; SELECT `@__internal_id` FROM t; DELETE FROM t WHERE `@__internal_id` = $a; ALTER TABLE t ADD `@__internal_id`; INSERT INTO t (`@__internal_id`) VALUES ($a)", rollback: true},
		{id: "replace-key-twice", sql: "REPLACE INTO t (c1) USING (c1, c1) VALUES ($a); REPLACE INTO t (c1, c2) USING (c1, c2, c1) VALUES ($a, $b); REPLACE INTO t (c1, c1) USING (c1) VALUES ($a, $b)", rollback: true},
		// the same file as a cached table and as an inline table in one transaction (read-only cache entry, held entry)
		{id: "inline-after-select", sql: "SELECT c1 FROM t WHERE c1 = $a; SELECT * FROM CSV_INLINE(',', `t.csv`); SELECT * FROM INLINE::('t.csv'); SELECT * FROM t"},
		{id: "inline-after-update", sql: "UPDATE t SET c2 = $a; SELECT * FROM CSV_INLINE(',', `t.csv`); SELECT * FROM t", rollback: true},
		{id: "select-after-inline", sql: "SELECT * FROM CSV_INLINE(',', `t.csv`) i JOIN t ON i.c1 = t.c1 WHERE t.c1 = $a"},
		{id: "tbl-url", sql: "SELECT * FROM URL::($a)"},
		{id: "tbl-fn-unknown", sql: "SELECT * FROM NOSUCH::($a)"},
		{id: "tbl-fn-args", sql: "SELECT * FROM DATA::($a, $b)"},
		{id: "tbl-alias-clash", sql: "SELECT * FROM DATA::($a) x, DATA::($b) x"},
		// DML (rolled back)
		{id: "insert-values", sql: "INSERT INTO t VALUES ($a, $b, 1)", rollback: true},
		{id: "insert-values-short", sql: "INSERT INTO t VALUES ($a)", rollback: true},
		{id: "insert-values-mixed", sql: "INSERT INTO t (c1) VALUES ($a), ($a, $b)", rollback: true},
		{id: "insert-fields-unknown", sql: "INSERT INTO t (c1, c9) VALUES ($a, $b)", rollback: true},
		{id: "insert-select-mismatch", sql: "INSERT INTO t SELECT $a, $b", rollback: true},
		{id: "insert-select", sql: "INSERT INTO t (c1, c2) SELECT $a, $b FROM t", rollback: true},
		{id: "update", sql: "UPDATE t SET c1 = $a WHERE c2 = $b", rollback: true},
		{id: "update-unknown-field", sql: "UPDATE t SET c9 = $a", rollback: true},
		{id: "update-twice", sql: "UPDATE t SET c1 = $a, c1 = $b", rollback: true},
		{id: "update-from", sql: "UPDATE t SET c1 = t2.c1 FROM t JOIN t t2 ON t2.c1 > $a", rollback: true},
		{id: "delete", sql: "DELETE FROM t WHERE $a", rollback: true},
		{id: "delete-join", sql: "DELETE t FROM t JOIN t t2 ON t.c1 = $a", rollback: true},
		{id: "delete-join-no-target", sql: "DELETE FROM t JOIN t t2 ON t.c1 = $a", rollback: true},
		{id: "replace", sql: "REPLACE INTO t (c1, c2) USING (c1) VALUES ($a, $b)", rollback: true},
		{id: "replace-unknown-key", sql: "REPLACE INTO t USING (c9) VALUES ($a, $b, 1)", rollback: true},
		{id: "replace-key-not-set", sql: "REPLACE INTO t (c2) USING (c1) VALUES ($a)", rollback: true},
		{id: "replace-select", sql: "REPLACE INTO t (c1, c2) USING (c1, c2) SELECT $a, $b", rollback: true},
		{id: "alter-add-default", sql: "ALTER TABLE t ADD nc DEFAULT $a", rollback: true},
		{id: "alter-add-after-unknown", sql: "ALTER TABLE t ADD (nc DEFAULT $a, nd) AFTER c9", rollback: true},
		{id: "alter-add-first", sql: "ALTER TABLE t ADD (nc DEFAULT $a + c1) FIRST", rollback: true},
		{id: "alter-add-existing", sql: "ALTER TABLE t ADD c1", rollback: true},
		{id: "alter-add-twice", sql: "ALTER TABLE t ADD (nc, nc)", rollback: true},
		{id: "alter-drop-unknown", sql: "ALTER TABLE t DROP c9", rollback: true},
		{id: "alter-drop-number", sql: "ALTER TABLE t DROP t.#a", rollback: true},
		{id: "alter-drop-all", sql: "ALTER TABLE t DROP (c1, c2, c3); SELECT * FROM t; INSERT INTO t VALUES ($a);", rollback: true},
		{id: "alter-rename", sql: "ALTER TABLE t RENAME c1 TO c2", rollback: true},
		{id: "alter-rename-number", sql: "ALTER TABLE t RENAME t.#a TO z", rollback: true},
		{id: "create-dup-fields", sql: "CREATE TABLE `n.csv` (a, a)", rollback: true},
		{id: "create-as-mismatch", sql: "CREATE TABLE `n.csv` (a) AS SELECT $a, $b", rollback: true},
		{id: "create-as", sql: "CREATE TABLE `n.csv` AS SELECT $a AS x, $b AS y; SELECT * FROM n; INSERT INTO n VALUES (1);", rollback: true},
		{id: "create-exists", sql: "CREATE TABLE `t.csv` (a)", rollback: true},
		{id: "create-if-not-exists", sql: "CREATE TABLE IF NOT EXISTS `t.csv` (a, b)", rollback: true},
		{id: "create-json", sql: "CREATE TABLE `n.json` (a, b); INSERT INTO `n.json` VALUES ($a, $b); SELECT * FROM `n.json`;", rollback: true},
		{id: "select-into-var", sql: "VAR @x, @y; SELECT c1, c2 INTO @x, @y FROM t WHERE c1 = $a;", fresh: true},
		{id: "select-into-var-mismatch", sql: "VAR @x; SELECT $a, $b INTO @x;", fresh: true},
		{id: "select-into-var-many", sql: "VAR @x; SELECT c1 INTO @x FROM t LIMIT $a;", fresh: true},
		// temporary tables, cursors, variables, functions, prepared statements (fresh process image each)
		{id: "temp-table", sql: "DECLARE tt VIEW (a, b); INSERT INTO tt VALUES ($a, $b); SELECT * FROM tt; DECLARE tt VIEW (a); DISPOSE VIEW tt; DISPOSE VIEW tt;", fresh: true},
		{id: "temp-table-as", sql: "DECLARE tt VIEW (a) AS SELECT $a, $b;", fresh: true},
		{id: "temp-table-as-2", sql: "DECLARE tt VIEW AS SELECT $a AS x, $b AS x; SELECT x FROM tt;", fresh: true},
		{id: "cursor-fetch", sql: "VAR @x, @y; DECLARE cur CURSOR FOR SELECT c1 FROM t; FETCH cur INTO @x; OPEN cur; FETCH ABSOLUTE $a cur INTO @x; FETCH RELATIVE $b cur INTO @x; " +
			"FETCH PRIOR cur INTO @x; FETCH LAST cur INTO @x; FETCH NEXT cur INTO @x; FETCH cur INTO @x, @y; SELECT CURSOR cur IS IN RANGE, CURSOR cur COUNT, CURSOR cur IS OPEN; CLOSE cur; CLOSE cur; DISPOSE CURSOR cur;", fresh: true},
		{id: "cursor-errors", sql: "DECLARE cur CURSOR FOR SELECT c1 FROM t LIMIT $a; OPEN cur; OPEN cur;", fresh: true},
		{id: "cursor-undeclared", sql: "VAR @x; FETCH ABSOLUTE $a nocur INTO @x;", fresh: true},
		{id: "cursor-prepared", sql: "VAR @x; PREPARE s FROM 'SELECT c1 FROM t WHERE c1 > ? LIMIT :n'; DECLARE cur CURSOR FOR s; OPEN cur USING $a, $b AS n; FETCH cur INTO @x; OPEN cur;", fresh: true},
		{id: "variables", sql: "VAR @v := $a; @v := $b; SELECT @v := @v + 1; VAR @v; DISPOSE @v; SELECT @v;", fresh: true},
		{id: "function-scalar", sql: "DECLARE f FUNCTION (@x, @y DEFAULT $a) AS BEGIN RETURN @x + @y; END; SELECT f($b), f(1, 2); SELECT f(); SELECT f(1, 2, 3);", fresh: true},
		{id: "function-scalar-errors", sql: "DECLARE f FUNCTION (@x, @x) AS BEGIN RETURN 1; END;", fresh: true},
		{id: "function-builtin-name", sql: "DECLARE trim FUNCTION (@x) AS BEGIN RETURN $a; END;", fresh: true},
		{id: "function-recursive", sql: "DECLARE f FUNCTION (@n) AS BEGIN IF @n < 1 THEN RETURN $a; END IF; RETURN f(@n - 1); END; SELECT f(50);", fresh: true},
		{id: "function-aggregate", sql: "DECLARE ag AGGREGATE (cur, @p DEFAULT $a) AS BEGIN VAR @s := 0; VAR @v; WHILE @v IN cur DO @s := @s + IFNULL(@v, @p); END WHILE; RETURN @s; END; " +
			"SELECT ag(c1, $b) FROM t; SELECT ag(c1) OVER (ORDER BY c1) FROM t; SELECT ag(DISTINCT c3, 1, 2) FROM t; SELECT ag() FROM t;", fresh: true},
		{id: "prepared", sql: "PREPARE s FROM 'SELECT ?, :a, ?'; EXECUTE s USING $a, $b AS a, 3; EXECUTE s USING $a; EXECUTE s; PREPARE s FROM 'SELECT 1'; DISPOSE PREPARE s; EXECUTE s;", fresh: true},
		{id: "prepared-nested", sql: "PREPARE pa FROM 'SELECT ?, :n'; PREPARE pb FROM 'EXECUTE pa USING ?, :m AS n'; EXECUTE pb USING $a, $b AS m; PREPARE pc FROM 'EXECUTE pb USING ? + 1, ? AS m'; EXECUTE pc USING $a, $b; EXECUTE pa USING $a, $b AS n;", fresh: true},
		// user code that never stops calling itself (no argument placeholders: one case each)
		{id: "recursion-function", sql: "DECLARE rf FUNCTION (@n) AS BEGIN RETURN rf(@n + 1); END; SELECT rf(1);", fresh: true},
		{id: "recursion-execute", sql: "VAR @s := 'EXECUTE @s;'; EXECUTE @s;", fresh: true},
		{id: "recursion-aggregate", sql: "DECLARE ra AGGREGATE (c) AS BEGIN RETURN (SELECT ra(c1) FROM t); END; SELECT ra(c1) FROM t;", fresh: true},
		{id: "prepared-bad", sql: "PREPARE s FROM 'SELECT ? FROM';", fresh: true},
		{id: "prepared-literal", sql: "PREPARE s FROM #a; EXECUTE s USING $a;", fresh: true},
		{id: "control-flow", sql: "VAR @i := 0; WHILE @i < 3 DO @i := @i + 1; IF @i = $a THEN BREAK; ELSEIF $b THEN CONTINUE; END IF; END WHILE; CASE $a WHEN $b THEN PRINT 1; ELSE PRINT 2; END CASE;", fresh: true},
		{id: "while-in-cursor", sql: "VAR @x, @y; DECLARE cur CURSOR FOR SELECT c1 FROM t LIMIT $a; OPEN cur; WHILE @x, @y IN cur DO PRINT @x; END WHILE;", fresh: true},
		{id: "transaction", sql: "INSERT INTO t VALUES ($a, $b, 1); COMMIT; ROLLBACK; SELECT COUNT(*) FROM t;", fresh: true, rollback: true},
		// statements with values
		{id: "trigger-error", sql: "TRIGGER ERROR #a 'boom'", userCode: true},
		{id: "trigger-error-msg", sql: "TRIGGER ERROR $a", userCode: true},
		{id: "exit", sql: "EXIT #a", userCode: true},
		{id: "printf", sql: "PRINTF $a, $b"},
		{id: "printf-using", sql: "PRINTF $a USING $b, 1, 'x'"},
		{id: "echo-print", sql: "ECHO $a; PRINT $b;"},
		{id: "execute", sql: "EXECUTE $a"},
		{id: "execute-using", sql: "EXECUTE $a USING $b"},
		{id: "source", sql: "SOURCE $a"},
		{id: "show", sql: "SHOW #a"},
		{id: "show-fields", sql: "SHOW FIELDS FROM t; SHOW FIELDS FROM nosuch;"},
		{id: "show-all", sql: "SHOW TABLES; SHOW VIEWS; SHOW CURSORS; SHOW FUNCTIONS; SHOW STATEMENTS; SHOW FLAGS; SHOW ENV; SHOW RUNINFO; SHOW NOSUCH;"},
		{id: "chdir", sql: "CHDIR $a; PWD;", fresh: true},
		{id: "syntax", sql: "SYNTAX $a, $b"},
		{id: "runtime-info", sql: "SELECT @#UNCOMMITTED, @#CREATED, @#UPDATED, @#UPDATED_VIEWS, @#LOADED_TABLES, @#WORKING_DIRECTORY, @#VERSION, @#NOSUCH"},
		{id: "env-var", sql: "SELECT @%HOME, @%`C19 NO SUCH`; SET @%C19_X = $a; SELECT @%C19_X; UNSET @%C19_X;"},
		{id: "constants", sql: "SELECT MATH::PI, MATH::NOSUCH"},
		{id: "external-command", sql: "$ #a", fresh: true},
		{id: "add-remove-flag", sql: "ADD $a TO @@DATETIME_FORMAT; REMOVE $b FROM @@DATETIME_FORMAT; SELECT DATETIME('2012/01/31'); ADD 1 TO @@CPU; REMOVE 1 FROM @@CPU;", fresh: true},
	}
	for _, f := range c19Flags {
		t = append(t, c19Tpl{id: "set-flag-" + f, sql: "SET @@" + f + " TO $a; SELECT c1, c2 FROM t WHERE c1 > 0 ORDER BY c1; SELECT COUNT(*) FROM t GROUP BY c3; SHOW @@" + f + "; SELECT @@" + f + ";", fresh: true})
	}
	for _, a := range c19TableAttrs {
		t = append(t, c19Tpl{id: "alter-set-" + a, sql: "ALTER TABLE t SET " + a + " TO $a; SELECT * FROM t; SHOW FIELDS FROM t;", rollback: true})
	}
	// the clauses of one SELECT in combination: select list x source x WHERE x ORDER BY x LIMIT (the clauses share
	// per-record work space and caches that each of them alone sizes correctly)
	comboLists := []string{"c1", "c1, c2 || 'x' AS e", "c1, RANK() OVER (ORDER BY c1) AS r", "c3, SUM(c1) OVER (PARTITION BY c3) AS s, c2", "DISTINCT c3", "*",
		"c3, COUNT(*) AS n", "*, ROW_NUMBER() OVER (ORDER BY c2) AS rn"}
	comboSources := []string{"t", "(SELECT c1, c2, c3, ROW_NUMBER() OVER (ORDER BY c1) AS q FROM t) t", "t JOIN (SELECT c3 AS k FROM t GROUP BY c3) g ON t.c3 = g.k"}
	comboWheres := []string{"", " WHERE c1 IS NOT NULL", " WHERE FALSE"}
	comboOrders := []string{"", " ORDER BY c1", " ORDER BY c2 || 'x'", " ORDER BY c1 * -1 DESC, c3", " ORDER BY RANK() OVER (ORDER BY c2)", " ORDER BY 1", " ORDER BY r",
		" ORDER BY COUNT(*) OVER (PARTITION BY c3), c2 || c3"}
	comboLimits := []string{"", " LIMIT 2", " LIMIT 1 WITH TIES", " LIMIT 50 PERCENT OFFSET 1"}
	for li, l := range comboLists {
		for si, src := range comboSources {
			for wi, w := range comboWheres {
				for oi, o := range comboOrders {
					for mi, m := range comboLimits {
						g := ""
						if strings.Contains(l, "COUNT(*) AS n") {
							g = " GROUP BY c3"
						}
						t = append(t, c19Tpl{id: fmt.Sprintf("combo-%d.%d.%d.%d.%d", li, si, wi, oi, mi), sql: "SELECT " + l + " FROM " + src + w + g + o + m})
					}
				}
			}
		}
	}
	// every template that reads table t, once more over the empty table e (a header and no record)
	n := len(t)
	for i := 0; i < n; i++ {
		if e := c19TableWord.ReplaceAllString(t[i].sql, "e"); e != t[i].sql && !strings.HasPrefix(t[i].id, "set-flag-") {
			v := t[i]
			v.id += "@empty"
			v.sql = e
			t = append(t, v)
		}
	}
	return t
}()

var c19TableWord = regexp.MustCompile(`\bt\b`)

func c19TplByID(id string) (c19Tpl, bool) {
	for _, t := range c19Templates {
		if t.id == id {
			return t, true
		}
	}
	return c19Tpl{}, false
}

func c19Placeholders(sql string) (vars int, lits int) {
	if strings.Contains(sql, "$a") {
		vars = 1
	}
	if strings.Contains(sql, "$b") {
		vars = 2
	}
	if strings.Contains(sql, "#a") {
		lits = 1
	}
	if strings.Contains(sql, "#b") {
		lits = 2
	}
	return
}

var c19ShowObjects = []string{"TABLES", "VIEWS", "CURSORS", "FUNCTIONS", "STATEMENTS", "FLAGS", "ENV", "RUNINFO", "NOSUCH", "@@CPU", "@@NOSUCH", "FIELDS FROM t"}
var c19Commands = []string{"", "nosuch-command-c19", "/nonexistent/c19 a b", "@a0", "`x", "'", "true"}

func c19LiteralsFor(id string) []string {
	switch id {
	case "prepared-literal":
		return []string{"'SELECT ?'", "''", "'SELECT'", "';'", "'SELECT ?; SELECT ?, :a'", "'PREPARE z FROM \\'SELECT 1\\''", "1", "NULL", "@a0"}
	case "show":
		return c19ShowObjects
	case "external-command":
		return c19Commands
	}
	return c19Literals
}

// runEach executes the statements of a template one at a time, the way the interactive shell does: an error ends
// only the statement that raised it, so the statements after it are reached too. Every statement is judged; the
// first error (or panic) is returned for the classification of the case.
func (r *c19Runner) runEach(cs *c19Case, st []parser.Statement, userCode bool) (views []*query.View, err error, pnc any) {
	for i := range st {
		v, e, p := r.run(st[i : i+1])
		views = append(views, v...)
		if i > 0 && (e != nil || p != nil) {
			r.judge(cs, "statement", e, p, userCode)
		}
		if err == nil && pnc == nil {
			err, pnc = e, p
		}
		if p != nil {
			break // the process image is not to be trusted after a panic
		}
	}
	return
}

func (r *c19Runner) execClause(cs *c19Case) {
	c := r.c
	tpl, ok := c19TplByID(cs.Tpl)
	if !ok {
		fmt.Fprintln(os.Stderr, "C19: unknown template", cs.Tpl)
		return
	}
	r.ensureT()
	if tpl.fresh {
		r.newEnv()
		defer func() {
			r.newEnv()
			time.Local = time.UTC
			os.Chdir("/")
		}()
	}
	sql := strings.ReplaceAll(strings.ReplaceAll(tpl.sql, "$a", "@a0"), "$b", "@a1")
	// cs.Args: variables first, then literals
	nv, nl := c19Placeholders(tpl.sql)
	if len(cs.Args) != nv+nl {
		fmt.Fprintln(os.Stderr, "C19: wrong number of arguments in case", c19JSON(cs))
		return
	}
	for i := 0; i < nl; i++ {
		sql = strings.ReplaceAll(sql, "#"+string(rune('a'+i)), cs.Args[nv+i])
	}
	r.env.SetVar("a0", c19Primary(c19ref.Alphabet[0]))
	r.env.SetVar("a1", c19Primary(c19ref.Alphabet[0]))
	if !r.setArgs("a", cs.Args[:nv]) {
		return
	}
	var views []*query.View
	var err error
	var pnc any
	if nl == 0 {
		st, perr := r.parseMaybe("tpl:"+tpl.id, sql)
		if perr != nil {
			c.Incomplete(fmt.Sprintf("harness fault: template %s does not parse: %v", tpl.id, perr))
			return
		}
		views, err, pnc = r.runEach(cs, st, tpl.userCode)
	} else if st, _, perr := parser.Parse(sql, "", false, false); perr == nil {
		views, err, pnc = r.runEach(cs, st, tpl.userCode)
	} else {
		views, err, pnc = r.runText(sql)
	}
	out := r.judge(cs, "statement", err, pnc, tpl.userCode)
	for _, v := range views {
		for i, rec := range v.RecordSet {
			if len(rec) != len(v.Header) {
				c.Violate("ragged:"+cs.class()+":result", fmt.Sprintf("result record %d has %d fields, header %d; case %s", i, len(rec), len(v.Header), c19JSON(cs)), cs)
				break
			}
		}
	}
	if tpl.rollback {
		_, rerr, rp := r.runText("ROLLBACK;")
		r.judge(cs, "rollback", rerr, rp, false)
		os.Remove(filepath.Join(r.dir, "n.csv"))
		os.Remove(filepath.Join(r.dir, "n.json"))
		if tpl.fresh {
			r.ensureT()
		}
	}
	nt := int64(1)
	if out == "E"+strconv.Itoa(query.ErrorSyntaxError) {
		nt = 0
	}
	c.Observe("clause_outcomes", out)
	r.evalN(1, nt)
	if r.verbose {
		fmt.Printf("  %s\n  args=%v err=%v panic=%v views=%d\n", sql, cs.Args, err, pnc, len(views))
	}
	if err == nil && r.wantSample() && nv == 2 && cs.Args[0] != "NULL" && len(views) > 0 {
		r.sample(map[string]any{"family": "clause", "sql": sql, "args": cs.Args, "result_records": len(views[len(views)-1].RecordSet)})
	}
}

func c19EnumClauses(r *c19Runner) {
	th := r.c.Thorough()
	pair := c19ref.Alpha3Thorough
	if th {
		pair = c19ref.Alphabet
	}
	r.c.Info("clause_templates", len(c19Templates))
	r.c.Info("clause_pair_alphabet", len(pair))
	unit := int64(0)
	for _, tpl := range c19Templates {
		nv, nl := c19Placeholders(tpl.sql)
		var varAl []c19ref.Val
		switch nv {
		case 1:
			varAl = c19ref.Alphabet
		case 2:
			varAl = pair
			if tpl.fresh && !th {
				varAl = c19ref.Alpha3Quick
			}
		}
		lits := c19LiteralsFor(tpl.id)
		// tuples: variables^nv x literals^nl ; the sharding unit is (template, first component)
		dims := []int{}
		for i := 0; i < nv; i++ {
			dims = append(dims, len(varAl))
		}
		for i := 0; i < nl; i++ {
			dims = append(dims, len(lits))
		}
		if len(dims) == 0 {
			if r.c.Mine(unit) {
				cs := c19Case{Fam: "clause", Tpl: tpl.id}
				if r.step(&cs) {
					r.exec(&cs)
				}
			}
			unit++
			continue
		}
		for first := 0; first < dims[0]; first++ {
			mine := r.c.Mine(unit)
			unit++
			if !mine {
				continue
			}
			if r.expired() {
				return
			}
			idx := make([]int, len(dims))
			idx[0] = first
			for {
				args := make([]string, len(dims))
				for i := range dims {
					if i < nv {
						args[i] = varAl[idx[i]].Name
					} else {
						args[i] = lits[idx[i]]
					}
				}
				cs := c19Case{Fam: "clause", Tpl: tpl.id, Args: args}
				if r.step(&cs) {
					r.exec(&cs)
				}
				k := len(dims) - 1
				for k >= 1 {
					idx[k]++
					if idx[k] < dims[k] {
						break
					}
					idx[k] = 0
					k--
				}
				if k < 1 {
					break
				}
			}
		}
	}
}
