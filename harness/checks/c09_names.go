//go:build verifx

package checks

import (
	"strings"

	"verif/harness/internal/fsx"
)

// Family names (C09): the lock protocol derives the names of its control files - and the pattern by which a writer looks
// for the read locks of a table - from the table's file name. A file name is arbitrary text: the characters that mean
// something to filepath.Match (* ? [ ] \) are legal in it. For every such name the writer|reader scenario of the narrow
// seam (update handler + commit against read handler) and, in the thorough tier, the full-stack pair UPDATE|SELECT are
// explored over all interleavings, judged by the oracle of the plain name: a writer and a reader never hold the table
// together, a granted reader read what the table file contains, the committed increment survives, nothing is left.
// Bound: the meta characters one at a time, in the base name (the explorer's state is one directory: a directory name
// with such characters is outside the bound).
const c09NamesRule = "family names: table file names holding a character that filepath.Match interprets {t[1].csv, t\\1.csv, t*.csv; thorough: t?.csv, [t].csv, t[.csv, t].csv} x {update handler + commit | read handler; thorough: sql UPDATE | SELECT}, all interleavings; " +
	"oracle: that of the plain name (writer and reader never inside together, a granted reader read what the file contains, increments survive, no leftovers)"

func init() { c09FamRegister("names", c09NamesRule, c09NamesList) }

func c09NamesList() []c09FamScenario {
	type nm struct {
		file     string
		slot     int64
		thorough bool
	}
	var out []c09FamScenario
	for _, n := range []nm{{"t[1].csv", 16, false}, {`t\1.csv`, 13, false}, {"t*.csv", 14, false}, {"t?.csv", 1, true}, {"[t].csv", 3, true}, {"t[.csv", 5, true}, {"t].csv", 6, true}} {
		n := n
		tables := map[string]int{n.file: 5}
		out = append(out, c09FamScenario{family: "names", name: "names: W|R on " + n.file, slot: n.slot, thoroughOnly: n.thorough,
			build: func() *fsx.Scenario {
				return &fsx.Scenario{Setup: c09Setup(tables), Check: c09Oracle(tables), Bodies: func(string) []func(*fsx.Proc) {
					return []func(*fsx.Proc){bodyIncr(n.file, true), bodyRead(n.file)}
				}}
			}})
		// the same pair through the query stack: the identifier is the file name in back quotes (a back slash is an escape
		// character of the SQL text, so that name is left to the narrow seam)
		if n.file == `t\1.csv` {
			continue
		}
		out = append(out, c09FamScenario{family: "names", name: "names: sql INC|SEL on " + n.file, slot: n.slot + 1, thoroughOnly: true,
			build: func() *fsx.Scenario {
				return &fsx.Scenario{Setup: c09Setup(tables), Check: c09NamesSQLOracle(n.file), Bodies: func(d string) []func(*fsx.Proc) {
					return sqlBodies(d, "UPDATE `"+n.file+"` SET n = n + 1;", "SELECT n FROM `"+n.file+"`;")
				}}
			}})
	}
	return out
}

// c09NamesSQLOracle: the oracle of the scenario sql INC|SEL for another file name.
func c09NamesSQLOracle(fileName string) func(w *fsx.World) []fsx.Violation {
	return func(w *fsx.World) []fsx.Violation {
		if !w.Final {
			return nil
		}
		var out []fsx.Violation
		commits := 0
		for _, p := range w.Procs {
			for _, l := range p.ObsWithPrefix("SQL ") {
				if strings.HasSuffix(l, "-> ok") {
					if p.ID == 1 {
						commits = 1
					}
				} else if !containsLockTimeout(l) {
					out = append(out, fsx.Violation{Sig: "unexpected-error-or-panic", Msg: p.Name + ": " + l})
				}
			}
		}
		if n, ok := parseN(w.Files[fileName]); !ok || n != 5+commits {
			out = append(out, fsx.Violation{Sig: "I2:lost-update", Msg: fileName + " ends as " + w.Files[fileName]})
		}
		for _, l := range w.Procs[1].ObsWithPrefix("SQL ") {
			for _, m := range reSelVal.FindAllStringSubmatch(l, -1) {
				if m[1] != "5" && !(commits == 1 && m[1] == "6") {
					out = append(out, fsx.Violation{Sig: "I3:reader-saw-impossible-value", Msg: "P2 selected " + m[1]})
				}
			}
		}
		return append(out, c09Leftover(w)...)
	}
}

func containsLockTimeout(l string) bool {
	return strings.HasPrefix(l[strings.LastIndex(l, "-> ")+3:], "ERR lock-timeout")
}
