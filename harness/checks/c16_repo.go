package checks

import (
	"encoding/json"
	"fmt"
	"os"
	"path/filepath"
	"strings"

	"verif/harness/internal/core"
	"verif/harness/internal/drv"
)

// Extra family for C16: OPEN evaluates the cursor's query at OPEN - with the meaning its table names have at that
// moment. Between two OPENs of one cursor the session moves to another repository (SET @@REPOSITORY or CHDIR) that
// holds a table of the same name with other rows: the open cursor keeps walking its snapshot, the re-opened cursor
// walks the other table, and so do a plain SELECT and a function that reads the table.
func init() {
	core.Extend("C16", "family repository-switch: 2 ways of moving the session to a directory with a same-named table x the switch while the cursor is open / closed / before its first OPEN x cursor query forms (plain, through a function, "+
		"with a WITH clause) x reads in between; oracle: rows of the snapshot until CLOSE, rows of the table the name denotes at the OPEN afterwards", c16RepoRun)
}

type c16RepoCase struct {
	Family string `json:"family"`
	Switch int    `json:"switch"` // 0 SET @@REPOSITORY, 1 CHDIR
	When   int    `json:"when"`   // 0 while open (after one fetch), 1 after CLOSE, 2 before the first OPEN
	Query  int    `json:"query"`
	Read   bool   `json:"read"` // a plain SELECT of the table before the switch (the table is in the transaction's cache)
}

var c16RepoQueries = []string{
	"SELECT a FROM t ORDER BY a",
	"SELECT cnt() * 100 + a FROM t ORDER BY a",
	"WITH w (x) AS (SELECT a FROM t) SELECT x FROM w ORDER BY x",
	"SELECT a FROM `t.csv` ORDER BY a",
}

func (k c16RepoCase) program(dir1, dir2 string) (sql string, want []string) {
	rows1, rows2 := []int{1, 2, 3}, []int{10, 20}
	val := func(rows []int, i int) string {
		if k.Query == 1 {
			return fmt.Sprint(len(rows)*100 + rows[i])
		}
		return fmt.Sprint(rows[i])
	}
	sw := fmt.Sprintf("SET @@REPOSITORY TO '%s';\n", dir2)
	if k.Switch == 1 {
		sw = fmt.Sprintf("CHDIR '%s';\n", dir2)
	}
	var sb strings.Builder
	sb.WriteString("DECLARE cnt FUNCTION () AS BEGIN RETURN (SELECT COUNT(*) FROM t); END;\n")
	sb.WriteString("DECLARE c CURSOR FOR " + c16RepoQueries[k.Query] + ";\nVAR @v;\n")
	if k.Read {
		sb.WriteString("PRINT (SELECT COUNT(*) FROM t);\n")
		want = append(want, "3")
	}
	fetch := func(rows []int, i int) {
		sb.WriteString("FETCH c INTO @v; PRINT @v;\n")
		want = append(want, val(rows, i))
	}
	switch k.When {
	case 0:
		sb.WriteString("OPEN c;\n")
		fetch(rows1, 0)
		sb.WriteString(sw)
		fetch(rows1, 1) // the snapshot taken at OPEN
		sb.WriteString("PRINT CURSOR c COUNT;\n")
		want = append(want, "3")
		sb.WriteString("CLOSE c;\nOPEN c;\n")
	case 1:
		sb.WriteString("OPEN c;\n")
		fetch(rows1, 0)
		sb.WriteString("CLOSE c;\n" + sw + "OPEN c;\n")
	case 2:
		sb.WriteString(sw + "OPEN c;\n")
	}
	fetch(rows2, 0)
	fetch(rows2, 1)
	sb.WriteString("PRINT CURSOR c COUNT;\nPRINT (SELECT COUNT(*) FROM t);\nPRINT cnt();\nCLOSE c;\n")
	want = append(want, "2", "2", "2")
	return sb.String(), want
}

func c16RepoOne(c *core.Ctx, base string, k c16RepoCase) {
	dir1, dir2 := filepath.Join(base, "r1"), filepath.Join(base, "r2")
	os.MkdirAll(dir1, 0755)
	os.MkdirAll(dir2, 0755)
	drv.WriteFiles(dir1, map[string]string{"t.csv": "a\n1\n2\n3\n"})
	drv.WriteFiles(dir2, map[string]string{"t.csv": "a\n10\n20\n"})
	sql, want := k.program(dir1, dir2)
	cwd, _ := os.Getwd()
	if k.Switch == 1 {
		// relative table names are resolved against the working directory when no repository is set
		os.Chdir(dir1)
	}
	env := drv.NewText(dir1)
	if k.Switch == 1 {
		env.Tx.Flags.Repository = ""
	}
	env.Tx.Flags.SetQuiet(true)
	r := env.Exec(sql)
	env.Close()
	os.Chdir(cwd)
	var got []string
	for _, l := range strings.Split(strings.TrimSpace(r.Out), "\n") {
		got = append(got, strings.Trim(strings.TrimSpace(l), "'"))
	}
	c.Eval(fmt.Sprintf("repository-switch|%+v", k), true)
	c.Add("transitions", int64(strings.Count(sql, ";")))
	if r.Err != nil || r.Panic != nil || strings.Join(got, "\n") != strings.Join(want, "\n") {
		c.Violate(fmt.Sprintf("repository-switch:%s:%s", []string{"SET-REPOSITORY", "CHDIR"}[k.Switch], []string{"while-open", "after-close", "before-first-open"}[k.When]),
			fmt.Sprintf("csvq prints %q (err=%v panic=%v); expected %q\n%s", got, r.Err, r.Panic, want, sql), k)
	}
}

func c16RepoRun(c *core.Ctx) {
	base := core.Scratch("c16repo")
	var idx int64
	for sw := 0; sw < 2; sw++ {
		for when := 0; when < 3; when++ {
			for q := range c16RepoQueries {
				for _, read := range []bool{false, true} {
					idx++
					if !c.Mine(idx) {
						continue
					}
					k := c16RepoCase{Family: "repository-switch", Switch: sw, When: when, Query: q, Read: read}
					c16RepoOne(c, base, k)
					if c.WantSample() && q == 2 {
						s, w := k.program("<r1>", "<r2>")
						c.Sample(map[string]any{"family": "repository-switch", "program": s, "expected_output": w})
					}
				}
			}
		}
	}
}

func c16RepoReplay(c *core.Ctx, payload json.RawMessage) bool {
	var k c16RepoCase
	if json.Unmarshal(payload, &k) != nil || k.Family != "repository-switch" {
		return false
	}
	fmt.Printf("replaying family repository-switch: %+v\n", k)
	c16RepoOne(c, core.Scratch("c16repo-replay"), k)
	return true
}
