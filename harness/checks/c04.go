package checks

import (
	"encoding/json"
	"fmt"
	"os"
	"path/filepath"
	"sort"
	"strconv"
	"strings"
	"time"

	"verif/harness/internal/bucket"
	"verif/harness/internal/core"
	"verif/harness/internal/drv"
	"verif/harness/internal/rv"
)

// C04 — DISTINCT, GROUP BY, UNION/EXCEPT/INTERSECT [ALL], PARTITION BY bucket rows by value equality;
// every aggregate is computed over exactly the rows of its bucket.
//
// Enumeration (bounded-exhaustive, no sampling):
//   P1  every unordered pair (incl. the pair x,x) of the typed alphabet as a 2-row table, 1 key column
//   P2  every unordered pair of rows over alphabet^2 as a 2-row table, 2 key columns
//   C1  every text cell built from <=2 (thorough <=3) tokens, loaded from a CSV file, 1 key column;
//       rows are cut into blocks and every pair of blocks is one table, so every pair of rows meets in a table
//   C2  every row over alphabet2^2 (alphabet2 = token closure + typed values), temporary table, 2 key columns
// Every table is run through every operator in normal mode and under SET @@STRICT_EQUAL TO TRUE; the partition
// csvq produces is compared with the reference partition (internal/bucket), which decides all pairs of rows of
// the table at once. Aggregates are recomputed per bucket from the table's measure columns.

func init() {
	core.Register(&core.Check{
		ID:    "C04",
		Level: "exploration",
		Rule: "one case = (table, operator, mode); tables: all unordered pairs of rows over a typed alphabet (arity 1) and over alphabet^2 (arity 2) as 2-row tables, " +
			"plus block-pair tables covering every pair of rows of the token-closure universes (CSV text cells arity 1; temporary-table cells arity 2); " +
			"operators GROUP BY, GROUP BY + all aggregates, DISTINCT, UNION [ALL], EXCEPT [ALL], INTERSECT [ALL] (every id-bit split of the table, both directions), " +
			"PARTITION BY (three analytic functions, the second one re-sorting the rows), empty groups; modes normal and @@STRICT_EQUAL; " +
			"non-trivial = the table holds at least two rows that are not identical in type and text; cases are enumerated without repetition",
		Assume: []string{
			"cell alphabets are finite samples of every value class (NULL, integer, float, boolean, ternary TRUE/FALSE, datetime, text incl. padded, mixed-case non-ASCII, numeric-looking, and texts made of the characters csvq's internal keys are built from); NaN, ternary UNKNOWN and negative-zero floats are left out because `=` is not reflexive on them / the manual does not say how they bucket",
			"reference = connected components of the documented `=` ladder (both NULL, or equal as integer, float, datetime, boolean, else case-insensitive trimmed text; exact type and text under --strict-equal), internal/bucket on top of internal/rv; on tables where `=` is transitive these are exactly the equivalence classes",
			"order of result rows, which member represents a bucket, and float rounding beyond 1e-9 relative are not compared (the manual does not promise them)",
			"TZ=UTC; single session, --cpu default; tables up to 8192 rows",
		},
		Run:    c04Run,
		Replay: c04Replay,
	})
}

// ---- alphabets -----------------------------------------------------------------------------------

var c04d1 = time.Date(2012, 1, 1, 0, 0, 0, 0, time.UTC)
var c04d2 = time.Date(2012, 1, 2, 0, 0, 0, 0, time.UTC)

// typed alphabet of the pair universe P1
func c04Typed(thorough bool) []rv.V {
	vs := []rv.V{
		rv.N(),
		rv.I(0), rv.I(1), rv.I(-1), rv.I(2), rv.I(100),
		rv.Fl(0), rv.Fl(1), rv.Fl(1.5), rv.Fl(1.5000001), rv.Fl(-1), rv.Fl(2), rv.Fl(0.1), rv.Fl(100),
		rv.S("1"), rv.S(" 1 "), rv.S("01"), rv.S("+1"), rv.S("1.0"), rv.S("1e0"), rv.S("1.5"), rv.S("1.50"),
		rv.S("0"), rv.S("-0"), rv.S("00"), rv.S("0.0"), rv.S("2"), rv.S("1e2"), rv.S("100"),
		rv.S("true"), rv.S("TRUE"), rv.S("True"), rv.S("tRuE"), rv.S(" t "), rv.S("false"), rv.S("f"),
		rv.S("a"), rv.S("A"), rv.S(" a"), rv.S("a "), rv.S("a b"), rv.S("a  b"), rv.S("b"), rv.S(""), rv.S(" "),
		rv.S("é"), rv.S("É"), rv.S(" É "), rv.S("e"),
		rv.S("2012-01-01"), rv.S("2012-01-01 00:00:00"), rv.S("2012-1-1"), rv.S("2012-01-02"),
		rv.S(":"), rv.S("[S]A"), rv.S("[S]a"), rv.S("[N]"), rv.S("[I]1"), rv.S("[F]1"), rv.S("[B]T"), rv.S("[T]T"),
		rv.S("[D]1325376000000000000"), rv.S("NULL"),
		// the float zero with a sign; datetimes beyond the range of 64-bit nanoseconds, two of them exactly 2^64 ns apart
		rv.S("-0.0"), rv.S("0100-01-01 00:00:00"), rv.S("0684-07-21 23:34:33.709551616"), rv.S("2300-01-01"),
		rv.B(true), rv.B(false), rv.Tv(rv.T), rv.Tv(rv.F),
		rv.D(c04d1), rv.D(c04d2),
	}
	if thorough {
		vs = append(vs, rv.I(-2), rv.I(10), rv.Fl(-1.5), rv.Fl(10), rv.Fl(2.5), rv.S("-1"), rv.S("-1.0"), rv.S("10"), rv.S("1E1"), rv.S("2.50"),
			rv.S("T"), rv.S("F"), rv.S("fAlSe"), rv.S("null"), rv.S("\ta"), rv.S("ß"), rv.S("SS"), rv.S("ǆ"), rv.S("ǅ"),
			rv.S(" 2012-01-01 "), rv.S("2012/01/01"), rv.S("2012-01-01T00:00:00Z"), rv.S("[S]"), rv.S("a:"), rv.S(":a"), rv.S("a:a"))
	}
	return vs
}

// cell alphabet of the pair universe P2 (rows = alphabet^2)
func c04Pair2(thorough bool) []rv.V {
	vs := []rv.V{
		rv.N(), rv.I(1), rv.Fl(1), rv.S("1"), rv.S("a"), rv.S(" A"), rv.S(""),
		rv.S(":[S]"), rv.S(":[N]"), rv.S(":[I]1"), rv.S("a:[S]a"), rv.Tv(rv.T),
	}
	if thorough {
		vs = append(vs, rv.S(":"), rv.S("[S]a"), rv.S("true"), rv.S("01"), rv.S("a:"), rv.S("[S]"), rv.S("a:[S]"), rv.S(":[S]a"), rv.S("É"), rv.D(c04d1))
	}
	return vs
}

// token closure: every concatenation of 1..depth tokens, without repetitions of the resulting text
func c04Closure(tokens []string, depth int) []string {
	seen := map[string]bool{}
	out := []string{}
	level := []string{""}
	for d := 0; d < depth; d++ {
		next := []string{}
		for _, p := range level {
			for _, t := range tokens {
				s := p + t
				next = append(next, s)
				if !seen[s] {
					seen[s] = true
					out = append(out, s)
				}
			}
		}
		level = next
	}
	return out
}

var c04Tokens1 = []string{"a", "A", " a", "B", ":", "[S]", "[N]", "[I]1", "1", "1.0", "01", "1e0", "true", "TRUE", "2012-01-01", "-0", "0", "é", "É", " ", "[F]", "b"}
var c04Tokens2 = []string{"a", "B", ":", "[S]", "[N]", "[I]1", "1"}
var c04Tokens2T = []string{"a", ":", "[S]", "1"}

type c04Universe struct {
	name     string
	arity    int
	source   string // "view" (temporary table, typed cells) or "csv" (file, text cells)
	meas     bool   // measure columns + aggregate tasks
	alpha    []rv.V
	rows     [][]int
	pairMode bool
	block    int
}

func c04Universes(thorough bool) []*c04Universe {
	us := []*c04Universe{}
	// P1
	{
		al := c04Typed(thorough)
		u := &c04Universe{name: "P1", arity: 1, source: "view", alpha: al, pairMode: true}
		for i := range al {
			u.rows = append(u.rows, []int{i})
		}
		us = append(us, u)
	}
	// P2
	{
		al := c04Pair2(thorough)
		u := &c04Universe{name: "P2", arity: 2, source: "view", alpha: al, pairMode: true}
		for i := range al {
			for j := range al {
				u.rows = append(u.rows, []int{i, j})
			}
		}
		us = append(us, u)
	}
	// C1: text cells from a CSV file
	{
		depth := 2
		if thorough {
			depth = 3
		}
		al := []rv.V{rv.N()}
		for _, s := range c04Closure(c04Tokens1, depth) {
			al = append(al, rv.S(s))
		}
		u := &c04Universe{name: "C1", arity: 1, source: "csv", meas: true, alpha: al, block: 600}
		for i := range al {
			u.rows = append(u.rows, []int{i})
		}
		us = append(us, u)
	}
	// A1/A2: few keys, many rows per bucket, so that every aggregate runs over buckets of about 40 rows
	for _, src := range []string{"view", "csv"} {
		al := []rv.V{rv.N(), rv.I(1), rv.S("a"), rv.S("A "), rv.Fl(2.5), rv.S("b"), rv.S("é"), rv.S("É")}
		name := "A1"
		if src == "csv" {
			al = []rv.V{rv.N(), rv.S("1"), rv.S("a"), rv.S("A "), rv.S("01"), rv.S("b"), rv.S("é"), rv.S("É")}
			name = "A2"
		}
		n := 240
		if thorough {
			n = 960
		}
		u := &c04Universe{name: name, arity: 1, source: src, meas: true, alpha: al, block: n}
		for r := 0; r < n; r++ {
			u.rows = append(u.rows, []int{(r*5 + r/7) % len(al)})
		}
		us = append(us, u)
	}
	// C2: two key columns, typed temporary table
	{
		al := []rv.V{rv.N(), rv.S(""), rv.I(1), rv.Fl(1), rv.Fl(1.5), rv.Tv(rv.T), rv.D(c04d1), rv.S(" a")}
		seen := map[string]bool{" a": true, "": true}
		add := func(l []string) {
			for _, s := range l {
				if !seen[s] {
					seen[s] = true
					al = append(al, rv.S(s))
				}
			}
		}
		add(c04Closure(c04Tokens2, 2))
		block := 4096
		if thorough {
			add(c04Closure(c04Tokens2T, 3))
			block = 1500
		}
		u := &c04Universe{name: "C2", arity: 2, source: "view", meas: true, alpha: al, block: block}
		for i := range al {
			for j := range al {
				u.rows = append(u.rows, []int{i, j})
			}
		}
		us = append(us, u)
	}
	return us
}

// chunk enumeration: (i,j), i<=j
func (u *c04Universe) nUnits() int {
	if u.pairMode {
		return len(u.rows)
	}
	return (len(u.rows) + u.block - 1) / u.block
}

func (u *c04Universe) chunkRows(i, j int) [][]int {
	if u.pairMode {
		return [][]int{u.rows[i], u.rows[j]}
	}
	blk := func(k int) [][]int {
		lo, hi := k*u.block, (k+1)*u.block
		if hi > len(u.rows) {
			hi = len(u.rows)
		}
		return u.rows[lo:hi]
	}
	out := append([][]int{}, blk(i)...)
	if i != j {
		return append(out, blk(j)...)
	}
	// a block against itself: identical copies of its first rows must fall into their originals' buckets
	d := len(out)
	if d > 32 {
		d = 32
	}
	return append(out, out[:d]...)
}

// ---- one table -------------------------------------------------------------------------------------

type c04Payload struct {
	Universe string `json:"universe"`
	Thorough bool   `json:"thorough"`
	I        int    `json:"i"`
	J        int    `json:"j"`
	Mode     string `json:"mode"`
	Op       string `json:"op"`
}

type c04Table struct {
	u      *c04Universe
	rows   [][]int
	nbits  int
	ident  []string       // exact type+text of the key cells of each row
	byID   map[string]int // ident -> first row
	v, w   []rv.V         // measures
	o      []int
	mat    [2]*bucket.Matrix
	comp   [2][]int
	ncomp  [2]int
	trans  [2]bool
	byComp [2][][]int
	lalpha []rv.V  // the cells that occur in this table
	lrows  [][]int // rows over lalpha
	pl     c04Payload
}

func (t *c04Table) cells(r int) []rv.V {
	out := make([]rv.V, t.u.arity)
	for k, ix := range t.rows[r] {
		out[k] = t.u.alpha[ix]
	}
	return out
}

func c04Ident(cells []rv.V) string {
	p := make([]string, len(cells))
	for i, c := range cells {
		p[i] = c.Key()
	}
	return strings.Join(p, "\x1f")
}

func c04MeasureV(id int, text bool) rv.V {
	var v rv.V
	switch id % 8 {
	case 0:
		v = rv.I(int64((id*3)%7 - 2))
	case 1:
		v = rv.Fl(float64((id*5)%9) + 0.5)
	case 2:
		v = rv.N()
	case 3:
		v = rv.I(int64(id % 4))
	case 4:
		v = rv.S(strconv.Itoa(id % 5))
	case 5:
		v = rv.I(-int64(id % 3))
	case 6:
		v = rv.Fl(2.5)
	default:
		v = rv.I(int64(10 + id%2))
	}
	if text && v.K != rv.Null && v.K != rv.Str {
		s, _ := bucket.Text(v)
		v = rv.S(s)
	}
	return v
}

func c04MeasureW(id int) rv.V {
	switch id % 6 {
	case 0:
		return rv.S("x")
	case 1:
		return rv.S("X")
	case 2:
		return rv.N()
	case 3:
		return rv.S(" y")
	case 4:
		return rv.S("é")
	}
	if id%12 == 5 {
		return rv.S("É")
	}
	return rv.S("zq")
}

func c04NewTable(u *c04Universe, i, j int, thorough bool) *c04Table {
	t := &c04Table{u: u, rows: u.chunkRows(i, j), byID: map[string]int{}}
	t.pl = c04Payload{Universe: u.name, Thorough: thorough, I: i, J: j}
	n := len(t.rows)
	t.nbits = 1
	for (1 << t.nbits) < n {
		t.nbits++
	}
	t.ident = make([]string, n)
	t.o = make([]int, n)
	for r := 0; r < n; r++ {
		t.ident[r] = c04Ident(t.cells(r))
		if _, ok := t.byID[t.ident[r]]; !ok {
			t.byID[t.ident[r]] = r
		}
		t.o[r] = (r*7919 + 13) % 10007
		if u.meas {
			t.v = append(t.v, c04MeasureV(r, u.source == "csv"))
			t.w = append(t.w, c04MeasureW(r))
		}
	}
	return t
}

// the equality matrix is computed over the cells that occur in the table only
func (t *c04Table) prepare(mode int) {
	if t.comp[mode] != nil {
		return
	}
	if t.lrows == nil {
		local := map[int]int{}
		for _, row := range t.rows {
			lr := make([]int, len(row))
			for k, ix := range row {
				li, ok := local[ix]
				if !ok {
					li = len(t.lalpha)
					local[ix] = li
					t.lalpha = append(t.lalpha, t.u.alpha[ix])
				}
				lr[k] = li
			}
			t.lrows = append(t.lrows, lr)
		}
	}
	// must-share relation (equal under both readings of the property) decides splits; the reference partition
	// used to detect merges is the connected components of the may-share relation (equal under either reading)
	// reference relation = per-value normalisation (an equivalence); a disagreement is reported only if the
	// pairwise `=` reading of the property condemns csvq's answer too (see reportPairs)
	t.mat[mode] = bucket.NewMatrix(t.lalpha, mode == 1)
	t.comp[mode], t.ncomp[mode], t.trans[mode] = bucket.Components(t.lrows, t.mat[mode])
}

func c04SQLExpr(v rv.V) string {
	switch v.K {
	case rv.Null:
		return "NULL"
	case rv.Int:
		if v.I < 0 {
			return "(" + strconv.FormatInt(v.I, 10) + ")"
		}
		return strconv.FormatInt(v.I, 10)
	case rv.Float:
		s := strconv.FormatFloat(v.F, 'f', -1, 64)
		if !strings.Contains(s, ".") {
			s += ".0"
		}
		if v.F < 0 {
			return "(" + s + ")"
		}
		return s
	case rv.Str:
		s, _ := v.SQL()
		return s
	case rv.Bool:
		if v.B {
			return "BOOLEAN('true')"
		}
		return "BOOLEAN('false')"
	case rv.Tern:
		return rv.TernName(v.T)
	case rv.Date:
		return "DATETIME('" + v.D.Format(time.RFC3339Nano) + "')"
	}
	panic("no SQL for " + v.Key())
}

func c04CSVField(v rv.V) string {
	if v.K == rv.Null {
		return ""
	}
	s, ok := bucket.Text(v)
	if !ok {
		panic("csv source holds text only: " + v.Key())
	}
	return `"` + strings.ReplaceAll(s, `"`, `""`) + `"`
}

const c04UserAgg = "DECLARE ucat AGGREGATE (list) AS BEGIN VAR @n := 0; VAR @s := 0; VAR @f; " +
	"WHILE @f IN list DO IF @f IS NULL THEN CONTINUE; END IF; @n := @n + 1; @s := @s + @f; END WHILE; RETURN @n * 10000000 + @s; END;"

func (t *c04Table) columns() []string {
	cols := []string{"id"}
	for k := 1; k <= t.u.arity; k++ {
		cols = append(cols, "c"+strconv.Itoa(k))
	}
	if t.u.meas {
		cols = append(cols, "v", "w")
	}
	cols = append(cols, "o")
	for b := 0; b < t.nbits; b++ {
		cols = append(cols, "b"+strconv.Itoa(b))
	}
	return cols
}

// load puts the table into env (fresh temporary table t, or file t.csv) and verifies what csvq holds.
func (t *c04Table) load(env *drv.Env, declared *bool) error {
	cols := t.columns()
	n := len(t.rows)
	if t.u.source == "csv" {
		var sb strings.Builder
		sb.WriteString(strings.Join(cols, ",") + "\n")
		for r := 0; r < n; r++ {
			f := []string{c04CSVField(rv.S(strconv.Itoa(r)))}
			for _, c := range t.cells(r) {
				f = append(f, c04CSVField(c))
			}
			if t.u.meas {
				f = append(f, c04CSVField(t.v[r]), c04CSVField(t.w[r]))
			}
			f = append(f, strconv.Itoa(t.o[r]))
			for b := 0; b < t.nbits; b++ {
				f = append(f, strconv.Itoa((r>>b)&1))
			}
			sb.WriteString(strings.Join(f, ",") + "\n")
		}
		if err := os.WriteFile(filepath.Join(env.Dir, "t.csv"), []byte(sb.String()), 0644); err != nil {
			return err
		}
	} else {
		var sb strings.Builder
		if *declared {
			sb.WriteString("DISPOSE VIEW t; ")
		}
		sb.WriteString("DECLARE t VIEW (" + strings.Join(cols, ", ") + "); INSERT INTO t VALUES ")
		for r := 0; r < n; r++ {
			if r > 0 {
				sb.WriteString(", ")
			}
			f := []string{strconv.Itoa(r)}
			for _, c := range t.cells(r) {
				f = append(f, c04SQLExpr(c))
			}
			if t.u.meas {
				f = append(f, c04SQLExpr(t.v[r]), c04SQLExpr(t.w[r]))
			}
			f = append(f, strconv.Itoa(t.o[r]))
			for b := 0; b < t.nbits; b++ {
				f = append(f, strconv.Itoa((r>>b)&1))
			}
			sb.WriteString("(" + strings.Join(f, ", ") + ")")
		}
		sb.WriteString(";")
		res := env.Exec(sb.String())
		if res.Err != nil || res.Panic != nil {
			return fmt.Errorf("loading the table failed: %v %v", res.Err, res.Panic)
		}
		*declared = true
	}
	// read back: the table must hold exactly the intended cells, else nothing below means anything
	sel := "SELECT id, " + t.keys()
	if t.u.meas {
		sel += ", v, w"
	}
	res := env.Exec(sel + " FROM t")
	if res.Err != nil || res.Panic != nil || len(res.Views) != 1 {
		return fmt.Errorf("reading the table back failed: %v %v", res.Err, res.Panic)
	}
	got := drv.Rows(res.Views[0])
	if len(got) != n {
		return fmt.Errorf("table holds %d rows, intended %d", len(got), n)
	}
	for r := 0; r < n; r++ {
		want := t.cells(r)
		if t.u.meas {
			want = append(want, t.v[r], t.w[r])
		}
		id, ok := got[r][0].StrictInt()
		if !ok || int(id) != r {
			return fmt.Errorf("row %d holds id %s", r, got[r][0].Key())
		}
		for k := range want {
			if !rv.SameValue(got[r][k+1], want[k]) {
				return fmt.Errorf("row %d column %d holds %s, intended %s", r, k+1, got[r][k+1].Key(), want[k].Key())
			}
		}
	}
	return nil
}

func (t *c04Table) keys() string {
	if t.u.arity == 1 {
		return "c1"
	}
	return "c1, c2"
}

// ---- running the operators ---------------------------------------------------------------------

type c04Runner struct {
	c      *core.Ctx
	t      *c04Table
	env    *drv.Env
	mode   int // 0 normal, 1 strict
	op     string
	nquery int64

	hintMode    int // mode+1 the hint was computed for
	hint        []int
	hintMembers map[int][]int
}

func c04ModeName(m int) string {
	if m == 1 {
		return "strict"
	}
	return "normal"
}

func (r *c04Runner) payload() c04Payload {
	p := r.t.pl
	p.Mode = c04ModeName(r.mode)
	p.Op = r.op
	return p
}

func (r *c04Runner) describe(rows ...int) string {
	parts := []string{}
	for _, x := range rows {
		cs := r.t.cells(x)
		ks := make([]string, len(cs))
		for i, c := range cs {
			ks[i] = c.Key()
		}
		parts = append(parts, fmt.Sprintf("row %d (%s)", x, strings.Join(ks, ", ")))
	}
	return strings.Join(parts, " and ")
}

func (r *c04Runner) where() string {
	return fmt.Sprintf("[%s table %s(%d,%d), %d rows, %s source, %s mode]", r.t.u.name, r.t.u.name, r.t.pl.I, r.t.pl.J, len(r.t.rows), r.t.u.source, c04ModeName(r.mode))
}

func (r *c04Runner) violate(sig, msg string) {
	r.c.Violate(sig, msg+" "+r.where(), r.payload())
}

// query runs one SELECT and returns its rows; an error is a violation of its own class.
func (r *c04Runner) query(opName, sql string) ([][]rv.V, bool) {
	res := r.env.Exec(sql)
	r.nquery++
	if res.Panic != nil || res.Err != nil || len(res.Views) != 1 {
		r.violate("query-failed:"+opName, fmt.Sprintf("%s: error %v panic %v (%d result sets): %s", opName, res.Err, res.Panic, len(res.Views), c04Short(sql)))
		return nil, false
	}
	return drv.Rows(res.Views[0]), true
}

func c04Short(s string) string {
	if len(s) > 300 {
		return s[:300] + "…"
	}
	return s
}

// a disagreement on a pair of rows; the family only names it
func (r *c04Runner) reportPair(kind, opName string, a, b int) {
	strict := r.mode == 1
	var fam string
	var rec bool
	if kind == "bucket-merge" {
		fam, rec = bucket.MergeFamily(r.t.cells(a), r.t.cells(b), strict)
	} else {
		fam, rec = bucket.SplitFamily(r.t.cells(a), r.t.cells(b), strict)
	}
	sig := kind + ":" + fam
	if !rec {
		sig = kind + ":" + opName + ":" + fam
	}
	r.c.Observe("operators_showing "+sig, opName)
	var msg string
	if kind == "bucket-merge" {
		msg = fmt.Sprintf("%s puts %s into one bucket although they are not equal", opName, r.describe(a, b))
	} else {
		msg = fmt.Sprintf("%s puts %s into different buckets although they are equal", opName, r.describe(a, b))
	}
	r.violate(sig, msg)
	if r.c.IsReplay && r.t.u.source == "view" && !c04Printed[sig] {
		c04Printed[sig] = true
		cols := "c1"
		if r.t.u.arity == 2 {
			cols = "c1, c2"
		}
		vals := []string{}
		for _, x := range []int{a, b} {
			f := []string{}
			for _, cell := range r.t.cells(x) {
				f = append(f, c04SQLExpr(cell))
			}
			vals = append(vals, "("+strings.Join(f, ", ")+")")
		}
		set := ""
		if r.mode == 1 {
			set = "SET @@STRICT_EQUAL TO TRUE; "
		}
		fmt.Printf("  reproduce with the two rows alone: csvq \"%sDECLARE t VIEW (%s); INSERT INTO t VALUES %s; SELECT %s, COUNT(*) FROM t GROUP BY %s; SELECT DISTINCT %s FROM t;\"\n",
			set, cols, strings.Join(vals, ", "), cols, cols, cols)
	}
}

var c04Printed = map[string]bool{}

// among candidate pairs report one per family, recognised families first
func (r *c04Runner) reportPairs(kind, opName string, pairs [][2]int) {
	if len(pairs) == 0 {
		return
	}
	strict := r.mode == 1
	seen := map[string]bool{}
	var firstUnrec *[2]int
	anyRec := false
	for i := range pairs {
		p := pairs[i]
		var fam string
		var rec bool
		if !strict {
			// the property's sentence has two readings (normal forms compared / pair compared with `=`);
			// what csvq did with this pair is a violation only if both readings say so
			eqP := bucket.RowsEqP(r.t.cells(p[0]), r.t.cells(p[1]))
			if (kind == "bucket-merge" && eqP) || (kind != "bucket-merge" && !eqP) {
				r.c.Add("pairs_where_the_two_readings_of_bucket_equality_differ", 1)
				continue
			}
		}
		if kind == "bucket-merge" {
			fam, rec = bucket.MergeFamily(r.t.cells(p[0]), r.t.cells(p[1]), strict)
		} else {
			fam, rec = bucket.SplitFamily(r.t.cells(p[0]), r.t.cells(p[1]), strict)
		}
		if rec {
			anyRec = true
			if !seen[fam] {
				seen[fam] = true
				r.reportPair(kind, opName, p[0], p[1])
			}
		} else if firstUnrec == nil {
			firstUnrec = &pairs[i]
		}
	}
	if !anyRec && firstUnrec != nil {
		r.reportPair(kind, opName, firstUnrec[0], firstUnrec[1])
	}
}

const c04PairCap = 3000

// comparePartition: bucketOf[row] is csvq's bucket number of each row.
func (r *c04Runner) comparePartition(opName string, bucketOf []int) {
	t := r.t
	comp := t.comp[r.mode]
	m := t.mat[r.mode]
	byBucket := map[int][]int{}
	for row, b := range bucketOf {
		byBucket[b] = append(byBucket[b], row)
	}
	bks := make([]int, 0, len(byBucket))
	for b := range byBucket {
		bks = append(bks, b)
	}
	sort.Ints(bks)
	for _, b := range bks {
		ms := byBucket[b]
		mixed := false
		for _, x := range ms {
			if comp[x] != comp[ms[0]] {
				mixed = true
				break
			}
		}
		if !mixed {
			continue
		}
		// one representative per component in the bucket, then cross pairs
		reps := map[int][]int{}
		order := []int{}
		for _, x := range ms {
			if len(reps[comp[x]]) == 0 {
				order = append(order, comp[x])
			}
			if len(reps[comp[x]]) < 4 {
				reps[comp[x]] = append(reps[comp[x]], x)
			}
		}
		pairs := [][2]int{}
	mk:
		for i := 0; i < len(order); i++ {
			for j := i + 1; j < len(order); j++ {
				for _, x := range reps[order[i]] {
					for _, y := range reps[order[j]] {
						pairs = append(pairs, [2]int{x, y})
						if len(pairs) >= c04PairCap {
							break mk
						}
					}
				}
			}
		}
		r.reportPairs("bucket-merge", opName, pairs)
	}
	byComp := make([][]int, t.ncomp[r.mode])
	for row, c := range comp {
		byComp[c] = append(byComp[c], row)
	}
	for _, ms := range byComp {
		split := false
		for _, x := range ms {
			if bucketOf[x] != bucketOf[ms[0]] {
				split = true
				break
			}
		}
		if !split {
			continue
		}
		pairs := [][2]int{}
		chain := [][2]int{}
	sp:
		for i := 0; i < len(ms); i++ {
			for j := i + 1; j < len(ms); j++ {
				if bucketOf[ms[i]] == bucketOf[ms[j]] {
					continue
				}
				if m.RowEq(t.lrows[ms[i]], t.lrows[ms[j]]) {
					pairs = append(pairs, [2]int{ms[i], ms[j]})
				} else if len(chain) < 1 {
					chain = append(chain, [2]int{ms[i], ms[j]})
				}
				if len(pairs) >= c04PairCap {
					break sp
				}
			}
		}
		if len(pairs) == 0 {
			pairs = chain
		}
		r.reportPairs("bucket-split", opName, pairs)
	}
}

func c04ParseIDs(v rv.V, n int) ([]int, bool) {
	var s string
	switch v.K {
	case rv.Str:
		s = v.S
	case rv.Int:
		s = strconv.FormatInt(v.I, 10)
	default:
		return nil, false
	}
	out := []int{}
	for _, p := range strings.Split(s, ",") {
		x, err := strconv.Atoi(strings.TrimSpace(p))
		if err != nil || x < 0 || x >= n {
			return nil, false
		}
		out = append(out, x)
	}
	sort.Ints(out)
	return out, true
}

// GROUP BY: buckets from LISTAGG(id), cross-checked with COUNT(*), COUNT(id) and the key cells shown.
func (r *c04Runner) opGroup() {
	t := r.t
	n := len(t.rows)
	rows, ok := r.query("GROUP BY", "SELECT "+t.keys()+", LISTAGG(id, ',') AS ids, COUNT(*) AS n, COUNT(id) AS n2 FROM t GROUP BY "+t.keys())
	if !ok {
		return
	}
	bucketOf, good := r.bucketsFromGroups(rows, t.u.arity, t.u.arity+1, t.u.arity+2, "GROUP BY")
	if !good {
		return
	}
	_ = n
	r.comparePartition("GROUP BY", bucketOf)
	// the same list ordered by an expression (the aggregate then adds a work column to its per-group copy of the rows,
	// whose first column is id): the same ids per group
	if rows2, ok := r.query("GROUP BY", "SELECT LISTAGG(id, ',') AS ids, LISTAGG(id, ',') WITHIN GROUP (ORDER BY id * -1) AS ids2, JSON_AGG(id) WITHIN GROUP (ORDER BY id + 0) AS ids3 FROM t GROUP BY "+t.keys()); ok {
		for _, row := range rows2 {
			a, ok1 := c04ParseIDs(row[0], n)
			b, ok2 := c04ParseIDs(row[1], n)
			js := strings.NewReplacer("[", "", "]", "", "\"", "").Replace(row[2].S)
			cc, ok3 := c04ParseIDs(rv.S(js), n)
			sort.Ints(a)
			sort.Ints(b)
			sort.Ints(cc)
			if !ok1 || !ok2 || !ok3 || fmt.Sprint(a) != fmt.Sprint(b) || fmt.Sprint(a) != fmt.Sprint(cc) {
				r.violate("aggregate:list-ordered-by-an-expression-holds-other-rows", fmt.Sprintf("GROUP BY: LISTAGG(id) of a group is %s, ordered by id * -1 it is %s, JSON_AGG ordered by id + 0 is %s", row[0].Key(), row[1].Key(), row[2].Key()))
				break
			}
		}
	}
}

// rows: group rows with the ids list at idsCol; checks that the lists partition 0..n-1 and agree with the counts
func (r *c04Runner) bucketsFromGroups(rows [][]rv.V, idsCol, cntCol, cnt2Col int, opName string) ([]int, bool) {
	t := r.t
	n := len(t.rows)
	bucketOf := make([]int, n)
	for i := range bucketOf {
		bucketOf[i] = -1
	}
	for g, row := range rows {
		ids, ok := c04ParseIDs(row[idsCol], n)
		if !ok {
			r.violate("group-by:id-list-unreadable", fmt.Sprintf("%s: LISTAGG(id) of a group is %s", opName, row[idsCol].Key()))
			return nil, false
		}
		for _, x := range ids {
			if bucketOf[x] != -1 {
				r.violate("group-by:not-a-partition", fmt.Sprintf("%s: row %d is aggregated into two groups (or twice into one)", opName, x))
				return nil, false
			}
			bucketOf[x] = g
		}
		for _, cc := range []int{cntCol, cnt2Col} {
			if cc < 0 {
				continue
			}
			if k, ok := row[cc].StrictInt(); !ok || int(k) != len(ids) || row[cc].K != rv.Int {
				r.violate("aggregate:COUNT-disagrees-with-bucket", fmt.Sprintf("%s: a group lists %d row ids but counts %s", opName, len(ids), row[cc].Key()))
			}
		}
		// the key cells shown for the group must be those of one of its members
		if idsCol == t.u.arity {
			found := false
			id := c04Ident(row[:t.u.arity])
			for _, x := range ids {
				if t.ident[x] == id {
					found = true
					break
				}
			}
			if !found {
				r.violate("group-by:key-not-from-bucket", fmt.Sprintf("%s: the group of %s shows key (%s) which no member has", opName, r.describe(ids[0]), strings.ReplaceAll(id, "\x1f", ", ")))
			}
		}
	}
	for x, b := range bucketOf {
		if b == -1 {
			r.violate("group-by:not-a-partition", fmt.Sprintf("%s: row %d is in no group", opName, x))
			return nil, false
		}
	}
	return bucketOf, true
}

type c04AggCol struct {
	name string
	sql  string
	ref  func(vs, ws []rv.V, strict bool) (bucket.Agg, bool)
	cmp  string // "", "list", "json", "listdistinct"
}

func c04Always(a bucket.Agg) (bucket.Agg, bool) { return a, true }

var c04AggCols = []c04AggCol{
	{"COUNT(*)", "COUNT(*)", func(vs, ws []rv.V, _ bool) (bucket.Agg, bool) {
		return bucket.Agg{Kind: "exact", V: rv.I(int64(len(vs)))}, true
	}, ""},
	{"COUNT", "COUNT(v)", func(vs, ws []rv.V, _ bool) (bucket.Agg, bool) { return c04Always(bucket.Count(vs)) }, ""},
	{"COUNT", "COUNT(w)", func(vs, ws []rv.V, _ bool) (bucket.Agg, bool) { return c04Always(bucket.Count(ws)) }, ""},
	{"COUNT(DISTINCT)", "COUNT(DISTINCT v)", func(vs, ws []rv.V, s bool) (bucket.Agg, bool) {
		return c04Always(bucket.Count(bucket.Distinct(c04NN(vs), s)))
	}, ""},
	{"COUNT(DISTINCT)", "COUNT(DISTINCT w)", func(vs, ws []rv.V, s bool) (bucket.Agg, bool) {
		return c04Always(bucket.Count(bucket.Distinct(c04NN(ws), s)))
	}, ""},
	// a constant argument: one distinct value however many rows the bucket has; none for NULL
	{"COUNT(DISTINCT)", "COUNT(DISTINCT 1)", func(vs, ws []rv.V, _ bool) (bucket.Agg, bool) {
		return bucket.Agg{Kind: "exact", V: rv.I(c04One(vs))}, true
	}, ""},
	{"COUNT(DISTINCT)", "COUNT(DISTINCT 'x')", func(vs, ws []rv.V, _ bool) (bucket.Agg, bool) {
		return bucket.Agg{Kind: "exact", V: rv.I(c04One(vs))}, true
	}, ""},
	{"COUNT", "COUNT(NULL)", func(vs, ws []rv.V, _ bool) (bucket.Agg, bool) {
		return bucket.Agg{Kind: "exact", V: rv.I(0)}, true
	}, ""},
	{"COUNT", "COUNT(7)", func(vs, ws []rv.V, _ bool) (bucket.Agg, bool) {
		return bucket.Agg{Kind: "exact", V: rv.I(int64(len(vs)))}, true
	}, ""},
	{"SUM", "SUM(v)", func(vs, ws []rv.V, _ bool) (bucket.Agg, bool) { return c04Always(bucket.Sum(vs)) }, ""},
	{"SUM(DISTINCT)", "SUM(DISTINCT v)", func(vs, ws []rv.V, s bool) (bucket.Agg, bool) { return c04Always(bucket.Sum(bucket.Distinct(vs, s))) }, ""},
	{"SUM", "SUM(w)", func(vs, ws []rv.V, _ bool) (bucket.Agg, bool) { return c04Always(bucket.Sum(ws)) }, ""},
	{"AVG", "AVG(v)", func(vs, ws []rv.V, _ bool) (bucket.Agg, bool) { return c04Always(bucket.Avg(vs)) }, ""},
	{"AVG(DISTINCT)", "AVG(DISTINCT v)", func(vs, ws []rv.V, s bool) (bucket.Agg, bool) { return c04Always(bucket.Avg(bucket.Distinct(vs, s))) }, ""},
	{"MIN", "MIN(v)", func(vs, ws []rv.V, _ bool) (bucket.Agg, bool) { return bucket.MinMax(vs, false) }, ""},
	{"MAX", "MAX(v)", func(vs, ws []rv.V, _ bool) (bucket.Agg, bool) { return bucket.MinMax(vs, true) }, ""},
	{"MIN", "MIN(w)", func(vs, ws []rv.V, _ bool) (bucket.Agg, bool) { return bucket.MinMax(ws, false) }, ""},
	{"MAX", "MAX(w)", func(vs, ws []rv.V, _ bool) (bucket.Agg, bool) { return bucket.MinMax(ws, true) }, ""},
	{"MEDIAN", "MEDIAN(v)", func(vs, ws []rv.V, _ bool) (bucket.Agg, bool) { return c04Always(bucket.Median(vs)) }, ""},
	{"STDEV", "STDEV(v)", func(vs, ws []rv.V, _ bool) (bucket.Agg, bool) { return c04Always(bucket.Variance(vs, false, true)) }, ""},
	{"STDEVP", "STDEVP(v)", func(vs, ws []rv.V, _ bool) (bucket.Agg, bool) { return c04Always(bucket.Variance(vs, true, true)) }, ""},
	{"VAR", "VAR(v)", func(vs, ws []rv.V, _ bool) (bucket.Agg, bool) { return c04Always(bucket.Variance(vs, false, false)) }, ""},
	{"VARP", "VARP(v)", func(vs, ws []rv.V, _ bool) (bucket.Agg, bool) { return c04Always(bucket.Variance(vs, true, false)) }, ""},
	{"LISTAGG", "LISTAGG(v, '|')", func(vs, ws []rv.V, _ bool) (bucket.Agg, bool) { return c04Always(bucket.ListAgg(vs)) }, "list"},
	{"LISTAGG", "LISTAGG(w, '|') WITHIN GROUP (ORDER BY id DESC)", func(vs, ws []rv.V, _ bool) (bucket.Agg, bool) { return c04Always(bucket.ListAgg(ws)) }, "list"},
	{"LISTAGG", "LISTAGG(v, '|') WITHIN GROUP (ORDER BY id * -1)", func(vs, ws []rv.V, _ bool) (bucket.Agg, bool) { return c04Always(bucket.ListAgg(vs)) }, "list"},
	{"LISTAGG", "LISTAGG(w, '|') WITHIN GROUP (ORDER BY id + 0, v || '')", func(vs, ws []rv.V, _ bool) (bucket.Agg, bool) { return c04Always(bucket.ListAgg(ws)) }, "list"},
	{"JSON_AGG", "JSON_AGG(v) WITHIN GROUP (ORDER BY id * 2 DESC)", func(vs, ws []rv.V, _ bool) (bucket.Agg, bool) { return c04Always(bucket.JSONAgg(vs)) }, "json"},
	{"LISTAGG(DISTINCT)", "LISTAGG(DISTINCT w, '|')", func(vs, ws []rv.V, _ bool) (bucket.Agg, bool) { return c04Always(bucket.ListAgg(ws)) }, "listdistinct"},
	{"JSON_AGG", "JSON_AGG(v)", func(vs, ws []rv.V, _ bool) (bucket.Agg, bool) { return c04Always(bucket.JSONAgg(vs)) }, "json"},
	{"JSON_AGG", "JSON_AGG(w) WITHIN GROUP (ORDER BY id)", func(vs, ws []rv.V, _ bool) (bucket.Agg, bool) { return c04Always(bucket.JSONAgg(ws)) }, "json"},
	{"user aggregate", "ucat(v)", func(vs, ws []rv.V, _ bool) (bucket.Agg, bool) { return c04Always(bucket.UserAgg(vs)) }, ""},
}

// c04One: the number of distinct values a constant takes over the rows of a bucket
func c04One(vs []rv.V) int64 {
	if len(vs) == 0 {
		return 0
	}
	return 1
}

func c04NN(vs []rv.V) []rv.V {
	out := []rv.V{}
	for _, v := range vs {
		if v.K != rv.Null {
			out = append(out, v)
		}
	}
	return out
}

func (r *c04Runner) checkAggRow(opName string, row []rv.V, first int, vs, ws []rv.V, what string) {
	strict := r.mode == 1
	for k, col := range c04AggCols {
		want, ok := col.ref(vs, ws, strict)
		if !ok {
			continue
		}
		got := row[first+k]
		good := false
		switch col.cmp {
		case "":
			good = want.Matches(got)
		case "list":
			good = want.MatchesList(got, "|")
		case "json":
			good = want.MatchesJSON(got)
		case "listdistinct":
			good = c04ListDistinctOK(got, ws, strict)
		}
		if !good {
			r.violate("aggregate:"+col.name, fmt.Sprintf("%s: %s over %s is %s, the rows of the bucket give %s", opName, col.sql, what, got.Key(), want.String()))
		}
	}
}

// LISTAGG(DISTINCT w): one text per bucket of values, each text that of a member
func c04ListDistinctOK(got rv.V, ws []rv.V, strict bool) bool {
	nn := []rv.V{}
	for _, w := range ws {
		if _, ok := bucket.Text(w); ok {
			nn = append(nn, w)
		}
	}
	reps := bucket.Distinct(nn, strict)
	if len(reps) == 0 {
		return got.K == rv.Null
	}
	if got.K != rv.Str {
		return false
	}
	items := strings.Split(got.S, "|")
	if len(items) != len(reps) {
		return false
	}
	used := make([]bool, len(reps))
	for _, it := range items {
		hit := -1
		for i, rep := range reps {
			if !used[i] && bucket.CellEq(rv.S(it), rep, strict) {
				hit = i
				break
			}
		}
		if hit < 0 {
			return false
		}
		member := false
		for _, w := range nn {
			if s, _ := bucket.Text(w); s == it {
				member = true
			}
		}
		if !member {
			return false
		}
		used[hit] = true
	}
	return true
}

func (r *c04Runner) opAgg() {
	t := r.t
	n := len(t.rows)
	parts := []string{"LISTAGG(id, ',') WITHIN GROUP (ORDER BY id) AS ids"}
	for i, col := range c04AggCols {
		parts = append(parts, fmt.Sprintf("%s AS a%d", col.sql, i))
	}
	rows, ok := r.query("GROUP BY+aggregates", "SELECT "+strings.Join(parts, ", ")+" FROM t GROUP BY "+t.keys())
	if !ok {
		return
	}
	bucketOf, good := r.bucketsFromGroups(rows, 0, 1, -1, "GROUP BY+aggregates")
	if !good {
		return
	}
	r.comparePartition("GROUP BY", bucketOf)
	for _, row := range rows {
		ids, _ := c04ParseIDs(row[0], n)
		vs := make([]rv.V, len(ids))
		ws := make([]rv.V, len(ids))
		for i, x := range ids {
			vs[i], ws[i] = t.v[x], t.w[x]
		}
		r.checkAggRow("GROUP BY", row, 1, vs, ws, fmt.Sprintf("the group of rows %v", c04Trunc(ids)))
	}
}

func c04Trunc(ids []int) []int {
	if len(ids) > 12 {
		return ids[:12]
	}
	return ids
}

// empty groups: no GROUP BY over no rows is one group of zero rows; GROUP BY / DISTINCT / PARTITION BY over no rows give no rows
func (r *c04Runner) opEmpty() {
	t := r.t
	parts := []string{}
	for i, col := range c04AggCols {
		parts = append(parts, fmt.Sprintf("%s AS a%d", col.sql, i))
	}
	rows, ok := r.query("aggregates over no rows", "SELECT "+strings.Join(parts, ", ")+" FROM t WHERE id < 0")
	if ok {
		if len(rows) != 1 {
			r.violate("empty-group:row-count", fmt.Sprintf("aggregates over an empty table without GROUP BY return %d rows, one group of no rows is documented", len(rows)))
		} else {
			r.checkAggRow("no GROUP BY, no rows", rows[0], 0, nil, nil, "no rows")
		}
	}
	for name, q := range map[string]string{
		"GROUP BY":     "SELECT " + t.keys() + ", COUNT(*) FROM t WHERE id < 0 GROUP BY " + t.keys(),
		"DISTINCT":     "SELECT DISTINCT " + t.keys() + " FROM t WHERE id < 0",
		"PARTITION BY": "SELECT id, COUNT(id) OVER (PARTITION BY " + t.keys() + ") FROM t WHERE id < 0",
		"UNION":        "SELECT " + t.keys() + " FROM t WHERE id < 0 UNION SELECT " + t.keys() + " FROM t WHERE id < 0",
	} {
		rows, ok := r.query(name+" over no rows", q)
		if ok && len(rows) != 0 {
			r.violate("empty-group:row-count", fmt.Sprintf("%s over no rows returns %d rows", name, len(rows)))
		}
	}
}

// hintBuckets: csvq's own GROUP BY partition of the table in the current mode. It is used ONLY to name a
// disagreement of an operator whose result shows representatives instead of buckets (which pair of rows explains a
// missing or surplus row); it never decides whether there is a disagreement.
func (r *c04Runner) hintBuckets() ([]int, map[int][]int) {
	if r.hintMode == r.mode+1 {
		return r.hint, r.hintMembers
	}
	r.hintMode = r.mode + 1
	r.hint, r.hintMembers = nil, nil
	t := r.t
	n := len(t.rows)
	res := r.env.Exec("SELECT LISTAGG(id, ',') FROM t GROUP BY " + t.keys())
	r.nquery++
	if res.Err != nil || res.Panic != nil || len(res.Views) != 1 {
		return nil, nil
	}
	h := make([]int, n)
	for i := range h {
		h[i] = -1
	}
	mem := map[int][]int{}
	for g, row := range drv.Rows(res.Views[0]) {
		ids, ok := c04ParseIDs(row[0], n)
		if !ok {
			return nil, nil
		}
		for _, x := range ids {
			h[x] = g
		}
		mem[g] = ids
	}
	for _, b := range h {
		if b < 0 {
			return nil, nil
		}
	}
	r.hint, r.hintMembers = h, mem
	return h, mem
}

func (r *c04Runner) compMembers() [][]int {
	t := r.t
	if t.byComp[r.mode] == nil {
		bc := make([][]int, t.ncomp[r.mode])
		for row, c := range t.comp[r.mode] {
			bc[c] = append(bc[c], row)
		}
		t.byComp[r.mode] = bc
	}
	return t.byComp[r.mode]
}

// explain names the disagreement on bucket c of a representative-style result: the pairs of rows on which csvq's
// GROUP BY partition already deviates from the reference around c; without such a pair the operator deviates on its
// own and gets a signature of its own.
func (r *c04Runner) explain(opName string, c int, guessKind, what string) {
	t := r.t
	comp := t.comp[r.mode]
	m := t.mat[r.mode]
	rows := r.compMembers()[c]
	h, mem := r.hintBuckets()
	merges, splits := [][2]int{}, [][2]int{}
	if h != nil {
		for _, x := range rows {
			for _, y := range mem[h[x]] {
				if comp[y] != c && len(merges) < 64 {
					merges = append(merges, [2]int{x, y})
				}
			}
		}
		for i := 0; i < len(rows) && len(splits) < 64; i++ {
			for j := i + 1; j < len(rows) && len(splits) < 64; j++ {
				if h[rows[i]] != h[rows[j]] && m.RowEq(t.lrows[rows[i]], t.lrows[rows[j]]) {
					splits = append(splits, [2]int{rows[i], rows[j]})
				}
			}
		}
	}
	if h == nil {
		// GROUP BY itself failed: look for a pair of a recognised family directly
		strict := r.mode == 1
		xs := rows
		if len(xs) > 4 {
			xs = xs[:4]
		}
		for _, x := range xs {
			cx := t.cells(x)
			for y := range t.rows {
				if comp[y] == c {
					continue
				}
				if _, rec := bucket.MergeFamily(cx, t.cells(y), strict); rec && len(merges) < 64 {
					merges = append(merges, [2]int{x, y})
				}
			}
		}
		for i := 0; i < len(rows) && len(splits) < 64; i++ {
			for j := i + 1; j < len(rows) && len(splits) < 64; j++ {
				if _, rec := bucket.SplitFamily(t.cells(rows[i]), t.cells(rows[j]), strict); rec && m.RowEq(t.lrows[rows[i]], t.lrows[rows[j]]) {
					splits = append(splits, [2]int{rows[i], rows[j]})
				}
			}
		}
		if len(merges) == 0 && len(splits) == 0 {
			r.violate(guessKind+":"+opName+":"+c04ModeName(r.mode)+":unexplained",
				fmt.Sprintf("%s: %s; the bucket of %s (%d rows of the table); GROUP BY on the same table failed, so no pair of rows can be named", opName, what, r.describe(rows[0]), len(rows)))
			return
		}
	}
	if len(merges) == 0 && len(splits) == 0 {
		r.c.Observe("operators_showing "+guessKind+":"+opName+":"+c04ModeName(r.mode)+":not-shared-with-group-by", opName)
		r.violate(guessKind+":"+opName+":"+c04ModeName(r.mode)+":not-shared-with-group-by",
			fmt.Sprintf("%s: %s; the bucket of %s (%d rows of the table) — GROUP BY buckets these rows as the reference does", opName, what, r.describe(rows[0]), len(rows)))
		return
	}
	r.reportPairs("bucket-merge", opName, merges)
	r.reportPairs("bucket-split", opName, splits)
}

// checkReps: a result that shows one row per bucket (DISTINCT, UNION, EXCEPT, INTERSECT) or all rows of the
// qualifying buckets (… ALL). L = rows of the left/only operand, R = rows of the right operand.
func (r *c04Runner) checkReps(opName, rule string, all bool, got [][]rv.V, L, R []int) {
	t := r.t
	comp := t.comp[r.mode]
	inL := map[int][]int{} // comp -> rows of L
	inR := map[int][]int{}
	for _, x := range L {
		inL[comp[x]] = append(inL[comp[x]], x)
	}
	for _, x := range R {
		inR[comp[x]] = append(inR[comp[x]], x)
	}
	identL := map[string]int{}
	for _, x := range L {
		if _, ok := identL[t.ident[x]]; !ok {
			identL[t.ident[x]] = x
		}
	}
	if rule == "union" {
		for _, x := range R {
			if _, ok := identL[t.ident[x]]; !ok {
				identL[t.ident[x]] = x
			}
		}
	}
	gotCount := map[string]int{}
	for _, row := range got {
		id := c04Ident(row)
		if _, ok := identL[id]; !ok {
			r.violate("result-row-not-from-operand:"+opName, fmt.Sprintf("%s returns a row (%s) that its operand does not hold", opName, strings.ReplaceAll(id, "\x1f", ", ")))
			return
		}
		gotCount[id]++
	}
	expected := func(c int) bool {
		switch rule {
		case "except":
			return len(inR[c]) == 0
		case "intersect":
			return len(inR[c]) > 0
		}
		return true
	}
	// first guess at the kind of disagreement when an expected bucket is absent / an unexpected one present
	missKind, extraKind := "bucket-merge", "bucket-split"
	if rule == "intersect" {
		missKind, extraKind = "bucket-split", "bucket-merge"
	}

	if all {
		if rule == "union" {
			want := map[string]int{}
			for _, x := range append(append([]int{}, L...), R...) {
				want[t.ident[x]]++
			}
			for id, k := range want {
				if gotCount[id] != k {
					r.violate("union-all:rows-changed", fmt.Sprintf("UNION ALL returns %d copies of (%s), the operands hold %d", gotCount[id], strings.ReplaceAll(id, "\x1f", ", "), k))
					return
				}
			}
			return
		}
		want := map[string]int{}
		for _, x := range L {
			if expected(comp[x]) {
				want[t.ident[x]]++
			}
		}
		seen := map[string]bool{}
		done := map[int]bool{}
		for _, x := range L {
			id := t.ident[x]
			if seen[id] {
				continue
			}
			seen[id] = true
			switch {
			case gotCount[id] < want[id]:
				if !done[comp[x]] {
					done[comp[x]] = true
					r.explain(opName, comp[x], missKind, fmt.Sprintf("%s is missing from the result (%d of %d copies)", r.describe(x), gotCount[id], want[id]))
				}
			case gotCount[id] > want[id]:
				if want[id] > 0 {
					r.violate("set-operator-all:rows-multiplied:"+opName, fmt.Sprintf("%s returns %d copies of %s, the left operand holds %d", opName, gotCount[id], r.describe(x), want[id]))
				} else if !done[comp[x]] {
					done[comp[x]] = true
					r.explain(opName, comp[x], extraKind, fmt.Sprintf("%s is in the result but should not be", r.describe(x)))
				}
			}
		}
		return
	}

	cnt := map[int]int{}
	for id, k := range gotCount {
		cnt[comp[identL[id]]] += k
	}
	comps := []int{}
	src := inL
	if rule == "union" {
		src = map[int][]int{}
		for c, xs := range inL {
			src[c] = append(src[c], xs...)
		}
		for c, xs := range inR {
			src[c] = append(src[c], xs...)
		}
	}
	for c := range src {
		comps = append(comps, c)
	}
	sort.Ints(comps)
	for _, c := range comps {
		exp := expected(c)
		k := cnt[c]
		switch {
		case exp && k == 0:
			r.explain(opName, c, missKind, "no row of a bucket that must be represented is in the result")
		case !exp && k > 0:
			r.explain(opName, c, extraKind, "a row of a bucket that must not be represented is in the result")
		case k > 1:
			r.explain(opName, c, "bucket-split", fmt.Sprintf("%d rows of one bucket are in the result", k))
		}
	}
}

func (r *c04Runner) allRows() []int {
	out := make([]int, len(r.t.rows))
	for i := range out {
		out[i] = i
	}
	return out
}

func (r *c04Runner) side(bit, val int) []int {
	out := []int{}
	for i := range r.t.rows {
		if (i>>bit)&1 == val {
			out = append(out, i)
		}
	}
	return out
}

func (r *c04Runner) opDistinct() {
	rows, ok := r.query("DISTINCT", "SELECT DISTINCT "+r.t.keys()+" FROM t")
	if ok {
		r.checkReps("DISTINCT", "union", false, rows, r.allRows(), nil)
	}
}

func (r *c04Runner) opUnion() {
	k := r.t.keys()
	l, rr := r.side(0, 0), r.side(0, 1)
	if rows, ok := r.query("UNION", "SELECT "+k+" FROM t WHERE b0 = 0 UNION SELECT "+k+" FROM t WHERE b0 = 1"); ok {
		r.checkReps("UNION", "union", false, rows, l, rr)
	}
	if rows, ok := r.query("UNION", "SELECT "+k+" FROM t UNION SELECT "+k+" FROM t WHERE b0 = 1"); ok {
		r.checkReps("UNION", "union", false, rows, r.allRows(), rr)
	}
	if rows, ok := r.query("UNION ALL", "SELECT "+k+" FROM t WHERE b0 = 0 UNION ALL SELECT "+k+" FROM t WHERE b0 = 1"); ok {
		r.checkReps("UNION ALL", "union", true, rows, l, rr)
	}
	// an operand without rows: the rows of the other one still have to be bucketed
	all, none := "SELECT "+k+" FROM t", "SELECT "+k+" FROM t WHERE id < 0"
	for _, e := range []struct {
		op, kind string
		all      bool
		lq, rq   string
		l, rr    []int
	}{
		{"UNION", "union", false, all, none, r.allRows(), nil},
		{"UNION", "union", false, none, all, nil, r.allRows()},
		{"UNION ALL", "union", true, all, none, r.allRows(), nil},
		{"EXCEPT", "except", false, all, none, r.allRows(), nil},
		{"EXCEPT ALL", "except", true, all, none, r.allRows(), nil},
		{"EXCEPT", "except", false, none, all, nil, r.allRows()},
		{"INTERSECT", "intersect", false, all, none, r.allRows(), nil},
		{"INTERSECT", "intersect", false, none, all, nil, r.allRows()},
	} {
		if rows, ok := r.query(e.op, e.lq+" "+e.op+" "+e.rq); ok {
			r.checkReps(e.op, e.kind, e.all, rows, e.l, e.rr)
		}
	}
	if rows, ok := r.query("UNION", "SELECT COUNT(*) FROM ("+all+" UNION "+none+") s"); ok && len(rows) == 1 {
		if rows2, ok2 := r.query("DISTINCT", "SELECT COUNT(*) FROM (SELECT DISTINCT "+k+" FROM t) s"); ok2 && len(rows2) == 1 && fmt.Sprint(rows[0]) != fmt.Sprint(rows2[0]) {
			r.violate("union:empty-operand:count-differs-from-distinct", fmt.Sprintf("COUNT(*) over t UNION (no rows) = %v, over SELECT DISTINCT = %v", rows[0], rows2[0]))
		}
	}
}

func (r *c04Runner) opSet(bit int) {
	k := r.t.keys()
	for dir := 0; dir < 2; dir++ {
		l, rr := r.side(bit, dir), r.side(bit, 1-dir)
		lq := fmt.Sprintf("SELECT %s FROM t WHERE b%d = %d", k, bit, dir)
		rq := fmt.Sprintf("SELECT %s FROM t WHERE b%d = %d", k, bit, 1-dir)
		if rows, ok := r.query("EXCEPT", lq+" EXCEPT "+rq); ok {
			r.checkReps("EXCEPT", "except", false, rows, l, rr)
		}
		if rows, ok := r.query("INTERSECT", lq+" INTERSECT "+rq); ok {
			r.checkReps("INTERSECT", "intersect", false, rows, l, rr)
		}
		if bit == 0 {
			if rows, ok := r.query("EXCEPT ALL", lq+" EXCEPT ALL "+rq); ok {
				r.checkReps("EXCEPT ALL", "except", true, rows, l, rr)
			}
			if rows, ok := r.query("INTERSECT ALL", lq+" INTERSECT ALL "+rq); ok {
				r.checkReps("INTERSECT ALL", "intersect", true, rows, l, rr)
			}
		}
	}
}

// PARTITION BY: three analytic functions over the same partition; the second sorts the rows by o (a permutation),
// the third runs after the rows were permuted.
func (r *c04Runner) opPartition() {
	t := r.t
	n := len(t.rows)
	k := t.keys()
	u4 := "ucat(id) OVER (PARTITION BY " + k + ")"
	if t.u.pairMode {
		// the user-defined aggregate as an analytic function costs about 1 ms per call; the 2-row tables use SUM instead
		u4 = "10000000 * COUNT(id) OVER (PARTITION BY " + k + ") + SUM(id) OVER (PARTITION BY " + k + ")"
	}
	q := "SELECT id, COUNT(id) OVER (PARTITION BY " + k + ") AS n1, LISTAGG(id, ',') OVER (PARTITION BY " + k + " ORDER BY o) AS l2, " +
		"MIN(id) OVER (PARTITION BY " + k + ") AS m3, " + u4 + " AS u4, " + k + " FROM t"
	rows, ok := r.query("PARTITION BY", q)
	if !ok {
		return
	}
	if len(rows) != n {
		r.violate("partition-by:row-count", fmt.Sprintf("analytic query returns %d rows for a table of %d", len(rows), n))
		return
	}
	bucketOf := make([]int, n)
	for i := range bucketOf {
		bucketOf[i] = -1
	}
	names := map[string]int{}
	lists := map[string][]int{}
	for _, row := range rows {
		id64, ok := row[0].StrictInt()
		id := int(id64)
		if !ok || id < 0 || id >= n || bucketOf[id] != -1 {
			r.violate("partition-by:row-count", fmt.Sprintf("analytic query returns id %s twice or out of range", row[0].Key()))
			return
		}
		if c04Ident(row[5:5+t.u.arity]) != t.ident[id] {
			r.violate("partition-by:row-changed", fmt.Sprintf("analytic query shows key (%s) for %s", strings.ReplaceAll(c04Ident(row[5:5+t.u.arity]), "\x1f", ", "), r.describe(id)))
			return
		}
		ids, ok := c04ParseIDs(row[2], n)
		if !ok {
			r.violate("partition-by:id-list-unreadable", fmt.Sprintf("LISTAGG(id) OVER of %s is %s", r.describe(id), row[2].Key()))
			return
		}
		key := fmt.Sprint(ids)
		b, seen := names[key]
		if !seen {
			b = len(names)
			names[key] = b
			lists[key] = ids
		}
		bucketOf[id] = b
		self := false
		sum := 0
		for _, x := range ids {
			if x == id {
				self = true
			}
			sum += x
		}
		if !self {
			r.violate("partition-by:row-not-in-own-partition", fmt.Sprintf("the partition listed for %s is %v", r.describe(id), c04Trunc(ids)))
			return
		}
		// the three other functions must have seen the same partition
		if c, ok := row[1].StrictInt(); !ok || int(c) != len(ids) {
			r.violate("partition-by:functions-disagree", fmt.Sprintf("for %s: LISTAGG(id) OVER (PARTITION BY … ORDER BY o) lists %v but COUNT(id) OVER (PARTITION BY …) in the same SELECT is %s", r.describe(id), c04Trunc(ids), row[1].Key()))
		}
		if mn, ok := row[3].StrictInt(); !ok || int(mn) != ids[0] {
			r.violate("partition-by:functions-disagree", fmt.Sprintf("for %s: LISTAGG(id) OVER (PARTITION BY … ORDER BY o) lists %v but MIN(id) OVER (PARTITION BY …) evaluated after it is %s", r.describe(id), c04Trunc(ids), row[3].Key()))
		}
		want := bucket.Agg{Kind: "approx", V: rv.Fl(float64(len(ids))*1e7 + float64(sum))}
		if !want.Matches(row[4]) {
			r.violate("partition-by:functions-disagree", fmt.Sprintf("for %s: LISTAGG(id) OVER lists %v but the user-defined aggregate over the same partition is %s (count*10^7+sum expected %s)", r.describe(id), c04Trunc(ids), row[4].Key(), want.String()))
		}
	}
	// every member of a listed partition must list the same partition
	for key, b := range names {
		ids := lists[key]
		for _, x := range ids {
			if bucketOf[x] != b {
				r.violate("partition-by:not-a-partition", fmt.Sprintf("%s is listed in the partition %v but lists another partition itself", r.describe(x), c04Trunc(ids)))
				return
			}
		}
	}
	r.comparePartition("PARTITION BY", bucketOf)
}

// ---- enumeration ---------------------------------------------------------------------------------

func c04Ops(t *c04Table) []string {
	ops := []string{"group", "distinct", "union", "partition"}
	for b := 0; b < t.nbits; b++ {
		ops = append(ops, "set"+strconv.Itoa(b))
	}
	if t.u.meas {
		ops = append(ops, "agg", "empty")
	}
	return ops
}

func (r *c04Runner) runOp(op string) {
	r.op = op
	switch {
	case op == "group":
		r.opGroup()
	case op == "distinct":
		r.opDistinct()
	case op == "union":
		r.opUnion()
	case op == "partition":
		r.opPartition()
	case op == "agg":
		r.opAgg()
	case op == "empty":
		r.opEmpty()
	case strings.HasPrefix(op, "set"):
		b, _ := strconv.Atoi(op[3:])
		r.opSet(b)
	}
}

func (r *c04Runner) setMode(mode int) bool {
	r.mode = mode
	r.t.prepare(mode)
	if r.c.IsReplay {
		fmt.Printf("  reference partition (%s) ready at %s: %d buckets\n", c04ModeName(mode), time.Now().Format("15:04:05.000"), r.t.ncomp[mode])
	}
	q := "SET @@STRICT_EQUAL TO FALSE;"
	if mode == 1 {
		q = "SET @@STRICT_EQUAL TO TRUE;"
	}
	res := r.env.Exec(q)
	if res.Err != nil || res.Panic != nil || r.env.Tx.Flags.StrictEqual != (mode == 1) {
		r.c.Violate("harness:cannot-set-strict-equal", fmt.Sprintf("%s: %v %v", q, res.Err, res.Panic), r.payload())
		return false
	}
	return true
}

func c04B2I(b bool) int64 {
	if b {
		return 1
	}
	return 0
}

func c04NonTrivial(t *c04Table) bool {
	for _, id := range t.ident {
		if id != t.ident[0] {
			return true
		}
	}
	return false
}

type c04Worker struct {
	c        *core.Ctx
	dir      string
	env      *drv.Env // pair universes share one process image
	declared bool
	sampled  map[string]bool
}

func (w *c04Worker) freshEnv() *drv.Env {
	drv.ClearDir(w.dir)
	env := drv.New(w.dir)
	if res := env.Exec(c04UserAgg); res.Err != nil || res.Panic != nil {
		panic(fmt.Sprint("harness: user aggregate does not declare: ", res.Err, res.Panic))
	}
	return env
}

// runTable executes the selected (mode, op) tasks of one table; filter==nil means all.
func (w *c04Worker) runTable(t *c04Table, reuseEnv bool, want func(mode int, op string) bool) {
	c := w.c
	var env *drv.Env
	if reuseEnv {
		if w.env == nil {
			w.env = w.freshEnv()
			w.declared = false
		}
		env = w.env
	} else {
		env = w.freshEnv()
		defer env.Close()
		declared := false
		if err := t.load(env, &declared); err != nil {
			c.Violate("harness:table-not-loaded-as-intended", err.Error()+fmt.Sprintf(" [%s(%d,%d)]", t.u.name, t.pl.I, t.pl.J), t.pl)
			c.Incomplete("a table did not load as intended; its cases are not covered")
			return
		}
	}
	if reuseEnv {
		if err := t.load(env, &w.declared); err != nil {
			c.Violate("harness:table-not-loaded-as-intended", err.Error()+fmt.Sprintf(" [%s(%d,%d)]", t.u.name, t.pl.I, t.pl.J), t.pl)
			c.Incomplete("a table did not load as intended; its cases are not covered")
			w.env.Close()
			w.env = nil
			return
		}
	}
	if c.IsReplay {
		fmt.Printf("  table loaded and read back at %s\n", time.Now().Format("15:04:05.000"))
	}
	r := &c04Runner{c: c, t: t, env: env}
	nt := c04NonTrivial(t)
	n := int64(len(t.rows))
	for mode := 0; mode < 2; mode++ {
		modeSet := false
		for _, op := range c04Ops(t) {
			if want != nil && !want(mode, op) {
				continue
			}
			if !modeSet {
				if !r.setMode(mode) {
					return
				}
				modeSet = true
			}
			before := c.NViolations()
			t0 := time.Now()
			r.runOp(op)
			if c.IsReplay {
				fmt.Printf("  %s %-10s %8.1f ms, %d queries so far\n", c04ModeName(mode), op, float64(time.Since(t0).Microseconds())/1000, r.nquery)
			}
			c.EvalN(1, c04B2I(nt))
			c.Add("row_pairs_decided", n*(n-1)/2)
			if !t.trans[mode] {
				c.Add("cases_on_tables_where_equality_is_not_transitive", 1)
			}
			if c.WantSample() && nt && c.NViolations() == before && !w.sampled[t.u.name] && (!t.u.pairMode || (t.pl.I%7 == 3 && t.pl.J%5 == 1)) {
				w.sampled[t.u.name] = true
				c.Sample(map[string]any{"universe": t.u.name, "table": []int{t.pl.I, t.pl.J}, "rows": len(t.rows), "mode": c04ModeName(mode), "op": op,
					"reference_buckets": t.ncomp[mode], "first_rows": r.describe(0, len(t.rows)-1), "agrees": true})
			}
		}
	}
	c.Add("queries", r.nquery)
	c.Add("tables", 1)
	c.Max("max_table_rows", n)
}

func c04Run(c *core.Ctx) {
	w := &c04Worker{c: c, dir: core.Scratch("c04"), sampled: map[string]bool{}}
	defer func() {
		if w.env != nil {
			w.env.Close()
		}
	}()
	us := c04Universes(c.Thorough())
	for _, u := range us {
		c.Info("universe_"+u.name, fmt.Sprintf("%d cell values, %d rows, arity %d, %s source", len(u.alpha), len(u.rows), u.arity, u.source))
	}
	var caseNo int64
	for _, u := range us {
		nu := u.nUnits()
		t0 := time.Now()
		defer func(name string) { c.Add("worker_wall_ms_"+name, 0) }(u.name)
		for i := 0; i < nu; i++ {
			for j := i; j < nu; j++ {
				if c.Expired() {
					c.Incomplete(fmt.Sprintf("time budget reached in universe %s at table (%d,%d) of %d units", u.name, i, j, nu))
					return
				}
				if u.pairMode || nu*(nu+1)/2 >= 48 {
					// many tables: one table (all its operators and modes) per worker
					caseNo++
					if !c.Mine(caseNo) {
						continue
					}
					t := c04NewTable(u, i, j, c.Thorough())
					w.runTable(t, u.pairMode, nil)
					continue
				}
				// block tables: shard by (mode, op) so that one big table is spread over the workers
				var t *c04Table
				base := caseNo
				probe := c04NewTableShape(u, i, j)
				nops := int64(len(probe))
				caseNo += 2 * nops
				mine := map[string]bool{}
				for mode := 0; mode < 2; mode++ {
					for k, op := range probe {
						if c.Mine(base + int64(mode)*nops + int64(k) + 1) {
							mine[strconv.Itoa(mode)+op] = true
						}
					}
				}
				if len(mine) == 0 {
					continue
				}
				t = c04NewTable(u, i, j, c.Thorough())
				w.runTable(t, false, func(mode int, op string) bool { return mine[strconv.Itoa(mode)+op] })
			}
		}
		c.Add("worker_wall_ms_"+u.name, time.Since(t0).Milliseconds())
	}
}

// the op list of a block table without building it
func c04NewTableShape(u *c04Universe, i, j int) []string {
	n := len(u.chunkRows(i, j))
	t := &c04Table{u: u, nbits: 1}
	for (1 << t.nbits) < n {
		t.nbits++
	}
	return c04Ops(t)
}

func c04Replay(c *core.Ctx, payload json.RawMessage) {
	var tp c04TrimPayload
	if json.Unmarshal(payload, &tp) == nil && tp.Family == "trim" {
		fmt.Printf("replaying trim family pair (%q, %q), strict=%v\n", tp.X, tp.Y, tp.Strict)
		c04TrimPair(c, core.Scratch("c04trim"), tp.X, tp.Y, tp.Strict)
		return
	}
	var sp c04SwitchCase
	if json.Unmarshal(payload, &sp) == nil && sp.Family == "switch" && sp.Primer >= 0 && sp.Primer < len(c04SwitchPrimers) {
		fmt.Printf("replaying switch family case %+v\n", sp)
		dir := core.Scratch("c04switch")
		if err := c04SwitchPrepare(dir); err != nil {
			fmt.Println("replay: cannot write the tables:", err)
			return
		}
		c04SwitchOne(c, dir, sp, nil)
		return
	}
	var p c04Payload
	if err := json.Unmarshal(payload, &p); err != nil {
		fmt.Println("bad payload:", err)
		return
	}
	for _, u := range c04Universes(p.Thorough) {
		if u.name != p.Universe {
			continue
		}
		if p.I >= u.nUnits() || p.J >= u.nUnits() {
			fmt.Println("replay: the universe no longer has this table")
			return
		}
		t := c04NewTable(u, p.I, p.J, p.Thorough)
		fmt.Printf("replaying %s table (%d,%d): %d rows, mode %s, operator %s\n", u.name, p.I, p.J, len(t.rows), p.Mode, p.Op)
		if len(t.rows) <= 4 {
			r := &c04Runner{t: t}
			fmt.Println("  ", r.describe(r.allRows()...))
		}
		w := &c04Worker{c: c, dir: core.Scratch("c04"), sampled: map[string]bool{}}
		w.runTable(t, false, func(mode int, op string) bool {
			return (p.Mode == "" || c04ModeName(mode) == p.Mode) && (p.Op == "" || op == p.Op)
		})
		return
	}
	fmt.Println("replay: unknown universe", p.Universe)
}
