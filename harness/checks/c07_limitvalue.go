package checks

import (
	"encoding/json"
	"fmt"
	"math"
	"strings"
	"time"

	"github.com/mithrandie/csvq/lib/value"

	"verif/harness/internal/core"
	"verif/harness/internal/drv"
	"verif/harness/internal/ordref"
	"verif/harness/internal/rv"
)

// Extra family for C07: the number of LIMIT / OFFSET / FETCH written otherwise than as a small integer literal:
// integers at the bounds of 64 bits, floats (integral, fractional, beyond the 64-bit range, negative beyond it),
// numeric strings, an expression, a variable. The property quantifies over "all limit/offset/percent values incl.
// 0, negatives and values beyond the row count".
//
// Oracle: every value has a list of admissible integer readings and a flag telling whether an error is admissible
// too. An integer (literal, expression, integer string: the manual's automatic conversion) has exactly one reading
// and must not fail. For a float the manual's syntax asks for an integer and its conversion table turns a float
// into NULL, while csvq takes the integral part: both are accepted (an error, or the window of the truncated or
// the rounded number). A number beyond the 64-bit range is a count beyond every row count (negative: below zero)
// or an error. What no reading allows is a silently different window (LIMIT 1e19 returning no row).
func init() {
	core.Extend("C07", "family limitvalue: 14 spellings of the number (64-bit bounds, floats 2.0 / 1.9 / 1e18 / 9.3e18 / 1e19 / -1e19, strings '2' / '2.0' / '1e19', 1+1, a variable holding 1e19) "+
		"x 8 places (LIMIT, LIMIT WITH TIES, OFFSET, LIMIT v OFFSET 1, LIMIT 1 OFFSET v, FETCH FIRST v, OFFSET v FETCH, both) x 3 key lists x every table of up to 3 rows (thorough 4) over k1 in {NULL,1,2} x k2 in {a,b}, "+
		"and the percentages 1e19 and -1e19; reference: the window of one of the value's admissible integer readings, or an error where the value is not an integer", c07LimitValueRun)
	c07MoreReplays = append(c07MoreReplays, c07LimitValueReplay)
}

type c07LimVal struct {
	text     string
	class    string  // for the signature
	readings []int64 // admissible integer readings (MaxInt64 stands for "beyond every row count")
	errOK    bool    // an error is an admissible answer (the value is not an integer)
}

var c07LimVals = []c07LimVal{
	{"2", "integer", []int64{2}, false},
	{"1+1", "integer expression", []int64{2}, false},
	{"'2'", "integer string", []int64{2}, false},
	{"9223372036854775807", "integer at the 64-bit bound", []int64{math.MaxInt64}, false},
	{"-9223372036854775807", "integer at the 64-bit bound", []int64{-1}, false},
	{"2.0", "integral float", []int64{2}, true},
	{"'2.0'", "integral float", []int64{2}, true},
	{"1.9", "fractional float", []int64{1, 2}, true},
	{"1e18", "integral float", []int64{1000000000000000000}, true},
	{"9.3e18", "float beyond 64 bits", []int64{math.MaxInt64}, true},
	{"1e19", "float beyond 64 bits", []int64{math.MaxInt64}, true},
	{"'1e19'", "float beyond 64 bits", []int64{math.MaxInt64}, true},
	{"@big", "float beyond 64 bits", []int64{math.MaxInt64}, true},
	{"-1e19", "float beyond 64 bits", []int64{-1}, true},
}

// the places of the value: which of the two numbers of the clause it replaces
var c07LimPlaces = []struct {
	name    string
	lim     ordref.Limit // N / Off = -7 marks the slot(s) the value is written into
	limSlot bool
	offSlot bool
}{
	{"LIMIT", ordref.Limit{Kind: ordref.LimRows}, true, false},
	{"LIMIT WITH TIES", ordref.Limit{Kind: ordref.LimRows, Ties: true}, true, false},
	{"OFFSET", ordref.Limit{Kind: ordref.LimNone, HasOff: true}, false, true},
	{"LIMIT v OFFSET 1", ordref.Limit{Kind: ordref.LimRows, HasOff: true, Off: 1}, true, false},
	{"LIMIT 1 OFFSET v", ordref.Limit{Kind: ordref.LimRows, N: 1, HasOff: true}, false, true},
	{"FETCH FIRST v", ordref.Limit{Kind: ordref.LimRows, Fetch: true}, true, false},
	{"OFFSET v FETCH", ordref.Limit{Kind: ordref.LimRows, N: 1, HasOff: true, Fetch: true}, false, true},
	{"LIMIT v OFFSET v", ordref.Limit{Kind: ordref.LimRows, Ties: true, HasOff: true}, true, true},
}

const c07SlotMark = -7777

// c07LimValSQL renders the clause with the value's text in its slot(s).
func c07LimValSQL(keys []ordref.Key, place int, text string) string {
	p := c07LimPlaces[place]
	l := p.lim
	if p.limSlot {
		l.N = c07SlotMark
	}
	if p.offSlot {
		l.Off = c07SlotMark
	}
	q := c07Query{Keys: keys, Lim: l}
	return strings.ReplaceAll(q.SQL(), fmt.Sprint(c07SlotMark), text)
}

type c07LimValCase struct {
	Family string       `json:"family"`
	Rows   [][]string   `json:"rows"`
	Keys   []ordref.Key `json:"keys"`
	Place  int          `json:"place"`
	Value  int          `json:"value"`
	SQL    string       `json:"sql"`
}

func c07LimValOne(c *core.Ctx, tbl []ordref.Row, keys []ordref.Key, place, vi int, sql string, out [][]rv.V, err error, pn any) bool {
	v := c07LimVals[vi]
	p := c07LimPlaces[place]
	payload := func() c07LimValCase {
		k := c07LimValCase{Family: "limitvalue", Keys: keys, Place: place, Value: vi, SQL: sql}
		for _, r := range tbl {
			k.Rows = append(k.Rows, []string{r.V[0].Key(), r.V[1].Key()})
		}
		return k
	}
	if v.errOK && err != nil && pn == nil && !drv.IsFatal(err) {
		c.Add("limitvalue_refused_with_an_error", 1)
		return len(tbl) > 0
	}
	firstSig, firstMsg := "", ""
	nontrivial := false
	for _, n := range v.readings {
		l := p.lim
		if p.limSlot {
			l.N = n
		}
		if p.offSlot {
			l.Off = n
		}
		sig, msg, nt := c07Assess(nil, "view", tbl, c07Query{Keys: keys, Lim: l}, sql, out, err, pn, nil)
		nontrivial = nontrivial || nt
		if sig == "" {
			return nontrivial
		}
		if firstSig == "" {
			firstSig, firstMsg = sig, msg
		}
	}
	// the class of the disagreement without the clause form (the place names it)
	parts := strings.SplitN(firstSig, ":", 3)
	if len(parts) > 2 {
		firstSig = parts[0] + ":" + parts[1]
	}
	c.Violate("limitvalue:"+v.class+":"+p.name+":"+firstSig,
		fmt.Sprintf("%s [the number %s read as %v; every admissible reading disagrees, the first one: the documented window is that of %d]", firstMsg, v.text, v.readings, v.readings[0]), payload())
	return true
}

func c07LimValKeyLists() [][]ordref.Key {
	cut := c07CutKeyLists()
	return [][]ordref.Key{nil, cut[1], cut[4]}
}

func c07LimitValueRun(c *core.Ctx) {
	if !c07Only(c, "limitvalue") {
		return
	}
	maxRows := 3
	if c.Thorough() {
		maxRows = 4
	}
	type one struct {
		keys      []ordref.Key
		place, vi int
		sql       string
	}
	var qs []one
	lists := c07LimValKeyLists()
	for _, kl := range lists {
		for p := range c07LimPlaces {
			for vi, v := range c07LimVals {
				qs = append(qs, one{kl, p, vi, c07LimValSQL(kl, p, v.text)})
			}
		}
	}
	// percentages beyond every sensible range: the ordinary predicate (PERCENT takes a float)
	var pq []c07Query
	for _, kl := range lists {
		for _, pct := range []string{"1e19", "-1e19"} {
			for _, off := range []bool{false, true} {
				pq = append(pq, c07Query{Keys: kl, Lim: ordref.Limit{Kind: ordref.LimPercent, Pct: pct, HasOff: off, Off: 1}})
			}
		}
	}
	c.Info("limitvalue", fmt.Sprintf("%d spellings x %d places x %d key lists + %d percent queries per table; k1 in %v, k2 in [a b], all row sequences of 0..%d rows", len(c07LimVals), len(c07LimPlaces), len(lists), len(pq), c07Num3, maxRows))
	r := newC07Runner(core.Scratch("c07limitvalue"))
	defer r.close()
	r.env.SetVar("big", value.NewFloat(1e19))
	t0 := time.Now()
	c07Tables(c07Num3, []rv.V{rv.S("a"), rv.S("b")}, maxRows, func(idx int64, tbl []ordref.Row) bool {
		if !c.Mine(idx) {
			return true
		}
		if c07Grace(c) {
			c.Incomplete("time budget reached in family limitvalue")
			return false
		}
		r.load(tbl)
		var nt int64
		for _, q := range qs {
			out, err, pn := r.query(q.sql)
			if c07LimValOne(c, tbl, q.keys, q.place, q.vi, q.sql, out, err, pn) {
				nt++
			}
		}
		for _, q := range pq {
			out, err, pn := r.query(q.SQL())
			if c07Judge(c, "limitvalue", "view", tbl, q, out, err, pn, nil) {
				nt++
			}
		}
		c.EvalN(int64(len(qs)+len(pq)), nt)
		c.Add("tables", 1)
		return true
	})
	c.Max("max_ms_limitvalue", time.Since(t0).Milliseconds())
}

func c07LimitValueReplay(c *core.Ctx, payload json.RawMessage) bool {
	var k c07LimValCase
	if json.Unmarshal(payload, &k) != nil || k.Family != "limitvalue" || k.Place < 0 || k.Place >= len(c07LimPlaces) || k.Value < 0 || k.Value >= len(c07LimVals) {
		return false
	}
	vals := c07AllValues()
	tbl := make([]ordref.Row, len(k.Rows))
	for i, row := range k.Rows {
		tbl[i] = ordref.Row{ID: i}
		for _, key := range row {
			v, ok := vals[key]
			if !ok {
				fmt.Println("replay: unknown value", key)
				return true
			}
			tbl[i].V = append(tbl[i].V, v)
		}
	}
	sql := c07LimValSQL(k.Keys, k.Place, c07LimVals[k.Value].text)
	fmt.Printf("replaying family limitvalue: %s on view table %s\n", sql, c07RowsText(tbl))
	r := newC07Runner(core.Scratch("c07limitvalue-replay"))
	defer r.close()
	r.env.SetVar("big", value.NewFloat(1e19))
	r.load(tbl)
	out, err, pn := r.query(sql)
	fmt.Printf("csvq: rows %s err %v panic %v\n", drv.RowsKey(out), firstLine(err), pn)
	c07LimValOne(c, tbl, k.Keys, k.Place, k.Value, sql, out, err, pn)
	return true
}
