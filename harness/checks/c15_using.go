package checks

import (
	"encoding/json"
	"fmt"
	"strings"

	"verif/harness/internal/core"
	"verif/harness/internal/drv"
)

// Extra family for C15: the USING values of EXECUTE. The manual: "Execute the statement using embedded values";
// a replace value is a value of the EXECUTE statement, like the argument of a function call. The statements of
// the prepared statement may declare, inside their own IF / CASE / WHILE blocks and functions, objects named like
// the ones the value names. Such a declaration "shadows, without modifying, an outer object of the same name" for
// the statements of its block - it does not change what a value written in the EXECUTE statement, outside that
// block, means. Oracle: every placeholder gives the value the expression has where EXECUTE stands (the same
// value that EXECUTE ... USING @tmp gives after VAR @tmp := <expression>), and after EXECUTE the expression
// still has that value.
func init() {
	core.Extend("C15", "family using: EXECUTE ... USING <value> where the value names a variable (alone / in an expression), a function or a cursor, and the prepared statement re-declares that name "+
		"in an IF, CASE, WHILE, WHILE VAR .. IN, function parameter, function body or IF inside a function, before or after the placeholder or not at all x positional / named placeholder x value written directly or passed through a variable; "+
		"oracle: the placeholder gives the value of the expression in the scope of the EXECUTE statement", c15UsingRun)
}

type c15UKind struct {
	name  string
	outer string // declarations of the outer object (before PREPARE)
	value string // the USING value
	want  string // its value in the scope of EXECUTE
	inner string // re-declaration of the same name, for the prepared statement (no quotes)
}

var c15UKinds = []c15UKind{
	{"variable", "VAR @x := 1;", "@x", "1", "VAR @x := 5;"},
	{"variable-in-expression", "VAR @x := 1;", "@x + 10", "11", "VAR @x := 5;"},
	{"function", "DECLARE fx FUNCTION () AS BEGIN RETURN 1; END;", "fx()", "1", "DECLARE fx FUNCTION () AS BEGIN RETURN 5; END;"},
	{"cursor", "DECLARE cx CURSOR FOR SELECT 1; OPEN cx;", "CURSOR cx COUNT", "1", "DECLARE cx CURSOR FOR SELECT 1 UNION ALL SELECT 2; OPEN cx;"},
}

// blocks of the prepared statement: $D = the re-declaration (or nothing), $P = PRINT of the placeholder;
// prints = how many times the placeholder is printed
var c15UBlocks = []struct {
	name, text string
	prints     int
	onlyVar    bool
}{
	{"if", "IF TRUE THEN $D $P END IF;", 1, false},
	{"case", "CASE WHEN FALSE THEN PRINT 0; ELSE $D $P END CASE;", 1, false},
	{"while", "VAR @i9 := 0; WHILE @i9 < 2 DO @i9 := @i9 + 1; $D $P END WHILE;", 2, false},
	{"function-body", "DECLARE g9 FUNCTION () AS BEGIN $D $P RETURN 0; END; VAR @r9 := g9();", 1, false},
	{"if-in-function", "DECLARE g9 FUNCTION () AS BEGIN IF TRUE THEN $D $P END IF; RETURN 0; END; VAR @r9 := g9();", 1, false},
	{"nested-if", "IF TRUE THEN $D IF TRUE THEN $P END IF; END IF;", 1, false},
	// the loop variable / the parameter IS the re-declaration
	{"while-var-in", "DECLARE cw9 CURSOR FOR SELECT 5 UNION ALL SELECT 6; OPEN cw9; WHILE VAR @x IN cw9 DO $P END WHILE;", 2, true},
	{"function-parameter", "DECLARE g9 FUNCTION (@x) AS BEGIN $P RETURN 0; END; VAR @r9 := g9(5);", 1, true},
}

var c15UWhere = []string{"before-placeholder", "after-placeholder", "not-redeclared"}

type c15UCase struct {
	Family  string   `json:"family"`
	Kind    string   `json:"kind"`
	Block   string   `json:"block"`
	Where   string   `json:"where"`
	Named   bool     `json:"named_placeholder"`
	Through bool     `json:"value_through_variable"`
	SQL     string   `json:"sql"`
	Want    []string `json:"want"`
}

func c15UsingCases() []c15UCase {
	var out []c15UCase
	for _, k := range c15UKinds {
		for _, b := range c15UBlocks {
			if b.onlyVar && !strings.HasPrefix(k.name, "variable") {
				continue
			}
			for _, where := range c15UWhere {
				if b.onlyVar && where != "before-placeholder" {
					continue
				}
				for _, named := range []bool{false, true} {
					for _, through := range []bool{false, true} {
						ph, as := "?", ""
						if named {
							ph, as = ":pv", " AS pv"
						}
						text := b.text
						switch where {
						case "before-placeholder":
							text = strings.ReplaceAll(text, "$D", k.inner)
							text = strings.ReplaceAll(text, "$P", "PRINT "+ph+";")
						case "after-placeholder":
							text = strings.ReplaceAll(text, "$D", "")
							text = strings.ReplaceAll(text, "$P", "PRINT "+ph+"; "+k.inner)
						default:
							text = strings.ReplaceAll(text, "$D", "")
							text = strings.ReplaceAll(text, "$P", "PRINT "+ph+";")
						}
						value := k.value
						pre := ""
						if through {
							pre, value = "VAR @tmp9 := "+k.value+";\n", "@tmp9"
						}
						sql := k.outer + "\nPREPARE s FROM '" + text + "';\n" + pre + "EXECUTE s USING " + value + as + ";\nPRINT " + k.value + ";\n"
						want := []string{}
						for i := 0; i <= b.prints; i++ {
							want = append(want, k.want)
						}
						out = append(out, c15UCase{Family: "using", Kind: k.name, Block: b.name, Where: where, Named: named, Through: through, SQL: sql, Want: want})
					}
				}
			}
		}
	}
	return out
}

func c15UsingOne(c *core.Ctx, dir string, k c15UCase) {
	c.Eval(fmt.Sprintf("using|%s|%s|%s|%v|%v", k.Kind, k.Block, k.Where, k.Named, k.Through), k.Where == "before-placeholder")
	for run := 0; run < 2; run++ { // twice on one process image
		env := drv.NewText(dir)
		env.Tx.Flags.SetQuiet(true)
		r := env.Exec(k.SQL)
		env.Close()
		var got []string
		for _, l := range strings.Split(strings.TrimSpace(r.Out), "\n") {
			got = append(got, strings.TrimSpace(l))
		}
		if r.Err == nil && r.Panic == nil && strings.Join(got, "|") == strings.Join(k.Want, "|") {
			continue
		}
		what := "the placeholder gives another value than the expression has in the scope of the EXECUTE statement"
		switch {
		case r.Err != nil || r.Panic != nil:
			what = "error or panic"
		case k.Through:
			what += " (also when the value is passed through a variable)"
		case k.Where != "before-placeholder":
			what += " (without a re-declaration before the placeholder)"
		}
		c.Violate("using:"+k.Kind+": "+what,
			fmt.Sprintf("value names a %s, prepared statement re-declares it (%s) in block %s, named placeholder %v\n%sprints %v (err=%v panic=%v); the value of the expression where EXECUTE stands is %s: expected %v",
				k.Kind, k.Where, k.Block, k.Named, k.SQL, got, r.Err, r.Panic, k.Want[0], k.Want), k)
		return
	}
}

func c15UsingRun(c *core.Ctx) {
	if c15Skip(c, "using") {
		return
	}
	dir := core.Scratch("c15using")
	for i, k := range c15UsingCases() {
		if !c.Mine(int64(i)) {
			continue
		}
		c15UsingOne(c, dir, k)
		if c.WantSample() && k.Where == "before-placeholder" && !k.Through {
			c.Sample(k)
		}
	}
}

func c15UsingReplay(c *core.Ctx, payload json.RawMessage) bool {
	var k c15UCase
	if json.Unmarshal(payload, &k) != nil || k.Family != "using" {
		return false
	}
	fmt.Printf("replaying family using: %s / %s / %s\n%s", k.Kind, k.Block, k.Where, k.SQL)
	c15UsingOne(c, core.Scratch("c15using-replay"), k)
	return true
}
