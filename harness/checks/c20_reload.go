//go:build verifx

package checks

import (
	"encoding/json"
	"fmt"
	"strconv"
	"strings"

	"verif/harness/internal/core"
	"verif/harness/internal/drv"
)

// Extra family for C20: the documented exception itself - "when trying to update a file that has been loaded by a
// SELECT query, the file will be reloaded" - over the file formats and over the kinds of change another process can
// commit between the plain SELECT and the locking access: not only other values in the same shape, but wider values,
// more rows, another column set, no rows, another encoding / line break / quoting / header / delimiter / format
// (ALTER TABLE ... SET). After the reload the transaction works on the CURRENT file: its locking statement and its
// next read give what they give in a transaction that starts now (a new process, same table expression, same flags,
// same statements) - whatever was detected from the contents the file had at the first load.
func init() {
	core.Extend("C20", "family reload-formats: 9 table forms (CSV, TSV, CSV with ';', CSV without header, LTSV, JSON, JSONL, FIXED with detected positions, FIXED with given positions) x 16 kinds of commit by another process "+
		"(wider values, a row, a column more / less, no rows, ALTER TABLE SET of encoding, line break, enclose-all, header, delimiter, format, pretty-print) x 4 locking statements after a plain SELECT; "+
		"oracle: the locking statement and the read after it give what they give in a transaction that starts after the commit", c20ReloadRun)
}

type c20ReloadForm struct {
	name, file, content, expr string
	id, v                     string // column names
	spaces                    bool   // the other process has to let the positions follow the values
}

var c20ReloadForms = []c20ReloadForm{
	{name: "CSV", file: "t.csv", content: "id,v\n1,aa\n2,bb\n", expr: "t", id: "id", v: "v"},
	{name: "TSV", file: "t.tsv", content: "id\tv\n1\taa\n2\tbb\n", expr: "t", id: "id", v: "v"},
	{name: "CSV(semicolon)", file: "t.csv", content: "id;v\n1;aa\n2;bb\n", expr: "csv(';', `t.csv`)", id: "id", v: "v"},
	{name: "CSV(no header)", file: "t.csv", content: "1,aa\n2,bb\n", expr: "csv(',', `t.csv`, 'UTF8', TRUE)", id: "c1", v: "c2"},
	{name: "LTSV", file: "t.ltsv", content: "id:1\tv:aa\nid:2\tv:bb\n", expr: "t", id: "id", v: "v"},
	{name: "JSON", file: "t.json", content: "[{\"id\":1,\"v\":\"aa\"},{\"id\":2,\"v\":\"bb\"}]\n", expr: "t", id: "id", v: "v"},
	{name: "JSONL", file: "t.jsonl", content: "{\"id\":1,\"v\":\"aa\"}\n{\"id\":2,\"v\":\"bb\"}\n", expr: "t", id: "id", v: "v"},
	{name: "FIXED(detected positions)", file: "t.txt", content: "id v \n1  aa\n2  bb\n", expr: "fixed('SPACES', `t.txt`)", id: "id", v: "v", spaces: true},
	{name: "FIXED(given positions)", file: "t.txt", content: "id    v       \n1     aa      \n2     bb      \n", expr: "fixed('[6,14]', `t.txt`)", id: "id", v: "v"},
}

// what the other process commits; %E table expression, %I / %V column names
var c20ReloadChanges = []struct{ name, sql string }{
	{"other-values", "UPDATE %E SET %V = 'zz' WHERE %I = 1"},
	{"wider-values", "UPDATE %E SET %V = 'aaaaaaaaaaaa', %I = 10000 WHERE %I = 1"},
	{"a-row-more", "INSERT INTO %E VALUES (30000, 'cccccccccc')"},
	{"a-column-more", "ALTER TABLE %E ADD w DEFAULT 'x'"},
	{"a-column-less", "ALTER TABLE %E DROP %V"},
	{"no-rows", "DELETE FROM %E"},
	{"encoding-UTF16", "ALTER TABLE %E SET ENCODING TO 'UTF16'"},
	{"encoding-UTF8M", "ALTER TABLE %E SET ENCODING TO 'UTF8M'"},
	{"line-break-CRLF", "ALTER TABLE %E SET LINE_BREAK TO 'CRLF'"},
	{"enclose-all", "ALTER TABLE %E SET ENCLOSE_ALL TO TRUE"},
	{"header-off", "ALTER TABLE %E SET HEADER TO FALSE"},
	{"delimiter", "ALTER TABLE %E SET DELIMITER TO '|'"},
	{"format-JSON", "ALTER TABLE %E SET FORMAT TO 'JSON'"},
	{"format-LTSV", "ALTER TABLE %E SET FORMAT TO 'LTSV'"},
	{"format-CSV", "ALTER TABLE %E SET FORMAT TO 'CSV'"},
	{"pretty-print", "ALTER TABLE %E SET PRETTY_PRINT TO TRUE"},
}

var c20ReloadLocking = []string{
	"SELECT * FROM %E FOR UPDATE",
	"UPDATE %E SET %V = 'own' WHERE %I = 2",
	"INSERT INTO %E VALUES (4, 'dd')",
	"DELETE FROM %E WHERE %I = 2",
}

type c20ReloadCase struct {
	Family  string `json:"family"`
	Form    int    `json:"form"`
	Change  int    `json:"change"`
	Locking int    `json:"locking"`
}

func c20ReloadSQL(tmpl string, f c20ReloadForm) string {
	return strings.NewReplacer("%E", f.expr, "%I", f.id, "%V", f.v).Replace(tmpl)
}

func c20ReloadOne(c *core.Ctx, dir string, k c20ReloadCase) {
	f, ch := c20ReloadForms[k.Form], c20ReloadChanges[k.Change]
	drv.ClearDir(dir)
	drv.WriteFiles(dir, map[string]string{f.file: f.content})
	outcome := func(env *drv.Env, sql string) string {
		r := env.Exec(sql + ";")
		switch {
		case r.Panic != nil:
			return fmt.Sprintf("panic: %v", r.Panic)
		case r.Err != nil:
			return "error: " + strings.Trim(strconv.QuoteToASCII(strings.ReplaceAll(r.Err.Error(), dir, "")), "\"")
		case strings.HasPrefix(sql, "SELECT") && len(r.Views) > 0:
			v := r.Views[len(r.Views)-1]
			return fmt.Sprintf("%q", drv.Header(v)) + " " + drv.RowsKey(drv.Rows(v))
		}
		return "ok"
	}
	sel, lock := c20ReloadSQL("SELECT * FROM %E", f), c20ReloadSQL(c20ReloadLocking[k.Locking], f)
	t := drv.New(dir)
	t.Tx.Flags.SetQuiet(true)
	tClosed := false
	defer func() {
		if !tClosed {
			t.Close()
		}
	}()
	first := outcome(t, sel)
	if strings.HasPrefix(first, "error") || strings.HasPrefix(first, "panic") {
		c.Incomplete(fmt.Sprintf("family reload-formats: the first read of %s fails: %s", f.name, first))
		return
	}
	// the other process
	psql := c20ReloadSQL(ch.sql, f) + ";"
	if f.spaces {
		psql = c20ReloadSQL("ALTER TABLE %E SET DELIMITER_POSITIONS TO 'SPACES'; ", f) + psql
	}
	p := drv.New(dir)
	p.Tx.AutoCommit = true
	p.Tx.Flags.SetQuiet(true)
	pr := p.Exec(psql)
	p.Close()
	if pr.Err != nil || pr.Panic != nil {
		// this kind of change does not exist for this form (e.g. an encoding for JSON): nothing was committed
		c.Observe("reload_formats_changes_not_applicable", f.name+" / "+ch.name)
		return
	}
	fileNow := drv.DirSnapshot(dir)[f.file]
	gotLock := outcome(t, lock)
	gotRead := outcome(t, sel)
	t.Exec("ROLLBACK;")
	t.Close()
	tClosed = true
	if drv.DirSnapshot(dir)[f.file] != fileNow {
		c.Violate("reload-formats:a-rolled-back-transaction-changes-the-file", fmt.Sprintf("%s, %s", f.name, ch.name), k)
		return
	}
	// the reference: a transaction that starts now
	n := drv.New(dir)
	n.Tx.Flags.SetQuiet(true)
	wantLock := outcome(n, lock)
	wantRead := outcome(n, sel)
	n.Exec("ROLLBACK;")
	n.Close()
	c.Eval(fmt.Sprintf("reload-formats|%d|%d|%d", k.Form, k.Change, k.Locking), true)
	if gotLock != wantLock || gotRead != wantRead {
		// the class: what the table form lets csvq detect in the contents (positions), else what the other process changed
		class := f.name + ":" + ch.name
		if f.spaces {
			class = f.name
		} else if strings.HasPrefix(ch.name, "encoding-") {
			class = ch.name
		}
		c.Violate("reload-formats:after-the-reload-the-transaction-does-not-work-on-the-current-file:"+class,
			fmt.Sprintf("table form %s (%s); T: %s -> %s; another process commits %q, the file is now %q;\n  T: %s -> %s\n  T: %s -> %s\n  a transaction that starts now: %s -> %s\n  %s -> %s",
				f.name, f.file, sel, first, psql, fileNow, lock, gotLock, sel, gotRead, lock, wantLock, sel, wantRead), k)
	}
}

func c20ReloadRun(c *core.Ctx) {
	if !c20Only("reload-formats") {
		return
	}
	dir := core.Scratch("c20reload")
	var idx int64
	for fi := range c20ReloadForms {
		for ci := range c20ReloadChanges {
			for li := range c20ReloadLocking {
				idx++
				if !c.Mine(idx) {
					continue
				}
				if c.Expired() {
					c.Incomplete("family reload-formats: time budget reached")
					return
				}
				c20ReloadOne(c, dir, c20ReloadCase{"reload-formats", fi, ci, li})
			}
		}
	}
}

func c20ReloadReplay(c *core.Ctx, payload json.RawMessage) bool {
	var k c20ReloadCase
	if json.Unmarshal(payload, &k) != nil || k.Family != "reload-formats" {
		return false
	}
	fmt.Printf("replaying family reload-formats: %+v\n", k)
	c20ReloadOne(c, core.Scratch("c20reload-replay"), k)
	return true
}
